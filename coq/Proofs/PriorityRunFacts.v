(* C12 / C08, run level: the priority scheduler (Model/Sched.v, [priority_step]) in the closed loop of
   [sim_run] (Model/Simulator.v).

   R1  priority_run_errors_partial (both container modes): a run of the priority policy from the initial
       state can stop only with an error raised inside a container tick or by the lifecycle state machine
       ([inner_err]); never because a command names a wrong pool, oversells a pool, suspends a container
       that is not there or cannot be suspended, violates the operator-count assertion, builds an
       Assignment with bad arguments, or trips an assertion of the scheduler.  The invariant behind it
       ([pr_inv], sections 2-8) ties the scheduler's bookkeeping to the executor's state: pool ids,
       globally unique container ids, the container invariant of LedgerFacts for all three lists of every
       pool, positive allocations, non-negative free amounts (so the snapshot the scans work on is
       admissible: C12_admissible applies in every round), a PENDING operator in every suspended container
       that has not been re-queued, an unfinished (busy) operator in every suspending one, well-formed
       queued and noted jobs, positive requests in the results.
   R2  priority_single_runs_to_end (section 9): CLOSED LOOP for single-operator containers: the run
       reaches its last tick, and no suspension is ever issued.  Re-uses the executor half of the closed
       loop of SafetyFacts ([pools_tick_total]).
       The closed loop for multi-operator containers (preemption, suspension, re-queue) is proved in
       Proofs/PriorityMultiFacts.v ([priority_multi_runs_to_end], [priority_runs_to_end]).
   R3  run-level queue invariants (sections 9-10): class queues hold jobs of their class and only
       well-formed jobs (both modes); suspension commands of a tick name distinct containers (both modes);
       in single-operator mode no operator is queued twice, queued operators are PENDING or FAILED with
       complete parents and are owned by no live container, and no ready PENDING operator of an arrived
       pipeline is lost ([nolost]); FAILED operators can leave the queues for good (C12_retry_dropped),
       which is why "never lost" is stated for PENDING operators only. *)
From Coq Require Import ZArith QArith List Bool Arith Lia Lqa Permutation.
Import ListNotations.
From Eudoxia Require Import Num.Rnd64 Model.Types Model.Dag Model.Lifecycle Model.Container Model.Pool
  Model.Executor Model.Sched Model.Simulator
  Proofs.ListFacts Proofs.LifecycleFacts Proofs.OomFacts Proofs.LedgerFacts Proofs.SuspendFacts
  Proofs.ConserveFacts Proofs.ExecLifeFacts Proofs.PriorityFacts Proofs.SafetyFacts.
Close Scope Q_scope.
Close Scope Z_scope.

(* [H : bind r f = Ok _] *)
Ltac bok H x E :=
  match type of H with
  | bind ?r _ = Ok _ =>
      destruct r as [x|?] eqn:E; [unfold bind at 1 in H; cbv beta iota in H | discriminate H]
  end.

(* ------------------------------------------------------------------------------------------ *)
(* 1. small facts                                                                              *)
(* ------------------------------------------------------------------------------------------ *)

Lemma valid_from_pending new : valid Pending new = true -> new = Assigned.
Proof. destruct new; cbn; intros H; try discriminate; reflexivity. Qed.

Lemma pending_stays_step S w op new w' o :
  new <> Assigned -> transition S w op new = Ok w' -> st_of w o = Pending -> st_of w' o = Pending.
Proof.
  intros Hn T E. destruct (Nat.eq_dec o op) as [->|N].
  - exfalso. apply transition_ok in T. destruct T as [V _]. rewrite E in V.
    apply valid_from_pending in V. contradiction.
  - rewrite (transition_st_other _ _ _ _ _ _ T N). exact E.
Qed.

(* the executor never asks for Assigned: a PENDING operator stays PENDING through executor work *)
Lemma pending_stays S w w' o : steps_na S w w' -> st_of w o = Pending -> st_of w' o = Pending.
Proof. induction 1; intros; auto. apply IHsteps_na. eapply pending_stays_step; eauto. Qed.

Lemma assignable_cases a : assignable a = true <-> a = Pending \/ a = Failed.
Proof. destruct a; cbn; split; intros H; try discriminate; auto; destruct H; discriminate. Qed.

Lemma assignable_stays S w w' o :
  steps_na S w w' -> assignable (st_of w o) = true -> st_of w' o = st_of w o.
Proof.
  intros St A. apply assignable_cases in A. destruct A as [A|A]; rewrite A.
  - eapply pending_stays; eauto.
  - eapply failed_stays; eauto.
Qed.

Lemma steps_na_wlen St w w' : steps_na St w w' -> wlen St w -> wlen St w'.
Proof. intros H L. unfold wlen in *. rewrite (steps_na_length _ _ _ H). exact L. Qed.

(* the container invariant of LedgerFacts under arbitrary accepted requests, for a live container *)
Lemma cinv_steps_live P S w w' c :
  steps S w w' -> c_completed c = false -> cinv P w c -> cinv P w' c.
Proof.
  intros St Hc (HP & Hpre & Hk & Hlt & _ & _).
  split; [exact HP|]. split; [|split; [|split; [exact Hlt|split]]].
  - intros o Ho. eapply completed_final; eauto.
  - intros o Ho. rewrite (steps_length _ _ _ St). apply Hk. exact Ho.
  - intros X. congruence.
  - intros X. congruence.
Qed.

Lemma cinv_with_susp P w c z : cinv P w c -> cinv P w (with_susp c z).
Proof. apply cinv_ext; reflexivity. Qed.

Lemma Forall_app_3 {A} (P : A -> Prop) a b c :
  Forall P (a ++ b ++ c) <-> Forall P a /\ Forall P b /\ Forall P c.
Proof. rewrite !Forall_app. tauto. Qed.

(* ------------------------------------------------------------------------------------------ *)
(* 2. one pool tick: what carries over to all three container lists                             *)
(* ------------------------------------------------------------------------------------------ *)

Definition lcinv (P : list nat -> Prop) (w : world) (c : container) : Prop :=
  cinv P w c /\ c_completed c = false.

Definition res_ok (P : list nat -> Prop) (w : world) (r : result) : Prop :=
  P (r_ops r) /\ forall o, In o (r_ops r) -> o < length (w_st w).

(* the container invariant holds again for every container the pool keeps (active, suspending,
   suspended), and the results carry operator lists with the carried property *)
Lemma pool_tick_cinv_all P C w next p ss asgs w' next' p' res :
  Forall (lcinv P w) (pool_conts p) ->
  (forall a, In a asgs -> P (a_ops a) /\ forall o, In o (a_ops a) -> o < length (w_st w)) ->
  pool_tick C w next p ss asgs = Ok (w', next', p', res) ->
  steps_na (cf_static C) w w' /\ Forall (lcinv P w') (pool_conts p') /\ Forall (res_ok P w') res.
Proof.
  intros F Ha H. apply LedgerFacts.pool_tick_inv in H.
  destruct H as (w1 & act1 & sing1 & cons1 & acpu2 & aram2 & act2 & w3 & sing3 & w4 & cons4 & act4
                 & cons5 & act5 & E1 & E2 & E3 & E4 & E5 & -> & ->).
  apply LedgerFacts.phase1_facts in E1. destruct E1 as (S1 & I1 & _ & I3 & _).
  apply LedgerFacts.phase2_spec in E2. destruct E2 as (_ & -> & _ & _ & Hoc).
  apply tick_suspending_spec in E3. destruct E3 as [-> S3].
  pose proof (tick_active_spec _ _ _ _ _ _ _ E4) as (S4 & _ & _).
  pose proof (oom_killer_facts _ _ _ _ _ _ _ _ E5) as (S5 & _).
  assert (S13 : steps_na (cf_static C) w w3) by (eapply steps_na_trans; eauto).
  assert (S35 : steps_na (cf_static C) w3 w') by (eapply steps_na_trans; eauto).
  assert (S15 : steps_na (cf_static C) w w') by (eapply steps_na_trans; eauto).
  unfold pool_conts in F. apply Forall_app_3 in F. destruct F as (Fa & Fs & Fd).
  rewrite Forall_forall in Fa, Fs, Fd.
  assert (F5 : Forall (cinv P w') act5).
  { eapply oom_killer_cinv; [exact E5|]. eapply tick_active_cinv; [exact E4|].
    apply Forall_app. split.
    - eapply Forall_cinv_steps; [exact S13|]. apply Forall_forall. intros x Hx.
      apply Fa. apply I1. exact Hx.
    - apply Forall_forall. intros x Hx. apply new_containers_In in Hx.
      destruct Hx as (a & Hin & Eo & _ & _ & Ei & Ec & _ & Ee).
      destruct (Ha a Hin) as [HPa Hka].
      unfold cinv, ops_known. rewrite Eo, Ei, Ec, Ee. cbn [firstn].
      split; [exact HPa|]. split; [intros o []|]. split.
      { intros o Ho. rewrite (steps_na_length _ _ _ S13). apply Hka. exact Ho. }
      split; [intros _; apply (opcount_ok_pos C); apply Hoc; exact Hin|].
      split; discriminate. }
  assert (F1 : forall x, In x sing1 -> lcinv P w x).
  { intros x Hx. destruct (I3 x Hx) as [Hs|(c & Hc & ->)]; [apply Fs; exact Hs|].
    destruct (Fa c Hc) as [Ic Nc]. split; [apply cinv_with_susp; exact Ic | exact Nc]. }
  assert (F3 : forall x, In x (map susp_dec sing1) -> lcinv P w' x).
  { intros x Hx. apply in_map_iff in Hx. destruct Hx as [y [<- Hy]].
    destruct (F1 y Hy) as [Iy Ny]. split; [|exact Ny].
    unfold susp_dec. apply cinv_with_susp. eapply cinv_steps; eauto. }
  split; [exact S15|]. split.
  - unfold pool_conts. cbn [pool_after upd_pool p_active p_suspending p_suspended].
    apply Forall_app_3. split; [|split].
    + apply Forall_forall. intros x Hx. apply filter_In in Hx. destruct Hx as [Hx Hn].
      rewrite Forall_forall in F5. split; [apply F5; exact Hx|].
      apply negb_true_iff in Hn. exact Hn.
    + apply Forall_forall. intros x Hx. apply filter_In in Hx. apply F3. tauto.
    + apply Forall_app. split.
      * apply Forall_forall. intros x Hx. destruct (Fd x Hx) as [Ix Nx]. split; [|exact Nx].
        eapply cinv_steps; eauto.
      * apply Forall_forall. intros x Hx. apply filter_In in Hx. apply F3. tauto.
  - apply Forall_forall. intros r Hr. apply in_map_iff in Hr. destruct Hr as [c [<- Hc]].
    apply filter_In in Hc. destruct Hc as [Hc _]. rewrite Forall_forall in F5.
    destruct (F5 c Hc) as (HP & _ & Hk & _). split; [exact HP | exact Hk].
Qed.

(* where the containers of the pool come from: each keeps the static fields (id, operators, cpu, ram,
   priority) of a container the pool had, or of one created in this tick *)
Lemma same_static_with_susp c z : same_static c (with_susp c z).
Proof. unfold same_static. auto. Qed.

Lemma pool_tick_origin C w next p ss asgs w' next' p' res :
  pool_tick C w next p ss asgs = Ok (w', next', p', res) ->
  forall c', In c' (pool_conts p') ->
    exists c, (In c (pool_conts p) \/ In c (new_containers next asgs)) /\ same_static c c'.
Proof.
  intros H c' Hc'. apply LedgerFacts.pool_tick_inv in H.
  destruct H as (w1 & act1 & sing1 & cons1 & acpu2 & aram2 & act2 & w3 & sing3 & w4 & cons4 & act4
                 & cons5 & act5 & E1 & E2 & E3 & E4 & E5 & -> & _).
  apply LedgerFacts.phase1_facts in E1. destruct E1 as (_ & I1 & _ & I3 & _).
  apply LedgerFacts.phase2_spec in E2. destruct E2 as (_ & -> & _).
  apply tick_suspending_spec in E3. destruct E3 as [-> _].
  assert (G3 : forall x, In x (map susp_dec sing1) ->
                 exists c, In c (pool_conts p) /\ same_static c x).
  { intros x Hx. apply in_map_iff in Hx. destruct Hx as [y [<- Hy]].
    destruct (I3 y Hy) as [Hs|(c & Hc & ->)].
    - exists y. split; [unfold pool_conts; rewrite !in_app_iff; auto|].
      unfold susp_dec. apply same_static_with_susp.
    - exists c. split; [unfold pool_conts; rewrite !in_app_iff; auto|].
      eapply same_static_trans; [apply same_static_with_susp|].
      unfold susp_dec. apply same_static_with_susp. }
  unfold pool_conts in Hc'. cbn [pool_after upd_pool p_active p_suspending p_suspended] in Hc'.
  rewrite !in_app_iff in Hc'. destruct Hc' as [Hc'|[Hc'|[Hc'|Hc']]].
  - apply filter_In in Hc'. destruct Hc' as [Hc5 _].
    destruct (oom_killer_static _ _ _ _ _ _ _ _ _ E5 Hc5) as (c4 & Hc4 & S45).
    apply tick_active_spec in E4. destruct E4 as (_ & _ & F2).
    destruct (Forall2_In_right _ _ _ _ F2 Hc4) as (c2 & Hc2 & wa & ca & wb & cb & _ & K & _).
    apply ctick_cases in K. destruct K as [(K1 & K2 & K3 & K4 & K5 & _) _].
    exists c2. split.
    + apply in_app_or in Hc2. destruct Hc2 as [Hc2|Hc2]; [left|right; exact Hc2].
      unfold pool_conts. apply in_or_app. left. apply I1. exact Hc2.
    + eapply same_static_trans; [|exact S45]. unfold same_static. auto.
  - apply filter_In in Hc'. destruct (G3 c' (proj1 Hc')) as (c & Hc & Sc). exists c. auto.
  - exists c'. split; [left; unfold pool_conts; rewrite !in_app_iff; auto | apply same_static_refl].
  - apply filter_In in Hc'. destruct (G3 c' (proj1 Hc')) as (c & Hc & Sc). exists c. auto.
Qed.

Definition cpos (c : container) : Prop := (0 < c_cpu c)%Z /\ (0 < c_ram c)%Q.
Definition rpos (r : result) : Prop := (0 < r_cpu r)%Z /\ (0 < r_ram r)%Q.

Lemma cpos_static c c' : same_static c c' -> cpos c -> cpos c'.
Proof. intros (_ & _ & E1 & E2 & _) [H1 H2]. unfold cpos. rewrite E1, E2. auto. Qed.

Lemma new_containers_cpos asgs next c :
  asgs_pos asgs -> In c (new_containers next asgs) -> cpos c.
Proof.
  intros Hp Hc. apply new_containers_In in Hc. destruct Hc as (a & Ha & _ & E1 & E2 & _).
  unfold cpos. rewrite E1, E2. apply Hp. exact Ha.
Qed.

(* every container and every result keeps a positive allocation *)
Lemma pool_tick_cpos C w next p ss asgs w' next' p' res :
  pool_tick C w next p ss asgs = Ok (w', next', p', res) ->
  Forall cpos (pool_conts p) -> asgs_pos asgs ->
  Forall cpos (pool_conts p') /\ Forall rpos res.
Proof.
  intros H F Hp. rewrite Forall_forall in F. split.
  - apply Forall_forall. intros c' Hc'.
    destruct (pool_tick_origin _ _ _ _ _ _ _ _ _ _ H c' Hc') as (c & [Hc|Hc] & Sc).
    + eapply cpos_static; [exact Sc | apply F; exact Hc].
    + eapply cpos_static; [exact Sc | eapply new_containers_cpos; eauto].
  - apply Forall_forall. intros r Hr.
    destruct (result_of_one_container _ _ _ _ _ _ _ _ _ _ _ H Hr) as (_ & c & Hc & _ & _ & E1 & E2 & _).
    unfold rpos. rewrite E1, E2. destruct Hc as [Hc|Hc].
    + apply F. unfold pool_conts. apply in_or_app. left. exact Hc.
    + eapply new_containers_cpos; eauto.
Qed.

Lemma sumZ_map_nonneg {A} (f : A -> Z) l : (forall x, In x l -> (0 <= f x)%Z) -> (0 <= sumZ (map f l))%Z.
Proof.
  induction l as [|x t IH]; intros H; cbn [map sumZ]; [lia|].
  pose proof (H x (or_introl eq_refl)). assert (0 <= sumZ (map f t))%Z by (apply IH; intros; apply H; right; auto).
  lia.
Qed.
Lemma sumQ_map_nonneg {A} (f : A -> Q) l : (forall x, In x l -> (0 <= f x)%Q) -> (0 <= sumQ (map f l))%Q.
Proof.
  induction l as [|x t IH]; intros H; cbn [map sumQ]; [lra|].
  pose proof (H x (or_introl eq_refl)). assert (0 <= sumQ (map f t))%Q by (apply IH; intros; apply H; right; auto).
  lra.
Qed.

(* the free amounts stay non-negative when the batch fits (the executor checks RAM only without
   overcommit; the priority policy never hands out more than is free anyway) *)
Lemma pool_tick_avail_nonneg C w next p ss asgs w' next' p' res :
  pool_tick C w next p ss asgs = Ok (w', next', p', res) ->
  Forall cpos (pool_conts p) -> asgs_pos asgs ->
  (sumZ (map a_cpu asgs) <= p_avail_cpu p)%Z -> (sumQ (map a_ram asgs) <= p_avail_ram p)%Q ->
  (0 <= p_avail_cpu p')%Z /\ (0 <= p_avail_ram p')%Q.
Proof.
  intros H F Hp Hc Hr.
  destruct (pool_tick_cpos _ _ _ _ _ _ _ _ _ _ H F Hp) as [F' R'].
  apply pool_tick_returned in H. destruct H as (done & Ed & _ & _ & _ & Ac & Ar).
  rewrite Forall_forall in F', R'.
  assert (Fd : forall c, In c done -> cpos c).
  { intros c Hc'. apply F'. unfold pool_conts. rewrite Ed, !in_app_iff. auto. }
  assert (Z1 : (0 <= sumZ (map r_cpu res))%Z).
  { apply sumZ_map_nonneg. intros r Hr'. destruct (R' r Hr'). lia. }
  assert (Z2 : (0 <= sumZ (map c_cpu done))%Z).
  { apply sumZ_map_nonneg. intros c Hc'. destruct (Fd c Hc'). lia. }
  assert (Q1 : (0 <= sumQ (map r_ram res))%Q).
  { apply sumQ_map_nonneg. intros r Hr'. destruct (R' r Hr'). lra. }
  assert (Q2 : (0 <= sumQ (map c_ram done))%Q).
  { apply sumQ_map_nonneg. intros c Hc'. destruct (Fd c Hc'). lra. }
  split; [lia | rewrite Ar; lra].
Qed.

(* a container whose suspension ends in this tick: its unfinished operators are PENDING afterwards *)
Lemma tick_suspending_released C : forall sing w w' sing',
  tick_suspending C w sing = Ok (w', sing') ->
  forall x, In x sing -> (c_susp_left x - 1 = 0)%Z ->
  forall o, In o (skipn (c_opidx x) (c_ops x)) -> o < length (w_st w) -> st_of w' o = Pending.
Proof.
  induction sing as [|c t IH]; intros w w' sing' H x Hx Hl o Ho Lo; [destruct Hx|].
  cbn [tick_suspending] in H. bok H r1 E1. destruct r1 as [w1 c1]. bok H r2 E2. destruct r2 as [w2 t2].
  inversion H; subst. pose proof (csuspend_tick_steps_na _ _ _ _ _ E1) as S1.
  destruct Hx as [->|Hx].
  - apply csuspend_tick_ok in E1. destruct E1 as [_ [[_ T]|[N _]]]; [|contradiction].
    apply tick_suspending_spec in E2. destruct E2 as [_ S2].
    eapply pending_stays; [exact S2|]. eapply transition_all_set; eauto.
  - eapply IH; eauto. rewrite (steps_na_length _ _ _ S1). exact Lo.
Qed.

Definition has_pending (w : world) (c : container) : Prop :=
  exists o, In o (c_ops c) /\ st_of w o = Pending.

Lemma has_pending_stays S w w' c : steps_na S w w' -> has_pending w c -> has_pending w' c.
Proof. intros St (o & Ho & Hs). exists o. split; [exact Ho | eapply pending_stays; eauto]. Qed.

(* the containers that enter the suspended list in this tick have a PENDING operator *)
Lemma pool_tick_fresh P C w next p ss asgs w' next' p' res :
  pool_tick C w next p ss asgs = Ok (w', next', p', res) ->
  Forall (lcinv P w) (pool_conts p) ->
  forall c, In c (p_suspended p') -> In c (p_suspended p) \/ has_pending w' c.
Proof.
  intros H F c Hc. apply LedgerFacts.pool_tick_inv in H.
  destruct H as (w1 & act1 & sing1 & cons1 & acpu2 & aram2 & act2 & w3 & sing3 & w4 & cons4 & act4
                 & cons5 & act5 & E1 & E2 & E3 & E4 & E5 & -> & _).
  cbn [pool_after upd_pool p_suspended] in Hc. apply in_app_or in Hc.
  destruct Hc as [Hc|Hc]; [left; exact Hc | right].
  apply LedgerFacts.phase1_facts in E1. destruct E1 as (S1 & _ & _ & I3 & _).
  pose proof (tick_suspending_spec _ _ _ _ _ E3) as [Es S3].
  pose proof (tick_active_spec _ _ _ _ _ _ _ E4) as (S4 & _ & _).
  pose proof (oom_killer_facts _ _ _ _ _ _ _ _ E5) as (S5 & _).
  unfold pool_conts in F. apply Forall_app_3 in F. destruct F as (Fa & Fs & _).
  rewrite Forall_forall in Fa, Fs.
  apply filter_In in Hc. destruct Hc as [Hc Hz]. rewrite Es in Hc.
  apply in_map_iff in Hc. destruct Hc as [y [<- Hy]].
  assert (Iy : lcinv P w y).
  { destruct (I3 y Hy) as [Hs|(c0 & Hc0 & ->)]; [apply Fs; exact Hs|].
    destruct (Fa c0 Hc0) as [I0 N0]. split; [apply cinv_with_susp; exact I0 | exact N0]. }
  destruct Iy as [(_ & _ & Hk & Hlt & _) Ny]. specialize (Hlt Ny).
  unfold is_suspended, susp_dec in Hz. cbn [with_susp c_susp_left] in Hz. apply Z.eqb_eq in Hz.
  destruct (nth_error (c_ops y) (c_opidx y)) as [o|] eqn:N.
  2:{ apply nth_error_None in N. lia. }
  assert (Ho : In o (skipn (c_opidx y) (c_ops y))).
  { rewrite (skipn_nth_error _ _ _ N). left. reflexivity. }
  assert (Hin : In o (c_ops y)) by (eapply nth_error_In; eauto).
  exists o. split; [exact Hin|].
  eapply pending_stays; [eapply steps_na_trans; [exact S4 | exact S5]|].
  eapply (tick_suspending_released _ _ _ _ _ E3 y Hy Hz o Ho).
  rewrite (steps_na_length _ _ _ S1). apply Hk. exact Hin.
Qed.

(* ------------------------------------------------------------------------------------------ *)
(* 3. all pools                                                                                *)
(* ------------------------------------------------------------------------------------------ *)

Section PoolsTickLift.
Variable C : cfg.
Variables (ss : list susp) (asgs : list asg).
Variable Pre : world -> pool -> Prop.
Variable Rel : world -> pool -> pool -> Prop.
Variable Res : world -> result -> Prop.
Hypothesis Pre_mono : forall w w' p, steps_na (cf_static C) w w' -> Pre w p -> Pre w' p.
Hypothesis Rel_mono : forall w w' p p', steps_na (cf_static C) w w' -> Rel w p p' -> Rel w' p p'.
Hypothesis Res_mono : forall w w' r, steps_na (cf_static C) w w' -> Res w r -> Res w' r.
Hypothesis Hstep : forall w next p w' next' p' res,
  Pre w p -> pool_tick C w next p (mine_s p ss) (mine_a p asgs) = Ok (w', next', p', res) ->
  steps_na (cf_static C) w w' /\ Rel w' p p' /\ Forall (Res w') res.

Lemma pools_tick_lift : forall ps w next w' next' ps' res,
  pools_tick C w next ps ss asgs = Ok (w', next', ps', res) -> Forall (Pre w) ps ->
  steps_na (cf_static C) w w' /\ Forall2 (Rel w') ps ps' /\ Forall (Res w') res.
Proof.
  induction ps as [|p t IH]; intros w next w' next' ps' res H F; cbn [pools_tick] in H.
  - inversion H; subst. split; [constructor|]. split; constructor.
  - cbv zeta in H. bok H r1 E1. destruct r1 as [[[w1 next1] p1] res1].
    bok H r2 E2. destruct r2 as [[[w2 next2] t2] res2]. inversion H; subst.
    inversion F as [|? ? Fp Ft]; subst.
    destruct (Hstep _ _ _ _ _ _ _ Fp E1) as (S1 & R1 & Q1).
    assert (Ft1 : Forall (Pre w1) t).
    { eapply Forall_impl; [|exact Ft]. intros q. apply Pre_mono. exact S1. }
    destruct (IH _ _ _ _ _ _ E2 Ft1) as (S2 & R2 & Q2).
    split; [eapply steps_na_trans; eauto|]. split.
    + constructor; [eapply Rel_mono; eauto | exact R2].
    + apply Forall_app. split; [|exact Q2].
      eapply Forall_impl; [|exact Q1]. intros r. apply Res_mono. exact S2.
Qed.
End PoolsTickLift.

Lemma pools_tick_err C ss asgs : forall ps w next e,
  pools_tick C w next ps ss asgs = Err e ->
  exists w0 next0 p, In p ps /\ pool_tick C w0 next0 p (mine_s p ss) (mine_a p asgs) = Err e.
Proof.
  induction ps as [|p t IH]; intros w next e H; cbn [pools_tick] in H; [discriminate|].
  cbv zeta in H. apply bind_err_inv in H. destruct H as [H|[[[[w1 next1] p1] res1] [_ H]]].
  - exists w, next, p. split; [left; reflexivity | exact H].
  - apply bind_err_inv in H. destruct H as [H|[[[[w2 next2] t2] res2] [_ H]]]; [|discriminate].
    destruct (IH _ _ _ H) as (w0 & n0 & q & Hq & Hq'). exists w0, n0, q. split; [right; exact Hq | exact Hq'].
Qed.

(* ------------------------------------------------------------------------------------------ *)
(* 4. one pool tick with suspensions: which errors are left when the commands are well-formed   *)
(* ------------------------------------------------------------------------------------------ *)

Lemma apply_suspends_not_bad C : forall ss w act sing e,
  apply_suspends C w act sing ss = Err e ->
  (forall s, In s ss -> In (su_cid s) (map c_id act)) -> NoDup (map su_cid ss) ->
  inner_err e.
Proof.
  induction ss as [|s t IH]; intros w act sing e H Hp ND; [discriminate|].
  cbn [apply_suspends] in H. cbn [map] in ND. inversion ND as [|? ? Ns Nt]; subst.
  destruct (find_container (su_cid s) act) as [c|] eqn:F.
  - apply bind_err_inv in H. destruct H as [H|[[w1 c1] [_ H]]].
    + apply csuspend_err in H. subst. unfold inner_err. auto.
    + eapply IH; [exact H| |exact Nt]. intros s' Hs'.
      pose proof (Hp s' (or_intror Hs')) as Hin. apply in_map_iff in Hin. destruct Hin as [x [Ex Hx]].
      apply in_map_iff. exists x. split; [exact Ex|]. unfold remove_container. apply filter_In.
      split; [exact Hx|]. apply negb_true_iff. apply Nat.eqb_neq. intros Eq. apply Ns.
      apply in_map_iff. exists s'. split; [congruence | exact Hs'].
  - exfalso. apply find_container_none in F. apply F. apply Hp. left. reflexivity.
Qed.

(* a pool tick whose suspension commands name distinct suspendable active containers and whose batch
   passes the oversell check and the operator-count assertion can fail only inside a container *)
Lemma pool_tick_checked_err C w next p ss asgs e :
  pool_tick C w next p ss asgs = Err e ->
  Forall (suspendable (p_active p)) ss -> NoDup (map su_cid ss) ->
  (asgs = [] \/ verify_assignments C p asgs = Ok tt) ->
  (forall a, In a asgs -> opcount_ok C a = true) ->
  inner_err e.
Proof.
  unfold pool_tick. intros H Vs Ns V O.
  apply bind_err_inv in H. destruct H as [H|[[[[w1 act1] sing1] cons1] [_ H]]].
  { destruct ss as [|s0 t]; [discriminate|].
    apply bind_err_inv in H. destruct H as [H|[u [_ H]]].
    - apply verify_suspends_iff in Vs. rewrite Vs in H. discriminate.
    - apply bind_err_inv in H. destruct H as [H|[[[wa acta] singa] [_ H]]]; [|discriminate].
      eapply apply_suspends_not_bad; [exact H| |exact Ns].
      intros s Hs. rewrite Forall_forall in Vs. destruct (Vs s Hs) as (c & Fc & _).
      apply find_container_some in Fc. destruct Fc as [Fin Fid]. rewrite <- Fid. apply in_map. exact Fin. }
  apply bind_err_inv in H. destruct H as [H|[[[[next2 acpu2] aram2] act2] [_ H]]].
  { destruct asgs as [|a0 t]; [discriminate|]. destruct V as [V|V]; [discriminate|].
    rewrite V in H. cbn [bind] in H. apply apply_assignments_err in H.
    destruct H as [_ [a [Ha Oa]]]. rewrite (O a Ha) in Oa. discriminate. }
  apply bind_err_inv in H. destruct H as [H|[[w3 sing3] [_ H]]];
    [eapply tick_suspending_inner; eauto|].
  cbv zeta in H.
  apply bind_err_inv in H. destruct H as [H|[[[w4 cons4] act4] [_ H]]];
    [eapply tick_active_inner; eauto|].
  apply bind_err_inv in H. destruct H as [H|[[[w5 cons5] act5] [_ H]]];
    [eapply oom_killer_inner; eauto|discriminate].
Qed.

Definition mine_su (p : pool) (ss : list susp) : list susp := mine_s p ss.

(* the command checks of one executor tick, with suspensions *)
Definition checks_pass_s (C : cfg) (ps : list pool) (ss : list susp) (asgs : list asg) : Prop :=
  forallb (fun x => pool_in_range (length ps) (su_pool x)) ss = true /\
  forallb (fun a => pool_in_range (length ps) (a_pool a)) asgs = true /\
  (forall p, In p ps -> Forall (suspendable (p_active p)) (mine_s p ss) /\ NoDup (map su_cid (mine_s p ss))) /\
  (forall p, In p ps -> mine_a p asgs = [] \/ verify_assignments C p (mine_a p asgs) = Ok tt) /\
  (forall a, In a asgs -> opcount_ok C a = true).

Theorem exec_tick_checked_err_s C s ss asgs e :
  exec_tick C s ss asgs = Err e -> checks_pass_s C (e_pools s) ss asgs -> inner_err e.
Proof.
  unfold exec_tick. intros H (R1 & R2 & Vs & V & O). cbv zeta in H. rewrite R1, R2 in H.
  cbn [negb andb] in H. apply bind_err_inv in H. destruct H as [H|[[[[w next] ps] res] [_ H]]];
    [|discriminate].
  apply pools_tick_err in H. destruct H as (w0 & n0 & p & Hp & H).
  destruct (Vs p Hp) as [V1 V2].
  eapply pool_tick_checked_err; [exact H|exact V1|exact V2|apply V; exact Hp|].
  intros a Ha. apply O. unfold mine_a in Ha. apply filter_In in Ha. tauto.
Qed.

(* ------------------------------------------------------------------------------------------ *)
(* 5. the scheduler's bookkeeping: well-formed jobs                                            *)
(* ------------------------------------------------------------------------------------------ *)

(* an operator list fit for a container of this mode *)
Definition opsP (C : cfg) (l : list nat) : Prop := l <> [] /\ (cf_multi C = false -> length l = 1).
Definition retry_pos (o : option retry) : Prop :=
  match o with Some rs => (0 < rt_cpu rs)%Z /\ (0 < rt_ram rs)%Q | None => True end.
(* a well-formed job: operators fit for a container, known operators, positive remembered request *)
Definition jgood (C : cfg) (j : job) : Prop :=
  opsP C (j_ops j) /\ ops_in_range (cf_static C) (j_ops j) /\ retry_pos (j_retry j).
Definition sched_good (C : cfg) (s : sstate) : Prop :=
  (forall p j, In j (queue_of s p) -> jgood C j) /\
  (forall kv, In kv (ss_suspending s) -> jgood C (snd kv)).
Definition cgood (C : cfg) (w : world) (c : container) : Prop := lcinv (opsP C) w c /\ cpos c.
Definition pools_cgood (C : cfg) (e : estate) : Prop :=
  Forall (fun p => Forall (cgood C (e_world e)) (pool_conts p)) (e_pools e).
Definition pipes_in_range (St : static) : Prop :=
  forall k o, In o (pd_order (pipe_of St k)) -> o < length (s_ops St).

Lemma sched_good_init C : sched_good C init_sstate.
Proof. split; [intros [] j []|intros kv []]. Qed.

Definition vals_from (m : list (nat * retry)) (rs : list result) : Prop :=
  forall kv, In kv m -> exists r, In r rs /\ snd kv = retry_of_result r.

Lemma retry_fold_inner w r all : forall ops m,
  In r all -> vals_from m all ->
  vals_from (fold_left (fun m' o => if ostate_eqb (st_of w o) Completed then m'
                                    else assoc_set o (retry_of_result r) m') ops m) all.
Proof.
  induction ops as [|o t IH]; intros m Hr V; cbn [fold_left]; [exact V|].
  apply IH; [exact Hr|]. destruct (ostate_eqb (st_of w o) Completed); [exact V|].
  intros kv Hkv. apply assoc_set_In in Hkv. destruct Hkv as [->|Hkv]; [|apply V; exact Hkv].
  exists r. split; [exact Hr | reflexivity].
Qed.

Lemma retry_fold_outer w all : forall results m,
  incl results all -> vals_from m all ->
  vals_from (fold_left (fun m r =>
     if r_err r then
       fold_left (fun m' o => if ostate_eqb (st_of w o) Completed then m'
                              else assoc_set o (retry_of_result r) m') (r_ops r) m
     else m) results m) all.
Proof.
  induction results as [|r t IH]; intros m Hi V; cbn [fold_left]; [exact V|].
  apply IH; [intros x Hx; apply Hi; right; exact Hx|].
  destruct (r_err r); [|exact V]. apply retry_fold_inner; [apply Hi; left; reflexivity | exact V].
Qed.

Lemma retry_info_from w results o rs :
  assoc_find o (retry_info w results) = Some rs -> exists r, In r results /\ rs = retry_of_result r.
Proof.
  intros H. apply assoc_find_In in H.
  assert (V : vals_from (retry_info w results) results).
  { unfold retry_info. apply retry_fold_outer; [apply incl_refl | intros kv []]. }
  destruct (V _ H) as (r & Hr & E). exists r. auto.
Qed.

Lemma retry_pos_find w results o :
  Forall rpos results -> retry_pos (assoc_find o (retry_info w results)).
Proof.
  intros F. destruct (assoc_find o (retry_info w results)) as [rs|] eqn:E; [|exact I].
  apply retry_info_from in E. destruct E as (r & Hr & ->). rewrite Forall_forall in F.
  destruct (F r Hr) as [A B]. split; assumption.
Qed.

Lemma pr_new_jobs_good C w s results newp j :
  pipes_in_range (cf_static C) -> Forall rpos results ->
  In j (pr_new_jobs C w s results newp) -> jgood C j.
Proof.
  intros Hrange Hr Hj. unfold pr_new_jobs in Hj. cbv zeta in Hj.
  apply in_flat_map in Hj. destruct Hj as [p [_ Hj]].
  assert (R0 : forall o, In o (if cf_multi C then get_ops (S_of C) w p assignable false
                               else get_ops (S_of C) w p assignable true) ->
                         o < length (s_ops (cf_static C))).
  { intros o Ho. destruct (cf_multi C); unfold get_ops in Ho; apply filter_In in Ho;
      eapply Hrange; apply Ho. }
  match type of Hj with In _ (match ?X with _ => _ end) => remember X as ops eqn:Eops end.
  assert (R1 : forall o, In o ops -> o < length (s_ops (cf_static C))).
  { intros o Ho. rewrite Eops in Ho. apply filter_In in Ho. apply R0. tauto. }
  clear Eops R0. destruct ops as [|o t]; [destruct Hj|].
  destruct (cf_multi C) eqn:M.
  - destruct Hj as [<-|[]]. unfold jgood, opsP. cbn [j_ops j_retry].
    split; [split; [discriminate | intros X; rewrite M in X; discriminate]|].
    split; [apply Forall_forall; exact R1 | apply retry_pos_find; exact Hr].
  - apply in_map_iff in Hj. destruct Hj as [o' [<- Ho']]. unfold jgood, opsP. cbn [j_ops j_retry].
    split; [split; [discriminate | reflexivity]|].
    split; [constructor; [apply R1; exact Ho' | constructor] | apply retry_pos_find; exact Hr].
Qed.

Lemma filter_length_le' {A} (f : A -> bool) l : length (filter f l) <= length l.
Proof. induction l as [|a t IH]; cbn; [lia|]. destruct (f a); cbn; lia. Qed.

Lemma cgood_range C w c : wlen (cf_static C) w -> cgood C w c -> ops_in_range (cf_static C) (c_ops c).
Proof.
  intros L [[(_ & _ & Hk & _) _] _]. apply Forall_forall. intros o Ho.
  unfold wlen in L. rewrite <- L. apply Hk. exact Ho.
Qed.

Lemma noted_job_good C w pid c j :
  wlen (cf_static C) w -> cgood C w c -> noted_job C w pid c j -> jgood C j.
Proof.
  intros L G N. pose proof (cgood_range _ _ _ L G) as R.
  destruct G as [[(HP & _) _] [Pc Pr]].
  apply noted_job_fields in N. destruct N as (E1 & E2 & _ & E4).
  split; [|split].
  - split; [exact E2|]. intros M. destruct HP as [_ H1]. specialize (H1 M).
    pose proof (filter_length_le' (fun o => negb (ostate_eqb (st_of w o) Completed)) (c_ops c)) as Le.
    rewrite E1 in *. unfold not_completed_ops in *.
    destruct (filter _ (c_ops c)) as [|x [|y t]]; [congruence | reflexivity | cbn [length] in Le; lia].
  - rewrite E1. unfold not_completed_ops. apply Forall_filter_keep. exact R.
  - rewrite E4. cbn. split; assumption.
Qed.

Lemma pr_pre_good C s e results newp m lq :
  pipes_in_range (cf_static C) -> wlen (cf_static C) (e_world e) ->
  sched_good C s -> Forall rpos results -> pools_cgood C e ->
  note_suspending_pools C (e_world e) (e_pools e) (ss_suspending s) = Ok m ->
  (forall j, In j lq -> exists p c, In p (e_pools e) /\ In c (p_suspended p) /\
                 ~ In (c_id c) (ss_requeued s) /\ req_job C (e_world e) (p_id p) m c j) ->
  (forall kv, In kv m -> jgood C (snd kv)) /\
  (forall q j, In j (pr_pre C s e results newp lq q) -> jgood C j).
Proof.
  intros Hrange L [Gq Gs] Hr Gc NS R8. unfold pools_cgood in Gc. rewrite Forall_forall in Gc.
  assert (Gm : forall kv, In kv m -> jgood C (snd kv)).
  { intros kv Hkv. destruct (note_suspending_pools_spec _ _ _ _ _ NS kv Hkv) as [Hold|(p & c & Hp & Hc & _ & N)].
    - apply Gs. exact Hold.
    - eapply noted_job_good; [exact L| |exact N]. specialize (Gc p Hp). rewrite Forall_forall in Gc.
      apply Gc. unfold pool_conts. rewrite !in_app_iff. auto. }
  split; [exact Gm|]. intros q j Hj. unfold pr_pre in Hj. apply in_app_or in Hj.
  destruct Hj as [Hj|Hj]; [eapply Gq; eauto|].
  apply filter_In in Hj. destruct Hj as [Hj _]. apply in_app_or in Hj. destruct Hj as [Hj|Hj].
  - unfold pr_jobs in Hj. destruct newp as [|k newp']; [destruct results as [|r results']; [destruct Hj|]|];
      eapply pr_new_jobs_good; eauto.
  - destruct (R8 j Hj) as (p & c & Hp & Hc & _ & [Hin|N]).
    + apply (Gm _ Hin).
    + eapply noted_job_good; [exact L| |exact N]. specialize (Gc p Hp). rewrite Forall_forall in Gc.
      apply Gc. unfold pool_conts. rewrite !in_app_iff. auto.
Qed.

(* the noted map only shrinks in the re-queue loop *)
Lemma pr_step_suspending C s e results newp s' w' susps asgs m :
  priority_step C s e results newp = Ok (s', w', susps, asgs) ->
  note_suspending_pools C (e_world e) (e_pools e) (ss_suspending s) = Ok m ->
  forall kv, In kv (ss_suspending s') -> In kv m.
Proof.
  intros H NS0. unfold priority_step in H. cbv zeta in H.
  fold (pr_jobs C s e results newp) in H.
  assert (JP : forall j, In j (pr_jobs C s e results newp) -> prio_of_pipe C (j_pipe j) = j_prio j).
  { intros j Hj. unfold pr_jobs in Hj. symmetry.
    destruct newp as [|k newp]; [destruct results as [|r results]; [destruct Hj|]|];
      eapply pr_new_jobs_prio; eauto. }
  pose proof (fold_push_queue (fun j => prio_of_pipe C (j_pipe j)) (pr_jobs C s e results newp) s JP) as N.
  cbv zeta in N.
  set (s1 := fold_left _ (pr_jobs C s e results newp) s) in *.
  destruct N as [_ [N2 _]].
  bok H m0 NS. rewrite N2, NS0 in NS. inversion NS; subst m0.
  bok H s3 RQ. apply pr_requeue_pools_spec in RQ.
  destruct RQ as [lq [_ [_ [_ [_ [_ [R6 _]]]]]]]. cbn [ss_suspending] in R6.
  bok H r1 S1. destruct r1 as [[[[n1 st1] w1] a1] o1]. cbv beta iota in H.
  bok H r2 S2. destruct r2 as [[[[n2 st2] w2] a2] o2]. cbv beta iota in H.
  bok H r3 S3. destruct r3 as [[[[n3 st3] w3] a3] o3]. cbv beta iota in H.
  injection H as Hs _ _ _. subst s'. cbn [ss_suspending]. exact R6.
Qed.

(* one round keeps the bookkeeping well-formed, and every assignment is made from a well-formed job *)
Lemma priority_round_good C s e results newp s' w' susps asgs :
  priority_step C s e results newp = Ok (s', w', susps, asgs) ->
  pipes_in_range (cf_static C) -> wlen (cf_static C) (e_world e) ->
  sched_good C s -> Forall rpos results -> pools_cgood C e ->
  sched_good C s' /\ (forall a, In a asgs -> exists j, jgood C j /\ a_ops a = j_ops j).
Proof.
  intros H Hrange L G Hr Gc. pose proof H as H0. apply pr_step_inv in H0.
  destruct H0 as (m & lq & n1 & n2 & n3 & st1 & st2 & st3 & w1 & w2 & a1 & a2 & a3 & o1 & o2 & H0).
  destruct H0 as (NS & R8 & _ & _ & _ & S1 & S2 & S3 & Ea & Eq & Ei & Eb & _).
  destruct (pr_pre_good C s e results newp m lq Hrange L G Hr Gc NS R8) as [Gm Gp].
  split; [split|].
  - intros p j Hj. destruct p; cbn [queue_of] in Hj;
      [rewrite Eq in Hj | rewrite Ei in Hj | rewrite Eb in Hj]; apply In_skipn in Hj; eapply Gp; eauto.
  - intros kv Hkv. apply Gm. eapply pr_step_suspending; eauto.
  - intros a Ha. subst asgs.
    assert (X : forall w0 st0 q o0 n st' w'' al o', pr_rel C w0 st0 (pr_pre C s e results newp lq q) o0 n st' w'' al o' ->
                In a al -> exists j, jgood C j /\ a_ops a = j_ops j).
    { intros w0 st0 q o0 n st' w'' al o' R Hin. apply pr_rel_sub in R.
      destruct (scan_sub_In_r _ _ _ R Hin) as (j & Hj & Fo & _). exists j. split; [|exact Fo].
      eapply Gp. eapply In_firstn. exact Hj. }
    apply in_app_or in Ha. destruct Ha as [Ha|Ha]; [exact (X _ _ _ _ _ _ _ _ _ S1 Ha)|].
    apply in_app_or in Ha. destruct Ha as [Ha|Ha];
      [exact (X _ _ _ _ _ _ _ _ _ S2 Ha) | exact (X _ _ _ _ _ _ _ _ _ S3 Ha)].
Qed.

(* ------------------------------------------------------------------------------------------ *)
(* 6. which errors a round of the priority policy can raise                                     *)
(* ------------------------------------------------------------------------------------------ *)

Lemma inject_Z_pos z : (0 < z)%Z -> (0 < inject_Z z)%Q.
Proof. intros H. change 0%Q with (inject_Z 0). rewrite <- Zlt_Qlt. exact H. Qed.

Lemma new_job_size_pos C x : (0 < ps_acpu x)%Z -> (0 < ps_aram x)%Q ->
  (0 < fst (new_job_size C x))%Z /\ (0 < snd (new_job_size C x))%Q.
Proof.
  intros Hc Hr. unfold new_job_size. cbv zeta.
  destruct (_ || _); cbn [fst snd]; [auto|]. split; [lia|]. apply inject_Z_pos. lia.
Qed.

Lemma pr_size_pos C x j : (0 < ps_acpu x)%Z -> (0 < ps_aram x)%Q -> retry_pos (j_retry j) ->
  (0 < fst (pr_size C x j))%Z /\ (0 < snd (pr_size C x j))%Q.
Proof.
  intros Hc Hr Rp. unfold pr_size. destruct (j_retry j) as [rs|]; [|apply new_job_size_pos; assumption].
  cbn in Rp. destruct Rp as [R1 R2]. destruct (rt_err rs).
  - cbn [fst snd]. split; [lia|lra].
  - destruct (_ && _); [cbn [fst snd]; auto | apply new_job_size_pos; assumption].
Qed.

Lemma jgood_args_ok C x j pid :
  jgood C j -> (0 < ps_acpu x)%Z -> (0 < ps_aram x)%Q ->
  args_ok (mk_asg j pid (fst (pr_size C x j)) (snd (pr_size C x j))).
Proof.
  intros ([Hne _] & _ & Rp) Hc Hr. destruct (pr_size_pos C x j Hc Hr Rp) as [P1 P2].
  unfold args_ok, mk_asg. cbn [a_ops a_cpu a_ram]. split; [|split].
  - destruct (j_ops j); [congruence | reflexivity].
  - apply Z.leb_gt. exact P1.
  - apply Qleb_false. exact P2.
Qed.

Lemma bump_n_err r a e : bump_n r a = Err e -> r = Err e.
Proof.
  unfold bump_n. intros H. apply bind_err_inv in H. destruct H as [H|[[[[[n x] w] l] o] [_ H]]];
    [exact H | discriminate].
Qed.

(* the scan of a queue of well-formed jobs can only be refused by the lifecycle state machine (an
   operator of the job is not assignable) *)
Lemma pr_scan_err C : forall queue w st oom e,
  pr_scan C w st queue oom = Err e -> (forall j, In j queue -> jgood C j) -> e = ETransition.
Proof.
  induction queue as [|j rest IH]; intros w st oom e H G; [discriminate|].
  rewrite pr_scan_cons in H.
  destruct (max_ram_pool st 0 None 0%Q) as [pid|] eqn:M; [|discriminate].
  destruct (max_ram_pool_some _ _ M) as (_ & Pc & Pr).
  cbv zeta in H.
  assert (Gr : forall j0, In j0 rest -> jgood C j0) by (intros j0 Hj0; apply G; right; exact Hj0).
  destruct (pr_nofit (nth pid st dummy_stat) j). { apply bump_n_err in H. eapply IH; eauto. }
  destruct (pr_cut C (nth pid st dummy_stat) j). { apply bump_n_err in H. eapply IH; eauto. }
  pose proof (jgood_args_ok C (nth pid st dummy_stat) j pid (G j (or_introl eq_refl)) Pc Pr) as AO.
  apply bind_err_inv in H. destruct H as [H|[w1 [_ H]]].
  - rewrite (mk_assignment_args_ok C w _ AO) in H. eapply transition_all_assigned_err; eauto.
  - apply bump_n_err in H. eapply IH; eauto.
Qed.

Lemma not_completed_nonempty w l o : In o l -> st_of w o <> Completed -> not_completed_ops w l <> [].
Proof.
  intros Hin Hs. assert (X : In o (not_completed_ops w l)).
  { unfold not_completed_ops. apply filter_In. split; [exact Hin|].
    apply negb_true_iff. apply ostate_eqb_neq. exact Hs. }
  intros E. rewrite E in X. destruct X.
Qed.

Lemma has_pending_not_completed w c : has_pending w c -> not_completed_ops w (c_ops c) <> [].
Proof. intros (o & Ho & Hs). eapply not_completed_nonempty; eauto. rewrite Hs. discriminate. Qed.

Lemma job_of_container_err w pid c e :
  job_of_container w pid c = Err e -> not_completed_ops w (c_ops c) = [].
Proof. unfold job_of_container. destruct (not_completed_ops w (c_ops c)); [reflexivity|discriminate]. Qed.

Lemma note_suspending_err C w pid : forall cs m e,
  note_suspending C w pid cs m = Err e -> exists c, In c cs /\ not_completed_ops w (c_ops c) = [].
Proof.
  induction cs as [|c t IH]; intros m e H; cbn [note_suspending] in H; [discriminate|].
  apply bind_err_inv in H. destruct H as [H|[j [_ H]]].
  - exists c. split; [left; reflexivity | eapply job_of_container_err; eauto].
  - destruct (IH _ _ H) as (c' & Hc' & E). exists c'. split; [right; exact Hc' | exact E].
Qed.

Lemma note_suspending_pools_err C w : forall ps m e,
  note_suspending_pools C w ps m = Err e ->
  exists p c, In p ps /\ In c (p_suspending p) /\ not_completed_ops w (c_ops c) = [].
Proof.
  induction ps as [|p t IH]; intros m e H; cbn [note_suspending_pools] in H; [discriminate|].
  apply bind_err_inv in H. destruct H as [H|[m1 [_ H]]].
  - apply note_suspending_err in H. destruct H as (c & Hc & E). exists p, c. split; [left; reflexivity|auto].
  - destruct (IH _ _ H) as (p' & c & Hp' & Hc & E). exists p', c. split; [right; exact Hp'|auto].
Qed.

Lemma pr_requeue_err C w pid : forall cs s e,
  pr_requeue C w pid cs s = Err e ->
  exists c, In c cs /\ ~ In (c_id c) (ss_requeued s) /\ not_completed_ops w (c_ops c) = [].
Proof.
  induction cs as [|c t IH]; intros s e H; cbn [pr_requeue] in H; [discriminate|].
  destruct (memb (c_id c) (ss_requeued s)) eqn:Mb.
  - destruct (IH _ _ H) as (c' & Hc' & X). exists c'. split; [right; exact Hc' | exact X].
  - apply memb_false in Mb. apply bind_err_inv in H. destruct H as [H|[j [_ H]]].
    + destruct (assoc_find (c_id c) (ss_suspending s)); [discriminate|].
      apply bind_err_inv in H. destruct H as [H|[j0 [_ H]]]; [|discriminate].
      exists c. split; [left; reflexivity|]. split; [exact Mb | eapply job_of_container_err; eauto].
    + destruct (IH _ _ H) as (c' & Hc' & N & X). exists c'. split; [right; exact Hc'|]. split; [|exact X].
      rewrite push_job_requeued in N. cbn [ss_requeued] in N. intros Hin. apply N.
      apply in_or_app. left. exact Hin.
Qed.

Lemma pr_requeue_pools_err C w : forall ps s e,
  pr_requeue_pools C w ps s = Err e ->
  exists p c, In p ps /\ In c (p_suspended p) /\ ~ In (c_id c) (ss_requeued s) /\
              not_completed_ops w (c_ops c) = [].
Proof.
  induction ps as [|p t IH]; intros s e H; cbn [pr_requeue_pools] in H; [discriminate|].
  apply bind_err_inv in H. destruct H as [H|[s1 [E1 H]]].
  - apply pr_requeue_err in H. destruct H as (c & Hc & X). exists p, c. split; [left; reflexivity|auto].
  - destruct (IH _ _ H) as (p' & c & Hp' & Hc & N & X). exists p', c. split; [right; exact Hp'|].
    split; [exact Hc|]. split; [|exact X].
    apply pr_requeue_spec in E1. destruct E1 as [lq [_ [_ [_ [_ [I5 _]]]]]].
    intros Hin. apply N. apply I5. exact Hin.
Qed.

(* a round can be refused only by the lifecycle state machine, provided the bookkeeping is well-formed,
   every suspending container still has an unfinished operator, and so has every suspended container
   that has not been re-queued yet *)
Lemma priority_step_err C s e results newp er :
  priority_step C s e results newp = Err er ->
  pipes_in_range (cf_static C) -> wlen (cf_static C) (e_world e) ->
  sched_good C s -> Forall rpos results -> pools_cgood C e ->
  (forall p c, In p (e_pools e) -> In c (p_suspending p) ->
     not_completed_ops (e_world e) (c_ops c) <> []) ->
  (forall p c, In p (e_pools e) -> In c (p_suspended p) -> ~ In (c_id c) (ss_requeued s) ->
     not_completed_ops (e_world e) (c_ops c) <> []) ->
  er = ETransition.
Proof.
  intros H Hrange L G Hr Gc Hsing Hsed. unfold priority_step in H. cbv zeta in H.
  fold (pr_jobs C s e results newp) in H.
  assert (JP : forall j, In j (pr_jobs C s e results newp) -> prio_of_pipe C (j_pipe j) = j_prio j).
  { intros j Hj. unfold pr_jobs in Hj. symmetry.
    destruct newp as [|k newp]; [destruct results as [|r results]; [destruct Hj|]|];
      eapply pr_new_jobs_prio; eauto. }
  pose proof (fold_push_queue (fun j => prio_of_pipe C (j_pipe j)) (pr_jobs C s e results newp) s JP) as N.
  cbv zeta in N.
  set (s1 := fold_left _ (pr_jobs C s e results newp) s) in *.
  destruct N as [N1 [N2 [N3 [N4 _]]]].
  apply bind_err_inv in H. destruct H as [H|[m [NS H]]].
  { apply note_suspending_pools_err in H. destruct H as (p & c & Hp & Hc & E).
    exfalso. eapply Hsing; eauto. }
  rewrite N2 in NS.
  apply bind_err_inv in H. destruct H as [H|[s3 [RQ H]]].
  { apply pr_requeue_pools_err in H. destruct H as (p & c & Hp & Hc & Nn & E).
    cbn [ss_requeued] in Nn. rewrite N4 in Nn. exfalso. eapply Hsed; eauto. }
  apply pr_requeue_pools_spec in RQ.
  destruct RQ as [lq [R1 [_ [_ [_ [_ [_ [_ [R8 _]]]]]]]]].
  cbn [ss_requeued ss_suspending] in R8. rewrite N4 in R8.
  assert (Q : forall p, queue_of s3 p = pr_pre C s e results newp lq p).
  { intros p. rewrite R1. unfold pr_pre.
    transitivity (queue_of s1 p ++ filter (is_class p) lq); [destruct p; reflexivity|].
    rewrite N1, !filter_app', <- !app_assoc. reflexivity. }
  destruct (pr_pre_good C s e results newp m lq Hrange L G Hr Gc NS R8) as [_ Gp].
  apply bind_err_inv in H. destruct H as [H|[[[[[n1 st1] w1] a1] o1] [_ H]]].
  { eapply pr_scan_err; [exact H|]. intros j Hj. change (ss_q s3) with (queue_of s3 Query) in Hj.
    rewrite Q in Hj. eapply Gp; eauto. }
  cbv beta iota in H.
  apply bind_err_inv in H. destruct H as [H|[[[[[n2 st2] w2] a2] o2] [_ H]]].
  { eapply pr_scan_err; [exact H|]. intros j Hj. change (ss_i s3) with (queue_of s3 Interactive) in Hj.
    rewrite Q in Hj. eapply Gp; eauto. }
  cbv beta iota in H.
  apply bind_err_inv in H. destruct H as [H|[[[[[n3 st3] w3] a3] o3] [_ H]]].
  { eapply pr_scan_err; [exact H|]. intros j Hj. change (ss_b s3) with (queue_of s3 Batch) in Hj.
    rewrite Q in Hj. eapply Gp; eauto. }
  discriminate.
Qed.

(* ------------------------------------------------------------------------------------------ *)
(* 7. the decisions of a round pass the executor's command checks                               *)
(* ------------------------------------------------------------------------------------------ *)

Lemma nth_pool_by_id (ps : list pool) n p d :
  map p_id ps = seq 0 n -> In p ps -> nth (p_id p) ps d = p /\ p_id p < length ps.
Proof.
  intros E Hp. destruct (In_nth _ _ d Hp) as (i & Li & Ei).
  assert (Ln : length ps = n) by (rewrite <- (map_length p_id), E, seq_length; reflexivity).
  assert (X : p_id p = i).
  { rewrite <- Ei at 1. rewrite <- (map_nth p_id), E, seq_nth by lia. reflexivity. }
  rewrite X. auto.
Qed.

Lemma nth_map_indep {A B} (f : A -> B) l i d d' : i < length l -> nth i (map f l) d = f (nth i l d').
Proof.
  intros L. rewrite (nth_indep _ d (f d')) by (rewrite map_length; exact L). apply map_nth.
Qed.

Lemma in_all_ids_active ps x : In x (map c_id (flat_map p_active ps)) -> In x (all_ids ps).
Proof.
  intros H. apply in_map_iff in H. destruct H as [c [<- Hc]]. apply in_flat_map in Hc.
  destruct Hc as [q [Hq Hc]]. unfold all_ids. apply in_flat_map. exists q. split; [exact Hq|].
  unfold pool_ids, pool_conts. apply in_map. apply in_or_app. left. exact Hc.
Qed.

Lemma all_ids_active_nodup : forall ps, NoDup (all_ids ps) -> NoDup (map c_id (flat_map p_active ps)).
Proof.
  induction ps as [|p t IH]; intros N; [constructor|].
  unfold all_ids in N. cbn [flat_map] in N. fold (all_ids t) in N.
  cbn [flat_map]. rewrite map_app.
  pose proof (LedgerFacts.NoDup_app_l _ _ N) as Np. pose proof (LedgerFacts.NoDup_app_r _ _ N) as Nt.
  apply LedgerFacts.NoDup_app_intro.
  - unfold pool_ids, pool_conts in Np. rewrite map_app in Np. eapply LedgerFacts.NoDup_app_l; eauto.
  - apply IH. exact Nt.
  - intros x H1 H2. apply in_all_ids_active in H2.
    eapply (LedgerFacts.NoDup_app_disjoint _ _ x N); [|exact H2].
    unfold pool_ids, pool_conts. rewrite map_app. apply in_or_app. left. exact H1.
Qed.

Lemma all_ids_pool_active_nodup ps p : NoDup (all_ids ps) -> In p ps -> NoDup (map c_id (p_active p)).
Proof.
  intros N Hp. pose proof (NoDup_flat_map_in _ _ _ N Hp) as Np.
  unfold pool_ids, pool_conts in Np. rewrite map_app in Np. eapply LedgerFacts.NoDup_app_l; eauto.
Qed.

Definition pools_nn (e : estate) : Prop :=
  Forall (fun p => (0 <= p_avail_cpu p)%Z /\ (0 <= p_avail_ram p)%Q) (e_pools e).

(* per pool: what this round hands out is at most what the pool has free *)
Definition fits (asgs : list asg) (p : pool) : Prop :=
  (sumZ (map a_cpu (mine_a p asgs)) <= p_avail_cpu p)%Z /\
  (sumQ (map a_ram (mine_a p asgs)) <= p_avail_ram p)%Q.

Lemma priority_round_fits C s e results newp s' w' susps asgs np :
  priority_step C s e results newp = Ok (s', w', susps, asgs) ->
  map p_id (e_pools e) = seq 0 np -> pools_nn e ->
  forall p, In p (e_pools e) -> fits asgs p.
Proof.
  intros H Hseq Hnn p Hp.
  destruct (priority_admissible _ _ _ _ _ _ _ _ _ H) as (_ & _ & _ & Adm).
  assert (NN : Forall nonneg_pool (snapshot e)).
  { apply Forall_forall. intros x Hx. unfold snapshot in Hx. apply in_map_iff in Hx.
    destruct Hx as [q [<- Hq]]. unfold pools_nn in Hnn. rewrite Forall_forall in Hnn.
    unfold nonneg_pool. cbn. apply Hnn. exact Hq. }
  specialize (Adm NN (p_id p)).
  destruct (nth_pool_by_id _ _ p p Hseq Hp) as [En Ln].
  assert (Es : nth (p_id p) (snapshot e) dummy_stat
               = (p_avail_cpu p, p_avail_ram p, p_max_cpu p, p_max_ram p)).
  { unfold snapshot. rewrite (nth_map_indep _ _ _ dummy_stat p Ln), En. reflexivity. }
  rewrite Es in Adm. cbn in Adm. exact Adm.
Qed.

Lemma opsP_opcount C a : opsP C (a_ops a) -> opcount_ok C a = true.
Proof.
  intros [Hne H1]. unfold opcount_ok. destruct (cf_multi C) eqn:M.
  - apply Nat.leb_le. destruct (a_ops a); [congruence | cbn; lia].
  - apply Nat.eqb_eq. apply H1. reflexivity.
Qed.

Theorem priority_round_checks C s e results newp s' w' susps asgs np :
  priority_step C s e results newp = Ok (s', w', susps, asgs) ->
  map p_id (e_pools e) = seq 0 np -> NoDup (all_ids (e_pools e)) -> pools_nn e ->
  (forall a, In a asgs -> opsP C (a_ops a)) ->
  checks_pass_s C (e_pools e) susps asgs.
Proof.
  intros H Hseq Nid Hnn Hops.
  destruct (priority_suspend_rules _ _ _ _ _ _ _ _ _ H) as (Fs & _ & _ & Nd).
  destruct (priority_admissible _ _ _ _ _ _ _ _ _ H) as (_ & _ & Pr & _).
  specialize (Nd (all_ids_active_nodup _ Nid)). rewrite Forall_forall in Fs.
  pose proof (pools_seq_nodup _ _ Hseq) as Npid.
  split; [|split; [|split; [|split]]].
  - apply forallb_forall. intros x Hx. destruct (Fs x Hx) as (p & c & Hp & _ & Ep & _).
    rewrite Ep. eapply pools_seq_range; eauto.
  - apply forallb_forall. intros a Ha. destruct (Pr a Ha) as (pid & -> & Lt).
    unfold pool_in_range. apply andb_true_iff. split; [apply Z.leb_le | apply Z.ltb_lt]; lia.
  - intros p Hp. split.
    + apply Forall_forall. intros x Hx. unfold mine_s in Hx. apply filter_In in Hx.
      destruct Hx as [Hx Ex]. apply Z.eqb_eq in Ex.
      destruct (Fs x Hx) as (p' & c & Hp' & Hc & Ep & Ec & Cs & _).
      assert (p' = p).
      { apply (NoDup_map_inj p_id _ p' p Npid Hp' Hp). apply Nat2Z.inj. congruence. }
      subst p'. exists c. split; [|exact Cs]. rewrite Ec.
      apply find_container_in; [eapply all_ids_pool_active_nodup; eauto | exact Hc].
    + unfold mine_s. apply NoDup_map_filter. exact Nd.
  - intros p Hp. right. apply verify_assignments_ok.
    destruct (priority_round_fits _ _ _ _ _ _ _ _ _ _ H Hseq Hnn p Hp) as [F1 F2].
    split; [exact F1 | intros _; exact F2].
  - intros a Ha. apply opsP_opcount. apply Hops. exact Ha.
Qed.

(* ------------------------------------------------------------------------------------------ *)
(* 8. the run-level invariant                                                                   *)
(* ------------------------------------------------------------------------------------------ *)

(* a suspended container the scheduler has not re-queued yet still has a PENDING operator *)
Definition susp_fresh (e : estate) (ss : sstate) : Prop :=
  forall p c, In p (e_pools e) -> In c (p_suspended p) -> ~ In (c_id c) (ss_requeued ss) ->
    has_pending (e_world e) c.

(* container ids are unique over all pools and all three lists, and below the executor's counter *)
Definition ids_inv (e : estate) : Prop :=
  NoDup (all_ids (e_pools e)) /\ forall i, In i (all_ids (e_pools e)) -> i < e_next e.

Definition pr_inv (C : cfg) (np : nat) (s : sim) : Prop :=
  map p_id (e_pools (sm_exec s)) = seq 0 np /\
  inv C (sm_exec s) /\ own_inv (sm_exec s) /\ ids_inv (sm_exec s) /\
  pools_cgood C (sm_exec s) /\ pools_nn (sm_exec s) /\
  susp_fresh (sm_exec s) (sm_sched s) /\ sched_good C (sm_sched s) /\ Forall rpos (sm_results s).

Lemma pr_inv_init C np cpu ram :
  (0 <= cpu)%Z -> (0 <= ram)%Q -> pr_inv C np (init_sim C np cpu ram).
Proof.
  intros Hc Hr. unfold pr_inv, init_sim. cbn [sm_exec sm_sched sm_results].
  split; [apply (proj1 (pools_std_init C np cpu ram))|].
  split; [apply inv_init|]. split; [apply own_inv_init|]. split.
  { unfold ids_inv. rewrite all_ids_init. split; [constructor | intros i []]. }
  split.
  { unfold pools_cgood, init_estate. cbn [e_pools e_world]. apply Forall_forall. intros p Hp.
    apply in_map_iff in Hp. destruct Hp as [i [<- _]]. constructor. }
  split.
  { unfold pools_nn, init_estate. cbn [e_pools]. apply Forall_forall. intros p Hp.
    apply in_map_iff in Hp. destruct Hp as [i [<- _]]. cbn. auto. }
  split.
  { intros p c Hp Hcc. unfold init_estate in Hp. cbn [e_pools] in Hp.
    apply in_map_iff in Hp. destruct Hp as [i [<- _]]. destruct Hcc. }
  split; [apply sched_good_init | constructor].
Qed.

Lemma sim_tick_ok_inv C a t s newp s' lg :
  sim_tick C a t s newp = Ok (s', lg) ->
  exists w' susps asgs,
    sched_step C a (sm_sched s) (sm_exec s) (sm_results s) newp = Ok (sm_sched s', w', susps, asgs) /\
    exec_tick C {| e_world := w'; e_pools := e_pools (sm_exec s); e_next := e_next (sm_exec s) |}
              susps asgs = Ok (sm_exec s', sm_results s') /\
    tl_susp lg = susps /\ tl_asgs lg = asgs /\ tl_new lg = newp /\ tl_results lg = sm_results s' /\
    record_arrivals t newp (sm_arrival s) = Ok (sm_arrival s').
Proof.
  unfold sim_tick. intros H. bok H arr Ea. cbv zeta in H. bok H d Es.
  destruct d as [[[ss' w'] susps] asgs]. cbv beta iota in H.
  bok H er Ee. destruct er as [e2 results]. cbv beta iota zeta in H. inversion H; subst.
  cbn [sm_sched sm_exec sm_results sm_arrival tl_susp tl_asgs tl_new tl_results].
  exists w', susps, asgs. repeat split; assumption.
Qed.

Lemma Forall_conj {A} (P Q : A -> Prop) l :
  Forall (fun x => P x /\ Q x) l <-> Forall P l /\ Forall Q l.
Proof.
  rewrite !Forall_forall. split.
  - intros H. split; intros x Hx; apply H; exact Hx.
  - intros [H1 H2] x Hx. split; auto.
Qed.

Lemma Forall2_right {A B} (R : A -> B -> Prop) (Q : B -> Prop) l l' :
  (forall a b, In a l -> R a b -> Q b) -> Forall2 R l l' -> Forall Q l'.
Proof.
  intros H F. induction F as [|a b l l' Hab F IH]; [constructor|].
  constructor; [eapply H; [left; reflexivity | exact Hab]|].
  apply IH. intros a0 b0 Ha0. apply H. right. exact Ha0.
Qed.

Lemma cgood_steps_na C w w' c : steps_na (cf_static C) w w' -> cgood C w c -> cgood C w' c.
Proof.
  intros St [[I N] P]. split; [split; [eapply cinv_steps; eauto | exact N] | exact P].
Qed.

(* the executor half of a tick *)
Lemma pr_exec_inv C np e w' susps asgs e' res :
  map p_id (e_pools e) = seq 0 np -> inv C e -> own_inv e -> ids_inv e ->
  pools_cgood C e -> pools_nn e ->
  mk_assignments C (e_world e) asgs = Ok w' ->
  (forall a, In a asgs -> opsP C (a_ops a) /\ ops_in_range (cf_static C) (a_ops a)) ->
  (forall p, In p (e_pools e) -> fits asgs p) ->
  exec_tick C {| e_world := w'; e_pools := e_pools e; e_next := e_next e |} susps asgs = Ok (e', res) ->
  map p_id (e_pools e') = seq 0 np /\ inv C e' /\ own_inv e' /\ ids_inv e' /\
  pools_cgood C e' /\ pools_nn e' /\ Forall rpos res /\
  (forall p' c, In p' (e_pools e') -> In c (p_suspended p') ->
     (exists p, In p (e_pools e) /\ In c (p_suspended p)) \/ has_pending (e_world e') c).
Proof.
  intros Hseq Iv Ow [Nid Bid] Gc Hnn Emk Hasg Hfit Ex.
  assert (Est : exec_step C e susps asgs = Ok (e', res)).
  { unfold exec_step. rewrite Emk. exact Ex. }
  assert (RA : forall a, In a asgs -> ops_in_range (cf_static C) (a_ops a)) by (intros a Ha; apply Hasg; exact Ha).
  destruct (exec_step_steps_in _ _ _ _ _ _ Est Iv RA) as [_ Iv'].
  pose proof (exec_step_own_inv _ _ _ _ _ _ Est Iv RA Ow) as Ow'.
  assert (Lp : length (e_pools e) = np) by (rewrite <- (map_length p_id), Hseq, seq_length; reflexivity).
  (* ids *)
  assert (Ids' : ids_inv e').
  { assert (WF : LedgerFacts.pools_wf (e_pools e)) by (unfold LedgerFacts.pools_wf; rewrite Lp; exact Hseq).
    destruct (LedgerFacts.exec_step_ledger _ _ _ _ _ _ WF
                (fun p Hp => all_ids_pool_active_nodup _ p Nid Hp) Est) as (En & _ & Pm).
    assert (NR : NoDup (all_ids (e_pools e) ++ seq (e_next e) (length asgs))).
    { apply LedgerFacts.NoDup_app_intro; [exact Nid | apply seq_NoDup|].
      intros x Hx Hs. apply Bid in Hx. apply in_seq in Hs. lia. }
    pose proof (Permutation_NoDup (Permutation_sym Pm) NR) as NL.
    split; [eapply LedgerFacts.NoDup_app_l; eauto|].
    intros i Hi. assert (Hin : In i (all_ids (e_pools e') ++ map r_cid res)) by (apply in_or_app; auto).
    apply (Permutation_in _ Pm) in Hin. apply in_app_or in Hin. destruct Hin as [Hin|Hin].
    - apply Bid in Hin. lia.
    - apply in_seq in Hin. lia. }
  (* the pools, one after the other *)
  apply ConserveFacts.exec_step_inv in Est. destruct Est as (w0 & Emk0 & PT).
  rewrite Emk in Emk0. inversion Emk0; subst w0. clear Emk0.
  destruct (pools_tick_static _ _ _ _ _ _ _ _ _ _ PT) as [Hids _].
  pose proof (mk_assignments_pos _ _ _ _ Emk) as Apos.
  destruct Iv as [L _].
  assert (L' : wlen (cf_static C) w').
  { eapply steps_in_wlen; [|exact L]. eapply mk_assignments_steps_in; eauto. }
  assert (St' : steps (cf_static C) (e_world e) w').
  { apply steps_in_steps. eapply mk_assignments_steps_in; eauto. }
  set (Pre := fun (w : world) (p : pool) =>
                wlen (cf_static C) w /\ Forall (cgood C w) (pool_conts p) /\ fits asgs p).
  set (Rel := fun (w : world) (p p' : pool) =>
                Forall (cgood C w) (pool_conts p') /\
                ((0 <= p_avail_cpu p')%Z /\ (0 <= p_avail_ram p')%Q) /\
                (forall c, In c (p_suspended p') -> In c (p_suspended p) \/ has_pending w c)).
  set (Rs := fun (w : world) (r : result) => rpos r).
  assert (Lift : steps_na (cf_static C) w' (e_world e') /\
                 Forall2 (Rel (e_world e')) (e_pools e) (e_pools e') /\ Forall (Rs (e_world e')) res).
  { apply (pools_tick_lift C susps asgs Pre Rel Rs) with (next := e_next e) (next' := e_next e').
    - intros w1 w2 p S12 (A & B & D). split; [eapply steps_na_wlen; eauto|]. split; [|exact D].
      eapply Forall_impl; [|exact B]. intros c. apply cgood_steps_na. exact S12.
    - intros w1 w2 p p' S12 (A & B & D). split; [|split; [exact B|]].
      + eapply Forall_impl; [|exact A]. intros c. apply cgood_steps_na. exact S12.
      + intros c Hc. destruct (D c Hc) as [X|X]; [left; exact X | right; eapply has_pending_stays; eauto].
    - intros w1 w2 r _ X. exact X.
    - intros w1 next1 p w2 next2 p2 res2 (Lw & Fg & Ft) PTk.
      unfold cgood in Fg. apply Forall_conj in Fg. destruct Fg as [Fl Fc].
      assert (Ha : forall a, In a (mine_a p asgs) ->
                     opsP C (a_ops a) /\ forall o, In o (a_ops a) -> o < length (w_st w1)).
      { intros a Ha. unfold mine_a in Ha. apply filter_In in Ha. destruct Ha as [Ha _].
        destruct (Hasg a Ha) as [X Y]. split; [exact X|]. intros o Ho.
        unfold wlen in Lw. rewrite Lw. unfold ops_in_range in Y. rewrite Forall_forall in Y. auto. }
      destruct (pool_tick_cinv_all _ _ _ _ _ _ _ _ _ _ _ Fl Ha PTk) as (S12 & Fl' & _).
      destruct (pool_tick_cpos _ _ _ _ _ _ _ _ _ _ PTk Fc (asgs_pos_mine p asgs Apos)) as [Fc' Rr].
      destruct Ft as [Ft1 Ft2].
      pose proof (pool_tick_avail_nonneg _ _ _ _ _ _ _ _ _ _ PTk Fc (asgs_pos_mine p asgs Apos) Ft1 Ft2) as NN.
      split; [exact S12|]. split; [|exact Rr].
      split; [apply Forall_conj; split; assumption|]. split; [exact NN|].
      intros c Hc. eapply pool_tick_fresh; eauto.
    - exact PT.
    - apply Forall_forall. intros p Hp. split; [exact L'|]. split; [|apply Hfit; exact Hp].
      unfold pools_cgood in Gc. rewrite Forall_forall in Gc. specialize (Gc p Hp).
      eapply Forall_impl; [|exact Gc]. intros c [[I N] Pc].
      split; [split; [eapply cinv_steps_live; eauto | exact N] | exact Pc]. }
  destruct Lift as (_ & F2 & Rr).
  split; [rewrite Hids; exact Hseq|]. split; [exact Iv'|]. split; [exact Ow'|]. split; [exact Ids'|].
  split; [|split; [|split]].
  - unfold pools_cgood. eapply Forall2_right; [|exact F2]. intros a b _ (X & _). exact X.
  - unfold pools_nn. eapply Forall2_right; [|exact F2]. intros a b _ (_ & X & _). exact X.
  - exact Rr.
  - intros p' c Hp' Hc.
    assert (X : Forall (fun p' => forall c, In c (p_suspended p') ->
                  (exists p, In p (e_pools e) /\ In c (p_suspended p)) \/ has_pending (e_world e') c)
                (e_pools e')).
    { eapply Forall2_right; [|exact F2]. intros a b Ha (_ & _ & X) c0 Hc0.
      destruct (X c0 Hc0) as [Y|Y]; [left; exists a; auto | right; exact Y]. }
    rewrite Forall_forall in X. apply (X p' Hp' c Hc).
Qed.

(* what the invariant gives the scheduler at the start of a round *)
Lemma pr_inv_suspending C np s :
  pr_inv C np s ->
  forall p c, In p (e_pools (sm_exec s)) -> In c (p_suspending p) ->
    not_completed_ops (e_world (sm_exec s)) (c_ops c) <> [].
Proof.
  intros (_ & _ & Ow & _ & Gc & _) p c Hp Hc.
  destruct Ow as (_ & _ & [_ Ab]). unfold pools_cgood in Gc. rewrite Forall_forall in Gc.
  specialize (Gc p Hp). rewrite Forall_forall in Gc.
  assert (Hin : In c (pool_conts p)) by (unfold pool_conts; rewrite !in_app_iff; auto).
  destruct (Gc c Hin) as [[(_ & _ & _ & Hlt & _) Nc] _]. specialize (Hlt Nc).
  destruct (nth_error (c_ops c) (c_opidx c)) as [o|] eqn:N.
  2:{ apply nth_error_None in N. lia. }
  assert (Ho : In o (own c)).
  { unfold own. rewrite Nc, (skipn_nth_error _ _ _ N). left. reflexivity. }
  assert (Hs : In o (sown (sm_exec s))).
  { unfold sown. apply in_flat_map. exists p. split; [exact Hp|]. unfold pown. apply in_or_app. right.
    eapply own_in_owns; eauto. }
  apply Ab in Hs. eapply not_completed_nonempty; [eapply nth_error_In; eauto|].
  destruct Hs as [X|[X|X]]; rewrite X; discriminate.
Qed.

Lemma pr_inv_suspended C np s :
  pr_inv C np s ->
  forall p c, In p (e_pools (sm_exec s)) -> In c (p_suspended p) ->
    ~ In (c_id c) (ss_requeued (sm_sched s)) ->
    not_completed_ops (e_world (sm_exec s)) (c_ops c) <> [].
Proof.
  intros (_ & _ & _ & _ & _ & _ & Fr & _) p c Hp Hc Hn.
  apply has_pending_not_completed. eapply Fr; eauto.
Qed.

Section PriorityRun.
Variable C : cfg.
Hypothesis Hrange : pipes_in_range (cf_static C).

(* the invariant survives a tick of the priority policy *)
Lemma pr_tick_inv np t s newp s' lg :
  pr_inv C np s -> sim_tick C APriority t s newp = Ok (s', lg) -> pr_inv C np s'.
Proof.
  intros I H. pose proof I as (Hseq & Iv & Ow & Ids & Gc & Hnn & Fr & Gs & Hr).
  apply sim_tick_ok_inv in H. destruct H as (w' & susps & asgs & Sch & Ex & _).
  cbn [sched_step] in Sch.
  destruct Iv as [L Rg].
  destruct (priority_round_good _ _ _ _ _ _ _ _ _ Sch Hrange L Gs Hr Gc) as [Gs' Hj].
  destruct (priority_admissible _ _ _ _ _ _ _ _ _ Sch) as (_ & Emk & _ & _).
  assert (Hasg : forall a, In a asgs -> opsP C (a_ops a) /\ ops_in_range (cf_static C) (a_ops a)).
  { intros a Ha. destruct (Hj a Ha) as (j & (J1 & J2 & _) & ->). auto. }
  pose proof (priority_round_fits _ _ _ _ _ _ _ _ _ _ Sch Hseq Hnn) as Hfit.
  destruct (pr_exec_inv C np _ _ _ _ _ _ Hseq (conj L Rg) Ow Ids Gc Hnn Emk Hasg Hfit Ex)
    as (A1 & A2 & A3 & A4 & A5 & A6 & A7 & A8).
  unfold pr_inv. repeat (split; [assumption|]). split; [|split; assumption].
  intros p' c Hp' Hc Hn. destruct (A8 p' c Hp' Hc) as [(p & Hp & Hc0)|X]; [|exact X].
  exfalso. apply Hn.
  destruct (priority_requeue_once _ _ _ _ _ _ _ _ _ Sch) as (R7 & _). eapply R7; eauto.
Qed.

(* a tick that raises, raises from inside a container or from the lifecycle state machine *)
Lemma pr_tick_err np t s newp er :
  pr_inv C np s -> sim_tick C APriority t s newp = Err er -> inner_err er.
Proof.
  intros I H. pose proof I as (Hseq & Iv & Ow & Ids & Gc & Hnn & Fr & Gs & Hr).
  pose proof (sim_tick_cases C APriority t s newp) as X. rewrite H in X. cbn [sched_step] in X.
  destruct Iv as [L Rg].
  destruct X as [[-> _]|[X|(ss' & w' & susps & asgs & Sch & Ex)]].
  - unfold inner_err. auto.
  - apply priority_step_err in X; auto.
    + subst er. unfold inner_err. auto.
    + eapply pr_inv_suspending; eauto.
    + eapply pr_inv_suspended; eauto.
  - destruct (priority_round_good _ _ _ _ _ _ _ _ _ Sch Hrange L Gs Hr Gc) as [_ Hj].
    eapply exec_tick_checked_err_s; [exact Ex|]. cbn [e_pools].
    eapply priority_round_checks; eauto; [apply Ids|].
    intros a Ha. destruct (Hj a Ha) as (j & (J1 & _) & ->). exact J1.
Qed.

Lemma pr_run_inv np : forall arrivals t s sf logs oe,
  pr_inv C np s -> sim_run C APriority t s arrivals = (sf, logs, oe) -> pr_inv C np sf.
Proof.
  induction arrivals as [|newp r IH]; intros t s sf logs oe I H; cbn [sim_run] in H.
  - inversion H; subst. exact I.
  - destruct (sim_tick C APriority t s newp) as [[s1 lg]|e] eqn:E.
    + destruct (sim_run C APriority (t + 1)%Z s1 r) as [[sf' logs'] e'] eqn:R. inversion H; subst.
      eapply IH; [|exact R]. eapply pr_tick_inv; eauto.
    + inversion H; subst. exact I.
Qed.

(* R1 *)
Theorem priority_run_errors_partial_gen np cpu ram arrivals sf logs er :
  (0 <= cpu)%Z -> (0 <= ram)%Q ->
  sim_run C APriority 0%Z (init_sim C np cpu ram) arrivals = (sf, logs, Some er) ->
  inner_err er.
Proof.
  intros Hc Hr H.
  destruct (sim_run_error C APriority (pr_inv C np)
              (fun t s newp s' lg Ps Ht => pr_tick_inv np t s newp s' lg Ps Ht)
              _ _ _ _ _ _ (pr_inv_init C np cpu ram Hc Hr) H) as (t' & s' & newp & I & E).
  eapply pr_tick_err; eauto.
Qed.

(* the invariant holds in the final state of every run, whether it ended normally or not *)
Theorem priority_run_invariant np cpu ram arrivals sf logs oe :
  (0 <= cpu)%Z -> (0 <= ram)%Q ->
  sim_run C APriority 0%Z (init_sim C np cpu ram) arrivals = (sf, logs, oe) ->
  pr_inv C np sf.
Proof. intros Hc Hr H. eapply pr_run_inv; [|exact H]. apply pr_inv_init; assumption. Qed.

End PriorityRun.

Lemma mk_static_pipes_in_range l : dags_wf l -> pipes_in_range (mk_static l).
Proof. intros W k o Ho. eapply mk_static_orders_in_range; eauto. Qed.

Theorem priority_run_errors_partial C l np cpu ram arrivals sf logs er :
  cf_static C = mk_static l -> dags_wf l -> (0 <= cpu)%Z -> (0 <= ram)%Q ->
  sim_run C APriority 0%Z (init_sim C np cpu ram) arrivals = (sf, logs, Some er) ->
  inner_err er.
Proof.
  intros E W Hc Hr H.
  assert (Hrange : pipes_in_range (cf_static C)) by (rewrite E; apply mk_static_pipes_in_range; exact W).
  exact (priority_run_errors_partial_gen C Hrange np cpu ram arrivals sf logs er Hc Hr H).
Qed.

(* the same, spelled out: none of the command errors, none of the scheduler's assertions *)
Theorem priority_run_commands_admissible C l np cpu ram arrivals sf logs er :
  cf_static C = mk_static l -> dags_wf l -> (0 <= cpu)%Z -> (0 <= ram)%Q ->
  sim_run C APriority 0%Z (init_sim C np cpu ram) arrivals = (sf, logs, Some er) ->
  inner_err er /\
  er <> EBadPool /\ er <> EOversellCpu /\ er <> EOversellRam /\ er <> EBadSuspend /\ er <> EOpCount /\
  er <> EBadAssignArgs /\ er <> ESchedAssert.
Proof.
  intros E W Hc Hr H.
  pose proof (priority_run_errors_partial C l np cpu ram arrivals sf logs er E W Hc Hr H) as I.
  split; [exact I | exact (inner_not_command er I)].
Qed.

Theorem priority_run_invariant_mk C l np cpu ram arrivals sf logs oe :
  cf_static C = mk_static l -> dags_wf l -> (0 <= cpu)%Z -> (0 <= ram)%Q ->
  sim_run C APriority 0%Z (init_sim C np cpu ram) arrivals = (sf, logs, oe) ->
  pr_inv C np sf.
Proof.
  intros E W Hc Hr H.
  assert (Hrange : pipes_in_range (cf_static C)) by (rewrite E; apply mk_static_pipes_in_range; exact W).
  exact (priority_run_invariant C Hrange np cpu ram arrivals sf logs oe Hc Hr H).
Qed.

(* ------------------------------------------------------------------------------------------ *)
(* 9. single-operator containers: the closed loop                                               *)
(* ------------------------------------------------------------------------------------------ *)

Lemma flat_map_single {A} (l : list A) : flat_map (fun x => [x]) l = l.
Proof. induction l as [|a t IH]; cbn; [reflexivity | rewrite IH; reflexivity]. Qed.

Lemma steps_na_mono S w w' : steps_na S w w' -> mono_w w w'.
Proof.
  intros H. split; [eapply steps_na_length; eauto|]. intros o Ho. eapply steps_na_completed; eauto.
Qed.

Lemma NoDup_flat_map_intro {A} (g : A -> list nat) : forall l,
  NoDup l -> (forall x, In x l -> NoDup (g x)) ->
  (forall x y z, In x l -> In y l -> x <> y -> In z (g x) -> In z (g y) -> False) ->
  NoDup (flat_map g l).
Proof.
  induction l as [|a t IH]; intros N Ng D; cbn [flat_map]; [constructor|].
  inversion N as [|? ? Na Nt]; subst.
  apply NoDup_app_intro_nat.
  - apply Ng. left. reflexivity.
  - apply IH; [exact Nt | intros x Hx; apply Ng; right; exact Hx|].
    intros x y z Hx Hy. apply D; right; assumption.
  - intros z Hz Hz'. apply in_flat_map in Hz'. destruct Hz' as [y [Hy Hzy]].
    apply (D a y z); auto; [left; reflexivity | right; exact Hy | intros ->; contradiction].
Qed.

Lemma add_absent_In x y l : In y (add_absent x l) <-> y = x \/ In y l.
Proof.
  induction l as [|h t IH]; cbn [add_absent].
  - cbn. intuition.
  - destruct (Nat.eqb x h) eqn:E.
    + apply Nat.eqb_eq in E. subst h. cbn. intuition.
    + cbn [In]. rewrite IH. intuition.
Qed.

Lemma add_absent_NoDup x l : NoDup l -> NoDup (add_absent x l).
Proof.
  induction l as [|h t IH]; intros N; cbn [add_absent].
  - constructor; [intros []|constructor].
  - destruct (Nat.eqb x h) eqn:E; [exact N|]. inversion N as [|? ? Nh Nt]; subst.
    constructor; [|apply IH; exact Nt]. intros Hin. apply add_absent_In in Hin.
    destruct Hin as [->|Hin]; [rewrite Nat.eqb_refl in E; discriminate | contradiction].
Qed.

Lemma fold_add_absent_NoDup {A} (f : A -> nat) : forall l acc,
  NoDup acc -> NoDup (fold_left (fun l' x => add_absent (f x) l') l acc).
Proof.
  induction l as [|a t IH]; intros acc N; cbn [fold_left]; [exact N|].
  apply IH. apply add_absent_NoDup. exact N.
Qed.

Lemma pr_proc_NoDup C results newp :
  NoDup (fold_left (fun l r => fold_left (fun l' o => add_absent (op_pipe (S_of C) o) l') (r_ops r) l)
                   results (fold_left (fun l p => add_absent p l) newp [])).
Proof.
  assert (G : forall rs acc, NoDup acc ->
            NoDup (fold_left (fun l r => fold_left (fun l' o => add_absent (op_pipe (S_of C) o) l') (r_ops r) l)
                             rs acc)).
  { induction rs as [|r t IH]; intros acc N; cbn [fold_left]; [exact N|].
    apply IH. apply (fold_add_absent_NoDup (fun o => op_pipe (S_of C) o)). exact N. }
  apply G. apply (fold_add_absent_NoDup (fun p : nat => p)). constructor.
Qed.

Lemma msub_flat_skipn (n : nat) (l : list job) : msub (flat_map j_ops (skipn n l)) (flat_map j_ops l).
Proof.
  intros x. rewrite <- (firstn_skipn n l) at 2. rewrite flat_map_app, cnt_app. lia.
Qed.

Lemma cnt_class_split x (l : list job) :
  cnt x (flat_map j_ops (filter (is_class Query) l)) +
  cnt x (flat_map j_ops (filter (is_class Interactive) l)) +
  cnt x (flat_map j_ops (filter (is_class Batch) l)) = cnt x (flat_map j_ops l).
Proof.
  induction l as [|a t IH]; [reflexivity|].
  unfold is_class in *. cbn [filter flat_map]. rewrite cnt_app.
  destruct (j_prio a); cbn [prio_eqb prio_val Z.eqb Pos.eqb flat_map]; rewrite ?cnt_app; lia.
Qed.

(* round-robin preemption finds nobody when no active container is at an operator boundary *)
Lemma pr_preempt_none : forall fuel need iters i acc,
  (forall it, In it iters -> forall c, In c (snd (fst it)) -> c_can_suspend c = false) ->
  pr_preempt fuel need iters i acc = acc.
Proof.
  induction fuel as [|f IH]; intros need iters i acc H; cbn [pr_preempt]; [reflexivity|].
  destruct (Nat.leb need (length acc)); [reflexivity|].
  destruct (forallb (fun x => snd x) iters); [reflexivity|].
  destruct (nth i iters (0, [], true)) as [[pid l] ex] eqn:N.
  assert (Hl : forall c, In c l -> c_can_suspend c = false).
  { destruct (Nat.lt_ge_cases i (length iters)) as [L|L].
    - assert (Hin : In (pid, l, ex) iters) by (rewrite <- N; apply nth_In; exact L).
      intros c Hc. apply (H _ Hin c). exact Hc.
    - rewrite nth_overflow in N by exact L. inversion N; subst. intros c []. }
  destruct (skip_query l) as [[c t]|] eqn:SQ.
  - destruct (skip_query_some _ _ _ SQ) as [qs [El _]].
    assert (Hc : c_can_suspend c = false).
    { apply Hl. rewrite El. apply in_or_app. right. left. reflexivity. }
    rewrite Hc. apply IH. intros it Hit c0 Hc0. apply In_set_nth in Hit. destruct Hit as [->|Hit].
    + cbn [fst snd] in Hc0. apply Hl. rewrite El. apply in_or_app. right. right. exact Hc0.
    + eapply H; eauto.
  - apply IH. intros it Hit c0 Hc0. apply In_set_nth in Hit. destruct Hit as [->|Hit].
    + destruct Hc0.
    + eapply H; eauto.
Qed.

Lemma note_suspending_pools_nil C w : forall ps m,
  (forall p, In p ps -> p_suspending p = []) -> note_suspending_pools C w ps m = Ok m.
Proof.
  induction ps as [|p t IH]; intros m H; cbn [note_suspending_pools]; [reflexivity|].
  rewrite (H p (or_introl eq_refl)). cbn [note_suspending bind]. apply IH.
  intros q Hq. apply H. right. exact Hq.
Qed.

Lemma pr_requeue_pools_nil C w : forall ps s,
  (forall p, In p ps -> p_suspended p = []) -> pr_requeue_pools C w ps s = Ok s.
Proof.
  induction ps as [|p t IH]; intros s H; cbn [pr_requeue_pools]; [reflexivity|].
  rewrite (H p (or_introl eq_refl)). cbn [pr_requeue bind]. apply IH.
  intros q Hq. apply H. right. exact Hq.
Qed.

(* ---- histories whose requested states all satisfy [T] ---- *)
Inductive steps_t (S : static) (T : ostate -> Prop) : world -> world -> Prop :=
| stt_refl w : steps_t S T w w
| stt_cons w op new w' w'' :
    T new -> transition S w op new = Ok w' -> steps_t S T w' w'' -> steps_t S T w w''.

Lemma steps_t_trans S T a b c : steps_t S T a b -> steps_t S T b c -> steps_t S T a c.
Proof. induction 1; intros; auto. econstructor; eauto. Qed.

Lemma steps_t_one S (T : ostate -> Prop) w op new w' :
  T new -> transition S w op new = Ok w' -> steps_t S T w w'.
Proof. intros. econstructor; eauto. constructor. Qed.

(* a state nobody asks for cannot appear: it was there before *)
Lemma steps_t_back S T w w' o X :
  steps_t S T w w' -> ~ T X -> st_of w' o = X -> st_of w o = X.
Proof.
  induction 1 as [w|w op new w' w'' Tn Tr _ IH]; intros NT E; [exact E|].
  specialize (IH NT E). destruct (Nat.eq_dec o op) as [->|N].
  - destruct (Nat.lt_ge_cases op (length (w_st w))) as [L|L].
    + rewrite (transition_st_same _ _ _ _ _ Tr L) in IH. subst X. contradiction.
    + apply transition_ok in Tr. destruct Tr as (_ & _ & ->). unfold world_after, st_of in IH.
      cbn [w_st] in IH. rewrite set_nth_out in IH by exact L. exact IH.
  - rewrite (transition_st_other _ _ _ _ _ _ Tr N) in IH. exact IH.
Qed.

Lemma transition_all_steps_t S (T : ostate -> Prop) new : T new -> forall ops w w',
  transition_all S w ops new = Ok w' -> steps_t S T w w'.
Proof.
  intros Hn. induction ops as [|o t IH]; cbn; intros w w' H.
  - inversion H. constructor.
  - unfold bind in H. destruct (transition S w o new) eqn:Tr; [|discriminate].
    econstructor; eauto.
Qed.

Definition exec_req (x : ostate) : Prop := x = Running \/ x = Completed \/ x = Failed.

Lemma ctick_steps_t C w cons c w' cons' c' :
  ctick C w cons c = Ok (w', cons', c') -> steps_t (cf_static C) exec_req w w'.
Proof.
  intros H. apply ctick_cases in H. destruct H as [_ [H|[H|H]]].
  - destruct H as (_ & -> & _). constructor.
  - destruct H as (_ & _ & -> & _). constructor.
  - destruct H as (_ & _ & op & w1 & _ & Hw1 & H).
    assert (S1 : steps_t (cf_static C) exec_req w w1).
    { destruct Hw1 as [[_ ->]|[_ T]]; [constructor|].
      eapply steps_t_one; eauto. left. reflexivity. }
    destruct H as [(-> & _)|(T & _)]; [exact S1|].
    eapply steps_t_trans; [exact S1|]. eapply steps_t_one; eauto. right. left. reflexivity.
Qed.

Lemma ckill_steps_t C w cons c w' cons' c' :
  ckill C w cons c = Ok (w', cons', c') -> steps_t (cf_static C) (eq Failed) w w'.
Proof.
  intros H. apply ckill_ok in H. destruct H as (_ & _ & _ & T).
  eapply transition_all_steps_t; eauto.
Qed.

Lemma steps_t_weaken S (T T' : ostate -> Prop) w w' :
  (forall x, T x -> T' x) -> steps_t S T w w' -> steps_t S T' w w'.
Proof. intros H. induction 1; [constructor | econstructor; eauto]. Qed.

Lemma tick_active_steps_t C : forall act w cons w' cons' act',
  tick_active C w cons act = Ok (w', cons', act') -> steps_t (cf_static C) exec_req w w'.
Proof.
  induction act as [|c t IH]; intros w cons w' cons' act' H; cbn [tick_active] in H.
  - inversion H; subst. constructor.
  - bok H r1 E1. destruct r1 as [[w1 cons1] c1]. bok H r2 E2. destruct r2 as [[w2 cons2] t2].
    inversion H; subst. eapply steps_t_trans; [eapply ctick_steps_t; eauto | eapply IH; eauto].
Qed.

Lemma kill_over_limit_steps_t C : forall act w cons w' cons' act',
  kill_over_limit C w cons act = Ok (w', cons', act') -> steps_t (cf_static C) (eq Failed) w w'.
Proof.
  induction act as [|c t IH]; intros w cons w' cons' act' H; cbn [kill_over_limit] in H.
  - inversion H; subst. constructor.
  - bok H r1 E1. destruct r1 as [[w1 cons1] c1]. bok H r2 E2. destruct r2 as [[w2 cons2] t2].
    inversion H; subst. eapply steps_t_trans; [|eapply IH; eauto].
    destruct (Qltb (c_ram c) (c_mem c)); [eapply ckill_steps_t; eauto | inversion E1; subst; constructor].
Qed.

Lemma kill_until_fits_steps_t C mx : forall order w cons act w' cons' act',
  kill_until_fits C mx w cons act order = Ok (w', cons', act') -> steps_t (cf_static C) (eq Failed) w w'.
Proof.
  induction order as [|cid t IH]; intros w cons act w' cons' act' H; cbn [kill_until_fits] in H.
  - inversion H; subst. constructor.
  - destruct (Qleb cons mx); [inversion H; subst; constructor|].
    destruct (find_container cid act) as [c|]; [|discriminate].
    bok H r1 E1. destruct r1 as [[w1 cons1] c1].
    eapply steps_t_trans; [eapply ckill_steps_t; eauto | eapply IH; eauto].
Qed.

Lemma oom_killer_steps_t C mx w cons act w' cons' act' :
  oom_killer C mx w cons act = Ok (w', cons', act') -> steps_t (cf_static C) (eq Failed) w w'.
Proof.
  intros H. apply oom_killer_inv in H. destruct H as (w1 & cons1 & act1 & K1 & K2).
  eapply steps_t_trans; [eapply kill_over_limit_steps_t; eauto | eapply kill_until_fits_steps_t; eauto].
Qed.

Lemma mk_assignments_steps_t C : forall asgs w w',
  mk_assignments C w asgs = Ok w' -> steps_t (cf_static C) (eq Assigned) w w'.
Proof.
  induction asgs as [|a t IH]; intros w w' H; cbn [mk_assignments] in H.
  - inversion H; subst. constructor.
  - bok H w1 E1. eapply steps_t_trans; [|eapply IH; eauto].
    unfold mk_assignment in E1.
    destruct (Nat.eqb (length (a_ops a)) 0); [discriminate|].
    destruct (Z.leb (a_cpu a) 0); [discriminate|].
    destruct (Qleb (a_ram a) 0); [discriminate|].
    eapply transition_all_steps_t; eauto.
Qed.

(* a pool tick without suspension commands and without suspending containers only starts, completes
   and fails operators *)
Lemma pool_tick_nosusp_steps_t C w next p asgs w' next' p' res :
  pool_tick C w next p [] asgs = Ok (w', next', p', res) -> p_suspending p = [] ->
  steps_t (cf_static C) exec_req w w'.
Proof.
  intros H Hs. apply LedgerFacts.pool_tick_inv in H.
  destruct H as (w1 & act1 & sing1 & cons1 & acpu2 & aram2 & act2 & w3 & sing3 & w4 & cons4 & act4
                 & cons5 & act5 & E1 & _ & E3 & E4 & E5 & _ & _).
  apply LedgerFacts.phase1_inv in E1. destruct E1 as [(_ & -> & _ & -> & _)|(X & _)]; [|congruence].
  rewrite Hs in E3. cbn in E3. inversion E3; subst.
  eapply steps_t_trans; [eapply tick_active_steps_t; eauto|].
  eapply steps_t_weaken; [|eapply oom_killer_steps_t; eauto]. intros x <-. right. right. reflexivity.
Qed.

(* ---- an operator completed in a tick of single-operator containers ends its container ---- *)
Definition single_c (c : container) : Prop := exists o, c_ops c = [o] /\ c_opidx c = 0.

Lemma ctick_newly_completed C w cons c w1 cons1 c1 p :
  ctick C w cons c = Ok (w1, cons1, c1) -> single_c c ->
  st_of w1 p = Completed -> st_of w p <> Completed ->
  c_completed c1 = true /\ c_ops c1 = [p].
Proof.
  intros H (o & Eo & Ei) Hp1 Hp0. apply ctick_cases in H.
  destruct H as [(_ & Eops & _) [H|[H|H]]].
  - destruct H as (_ & -> & _). contradiction.
  - destruct H as (_ & _ & -> & _). contradiction.
  - destruct H as (_ & _ & op & wa & Hn & Hwa & H).
    rewrite Eo, Ei in Hn. cbn in Hn. inversion Hn; subst op.
    assert (Sa : steps_t (cf_static C) (eq Running) w wa).
    { destruct Hwa as [[_ ->]|[_ T]]; [constructor | eapply steps_t_one; eauto]. }
    assert (Hpa : st_of wa p <> Completed).
    { intros X. apply Hp0. eapply steps_t_back; [exact Sa| |exact X]. discriminate. }
    destruct H as [(-> & _)|(T & _ & _ & _ & [(_ & Ec & _)|(Ne & _)])].
    + contradiction.
    + destruct (Nat.eq_dec p o) as [->|N].
      * split; [exact Ec | rewrite Eops; exact Eo].
      * exfalso. apply Hpa. rewrite <- (transition_st_other _ _ _ _ _ _ T N). exact Hp1.
    + rewrite Eo, Ei in Ne. cbn in Ne. congruence.
Qed.

Lemma tick_active_newly_completed C : forall act w cons w' cons' act' p,
  tick_active C w cons act = Ok (w', cons', act') -> Forall single_c act ->
  st_of w' p = Completed -> st_of w p <> Completed ->
  exists c', In c' act' /\ c_completed c' = true /\ c_ops c' = [p].
Proof.
  induction act as [|c t IH]; intros w cons w' cons' act' p H F Hp1 Hp0; cbn [tick_active] in H.
  - inversion H; subst. contradiction.
  - bok H r1 E1. destruct r1 as [[w1 cons1] c1]. bok H r2 E2. destruct r2 as [[w2 cons2] t2].
    inversion H; subst. inversion F as [|? ? Fc Ft]; subst.
    destruct (ostate_eqb (st_of w1 p) Completed) eqn:Q.
    + apply ostate_eqb_eq in Q. destruct (ctick_newly_completed _ _ _ _ _ _ _ _ E1 Fc Q Hp0) as [A B].
      exists c1. split; [left; reflexivity | auto].
    + apply ostate_eqb_neq in Q. destruct (IH _ _ _ _ _ _ E2 Ft Hp1 Q) as (c' & Hc' & A).
      exists c'. split; [right; exact Hc' | exact A].
Qed.

Lemma kill_when_keeps f c :
  c_ops (kill_when f c) = c_ops c /\ (c_completed c = true -> c_completed (kill_when f c) = true).
Proof. unfold kill_when. destruct (f c); cbn; auto. Qed.

Lemma replace_keeps c' : forall l x c0,
  find_container (c_id c') l = Some c0 -> In x l -> x <> c0 -> In x (replace_container c' l).
Proof.
  induction l as [|h t IH]; intros x c0 F Hx Ne; [destruct Hx|].
  unfold find_container in F. cbn [find] in F. cbn [replace_container].
  destruct (Nat.eqb (c_id h) (c_id c')) eqn:E.
  - inversion F; subst h. destruct Hx as [->|Hx]; [congruence | right; exact Hx].
  - destruct Hx as [->|Hx]; [left; reflexivity | right; eapply IH; eauto].
Qed.

Lemma kill_until_fits_keeps C mx : forall order w cons act w' cons' act' c,
  kill_until_fits C mx w cons act order = Ok (w', cons', act') ->
  In c act -> c_completed c = true -> In c act'.
Proof.
  induction order as [|cid t IH]; intros w cons act w' cons' act' c H Hc Cc; cbn [kill_until_fits] in H.
  - inversion H; subst. exact Hc.
  - destruct (Qleb cons mx); [inversion H; subst; exact Hc|].
    destruct (find_container cid act) as [c0|] eqn:F; [|discriminate].
    bok H r1 E1. destruct r1 as [[w1 cons1] c1].
    pose proof (ckill_ok _ _ _ _ _ _ _ E1) as (Nc0 & -> & _).
    eapply IH; [exact H| |exact Cc]. eapply replace_keeps; [|exact Hc|].
    + cbn [dead c_id]. destruct (OomFacts.find_container_some _ _ _ F) as [_ Eid]. rewrite Eid. exact F.
    + intros ->. congruence.
Qed.

Lemma oom_killer_keeps C mx w cons act w' cons' act' c :
  oom_killer C mx w cons act = Ok (w', cons', act') ->
  In c act -> c_completed c = true ->
  exists c', In c' act' /\ c_completed c' = true /\ c_ops c' = c_ops c.
Proof.
  intros H Hc Cc. apply oom_killer_inv in H. destruct H as (w1 & cons1 & act1 & K1 & K2).
  apply kill_over_limit_spec in K1. destruct K1 as (-> & _).
  destruct (kill_when_keeps over_limit c) as [Eo Ek].
  exists (kill_when over_limit c). split; [|split; [apply Ek; exact Cc | exact Eo]].
  eapply kill_until_fits_keeps; [exact K2|apply in_map; exact Hc|apply Ek; exact Cc].
Qed.

Lemma forallb_false_ex {A} (f : A -> bool) l : forallb f l = false -> exists x, In x l /\ f x = false.
Proof.
  induction l as [|a t IH]; cbn; [discriminate|]. destruct (f a) eqn:E; cbn.
  - intros H. destruct (IH H) as (x & Hx & Fx). exists x. auto.
  - intros _. exists a. auto.
Qed.

(* an operator that a pool tick of single-operator containers completes is reported in its results *)
Lemma pool_tick_newly_completed C w next p asgs w' next' p' res q :
  pool_tick C w next p [] asgs = Ok (w', next', p', res) -> p_suspending p = [] ->
  Forall single_c (p_active p) -> (forall a, In a asgs -> exists o, a_ops a = [o]) ->
  st_of w' q = Completed -> st_of w q <> Completed ->
  exists r, In r res /\ In q (r_ops r).
Proof.
  intros H Hs Fa Ha Hq1 Hq0. apply LedgerFacts.pool_tick_inv in H.
  destruct H as (w1 & act1 & sing1 & cons1 & acpu2 & aram2 & act2 & w3 & sing3 & w4 & cons4 & act4
                 & cons5 & act5 & E1 & E2 & E3 & E4 & E5 & _ & ->).
  apply LedgerFacts.phase1_inv in E1. destruct E1 as [(_ & -> & -> & -> & _)|(X & _)]; [|congruence].
  rewrite Hs in E3. cbn in E3. inversion E3; subst.
  apply LedgerFacts.phase2_spec in E2. destruct E2 as (_ & -> & _).
  assert (F2 : Forall single_c (p_active p ++ new_containers next asgs)).
  { apply Forall_app. split; [exact Fa|]. apply Forall_forall. intros c Hc.
    apply new_containers_In in Hc. destruct Hc as (a & Hin & Eo & _ & _ & Ei & _).
    destruct (Ha a Hin) as [o Eao]. exists o. rewrite Eo, Eao. auto. }
  assert (Hq4 : st_of w4 q = Completed).
  { eapply steps_t_back; [eapply oom_killer_steps_t; exact E5| |exact Hq1]. discriminate. }
  destruct (tick_active_newly_completed _ _ _ _ _ _ _ _ E4 F2 Hq4 Hq0) as (c4 & Hc4 & Cc4 & Eo4).
  destruct (oom_killer_keeps _ _ _ _ _ _ _ _ _ E5 Hc4 Cc4) as (c5 & Hc5 & Cc5 & Eo5).
  exists (result_of (p_id p) c5). split.
  - apply in_map. apply filter_In. auto.
  - cbn [result_of r_ops]. rewrite Eo5, Eo4. left. reflexivity.
Qed.


Lemma fold_add_absent_In {A} (f : A -> nat) y : forall l acc,
  In y (fold_left (fun l' x => add_absent (f x) l') l acc) <-> In y acc \/ exists x, In x l /\ f x = y.
Proof.
  induction l as [|a t IH]; intros acc; cbn [fold_left].
  - split; [auto | intros [H|(x & [] & _)]; exact H].
  - rewrite IH, add_absent_In. split.
    + intros [[->|H]|(x & Hx & E)]; [right; exists a; split; [left|]; auto | left; exact H
                                    | right; exists x; split; [right|]; auto].
    + intros [H|(x & [->|Hx] & E)]; [left; right; exact H | left; left; auto | right; exists x; auto].
Qed.

Lemma pr_proc_In C results newp y :
  In y (fold_left (fun l r => fold_left (fun l' o => add_absent (op_pipe (S_of C) o) l') (r_ops r) l)
                  results (fold_left (fun l p => add_absent p l) newp [])) <->
  In y newp \/ exists r o, In r results /\ In o (r_ops r) /\ op_pipe (S_of C) o = y.
Proof.
  assert (G : forall rs acc,
            In y (fold_left (fun l r => fold_left (fun l' o => add_absent (op_pipe (S_of C) o) l') (r_ops r) l) rs acc)
            <-> In y acc \/ exists r o, In r rs /\ In o (r_ops r) /\ op_pipe (S_of C) o = y).
  { induction rs as [|r t IH]; intros acc; cbn [fold_left].
    - split; [auto | intros [H|(r & o & [] & _)]; exact H].
    - rewrite IH, (fold_add_absent_In (fun o => op_pipe (S_of C) o)). split.
      + intros [[H|(o & Ho & E)]|(r0 & o & Hr & Ho & E)];
          [left; exact H | right; exists r, o; split; [left|]; auto
          | right; exists r0, o; split; [right|]; auto].
      + intros [H|(r0 & o & [->|Hr] & Ho & E)];
          [left; left; exact H | left; right; exists o; auto | right; exists r0, o; auto]. }
  rewrite G, (fold_add_absent_In (fun p : nat => p)). split.
  - intros [[[]|(x & Hx & <-)]|H]; [left; exact Hx | right; exact H].
  - intros [H|H]; [left; right; exists y; auto | right; exact H].
Qed.

(* the failed results a retry record comes from *)
Definition vals_from_err (w : world) (m : list (nat * retry)) (rs : list result) : Prop :=
  forall kv, In kv m -> exists r, In r rs /\ snd kv = retry_of_result r /\ r_err r = true /\ In (fst kv) (r_ops r).

Lemma retry_fold_inner_err w r all : forall ops m,
  In r all -> r_err r = true -> incl ops (r_ops r) -> vals_from_err w m all ->
  vals_from_err w (fold_left (fun m' o => if ostate_eqb (st_of w o) Completed then m'
                                          else assoc_set o (retry_of_result r) m') ops m) all.
Proof.
  induction ops as [|o t IH]; intros m Hr He Hi V; cbn [fold_left]; [exact V|].
  apply IH; [exact Hr | exact He | intros x Hx; apply Hi; right; exact Hx|].
  destruct (ostate_eqb (st_of w o) Completed); [exact V|].
  intros kv Hkv. apply assoc_set_In in Hkv. destruct Hkv as [->|Hkv]; [|apply V; exact Hkv].
  exists r. cbn [fst snd]. split; [exact Hr|]. split; [reflexivity|]. split; [exact He|].
  apply Hi. left. reflexivity.
Qed.

Lemma retry_info_from_err w results o rs :
  assoc_find o (retry_info w results) = Some rs ->
  exists r, In r results /\ rs = retry_of_result r /\ r_err r = true /\ In o (r_ops r).
Proof.
  intros H. apply assoc_find_In in H.
  assert (G : forall rsl m, incl rsl results -> vals_from_err w m results ->
            vals_from_err w (fold_left (fun m r =>
              if r_err r then
                fold_left (fun m' o => if ostate_eqb (st_of w o) Completed then m'
                                       else assoc_set o (retry_of_result r) m') (r_ops r) m
              else m) rsl m) results).
  { induction rsl as [|r t IH]; intros m Hi V; cbn [fold_left]; [exact V|].
    apply IH; [intros x Hx; apply Hi; right; exact Hx|].
    destruct (r_err r) eqn:E; [|exact V].
    apply retry_fold_inner_err; [apply Hi; left; reflexivity | exact E | apply incl_refl | exact V]. }
  assert (V : vals_from_err w (retry_info w results) results).
  { unfold retry_info. apply G; [apply incl_refl | intros kv []]. }
  destruct (V _ H) as (r & Hr & E1 & E2 & E3). exists r. auto.
Qed.

Lemma pools_tick_nosusp_steps_t C asgs : forall ps w next w' next' ps' res,
  pools_tick C w next ps [] asgs = Ok (w', next', ps', res) ->
  (forall p, In p ps -> p_suspending p = []) -> steps_t (cf_static C) exec_req w w'.
Proof.
  induction ps as [|p t IH]; intros w next w' next' ps' res H Hs; cbn [pools_tick] in H.
  - inversion H; subst. constructor.
  - cbv zeta in H. cbn [filter] in H. bok H r1 E1. destruct r1 as [[[w1 next1] p1] res1].
    bok H r2 E2. destruct r2 as [[[w2 next2] t2] res2]. inversion H; subst.
    eapply steps_t_trans; [eapply pool_tick_nosusp_steps_t; [exact E1 | apply Hs; left; reflexivity]|].
    eapply IH; [exact E2|]. intros q Hq. apply Hs. right. exact Hq.
Qed.

Lemma pools_tick_newly_completed C asgs : forall ps w next w' next' ps' res q,
  pools_tick C w next ps [] asgs = Ok (w', next', ps', res) ->
  (forall p, In p ps -> p_suspending p = [] /\ Forall single_c (p_active p)) ->
  (forall a, In a asgs -> exists o, a_ops a = [o]) ->
  st_of w' q = Completed -> st_of w q <> Completed ->
  exists r, In r res /\ In q (r_ops r).
Proof.
  induction ps as [|p t IH]; intros w next w' next' ps' res q H Hp Ha Hq1 Hq0; cbn [pools_tick] in H.
  - inversion H; subst. contradiction.
  - cbv zeta in H. cbn [filter] in H. bok H r1 E1. destruct r1 as [[[w1 next1] p1] res1].
    bok H r2 E2. destruct r2 as [[[w2 next2] t2] res2]. inversion H; subst.
    destruct (Hp p (or_introl eq_refl)) as [Hs Fa].
    assert (Ha' : forall a, In a (filter (fun a => (a_pool a =? Z.of_nat (p_id p))%Z) asgs) ->
                            exists o, a_ops a = [o]).
    { intros a Hin. apply filter_In in Hin. apply Ha. tauto. }
    destruct (ostate_eqb (st_of w1 q) Completed) eqn:Q.
    + apply ostate_eqb_eq in Q.
      destruct (pool_tick_newly_completed _ _ _ _ _ _ _ _ _ _ E1 Hs Fa Ha' Q Hq0) as (r & Hr & Hqr).
      exists r. split; [apply in_or_app; left; exact Hr | exact Hqr].
    + apply ostate_eqb_neq in Q.
      destruct (IH _ _ _ _ _ _ _ E2 (fun p0 Hp0 => Hp p0 (or_intror Hp0)) Ha Hq1 Q) as (r & Hr & Hqr).
      exists r. split; [apply in_or_app; right; exact Hr | exact Hqr].
Qed.

Section SingleMode.
Variable C : cfg.
Let St := cf_static C.
Hypothesis Hscript : forall op cpu, cf_script C op cpu <> [].
Hypothesis Hsingle : cf_multi C = false.
Hypothesis Horders : orders_nodup St.
Hypothesis Hrange : pipes_in_range St.
Hypothesis Hpipe : forall k o, In o (pd_order (pipe_of St k)) -> op_pipe St o = k.
Hypothesis Hpar : forall k o p, In o (pd_order (pipe_of St k)) -> In p (op_parents St o) -> op_pipe St p = k.

(* a queued job of the single-operator mode: one known, assignable operator whose parents are complete *)
Definition sjob (w : world) (j : job) : Prop :=
  jgood C j /\
  exists o, j_ops j = [o] /\ assignable (st_of w o) = true /\ parents_complete St w o = true /\
            (retry_err j = true -> st_of w o = Failed).

(* a chain of single-operator Assignment constructions *)
Inductive sasgs : world -> list asg -> world -> Prop :=
| sa_nil w : sasgs w [] w
| sa_cons w a l w1 w' o :
    a_ops a = [o] -> o < length (s_ops St) -> assignable (st_of w o) = true ->
    parents_complete St w o = true -> Qleb (a_ram a) 0%Q = false ->
    mk_assignment C w a = Ok w1 -> sasgs w1 l w' -> sasgs w (a :: l) w'.

Lemma sasgs_app w l1 w1 l2 w2 : sasgs w l1 w1 -> sasgs w1 l2 w2 -> sasgs w (l1 ++ l2) w2.
Proof.
  induction 1 as [w|w a l w1 w' o A1 A2 A3 A4 A5 A6 P IH]; intros X; cbn [app];
    [exact X | econstructor; eauto].
Qed.

Lemma sasgs_facts : forall w l w', sasgs w l w' -> wlen St w ->
  wlen St w' /\ mono_w w w' /\ mk_assignments C w l = Ok w' /\ Forall (asg_ready C w') l /\
  (forall x, assignable (st_of w x) = false -> st_of w' x = st_of w x) /\
  (forall a, In a l -> ops_in_range St (a_ops a)).
Proof.
  induction 1 as [w|w a l w1 w' o A1 Ro A3 A4 A5 A6 P IH]; intros L.
  - split; [exact L|]. split; [apply mono_w_refl|]. split; [reflexivity|]. split; [constructor|].
    split; [reflexivity|intros ? []].
  - assert (Ra : ops_in_range St (a_ops a)) by (rewrite A1; constructor; [exact Ro|constructor]).
    pose proof (mk_assignment_steps_in _ _ _ _ A6 Ra L) as S1.
    pose proof (steps_in_wlen _ _ _ S1 L) as L1. pose proof (steps_in_mono C _ _ S1) as M1.
    destruct (IH L1) as (L' & M' & E' & F' & Fr' & R').
    split; [exact L'|]. split; [eapply mono_w_trans; eauto|]. split.
    { cbn [mk_assignments]. rewrite A6. cbn [bind]. exact E'. }
    split; [|split].
    + constructor; [|exact F']. split; [exact A5|]. exists o. split; [exact A1|].
      split; [unfold wlen in L'; fold St; rewrite L'; exact Ro|]. split.
      * assert (S1o : st_of w1 o = Assigned).
        { pose proof A6 as X. unfold mk_assignment in X.
          destruct (Nat.eqb (length (a_ops a)) 0); [discriminate|].
          destruct (Z.leb (a_cpu a) 0); [discriminate|].
          destruct (Qleb (a_ram a) 0); [discriminate|].
          rewrite A1 in X. cbn [transition_all] in X. bok X w0 E0. inversion X; subst.
          apply (transition_st_same _ _ _ _ _ E0). unfold wlen in L. fold St in L. rewrite L. exact Ro. }
        rewrite (Fr' o); [exact S1o|]. rewrite S1o. reflexivity.
      * eapply (parents_complete_mono C); [|exact A4]. eapply mono_w_trans; eauto.
    + intros x Hx. pose proof (mk_assignment_frame C _ _ _ x A6 Hx) as F1.
      rewrite (Fr' x); [exact F1|]. rewrite F1. exact Hx.
    + intros a' [<-|Ha']; [exact Ra|apply R', Ha'].
Qed.

Lemma sjob_stable w w' j :
  mono_w w w' -> (forall o, In o (j_ops j) -> st_of w' o = st_of w o) -> sjob w j -> sjob w' j.
Proof.
  intros M F (G & o & Eo & A & P & Rf). split; [exact G|]. exists o. split; [exact Eo|].
  rewrite (F o) by (rewrite Eo; left; reflexivity). split; [exact A|].
  split; [eapply (parents_complete_mono C); eauto | exact Rf].
Qed.

(* the scan of a class queue in single-operator mode never fails *)
Lemma pr_scan_single : forall queue w st oom,
  wlen St w -> (forall j, In j queue -> sjob w j) -> NoDup (flat_map j_ops queue) ->
  exists n st' w' asgs oom',
    pr_scan C w st queue oom = Ok (n, st', w', asgs, oom') /\
    sasgs w asgs w' /\
    (forall x, ~ In x (flat_map j_ops (firstn n queue)) -> st_of w' x = st_of w x).
Proof.
  induction queue as [|j rest IH]; intros w st oom L G N.
  - exists 0, st, w, [], oom. split; [reflexivity|]. split; [constructor | reflexivity].
  - rewrite pr_scan_cons.
    destruct (max_ram_pool st 0 None 0%Q) as [pid|] eqn:M.
    2:{ exists 0, st, w, [], oom. split; [reflexivity|]. split; [constructor | reflexivity]. }
    destruct (max_ram_pool_some _ _ M) as (_ & Pc & Pr).
    cbv zeta. cbn [flat_map] in N.
    assert (Gr : forall j0, In j0 rest -> sjob w j0) by (intros j0 Hj0; apply G; right; exact Hj0).
    pose proof (SafetyFacts.NoDup_app_r _ _ N) as Nr.
    destruct (pr_nofit (nth pid st dummy_stat) j).
    { destruct (IH w st oom L Gr Nr) as (n & st' & w' & asgs & oom' & E & SA & Fr).
      rewrite E. exists (S n), st', w', asgs, oom'. split; [reflexivity|]. split; [exact SA|].
      intros x Hx. apply Fr. intros Hin. apply Hx. cbn [firstn flat_map]. apply in_or_app. right. exact Hin. }
    destruct (pr_cut C (nth pid st dummy_stat) j).
    { destruct (IH w st (oom + 1)%Z L Gr Nr) as (n & st' & w' & asgs & oom' & E & SA & Fr).
      rewrite E. exists (S n), st', w', asgs, oom'. split; [reflexivity|]. split; [exact SA|].
      intros x Hx. apply Fr. intros Hin. apply Hx. cbn [firstn flat_map]. apply in_or_app. right. exact Hin. }
    destruct (G j (or_introl eq_refl)) as (Gj & o & Eo & As & Pco & _).
    pose proof (jgood_args_ok C (nth pid st dummy_stat) j pid Gj Pc Pr) as AO.
    set (a := mk_asg j pid (fst (pr_size C (nth pid st dummy_stat) j)) (snd (pr_size C (nth pid st dummy_stat) j))) in *.
    assert (T : transition St w o Assigned = Ok (world_after St w o Assigned)).
    { apply transition_ok. split; [exact As|]. split; [discriminate|reflexivity]. }
    assert (MA : mk_assignment C w a = Ok (world_after St w o Assigned)).
    { rewrite (mk_assignment_args_ok C w a AO). unfold a, mk_asg. cbn [a_ops]. rewrite Eo.
      cbn [transition_all]. fold St. rewrite T. reflexivity. }
    set (w1 := world_after St w o Assigned) in *.
    pose proof (transition_mono C _ _ _ _ T) as M1.
    assert (L1 : wlen St w1).
    { unfold wlen in *. rewrite (transition_length _ _ _ _ _ T). exact L. }
    assert (Gr1 : forall j0, In j0 rest -> sjob w1 j0).
    { intros j0 Hj0. eapply sjob_stable; [exact M1| |apply Gr; exact Hj0].
      intros o' Ho'. apply (transition_st_other _ _ _ _ _ _ T). intros ->.
      eapply (NoDup_app_disj _ _ o N); [rewrite Eo; left; reflexivity|].
      apply in_flat_map. exists j0. auto. }
    destruct (IH w1 (set_stat st pid (ps_take (nth pid st dummy_stat) (a_cpu a) (a_ram a))) oom L1 Gr1 Nr)
      as (n & st' & w' & asgs & oom' & E & SA & Fr).
    rewrite MA. cbn [bind]. rewrite E.
    exists (S n), st', w', (a :: asgs), oom'. split; [reflexivity|]. split.
    + destruct Gj as (_ & Rj & _). rewrite Eo in Rj. inversion Rj as [|? ? Ro _]; subst.
      destruct AO as (_ & _ & AR).
      eapply sa_cons; [unfold a, mk_asg; cbn [a_ops]; exact Eo | exact Ro | exact As | exact Pco
                      | exact AR | exact MA | exact SA].
    + intros x Hx. cbn [firstn flat_map] in Hx. rewrite Fr.
      * apply (transition_st_other _ _ _ _ _ _ T). intros ->. apply Hx. apply in_or_app. left.
        rewrite Eo. left. reflexivity.
      * intros Hin. apply Hx. apply in_or_app. right. exact Hin.
Qed.

(* ---- the jobs filed in a round, single-operator mode ---- *)
Definition pr_proc (results : list result) (newp : list nat) : list nat :=
  fold_left (fun l r => fold_left (fun l' o => add_absent (op_pipe (S_of C) o) l') (r_ops r) l)
            results (fold_left (fun l p => add_absent p l) newp []).

Definition new_ops_of (w : world) (s : sstate) (p : nat) : list nat :=
  filter (fun o => negb (memb o (queued_ops s))) (get_ops St w p assignable true).

Lemma flat_map_flat_map {A B D} (f : A -> list B) (g : B -> list D) l :
  flat_map g (flat_map f l) = flat_map (fun x => flat_map g (f x)) l.
Proof. induction l as [|a t IH]; cbn [flat_map]; [reflexivity|]. rewrite flat_map_app, IH. reflexivity. Qed.

Lemma pr_new_jobs_ops w s results newp :
  flat_map j_ops (pr_new_jobs C w s results newp) = flat_map (new_ops_of w s) (pr_proc results newp).
Proof.
  unfold pr_new_jobs. cbv zeta. fold (pr_proc results newp). rewrite Hsingle.
  rewrite flat_map_flat_map. apply flat_map_ext. intros p. unfold new_ops_of. fold St.
  change (S_of C) with St.
  destruct (filter _ (get_ops St w p assignable true)) as [|o t]; [reflexivity|].
  generalize (o :: t) as l. clear. intros l.
  induction l as [|a l IH]; cbn [map flat_map j_ops app]; [reflexivity | rewrite IH; reflexivity].
Qed.

Lemma new_ops_of_spec w s p o :
  In o (new_ops_of w s p) ->
  In o (pd_order (pipe_of St p)) /\ assignable (st_of w o) = true /\ parents_complete St w o = true /\
  ~ In o (queued_ops s).
Proof.
  unfold new_ops_of, get_ops. intros H. apply filter_In in H. destruct H as [H Hn].
  apply filter_In in H. destruct H as [Hin Hb]. apply andb_true_iff in Hb. destruct Hb as [Hb1 Hb2].
  cbn [negb orb] in Hb2. apply negb_true_iff in Hn. apply memb_false in Hn. auto.
Qed.

Definition res_failed (w : world) (results : list result) : Prop :=
  forall r, In r results -> r_err r = true -> forall o, In o (r_ops r) -> st_of w o = Failed.

Lemma pr_new_jobs_single w s results newp j :
  Forall rpos results -> res_failed w results -> In j (pr_new_jobs C w s results newp) ->
  sjob w j /\ forall o, In o (j_ops j) -> ~ In o (queued_ops s).
Proof.
  intros Hr Hrf Hj. pose proof (pr_new_jobs_good C w s results newp j Hrange Hr Hj) as G.
  assert (X : exists p o, j_ops j = [o] /\ In o (new_ops_of w s p) /\
                          j_retry j = assoc_find o (retry_info w results)).
  { unfold pr_new_jobs in Hj. cbv zeta in Hj. rewrite Hsingle in Hj.
    apply in_flat_map in Hj. destruct Hj as [p [_ Hj]]. change (S_of C) with St in Hj.
    fold (new_ops_of w s p) in Hj.
    destruct (new_ops_of w s p) as [|o t] eqn:E; [destruct Hj|].
    apply in_map_iff in Hj. destruct Hj as [o' [<- Ho']]. exists p, o'. cbn [j_ops j_retry].
    split; [reflexivity|]. split; [rewrite E; exact Ho' | reflexivity]. }
  destruct X as (p & o & Eo & Ho & Er). apply new_ops_of_spec in Ho. destruct Ho as (_ & A & P & Nq).
  split.
  - split; [exact G|]. exists o. split; [exact Eo|]. split; [exact A|]. split; [exact P|].
    unfold retry_err. rewrite Er. destruct (assoc_find o (retry_info w results)) as [rs|] eqn:F; [|discriminate].
    intros _. apply retry_info_from_err in F. destruct F as (r & Hr0 & _ & He & Hin). eapply Hrf; eauto.
  - intros o' Ho'. rewrite Eo in Ho'. destruct Ho' as [<-|[]]. exact Nq.
Qed.

Lemma pr_new_jobs_nodup w s results newp :
  NoDup (flat_map j_ops (pr_new_jobs C w s results newp)).
Proof.
  rewrite pr_new_jobs_ops. apply NoDup_flat_map_intro.
  - apply pr_proc_NoDup.
  - intros p _. unfold new_ops_of, get_ops. apply NoDup_filter_nat. apply NoDup_filter_nat. apply Horders.
  - intros x y z _ _ Ne Hx Hy. apply new_ops_of_spec in Hx. apply new_ops_of_spec in Hy.
    destruct Hx as (Hx & _). destruct Hy as (Hy & _). apply Ne.
    rewrite <- (Hpipe _ _ Hx). apply Hpipe. exact Hy.
Qed.

Definition squeue (w : world) (s : sstate) : Prop :=
  (forall q j, In j (queue_of s q) -> sjob w j) /\ NoDup (queued_ops s).

Lemma nodup_cnt l x : NoDup l -> cnt x l <= 1.
Proof. intros N. rewrite (NoDup_count_occ Nat.eq_dec) in N. apply N. Qed.
Lemma cnt0_not_in x l : cnt x l = 0 -> ~ In x l.
Proof. intros E Hin. apply cnt_In in Hin. lia. Qed.
Lemma in_cnt x l : In x l -> 1 <= cnt x l.
Proof. intros H. apply cnt_In in H. lia. Qed.

Lemma priority_step_eq s e results newp :
  priority_step C s e results newp =
  (let w := e_world e in
   let s1 := fold_left (fun st j => push_job st j (prio_of_pipe C (j_pipe j))) (pr_jobs C s e results newp) s in
   do m <- note_suspending_pools C w (e_pools e) (ss_suspending s1);
   let s2 := {| ss_queue := ss_queue s1; ss_fail := ss_fail s1; ss_q := ss_q s1; ss_i := ss_i s1; ss_b := ss_b s1;
                ss_suspending := m; ss_requeued := ss_requeued s1; ss_oom := ss_oom s1 |} in
   do s3 <- pr_requeue_pools C w (e_pools e) s2;
   do r1 <- pr_scan C w (snapshot e) (ss_q s3) (ss_oom s3);
   let '(n1, st1, w1, a1, o1) := r1 in
   do r2 <- pr_scan C w1 st1 (ss_i s3) o1;
   let '(n2, st2, w2, a2, o2) := r2 in
   do r3 <- pr_scan C w2 st2 (ss_b s3) o2;
   let '(n3, st3, w3, a3, o3) := r3 in
   Ok ({| ss_queue := ss_queue s3; ss_fail := ss_fail s3; ss_q := skipn n1 (ss_q s3); ss_i := skipn n2 (ss_i s3);
          ss_b := skipn n3 (ss_b s3); ss_suspending := ss_suspending s3;
          ss_requeued := ss_requeued s3; ss_oom := o3 |},
       w3, pr_susps e (skipn n1 (ss_q s3)), a1 ++ a2 ++ a3)).
Proof. reflexivity. Qed.

Lemma pr_susps_none e q :
  (forall p, In p (e_pools e) -> forall c, In c (p_active p) -> c_can_suspend c = false) ->
  pr_susps e q = [].
Proof.
  intros H. unfold pr_susps. destruct q as [|j q']; [reflexivity|]. cbv zeta.
  apply pr_preempt_none. intros it Hit c Hc. apply in_map_iff in Hit. destruct Hit as [p [<- Hp]].
  cbn [fst snd] in Hc. eapply H; eauto.
Qed.

Lemma In_flat_firstn {A B} (f : A -> list B) n l x : In x (flat_map f (firstn n l)) -> In x (flat_map f l).
Proof.
  intros H. apply in_flat_map in H. destruct H as [a [Ha Hx]]. apply in_flat_map. exists a.
  split; [eapply PriorityFacts.In_firstn; eauto | exact Hx].
Qed.

Lemma pr_jobs_cover s e results newp k o :
  In k (pr_proc results newp) -> In o (pd_order (pipe_of St k)) ->
  st_of (e_world e) o = Pending -> parents_complete St (e_world e) o = true ->
  In o (queued_ops s) \/ In o (flat_map j_ops (pr_jobs C s e results newp)).
Proof.
  intros Hk Ho Hs Hp.
  destruct (in_dec Nat.eq_dec o (queued_ops s)) as [Hq|Hq]; [left; exact Hq | right].
  assert (X : In o (flat_map j_ops (pr_new_jobs C (e_world e) s results newp))).
  { rewrite pr_new_jobs_ops. apply in_flat_map. exists k. split; [exact Hk|].
    unfold new_ops_of, get_ops. apply filter_In. split.
    - apply filter_In. split; [exact Ho|]. rewrite Hs, Hp. reflexivity.
    - apply negb_true_iff. apply memb_false. exact Hq. }
  unfold pr_jobs. destruct newp as [|k0 newp']; [destruct results as [|r0 results']|]; exact X.
Qed.

(* a scanned job: its operator got an assignment, or it was the retry of a failed operator *)
Lemma scanned_gone queue w st oom n st' w' asgs oom' o :
  pr_scan C w st queue oom = Ok (n, st', w', asgs, oom') -> (forall j, In j queue -> sjob w j) ->
  In o (flat_map j_ops (firstn n queue)) ->
  (exists a, In a asgs /\ a_ops a = [o]) \/ st_of w o = Failed.
Proof.
  intros E G Ho. apply in_flat_map in Ho. destruct Ho as [j [Hj Hoj]].
  assert (Hjq : In j queue) by (eapply PriorityFacts.In_firstn; eauto).
  destruct (G j Hjq) as (_ & o0 & Eo & _ & _ & Rf). rewrite Eo in Hoj. destruct Hoj as [<-|[]].
  apply pr_scan_rel in E. apply pr_rel_sub in E.
  destruct (retry_err j) eqn:RE; [right; apply Rf; reflexivity|].
  destruct (scan_sub_In_l _ _ _ E Hj RE) as (a & Ha & Fa & _). left. exists a.
  split; [exact Ha|]. rewrite Fa. exact Eo.
Qed.

(* one round in single-operator mode: it succeeds, issues no suspension, its assignments are a chain of
   single-operator constructions, and the queues stay duplicate-free lists of assignable operators *)
Lemma single_round s e results newp :
  wlen St (e_world e) -> squeue (e_world e) s -> Forall rpos results -> res_failed (e_world e) results ->
  (forall p, In p (e_pools e) ->
     p_suspending p = [] /\ p_suspended p = [] /\ forall c, In c (p_active p) -> c_can_suspend c = false) ->
  exists s' w' asgs,
    priority_step C s e results newp = Ok (s', w', [], asgs) /\
    sasgs (e_world e) asgs w' /\ squeue w' s' /\ ss_requeued s' = ss_requeued s /\
    (forall o, In o (queued_ops s) \/ In o (flat_map j_ops (pr_jobs C s e results newp)) ->
       In o (queued_ops s') \/ st_of w' o <> Pending).
Proof.
  intros L [Gq Nq] Hr Hrf Hp. set (w := e_world e) in *.
  set (jobs := pr_jobs C s e results newp).
  assert (JP : forall j, In j jobs -> prio_of_pipe C (j_pipe j) = j_prio j).
  { intros j Hj. unfold jobs, pr_jobs in Hj. symmetry.
    destruct newp as [|k newp]; [destruct results as [|r results]; [destruct Hj|]|];
      eapply pr_new_jobs_prio; eauto. }
  assert (Jn : forall j, In j jobs -> sjob w j /\ forall o, In o (j_ops j) -> ~ In o (queued_ops s)).
  { intros j Hj. unfold jobs, pr_jobs in Hj.
    destruct newp as [|k newp]; [destruct results as [|r results]; [destruct Hj|]|];
      eapply pr_new_jobs_single; eauto. }
  assert (Nj : NoDup (flat_map j_ops jobs)).
  { unfold jobs, pr_jobs.
    destruct newp as [|k newp]; [destruct results as [|r results]; [constructor|]|];
      apply pr_new_jobs_nodup. }
  assert (Nn : NoDup (queued_ops s ++ flat_map j_ops jobs)).
  { apply NoDup_app_intro_nat; [exact Nq | exact Nj|]. intros x Hx Hy.
    apply in_flat_map in Hy. destruct Hy as [j [Hj Hxj]]. destruct (Jn j Hj) as [_ D]. exact (D x Hxj Hx). }
  pose proof (fold_push_queue (fun j => prio_of_pipe C (j_pipe j)) jobs s JP) as N. cbv zeta in N.
  rewrite priority_step_eq. cbv zeta. fold jobs. fold w.
  set (s1 := fold_left _ jobs s) in *.
  destruct N as [N1 [N2 [N3 [N4 _]]]].
  assert (Q1 : forall q j, In j (queue_of s1 q) -> sjob w j).
  { intros q j Hj. rewrite N1 in Hj. apply in_app_or in Hj. destruct Hj as [Hj|Hj]; [eapply Gq; eauto|].
    apply filter_In in Hj. apply Jn. tauto. }
  set (A := flat_map j_ops (ss_q s1)). set (B := flat_map j_ops (ss_i s1)). set (D := flat_map j_ops (ss_b s1)).
  assert (Cn : forall x, cnt x (A ++ B ++ D) = cnt x (queued_ops s ++ flat_map j_ops jobs)).
  { intros x. unfold A, B, D.
    change (ss_q s1) with (queue_of s1 Query). change (ss_i s1) with (queue_of s1 Interactive).
    change (ss_b s1) with (queue_of s1 Batch). rewrite !N1. unfold queued_ops. cbn [queue_of].
    rewrite !flat_map_app, !cnt_app.
    pose proof (cnt_class_split x jobs). lia. }
  assert (N1' : NoDup (A ++ B ++ D)).
  { eapply msub_NoDup; [|exact Nn]. intros x. rewrite Cn. lia. }
  assert (Hsing : forall p, In p (e_pools e) -> p_suspending p = []) by (intros p Hp0; apply Hp; exact Hp0).
  assert (Hsed : forall p, In p (e_pools e) -> p_suspended p = []) by (intros p Hp0; apply Hp; exact Hp0).
  rewrite (note_suspending_pools_nil C w _ _ Hsing). cbn [bind].
  rewrite (pr_requeue_pools_nil C w _ _ Hsed). cbn [bind ss_q ss_i ss_b ss_oom ss_queue ss_fail ss_suspending ss_requeued].
  (* query scan *)
  assert (NA : NoDup A) by (eapply msub_NoDup; [|exact N1']; intros x; rewrite !cnt_app; lia).
  assert (NB : NoDup B) by (eapply msub_NoDup; [|exact N1']; intros x; rewrite !cnt_app; lia).
  assert (ND : NoDup D) by (eapply msub_NoDup; [|exact N1']; intros x; rewrite !cnt_app; lia).
  destruct (pr_scan_single (ss_q s1) w (snapshot e) (ss_oom s1) L (Q1 Query) NA)
    as (n1 & st1 & w1 & a1 & o1 & E1 & SA1 & Fr1).
  destruct (sasgs_facts _ _ _ SA1 L) as (L1 & M1 & K1 & _).
  set (Af := flat_map j_ops (firstn n1 (ss_q s1))) in *.
  set (As := flat_map j_ops (skipn n1 (ss_q s1))).
  assert (EA : A = Af ++ As) by (unfold A, Af, As; rewrite <- flat_map_app, firstn_skipn; reflexivity).
  (* interactive scan *)
  assert (G2 : forall j, In j (ss_i s1) -> sjob w1 j).
  { intros j Hj. eapply sjob_stable; [exact M1| |apply (Q1 Interactive); exact Hj].
    intros o Ho. apply Fr1. apply cnt0_not_in.
    assert (Hb : In o B) by (unfold B; apply in_flat_map; eauto).
    pose proof (nodup_cnt _ o N1') as X. rewrite EA, !cnt_app in X. apply in_cnt in Hb. lia. }
  destruct (pr_scan_single (ss_i s1) w1 st1 o1 L1 G2 NB)
    as (n2 & st2 & w2 & a2 & o2 & E2 & SA2 & Fr2).
  destruct (sasgs_facts _ _ _ SA2 L1) as (L2 & M2 & K2 & _).
  set (Bf := flat_map j_ops (firstn n2 (ss_i s1))) in *.
  set (Bs := flat_map j_ops (skipn n2 (ss_i s1))).
  assert (EB : B = Bf ++ Bs) by (unfold B, Bf, Bs; rewrite <- flat_map_app, firstn_skipn; reflexivity).
  (* batch scan *)
  assert (G3 : forall j, In j (ss_b s1) -> sjob w2 j).
  { intros j Hj.
    assert (Hd : forall o, In o (j_ops j) -> In o D) by (intros o Ho; unfold D; apply in_flat_map; eauto).
    eapply (sjob_stable w w2); [eapply mono_w_trans; [exact M1|exact M2]| |apply (Q1 Batch); exact Hj].
    intros o Ho. specialize (Hd o Ho). apply in_cnt in Hd.
    pose proof (nodup_cnt _ o N1') as X. rewrite EA, EB, !cnt_app in X.
    rewrite Fr2 by (apply cnt0_not_in; lia). apply Fr1. apply cnt0_not_in. lia. }
  destruct (pr_scan_single (ss_b s1) w2 st2 o2 L2 G3 ND)
    as (n3 & st3 & w3 & a3 & o3 & E3 & SA3 & Fr3).
  destruct (sasgs_facts _ _ _ SA3 L2) as (L3 & M3 & K3 & _).
  set (Df := flat_map j_ops (firstn n3 (ss_b s1))) in *.
  set (Ds := flat_map j_ops (skipn n3 (ss_b s1))).
  assert (ED : D = Df ++ Ds) by (unfold D, Df, Ds; rewrite <- flat_map_app, firstn_skipn; reflexivity).
  rewrite E1. cbn [bind]. cbv beta iota. rewrite E2. cbn [bind]. cbv beta iota. rewrite E3. cbn [bind]. cbv beta iota.
  rewrite pr_susps_none by (intros p Hp0; apply Hp; exact Hp0).
  assert (SAall : sasgs w (a1 ++ a2 ++ a3) w3) by (eapply sasgs_app; [exact SA1|]; eapply sasgs_app; eauto).
  destruct (sasgs_facts _ _ _ SAall L) as (_ & _ & _ & Rall & _).
  eexists _, _, _. split; [reflexivity|]. split; [exact SAall|].
  assert (Keep : forall o, In o (As ++ Bs ++ Ds) -> st_of w3 o = st_of w o).
  { intros o Ho. apply in_cnt in Ho. rewrite !cnt_app in Ho.
    pose proof (nodup_cnt _ o N1') as X. rewrite EA, EB, ED, !cnt_app in X.
    rewrite Fr3 by (apply cnt0_not_in; lia). rewrite Fr2 by (apply cnt0_not_in; lia).
    apply Fr1. apply cnt0_not_in. lia. }
  assert (M03 : mono_w w w3) by (eapply mono_w_trans; [exact M1|]; eapply mono_w_trans; eauto).
  split; [split|split].
  - intros q j Hj. destruct q; cbn [queue_of ss_q ss_i ss_b] in Hj.
    + eapply sjob_stable; [exact M03| |apply (Q1 Query); eapply In_skipn; exact Hj].
      intros o Ho. apply Keep. apply in_or_app. left. unfold As. apply in_flat_map. eauto.
    + eapply sjob_stable; [exact M03| |apply (Q1 Interactive); eapply In_skipn; exact Hj].
      intros o Ho. apply Keep. apply in_or_app. right. apply in_or_app. left. unfold Bs. apply in_flat_map. eauto.
    + eapply sjob_stable; [exact M03| |apply (Q1 Batch); eapply In_skipn; exact Hj].
      intros o Ho. apply Keep. apply in_or_app. right. apply in_or_app. right. unfold Ds. apply in_flat_map. eauto.
  - unfold queued_ops. cbn [ss_q ss_i ss_b]. fold As Bs Ds.
    eapply msub_NoDup; [|exact N1']. intros x. rewrite EA, EB, ED, !cnt_app. lia.
  - cbn [ss_requeued]. exact N4.
  - intros o Ho.
    assert (HoA : In o (A ++ B ++ D)).
    { apply cnt_In. rewrite Cn. apply cnt_In. apply in_or_app. exact Ho. }
    assert (Gone : forall ai wi, In ai [a1; a2; a3] ->
              ((exists a, In a ai /\ a_ops a = [o]) \/
               (st_of wi o = Failed /\ steps_t (cf_static C) (eq Assigned) wi w3)) ->
              st_of w3 o <> Pending).
    { intros ai wi Hai [(a & Ha & Ea)|[Hf St3]].
      - assert (Hin : In a (a1 ++ a2 ++ a3)).
        { destruct Hai as [<-|[<-|[<-|[]]]]; rewrite !in_app_iff; auto. }
        rewrite Forall_forall in Rall. destruct (Rall a Hin) as (_ & o' & Eo' & _ & Sa & _).
        rewrite Ea in Eo'. inversion Eo'; subst o'. rewrite Sa. discriminate.
      - intros X. assert (Y : st_of wi o = Pending) by (eapply steps_t_back; [exact St3| |exact X]; discriminate).
        congruence. }
    pose proof (mk_assignments_steps_t _ _ _ _ K1) as T1.
    pose proof (mk_assignments_steps_t _ _ _ _ K2) as T2.
    pose proof (mk_assignments_steps_t _ _ _ _ K3) as T3.
    rewrite EA, EB, ED, !in_app_iff in HoA.
    destruct HoA as [[HoA|HoA]|[[HoA|HoA]|[HoA|HoA]]].
    + right. apply (Gone a1 w); [left; reflexivity|].
      destruct (scanned_gone _ _ _ _ _ _ _ _ _ o E1 (Q1 Query) HoA) as [X|X]; [left; exact X|right].
      split; [exact X|]. eapply steps_t_trans; [exact T1|]. eapply steps_t_trans; eauto.
    + left. unfold queued_ops. cbn [ss_q ss_i ss_b]. fold As. rewrite !in_app_iff. auto.
    + right. apply (Gone a2 w1); [right; left; reflexivity|].
      destruct (scanned_gone _ _ _ _ _ _ _ _ _ o E2 G2 HoA) as [X|X]; [left; exact X|right].
      split; [exact X|]. eapply steps_t_trans; eauto.
    + left. unfold queued_ops. cbn [ss_q ss_i ss_b]. fold Bs. rewrite !in_app_iff. auto.
    + right. apply (Gone a3 w2); [right; right; left; reflexivity|].
      destruct (scanned_gone _ _ _ _ _ _ _ _ _ o E3 G3 HoA) as [X|X]; [left; exact X|right].
      split; [exact X | exact T3].
    + left. unfold queued_ops. cbn [ss_q ss_i ss_b]. fold Ds. rewrite !in_app_iff. auto.
Qed.

Lemma pool_tick_steps_na w next p ss asgs w' next' p' res :
  pool_tick C w next p ss asgs = Ok (w', next', p', res) -> steps_na St w w'.
Proof.
  intros H. apply LedgerFacts.pool_tick_inv in H.
  destruct H as (w1 & act1 & sing1 & cons1 & acpu2 & aram2 & act2 & w3 & sing3 & w4 & cons4 & act4
                 & cons5 & act5 & E1 & _ & E3 & E4 & E5 & _ & _).
  apply LedgerFacts.phase1_facts in E1. destruct E1 as (S1 & _).
  apply tick_suspending_spec in E3. destruct E3 as [_ S3].
  apply tick_active_spec in E4. destruct E4 as (S4 & _).
  apply oom_killer_facts in E5. destruct E5 as (S5 & _).
  eapply steps_na_trans; [exact S1|]. eapply steps_na_trans; [exact S3|]. eapply steps_na_trans; eauto.
Qed.

Lemma pool_tick_nosusp_suspended w next p asgs w' next' p' res :
  pool_tick C w next p [] asgs = Ok (w', next', p', res) -> p_suspending p = [] ->
  p_suspended p' = p_suspended p.
Proof.
  intros H Hs. apply LedgerFacts.pool_tick_inv in H.
  destruct H as (w1 & act1 & sing1 & cons1 & acpu2 & aram2 & act2 & w3 & sing3 & w4 & cons4 & act4
                 & cons5 & act5 & E1 & _ & E3 & _ & _ & -> & _).
  apply LedgerFacts.phase1_inv in E1. destruct E1 as [(_ & _ & _ & -> & _)|(X & _)]; [|congruence].
  apply tick_suspending_spec in E3. destruct E3 as [-> _]. rewrite Hs.
  cbn [pool_after upd_pool p_suspended map filter]. apply app_nil_r.
Qed.

(* no ready PENDING operator of an arrived pipeline is lost: it is queued, or its pipeline has a result
   of the tick just executed and is therefore re-examined in the next round *)
Definition nolost (s : sim) : Prop :=
  forall k o, In k (map fst (sm_arrival s)) -> In o (pd_order (pipe_of St k)) ->
    st_of (e_world (sm_exec s)) o = Pending -> parents_complete St (e_world (sm_exec s)) o = true ->
    In o (queued_ops (sm_sched s)) \/
    exists r o', In r (sm_results s) /\ In o' (r_ops r) /\ op_pipe St o' = k.

(* the extra facts of the single-operator mode *)
Definition sp_extra (s : sim) : Prop :=
  Forall (pool_inv C (e_world (sm_exec s)) (e_next (sm_exec s))) (e_pools (sm_exec s)) /\
  (forall p, In p (e_pools (sm_exec s)) ->
     p_suspended p = [] /\ forall c, In c (p_active p) -> c_can_suspend c = false) /\
  squeue (e_world (sm_exec s)) (sm_sched s) /\
  res_failed (e_world (sm_exec s)) (sm_results s) /\ nolost s.

Definition sp_inv (np : nat) (s : sim) : Prop := pr_inv C np s /\ sp_extra s.

Lemma sp_inv_init np cpu ram : (0 <= cpu)%Z -> (0 <= ram)%Q -> sp_inv np (init_sim C np cpu ram).
Proof.
  intros Hc Hr. split; [apply pr_inv_init; assumption|].
  unfold sp_extra, init_sim. cbn [sm_exec sm_sched].
  destruct (loop_inv_init C np cpu ram) as (_ & _ & Pi & _).
  split; [exact Pi|]. split.
  - intros p Hp. unfold init_estate in Hp. cbn [e_pools] in Hp. apply in_map_iff in Hp.
    destruct Hp as [i [<- _]]. split; [reflexivity | intros c []].
  - split; [split; [intros [] j [] | constructor]|]. split; [intros r []|].
    intros k o [].
Qed.

Lemma single_tick_ok np t s newp :
  sp_inv np s -> NoDup newp -> (forall p, In p newp -> ~ In p (map fst (sm_arrival s))) ->
  exists s' lg, sim_tick C APriority t s newp = Ok (s', lg) /\ sp_inv np s' /\
    sm_arrival s' = sm_arrival s ++ map (fun p => (p, t)) newp /\ tl_susp lg = [].
Proof.
  intros [Ipr (Pi & Hx & Sq & Hrf & Hnl)] Nn Dn.
  pose proof Ipr as (Hseq & Iv & Ow & Ids & Gc & Hnn & Fr & Gs & Hr).
  destruct Iv as [L Rg]. pose proof Ow as (Nid & Plv & [Ns Ab]).
  set (e := sm_exec s) in *. set (w := e_world e) in *.
  assert (Hp : forall p, In p (e_pools e) ->
             p_suspending p = [] /\ p_suspended p = [] /\
             forall c, In c (p_active p) -> c_can_suspend c = false).
  { intros p Hp. rewrite Forall_forall in Pi. destruct (Pi p Hp) as (Hs & _). destruct (Hx p Hp). auto. }
  destruct (single_round (sm_sched s) e (sm_results s) newp L Sq Hr Hrf Hp)
    as (ss' & w' & asgs & Sch & SA & Sq' & _ & K1).
  destruct (sasgs_facts _ _ _ SA L) as (L' & M' & Emk & Fr' & Frame & Ra).
  assert (Hops : forall a, In a asgs -> opsP C (a_ops a)).
  { intros a Ha. rewrite Forall_forall in Fr'. destruct (Fr' a Ha) as (_ & o & -> & _).
    split; [discriminate | reflexivity]. }
  destruct (priority_round_checks C _ _ _ _ _ _ _ _ np Sch Hseq (proj1 Ids) Hnn Hops)
    as (_ & Ck1 & _ & Ck2 & Ck3).
  (* the pools in the world the scheduler leaves *)
  assert (Pi' : Forall (pool_inv C w' (e_next e)) (e_pools e)).
  { rewrite Forall_forall in *. intros q Hq. eapply pool_inv_stable; [exact M'|apply le_n| |apply Pi, Hq].
    intros o Ho. apply Frame. assert (B : busy (st_of w o)).
    { apply Ab. unfold sown. apply in_flat_map. exists q. auto. }
    apply busy_not_assignable in B. exact B. }
  assert (Frel : Forall (asg_ready C w') (rel asgs (e_pools e))).
  { rewrite Forall_forall in *. intros a Ha. apply Fr'. eapply rel_incl; eauto. }
  assert (Nrel : NoDup (flat_map pown (e_pools e) ++ aops (rel asgs (e_pools e)))).
  { destruct (mk_assignments_good _ _ _ _ _ Emk Ra L (conj Ns Ab)) as [Ng _].
    eapply msub_NoDup; [|exact Ng]. intros x. rewrite cnt_rel.
    apply (pending_msub (e_pools e) asgs Nid x). }
  destruct (pools_tick_total C Hscript asgs (e_pools e) w' (e_next e) L' Pi' Frel Ra Nrel Ck2 Ck3)
    as (w2 & next2 & ps2 & res & Ept & Pi2 & _).
  set (e2 := {| e_world := w2; e_pools := ps2; e_next := next2 |}).
  assert (Eex : exec_tick C {| e_world := w'; e_pools := e_pools e; e_next := e_next e |} [] asgs
                = Ok (e2, res)).
  { unfold exec_tick. cbv zeta. cbn [e_pools e_world e_next forallb andb]. rewrite Ck1. cbn [negb].
    rewrite Ept. reflexivity. }
  pose proof (record_arrivals_ok t newp (sm_arrival s) Nn Dn) as Era.
  destruct (sim_tick C APriority t s newp) as [[s' lg]|er] eqn:ET.
  2:{ exfalso. pose proof (sim_tick_cases C APriority t s newp) as X. rewrite ET in X.
      cbn [sched_step] in X. fold e in X.
      destruct X as [[_ X]|[X|(ss0 & w0 & su0 & as0 & X1 & X2)]].
      - rewrite Era in X. discriminate.
      - rewrite Sch in X. discriminate.
      - rewrite Sch in X1. inversion X1; subst. rewrite Eex in X2. discriminate. }
  exists s', lg. split; [reflexivity|].
  pose proof (pr_tick_inv C Hrange np t s newp s' lg Ipr ET) as Ipr'.
  apply sim_tick_ok_inv in ET. destruct ET as (w0 & su0 & as0 & X1 & X2 & X3 & _ & _ & _ & X7).
  cbn [sched_step] in X1. fold e in X1, X2. rewrite Sch in X1.
  injection X1 as Y1 Y2 Y3 Y4. subst w0 su0 as0.
  rewrite Eex in X2. inversion X2 as [[Ee Er]].
  split; [|split; [rewrite Era in X7; inversion X7; reflexivity | exact X3]].
  split; [exact Ipr'|].
  assert (Earr : sm_arrival s' = sm_arrival s ++ map (fun p => (p, t)) newp)
    by (rewrite Era in X7; inversion X7; reflexivity).
  unfold sp_extra, nolost. rewrite <- Ee, <- Y1, <- Er, Earr. cbn [e2 e_world e_pools e_next].
  (* the pools one by one *)
  set (Pre := fun (w0 : world) (p : pool) =>
                wlen St w0 /\ p_suspending p = [] /\ p_suspended p = [] /\
                forall c, In c (p_active p) -> c_completed c = false /\ c_frozen c = false /\
                  exists o, c_ops c = [o] /\ c_opidx c = 0 /\ o < length (s_ops St)).
  set (Rel := fun (_ : world) (p p' : pool) =>
                p_suspended p' = [] /\
                forall c', In c' (p_active p') -> c_can_suspend c' = true -> 0 < c_opidx c').
  set (Rs := fun (w0 : world) (r : result) =>
               r_err r = true -> forall o, In o (r_ops r) -> st_of w0 o = Failed).
  assert (Hpre : Forall (Pre w') (e_pools e)).
  { apply Forall_forall. intros p Hp0. destruct (Hp p Hp0) as (A1 & A2 & _).
    split; [exact L'|]. split; [exact A1|]. split; [exact A2|]. intros c Hc. rewrite Forall_forall in Pi'.
    destruct (Pi' p Hp0) as (_ & Fa & _). rewrite Forall_forall in Fa.
    destruct (Fa c Hc) as (R1 & R2 & _ & o & Eo & Ei & Lo & _). split; [exact R1|]. split; [exact R2|].
    exists o. split; [exact Eo|]. split; [exact Ei|]. unfold wlen in L'. fold St in L'. rewrite <- L'. exact Lo. }
  assert (Lift : steps_na (cf_static C) w' w2 /\ Forall2 (Rel w2) (e_pools e) ps2 /\ Forall (Rs w2) res).
  { apply (pools_tick_lift C [] asgs Pre Rel Rs) with (next := e_next e) (next' := next2).
    - intros w1 w3 p S13 (A & B). split; [eapply steps_na_wlen; eauto | exact B].
    - intros w1 w3 p p' _ X. exact X.
    - intros w1 w3 r S13 X He o Ho. eapply failed_stays; eauto.
    - intros w1 n1 p w3 n3 p3 res3 (Lw & P1 & P2 & P3) PTk. cbn [mine_s filter] in PTk.
      split; [eapply pool_tick_steps_na; eauto|]. split.
      + split.
        * rewrite (pool_tick_nosusp_suspended _ _ _ _ _ _ _ _ PTk P1). exact P2.
        * intros c' Hc' Hcs.
          assert (P3' : forall c, In c (p_active p) -> c_completed c = false /\ c_frozen c = false).
          { intros c Hc. destruct (P3 c Hc) as (A & B & _). auto. }
          destruct (suspendable_only_between_operators _ _ _ _ _ _ _ _ _ _ P3' PTk c' Hc') as (_ & _ & X).
          destruct (X Hcs) as (c0 & _ & _ & _ & Ei & _). lia.
      + apply Forall_forall. intros r Hr0 He o Ho.
        assert (Hact : forall c, In c (p_active p) -> active_ok w1 c /\ NoDup (c_ops c)).
        { intros c Hc. destruct (P3 c Hc) as (Cc & _ & o0 & Eo & Ei & Ro). split.
          - split; [intros i Hi; rewrite Ei in Hi; lia|]. split; [rewrite Eo, Ei; cbn; lia|].
            split; [exact Cc|]. intros x Hxx. rewrite Eo in Hxx. destruct Hxx as [<-|[]].
            unfold wlen in Lw. fold St. rewrite Lw. exact Ro.
          - rewrite Eo. constructor; [intros []|constructor]. }
        assert (Hasg : forall a, In a (mine_a p asgs) ->
                         NoDup (a_ops a) /\ forall x, In x (a_ops a) -> x < length (w_st w1)).
        { intros a Ha. unfold mine_a in Ha. apply filter_In in Ha. destruct Ha as [Ha _].
          rewrite Forall_forall in Fr'. destruct (Fr' a Ha) as (_ & o0 & Eo & Lo & _). rewrite Eo.
          split; [constructor; [intros []|constructor]|]. intros x [<-|[]].
          unfold wlen in Lw, L'. fold St in L'. rewrite Lw, <- L'. exact Lo. }
        destruct (result_shape _ _ _ _ _ _ _ _ _ _ Hact Hasg PTk) as [Hsh _].
        destruct (Hsh r Hr0) as [_ Hf]. destruct (Hf He) as (k & Hk & _ & Hfail).
        assert (L1 : length (r_ops r) = 1).
        { destruct (result_of_one_container _ _ _ _ _ _ _ _ _ _ _ PTk Hr0) as (_ & c & Hc & _ & Eops & _).
          rewrite Eops. destruct Hc as [Hc|Hc].
          - destruct (P3 c Hc) as (_ & _ & o0 & Eo & _). rewrite Eo. reflexivity.
          - apply new_containers_In in Hc. destruct Hc as (a & Ha & Eo & _).
            unfold mine_a in Ha. apply filter_In in Ha. destruct Ha as [Ha _].
            rewrite Forall_forall in Fr'. destruct (Fr' a Ha) as (_ & o0 & Eo' & _). rewrite Eo, Eo'. reflexivity. }
        apply Hfail. assert (k = 0) by lia. subst k. exact Ho.
    - exact Ept.
    - exact Hpre. }
  destruct Lift as (S2 & F2 & Rr).
  assert (Hnosusp : forall p, In p (e_pools e) -> p_suspending p = []) by (intros p Hp0; apply Hp; exact Hp0).
  split; [exact Pi2|]. split; [|split; [|split]].
  - intros p' Hp'.
    assert (X : Forall (fun p' => p_suspended p' = [] /\
                  forall c', In c' (p_active p') -> c_can_suspend c' = true -> 0 < c_opidx c') ps2).
    { eapply Forall2_right; [|exact F2]. intros a b _ X. exact X. }
    rewrite Forall_forall in X. destruct (X p' Hp') as [X1' X2']. split; [exact X1'|].
    intros c Hc. rewrite Forall_forall in Pi2. destruct (Pi2 p' Hp') as (_ & Fa & _).
    rewrite Forall_forall in Fa. destruct (Fa c Hc) as (_ & _ & _ & o & _ & Ei & _).
    destruct (c_can_suspend c) eqn:Cs; [|reflexivity]. specialize (X2' c Hc Cs). lia.
  - destruct Sq' as [Gq' Nq']. split; [|exact Nq'].
    intros q j Hj. eapply sjob_stable; [eapply steps_na_mono; exact S2| |eapply Gq'; exact Hj].
    intros o Ho. destruct (Gq' q j Hj) as (_ & o' & Eo & As & _). rewrite Eo in Ho.
    destruct Ho as [<-|[]]. eapply assignable_stays; eauto.
  - intros r Hr0. rewrite Forall_forall in Rr. apply Rr. exact Hr0.
  - intros k o Hk Ho Hp2 Hc2.
    assert (Hp' : st_of w' o = Pending).
    { eapply steps_t_back; [eapply pools_tick_nosusp_steps_t; [exact Ept | exact Hnosusp]| |exact Hp2].
      intros [X|[X|X]]; discriminate. }
    assert (Hp0 : st_of w o = Pending).
    { eapply steps_t_back; [eapply mk_assignments_steps_t; exact Emk| |exact Hp']. discriminate. }
    destruct (parents_complete St w o) eqn:Pc0.
    + assert (Hcov : In o (queued_ops (sm_sched s)) \/
                     In o (flat_map j_ops (pr_jobs C (sm_sched s) e (sm_results s) newp))).
      { assert (Hproc : In o (queued_ops (sm_sched s)) \/ In k (pr_proc (sm_results s) newp)).
        { rewrite map_app, in_app_iff in Hk. destruct Hk as [Hk|Hk].
          - destruct (Hnl k o Hk Ho Hp0 Pc0) as [Hq|(r & o' & Hr' & Ho' & Ek)]; [left; exact Hq|right].
            unfold pr_proc. apply pr_proc_In. right. exists r, o'. auto.
          - right. unfold pr_proc. apply pr_proc_In. left. rewrite map_map in Hk. cbn [fst] in Hk.
            rewrite map_id in Hk. exact Hk. }
        destruct Hproc as [Hq|Hpr]; [left; exact Hq|]. eapply pr_jobs_cover; eauto. }
      destruct (K1 o Hcov) as [Hq|Hn]; [left; exact Hq | contradiction].
    + right. unfold parents_complete in Pc0. apply forallb_false_ex in Pc0.
      destruct Pc0 as (p & Hpin & Hpf). apply ostate_eqb_neq in Hpf.
      assert (Hp2c : st_of w2 p = Completed).
      { apply (proj1 (parents_complete_spec _ _ _) Hc2). exact Hpin. }
      assert (Hp'c : st_of w' p <> Completed).
      { intros X. apply Hpf. eapply steps_t_back; [eapply mk_assignments_steps_t; exact Emk| |exact X].
        discriminate. }
      assert (Hsp : forall q, In q (e_pools e) -> p_suspending q = [] /\ Forall single_c (p_active q)).
      { intros q Hq. split; [apply Hnosusp; exact Hq|]. rewrite Forall_forall in Hpre.
        destruct (Hpre q Hq) as (_ & _ & _ & P3). apply Forall_forall. intros c Hc.
        destruct (P3 c Hc) as (_ & _ & o0 & Eo & Ei & _). exists o0. auto. }
      assert (Hasg1 : forall a, In a asgs -> exists o0, a_ops a = [o0]).
      { intros a Ha. rewrite Forall_forall in Fr'. destruct (Fr' a Ha) as (_ & o0 & Eo & _). eauto. }
      destruct (pools_tick_newly_completed C asgs _ _ _ _ _ _ _ p Ept Hsp Hasg1 Hp2c Hp'c) as (r & Hr0 & Hpr).
      exists r, p. split; [exact Hr0|]. split; [exact Hpr|]. eapply Hpar; eauto.
Qed.

Lemma single_run_total np : forall arrivals t s,
  sp_inv np s -> NoDup (concat arrivals) ->
  (forall p, In p (concat arrivals) -> ~ In p (map fst (sm_arrival s))) ->
  exists sf logs, sim_run C APriority t s arrivals = (sf, logs, None) /\
                  length logs = length arrivals /\ Forall (fun lg => tl_susp lg = []) logs /\
                  sp_inv np sf /\ map fst (sm_arrival sf) = map fst (sm_arrival s) ++ concat arrivals.
Proof.
  induction arrivals as [|newp r IH]; intros t s Li N D; cbn [sim_run].
  - exists s, []. split; [reflexivity|]. split; [reflexivity|]. split; [constructor|].
    split; [exact Li | cbn; rewrite app_nil_r; reflexivity].
  - cbn [concat] in N, D. apply ConserveFacts.NoDup_app_inv in N. destruct N as (N1 & N2 & N3).
    destruct (single_tick_ok np t s newp Li N1) as (s1 & lg & E & Li1 & Ea & Es).
    { intros p Hp. apply D. apply in_or_app. left. exact Hp. }
    rewrite E. destruct (IH (t + 1)%Z s1 Li1 N2) as (sf & logs & R & Len & Fs & If & Arr).
    { intros p Hp Hin. rewrite Ea, map_app, map_map in Hin. cbn [fst] in Hin. rewrite map_id in Hin.
      apply in_app_or in Hin. destruct Hin as [Hin|Hin].
      - apply (D p); [apply in_or_app; right; exact Hp|exact Hin].
      - apply (N3 p Hin Hp). }
    rewrite R. exists sf, (lg :: logs). split; [reflexivity|]. split; [cbn [length]; lia|].
    split; [constructor; assumption|]. split; [exact If|].
    rewrite Arr, Ea, map_app, map_map. cbn [fst concat]. rewrite map_id, app_assoc. reflexivity.
Qed.

End SingleMode.

(* R2: the closed loop for single-operator containers *)
Theorem priority_single_runs_to_end_gen C np cpu ram arrivals :
  (forall op c, cf_script C op c <> []) -> cf_multi C = false ->
  orders_nodup (cf_static C) -> pipes_in_range (cf_static C) ->
  (forall k o, In o (pd_order (pipe_of (cf_static C) k)) -> op_pipe (cf_static C) o = k) ->
  (forall k o p, In o (pd_order (pipe_of (cf_static C) k)) -> In p (op_parents (cf_static C) o) ->
     op_pipe (cf_static C) p = k) ->
  (0 <= cpu)%Z -> (0 <= ram)%Q -> NoDup (concat arrivals) ->
  exists sf logs,
    sim_run C APriority 0%Z (init_sim C np cpu ram) arrivals = (sf, logs, None) /\
    length logs = length arrivals /\ Forall (fun lg => tl_susp lg = []) logs.
Proof.
  intros Hs Hm Ho Hr Hp Hpa Hc Hq Na.
  destruct (single_run_total C Hs Hm Ho Hr Hp Hpa np arrivals 0%Z (init_sim C np cpu ram))
    as (sf & logs & R & Len & Fs & _).
  - apply sp_inv_init; assumption.
  - exact Na.
  - intros p _ [].
  - exists sf, logs. auto.
Qed.

Lemma mk_static_op_pipe l : dags_wf l ->
  forall k o, In o (pd_order (pipe_of (mk_static l) k)) -> op_pipe (mk_static l) o = k.
Proof.
  intros W k o Ho.
  destruct (Nat.lt_ge_cases k (length (s_pipes (mk_static l)))) as [Lt|Ge].
  2:{ unfold pipe_of in Ho. rewrite nth_overflow in Ho by exact Ge. destruct Ho. }
  assert (Hin : In (pipe_of (mk_static l) k) (mk_pipes 0 l)).
  { unfold pipe_of, mk_static. cbn [s_pipes]. apply nth_In. exact Lt. }
  destruct (mk_pipes_in _ _ _ Hin) as (pr & g & Hl & E & _).
  assert (Wg : wf_dag g).
  { unfold dags_wf in W. rewrite Forall_forall in W. apply (W (pr, g) Hl). }
  assert (Eo : pd_order (pipe_of (mk_static l) k)
               = map (fun i => pd_first (pipe_of (mk_static l) k) + i) (iterate g)).
  { rewrite E at 1. reflexivity. }
  assert (En : pd_n (pipe_of (mk_static l) k) = length g).
  { unfold pd_n. rewrite E. reflexivity. }
  rewrite Eo in Ho. apply in_map_iff in Ho. destruct Ho as [i [<- Hi]].
  apply (Permutation_in _ (DagProof.dag_iter_perm g Wg)) in Hi. apply DagProof.In_nodes in Hi.
  unfold op_pipe. rewrite (mk_static_nth l k i Lt) by (rewrite En; exact Hi). reflexivity.
Qed.

Lemma mk_static_op_parents l : dags_wf l ->
  forall k o p, In o (pd_order (pipe_of (mk_static l) k)) -> In p (op_parents (mk_static l) o) ->
    op_pipe (mk_static l) p = k.
Proof.
  intros W k o p Ho Hp.
  destruct (Nat.lt_ge_cases k (length (s_pipes (mk_static l)))) as [Lt|Ge].
  2:{ unfold pipe_of in Ho. rewrite nth_overflow in Ho by exact Ge. destruct Ho. }
  assert (Hin : In (pipe_of (mk_static l) k) (mk_pipes 0 l)).
  { unfold pipe_of, mk_static. cbn [s_pipes]. apply nth_In. exact Lt. }
  destruct (mk_pipes_in _ _ _ Hin) as (pr & g & Hl & E & _).
  assert (Wg : wf_dag g).
  { unfold dags_wf in W. rewrite Forall_forall in W. apply (W (pr, g) Hl). }
  assert (Eo : pd_order (pipe_of (mk_static l) k)
               = map (fun i => pd_first (pipe_of (mk_static l) k) + i) (iterate g)).
  { rewrite E at 1. reflexivity. }
  assert (Eg : pd_dag (pipe_of (mk_static l) k) = g) by (rewrite E; reflexivity).
  assert (En : pd_n (pipe_of (mk_static l) k) = length g) by (unfold pd_n; rewrite Eg; reflexivity).
  rewrite Eo in Ho. apply in_map_iff in Ho. destruct Ho as [i [<- Hi]].
  apply (Permutation_in _ (DagProof.dag_iter_perm g Wg)) in Hi. apply DagProof.In_nodes in Hi.
  unfold op_parents in Hp. rewrite (mk_static_nth l k i Lt) in Hp by (rewrite En; exact Hi).
  cbn [od_parents] in Hp. rewrite Eg in Hp. apply in_map_iff in Hp. destruct Hp as [x [<- Hx]].
  destruct (Wg i Hi) as [_ Hlt]. specialize (Hlt x Hx).
  unfold op_pipe. rewrite (mk_static_nth l k x Lt) by (rewrite En; lia). reflexivity.
Qed.

Theorem priority_single_runs_to_end C l np cpu ram arrivals :
  cf_static C = mk_static l -> dags_wf l ->
  (forall op c, cf_script C op c <> []) -> cf_multi C = false ->
  (0 <= cpu)%Z -> (0 <= ram)%Q -> NoDup (concat arrivals) ->
  exists sf logs,
    sim_run C APriority 0%Z (init_sim C np cpu ram) arrivals = (sf, logs, None) /\
    length logs = length arrivals /\ Forall (fun lg => tl_susp lg = []) logs.
Proof.
  intros E W Hs Hm Hc Hq Na. apply priority_single_runs_to_end_gen; auto; rewrite E.
  - apply mk_static_orders_nodup, W.
  - apply mk_static_pipes_in_range, W.
  - apply mk_static_op_pipe, W.
  - apply mk_static_op_parents, W.
Qed.

(* ------------------------------------------------------------------------------------------ *)
(* 10. run-level queue invariants                                                               *)
(* ------------------------------------------------------------------------------------------ *)

(* R3 (both modes): each class queue holds only jobs of its class, in every state of every run *)
Lemma pr_run_class_ok C : forall arrivals t s sf logs oe,
  class_ok (sm_sched s) -> sim_run C APriority t s arrivals = (sf, logs, oe) -> class_ok (sm_sched sf).
Proof.
  induction arrivals as [|newp r IH]; intros t s sf logs oe K H; cbn [sim_run] in H.
  - inversion H; subst. exact K.
  - destruct (sim_tick C APriority t s newp) as [[s1 lg]|e] eqn:E.
    + destruct (sim_run C APriority (t + 1)%Z s1 r) as [[sf' logs'] e'] eqn:R. inversion H; subst.
      eapply IH; [|exact R]. apply sim_tick_ok_inv in E. destruct E as (w' & su & asgs & Sch & _).
      cbn [sched_step] in Sch. eapply pr_class_ok_preserved; eauto.
    + inversion H; subst. exact K.
Qed.

(* a property of every tick log of a run, from an invariant of the states *)
Lemma sim_run_logs C a (P : sim -> Prop) (Q : tick_log -> Prop) :
  (forall t s newp s' lg, P s -> sim_tick C a t s newp = Ok (s', lg) -> P s' /\ Q lg) ->
  forall arrivals t s sf logs oe, P s -> sim_run C a t s arrivals = (sf, logs, oe) -> Forall Q logs.
Proof.
  intros Hp. induction arrivals as [|newp r IH]; intros t s sf logs oe Ps H; cbn [sim_run] in H.
  - inversion H; subst. constructor.
  - destruct (sim_tick C a t s newp) as [[s1 lg]|e] eqn:E.
    + destruct (sim_run C a (t + 1)%Z s1 r) as [[sf' logs'] e'] eqn:R. inversion H; subst.
      destruct (Hp _ _ _ _ _ Ps E) as [Ps1 Ql]. constructor; [exact Ql|]. eapply IH; eauto.
    + inversion H; subst. constructor.
Qed.

(* R3 (both modes): in every tick of every run the suspension commands name pairwise distinct containers
   (the side condition of C12_suspend_rules holds in every reachable state), and every assignment has
   an operator list fit for the container mode, made of known operators *)
Theorem priority_run_commands C l np cpu ram arrivals sf logs oe :
  cf_static C = mk_static l -> dags_wf l -> (0 <= cpu)%Z -> (0 <= ram)%Q ->
  sim_run C APriority 0%Z (init_sim C np cpu ram) arrivals = (sf, logs, oe) ->
  Forall (fun lg => NoDup (map su_cid (tl_susp lg)) /\
                    forall a, In a (tl_asgs lg) -> opsP C (a_ops a) /\ ops_in_range (cf_static C) (a_ops a))
         logs.
Proof.
  intros E W Hc Hr H.
  assert (Hrange : pipes_in_range (cf_static C)) by (rewrite E; apply mk_static_pipes_in_range; exact W).
  apply (sim_run_logs C APriority (pr_inv C np) _) with (arrivals := arrivals) (t := 0%Z)
    (s := init_sim C np cpu ram) (sf := sf) (oe := oe); [|apply pr_inv_init; assumption|exact H].
  intros t s newp s' lg I ET. split; [eapply pr_tick_inv; eauto|].
  pose proof I as (Hseq & [L Rg] & Ow & Ids & Gc & Hnn & Fr & Gs & Hr0).
  apply sim_tick_ok_inv in ET. destruct ET as (w' & susps & asgs & Sch & _ & -> & -> & _).
  cbn [sched_step] in Sch. split.
  - destruct (priority_suspend_rules _ _ _ _ _ _ _ _ _ Sch) as (_ & _ & _ & Nd).
    apply Nd. apply all_ids_active_nodup. apply Ids.
  - destruct (priority_round_good _ _ _ _ _ _ _ _ _ Sch Hrange L Gs Hr0 Gc) as [_ Hj].
    intros a Ha. destruct (Hj a Ha) as (j & (J1 & J2 & _) & ->). auto.
Qed.

(* what the scheduler's bookkeeping looks like in the final state of any run (normal end or not), both
   container modes: queues sorted by class; every queued job and every job noted for a suspending
   container has at least one operator, only known operators, exactly one operator in single-operator
   mode, and a positive remembered request; every container already suspended but not yet re-queued
   still has a PENDING operator, so its work will be filed again (C12_resume_offered) and the re-queue
   loop cannot hit its assertion *)
Theorem priority_run_queues C l np cpu ram arrivals sf logs oe :
  cf_static C = mk_static l -> dags_wf l -> (0 <= cpu)%Z -> (0 <= ram)%Q ->
  sim_run C APriority 0%Z (init_sim C np cpu ram) arrivals = (sf, logs, oe) ->
  class_ok (sm_sched sf) /\
  (forall p j, In j (queue_of (sm_sched sf) p) -> jgood C j) /\
  (forall cid j, In (cid, j) (ss_suspending (sm_sched sf)) -> jgood C j) /\
  (forall p c, In p (e_pools (sm_exec sf)) -> In c (p_suspended p) ->
     ~ In (c_id c) (ss_requeued (sm_sched sf)) ->
     exists o, In o (c_ops c) /\ st_of (e_world (sm_exec sf)) o = Pending).
Proof.
  intros E W Hc Hr H.
  assert (Hrange : pipes_in_range (cf_static C)) by (rewrite E; apply mk_static_pipes_in_range; exact W).
  pose proof (priority_run_invariant C Hrange np cpu ram arrivals sf logs oe Hc Hr H)
    as (_ & _ & _ & _ & _ & _ & Fr & [Gq Gs] & _).
  split; [eapply pr_run_class_ok; [|exact H]; apply class_ok_init|].
  split; [exact Gq|]. split; [intros cid j Hin; apply (Gs (cid, j) Hin)|]. exact Fr.
Qed.

(* R3 (single-operator mode): in the final state of every run no operator is queued twice (over all
   three queues), every queued job is one PENDING or FAILED operator with all parents complete that no
   live container owns, and nothing is suspending, suspended or noted *)
Theorem priority_single_queues C l np cpu ram arrivals :
  cf_static C = mk_static l -> dags_wf l ->
  (forall op c, cf_script C op c <> []) -> cf_multi C = false ->
  (0 <= cpu)%Z -> (0 <= ram)%Q -> NoDup (concat arrivals) ->
  exists sf logs,
    sim_run C APriority 0%Z (init_sim C np cpu ram) arrivals = (sf, logs, None) /\
    NoDup (queued_ops (sm_sched sf)) /\
    (forall q j, In j (queue_of (sm_sched sf) q) ->
       exists o, j_ops j = [o] /\
         (st_of (e_world (sm_exec sf)) o = Pending \/ st_of (e_world (sm_exec sf)) o = Failed) /\
         parents_complete (cf_static C) (e_world (sm_exec sf)) o = true /\
         ~ In o (sown (sm_exec sf))) /\
    (forall p, In p (e_pools (sm_exec sf)) -> p_suspending p = [] /\ p_suspended p = []).
Proof.
  intros E W Hs Hm Hc Hq Na.
  assert (Ho : orders_nodup (cf_static C)) by (rewrite E; apply mk_static_orders_nodup, W).
  assert (Hr : pipes_in_range (cf_static C)) by (rewrite E; apply mk_static_pipes_in_range, W).
  assert (Hp : forall k o, In o (pd_order (pipe_of (cf_static C) k)) -> op_pipe (cf_static C) o = k)
    by (rewrite E; apply mk_static_op_pipe, W).
  assert (Hpa : forall k o p, In o (pd_order (pipe_of (cf_static C) k)) ->
                  In p (op_parents (cf_static C) o) -> op_pipe (cf_static C) p = k)
    by (rewrite E; apply mk_static_op_parents, W).
  destruct (single_run_total C Hs Hm Ho Hr Hp Hpa np arrivals 0%Z (init_sim C np cpu ram))
    as (sf & logs & R & _ & _ & [Ipr (Pi & Hx & [Gq Nq] & _)] & _).
  - apply sp_inv_init; assumption.
  - exact Na.
  - intros p _ [].
  - exists sf, logs. split; [exact R|]. split; [exact Nq|]. split.
    + intros q j Hj. destruct (Gq q j Hj) as (_ & o & Eo & As & Pc & _). exists o.
      split; [exact Eo|]. split; [apply assignable_cases; exact As|]. split; [exact Pc|].
      intros Hin. destruct Ipr as (_ & _ & (_ & _ & [_ Ab]) & _). apply Ab in Hin.
      apply busy_not_assignable in Hin. unfold assignable in As. congruence.
    + intros p Hp0. rewrite Forall_forall in Pi. destruct (Pi p Hp0) as (X & _).
      destruct (Hx p Hp0) as (Y & _). auto.
Qed.

(* R3 (single-operator mode): nothing ready is lost. In the final state of every run, every PENDING
   operator of an arrived pipeline whose parents are all complete is in one of the queues -- unless its
   pipeline has a result of the tick just executed, in which case the next round examines the pipeline
   and files it (C12_fifo: new jobs at the tail). Together with C12_work_conserving: a ready PENDING
   operator waits only while every pool is depleted. FAILED operators are not covered: a failed retry
   that does not fit, or reaches half a pool, leaves the queue for good (C12_retry_dropped). *)
Theorem priority_single_no_loss C l np cpu ram arrivals :
  cf_static C = mk_static l -> dags_wf l ->
  (forall op c, cf_script C op c <> []) -> cf_multi C = false ->
  (0 <= cpu)%Z -> (0 <= ram)%Q -> NoDup (concat arrivals) ->
  exists sf logs,
    sim_run C APriority 0%Z (init_sim C np cpu ram) arrivals = (sf, logs, None) /\
    forall k o, In k (concat arrivals) -> In o (pd_order (pipe_of (cf_static C) k)) ->
      st_of (e_world (sm_exec sf)) o = Pending ->
      parents_complete (cf_static C) (e_world (sm_exec sf)) o = true ->
      In o (queued_ops (sm_sched sf)) \/
      exists r o', In r (sm_results sf) /\ In o' (r_ops r) /\ op_pipe (cf_static C) o' = k.
Proof.
  intros E W Hs Hm Hc Hq Na.
  assert (Ho : orders_nodup (cf_static C)) by (rewrite E; apply mk_static_orders_nodup, W).
  assert (Hr : pipes_in_range (cf_static C)) by (rewrite E; apply mk_static_pipes_in_range, W).
  assert (Hp : forall k o, In o (pd_order (pipe_of (cf_static C) k)) -> op_pipe (cf_static C) o = k)
    by (rewrite E; apply mk_static_op_pipe, W).
  assert (Hpa : forall k o p, In o (pd_order (pipe_of (cf_static C) k)) ->
                  In p (op_parents (cf_static C) o) -> op_pipe (cf_static C) p = k)
    by (rewrite E; apply mk_static_op_parents, W).
  destruct (single_run_total C Hs Hm Ho Hr Hp Hpa np arrivals 0%Z (init_sim C np cpu ram))
    as (sf & logs & R & _ & _ & [_ (_ & _ & _ & _ & Hnl)] & Arr).
  - apply sp_inv_init; assumption.
  - exact Na.
  - intros p _ [].
  - exists sf, logs. split; [exact R|]. intros k o Hk. apply Hnl. rewrite Arr. cbn. exact Hk.
Qed.

(* ------------------------------------------------------------------------------------------ *)
(* 11. non-vacuity: concrete runs                                                               *)
(* ------------------------------------------------------------------------------------------ *)
Module RunExamples.

Definition exL : list (prio * dag) := [(Batch, [[]; [0]]); (Batch, [[]; [0]]); (Query, [[]])].
Definition exSt : static := mk_static exL.
Definition exC (multi : bool) : cfg :=
  {| cf_static := exSt; cf_script := fun _ _ => [(1 # 2)%Q; (1 # 2)%Q]; cf_tps := 10%Z;
     cf_overcommit := false; cf_multi := multi; cf_rnd := fun q => q |}.

Lemma wf_one : wf_dag [[]].
Proof. intros j Hj. cbn in Hj. assert (j = 0) by lia. subst. split; [constructor|intros ? []]. Qed.
Lemma wf_chain : wf_dag [[]; [0]].
Proof.
  intros j Hj. cbn in Hj. destruct j as [|[|j]]; [| |lia]; cbn.
  - split; [constructor|intros ? []].
  - split; [constructor; [intros []|constructor]|]. intros p [<-|[]]. lia.
Qed.
Lemma exL_wf : dags_wf exL.
Proof.
  unfold dags_wf, exL. constructor; [exact wf_chain|]. constructor; [exact wf_chain|].
  constructor; [exact wf_one | constructor].
Qed.

(* two batch pipelines of two operators fill a pool of two CPUs; a query pipeline arrives in tick 2 *)
Definition arr : list (list nat) := [[0; 1]; []; [2]; []; []; []; []; []].

(* per tick: (suspensions, assignments as (priority, operators), results as (container, failed)) *)
Definition show (r : sim * list tick_log * option err) :=
  let '(s, logs, e) := r in
  (map (fun l => (map su_cid (tl_susp l), map (fun a => (a_prio a, a_ops a)) (tl_asgs l),
                  map (fun x => (r_cid x, r_err x)) (tl_results l))) logs,
   e, sm_nsusp s, ss_requeued (sm_sched s)).

(* multi-operator mode: the query job finds the pool full, batch container 0 (at an operator boundary)
   is preempted in tick 2, the query is served in tick 3, the preempted work is re-queued (container 0
   recorded) and served again in tick 4; the run reaches its last tick *)
Example ex_run_preempts :
  show (sim_run (exC true) APriority 0%Z (init_sim (exC true) 1 2%Z 2%Q) arr) =
  ([([], [(Batch, [0; 1]); (Batch, [2; 3])], []);
    ([], [], []);
    ([0], [], []);
    ([], [(Query, [4])], [(1, false)]);
    ([], [(Batch, [1])], [(2, false)]);
    ([], [], [(3, false)]);
    ([], [], []); ([], [], [])], None, 1%Z, [0]).
Proof. vm_compute. reflexivity. Qed.

(* single-operator mode: one operator per container, no suspension at all *)
Example ex_run_single :
  show (sim_run (exC false) APriority 0%Z (init_sim (exC false) 1 2%Z 2%Q) arr) =
  ([([], [(Batch, [0]); (Batch, [2])], []);
    ([], [], [(0, false); (1, false)]);
    ([], [(Query, [4]); (Batch, [1])], []);
    ([], [], [(2, false); (3, false)]);
    ([], [(Batch, [3])], []);
    ([], [], [(4, false)]);
    ([], [], []); ([], [], [])], None, 0%Z, []).
Proof. vm_compute. reflexivity. Qed.

(* R1 is not vacuous: a run that stops (pipeline 0 arrives twice), and the theorem applied to it *)
Example ex_run_stops :
  exists sf logs, sim_run (exC true) APriority 0%Z (init_sim (exC true) 1 2%Z 2%Q) [[0]; [0]]
                  = (sf, logs, Some EOther) /\ inner_err EOther.
Proof.
  destruct (sim_run (exC true) APriority 0%Z (init_sim (exC true) 1 2%Z 2%Q) [[0]; [0]])
    as [[sf logs] oe] eqn:R.
  assert (X : oe = Some EOther) by (apply (f_equal snd) in R; vm_compute in R; symmetry; exact R).
  subst oe. exists sf, logs. split; [reflexivity|].
  apply (priority_run_errors_partial (exC true) exL 1 2%Z 2%Q [[0]; [0]] sf logs EOther);
    [reflexivity | exact exL_wf | lia | lra | exact R].
Qed.

(* R2 applies to the single-operator configuration *)
Example ex_single_total :
  exists sf logs,
    sim_run (exC false) APriority 0%Z (init_sim (exC false) 1 2%Z 2%Q) arr = (sf, logs, None) /\
    length logs = 8 /\ Forall (fun lg => tl_susp lg = []) logs.
Proof.
  apply (priority_single_runs_to_end (exC false) exL); try reflexivity.
  - exact exL_wf.
  - intros op c. discriminate.
  - lia.
  - lra.
  - cbn. repeat constructor; cbn; intuition discriminate.
Qed.

(* no-loss is not vacuous: a pool of one CPU, two single-operator jobs arrive together: the second
   root operator stays PENDING and ready, and it is in the batch queue *)
Example ex_waiting_is_queued :
  (let '(sf, _, _) := sim_run (exC false) APriority 0%Z (init_sim (exC false) 1 1%Z 1%Q) [[0; 1]] in
   (queued_ops (sm_sched sf), map j_ops (ss_b (sm_sched sf)), st_of (e_world (sm_exec sf)) 2,
    parents_complete exSt (e_world (sm_exec sf)) 2)) = ([2], [[2]], Pending, true).
Proof. vm_compute. reflexivity. Qed.

(* FAILED work can be lost, silently, while a pool has room (the run-level face of C12_retry_dropped; this
   is why [nolost] speaks of PENDING operators only). One pool of 4 CPUs / 4 GB, single-operator mode;
   three long batch operators take 1 CPU / 1 GB each; a fourth pipeline arrives in tick 1, gets the
   remaining 1 CPU / 1 GB, needs 3 GB and is OOM-killed in the same tick; in tick 2 its retry asks for
   2 CPUs / 2 GB, which does not fit into the 1 CPU / 1 GB that are free: the job leaves the queue, nothing
   is counted (oom_failed_to_run stays 0), and nothing ever files operator 3 again: the run reaches its
   last tick with operator 3 FAILED, all its (zero) parents complete, in no queue, in no container, its
   pipeline in no result -- and 1 CPU / 1 GB still free. *)
Definition lostL : list (prio * dag) := [(Batch, [[]]); (Batch, [[]]); (Batch, [[]]); (Batch, [[]])].
Definition lostC : cfg :=
  {| cf_static := mk_static lostL;
     cf_script := fun o _ => if Nat.eqb o 3 then [3%Q] else repeat (1 # 2)%Q 12;
     cf_tps := 10%Z; cf_overcommit := false; cf_multi := false; cf_rnd := fun q => q |}.
Definition lostArr : list (list nat) := [[0; 1; 2]; [3]; []; []; []; []].

Example ex_failed_work_lost :
  (let '(sf, logs, e) := sim_run lostC APriority 0%Z (init_sim lostC 1 4%Z 4%Q) lostArr in
   (e, st_of (e_world (sm_exec sf)) 3, parents_complete (cf_static lostC) (e_world (sm_exec sf)) 3,
    queued_ops (sm_sched sf),
    map (fun p => (p_avail_cpu p, Qred (p_avail_ram p), map c_id (p_active p), p_suspending p, p_suspended p))
        (e_pools (sm_exec sf)),
    sm_results sf, sm_outstanding sf, ss_oom (sm_sched sf),
    map (fun l => map (fun a => (a_ops a, a_cpu a, Qred (a_ram a))) (tl_asgs l)) logs,
    map (fun l => map (fun r => (r_ops r, r_err r)) (tl_results l)) logs))
  = (None, Failed, true, [], [(1%Z, 1%Q, [0; 1; 2], [], [])], [], [0; 1; 2; 3], 0%Z,
     [[([0], 1%Z, 1%Q); ([1], 1%Z, 1%Q); ([2], 1%Z, 1%Q)]; [([3], 1%Z, 1%Q)]; []; []; []; []],
     [[]; [([3], true)]; []; []; []; []]).
Proof. vm_compute. reflexivity. Qed.

End RunExamples.
