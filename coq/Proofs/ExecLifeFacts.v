(* The executor (Model/Container.v, Model/Pool.v, Model/Executor.v) changes operator states only
   through the checked [transition]: every executor step is a history [steps_in] of accepted, in-range
   requests, so the lifecycle theorems of Proofs/LifecycleFacts.v (finality of Completed, the
   dependency invariant) hold in every reachable executor state, whatever commands a scheduler
   issues. *)
From Coq Require Import List Arith Lia Bool ZArith QArith.
Import ListNotations.
Close Scope Q_scope.
Close Scope Z_scope.
From Eudoxia Require Import Num.Rnd64 Model.Types Model.Dag Model.Shapes Model.Lifecycle
  Model.Container Model.Pool Model.Executor Proofs.ListFacts Proofs.LifecycleFacts.

(* ------------------------------------------------------------------------------------------ *)
(* tactics for the [do x <- r; k] chains                                                        *)
(* ------------------------------------------------------------------------------------------ *)

(* [H : match r with Ok a => k a | Err e => Err e end = Ok _]: split [r], discard the error case *)
Tactic Notation "dres" hyp(H) "as" simple_intropattern(pat) "eqn" ":" ident(E) :=
  match type of H with
  | match ?r with Ok _ => _ | Err _ => _ end = _ =>
      destruct r as [pat|?] eqn:E; [|discriminate H]; cbv beta iota in H
  end.

(* ------------------------------------------------------------------------------------------ *)
(* 1. well-scopedness                                                                           *)
(* ------------------------------------------------------------------------------------------ *)

Definition ops_in_range (St : static) (l : list nat) : Prop :=
  Forall (fun o => o < length (s_ops St)) l.

Definition conts_in_range (St : static) (l : list container) : Prop :=
  Forall (fun c => ops_in_range St (c_ops c)) l.

Definition pool_ok (St : static) (p : pool) : Prop :=
  conts_in_range St (p_active p) /\ conts_in_range St (p_suspending p).

Definition containers_in_range (C : cfg) (s : estate) : Prop :=
  Forall (pool_ok (cf_static C)) (e_pools s).

Definition wlen (St : static) (w : world) : Prop := length (w_st w) = length (s_ops St).

Definition inv (C : cfg) (s : estate) : Prop :=
  wlen (cf_static C) (e_world s) /\ containers_in_range C s.

Lemma containers_in_range_spec C s :
  containers_in_range C s <->
  forall p, In p (e_pools s) -> forall c, In c (p_active p ++ p_suspending p) ->
            ops_in_range (cf_static C) (c_ops c).
Proof.
  unfold containers_in_range, pool_ok, conts_in_range. rewrite Forall_forall. split.
  - intros H p Hp c Hc. destruct (H p Hp) as [A B]. rewrite Forall_forall in A, B.
    apply in_app_iff in Hc. destruct Hc; auto.
  - intros H p Hp. split; apply Forall_forall; intros c Hc; apply (H p Hp); apply in_app_iff; auto.
Qed.

Lemma steps_in_wlen St w w' : steps_in St w w' -> wlen St w -> wlen St w'.
Proof.
  intros H L. unfold wlen in *. rewrite <- L. apply (steps_length St). apply steps_in_steps. exact H.
Qed.

(* list facts *)
Lemma In_skipn {A} (x : A) n : forall l, In x (skipn n l) -> In x l.
Proof.
  induction n as [|n IH]; intros l H; [exact H|].
  destruct l as [|h t]; [exact H|]. right. apply IH. exact H.
Qed.

Lemma Forall_skipn_keep {A} (P : A -> Prop) n l : Forall P l -> Forall P (skipn n l).
Proof. rewrite !Forall_forall. intros H x Hx. apply H. eapply In_skipn; eauto. Qed.

Lemma Forall_filter_keep {A} (P : A -> Prop) f l : Forall P l -> Forall P (filter f l).
Proof. rewrite !Forall_forall. intros H x Hx. apply filter_In in Hx. apply H. tauto. Qed.

Lemma ops_in_range_skipn St n l : ops_in_range St l -> ops_in_range St (skipn n l).
Proof. apply Forall_skipn_keep. Qed.

(* ------------------------------------------------------------------------------------------ *)
(* 2. every primitive is a history of accepted in-range requests                                *)
(* ------------------------------------------------------------------------------------------ *)

Lemma transition_all_steps_in St ops : forall w new w',
  transition_all St w ops new = Ok w' -> ops_in_range St ops -> wlen St w -> steps_in St w w'.
Proof.
  induction ops as [|o t IH]; intros w new w' H R L.
  - cbn in H. inversion H. constructor.
  - cbn [transition_all] in H. unfold bind in H.
    destruct (transition St w o new) as [w1|e] eqn:T; [|discriminate].
    inversion R as [|? ? Ro Rt]; subst.
    econstructor; [ | exact T | ].
    + unfold wlen in L. rewrite L. exact Ro.
    + apply IH with (new := new); auto. unfold wlen in *.
      rewrite (transition_length _ _ _ _ _ T). exact L.
Qed.

(* container bookkeeping never touches [c_ops] *)
Lemma set_mem_ops C c cons m c1 cons1 : set_mem C c cons m = (c1, cons1) -> c_ops c1 = c_ops c.
Proof. unfold set_mem. intros H. inversion H. reflexivity. Qed.

Lemma mark_completed_ops C c cons er c1 cons1 :
  mark_completed C c cons er = (c1, cons1) -> c_ops c1 = c_ops c.
Proof. unfold mark_completed, set_mem. cbv beta iota zeta. intros H. inversion H. reflexivity. Qed.

Lemma ctick_steps_in C w cons c w' cons' c' :
  ctick C w cons c = Ok (w', cons', c') ->
  ops_in_range (cf_static C) (c_ops c) -> wlen (cf_static C) w ->
  steps_in (cf_static C) w w' /\ c_ops c' = c_ops c.
Proof.
  unfold ctick. intros H R L.
  destruct (c_completed c). { inversion H; subst. split; [constructor|reflexivity]. }
  destruct (c_frozen c). { inversion H; subst. split; [constructor|reflexivity]. }
  destruct (nth_error (c_ops c) (c_opidx c)) as [op|] eqn:N; [|discriminate].
  assert (Lop : op < length (s_ops (cf_static C))).
  { apply nth_error_In in N. unfold ops_in_range in R. rewrite Forall_forall in R. auto. }
  unfold bind in H.
  dres H as [w1 rest] eqn:E1.
  assert (S1 : steps_in (cf_static C) w w1).
  { destruct (c_rest c) as [r|].
    - inversion E1; subst. constructor.
    - dres E1 as wa eqn:T. inversion E1; subst.
      econstructor; [ | exact T | constructor]. unfold wlen in L. rewrite L. exact Lop. }
  pose proof (steps_in_wlen _ _ _ S1 L) as L1.
  destruct rest as [|m rest']; [discriminate|].
  destruct (set_mem C c cons m) as [c1 cons1] eqn:SM.
  pose proof (set_mem_ops _ _ _ _ _ _ SM) as O1.
  destruct (Qltb (c_ram c) m).
  { inversion H; subst. split; [exact S1 | exact O1]. }
  destruct rest' as [|m2 rest2].
  - dres H as w2 eqn:T2.
    assert (S2 : steps_in (cf_static C) w w2).
    { eapply steps_in_trans; [exact S1|].
      econstructor; [ | exact T2 | constructor]. unfold wlen in L1. rewrite L1. exact Lop. }
    destruct (Nat.eqb (Datatypes.S (c_opidx c)) (length (c_ops c))).
    + destruct (mark_completed C (with_pos c1 (Datatypes.S (c_opidx c)) None false false) cons1 false)
        as [c2 cons2] eqn:MC.
      apply mark_completed_ops in MC.
      inversion H; subst. split; [exact S2|]. cbn [tick_elapsed c_ops]. rewrite MC. exact O1.
    + inversion H; subst. split; [exact S2 | exact O1].
  - inversion H; subst. split; [exact S1 | exact O1].
Qed.

Lemma ckill_steps_in C w cons c w' cons' c' :
  ckill C w cons c = Ok (w', cons', c') ->
  ops_in_range (cf_static C) (c_ops c) -> wlen (cf_static C) w ->
  steps_in (cf_static C) w w' /\ c_ops c' = c_ops c.
Proof.
  unfold ckill. intros H R L.
  destruct (c_completed c); [discriminate|].
  unfold bind in H. dres H as w1 eqn:T.
  destruct (mark_completed C c cons true) as [c2 cons2] eqn:MC.
  apply mark_completed_ops in MC. inversion H; subst. split; [|exact MC].
  eapply transition_all_steps_in; eauto. apply ops_in_range_skipn. exact R.
Qed.

Lemma csuspend_steps_in C w c w' c' :
  csuspend C w c = Ok (w', c') ->
  ops_in_range (cf_static C) (c_ops c) -> wlen (cf_static C) w ->
  steps_in (cf_static C) w w' /\ c_ops c' = c_ops c.
Proof.
  unfold csuspend. intros H R L.
  unfold bind in H. dres H as w1 eqn:T. inversion H; subst. split; [|reflexivity].
  eapply transition_all_steps_in; eauto. apply ops_in_range_skipn. exact R.
Qed.

Lemma csuspend_tick_steps_in C w c w' c' :
  csuspend_tick C w c = Ok (w', c') ->
  ops_in_range (cf_static C) (c_ops c) -> wlen (cf_static C) w ->
  steps_in (cf_static C) w w' /\ c_ops c' = c_ops c.
Proof.
  unfold csuspend_tick. intros H R L. cbv zeta in H.
  destruct (Z.eqb (c_susp_left c - 1) 0).
  - unfold bind in H. dres H as w1 eqn:T. inversion H; subst. split; [|reflexivity].
    eapply transition_all_steps_in; eauto. apply ops_in_range_skipn. exact R.
  - inversion H; subst. split; [constructor|reflexivity].
Qed.

(* ---- lists of containers ---- *)

Lemma tick_suspending_steps_in C : forall sing w w' sing',
  tick_suspending C w sing = Ok (w', sing') ->
  conts_in_range (cf_static C) sing -> wlen (cf_static C) w ->
  steps_in (cf_static C) w w' /\ map c_ops sing' = map c_ops sing.
Proof.
  induction sing as [|c t IH]; intros w w' sing' H R L.
  - cbn in H. inversion H; subst. split; [constructor|reflexivity].
  - cbn [tick_suspending] in H. unfold bind in H.
    inversion R as [|? ? Rc Rt]; subst.
    dres H as [w1 c1] eqn:E1.
    destruct (csuspend_tick_steps_in _ _ _ _ _ E1 Rc L) as [S1 O1].
    dres H as [w2 t2] eqn:E2.
    destruct (IH _ _ _ E2 Rt (steps_in_wlen _ _ _ S1 L)) as [S2 O2].
    inversion H; subst. split; [eapply steps_in_trans; eauto|].
    cbn [map]. rewrite O1, O2. reflexivity.
Qed.

Lemma tick_active_steps_in C : forall act w cons w' cons' act',
  tick_active C w cons act = Ok (w', cons', act') ->
  conts_in_range (cf_static C) act -> wlen (cf_static C) w ->
  steps_in (cf_static C) w w' /\ map c_ops act' = map c_ops act.
Proof.
  induction act as [|c t IH]; intros w cons w' cons' act' H R L.
  - cbn in H. inversion H; subst. split; [constructor|reflexivity].
  - cbn [tick_active] in H. unfold bind in H.
    inversion R as [|? ? Rc Rt]; subst.
    dres H as [[w1 cons1] c1] eqn:E1.
    destruct (ctick_steps_in _ _ _ _ _ _ _ E1 Rc L) as [S1 O1].
    dres H as [[w2 cons2] t2] eqn:E2.
    destruct (IH _ _ _ _ _ E2 Rt (steps_in_wlen _ _ _ S1 L)) as [S2 O2].
    inversion H; subst. split; [eapply steps_in_trans; eauto|].
    cbn [map]. rewrite O1, O2. reflexivity.
Qed.

Lemma kill_over_limit_steps_in C : forall act w cons w' cons' act',
  kill_over_limit C w cons act = Ok (w', cons', act') ->
  conts_in_range (cf_static C) act -> wlen (cf_static C) w ->
  steps_in (cf_static C) w w' /\ map c_ops act' = map c_ops act.
Proof.
  induction act as [|c t IH]; intros w cons w' cons' act' H R L.
  - cbn in H. inversion H; subst. split; [constructor|reflexivity].
  - cbn [kill_over_limit] in H. unfold bind in H.
    inversion R as [|? ? Rc Rt]; subst.
    dres H as [[w1 cons1] c1] eqn:E1.
    assert (P1 : steps_in (cf_static C) w w1 /\ c_ops c1 = c_ops c).
    { destruct (Qltb (c_ram c) (c_mem c)).
      - eapply ckill_steps_in; eauto.
      - inversion E1; subst. split; [constructor|reflexivity]. }
    destruct P1 as [S1 O1].
    dres H as [[w2 cons2] t2] eqn:E2.
    destruct (IH _ _ _ _ _ E2 Rt (steps_in_wlen _ _ _ S1 L)) as [S2 O2].
    inversion H; subst. split; [eapply steps_in_trans; eauto|].
    cbn [map]. rewrite O1, O2. reflexivity.
Qed.

(* in-range is a property of [map c_ops] *)
Lemma conts_in_range_map St l l' :
  map c_ops l' = map c_ops l -> conts_in_range St l -> conts_in_range St l'.
Proof.
  unfold conts_in_range. intros E H.
  apply (proj1 (Forall_map c_ops (ops_in_range St) l')). rewrite E.
  apply (proj2 (Forall_map c_ops (ops_in_range St) l)). exact H.
Qed.

Lemma find_container_In cid l c : find_container cid l = Some c -> In c l /\ c_id c = cid.
Proof.
  unfold find_container. intros H. apply find_some in H. destruct H as [H1 H2].
  apply Nat.eqb_eq in H2. auto.
Qed.

Lemma replace_container_ops c' : forall l c,
  find_container (c_id c') l = Some c -> c_ops c' = c_ops c ->
  map c_ops (replace_container c' l) = map c_ops l.
Proof.
  induction l as [|h t IH]; intros c F O; [reflexivity|].
  unfold find_container in F. cbn [find] in F. cbn [replace_container].
  destruct (Nat.eqb (c_id h) (c_id c')) eqn:E.
  - inversion F; subst. cbn [map]. rewrite O. reflexivity.
  - cbn [map]. f_equal. eapply IH; eauto.
Qed.

Lemma mark_completed_id C c cons er c1 cons1 :
  mark_completed C c cons er = (c1, cons1) -> c_id c1 = c_id c.
Proof. unfold mark_completed, set_mem. cbv beta iota zeta. intros H. inversion H. reflexivity. Qed.

Lemma ckill_id C w cons c w' cons' c' : ckill C w cons c = Ok (w', cons', c') -> c_id c' = c_id c.
Proof.
  unfold ckill. intros H. destruct (c_completed c); [discriminate|].
  unfold bind in H. dres H as w1 eqn:T.
  destruct (mark_completed C c cons true) as [c2 cons2] eqn:MC.
  apply mark_completed_id in MC. inversion H; subst. exact MC.
Qed.

Lemma kill_until_fits_steps_in C mx : forall order act w cons w' cons' act',
  kill_until_fits C mx w cons act order = Ok (w', cons', act') ->
  conts_in_range (cf_static C) act -> wlen (cf_static C) w ->
  steps_in (cf_static C) w w' /\ map c_ops act' = map c_ops act.
Proof.
  induction order as [|cid t IH]; intros act w cons w' cons' act' H R L.
  - cbn in H. inversion H; subst. split; [constructor|reflexivity].
  - cbn [kill_until_fits] in H.
    destruct (Qleb cons mx). { inversion H; subst. split; [constructor|reflexivity]. }
    destruct (find_container cid act) as [c|] eqn:F; [|discriminate].
    unfold bind in H. dres H as [[w1 cons1] c1] eqn:E1.
    pose proof (find_container_In _ _ _ F) as [Hin Hid].
    assert (Rc : ops_in_range (cf_static C) (c_ops c)).
    { unfold conts_in_range in R. rewrite Forall_forall in R. auto. }
    destruct (ckill_steps_in _ _ _ _ _ _ _ E1 Rc L) as [S1 O1].
    pose proof (ckill_id _ _ _ _ _ _ _ E1) as I1.
    assert (M : map c_ops (replace_container c1 act) = map c_ops act).
    { eapply replace_container_ops; [|exact O1]. rewrite I1, Hid. exact F. }
    destruct (IH _ _ _ _ _ _ H (conts_in_range_map _ _ _ M R) (steps_in_wlen _ _ _ S1 L)) as [S2 O2].
    split; [eapply steps_in_trans; eauto|]. rewrite O2. exact M.
Qed.

Lemma oom_killer_steps_in C mx w cons act w' cons' act' :
  oom_killer C mx w cons act = Ok (w', cons', act') ->
  conts_in_range (cf_static C) act -> wlen (cf_static C) w ->
  steps_in (cf_static C) w w' /\ map c_ops act' = map c_ops act.
Proof.
  unfold oom_killer. intros H R L. unfold bind in H.
  dres H as [[w1 cons1] act1] eqn:E1.
  destruct (kill_over_limit_steps_in _ _ _ _ _ _ _ E1 R L) as [S1 O1].
  destruct (Qleb cons1 mx). { inversion H; subst. auto. }
  destruct (kill_until_fits_steps_in _ _ _ _ _ _ _ _ _ H
              (conts_in_range_map _ _ _ O1 R) (steps_in_wlen _ _ _ S1 L)) as [S2 O2].
  split; [eapply steps_in_trans; eauto|]. rewrite O2. exact O1.
Qed.

Lemma apply_suspends_steps_in C : forall ss w act sing w' act' sing',
  apply_suspends C w act sing ss = Ok (w', act', sing') ->
  conts_in_range (cf_static C) act -> conts_in_range (cf_static C) sing -> wlen (cf_static C) w ->
  steps_in (cf_static C) w w' /\ conts_in_range (cf_static C) act'
  /\ conts_in_range (cf_static C) sing'.
Proof.
  induction ss as [|s t IH]; intros w act sing w' act' sing' H RA RS L.
  - cbn in H. inversion H; subst. split; [constructor|auto].
  - cbn [apply_suspends] in H.
    destruct (find_container (su_cid s) act) as [c|] eqn:F; [|discriminate].
    unfold bind in H. dres H as [w1 c1] eqn:E1.
    pose proof (find_container_In _ _ _ F) as [Hin Hid].
    assert (Rc : ops_in_range (cf_static C) (c_ops c)).
    { unfold conts_in_range in RA. rewrite Forall_forall in RA. auto. }
    destruct (csuspend_steps_in _ _ _ _ _ E1 Rc L) as [S1 O1].
    assert (RA' : conts_in_range (cf_static C) (remove_container (su_cid s) act)).
    { unfold remove_container. apply Forall_filter_keep. exact RA. }
    assert (RS' : conts_in_range (cf_static C) (sing ++ [c1])).
    { apply Forall_app. split; [exact RS|]. constructor; [|constructor]. rewrite O1. exact Rc. }
    destruct (IH _ _ _ _ _ _ H RA' RS' (steps_in_wlen _ _ _ S1 L)) as [S2 [A2 B2]].
    split; [eapply steps_in_trans; eauto|auto].
Qed.

Lemma apply_assignments_in_range C : forall asgs next acpu aram act next' acpu' aram' act',
  apply_assignments C next acpu aram act asgs = Ok (next', acpu', aram', act') ->
  conts_in_range (cf_static C) act ->
  (forall a, In a asgs -> ops_in_range (cf_static C) (a_ops a)) ->
  conts_in_range (cf_static C) act'.
Proof.
  induction asgs as [|a t IH]; intros next acpu aram act next' acpu' aram' act' H R RA.
  - cbn in H. inversion H; subst. exact R.
  - cbn [apply_assignments] in H. destruct (opcount_ok C a); [|discriminate].
    eapply IH; [exact H | | intros a' Ha'; apply RA; right; exact Ha'].
    apply Forall_app. split; [exact R|]. constructor; [|constructor].
    cbn [new_container c_ops]. apply RA. left. reflexivity.
Qed.

(* ---- one pool ---- *)

Lemma pool_tick_steps_in C w next p ss asgs w' next' p' res :
  pool_tick C w next p ss asgs = Ok (w', next', p', res) ->
  wlen (cf_static C) w -> pool_ok (cf_static C) p ->
  (forall a, In a asgs -> ops_in_range (cf_static C) (a_ops a)) ->
  steps_in (cf_static C) w w' /\ pool_ok (cf_static C) p'.
Proof.
  unfold pool_tick. intros H L [PA PS] RA. unfold bind in H.
  dres H as [[[w1 act1] sing1] cons1] eqn:E1.
  assert (P1 : steps_in (cf_static C) w w1 /\ conts_in_range (cf_static C) act1
               /\ conts_in_range (cf_static C) sing1).
  { destruct ss as [|s0 ss'].
    - inversion E1; subst. split; [constructor|auto].
    - dres E1 as u eqn:V. dres E1 as [[wa acta] singa] eqn:A. inversion E1; subst.
      eapply apply_suspends_steps_in; eauto. }
  destruct P1 as [S1 [A1 B1]]. pose proof (steps_in_wlen _ _ _ S1 L) as L1.
  dres H as [[[next2 acpu2] aram2] act2] eqn:E2.
  assert (A2 : conts_in_range (cf_static C) act2).
  { destruct asgs as [|a0 asgs'].
    - inversion E2; subst. exact A1.
    - dres E2 as u eqn:V. eapply apply_assignments_in_range; eauto. }
  dres H as [w3 sing3] eqn:E3.
  destruct (tick_suspending_steps_in _ _ _ _ _ E3 B1 L1) as [S3 O3].
  pose proof (steps_in_wlen _ _ _ S3 L1) as L3.
  dres H as [[w4 cons4] act4] eqn:E4.
  destruct (tick_active_steps_in _ _ _ _ _ _ _ E4 A2 L3) as [S4 O4].
  pose proof (steps_in_wlen _ _ _ S4 L3) as L4.
  dres H as [[w5 cons5] act5] eqn:E5.
  destruct (oom_killer_steps_in _ _ _ _ _ _ _ _ E5 (conts_in_range_map _ _ _ O4 A2) L4) as [S5 O5].
  inversion H; subst. split.
  - eapply steps_in_trans; [exact S1|]. eapply steps_in_trans; [exact S3|].
    eapply steps_in_trans; [exact S4|exact S5].
  - unfold pool_ok, upd_pool. cbn [p_active p_suspending]. split.
    + apply Forall_filter_keep. eapply conts_in_range_map; [exact O5|].
      eapply conts_in_range_map; [exact O4|exact A2].
    + apply Forall_filter_keep. eapply conts_in_range_map; [exact O3|exact B1].
Qed.

(* ---- the executor ---- *)

Lemma pools_tick_steps_in C ss asgs : forall ps w next w' next' ps' res,
  pools_tick C w next ps ss asgs = Ok (w', next', ps', res) ->
  wlen (cf_static C) w -> Forall (pool_ok (cf_static C)) ps ->
  (forall a, In a asgs -> ops_in_range (cf_static C) (a_ops a)) ->
  steps_in (cf_static C) w w' /\ Forall (pool_ok (cf_static C)) ps'.
Proof.
  induction ps as [|p t IH]; intros w next w' next' ps' res H L R RA.
  - cbn in H. inversion H; subst. split; [constructor|constructor].
  - cbn [pools_tick] in H. cbv zeta in H. unfold bind in H.
    inversion R as [|? ? Rp Rt]; subst.
    dres H as [[[w1 next1] p1] res1] eqn:E1.
    assert (RA' : forall a, In a (filter (fun a => Z.eqb (a_pool a) (Z.of_nat (p_id p))) asgs) ->
                            ops_in_range (cf_static C) (a_ops a)).
    { intros a Ha. apply filter_In in Ha. apply RA. tauto. }
    destruct (pool_tick_steps_in _ _ _ _ _ _ _ _ _ _ E1 L Rp RA') as [S1 P1].
    dres H as [[[w2 next2] t2] res2] eqn:E2.
    destruct (IH _ _ _ _ _ _ E2 (steps_in_wlen _ _ _ S1 L) Rt RA) as [S2 P2].
    inversion H; subst. split; [eapply steps_in_trans; eauto|constructor; auto].
Qed.

Lemma mk_assignment_steps_in C w a w' :
  mk_assignment C w a = Ok w' -> ops_in_range (cf_static C) (a_ops a) -> wlen (cf_static C) w ->
  steps_in (cf_static C) w w'.
Proof.
  unfold mk_assignment. intros H R L.
  destruct (Nat.eqb (length (a_ops a)) 0); [discriminate|].
  destruct (Z.leb (a_cpu a) 0); [discriminate|].
  destruct (Qleb (a_ram a) 0); [discriminate|].
  eapply transition_all_steps_in; eauto.
Qed.

Lemma mk_assignments_steps_in C : forall asgs w w',
  mk_assignments C w asgs = Ok w' ->
  (forall a, In a asgs -> ops_in_range (cf_static C) (a_ops a)) -> wlen (cf_static C) w ->
  steps_in (cf_static C) w w'.
Proof.
  induction asgs as [|a t IH]; intros w w' H RA L.
  - cbn in H. inversion H; subst. constructor.
  - cbn [mk_assignments] in H. unfold bind in H. dres H as w1 eqn:E1.
    assert (S1 : steps_in (cf_static C) w w1).
    { eapply mk_assignment_steps_in; eauto. apply RA. left. reflexivity. }
    eapply steps_in_trans; [exact S1|].
    apply IH; [exact H | intros a' Ha'; apply RA; right; exact Ha' | eapply steps_in_wlen; eauto].
Qed.

Lemma exec_tick_steps_in C s ss asgs s' res :
  exec_tick C s ss asgs = Ok (s', res) -> inv C s ->
  (forall a, In a asgs -> ops_in_range (cf_static C) (a_ops a)) ->
  steps_in (cf_static C) (e_world s) (e_world s') /\ inv C s'.
Proof.
  unfold exec_tick. intros H [L R] RA. cbv zeta in H.
  match type of H with (if ?b then _ else _) = _ => destruct b end; [discriminate|].
  unfold bind in H. dres H as [[[w1 next1] ps1] res1] eqn:E1.
  destruct (pools_tick_steps_in _ _ _ _ _ _ _ _ _ _ E1 L R RA) as [S1 P1].
  inversion H; subst. cbn [e_world]. split; [exact S1|].
  split; [cbn [e_world]; eapply steps_in_wlen; eauto | exact P1].
Qed.

Theorem exec_step_steps_in C s ss asgs s' res :
  exec_step C s ss asgs = Ok (s', res) -> inv C s ->
  (forall a, In a asgs -> ops_in_range (cf_static C) (a_ops a)) ->
  steps_in (cf_static C) (e_world s) (e_world s') /\ inv C s'.
Proof.
  unfold exec_step. intros H [L R] RA. unfold bind in H. dres H as w1 eqn:E1.
  pose proof (mk_assignments_steps_in _ _ _ _ E1 RA L) as S1.
  assert (I1 : inv C {| e_world := w1; e_pools := e_pools s; e_next := e_next s |}).
  { split; [cbn [e_world]; eapply steps_in_wlen; eauto | exact R]. }
  destruct (exec_tick_steps_in _ _ _ _ _ _ H I1 RA) as [S2 I2].
  cbn [e_world] in S2. split; [eapply steps_in_trans; eauto | exact I2].
Qed.

(* ------------------------------------------------------------------------------------------ *)
(* 3. reachable executor states                                                                 *)
(* ------------------------------------------------------------------------------------------ *)

Inductive reach_exec_r (C : cfg) (s0 : estate) : estate -> Prop :=
| rr_init : reach_exec_r C s0 s0
| rr_step s ss asgs s' res : reach_exec_r C s0 s ->
    (forall a, In a asgs -> ops_in_range (cf_static C) (a_ops a)) ->
    exec_step C s ss asgs = Ok (s', res) -> reach_exec_r C s0 s'.

Lemma inv_init C n cpu ram : inv C (init_estate C n cpu ram).
Proof.
  unfold inv, init_estate, wlen, containers_in_range. cbn [e_world e_pools]. split.
  - unfold init_world. cbn [w_st]. apply repeat_length.
  - apply Forall_forall. intros p Hp. apply in_map_iff in Hp. destruct Hp as [i [<- _]].
    unfold pool_ok, new_pool. cbn [p_active p_suspending]. split; constructor.
Qed.

(* the whole run is one history of accepted in-range requests *)
Theorem reach_steps_in C s0 s :
  reach_exec_r C s0 s -> inv C s0 ->
  steps_in (cf_static C) (e_world s0) (e_world s) /\ inv C s.
Proof.
  induction 1 as [|s ss asgs s' res R IH RA E]; intros I0.
  - split; [constructor|exact I0].
  - destruct (IH I0) as [S1 I1].
    destruct (exec_step_steps_in _ _ _ _ _ _ E I1 RA) as [S2 I2].
    split; [eapply steps_in_trans; eauto | exact I2].
Qed.

Theorem reach_inv C n cpu ram s :
  reach_exec_r C (init_estate C n cpu ram) s -> inv C s.
Proof. intros R. destruct (reach_steps_in _ _ _ R (inv_init C n cpu ram)) as [_ I]. exact I. Qed.

Theorem exec_dep_inv C n cpu ram s :
  irreflexive_parents (cf_static C) ->
  reach_exec_r C (init_estate C n cpu ram) s -> DepInv (cf_static C) (e_world s).
Proof.
  intros Irr R. destruct (reach_steps_in _ _ _ R (inv_init C n cpu ram)) as [S1 _].
  eapply dep_inv; [exact Irr | | exact S1].
  unfold init_estate. cbn [e_world]. apply DepInv_init.
Qed.

(* the dependency invariant is also preserved from any well-scoped state *)
Theorem exec_step_dep_inv C s ss asgs s' res :
  irreflexive_parents (cf_static C) -> inv C s ->
  (forall a, In a asgs -> ops_in_range (cf_static C) (a_ops a)) ->
  exec_step C s ss asgs = Ok (s', res) ->
  DepInv (cf_static C) (e_world s) -> DepInv (cf_static C) (e_world s').
Proof.
  intros Irr I RA E D. destruct (exec_step_steps_in _ _ _ _ _ _ E I RA) as [S1 _].
  eapply dep_inv; eauto.
Qed.

Theorem exec_completed_final C s ss asgs s' res o :
  inv C s -> (forall a, In a asgs -> ops_in_range (cf_static C) (a_ops a)) ->
  exec_step C s ss asgs = Ok (s', res) ->
  st_of (e_world s) o = Completed -> st_of (e_world s') o = Completed.
Proof.
  intros I RA E Hc. destruct (exec_step_steps_in _ _ _ _ _ _ E I RA) as [S1 _].
  eapply completed_final; [apply steps_in_steps; exact S1 | exact Hc].
Qed.

Theorem exec_completed_final_reach C s0 s o :
  reach_exec_r C s0 s -> inv C s0 ->
  st_of (e_world s0) o = Completed -> st_of (e_world s) o = Completed.
Proof.
  intros R I Hc. destruct (reach_steps_in _ _ _ R I) as [S1 _].
  eapply completed_final; [apply steps_in_steps; exact S1 | exact Hc].
Qed.

Lemma reach_exec_r_trans C s0 s1 s2 :
  reach_exec_r C s0 s1 -> reach_exec_r C s1 s2 -> reach_exec_r C s0 s2.
Proof. intros R1 R2. induction R2; [exact R1 | econstructor; eauto]. Qed.

(* between any two states of a run from the initial state *)
Theorem exec_completed_final_run C n cpu ram s s' o :
  reach_exec_r C (init_estate C n cpu ram) s -> reach_exec_r C s s' ->
  st_of (e_world s) o = Completed -> st_of (e_world s') o = Completed.
Proof.
  intros R1 R2. apply (exec_completed_final_reach C s s' o R2). eapply reach_inv; eauto.
Qed.

(* ------------------------------------------------------------------------------------------ *)
(* 4. an operator that is not assignable cannot be put into a new assignment                    *)
(* ------------------------------------------------------------------------------------------ *)

Lemma transition_all_blocked St new o : forall ops w,
  In o ops -> valid (st_of w o) new = false -> valid new new = false ->
  exists e, transition_all St w ops new = Err e.
Proof.
  induction ops as [|h t IH]; intros w Hin V VV; [contradiction|].
  cbn [transition_all]. unfold bind.
  destruct (transition St w h new) as [w1|e] eqn:T; [|eauto].
  destruct (Nat.eq_dec o h) as [->|N].
  - apply transition_ok in T. destruct T as [V' _]. congruence.
  - destruct Hin as [->|Hin]; [congruence|].
    apply IH; [exact Hin | | exact VV].
    rewrite (transition_st_other _ _ _ _ _ _ T N). exact V.
Qed.

(* every refusal of a request for Assigned is ETransition *)
Lemma transition_assigned_err St w o e : transition St w o Assigned = Err e -> e = ETransition.
Proof.
  intros H. apply transition_err in H. destruct H as [[-> _]|[_ [D _]]]; [reflexivity|discriminate].
Qed.

Lemma transition_all_assigned_err St : forall ops w e,
  transition_all St w ops Assigned = Err e -> e = ETransition.
Proof.
  induction ops as [|h t IH]; intros w e H; [discriminate|].
  cbn [transition_all] in H. unfold bind in H.
  destruct (transition St w h Assigned) as [w1|e1] eqn:T.
  - eapply IH; eauto.
  - inversion H; subst. eapply transition_assigned_err; eauto.
Qed.

Lemma transition_all_app St new : forall l1 l2 w w1,
  transition_all St w l1 new = Ok w1 ->
  transition_all St w (l1 ++ l2) new = transition_all St w1 l2 new.
Proof.
  induction l1 as [|h t IH]; intros l2 w w1 H.
  - cbn in H. inversion H. reflexivity.
  - cbn [transition_all app] in *. unfold bind in *.
    destruct (transition St w h new) as [wa|e]; [|discriminate]. apply IH. exact H.
Qed.

Definition args_ok (a : asg) : Prop :=
  Nat.eqb (length (a_ops a)) 0 = false /\ Z.leb (a_cpu a) 0 = false /\ Qleb (a_ram a) 0%Q = false.

Lemma mk_assignment_args_ok C w a :
  args_ok a -> mk_assignment C w a = transition_all (cf_static C) w (a_ops a) Assigned.
Proof. intros [A [B D]]. unfold mk_assignment. rewrite A, B, D. reflexivity. Qed.

Lemma mk_assignment_err C w a e :
  mk_assignment C w a = Err e -> e = EBadAssignArgs \/ (args_ok a /\ e = ETransition).
Proof.
  unfold mk_assignment, args_ok. intros H.
  destruct (Nat.eqb (length (a_ops a)) 0); [inversion H; auto|].
  destruct (Z.leb (a_cpu a) 0); [inversion H; auto|].
  destruct (Qleb (a_ram a) 0); [inversion H; auto|].
  right. split; [auto|]. eapply transition_all_assigned_err; eauto.
Qed.

(* an operator that is Assigned, Running, Suspending or Completed *)
Definition held (a : ostate) : Prop :=
  a = Assigned \/ a = Running \/ a = Suspending \/ a = Completed.

Lemma held_not_assignable a : held a <-> assignable a = false.
Proof.
  unfold held. destruct a; cbn; split; intros H; try discriminate; try reflexivity; auto;
    repeat (destruct H as [H|H]; try discriminate H); try discriminate H.
Qed.

Theorem no_reassign_held C w a o :
  In o (a_ops a) -> held (st_of w o) -> exists e, mk_assignment C w a = Err e.
Proof.
  intros Hin Hh. apply held_not_assignable in Hh.
  unfold mk_assignment.
  destruct (Nat.eqb (length (a_ops a)) 0); [eauto|].
  destruct (Z.leb (a_cpu a) 0); [eauto|].
  destruct (Qleb (a_ram a) 0); [eauto|].
  eapply transition_all_blocked; eauto.
Qed.

Corollary no_reassign_completed C w a o :
  In o (a_ops a) -> st_of w o = Completed -> exists e, mk_assignment C w a = Err e.
Proof. intros Hin Hc. eapply no_reassign_held; eauto. unfold held. auto. Qed.

(* exact error: the three argument assertions pass; the operator is held (in the world the
   scheduler sees) and the operators listed before it are accepted *)
Theorem no_reassign_held_exact C w a l1 o l2 w1 :
  args_ok a -> a_ops a = l1 ++ o :: l2 ->
  transition_all (cf_static C) w l1 Assigned = Ok w1 ->
  held (st_of w o) -> mk_assignment C w a = Err ETransition.
Proof.
  intros A E T Hh. apply held_not_assignable in Hh.
  rewrite (mk_assignment_args_ok _ _ _ A), E.
  rewrite (transition_all_app _ _ _ _ _ _ T).
  assert (V1 : valid (st_of w1 o) Assigned = false).
  { destruct (in_dec Nat.eq_dec o l1) as [Hi|Hn].
    - destruct (transition_all_blocked (cf_static C) Assigned o l1 w Hi Hh eq_refl) as [e He].
      congruence.
    - clear E A. revert w w1 T Hh. induction l1 as [|h t IH]; intros w w1 T Hh.
      + cbn in T. inversion T; subst. exact Hh.
      + cbn [transition_all] in T. unfold bind in T.
        destruct (transition (cf_static C) w h Assigned) as [wa|e] eqn:Th; [|discriminate].
        apply (IH (fun H => Hn (or_intror H)) wa w1 T).
        assert (N : o <> h) by (intros ->; apply Hn; left; reflexivity).
        unfold assignable. rewrite (transition_st_other _ _ _ _ _ _ Th N). exact Hh. }
  cbn [transition_all]. unfold bind.
  destruct (transition (cf_static C) w1 o Assigned) as [wa|e] eqn:To.
  - apply transition_ok in To. destruct To as [V _]. congruence.
  - f_equal. eapply transition_assigned_err; eauto.
Qed.

(* the whole scheduler phase, hence the whole step, is refused *)
Lemma mk_assignments_blocked C o : forall asgs w a,
  In a asgs -> In o (a_ops a) -> held (st_of w o) -> exists e, mk_assignments C w asgs = Err e.
Proof.
  induction asgs as [|a0 t IH]; intros w a Ha Ho Hh; [contradiction|].
  cbn [mk_assignments]. unfold bind.
  destruct (mk_assignment C w a0) as [w1|e] eqn:E; [|eauto].
  destruct Ha as [->|Ha].
  - destruct (no_reassign_held C w a o Ho Hh) as [e He]. congruence.
  - apply (IH w1 a Ha Ho).
    (* held is kept by accepted requests for Assigned on other operators; on [o] itself they are refused *)
    unfold mk_assignment in E.
    destruct (Nat.eqb (length (a_ops a0)) 0); [discriminate|].
    destruct (Z.leb (a_cpu a0) 0); [discriminate|].
    destruct (Qleb (a_ram a0) 0); [discriminate|].
    destruct (in_dec Nat.eq_dec o (a_ops a0)) as [Hi|Hn].
    + apply held_not_assignable in Hh.
      destruct (transition_all_blocked (cf_static C) Assigned o _ w Hi Hh eq_refl) as [e He]. congruence.
    + revert w w1 E Hh Hn. generalize (a_ops a0) as l.
      induction l as [|h l IHl]; intros w w1 E Hh Hn.
      * cbn in E. inversion E; subst. exact Hh.
      * cbn [transition_all] in E. unfold bind in E.
        destruct (transition (cf_static C) w h Assigned) as [wa|e] eqn:Th; [|discriminate].
        apply (IHl wa w1 E); [|intros H; apply Hn; right; exact H].
        assert (N : o <> h) by (intros ->; apply Hn; left; reflexivity).
        rewrite (transition_st_other _ _ _ _ _ _ Th N). exact Hh.
Qed.

Theorem exec_step_rejects_reassign C s ss asgs a o :
  In a asgs -> In o (a_ops a) -> held (st_of (e_world s) o) ->
  exists e, exec_step C s ss asgs = Err e.
Proof.
  intros Ha Ho Hh. unfold exec_step, bind.
  destruct (mk_assignments_blocked C o asgs (e_world s) a Ha Ho Hh) as [e He].
  rewrite He. eauto.
Qed.

(* ------------------------------------------------------------------------------------------ *)
(* 5. the static description built from well-formed DAGs has irreflexive parents                *)
(* ------------------------------------------------------------------------------------------ *)

Lemma opdefs_of_length k p : length (opdefs_of k p) = length (pd_dag p).
Proof. unfold opdefs_of. apply map_length. Qed.

Lemma nth_opdefs_of k p j : j < length (pd_dag p) ->
  nth j (opdefs_of k p) dummy_op =
  {| od_pipe := k; od_parents := map (fun i => pd_first p + i) (nth j (pd_dag p) []) |}.
Proof.
  intros Hj. unfold opdefs_of.
  set (f := fun ps => {| od_pipe := k; od_parents := map (fun i => pd_first p + i) ps |}).
  rewrite (nth_indep _ dummy_op (f [])) by (rewrite map_length; exact Hj).
  exact (map_nth f (pd_dag p) [] j).
Qed.

Definition dags_wf (l : list (prio * dag)) : Prop := Forall (fun pg => wf_dag (snd pg)) l.

(* the operator at position [i] of the block that starts at global id [first] has parents in
   [first, first + i) *)
Lemma mk_ops_parents_lt : forall l first k i p,
  dags_wf l ->
  In p (od_parents (nth i (mk_ops k (mk_pipes first l)) dummy_op)) -> first <= p < first + i.
Proof.
  induction l as [|[pr g] t IH]; intros first k i p W Hp.
  - cbn in Hp. destruct i; contradiction.
  - inversion W as [|? ? Wg Wt]; subst. cbn [snd] in Wg.
    cbn [mk_pipes mk_ops] in Hp.
    destruct (Nat.lt_ge_cases i (length g)) as [Hi|Hi].
    + rewrite app_nth1 in Hp by (rewrite opdefs_of_length; exact Hi).
      rewrite nth_opdefs_of in Hp by exact Hi. cbn [od_parents mk_pdef pd_first pd_dag] in Hp.
      apply in_map_iff in Hp. destruct Hp as [q [<- Hq]].
      destruct (Wg i Hi) as [_ Hlt]. specialize (Hlt q Hq). lia.
    + rewrite app_nth2 in Hp by (rewrite opdefs_of_length; exact Hi).
      rewrite opdefs_of_length in Hp. cbn [mk_pdef pd_dag] in Hp.
      apply IH in Hp; [|exact Wt]. lia.
Qed.

Theorem mk_static_parents_lt l op p :
  dags_wf l -> In p (op_parents (mk_static l) op) -> p < op.
Proof.
  intros W Hp. unfold op_parents, mk_static in Hp. cbn [s_ops] in Hp.
  apply mk_ops_parents_lt in Hp; [lia | exact W].
Qed.

Theorem mk_static_irreflexive l : dags_wf l -> irreflexive_parents (mk_static l).
Proof.
  intros W op Hp. apply (mk_static_parents_lt l op op W) in Hp. lia.
Qed.

(* the executor theorems instantiated for configurations built by [mk_static] *)
Corollary exec_dep_inv_mk_static C l n cpu ram s :
  cf_static C = mk_static l -> dags_wf l ->
  reach_exec_r C (init_estate C n cpu ram) s -> DepInv (cf_static C) (e_world s).
Proof.
  intros E W R. apply (exec_dep_inv C n cpu ram s); [|exact R].
  rewrite E. apply mk_static_irreflexive. exact W.
Qed.

(* characterisation of the operator table of [mk_static]: operator [j] of pipeline [k] *)
Lemma mk_ops_nth : forall ps k0 k j,
  k < length ps -> j < pd_n (nth k ps dummy_pipe) ->
  nth (list_sum (map pd_n (firstn k ps)) + j) (mk_ops k0 ps) dummy_op =
  {| od_pipe := k0 + k;
     od_parents := map (fun i => pd_first (nth k ps dummy_pipe) + i)
                       (nth j (pd_dag (nth k ps dummy_pipe)) []) |}.
Proof.
  induction ps as [|p t IH]; intros k0 k j Hk Hj; [cbn in Hk; lia|].
  destruct k as [|k].
  - cbn [firstn map list_sum nth mk_ops] in *. rewrite Nat.add_0_l, Nat.add_0_r.
    rewrite app_nth1 by (rewrite opdefs_of_length; exact Hj).
    apply nth_opdefs_of. exact Hj.
  - cbn [firstn map nth mk_ops length] in *.
    change (list_sum (pd_n p :: map pd_n (firstn k t)))
      with (pd_n p + list_sum (map pd_n (firstn k t))).
    rewrite app_nth2 by (rewrite opdefs_of_length; unfold pd_n; lia).
    rewrite opdefs_of_length.
    replace (pd_n p + list_sum (map pd_n (firstn k t)) + j - length (pd_dag p))
      with (list_sum (map pd_n (firstn k t)) + j) by (unfold pd_n; lia).
    rewrite IH by (try lia; exact Hj). f_equal. lia.
Qed.

Lemma mk_pipes_length : forall l first, length (mk_pipes first l) = length l.
Proof. induction l as [|[pr g] t IH]; intros first; cbn; [reflexivity|]. rewrite IH. reflexivity. Qed.

Lemma mk_pipes_first : forall l first k, k < length l ->
  pd_first (nth k (mk_pipes first l) dummy_pipe) =
  first + list_sum (map pd_n (firstn k (mk_pipes first l))).
Proof.
  induction l as [|[pr g] t IH]; intros first k Hk; [cbn in Hk; lia|].
  destruct k as [|k]; cbn [mk_pipes nth firstn map].
  - cbn. lia.
  - rewrite IH by (cbn in Hk; lia).
    change (list_sum (pd_n (mk_pdef first pr g) :: ?l)) with (length g + list_sum l).
    lia.
Qed.

Theorem mk_static_nth l k j :
  k < length (s_pipes (mk_static l)) -> j < pd_n (pipe_of (mk_static l) k) ->
  nth (pd_first (pipe_of (mk_static l) k) + j) (s_ops (mk_static l)) dummy_op =
  {| od_pipe := k;
     od_parents := map (fun i => pd_first (pipe_of (mk_static l) k) + i)
                       (parents (pd_dag (pipe_of (mk_static l) k)) j) |}.
Proof.
  unfold pipe_of, mk_static, parents. cbn [s_pipes s_ops]. intros Hk Hj.
  assert (F : pd_first (nth k (mk_pipes 0 l) dummy_pipe) =
              list_sum (map pd_n (firstn k (mk_pipes 0 l)))).
  { rewrite mk_pipes_first by (rewrite mk_pipes_length in Hk; exact Hk). apply Nat.add_0_l. }
  replace (pd_first (nth k (mk_pipes 0 l) dummy_pipe) + j)
    with (list_sum (map pd_n (firstn k (mk_pipes 0 l))) + j) by (rewrite F; reflexivity).
  rewrite (mk_ops_nth _ 0 k j Hk Hj). reflexivity.
Qed.

(* ------------------------------------------------------------------------------------------ *)
(* 6. ownership: an operator belongs to at most one live container                              *)
(* ------------------------------------------------------------------------------------------ *)

(* operators a container still has to run *)
Definition own (c : container) : list nat :=
  if c_completed c then [] else skipn (c_opidx c) (c_ops c).
Definition owns (l : list container) : list nat := flat_map own l.
Definition pown (p : pool) : list nat := owns (p_active p) ++ owns (p_suspending p).
Definition sown (s : estate) : list nat := flat_map pown (e_pools s).
Definition aops (asgs : list asg) : list nat := flat_map a_ops asgs.

Definition busy (a : ostate) : Prop := a = Assigned \/ a = Running \/ a = Suspending.
Definition allbusy (w : world) (O : list nat) : Prop := forall o, In o O -> busy (st_of w o).

(* sub-multisets of operator lists *)
Definition cnt (x : nat) (l : list nat) : nat := count_occ Nat.eq_dec l x.
Definition msub (l' l : list nat) : Prop := forall x, cnt x l' <= cnt x l.

Lemma cnt_app x a b : cnt x (a ++ b) = cnt x a + cnt x b.
Proof. apply count_occ_app. Qed.

Lemma cnt_In x l : In x l <-> 0 < cnt x l.
Proof. unfold cnt. rewrite (count_occ_In Nat.eq_dec). lia. Qed.

Lemma msub_In l' l x : msub l' l -> In x l' -> In x l.
Proof. intros M H. apply cnt_In. apply cnt_In in H. specialize (M x). lia. Qed.

Lemma msub_NoDup l' l : msub l' l -> NoDup l -> NoDup l'.
Proof.
  intros M H. rewrite (NoDup_count_occ Nat.eq_dec) in *. intros x.
  specialize (M x). specialize (H x). unfold cnt in M. lia.
Qed.

Lemma msub_refl l : msub l l.
Proof. intros x. lia. Qed.

Lemma msub_trans a b c : msub a b -> msub b c -> msub a c.
Proof. intros H1 H2 x. specialize (H1 x). specialize (H2 x). lia. Qed.

Lemma msub_nil l : msub [] l.
Proof. intros x. cbn. lia. Qed.

Lemma msub_skipn n l : msub (skipn n l) l.
Proof. intros x. rewrite <- (firstn_skipn n l) at 2. rewrite cnt_app. lia. Qed.

Ltac msub_tac :=
  let x := fresh "x" in
  intros x;
  repeat match goal with H : msub _ _ |- _ => specialize (H x) end;
  repeat rewrite cnt_app in *; cbn [cnt count_occ] in *; lia.

Lemma allbusy_msub w l' l : msub l' l -> allbusy w l -> allbusy w l'.
Proof. intros M H o Ho. apply H. eapply msub_In; eauto. Qed.

Lemma busy_in_range w o : busy (st_of w o) -> o < length (w_st w).
Proof.
  intros B. destruct (Nat.lt_ge_cases o (length (w_st w))) as [L|L]; [exact L|].
  unfold st_of in B. rewrite nth_overflow in B by exact L.
  destruct B as [B|[B|B]]; discriminate.
Qed.

(* one piece of executor work, seen from the owner lists: ownership only shrinks, only owned
   operators change state, and owned operators stay busy *)
Definition Step (w : world) (O : list nat) (w' : world) (O' : list nat) : Prop :=
  msub O' O /\ (forall o, ~ In o O -> st_of w' o = st_of w o) /\
  (NoDup O -> allbusy w O -> allbusy w' O').

Lemma Step_refl w O : Step w O w O.
Proof. split; [apply msub_refl|]. split; auto. Qed.

Lemma Step_trans w O w1 O1 w2 O2 : Step w O w1 O1 -> Step w1 O1 w2 O2 -> Step w O w2 O2.
Proof.
  intros [M1 [F1 B1]] [M2 [F2 B2]]. split; [eapply msub_trans; eauto|]. split.
  - intros o Ho. rewrite F2, F1; auto. intros H. apply Ho. eapply msub_In; eauto.
  - intros N A. apply B2; [eapply msub_NoDup; eauto | auto].
Qed.

Lemma Step_weaken w O w' O' O'' : Step w O w' O' -> msub O'' O' -> Step w O w' O''.
Proof.
  intros [M1 [F1 B1]] M. split; [eapply msub_trans; eauto|]. split; [exact F1|].
  intros N A. eapply allbusy_msub; eauto.
Qed.

Lemma Step_source w O P w' O' : Step w O w' O' -> msub O P -> msub P O -> Step w P w' O'.
Proof.
  intros [M1 [F1 B1]] Ma Mb. split; [eapply msub_trans; eauto|]. split.
  - intros o Ho. apply F1. intros H. apply Ho. eapply msub_In; eauto.
  - intros N A. apply B1; [eapply msub_NoDup; eauto | eapply allbusy_msub; eauto].
Qed.

Lemma Step_ctx w O w' O' A B : Step w O w' O' -> Step w (A ++ O ++ B) w' (A ++ O' ++ B).
Proof.
  intros [M1 [F1 B1]]. split; [msub_tac|]. split.
  - intros o Ho. apply F1. intros H. apply Ho. rewrite !in_app_iff. auto.
  - intros N Al.
    assert (MO : msub O (A ++ O ++ B)) by msub_tac.
    assert (BO : allbusy w' O') by (apply B1; [eapply msub_NoDup; eauto | eapply allbusy_msub; eauto]).
    intros o Ho.
    destruct (in_dec Nat.eq_dec o O') as [Hi|Hn]; [apply BO; exact Hi|].
    assert (HAB : In o A \/ In o B) by (rewrite !in_app_iff in Ho; tauto).
    assert (HnO : ~ In o O).
    { intros HO. rewrite (NoDup_count_occ Nat.eq_dec) in N. specialize (N o).
      fold (cnt o (A ++ O ++ B)) in N. rewrite !cnt_app in N.
      apply cnt_In in HO. destruct HAB as [H|H]; apply cnt_In in H; lia. }
    rewrite (F1 o HnO). apply Al. rewrite !in_app_iff. tauto.
Qed.

Lemma Step_app_r w O w' O' B : Step w O w' O' -> Step w (O ++ B) w' (O' ++ B).
Proof. intros H. apply (Step_ctx _ _ _ _ [] B H). Qed.

Lemma Step_app_l w O w' O' A : Step w O w' O' -> Step w (A ++ O) w' (A ++ O').
Proof.
  intros H. pose proof (Step_ctx _ _ _ _ A [] H) as H1. rewrite !app_nil_r in H1. exact H1.
Qed.

(* what [transition_all] does to the operator states *)
Lemma transition_all_frame St l : forall w new w',
  transition_all St w l new = Ok w' -> forall o, ~ In o l -> st_of w' o = st_of w o.
Proof.
  induction l as [|h t IH]; intros w new w' H o Ho.
  - cbn in H. inversion H. reflexivity.
  - cbn [transition_all] in H. unfold bind in H.
    destruct (transition St w h new) as [w1|e] eqn:T; [|discriminate].
    rewrite (IH _ _ _ H o) by (intros Hi; apply Ho; right; exact Hi).
    eapply transition_st_other; eauto. intros ->. apply Ho. left. reflexivity.
Qed.

Lemma transition_all_set St l : forall w new w',
  transition_all St w l new = Ok w' -> forall o, In o l -> o < length (w_st w) -> st_of w' o = new.
Proof.
  induction l as [|h t IH]; intros w new w' H o Ho L; [contradiction|].
  cbn [transition_all] in H. unfold bind in H.
  destruct (transition St w h new) as [w1|e] eqn:T; [|discriminate].
  destruct (in_dec Nat.eq_dec o t) as [Hi|Hn].
  - eapply IH; eauto. rewrite (transition_length _ _ _ _ _ T). exact L.
  - destruct Ho as [->|Ho]; [|contradiction].
    rewrite (transition_all_frame _ _ _ _ _ H o Hn). eapply transition_st_same; eauto.
Qed.

Lemma Step_transition_all St w l new w' :
  transition_all St w l new = Ok w' -> busy new -> Step w l w' l.
Proof.
  intros T Bn. split; [apply msub_refl|]. split.
  - intros o Ho. eapply transition_all_frame; eauto.
  - intros _ A o Ho. rewrite (transition_all_set _ _ _ _ _ T o Ho); [exact Bn|].
    apply busy_in_range. apply A. exact Ho.
Qed.

Lemma Step_transition_all_drop St w l new w' :
  transition_all St w l new = Ok w' -> Step w l w' [].
Proof.
  intros T. split; [apply msub_nil|]. split.
  - intros o Ho. eapply transition_all_frame; eauto.
  - intros _ _ o [].
Qed.

(* ---- containers ---- *)

Lemma skipn_nth_error {A} : forall (l : list A) n x,
  nth_error l n = Some x -> skipn n l = x :: skipn (Datatypes.S n) l.
Proof.
  induction l as [|a l IH]; intros [|n] x H; cbn in H; try discriminate.
  - inversion H. reflexivity.
  - cbn [skipn]. apply IH. exact H.
Qed.

Lemma set_mem_fields C c cons m c1 cons1 : set_mem C c cons m = (c1, cons1) ->
  c_ops c1 = c_ops c /\ c_opidx c1 = c_opidx c /\ c_completed c1 = c_completed c.
Proof. unfold set_mem. intros H. inversion H. cbn. auto. Qed.

Lemma mark_completed_completed C c cons er c1 cons1 :
  mark_completed C c cons er = (c1, cons1) -> c_completed c1 = true.
Proof. unfold mark_completed, set_mem. cbv beta iota zeta. intros H. inversion H. reflexivity. Qed.

Lemma Step_touch w O w1 op :
  In op O -> (forall o, o <> op -> st_of w1 o = st_of w o) ->
  (busy (st_of w op) -> busy (st_of w1 op)) -> Step w O w1 O.
Proof.
  intros Hin F B. split; [apply msub_refl|]. split.
  - intros o Ho. apply F. intros ->. contradiction.
  - intros _ A o Ho. destruct (Nat.eq_dec o op) as [->|N]; [apply B, A; exact Ho|].
    rewrite (F o N). apply A. exact Ho.
Qed.

Lemma Step_pop w w2 op tl :
  (forall o, o <> op -> st_of w2 o = st_of w o) -> Step w (op :: tl) w2 tl.
Proof.
  intros F. split.
  - intros x. change (op :: tl) with ([op] ++ tl). rewrite cnt_app. lia.
  - split.
    + intros o Ho. apply F. intros ->. apply Ho. left. reflexivity.
    + intros N A o Ho. apply NoDup_cons_iff in N. destruct N as [N _].
      rewrite F by (intros ->; contradiction). apply A. right. exact Ho.
Qed.

Lemma ctick_own C w cons c w' cons' c' :
  ctick C w cons c = Ok (w', cons', c') -> Step w (own c) w' (own c').
Proof.
  unfold ctick. intros H.
  destruct (c_completed c) eqn:Cc. { inversion H; subst. apply Step_refl. }
  destruct (c_frozen c).
  { inversion H; subst. replace (own (tick_elapsed c)) with (own c) by reflexivity. apply Step_refl. }
  destruct (nth_error (c_ops c) (c_opidx c)) as [op|] eqn:N; [|discriminate].
  assert (Eo : own c = op :: skipn (Datatypes.S (c_opidx c)) (c_ops c)).
  { unfold own. rewrite Cc. apply skipn_nth_error. exact N. }
  unfold bind in H. dres H as [w1 rest] eqn:E1.
  assert (S1 : Step w (own c) w1 (own c)).
  { apply (Step_touch _ _ _ op).
    - rewrite Eo. left. reflexivity.
    - destruct (c_rest c); [inversion E1; subst; reflexivity|].
      dres E1 as wa eqn:T. inversion E1; subst. intros o No. eapply transition_st_other; eauto.
    - destruct (c_rest c); [inversion E1; subst; auto|].
      dres E1 as wa eqn:T. inversion E1; subst. intros B. right; left.
      eapply transition_st_same; eauto. apply busy_in_range. exact B. }
  destruct rest as [|m rest']; [discriminate|].
  destruct (set_mem C c cons m) as [c1 cons1] eqn:SM.
  destruct (set_mem_fields _ _ _ _ _ _ SM) as [O1 [I1 K1]].
  assert (Esame : forall r f cs, own (tick_elapsed (with_pos c1 (c_opidx c) r f cs)) = own c).
  { intros. unfold own. cbn [tick_elapsed with_pos c_completed c_opidx c_ops]. rewrite K1, O1.
    reflexivity. }
  destruct (Qltb (c_ram c) m). { inversion H; subst. rewrite Esame. exact S1. }
  destruct rest' as [|m2 rest2].
  - dres H as w2 eqn:T2.
    assert (S2 : Step w (own c) w2 (skipn (Datatypes.S (c_opidx c)) (c_ops c))).
    { eapply Step_trans; [exact S1|]. rewrite Eo. apply Step_pop.
      intros o No. eapply transition_st_other; eauto. }
    destruct (Nat.eqb (Datatypes.S (c_opidx c)) (length (c_ops c))).
    + destruct (mark_completed C (with_pos c1 (Datatypes.S (c_opidx c)) None false false) cons1 false)
        as [c2 cons2] eqn:MC.
      apply mark_completed_completed in MC. inversion H; subst.
      eapply Step_weaken; [exact S2|].
      replace (own (tick_elapsed c2)) with (@nil nat); [apply msub_nil|].
      unfold own. cbn [tick_elapsed c_completed]. rewrite MC. reflexivity.
    + inversion H; subst.
      replace (own (tick_elapsed (with_pos c1 (Datatypes.S (c_opidx c)) None false true)))
        with (skipn (Datatypes.S (c_opidx c)) (c_ops c)); [exact S2|].
      unfold own. cbn [tick_elapsed with_pos c_completed c_opidx c_ops]. rewrite K1, O1, Cc.
      reflexivity.
  - inversion H; subst. rewrite Esame. exact S1.
Qed.

Lemma ckill_own C w cons c w' cons' c' :
  ckill C w cons c = Ok (w', cons', c') -> Step w (own c) w' (own c') /\ own c' = [].
Proof.
  unfold ckill. intros H. destruct (c_completed c) eqn:Cc; [discriminate|].
  unfold bind in H. dres H as w1 eqn:T.
  destruct (mark_completed C c cons true) as [c2 cons2] eqn:MC.
  apply mark_completed_completed in MC. inversion H; subst.
  assert (E : own c' = []) by (unfold own; rewrite MC; reflexivity).
  split; [|exact E]. rewrite E. unfold own. rewrite Cc. eapply Step_transition_all_drop; eauto.
Qed.

Lemma csuspend_own C w c w' c' :
  csuspend C w c = Ok (w', c') -> c_completed c = false ->
  Step w (own c) w' (own c') /\ c_completed c' = false.
Proof.
  unfold csuspend. intros H Cc. unfold bind in H. dres H as w1 eqn:T. inversion H; subst.
  split; [|exact Cc].
  replace (own (with_susp c (suspend_ticks C (c_ram c)))) with (own c) by reflexivity.
  unfold own. rewrite Cc. eapply Step_transition_all; eauto. unfold busy. auto.
Qed.

Definition ownS (c : container) : list nat := if is_suspended c then [] else own c.

Lemma csuspend_tick_own C w c w' c' :
  csuspend_tick C w c = Ok (w', c') -> c_completed c = false ->
  Step w (own c) w' (ownS c') /\ c_completed c' = false.
Proof.
  unfold csuspend_tick. intros H Cc. cbv zeta in H.
  destruct (Z.eqb (c_susp_left c - 1) 0) eqn:Z0.
  - unfold bind in H. dres H as w1 eqn:T. inversion H; subst. split; [|exact Cc].
    unfold ownS, is_suspended. cbn [with_susp c_susp_left]. rewrite Z0.
    unfold own. rewrite Cc. eapply Step_transition_all_drop; eauto.
  - inversion H; subst. split; [|exact Cc].
    unfold ownS, is_suspended. cbn [with_susp c_susp_left]. rewrite Z0.
    replace (own (with_susp c (c_susp_left c - 1)%Z)) with (own c) by reflexivity.
    apply Step_refl.
Qed.

(* ---- lists of containers ---- *)

Definition ncompl (c : container) : Prop := c_completed c = false.

Lemma owns_app a b : owns (a ++ b) = owns a ++ owns b.
Proof. apply flat_map_app. Qed.

Lemma owns_cons c l : owns (c :: l) = own c ++ owns l.
Proof. reflexivity. Qed.

Lemma msub_owns_filter f l : msub (owns (filter f l)) (owns l).
Proof.
  induction l as [|c t IH]; [apply msub_refl|].
  cbn [filter]. destruct (f c); rewrite ?owns_cons; msub_tac.
Qed.

Lemma flat_map_ownS_filter l :
  flat_map ownS l = owns (filter (fun c => negb (is_suspended c)) l).
Proof.
  induction l as [|c t IH]; [reflexivity|].
  cbn [flat_map filter]. unfold ownS at 1. destruct (is_suspended c); cbn [negb].
  - exact IH.
  - rewrite owns_cons, IH. reflexivity.
Qed.

Lemma tick_suspending_own C : forall sing w w' sing',
  tick_suspending C w sing = Ok (w', sing') -> Forall ncompl sing ->
  Step w (owns sing) w' (flat_map ownS sing') /\ Forall ncompl sing'.
Proof.
  induction sing as [|c t IH]; intros w w' sing' H R.
  - cbn in H. inversion H; subst. split; [apply Step_refl|constructor].
  - cbn [tick_suspending] in H. unfold bind in H.
    inversion R as [|? ? Rc Rt]; subst.
    dres H as [w1 c1] eqn:E1. destruct (csuspend_tick_own _ _ _ _ _ E1 Rc) as [S1 K1].
    dres H as [w2 t2] eqn:E2. destruct (IH _ _ _ E2 Rt) as [S2 K2].
    inversion H; subst. split; [|constructor; auto].
    rewrite owns_cons. cbn [flat_map].
    eapply Step_trans; [apply Step_app_r; exact S1 | apply Step_app_l; exact S2].
Qed.

Lemma tick_active_own C : forall act w cons w' cons' act',
  tick_active C w cons act = Ok (w', cons', act') -> Step w (owns act) w' (owns act').
Proof.
  induction act as [|c t IH]; intros w cons w' cons' act' H.
  - cbn in H. inversion H; subst. apply Step_refl.
  - cbn [tick_active] in H. unfold bind in H.
    dres H as [[w1 cons1] c1] eqn:E1. pose proof (ctick_own _ _ _ _ _ _ _ E1) as S1.
    dres H as [[w2 cons2] t2] eqn:E2. pose proof (IH _ _ _ _ _ E2) as S2.
    inversion H; subst. rewrite !owns_cons.
    eapply Step_trans; [apply Step_app_r; exact S1 | apply Step_app_l; exact S2].
Qed.

Lemma kill_over_limit_own C : forall act w cons w' cons' act',
  kill_over_limit C w cons act = Ok (w', cons', act') -> Step w (owns act) w' (owns act').
Proof.
  induction act as [|c t IH]; intros w cons w' cons' act' H.
  - cbn in H. inversion H; subst. apply Step_refl.
  - cbn [kill_over_limit] in H. unfold bind in H.
    dres H as [[w1 cons1] c1] eqn:E1.
    assert (S1 : Step w (own c) w1 (own c1)).
    { destruct (Qltb (c_ram c) (c_mem c)).
      - apply ckill_own in E1. tauto.
      - inversion E1; subst. apply Step_refl. }
    dres H as [[w2 cons2] t2] eqn:E2. pose proof (IH _ _ _ _ _ E2) as S2.
    inversion H; subst. rewrite !owns_cons.
    eapply Step_trans; [apply Step_app_r; exact S1 | apply Step_app_l; exact S2].
Qed.

Lemma find_container_split cid : forall l c,
  find_container cid l = Some c ->
  exists l1 l2, l = l1 ++ c :: l2 /\ c_id c = cid /\
                Forall (fun x => Nat.eqb (c_id x) cid = false) l1.
Proof.
  induction l as [|h t IH]; intros c F; [discriminate|].
  unfold find_container in F. cbn [find] in F.
  destruct (Nat.eqb (c_id h) cid) eqn:E.
  - inversion F; subst. exists [], t. split; [reflexivity|].
    split; [apply Nat.eqb_eq; exact E | constructor].
  - destruct (IH c F) as [l1 [l2 [-> [I N]]]]. exists (h :: l1), l2.
    split; [reflexivity|]. split; [exact I | constructor; auto].
Qed.

Lemma replace_container_split c' c : forall l1 l2,
  Forall (fun x => Nat.eqb (c_id x) (c_id c') = false) l1 -> c_id c = c_id c' ->
  replace_container c' (l1 ++ c :: l2) = l1 ++ c' :: l2.
Proof.
  induction l1 as [|h t IH]; intros l2 N I.
  - cbn [app replace_container]. rewrite I, Nat.eqb_refl. reflexivity.
  - inversion N as [|? ? Nh Nt]; subst. cbn [app replace_container]. rewrite Nh.
    f_equal. apply IH; auto.
Qed.

Lemma kill_until_fits_own C mx : forall order act w cons w' cons' act',
  kill_until_fits C mx w cons act order = Ok (w', cons', act') -> Step w (owns act) w' (owns act').
Proof.
  induction order as [|cid t IH]; intros act w cons w' cons' act' H.
  - cbn in H. inversion H; subst. apply Step_refl.
  - cbn [kill_until_fits] in H.
    destruct (Qleb cons mx). { inversion H; subst. apply Step_refl. }
    destruct (find_container cid act) as [c|] eqn:F; [|discriminate].
    unfold bind in H. dres H as [[w1 cons1] c1] eqn:E1.
    destruct (find_container_split _ _ _ F) as [l1 [l2 [-> [I N]]]].
    pose proof (ckill_id _ _ _ _ _ _ _ E1) as I1.
    destruct (ckill_own _ _ _ _ _ _ _ E1) as [S1 _].
    rewrite (replace_container_split c1 c l1 l2) in H by (rewrite ?I1, ?I; auto).
    apply IH in H. eapply Step_trans; [|exact H].
    rewrite !owns_app, !owns_cons. apply Step_ctx. exact S1.
Qed.

Lemma oom_killer_own C mx w cons act w' cons' act' :
  oom_killer C mx w cons act = Ok (w', cons', act') -> Step w (owns act) w' (owns act').
Proof.
  unfold oom_killer. intros H. unfold bind in H.
  dres H as [[w1 cons1] act1] eqn:E1. apply kill_over_limit_own in E1.
  destruct (Qleb cons1 mx). { inversion H; subst. exact E1. }
  apply kill_until_fits_own in H. eapply Step_trans; eauto.
Qed.

Lemma apply_suspends_own C : forall ss w act sing w' act' sing',
  apply_suspends C w act sing ss = Ok (w', act', sing') ->
  Forall ncompl act -> Forall ncompl sing ->
  Step w (owns act ++ owns sing) w' (owns act' ++ owns sing')
  /\ Forall ncompl act' /\ Forall ncompl sing'.
Proof.
  induction ss as [|s t IH]; intros w act sing w' act' sing' H RA RS.
  - cbn in H. inversion H; subst. split; [apply Step_refl|auto].
  - cbn [apply_suspends] in H.
    destruct (find_container (su_cid s) act) as [c|] eqn:F; [|discriminate].
    unfold bind in H. dres H as [w1 c1] eqn:E1.
    destruct (find_container_split _ _ _ F) as [l1 [l2 [-> [I N]]]].
    assert (Rc : ncompl c).
    { rewrite Forall_forall in RA. apply RA. apply in_app_iff. right. left. reflexivity. }
    destruct (csuspend_own _ _ _ _ _ E1 Rc) as [S1 K1].
    assert (RA' : Forall ncompl (remove_container (su_cid s) (l1 ++ c :: l2))).
    { unfold remove_container. apply Forall_filter_keep. exact RA. }
    assert (RS' : Forall ncompl (sing ++ [c1])).
    { apply Forall_app. split; [exact RS|]. constructor; [exact K1|constructor]. }
    destruct (IH _ _ _ _ _ _ H RA' RS') as [S2 [A2 B2]].
    split; [|auto]. eapply Step_trans; [|exact S2].
    (* ownership of [c] moves from the active list to the suspending list *)
    assert (Sc : Step w ((owns l1 ++ own c ++ owns l2) ++ owns sing) w1
                        ((owns l1 ++ own c1 ++ owns l2) ++ owns sing)).
    { apply Step_app_r. apply Step_ctx. exact S1. }
    rewrite !owns_app, !owns_cons. eapply Step_weaken; [exact Sc|].
    unfold remove_container. rewrite filter_app. cbn [filter]. rewrite I, Nat.eqb_refl. cbn [negb].
    rewrite !owns_app. cbn [owns flat_map]. rewrite app_nil_r.
    pose proof (msub_owns_filter (fun c0 => negb (Nat.eqb (c_id c0) (su_cid s))) l1) as M1.
    pose proof (msub_owns_filter (fun c0 => negb (Nat.eqb (c_id c0) (su_cid s))) l2) as M2.
    msub_tac.
Qed.

Lemma apply_assignments_owns C : forall asgs next acpu aram act next' acpu' aram' act',
  apply_assignments C next acpu aram act asgs = Ok (next', acpu', aram', act') ->
  owns act' = owns act ++ aops asgs.
Proof.
  induction asgs as [|a t IH]; intros next acpu aram act next' acpu' aram' act' H.
  - cbn in H. inversion H; subst. cbn. rewrite app_nil_r. reflexivity.
  - cbn [apply_assignments] in H. destruct (opcount_ok C a); [|discriminate].
    apply IH in H. rewrite H, owns_app. cbn [owns flat_map aops].
    replace (own (new_container next (a_ops a) (a_cpu a) (a_ram a) (a_prio a))) with (a_ops a)
      by reflexivity.
    rewrite app_nil_r, app_assoc. reflexivity.
Qed.

(* ---- one pool ---- *)

Definition pool_live (p : pool) : Prop :=
  Forall ncompl (p_active p) /\ Forall ncompl (p_suspending p).

Lemma Forall_ncompl_filter l : Forall ncompl (filter (fun c => negb (c_completed c)) l).
Proof.
  apply Forall_forall. intros c Hc. apply filter_In in Hc. destruct Hc as [_ Hc].
  unfold ncompl. destruct (c_completed c); [discriminate|reflexivity].
Qed.

Lemma pool_tick_own C w next p ss asgs w' next' p' res :
  pool_tick C w next p ss asgs = Ok (w', next', p', res) -> pool_live p ->
  Step w (pown p ++ aops asgs) w' (pown p') /\ pool_live p' /\ p_id p' = p_id p.
Proof.
  unfold pool_tick. intros H [PA PS]. unfold bind in H.
  dres H as [[[w1 act1] sing1] cons1] eqn:E1.
  assert (P1 : Step w (owns (p_active p) ++ owns (p_suspending p)) w1 (owns act1 ++ owns sing1)
               /\ Forall ncompl act1 /\ Forall ncompl sing1).
  { destruct ss as [|s0 ss'].
    - inversion E1; subst. split; [apply Step_refl|auto].
    - dres E1 as u eqn:V. dres E1 as [[wa acta] singa] eqn:A. inversion E1; subst.
      eapply apply_suspends_own; eauto. }
  destruct P1 as [S1 [A1 B1]].
  dres H as [[[next2 acpu2] aram2] act2] eqn:E2.
  assert (A2 : owns act2 = owns act1 ++ aops asgs).
  { destruct asgs as [|a0 asgs'].
    - inversion E2; subst. cbn. rewrite app_nil_r. reflexivity.
    - dres E2 as u eqn:V. eapply apply_assignments_owns; eauto. }
  dres H as [w3 sing3] eqn:E3.
  destruct (tick_suspending_own _ _ _ _ _ E3 B1) as [S3 K3].
  rewrite flat_map_ownS_filter in S3.
  dres H as [[w4 cons4] act4] eqn:E4. apply tick_active_own in E4.
  dres H as [[w5 cons5] act5] eqn:E5. apply oom_killer_own in E5.
  inversion H; subst. unfold pown, pool_live, upd_pool. cbn [p_active p_suspending p_id].
  split; [|split; [split; [apply Forall_ncompl_filter | apply Forall_filter_keep; exact K3]
                  | reflexivity]].
  set (sg := owns (filter (fun c => negb (is_suspended c)) sing3)) in *.
  (* suspensions *)
  apply (Step_trans _ _ w1 ((owns act1 ++ owns sing1) ++ aops asgs)); [apply Step_app_r; exact S1|].
  (* suspending containers; the new containers take over the assignments' operators *)
  apply (Step_trans _ _ w3 (owns act2 ++ sg)).
  { apply (Step_ctx _ _ _ _ (owns act1) (aops asgs)) in S3.
    eapply Step_weaken; [eapply Step_source; [exact S3 | msub_tac | msub_tac]|].
    rewrite A2. msub_tac. }
  (* active containers, OOM killer, harvest *)
  eapply Step_weaken.
  - apply Step_app_r. eapply Step_trans; [exact E4|exact E5].
  - pose proof (msub_owns_filter (fun c => negb (c_completed c)) act5) as M. msub_tac.
Qed.

(* ---- all pools ---- *)

Definition mine (p : pool) (asgs : list asg) : list asg :=
  filter (fun a => Z.eqb (a_pool a) (Z.of_nat (p_id p))) asgs.

Lemma pools_tick_own C ss asgs : forall ps w next w' next' ps' res,
  pools_tick C w next ps ss asgs = Ok (w', next', ps', res) -> Forall pool_live ps ->
  Step w (flat_map (fun p => pown p ++ aops (mine p asgs)) ps) w' (flat_map pown ps')
  /\ Forall pool_live ps' /\ map p_id ps' = map p_id ps.
Proof.
  induction ps as [|p t IH]; intros w next w' next' ps' res H R.
  - cbn in H. inversion H; subst. split; [apply Step_refl|split; [constructor|reflexivity]].
  - cbn [pools_tick] in H. cbv zeta in H. unfold bind in H.
    inversion R as [|? ? Rp Rt]; subst.
    dres H as [[[w1 next1] p1] res1] eqn:E1.
    destruct (pool_tick_own _ _ _ _ _ _ _ _ _ _ E1 Rp) as [S1 [L1 I1]].
    dres H as [[[w2 next2] t2] res2] eqn:E2.
    destruct (IH _ _ _ _ _ _ E2 Rt) as [S2 [L2 I2]].
    inversion H; subst. cbn [flat_map map].
    split; [|split; [constructor; auto | rewrite I1, I2; reflexivity]].
    eapply Step_trans; [apply Step_app_r; exact S1 | apply Step_app_l; exact S2].
Qed.

(* every assignment is handed to at most one pool when pool ids are distinct *)
Lemma cnt_aops_partition f x : forall l,
  cnt x (aops (filter f l)) + cnt x (aops (filter (fun a => negb (f a)) l)) = cnt x (aops l).
Proof.
  induction l as [|a t IH]; [reflexivity|].
  cbn [filter]. destruct (f a); cbn [negb aops flat_map]; rewrite ?cnt_app;
    fold (aops (filter f t)); fold (aops (filter (fun a => negb (f a)) t)); fold (aops t); lia.
Qed.

Lemma filter_filter_absorb {A} (f g : A -> bool) : forall l,
  (forall a, f a = true -> g a = true) -> filter f (filter g l) = filter f l.
Proof.
  induction l as [|a t IH]; intros Hfg; [reflexivity|].
  cbn [filter]. destruct (g a) eqn:G.
  - cbn [filter]. rewrite IH by exact Hfg. reflexivity.
  - destruct (f a) eqn:F; [rewrite (Hfg a F) in G; discriminate|]. apply IH. exact Hfg.
Qed.

Lemma pending_msub : forall ps asgs,
  NoDup (map p_id ps) ->
  msub (flat_map (fun p => pown p ++ aops (mine p asgs)) ps) (flat_map pown ps ++ aops asgs).
Proof.
  induction ps as [|p t IH]; intros asgs N.
  - cbn. apply msub_nil.
  - cbn [map] in N. apply NoDup_cons_iff in N. destruct N as [Np Nt].
    set (sel := fun a => Z.eqb (a_pool a) (Z.of_nat (p_id p))).
    assert (E : flat_map (fun p0 => pown p0 ++ aops (mine p0 asgs)) t =
                flat_map (fun p0 => pown p0 ++ aops (mine p0 (filter (fun a => negb (sel a)) asgs))) t).
    { assert (Hin : forall p0, In p0 t -> p_id p0 <> p_id p).
      { intros p0 H0 E0. apply Np. rewrite <- E0. apply in_map. exact H0. }
      clear IH Nt Np. induction t as [|q t IHt]; [reflexivity|].
      cbn [flat_map]. rewrite IHt by (intros p0 H0; apply Hin; right; exact H0).
      f_equal. f_equal. f_equal. unfold mine. symmetry. apply filter_filter_absorb.
      intros a Ha. unfold sel. apply Z.eqb_eq in Ha.
      destruct (Z.eqb (a_pool a) (Z.of_nat (p_id p))) eqn:Eb; [|reflexivity].
      apply Z.eqb_eq in Eb. exfalso. apply (Hin q); [left; reflexivity|].
      apply Nat2Z.inj. congruence. }
    cbn [flat_map]. rewrite E.
    pose proof (IH (filter (fun a => negb (sel a)) asgs) Nt) as M.
    intros x. specialize (M x). pose proof (cnt_aops_partition sel x asgs) as Pt.
    unfold mine at 1. fold sel. rewrite !cnt_app in *. lia.
Qed.

Lemma NoDup_app_intro_nat (l1 l2 : list nat) :
  NoDup l1 -> NoDup l2 -> (forall x, In x l1 -> In x l2 -> False) -> NoDup (l1 ++ l2).
Proof.
  induction l1 as [|a l1 IH]; cbn [app]; intros H1 H2 Hd; [exact H2|].
  inversion H1 as [|? ? Hn H1']; subst. constructor.
  - rewrite in_app_iff. intros [H|H]; [contradiction | apply (Hd a); [left; reflexivity | exact H]].
  - apply IH; [exact H1' | exact H2 | intros x Hx; apply Hd; right; exact Hx].
Qed.

(* ---- the scheduler phase ---- *)

Definition Good (w : world) (O : list nat) : Prop := NoDup O /\ allbusy w O.

Lemma busy_not_assignable a : busy a -> valid a Assigned = false.
Proof. intros [->|[->| ->]]; reflexivity. Qed.

Lemma transition_all_assigned_good St : forall l w w' O,
  transition_all St w l Assigned = Ok w' -> ops_in_range St l -> wlen St w ->
  Good w O -> Good w' (O ++ l).
Proof.
  induction l as [|h t IH]; intros w w' O H R L G.
  - cbn in H. inversion H; subst. rewrite app_nil_r. exact G.
  - cbn [transition_all] in H. unfold bind in H.
    destruct (transition St w h Assigned) as [w1|e] eqn:T; [|discriminate].
    inversion R as [|? ? Rh Rt]; subst.
    assert (Lh : h < length (w_st w)) by (unfold wlen in L; rewrite L; exact Rh).
    assert (L1 : wlen St w1).
    { unfold wlen in *. rewrite (transition_length _ _ _ _ _ T). exact L. }
    destruct G as [N A].
    assert (Hn : ~ In h O).
    { intros Hi. apply A in Hi. apply busy_not_assignable in Hi.
      apply transition_ok in T. destruct T as [V _]. congruence. }
    assert (G1 : Good w1 (O ++ [h])).
    { split.
      - apply NoDup_app_intro_nat; [exact N | constructor; [intros []|constructor] | ].
        intros x Hx [<-|[]]. contradiction.
      - intros o Ho. apply in_app_iff in Ho. destruct Ho as [Ho|[<-|[]]].
        + rewrite (transition_st_other _ _ _ _ _ _ T) by (intros ->; contradiction).
          apply A. exact Ho.
        + rewrite (transition_st_same _ _ _ _ _ T Lh). unfold busy. auto. }
    replace (O ++ h :: t) with ((O ++ [h]) ++ t) by (rewrite <- app_assoc; reflexivity).
    eapply IH; eauto.
Qed.

Lemma mk_assignments_good C : forall asgs w w' O,
  mk_assignments C w asgs = Ok w' ->
  (forall a, In a asgs -> ops_in_range (cf_static C) (a_ops a)) -> wlen (cf_static C) w ->
  Good w O -> Good w' (O ++ aops asgs).
Proof.
  induction asgs as [|a t IH]; intros w w' O H RA L G.
  - cbn in H. inversion H; subst. cbn. rewrite app_nil_r. exact G.
  - cbn [mk_assignments] in H. unfold bind in H. dres H as w1 eqn:E1.
    assert (Ra : ops_in_range (cf_static C) (a_ops a)) by (apply RA; left; reflexivity).
    pose proof (mk_assignment_steps_in _ _ _ _ E1 Ra L) as S1.
    unfold mk_assignment in E1.
    destruct (Nat.eqb (length (a_ops a)) 0); [discriminate|].
    destruct (Z.leb (a_cpu a) 0); [discriminate|].
    destruct (Qleb (a_ram a) 0); [discriminate|].
    pose proof (transition_all_assigned_good _ _ _ _ _ E1 Ra L G) as G1.
    cbn [aops flat_map]. rewrite app_assoc.
    eapply IH; [exact H | intros a' Ha'; apply RA; right; exact Ha' | | exact G1].
    eapply steps_in_wlen; eauto.
Qed.

(* ---- the executor ---- *)

Definition own_inv (s : estate) : Prop :=
  NoDup (map p_id (e_pools s)) /\ Forall pool_live (e_pools s) /\ Good (e_world s) (sown s).

Theorem exec_step_own_inv C s ss asgs s' res :
  exec_step C s ss asgs = Ok (s', res) -> inv C s ->
  (forall a, In a asgs -> ops_in_range (cf_static C) (a_ops a)) ->
  own_inv s -> own_inv s'.
Proof.
  unfold exec_step. intros H [L R] RA [NI [PL G]]. unfold bind in H. dres H as w1 eqn:E1.
  pose proof (mk_assignments_good _ _ _ _ _ E1 RA L G) as G1.
  unfold exec_tick in H. cbv zeta in H. cbn [e_world e_pools e_next] in H.
  match type of H with (if ?b then _ else _) = _ => destruct b end; [discriminate|].
  unfold bind in H. dres H as [[[w2 next2] ps2] res2] eqn:E2.
  destruct (pools_tick_own _ _ _ _ _ _ _ _ _ _ E2 PL) as [[M [F B]] [PL2 I2]].
  inversion H; subst. unfold own_inv, sown. cbn [e_world e_pools].
  split; [rewrite I2; exact NI|]. split; [exact PL2|].
  pose proof (pending_msub (e_pools s) asgs NI) as MP. fold (sown s) in MP.
  destruct G1 as [N1 A1]. split.
  - eapply msub_NoDup; [|exact N1]. eapply msub_trans; eauto.
  - apply B; [eapply msub_NoDup; eauto | eapply allbusy_msub; eauto].
Qed.

Lemma own_inv_init C n cpu ram : own_inv (init_estate C n cpu ram).
Proof.
  unfold own_inv, init_estate, sown. cbn [e_world e_pools]. split; [|split].
  - rewrite map_map. cbn [new_pool p_id]. rewrite map_id. apply seq_NoDup.
  - apply Forall_forall. intros p Hp. apply in_map_iff in Hp. destruct Hp as [i [<- _]].
    split; constructor.
  - assert (E : flat_map pown (map (fun i => new_pool i cpu ram) (seq 0 n)) = []).
    { induction (seq 0 n) as [|i t IH]; [reflexivity|]. cbn [map flat_map]. rewrite IH. reflexivity. }
    rewrite E. split; [constructor | intros o []].
Qed.

Theorem reach_own_inv C n cpu ram s :
  reach_exec_r C (init_estate C n cpu ram) s -> own_inv s.
Proof.
  intros R. induction R as [|s ss asgs s' res R IH RA E].
  - apply own_inv_init.
  - eapply exec_step_own_inv; [exact E | | exact RA | exact IH].
    eapply reach_inv; eauto.
Qed.

(* the operators still to be run by all live containers (active and suspending, over all pools)
   form a duplicate-free list: no operator is owned twice, neither by two containers nor twice by
   one *)
Theorem unique_owner C n cpu ram s :
  reach_exec_r C (init_estate C n cpu ram) s -> NoDup (sown s).
Proof. intros R. destruct (reach_own_inv _ _ _ _ _ R) as [_ [_ [N _]]]. exact N. Qed.

(* every owned operator is Assigned, Running or Suspending; in particular a Completed (or
   Pending, or Failed) operator is in no live container's remaining list *)
Theorem owned_busy C n cpu ram s o :
  reach_exec_r C (init_estate C n cpu ram) s -> In o (sown s) -> busy (st_of (e_world s) o).
Proof. intros R. destruct (reach_own_inv _ _ _ _ _ R) as [_ [_ [_ A]]]. apply A. Qed.

Corollary completed_not_owned C n cpu ram s o :
  reach_exec_r C (init_estate C n cpu ram) s -> st_of (e_world s) o = Completed -> ~ In o (sown s).
Proof.
  intros R Hc Hi. apply (owned_busy _ _ _ _ _ _ R) in Hi. rewrite Hc in Hi.
  destruct Hi as [Hi|[Hi|Hi]]; discriminate.
Qed.

(* no container in a pool's lists is completed between ticks, so [own] is the plain suffix there *)
Theorem reach_pool_live C n cpu ram s p c :
  reach_exec_r C (init_estate C n cpu ram) s -> In p (e_pools s) ->
  In c (p_active p ++ p_suspending p) ->
  c_completed c = false /\ own c = skipn (c_opidx c) (c_ops c).
Proof.
  intros R Hp Hc. destruct (reach_own_inv _ _ _ _ _ R) as [_ [PL _]].
  rewrite Forall_forall in PL. destruct (PL p Hp) as [A B]. rewrite Forall_forall in A, B.
  assert (K : c_completed c = false) by (apply in_app_iff in Hc; destruct Hc; [apply A|apply B]; auto).
  split; [exact K|]. unfold own. rewrite K. reflexivity.
Qed.

(* readable forms of [NoDup (flat_map f l)] *)
Lemma NoDup_flat_map_each {A} (f : A -> list nat) l a :
  NoDup (flat_map f l) -> In a l -> NoDup (f a).
Proof.
  intros N Ha. apply in_split in Ha. destruct Ha as [l1 [l2 ->]].
  rewrite flat_map_app in N. cbn [flat_map] in N.
  eapply msub_NoDup; [|exact N]. msub_tac.
Qed.

Lemma NoDup_flat_map_disjoint {A} (f : A -> list nat) l1 a l2 b l3 x :
  NoDup (flat_map f (l1 ++ a :: l2 ++ b :: l3)) -> In x (f a) -> In x (f b) -> False.
Proof.
  intros N Ha Hb. rewrite flat_map_app in N. cbn [flat_map] in N.
  rewrite flat_map_app in N. cbn [flat_map] in N.
  rewrite (NoDup_count_occ Nat.eq_dec) in N. specialize (N x). fold (cnt x) in N.
  change (count_occ Nat.eq_dec ?l x) with (cnt x l) in N.
  rewrite !cnt_app in N. apply cnt_In in Ha. apply cnt_In in Hb. lia.
Qed.

(* all live containers of a state, pool by pool: active ones, then suspending ones *)
Definition live_containers (s : estate) : list container :=
  flat_map (fun p => p_active p ++ p_suspending p) (e_pools s).

Lemma sown_live s : sown s = owns (live_containers s).
Proof.
  unfold sown, live_containers, pown. induction (e_pools s) as [|p t IH]; [reflexivity|].
  cbn [flat_map]. rewrite owns_app, owns_app, IH. reflexivity.
Qed.

(* two different positions of the list of live containers never share an operator, and the
   remaining list of one container has no duplicates *)
Theorem unique_owner_pairwise C n cpu ram s l1 c1 l2 c2 l3 o :
  reach_exec_r C (init_estate C n cpu ram) s ->
  live_containers s = l1 ++ c1 :: l2 ++ c2 :: l3 ->
  In o (own c1) -> In o (own c2) -> False.
Proof.
  intros R E H1 H2. pose proof (unique_owner _ _ _ _ _ R) as N.
  rewrite sown_live, E in N. unfold owns in N. eapply NoDup_flat_map_disjoint; eauto.
Qed.

Theorem unique_owner_each C n cpu ram s c :
  reach_exec_r C (init_estate C n cpu ram) s -> In c (live_containers s) -> NoDup (own c).
Proof.
  intros R Hc. pose proof (unique_owner _ _ _ _ _ R) as N. rewrite sown_live in N.
  eapply NoDup_flat_map_each; eauto.
Qed.

(* a container about to start an operator with an unfinished parent: the tick is refused *)
Theorem ctick_bad_start_rejected C w cons c op p :
  c_completed c = false -> c_frozen c = false ->
  nth_error (c_ops c) (c_opidx c) = Some op -> c_rest c = None ->
  In p (op_parents (cf_static C) op) -> st_of w p <> Completed ->
  exists e, ctick C w cons c = Err e.
Proof.
  intros Cc Cf N Cr Hp Hn. unfold ctick. rewrite Cc, Cf, N, Cr. unfold bind.
  destruct (bad_start_rejected (cf_static C) w op p Hp Hn) as [e He]. rewrite He. eauto.
Qed.

Theorem ctick_bad_start_rejected_dep C w cons c op p :
  c_completed c = false -> c_frozen c = false ->
  nth_error (c_ops c) (c_opidx c) = Some op -> c_rest c = None ->
  st_of w op = Assigned -> In p (op_parents (cf_static C) op) -> st_of w p <> Completed ->
  ctick C w cons c = Err EDep.
Proof.
  intros Cc Cf N Cr Ha Hp Hn. unfold ctick. rewrite Cc, Cf, N, Cr. unfold bind.
  rewrite (bad_start_rejected_dep (cf_static C) w op p Ha Hp Hn). reflexivity.
Qed.

(* ------------------------------------------------------------------------------------------ *)

