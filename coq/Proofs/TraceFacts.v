(* Facts about Model/Trace.v (trace replay, C13).
   A. structure, for an arbitrary [key] (= get_next_batch_tick as a function of the arrival), hence for
      every rounding function: the deliveries, concatenated, are a prefix 0,1,..,m-1 of the file.
   B. for a monotone [key] and arrivals in ascending order: pipeline i is handed out in tick
      max start (ceil (key a_i)), the first tick >= start whose number is >= key a_i.
   C. the exact specification (rnd = identity): tick ceil(a_i * tps); D. gentrace round trip, exact.
   E. the float text of the code, abstract rounding with relative error 2^-53 (and rnd64).
   F. witnesses on the rnd64-faithful model. *)
From Coq Require Import ZArith QArith Qabs Qround List Bool Arith Lia Lqa Psatz Sorting.Sorted.
From Eudoxia Require Import Num.Rnd64 Model.Trace Proofs.Rnd64Facts Proofs.TimingFacts.
Import ListNotations.
Close Scope Q_scope.
Close Scope Z_scope.

(* ---------------------------------------------------------------- A. structure *)

Lemma group_concat l : concat (group l) = l.
Proof.
  induction l as [|x t IH]; simpl; [reflexivity|].
  destruct (group t) as [|[|y b] r]; simpl in *.
  - rewrite <- IH. reflexivity.
  - rewrite <- IH. reflexivity.
  - destruct (Qeq_bool (snd x) (snd y)); simpl; rewrite <- IH; reflexivity.
Qed.

Definition ready (key : Q -> Q) (cur : Z) (b : list item) : bool :=
  Qle_bool (key (batch_arrival b)) (inject_Z cur).

Lemma take_ready_app key cur bs : forall d r, take_ready key cur bs = (d, r) ->
  exists p, bs = p ++ r /\ d = concat p /\ Forall (fun b => ready key cur b = true) p /\
            match r with [] => True | b :: _ => ready key cur b = false end.
Proof.
  induction bs as [|b bs IH]; simpl; intros d r E.
  - inversion E; subst. exists []. repeat split; constructor.
  - fold (ready key cur b) in E. destruct (ready key cur b) eqn:Hb.
    + destruct (take_ready key cur bs) as [d' r'] eqn:E'. inversion E; subst.
      destruct (IH _ _ eq_refl) as (p & H1 & H2 & H3 & H4).
      exists (b :: p). subst. repeat split; simpl; auto.
    + inversion E; subst. exists []. repeat split; simpl; auto.
Qed.

Lemma replay_from_concat key n : forall cur bs,
  exists r, concat (replay_from key cur bs n) ++ concat r = concat bs.
Proof.
  induction n as [|n IH]; intros cur bs; simpl.
  - exists bs. reflexivity.
  - destruct (take_ready key cur bs) as [d r] eqn:E.
    apply take_ready_app in E. destruct E as (p & H1 & H2 & _ & _).
    destruct (IH (cur + 1)%Z r) as (r' & Hr').
    exists r'. simpl. rewrite <- app_assoc, Hr', H1, H2, concat_app. reflexivity.
Qed.

Lemma map_fst_index_from l : forall i, map fst (index_from i l) = seq i (length l).
Proof. induction l as [|a t IH]; intros i; simpl; [reflexivity|]. rewrite IH. reflexivity. Qed.

Lemma prefix_seq (l1 : list nat) : forall l2 s m, l1 ++ l2 = seq s m -> l1 = seq s (length l1).
Proof.
  induction l1 as [|x l1 IH]; intros l2 s m H; simpl; [reflexivity|].
  destruct m as [|m]; simpl in H; [discriminate|]. inversion H; subst.
  f_equal. eapply IH; eassumption.
Qed.

(* exactly once, in file order, nobody skipped - whatever the tick computation does *)
Lemma replay_key_prefix key start arrs n :
  exists m, m <= length arrs /\ concat (replay_key key start arrs n) = seq 0 m.
Proof.
  unfold replay_key.
  destruct (replay_from_concat key n start (group (index_from 0 arrs))) as (r & Hr).
  rewrite group_concat in Hr.
  apply (f_equal (map fst)) in Hr. rewrite map_app, map_fst_index_from in Hr.
  rewrite concat_map in Hr.
  pose proof (prefix_seq _ _ _ _ Hr) as Hp.
  exists (length (concat (map (map fst) (replay_from key start (group (index_from 0 arrs)) n)))).
  split; [|exact Hp].
  apply (f_equal (@length nat)) in Hr. rewrite app_length, seq_length in Hr. rewrite <- Hr. apply Nat.le_add_r.
Qed.

Lemma replay_prefix rnd tps arrs n :
  exists m, m <= length arrs /\ concat (replay rnd tps arrs n) = seq 0 m.
Proof. apply replay_key_prefix. Qed.

Lemma replay_from_length key n : forall cur bs, length (replay_from key cur bs n) = n.
Proof.
  induction n as [|n IH]; intros; simpl; [reflexivity|].
  destruct (take_ready key cur bs). simpl. rewrite IH. reflexivity.
Qed.

Lemma replay_length rnd tps arrs n : length (replay rnd tps arrs n) = n.
Proof. unfold replay, replay_at, replay_key. rewrite map_length. apply replay_from_length. Qed.

(* the runner's variant (keys computed once per batch) is the same function *)
Lemma take_ready_k_eq key cur bs :
  take_ready_k cur (map (tag_batch key) bs) =
  (fst (take_ready key cur bs), map (tag_batch key) (snd (take_ready key cur bs))).
Proof.
  induction bs as [|b bs IH]; simpl; [reflexivity|].
  destruct (Qle_bool (key (batch_arrival b)) (inject_Z cur)); [|reflexivity].
  rewrite IH. destruct (take_ready key cur bs); reflexivity.
Qed.

Lemma replay_from_k_eq key n : forall cur bs,
  replay_from_k cur (map (tag_batch key) bs) n = replay_from key cur bs n.
Proof.
  induction n as [|n IH]; intros cur bs; simpl; [reflexivity|].
  rewrite take_ready_k_eq. destruct (take_ready key cur bs) as [d r]; simpl.
  rewrite IH. reflexivity.
Qed.

Lemma replay_at_fast_eq rnd tps start arrs n :
  replay_at_fast rnd tps start arrs n = replay_at rnd tps start arrs n.
Proof. unfold replay_at_fast, replay_at, replay_key. rewrite replay_from_k_eq. reflexivity. Qed.

(* ---------------------------------------------------------------- ceilings *)

Lemma ceilQ_Qceiling x : ceilQ x = Qceiling x.
Proof. destruct x; reflexivity. Qed.

Lemma ceilQ_floorQ x : ceilQ x = (- floorQ (- x))%Z.
Proof. destruct x; reflexivity. Qed.

Lemma ceilQ_comp x y : (x == y)%Q -> ceilQ x = ceilQ y.
Proof. intros H. rewrite !ceilQ_Qceiling. apply Qceiling_comp, H. Qed.

Lemma ceilQ_le_iff q z : (ceilQ q <= z)%Z <-> (q <= inject_Z z)%Q.
Proof.
  rewrite ceilQ_Qceiling. split; intros H.
  - eapply Qle_trans; [apply Qle_ceiling|]. rewrite <- Zle_Qle. exact H.
  - apply Qceiling_resp_le in H. rewrite Qceiling_Z in H. exact H.
Qed.

Lemma ceilQ_mono x y : (x <= y)%Q -> (ceilQ x <= ceilQ y)%Z.
Proof. intros H. rewrite !ceilQ_Qceiling. apply Qceiling_resp_le, H. Qed.

Lemma ceilQ_Z z : ceilQ (inject_Z z) = z.
Proof. rewrite ceilQ_Qceiling. apply Qceiling_Z. Qed.

Lemma ceilQ_nonneg x : (0 <= x)%Q -> (0 <= ceilQ x)%Z.
Proof. intros H. apply ceilQ_mono in H. exact H. Qed.

Lemma ready_iff key cur b : ready key cur b = true <-> (ceilQ (key (batch_arrival b)) <= cur)%Z.
Proof. unfold ready. rewrite Qle_bool_iff. symmetry. apply ceilQ_le_iff. Qed.

(* ---------------------------------------------------------------- B. monotone key *)

Lemma SS_suffix {A} (R : A -> A -> Prop) l1 : forall l2,
  StronglySorted R (l1 ++ l2) -> StronglySorted R l2.
Proof.
  induction l1 as [|x l1 IH]; intros l2 H; simpl in H; [exact H|].
  apply StronglySorted_inv in H. apply IH, H.
Qed.

Lemma In_index_from l : forall i j a,
  In (j, a) (index_from i l) <-> (i <= j < i + length l /\ nth (j - i) l 0%Q = a).
Proof.
  induction l as [|b t IH]; intros i j a; simpl.
  - split; [tauto|lia].
  - split.
    + intros [H|H].
      * inversion H; subst. split; [lia|]. rewrite Nat.sub_diag. reflexivity.
      * apply IH in H. destruct H as [H1 H2]. split; [lia|].
        replace (j - i) with (S (j - S i)) by lia. exact H2.
    + intros [H1 H2]. destruct (Nat.eq_dec j i) as [->|Hne].
      * left. rewrite Nat.sub_diag in H2. subst. reflexivity.
      * right. apply IH. split; [lia|].
        replace (j - i) with (S (j - S i)) in H2 by lia. exact H2.
Qed.

Lemma group_nonempty l : Forall (fun b => b <> []) (group l).
Proof.
  induction l as [|x t IH]; simpl; [constructor|].
  destruct (group t) as [|[|y b] r].
  - constructor; [discriminate|constructor].
  - constructor; [discriminate|]. inversion IH; assumption.
  - destruct (Qeq_bool (snd x) (snd y)).
    + inversion IH; subst. constructor; [discriminate|assumption].
    + constructor; [discriminate|assumption].
Qed.

Lemma group_homog l : forall b x, In b (group l) -> In x b -> (snd x == batch_arrival b)%Q.
Proof.
  induction l as [|x0 t IH]; simpl; intros b x Hb Hx; [contradiction|].
  destruct (group t) as [|[|y b0] r].
  - destruct Hb as [<-|[]]. destruct Hx as [<-|[]]. reflexivity.
  - destruct Hb as [<-|Hb].
    + destruct Hx as [<-|[]]. reflexivity.
    + apply IH; [right; exact Hb|exact Hx].
  - destruct (Qeq_bool (snd x0) (snd y)) eqn:E.
    + destruct Hb as [<-|Hb].
      * simpl. destruct Hx as [<-|Hx]; [reflexivity|].
        apply Qeq_bool_iff in E. rewrite E.
        apply (IH (y :: b0) x); [left; reflexivity|exact Hx].
      * apply IH; [right; exact Hb|exact Hx].
    + destruct Hb as [<-|Hb].
      * destruct Hx as [<-|[]]. reflexivity.
      * apply IH; assumption.
Qed.

Section MonotoneKey.
Variable key : Q -> Q.
Hypothesis key_mono : forall x y, (x <= y)%Q -> (key x <= key y)%Q.
Variable s : Z.     (* current_tick at the start *)

Definition tk (x : item) : Z := Z.max s (ceilQ (key (snd x))).
Definition bt (b : list item) : Z := Z.max s (ceilQ (key (batch_arrival b))).

Lemma key_ceil_mono x y : (x <= y)%Q -> (ceilQ (key x) <= ceilQ (key y))%Z.
Proof. intros H. apply ceilQ_mono, key_mono, H. Qed.

Lemma key_ceil_comp x y : (x == y)%Q -> ceilQ (key x) = ceilQ (key y).
Proof.
  intros H. apply Z.le_antisymm; apply key_ceil_mono; rewrite H; apply Qle_refl.
Qed.

Lemma ready_bt cur b : (s <= cur)%Z -> (ready key cur b = true <-> (bt b <= cur)%Z).
Proof. intros Hs. rewrite ready_iff. unfold bt. lia. Qed.

Definition inv (bs : list (list item)) : Prop :=
  Forall (fun b => b <> []) bs /\
  (forall b x, In b bs -> In x b -> tk x = bt b) /\
  StronglySorted (fun x y => (tk x <= tk y)%Z) (concat bs).

Lemma inv_suffix p r : inv (p ++ r) -> inv r.
Proof.
  intros (H1 & H2 & H3). split; [|split].
  - apply Forall_app in H1. apply H1.
  - intros b x Hb Hx. apply H2; [apply in_or_app; right; exact Hb|exact Hx].
  - rewrite concat_app in H3. eapply SS_suffix, H3.
Qed.

Lemma inv_head_min b r x : inv (b :: r) -> In x (concat (b :: r)) -> (bt b <= tk x)%Z.
Proof.
  intros (H1 & H2 & H3) Hx.
  destruct b as [|x0 b0]; [inversion H1; congruence|].
  rewrite <- (H2 (x0 :: b0) x0) by (left; reflexivity).
  simpl in H3, Hx. apply StronglySorted_inv in H3. destruct H3 as [_ H3].
  destruct Hx as [<-|Hx]; [lia|].
  rewrite Forall_forall in H3. apply H3, Hx.
Qed.

Lemma replay_from_spec n : forall cur bs,
  (s <= cur)%Z -> inv bs -> (forall x, In x (concat bs) -> (cur <= tk x)%Z) ->
  forall t x, In x (nth t (replay_from key cur bs n) []) <->
              (t < n /\ In x (concat bs) /\ tk x = (cur + Z.of_nat t)%Z).
Proof.
  induction n as [|n IH]; intros cur bs Hs Hinv Hlow t x.
  - simpl. destruct t; simpl; split; try tauto; lia.
  - simpl. destruct (take_ready key cur bs) as [d r] eqn:E.
    apply take_ready_app in E. destruct E as (p & Hbs & Hd & Hp & Hr).
    assert (Hinvr : inv r) by (rewrite Hbs in Hinv; eapply inv_suffix, Hinv).
    assert (Hcat : concat bs = d ++ concat r) by (rewrite Hbs, Hd, concat_app; reflexivity).
    assert (Hrest : forall y, In y (concat r) -> (cur + 1 <= tk y)%Z).
    { intros y Hy. destruct r as [|b r']; [simpl in Hy; contradiction|].
      pose proof (inv_head_min b r' y Hinvr Hy) as Hm.
      assert (Hnb : ~ (bt b <= cur)%Z).
      { intros Hc. apply (ready_bt cur b Hs) in Hc. congruence. }
      lia. }
    assert (Hdel : forall y, In y d -> tk y = cur).
    { intros y Hy. rewrite Hd in Hy. apply in_concat in Hy. destruct Hy as (b & Hb & Hyb).
      destruct Hinv as (_ & H2 & _).
      assert (Hbin : In b bs) by (rewrite Hbs; apply in_or_app; left; exact Hb).
      rewrite Forall_forall in Hp. pose proof (Hp b Hb) as Hrd.
      apply (ready_bt cur b Hs) in Hrd.
      pose proof (H2 b y Hbin Hyb) as Heq.
      assert (Hl : (cur <= tk y)%Z).
      { apply Hlow. rewrite Hcat. apply in_or_app. left. rewrite Hd. apply in_concat.
        exists b. split; assumption. }
      lia. }
    destruct t as [|t]; simpl.
    + split.
      * intros Hx. split; [lia|]. split; [rewrite Hcat; apply in_or_app; left; exact Hx|].
        rewrite (Hdel x Hx). lia.
      * intros (_ & Hx & Ht). rewrite Hcat in Hx. apply in_app_or in Hx.
        destruct Hx as [Hx|Hx]; [exact Hx|]. apply Hrest in Hx. lia.
    + rewrite (IH (cur + 1)%Z r); [|lia|exact Hinvr|exact Hrest].
      split.
      * intros (A & B & C). split; [lia|]. split; [rewrite Hcat; apply in_or_app; right; exact B|lia].
      * intros (A & B & C). split; [lia|]. split; [|lia].
        rewrite Hcat in B. apply in_app_or in B. destruct B as [B|B]; [|exact B].
        apply Hdel in B. lia.
Qed.

Lemma sorted_index_from arrs : StronglySorted Qle arrs ->
  forall i, StronglySorted (fun x y => (tk x <= tk y)%Z) (index_from i arrs).
Proof.
  induction 1 as [|a t Ht IH Hall]; intros i; simpl; constructor.
  - apply IH.
  - clear IH Ht. revert i. induction t as [|b t IHt]; intros i; simpl; constructor.
    + inversion Hall; subst. unfold tk. simpl.
      pose proof (key_ceil_mono a b H1). lia.
    + inversion Hall; subst. apply (IHt H2 (S i)).
Qed.

Lemma inv_group arrs : StronglySorted Qle arrs -> inv (group (index_from 0 arrs)).
Proof.
  intros Hs. split; [apply group_nonempty|]. split.
  - intros b x Hb Hx. unfold tk, bt.
    rewrite (key_ceil_comp _ _ (group_homog _ b x Hb Hx)). reflexivity.
  - rewrite group_concat. apply sorted_index_from, Hs.
Qed.

(* pipeline i comes out in the tick  max s (ceil (key a_i)),  if the run lasts that long *)
Lemma replay_key_spec arrs n : StronglySorted Qle arrs ->
  forall t i, In i (nth t (replay_key key s arrs n) []) <->
              (t < n /\ i < length arrs /\
               Z.max s (ceilQ (key (nth i arrs 0%Q))) = (s + Z.of_nat t)%Z).
Proof.
  intros Hs t i. unfold replay_key.
  change (@nil nat) with (map (@fst nat Q) []) at 1. rewrite map_nth, in_map_iff.
  pose proof (inv_group arrs Hs) as Hinv.
  assert (Hlow : forall x, In x (concat (group (index_from 0 arrs))) -> (s <= tk x)%Z)
    by (intros x _; unfold tk; lia).
  split.
  - intros ((j, a) & Hf & Hin). simpl in Hf. subst j.
    apply (replay_from_spec n s _ (Z.le_refl s) Hinv Hlow) in Hin.
    destruct Hin as (A & B & C). rewrite group_concat in B. apply In_index_from in B.
    destruct B as [B1 B2]. rewrite Nat.sub_0_r in B2. subst a.
    split; [exact A|]. split; [simpl in B1; lia|exact C].
  - intros (A & B & C). exists (i, nth i arrs 0%Q). split; [reflexivity|].
    apply (replay_from_spec n s _ (Z.le_refl s) Hinv Hlow).
    split; [exact A|]. split; [|exact C].
    rewrite group_concat. apply In_index_from. rewrite Nat.sub_0_r. split; [lia|reflexivity].
Qed.
End MonotoneKey.

Lemma first_tick_max q : first_tick q = Z.max 0 (ceilQ q).
Proof. reflexivity. Qed.

(* ---------------------------------------------------------------- C. exact specification *)

Lemma key_exact_eq tps a : (0 < tps)%Z ->
  (next_batch_tick exact (tick_length exact tps) a == a * inject_Z tps)%Q.
Proof.
  intros H. pose proof (inject_Z_pos tps H) as HT.
  unfold next_batch_tick, tick_length, exact. field. intro E. rewrite E in HT. apply (Qlt_irrefl 0), HT.
Qed.

Lemma key_exact_mono tps : (0 < tps)%Z -> forall x y, (x <= y)%Q ->
  (next_batch_tick exact (tick_length exact tps) x <= next_batch_tick exact (tick_length exact tps) y)%Q.
Proof.
  intros H x y Hxy. rewrite !key_exact_eq by exact H.
  apply Qmult_le_compat_r; [exact Hxy|]. apply Qlt_le_weak, inject_Z_pos, H.
Qed.

Lemma replay_exact_first_tick tps arrs n : (0 < tps)%Z -> StronglySorted Qle arrs ->
  forall t i, In i (nth t (replay exact tps arrs n) []) <->
              (t < n /\ i < length arrs /\ Z.of_nat t = first_tick (nth i arrs 0%Q * inject_Z tps)).
Proof.
  intros H Hs t i. unfold replay, replay_at.
  rewrite (replay_key_spec _ (key_exact_mono tps H) 0%Z arrs n Hs t i).
  rewrite (ceilQ_comp _ _ (key_exact_eq tps (nth i arrs 0%Q) H)).
  unfold first_tick. simpl (0 + Z.of_nat t)%Z.
  split; intros (A & B & C); (split; [exact A|split; [exact B|]]); lia.
Qed.

Lemma first_tick_nonneg q : (0 <= q)%Q -> first_tick q = ceilQ q.
Proof. intros H. unfold first_tick. pose proof (ceilQ_nonneg q H). lia. Qed.

Lemma nth_Forall {A} (P : A -> Prop) l d i : Forall P l -> i < length l -> P (nth i l d).
Proof. intros H Hi. rewrite Forall_forall in H. apply H, nth_In, Hi. Qed.

Lemma replay_exact_spec tps arrs n : (0 < tps)%Z -> StronglySorted Qle arrs -> Forall (Qle 0) arrs ->
  forall t i, In i (nth t (replay exact tps arrs n) []) <->
              (t < n /\ i < length arrs /\ Z.of_nat t = ceilQ (nth i arrs 0%Q * inject_Z tps)).
Proof.
  intros H Hs Hpos t i. rewrite (replay_exact_first_tick tps arrs n H Hs t i).
  split; intros (A & B & C); (split; [exact A|split; [exact B|]]).
  - rewrite C. apply first_tick_nonneg. apply Qmult_le_0_compat.
    + apply (nth_Forall _ _ _ _ Hpos B).
    + apply Qlt_le_weak, inject_Z_pos, H.
  - rewrite C. symmetry. apply first_tick_nonneg. apply Qmult_le_0_compat.
    + apply (nth_Forall _ _ _ _ Hpos B).
    + apply Qlt_le_weak, inject_Z_pos, H.
Qed.

(* ceil(a * tps) is the first tick whose start t / tps is at or after a *)
Lemma exact_tick_is_first tps a t : (0 < tps)%Z ->
  ((ceilQ (a * inject_Z tps) <= t)%Z <-> (a <= inject_Z t / inject_Z tps)%Q).
Proof.
  intros H. pose proof (inject_Z_pos tps H) as HT. rewrite ceilQ_le_iff. split; intros Hle.
  - apply Qle_shift_div_l; assumption.
  - apply (Qmult_le_compat_r _ _ (inject_Z tps)) in Hle; [|apply Qlt_le_weak, HT].
    eapply Qle_trans; [exact Hle|]. apply Qle_lteq. right. field.
    intro E. rewrite E in HT. apply (Qlt_irrefl 0), HT.
Qed.

(* delivered exactly once within the run iff the tick is before the end; never otherwise *)
Lemma replay_exact_once tps arrs n i : (0 < tps)%Z -> StronglySorted Qle arrs -> Forall (Qle 0) arrs ->
  i < length arrs ->
  ((ceilQ (nth i arrs 0%Q * inject_Z tps) < Z.of_nat n)%Z ->
     exists t, t < n /\ Z.of_nat t = ceilQ (nth i arrs 0%Q * inject_Z tps) /\
               In i (nth t (replay exact tps arrs n) []) /\
               forall t', In i (nth t' (replay exact tps arrs n) []) -> t' = t) /\
  ((Z.of_nat n <= ceilQ (nth i arrs 0%Q * inject_Z tps))%Z ->
     forall t', ~ In i (nth t' (replay exact tps arrs n) [])).
Proof.
  intros H Hs Hpos Hi. split.
  - intros Hlt.
    assert (H0 : (0 <= ceilQ (nth i arrs 0%Q * inject_Z tps))%Z).
    { apply ceilQ_nonneg, Qmult_le_0_compat; [apply (nth_Forall _ _ _ _ Hpos Hi)|].
      apply Qlt_le_weak, inject_Z_pos, H. }
    exists (Z.to_nat (ceilQ (nth i arrs 0%Q * inject_Z tps))).
    assert (Ht : Z.of_nat (Z.to_nat (ceilQ (nth i arrs 0%Q * inject_Z tps)))
                 = ceilQ (nth i arrs 0%Q * inject_Z tps)) by lia.
    split; [lia|]. split; [exact Ht|]. split.
    + apply (replay_exact_spec tps arrs n H Hs Hpos). split; [lia|]. split; [exact Hi|exact Ht].
    + intros t' Hin. apply (replay_exact_spec tps arrs n H Hs Hpos) in Hin.
      destruct Hin as (_ & _ & C). lia.
  - intros Hge t' Hin. apply (replay_exact_spec tps arrs n H Hs Hpos) in Hin.
    destruct Hin as (A & _ & C). lia.
Qed.

(* ---------------------------------------------------------------- D. gentrace round trip, exact *)

Lemma gen_exact_eq tps t : (gen_arrival exact tps t == inject_Z t / inject_Z tps)%Q.
Proof. unfold gen_arrival, exact. unfold Qdiv. ring. Qed.

Lemma gen_exact_mono tps a b : (0 < tps)%Z -> (a <= b)%Z ->
  (gen_arrival exact tps a <= gen_arrival exact tps b)%Q.
Proof.
  intros H Hab. rewrite !gen_exact_eq. unfold Qdiv. apply Qmult_le_compat_r.
  - rewrite <- Zle_Qle. exact Hab.
  - apply Qlt_le_weak, Qinv_lt_0_compat, inject_Z_pos, H.
Qed.

Lemma sorted_gen tps ticks : (0 < tps)%Z -> StronglySorted Z.le ticks ->
  StronglySorted Qle (map (gen_arrival exact tps) ticks).
Proof.
  intros H. induction 1 as [|a t Ht IH Hall]; simpl; constructor; [exact IH|].
  rewrite Forall_map. eapply Forall_impl; [|exact Hall].
  intros b Hab. apply gen_exact_mono; assumption.
Qed.

Lemma gentrace_roundtrip_exact tps ticks n : (0 < tps)%Z -> StronglySorted Z.le ticks ->
  Forall (Z.le 0) ticks ->
  forall t i, In i (nth t (replay exact tps (map (gen_arrival exact tps) ticks) n) []) <->
              (t < n /\ i < length ticks /\ Z.of_nat t = nth i ticks 0%Z).
Proof.
  intros H Hs Hpos t i.
  rewrite (replay_exact_first_tick tps _ n H (sorted_gen tps ticks H Hs) t i).
  rewrite map_length.
  assert (Hk : i < length ticks ->
               first_tick (nth i (map (gen_arrival exact tps) ticks) 0%Q * inject_Z tps) = nth i ticks 0%Z).
  { intros Hi.
    rewrite (nth_indep _ 0%Q (gen_arrival exact tps 0%Z)) by (rewrite map_length; exact Hi).
    rewrite map_nth.
    assert (E : (gen_arrival exact tps (nth i ticks 0%Z) * inject_Z tps == inject_Z (nth i ticks 0%Z))%Q).
    { rewrite gen_exact_eq. field. pose proof (inject_Z_pos tps H) as HT.
      intro E. rewrite E in HT. apply (Qlt_irrefl 0), HT. }
    unfold first_tick. rewrite (ceilQ_comp _ _ E), ceilQ_Z.
    pose proof (nth_Forall _ _ 0%Z _ Hpos Hi). lia. }
  split; intros (A & B & C); (split; [exact A|split; [exact B|]]).
  - rewrite C. apply Hk, B.
  - rewrite C. symmetry. apply Hk, B.
Qed.

(* ---------------------------------------------------------------- E. the float text of the code *)
Local Open Scope Q_scope.
Local Notation u4 := (4 # 9007199254740992).

Lemma ceilQ_pm1 q x : Qabs (q - x) <= 1 -> (ceilQ x - 1 <= ceilQ q <= ceilQ x + 1)%Z.
Proof.
  intros H. rewrite !ceilQ_floorQ.
  assert (H' : Qabs (- q - - x) <= 1).
  { apply Qabs_Qle_condition in H. apply Qabs_Qle_condition. destruct H; split; lra. }
  pose proof (floorQ_pm1 _ _ H'). lia.
Qed.

Lemma ceilQ_away q x e : Qabs (q - x) <= e ->
  (forall k : Z, ~ Qabs (inject_Z k - x) <= e) -> ceilQ q = ceilQ x.
Proof.
  intros H Hk. rewrite !ceilQ_floorQ. f_equal. apply (floorQ_away _ _ e).
  - apply Qabs_Qle_condition in H. apply Qabs_Qle_condition. destruct H; split; lra.
  - intros k Hc. apply (Hk (- k)%Z). rewrite inject_Z_opp.
    apply Qabs_Qle_condition in Hc. apply Qabs_Qle_condition. destruct Hc; split; lra.
Qed.

Lemma ceilQ_upper x : x <= inject_Z (ceilQ x).
Proof. rewrite ceilQ_Qceiling. apply Qle_ceiling. Qed.

Lemma ceilQ_lower x : inject_Z (ceilQ x - 1) < x.
Proof. rewrite ceilQ_Qceiling. apply Qceiling_lt. Qed.

Section FloatKey.
Variable rnd : Q -> Q.
Hypothesis H1 : forall x y, x <= y -> rnd x <= rnd y.
Hypothesis H2 : forall x, Qabs (rnd x - x) <= Qabs x * (1 # 9007199254740992).
Variable tps : Z.
Hypothesis Htps : (0 < tps)%Z.

(* get_next_batch_tick as computed: two roundings *)
Definition fq (a : Q) : Q := rnd (a / rnd (1 / inject_Z tps)).

Lemma fkey_mono x y : x <= y ->
  next_batch_tick rnd (tick_length rnd tps) x <= next_batch_tick rnd (tick_length rnd tps) y.
Proof.
  intros Hxy. unfold next_batch_tick, tick_length. apply H1.
  destruct (tick_len_facts rnd H2 tps Htps) as (Ht & _).
  unfold Qdiv. apply Qmult_le_compat_r; [exact Hxy|].
  apply Qlt_le_weak, Qinv_lt_0_compat, Ht.
Qed.

(* the code, characterised exactly: the tick is the first one at or after the float quotient *)
Lemma replay_float_first_tick arrs n : StronglySorted Qle arrs ->
  forall t i, In i (nth t (replay rnd tps arrs n) []) <->
              ((t < n)%nat /\ (i < length arrs)%nat /\ Z.of_nat t = first_tick (fq (nth i arrs 0))).
Proof.
  intros Hs t i. unfold replay, replay_at.
  rewrite (replay_key_spec _ fkey_mono 0%Z arrs n Hs t i).
  unfold first_tick, fq, next_batch_tick, tick_length. simpl (0 + Z.of_nat t)%Z.
  split; intros (A & B & C); (split; [exact A|split; [exact B|]]); lia.
Qed.

Lemma fq_close a : 0 <= a -> Qabs (fq a - a * inject_Z tps) <= a * inject_Z tps * u4.
Proof. intros Ha. apply (ticks_of_close rnd H2 tps a Ha Htps). Qed.

Lemma fq_nonneg a : 0 <= a -> 0 <= fq a.
Proof. intros Ha. apply (ticks_of_arg_nonneg rnd H2 tps a Ha Htps). Qed.

Lemma first_tick_fq a : 0 <= a -> first_tick (fq a) = ceilQ (fq a).
Proof. intros Ha. apply first_tick_nonneg, fq_nonneg, Ha. Qed.

(* never early beyond the rounding slack, never late beyond it *)
Lemma float_tick_window a : 0 <= a ->
  (ceilQ (a * inject_Z tps * (1 - u4)) <= first_tick (fq a) <= ceilQ (a * inject_Z tps * (1 + u4)))%Z.
Proof.
  intros Ha. rewrite (first_tick_fq a Ha).
  pose proof (fq_close a Ha) as Hc. apply Qabs_Qle_condition in Hc. destruct Hc as [C1 C2].
  split; apply ceilQ_mono; lra.
Qed.

Lemma float_tick_pm1 a : 0 <= a -> a * inject_Z tps * u4 <= 1 ->
  (ceilQ (a * inject_Z tps) - 1 <= first_tick (fq a) <= ceilQ (a * inject_Z tps) + 1)%Z.
Proof.
  intros Ha Hs. rewrite (first_tick_fq a Ha). apply ceilQ_pm1.
  eapply Qle_trans; [apply fq_close, Ha|exact Hs].
Qed.

(* exactly the specified tick unless an integer lies within 4 * 2^-53 (relative) of a * tps *)
Lemma float_tick_exact_away a : 0 <= a ->
  (forall k : Z, ~ Qabs (inject_Z k - a * inject_Z tps) <= a * inject_Z tps * u4) ->
  first_tick (fq a) = ceilQ (a * inject_Z tps).
Proof.
  intros Ha Hk. rewrite (first_tick_fq a Ha).
  eapply ceilQ_away; [apply fq_close, Ha|exact Hk].
Qed.

(* late only when the rounded quotient overshoots the integer ceil(a*tps) that a*tps does not exceed;
   early only when it does not exceed the integer ceil(a*tps) - 1 that a*tps does exceed *)
Lemma float_tick_late_overshoot a : 0 <= a ->
  (ceilQ (a * inject_Z tps) < first_tick (fq a))%Z ->
  a * inject_Z tps <= inject_Z (ceilQ (a * inject_Z tps)) /\ inject_Z (ceilQ (a * inject_Z tps)) < fq a.
Proof.
  intros Ha Hlt. split; [apply ceilQ_upper|].
  rewrite (first_tick_fq a Ha) in Hlt. apply Qnot_le_lt. intros Hle.
  apply ceilQ_le_iff in Hle. lia.
Qed.

Lemma float_tick_early_undershoot a : 0 <= a ->
  (first_tick (fq a) < ceilQ (a * inject_Z tps))%Z ->
  fq a <= inject_Z (ceilQ (a * inject_Z tps) - 1) /\ inject_Z (ceilQ (a * inject_Z tps) - 1) < a * inject_Z tps.
Proof.
  intros Ha Hlt. split; [|apply ceilQ_lower].
  rewrite (first_tick_fq a Ha) in Hlt. apply ceilQ_le_iff. lia.
Qed.

(* the summary the design calls replay_float_spec *)
Lemma replay_float_spec arrs n : StronglySorted Qle arrs -> Forall (Qle 0) arrs ->
  forall t i, In i (nth t (replay rnd tps arrs n) []) ->
    let x := nth i arrs 0 * inject_Z tps in
    x * u4 <= 1 ->
    (t < n)%nat /\ (i < length arrs)%nat /\
    (Z.of_nat t = ceilQ x \/
     (Z.of_nat t = (ceilQ x + 1)%Z /\ x <= inject_Z (ceilQ x) /\ inject_Z (ceilQ x) < fq (nth i arrs 0)) \/
     (Z.of_nat t = (ceilQ x - 1)%Z /\ fq (nth i arrs 0) <= inject_Z (ceilQ x - 1) /\ inject_Z (ceilQ x - 1) < x)).
Proof.
  intros Hs Hpos t i Hin x Hsm.
  apply (replay_float_first_tick arrs n Hs) in Hin. destruct Hin as (A & B & C).
  split; [exact A|]. split; [exact B|].
  pose proof (nth_Forall _ _ 0 _ Hpos B) as Ha.
  pose proof (float_tick_pm1 _ Ha Hsm) as Hpm. fold x in Hpm.
  destruct (Z.lt_trichotomy (first_tick (fq (nth i arrs 0))) (ceilQ x)) as [L|[L|L]].
  - right. right. split; [lia|]. apply (float_tick_early_undershoot _ Ha L).
  - left. lia.
  - right. left. split; [lia|]. apply (float_tick_late_overshoot _ Ha L).
Qed.
End FloatKey.

(* gentrace round trip under rounding: never early, at most one tick late *)
Section FloatGen.
Variable rnd : Q -> Q.
Hypothesis H1 : forall x y, x <= y -> rnd x <= rnd y.
Hypothesis H2 : forall x, Qabs (rnd x - x) <= Qabs x * (1 # 9007199254740992).
Variable tps : Z.
Hypothesis Htps : (0 < tps)%Z.
Local Notation u1 := (1 # 9007199254740992).

Lemma gen_float_mono a b : (a <= b)%Z -> gen_arrival rnd tps a <= gen_arrival rnd tps b.
Proof.
  intros Hab. unfold gen_arrival. apply H1.
  destruct (tick_len_facts rnd H2 tps Htps) as (Ht & _).
  apply Qmult_le_compat_r; [rewrite <- Zle_Qle; exact Hab|apply Qlt_le_weak, Ht].
Qed.

Lemma gen_float_nonneg t : (0 <= t)%Z -> 0 <= gen_arrival rnd tps t.
Proof.
  intros Ht0. unfold gen_arrival. apply (rnd_nonneg rnd H2).
  destruct (tick_len_facts rnd H2 tps Htps) as (Ht & _).
  apply Qmult_le_0_compat; [change 0 with (inject_Z 0); rewrite <- Zle_Qle; exact Ht0|apply Qlt_le_weak, Ht].
Qed.

Lemma fq_gen_bounds t : (0 <= t)%Z ->
  inject_Z t * (1 - u1) * (1 - u1) <= fq rnd tps (gen_arrival rnd tps t) /\
  fq rnd tps (gen_arrival rnd tps t) <= inject_Z t * (1 + u1) * (1 + u1).
Proof.
  intros Ht0. destruct (tick_len_facts rnd H2 tps Htps) as (Ht & _).
  assert (HT : 0 <= inject_Z t) by (change 0 with (inject_Z 0); rewrite <- Zle_Qle; exact Ht0).
  unfold fq, gen_arrival. set (tl := rnd (1 / inject_Z tps)) in *. set (T := inject_Z t) in *.
  assert (Hp : 0 <= T * tl) by (apply Qmult_le_0_compat; lra).
  destruct (rnd_rel rnd H2 (T * tl) Hp) as [A1 A2]. set (a := rnd (T * tl)) in *.
  assert (Ha : 0 <= a) by (apply (rnd_nonneg rnd H2), Hp).
  assert (Hy1 : T * (1 - u1) <= a / tl).
  { apply Qle_shift_div_l; [exact Ht|]. setoid_replace (T * (1 - u1) * tl) with (T * tl * (1 - u1)) by ring. exact A1. }
  assert (Hy2 : a / tl <= T * (1 + u1)).
  { apply Qle_shift_div_r; [exact Ht|]. setoid_replace (T * (1 + u1) * tl) with (T * tl * (1 + u1)) by ring. exact A2. }
  assert (Hy0 : 0 <= a / tl) by (apply Qle_shift_div_l; lra).
  destruct (rnd_rel rnd H2 (a / tl) Hy0) as [B1 B2].
  set (y := a / tl) in *. set (q := rnd y) in *.
  split; nra.
Qed.

Lemma gen_tick_window t : (0 <= t)%Z -> inject_Z t * u4 <= 1 ->
  (t <= first_tick (fq rnd tps (gen_arrival rnd tps t)) <= t + 1)%Z.
Proof.
  intros Ht0 Hsm. destruct (fq_gen_bounds t Ht0) as [B1 B2].
  assert (HT : 0 <= inject_Z t) by (change 0 with (inject_Z 0); rewrite <- Zle_Qle; exact Ht0).
  rewrite (first_tick_fq rnd H2 tps Htps _ (gen_float_nonneg t Ht0)).
  set (q := fq rnd tps (gen_arrival rnd tps t)) in *. set (T := inject_Z t) in *.
  split.
  - destruct (Z_le_gt_dec t (ceilQ q)) as [L|L]; [exact L|exfalso].
    assert (Hc : (ceilQ q <= t - 1)%Z) by lia. apply ceilQ_le_iff in Hc.
    unfold Zminus in Hc. rewrite inject_Z_plus in Hc. fold T in Hc.
    change (inject_Z (- (1))) with (- (1)) in Hc. lra.
  - apply ceilQ_le_iff. rewrite inject_Z_plus. fold T. change (inject_Z 1) with 1. lra.
Qed.

Lemma gentrace_roundtrip_float ticks n : StronglySorted Z.le ticks ->
  Forall (fun t => (0 <= t)%Z /\ inject_Z t * u4 <= 1) ticks ->
  forall t i, In i (nth t (replay rnd tps (map (gen_arrival rnd tps) ticks) n) []) ->
    (i < length ticks)%nat /\
    (Z.of_nat t = nth i ticks 0%Z \/
     (Z.of_nat t = (nth i ticks 0 + 1)%Z /\
      inject_Z (nth i ticks 0%Z) < fq rnd tps (gen_arrival rnd tps (nth i ticks 0%Z)))).
Proof.
  intros Hs Hok t i Hin.
  assert (Hsorted : StronglySorted Qle (map (gen_arrival rnd tps) ticks)).
  { clear Hok Hin. induction Hs as [|a l Hl IH Hall]; simpl; constructor; [exact IH|].
    rewrite Forall_map. eapply Forall_impl; [|exact Hall]. intros b Hab. apply gen_float_mono, Hab. }
  apply (replay_float_first_tick rnd H1 H2 tps Htps _ n Hsorted) in Hin.
  destruct Hin as (_ & B & C). rewrite map_length in B. split; [exact B|].
  rewrite (nth_indep _ 0 (gen_arrival rnd tps 0%Z)) in C by (rewrite map_length; exact B).
  rewrite map_nth in C.
  destruct (nth_Forall _ _ 0%Z _ Hok B) as [G0 Gs].
  pose proof (gen_tick_window _ G0 Gs) as Hw.
  set (g := nth i ticks 0%Z) in *.
  destruct (Z.eq_dec (Z.of_nat t) g) as [E|E]; [left; exact E|right].
  split; [lia|].
  rewrite (first_tick_fq rnd H2 tps Htps _ (gen_float_nonneg g G0)) in C, Hw.
  apply Qnot_le_lt. intros Hle. apply ceilQ_le_iff in Hle. lia.
Qed.
End FloatGen.

(* instances for rnd64 *)
Lemma replay_rnd64_first_tick tps arrs n : (0 < tps)%Z -> StronglySorted Qle arrs ->
  forall t i, In i (nth t (replay rnd64 tps arrs n) []) <->
              ((t < n)%nat /\ (i < length arrs)%nat /\
               Z.of_nat t = first_tick (rnd64 (nth i arrs 0 / rnd64 (1 / inject_Z tps)))).
Proof. intros H. exact (replay_float_first_tick rnd64 rnd64_mono rnd64_err tps H arrs n). Qed.

Lemma rnd64_tick_window tps a : (0 < tps)%Z -> 0 <= a ->
  (ceilQ (a * inject_Z tps * (1 - u4)) <= first_tick (rnd64 (a / rnd64 (1 / inject_Z tps)))
   <= ceilQ (a * inject_Z tps * (1 + u4)))%Z.
Proof. intros H. exact (float_tick_window rnd64 rnd64_err tps H a). Qed.

Lemma rnd64_tick_pm1 tps a : (0 < tps)%Z -> 0 <= a -> a * inject_Z tps * u4 <= 1 ->
  (ceilQ (a * inject_Z tps) - 1 <= first_tick (rnd64 (a / rnd64 (1 / inject_Z tps)))
   <= ceilQ (a * inject_Z tps) + 1)%Z.
Proof. intros H. exact (float_tick_pm1 rnd64 rnd64_err tps H a). Qed.

Lemma rnd64_tick_exact_away tps a : (0 < tps)%Z -> 0 <= a ->
  (forall k : Z, ~ Qabs (inject_Z k - a * inject_Z tps) <= a * inject_Z tps * u4) ->
  first_tick (rnd64 (a / rnd64 (1 / inject_Z tps))) = ceilQ (a * inject_Z tps).
Proof. intros H. exact (float_tick_exact_away rnd64 rnd64_err tps H a). Qed.

Lemma replay_rnd64_spec tps arrs n : (0 < tps)%Z -> StronglySorted Qle arrs -> Forall (Qle 0) arrs ->
  forall t i, In i (nth t (replay rnd64 tps arrs n) []) ->
    let x := nth i arrs 0 * inject_Z tps in
    let q := rnd64 (nth i arrs 0 / rnd64 (1 / inject_Z tps)) in
    x * u4 <= 1 ->
    (t < n)%nat /\ (i < length arrs)%nat /\
    (Z.of_nat t = ceilQ x \/
     (Z.of_nat t = (ceilQ x + 1)%Z /\ x <= inject_Z (ceilQ x) /\ inject_Z (ceilQ x) < q) \/
     (Z.of_nat t = (ceilQ x - 1)%Z /\ q <= inject_Z (ceilQ x - 1) /\ inject_Z (ceilQ x - 1) < x)).
Proof. intros H. exact (replay_float_spec rnd64 rnd64_mono rnd64_err tps H arrs n). Qed.

Lemma gentrace_roundtrip_rnd64 tps ticks n : (0 < tps)%Z -> StronglySorted Z.le ticks ->
  Forall (fun t => (0 <= t)%Z /\ inject_Z t * u4 <= 1) ticks ->
  forall t i, In i (nth t (replay rnd64 tps (map (gen_arrival rnd64 tps) ticks) n) []) ->
    (i < length ticks)%nat /\
    (Z.of_nat t = nth i ticks 0%Z \/
     (Z.of_nat t = (nth i ticks 0 + 1)%Z /\
      inject_Z (nth i ticks 0%Z) <
      rnd64 (gen_arrival rnd64 tps (nth i ticks 0%Z) / rnd64 (1 / inject_Z tps)))).
Proof. intros H. exact (gentrace_roundtrip_float rnd64 rnd64_mono rnd64_err tps H ticks n). Qed.

(* ---------------------------------------------------------------- F. witnesses (F7) *)

Definition at_tick (t n : nat) : list (list nat) :=
  repeat [] t ++ [[0%nat]] ++ repeat [] (n - t - 1).

(* the CSV cell 0.07 at 100 ticks/s: the specification says tick 7, the code (on the parsed float) says 8 *)
Lemma late_by_one_witness :
  exists (tps : Z) (d : Q),
    (0 < tps)%Z /\ ceilQ (d * inject_Z tps) = 7%Z /\
    replay exact tps [d] 10 = at_tick 7 10 /\
    replay rnd64 tps [rnd64 d] 10 = at_tick 8 10.
Proof. exists 100%Z, (7 # 100). vm_compute. repeat split; reflexivity. Qed.

(* gentrace + run -w: a pipeline generated in tick 7 at 100 ticks/s (tick 3 at 10 ticks/s) is replayed
   one tick later *)
Lemma gentrace_roundtrip_witness :
  exists (tps t : Z),
    (0 < tps)%Z /\ t = 7%Z /\
    replay exact tps [gen_arrival exact tps t] 10 = at_tick 7 10 /\
    replay rnd64 tps [gen_arrival rnd64 tps t] 10 = at_tick 8 10.
Proof. exists 100%Z, 7%Z. vm_compute. repeat split; reflexivity. Qed.

Lemma gentrace_roundtrip_witness_10 :
  replay rnd64 10 (map (gen_arrival rnd64 10) [0; 3; 3; 5]%Z) 7 = [[0]; []; []; []; [1; 2]; [3]; []]%nat.
Proof. vm_compute. reflexivity. Qed.

(* so the exact-arithmetic theorems do not hold of the code *)
Lemma gentrace_roundtrip_rnd64_refuted :
  ~ (forall tps ticks n, (0 < tps)%Z -> StronglySorted Z.le ticks -> Forall (Z.le 0) ticks ->
       forall t i, In i (nth t (replay rnd64 tps (map (gen_arrival rnd64 tps) ticks) n) []) <->
                   ((t < n)%nat /\ (i < length ticks)%nat /\ Z.of_nat t = nth i ticks 0%Z)).
Proof.
  intros H.
  assert (Hs : StronglySorted Z.le [7%Z]) by (constructor; constructor).
  assert (Hp : Forall (Z.le 0) [7%Z]) by (constructor; [discriminate|constructor]).
  pose proof (proj2 (H 100%Z [7%Z] 10%nat eq_refl Hs Hp 7%nat 0%nat)) as Hin.
  assert (Hpre : ((7 < 10)%nat /\ (0 < length [7%Z])%nat /\ Z.of_nat 7 = nth 0 [7%Z] 0%Z)).
  { split; [repeat constructor|]. split; [repeat constructor|reflexivity]. }
  specialize (Hin Hpre). vm_compute in Hin. exact Hin.
Qed.
