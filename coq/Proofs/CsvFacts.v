(* Facts about the trace-file model (Model/Csv.v): the two round trips and the format rules. *)
From Coq Require Import ZArith QArith List Bool Arith Lia.
Import ListNotations.
From Eudoxia Require Import Model.Types Model.Timing Model.Csv.
Close Scope Q_scope.
Close Scope Z_scope.

(* ------------------------------------------------------------------------------------------ *)
(* codes *)

Lemma prio_of_cell_cell : forall p, prio_of_cell (prio_cell p) = Some p.
Proof. destruct p; reflexivity. Qed.

Lemma prio_cell_of_cell : forall c p, prio_of_cell c = Some p -> prio_cell p = c.
Proof.
  intros c p H. destruct c as [|[|[|[|c]]]]; simpl in H; try discriminate; inversion H; reflexivity.
Qed.

Lemma prio_of_cell_range : forall c p, prio_of_cell c = Some p -> 1 <= c <= 3.
Proof.
  intros c p H. destruct c as [|[|[|[|c]]]]; simpl in H; try discriminate; lia.
Qed.

Lemma prio_of_cell_some : forall c, 1 <= c <= 3 -> exists p, prio_of_cell c = Some p.
Proof.
  intros c H. destruct c as [|[|[|[|c]]]]; try lia; simpl; eauto.
Qed.

Lemma law_of_cell_idx : forall l, law_of_cell (law_idx l) = Some l.
Proof. destruct l; reflexivity. Qed.

Lemma law_idx_of_cell : forall c l, law_of_cell c = Some l -> law_idx l = c.
Proof.
  intros c l H. destruct c as [|[|[|[|[|[|[|c]]]]]]]; simpl in H; try discriminate; inversion H; reflexivity.
Qed.

Lemma law_of_cell_range : forall c l, law_of_cell c = Some l -> c < 7.
Proof.
  intros c l H. destruct c as [|[|[|[|[|[|[|c]]]]]]]; simpl in H; try discriminate; lia.
Qed.

Lemma law_of_cell_some : forall c, c < 7 -> exists l, law_of_cell c = Some l.
Proof.
  intros c H. destruct c as [|[|[|[|[|[|[|c]]]]]]]; try lia; simpl; eauto.
Qed.

(* ------------------------------------------------------------------------------------------ *)
(* batches: the grouping is a partition of the file into maximal runs of one pipeline_id *)

Lemma batch_loop_concat : forall rows id cur, concat (batch_loop id cur rows) = cur ++ rows.
Proof.
  induction rows as [|r rest IH]; intros id cur; simpl.
  - rewrite app_nil_r. reflexivity.
  - destruct (r_pid r =? id).
    + rewrite IH, <- app_assoc. reflexivity.
    + simpl. rewrite IH. reflexivity.
Qed.

Lemma batches_concat : forall rows, concat (batches rows) = rows.
Proof. destruct rows as [|r rest]; simpl; [reflexivity|]. apply batch_loop_concat. Qed.

Lemma batch_loop_uniform : forall rows id cur b,
  cur <> [] -> Forall (fun r => r_pid r = id) cur ->
  In b (batch_loop id cur rows) ->
  b <> [] /\ exists k, Forall (fun r => r_pid r = k) b.
Proof.
  induction rows as [|r rest IH]; intros id cur b Hne Hall Hin; simpl in Hin.
  - destruct Hin as [<-|[]]. split; [assumption|]. exists id. assumption.
  - destruct (r_pid r =? id) eqn:E.
    + apply Nat.eqb_eq in E. eapply IH; [| |exact Hin].
      * destruct cur; discriminate.
      * apply Forall_app. split; [assumption|]. constructor; [assumption|constructor].
    + destruct Hin as [<-|Hin].
      * split; [assumption|]. exists id. assumption.
      * eapply IH; [| |exact Hin]; [discriminate|]. constructor; [reflexivity|constructor].
Qed.

Lemma batches_uniform : forall rows b, In b (batches rows) ->
  b <> [] /\ exists k, Forall (fun r => r_pid r = k) b.
Proof.
  destruct rows as [|r rest]; simpl; intros b Hin; [contradiction|].
  eapply batch_loop_uniform; [| |exact Hin]; [discriminate|].
  constructor; [reflexivity|constructor].
Qed.

(* appending a block of the current pipeline, then meeting another pipeline *)
Lemma batch_loop_block : forall blk id cur rest,
  Forall (fun r => r_pid r = id) blk ->
  batch_loop id cur (blk ++ rest) = batch_loop id (cur ++ blk) rest.
Proof.
  induction blk as [|r blk IH]; intros id cur rest H; simpl.
  - rewrite app_nil_r. reflexivity.
  - inversion H as [|? ? Hr Hb]; subst. rewrite Nat.eqb_refl.
    rewrite IH by assumption. rewrite <- app_assoc. reflexivity.
Qed.

(* ------------------------------------------------------------------------------------------ *)
(* the writer's output *)

Lemma pipeline_rows_from_pid : forall ops k p i,
  Forall (fun r => r_pid r = k) (pipeline_rows_from k p i ops).
Proof.
  induction ops as [|o t IH]; intros; simpl; constructor; [reflexivity|apply IH].
Qed.

Fixpoint write_batches (k : nat) (ps : list pipeline_m) : list (list row) :=
  match ps with
  | [] => []
  | p :: t => pipeline_rows k p :: write_batches (S k) t
  end.

Lemma write_from_concat : forall ps k, write_from k ps = concat (write_batches k ps).
Proof. induction ps as [|p t IH]; intros; simpl; [reflexivity|]. rewrite IH. reflexivity. Qed.

Lemma pipeline_rows_nonempty : forall k p, pm_ops p <> [] ->
  exists r t, pipeline_rows k p = r :: t /\ r_pid r = k.
Proof.
  intros k p H. unfold pipeline_rows. destruct (pm_ops p) as [|o t]; [contradiction|].
  simpl. eauto.
Qed.

Lemma batches_write_from : forall ps k,
  Forall (fun p => pm_ops p <> []) ps ->
  batches (write_from k ps) = write_batches k ps.
Proof.
  induction ps as [|p t IH]; intros k H; simpl; [reflexivity|].
  inversion H as [|? ? Hp Ht]; subst.
  destruct (pipeline_rows_nonempty k p Hp) as (r & rs & E & Hr).
  assert (Hall : Forall (fun r => r_pid r = k) (pipeline_rows k p)) by apply pipeline_rows_from_pid.
  rewrite E in *. simpl. rewrite Hr.
  inversion Hall as [|? ? _ Hrs]; subst.
  rewrite batch_loop_block by assumption. simpl.
  specialize (IH (S (r_pid r)) Ht). rewrite <- IH.
  destruct t as [|p' t']; simpl; [reflexivity|].
  inversion Ht as [|? ? Hp' _]; subst.
  destruct (pipeline_rows_nonempty (S (r_pid r)) p' Hp') as (r' & rs' & E' & Hr').
  rewrite E'. simpl. rewrite Hr'.
  replace (S (r_pid r) =? r_pid r) with false by (symmetry; apply Nat.eqb_neq; lia).
  reflexivity.
Qed.

(* ------------------------------------------------------------------------------------------ *)
(* write, then read *)

Definition dict_id_below (d : opdict) (i : nat) : Prop := forall j, j < i -> dict_get d j = Some j.

Lemma dict_id_below_step : forall d i, dict_id_below d i -> dict_id_below ((i, i) :: d) (S i).
Proof.
  intros d i H j Hj. simpl. destruct (i =? j) eqn:E.
  - apply Nat.eqb_eq in E. subst. reflexivity.
  - apply Nat.eqb_neq in E. apply H. lia.
Qed.

Lemma resolve_id : forall d i ps, dict_id_below d i -> Forall (fun j => j < i) ps -> resolve d ps = Some ps.
Proof.
  intros d i ps Hd. induction ps as [|p t IH]; intros H; simpl; [reflexivity|].
  inversion H; subst. rewrite Hd by assumption. rewrite IH by assumption. reflexivity.
Qed.

Lemma op_m_eta : forall o,
  {| om_parents := om_parents o;
     om_seg := {| sg_cpu_secs := sg_cpu_secs (om_seg o); sg_law := sg_law (om_seg o);
                  sg_mem := sg_mem (om_seg o); sg_read := sg_read (om_seg o) |} |} = o.
Proof. intros [ps [c l m r]]. reflexivity. Qed.

Lemma build_ops_written : forall ops k p d i,
  dict_id_below d i ->
  (forall n o, nth_error ops n = Some o -> Forall (fun j => j < i + n) (om_parents o)) ->
  build_ops d i (pipeline_rows_from k p i ops) = inr ops.
Proof.
  induction ops as [|o t IH]; intros k p d i Hd Hp; simpl; [reflexivity|].
  rewrite (resolve_id d i).
  - rewrite law_of_cell_idx. rewrite IH.
    + rewrite op_m_eta. reflexivity.
    + apply dict_id_below_step. assumption.
    + intros n o' Hn. specialize (Hp (S n) o' Hn). replace (S i + n) with (i + S n) by lia. assumption.
  - assumption.
  - specialize (Hp 0 o eq_refl). rewrite Nat.add_0_r in Hp. assumption.
Qed.

Lemma check_rows_written_later : forall ops k p i,
  check_rows k false (pipeline_rows_from k p (S i) ops) = None.
Proof.
  induction ops as [|o t IH]; intros; simpl; [reflexivity|].
  rewrite Nat.eqb_refl. simpl. apply IH.
Qed.

Lemma create_pipeline_written : forall k p, wf_pipeline p -> create_pipeline (pipeline_rows k p) = inr p.
Proof.
  intros k p [Hne Hpar]. unfold pipeline_rows.
  pose proof (build_ops_written (pm_ops p) k p [] 0) as Hb.
  destruct (pm_ops p) as [|o t] eqn:E; [contradiction|].
  simpl pipeline_rows_from at 1. unfold create_pipeline.
  simpl r_prio. simpl r_pid. rewrite prio_of_cell_cell.
  change (op_row k p 0 o :: pipeline_rows_from k p 1 t) with (pipeline_rows_from k p 0 (o :: t)).
  rewrite Hb.
  - simpl check_rows. rewrite Nat.eqb_refl. simpl.
    destruct (pm_prio p) eqn:Epr; simpl; rewrite check_rows_written_later;
      destruct p as [pr ar ops]; simpl in *; subst; reflexivity.
  - intros j Hj. lia.
  - intros n o' Hn. simpl. apply Hpar. assumption.
Qed.

Lemma read_batches_written : forall ps k, Forall wf_pipeline ps -> read_batches (write_batches k ps) = inr ps.
Proof.
  induction ps as [|p t IH]; intros k H; simpl; [reflexivity|].
  inversion H; subst. rewrite create_pipeline_written by assumption. rewrite IH by assumption. reflexivity.
Qed.

Theorem read_write : forall ps, Forall wf_pipeline ps -> read_rows (write_rows ps) = Ok ps.
Proof.
  intros ps H. unfold read_rows, read_rows_c, write_rows.
  rewrite batches_write_from.
  - rewrite read_batches_written by assumption. reflexivity.
  - eapply Forall_impl; [|exact H]. intros p [Hne _]. exact Hne.
Qed.

(* the pipeline ids of the batches of a written file are 0, 1, 2, ... *)
Lemma batch_ids_written_from : forall ps k, Forall wf_pipeline ps ->
  map (fun b => match b with r :: _ => r_pid r | [] => 0 end) (write_batches k ps) = seq k (length ps).
Proof.
  induction ps as [|p t IH]; intros k H; simpl; [reflexivity|].
  inversion H as [|? ? [Hne _] Ht]; subst.
  destruct (pipeline_rows_nonempty k p Hne) as (r & rs & E & Hr).
  rewrite E, Hr, IH by assumption. reflexivity.
Qed.

Lemma batch_ids_written : forall ps, Forall wf_pipeline ps -> batch_ids (write_rows ps) = seq 0 (length ps).
Proof.
  intros ps H. unfold batch_ids, write_rows. rewrite batches_write_from.
  - apply batch_ids_written_from. assumption.
  - eapply Forall_impl; [|exact H]. intros p [Hne _]. exact Hne.
Qed.

(* ------------------------------------------------------------------------------------------ *)
(* read, then write *)

Definition dict_only_id (d : opdict) : Prop := forall t x, dict_get d t = Some x -> x = t.

Lemma dict_only_id_step : forall d i, dict_only_id d -> dict_only_id ((i, i) :: d).
Proof.
  intros d i H t x. simpl. destruct (i =? t) eqn:E.
  - apply Nat.eqb_eq in E. intros [= <-]. assumption.
  - apply H.
Qed.

Lemma resolve_only_id : forall d ps l, dict_only_id d -> resolve d ps = Some l -> l = ps.
Proof.
  intros d ps. induction ps as [|p t IH]; intros l Hd H; simpl in H.
  - inversion H. reflexivity.
  - destruct (dict_get d p) as [x|] eqn:E; [|discriminate].
    destruct (resolve d t) as [l'|] eqn:E'; [|discriminate].
    inversion H; subst. apply Hd in E. subst. f_equal. apply IH; [assumption|reflexivity].
Qed.

Lemma rows_of_built_later : forall b k p d i ops,
  dict_only_id d ->
  check_rows k false b = None ->
  (forall n r, nth_error b n = Some r -> r_op r = S i + n) ->
  build_ops d (S i) b = inr ops ->
  pipeline_rows_from k p (S i) ops = b.
Proof.
  induction b as [|r t IH]; intros k p d i ops Hd Hc Hop Hb; simpl in Hb.
  - inversion Hb. reflexivity.
  - simpl in Hc.
    destruct (r_pid r =? k) eqn:Epid; simpl in Hc; [|discriminate].
    destruct (r_prio r =? 0) eqn:Epr; simpl in Hc; [|discriminate].
    destruct (r_arr r) as [a|] eqn:Ea; [discriminate|].
    destruct (resolve d (r_parents r)) as [ps|] eqn:Er; [|discriminate].
    destruct (law_of_cell (r_law r)) as [l|] eqn:El; [|discriminate].
    pose proof (Hop 0 r eq_refl) as Hr0. rewrite Nat.add_0_r in Hr0.
    destruct (build_ops ((r_op r, S i) :: d) (S (S i)) t) as [e|ops'] eqn:Eb; [discriminate|].
    inversion Hb; subst ops. simpl.
    apply Nat.eqb_eq in Epid. apply Nat.eqb_eq in Epr.
    apply resolve_only_id in Er; [|assumption]. apply law_idx_of_cell in El.
    f_equal.
    + unfold op_row. simpl. destruct r; simpl in *; subst. reflexivity.
    + rewrite Hr0 in Eb. eapply IH; [| | |exact Eb].
      * apply dict_only_id_step. assumption.
      * assumption.
      * intros n r' Hn. specialize (Hop (S n) r' Hn). lia.
Qed.

Lemma rows_of_created : forall b k p,
  canonical_batch k b -> create_pipeline b = inr p -> pipeline_rows k p = b.
Proof.
  intros b k p [Hpid Hop] Hc. unfold create_pipeline in Hc.
  destruct b as [|r0 t]; [discriminate|].
  specialize (Hpid r0 t eq_refl).
  destruct (prio_of_cell (r_prio r0)) as [pr|] eqn:Epr; [|discriminate].
  destruct (check_rows (r_pid r0) true (r0 :: t)) as [e|] eqn:Ec; [discriminate|].
  destruct (build_ops [] 0 (r0 :: t)) as [e|ops] eqn:Eb; [discriminate|].
  inversion Hc; subst p. clear Hc.
  simpl in Ec. rewrite Nat.eqb_refl in Ec. simpl in Ec.
  destruct (r_prio r0 =? 0) eqn:E0; [discriminate|].
  destruct (r_arr r0) as [a|] eqn:Ea; [|discriminate].
  simpl in Eb.
  destruct (resolve [] (r_parents r0)) as [ps|] eqn:Er; [|discriminate].
  destruct (law_of_cell (r_law r0)) as [l|] eqn:El; [|discriminate].
  pose proof (Hop 0 r0 eq_refl) as Hr0.
  destruct (build_ops [(r_op r0, 0)] 1 t) as [e|ops'] eqn:Eb'; [discriminate|].
  inversion Eb; subst ops. unfold pipeline_rows. simpl.
  apply resolve_only_id in Er; [|intros ? ? H; discriminate H].
  apply law_idx_of_cell in El. apply prio_cell_of_cell in Epr.
  f_equal.
  - unfold op_row. simpl. destruct r0; simpl in *; subst. reflexivity.
  - rewrite Hr0 in Eb'. rewrite Hpid in Ec. eapply rows_of_built_later; [| | |exact Eb'].
    + apply (dict_only_id_step [] 0). intros ? ? H; discriminate H.
    + assumption.
    + intros n r' Hn. apply (Hop (S n) r' Hn).
Qed.

Lemma write_of_read_batches : forall bs k ps,
  (forall j b, nth_error bs j = Some b -> canonical_batch (k + j) b) ->
  read_batches bs = inr ps ->
  write_batches k ps = bs.
Proof.
  induction bs as [|b t IH]; intros k ps Hc H; simpl in H.
  - inversion H. reflexivity.
  - destruct (create_pipeline b) as [e|p] eqn:E; [discriminate|].
    destruct (read_batches t) as [e|ps'] eqn:E'; [discriminate|].
    inversion H; subst ps. simpl. f_equal.
    + apply rows_of_created; [|assumption]. specialize (Hc 0 b eq_refl). rewrite Nat.add_0_r in Hc. assumption.
    + apply IH; [|reflexivity]. intros j b' Hj. specialize (Hc (S j) b' Hj).
      replace (S k + j) with (k + S j) by lia. assumption.
Qed.

Lemma read_rows_ok_c : forall rows ps, read_rows rows = Ok ps <-> read_rows_c rows = inr ps.
Proof.
  intros rows ps. unfold read_rows. destruct (read_rows_c rows) as [e|ps']; split; intros H;
    try discriminate; inversion H; reflexivity.
Qed.

Theorem write_read_exact : forall rows ps,
  read_rows rows = Ok ps -> canonical_ids rows -> write_rows ps = rows.
Proof.
  intros rows ps H Hc. apply read_rows_ok_c in H. unfold read_rows_c in H.
  unfold write_rows. rewrite write_from_concat.
  rewrite (write_of_read_batches (batches rows) 0 ps); [apply batches_concat| |assumption].
  intros j b Hj. simpl. apply Hc. assumption.
Qed.

Lemma blank_rows_from : forall ops k p q i, pm_prio p = pm_prio q ->
  map blank_arrival (pipeline_rows_from k p i ops) = map blank_arrival (pipeline_rows_from k q i ops).
Proof.
  induction ops as [|o t IH]; intros k p q i H; simpl; [reflexivity|].
  rewrite (IH k p q (S i) H). f_equal. unfold blank_arrival, op_row. simpl. rewrite H. reflexivity.
Qed.

Lemma blank_write_from : forall a b, same_except_arrival a b ->
  forall k, map blank_arrival (write_from k a) = map blank_arrival (write_from k b).
Proof.
  induction 1 as [|p q a b [Hpr Hops] _ IH]; intros k; simpl; [reflexivity|].
  rewrite !map_app. rewrite IH. f_equal. unfold pipeline_rows. rewrite Hops. apply blank_rows_from. assumption.
Qed.

Theorem write_read : forall rows ps,
  read_rows rows = Ok ps -> canonical_ids rows ->
  forall ps', same_except_arrival ps' ps -> rows_eq_except_arrival (write_rows ps') rows.
Proof.
  intros rows ps H Hc ps' Hs. unfold rows_eq_except_arrival.
  rewrite <- (write_read_exact rows ps H Hc). apply blank_write_from. assumption.
Qed.

(* ------------------------------------------------------------------------------------------ *)
(* the format rules *)

Lemma check_rows_later_ok : forall b k, check_rows k false b = None ->
  Forall (fun r => r_prio r = 0 /\ r_arr r = None) b /\ Forall (fun r => r_pid r = k) b.
Proof.
  induction b as [|r t IH]; intros k H; simpl in H; [split; constructor|].
  destruct (r_pid r =? k) eqn:Epid; simpl in H; [|discriminate].
  destruct (r_prio r =? 0) eqn:Epr; simpl in H; [|discriminate].
  destruct (r_arr r) as [a|] eqn:Ea; [discriminate|].
  apply Nat.eqb_eq in Epid. apply Nat.eqb_eq in Epr.
  destruct (IH k H). split; constructor; auto.
Qed.

Lemma resolve_some_defined : forall d ps l, resolve d ps = Some l -> forall t, In t ps -> dict_get d t <> None.
Proof.
  intros d ps. induction ps as [|p t IH]; intros l H x Hin; simpl in H; [contradiction|].
  destruct (dict_get d p) as [i|] eqn:E; [|discriminate].
  destruct (resolve d t) as [l'|] eqn:E'; [|discriminate].
  destruct Hin as [<-|Hin]; [congruence|]. eapply IH; eauto.
Qed.

Lemma resolve_defined_some : forall d ps, (forall t, In t ps -> dict_get d t <> None) -> exists l, resolve d ps = Some l.
Proof.
  intros d ps. induction ps as [|p t IH]; intros H; simpl; [eauto|].
  destruct (dict_get d p) as [i|] eqn:E; [|exfalso; apply (H p); [left; reflexivity|assumption]].
  destruct IH as [l El]; [intros x Hx; apply H; right; assumption|]. rewrite El. eauto.
Qed.

(* the dict holds exactly the operator ids of the rows seen so far *)
Lemma build_ops_rules : forall b d i ops, build_ops d i b = inr ops ->
  Forall (fun r => r_law r < 7) b /\
  forall n r t, nth_error b n = Some r -> In t (r_parents r) ->
    dict_get d t <> None \/ exists m r', m < n /\ nth_error b m = Some r' /\ r_op r' = t.
Proof.
  induction b as [|r t IH]; intros d i ops H; simpl in H.
  - split; [constructor|]. intros [|n] ? ? Hn; discriminate Hn.
  - destruct (resolve d (r_parents r)) as [ps|] eqn:Er; [|discriminate].
    destruct (law_of_cell (r_law r)) as [l|] eqn:El; [|discriminate].
    destruct (build_ops ((r_op r, i) :: d) (S i) t) as [e|ops'] eqn:Eb; [discriminate|].
    destruct (IH _ _ _ Eb) as [Hlaw Hpar]. split.
    + constructor; [eapply law_of_cell_range; eauto|assumption].
    + intros [|n] r' x Hn Hin; simpl in Hn.
      * inversion Hn; subst r'. left. eapply resolve_some_defined; eauto.
      * destruct (Hpar n r' x Hn Hin) as [Hd|(m & r'' & Hm & Hnth & Hop)].
        -- simpl in Hd. destruct (r_op r =? x) eqn:E.
           ++ apply Nat.eqb_eq in E. right. exists 0, r. repeat split; [lia|assumption].
           ++ left. assumption.
        -- right. exists (S m), r''. repeat split; [lia|assumption|assumption].
Qed.

Lemma create_pipeline_rules : forall b p, create_pipeline b = inr p -> batch_rules b.
Proof.
  intros b p Hc. unfold create_pipeline in Hc. destruct b as [|r0 t]; [discriminate|].
  destruct (prio_of_cell (r_prio r0)) as [pr|] eqn:Epr; [|discriminate].
  destruct (check_rows (r_pid r0) true (r0 :: t)) as [e|] eqn:Ec; [discriminate|].
  destruct (build_ops [] 0 (r0 :: t)) as [e|ops] eqn:Eb; [discriminate|].
  simpl in Ec. rewrite Nat.eqb_refl in Ec. simpl in Ec.
  destruct (r_prio r0 =? 0) eqn:E0; [discriminate|].
  destruct (r_arr r0) as [a|] eqn:Ea; [|discriminate].
  apply check_rows_later_ok in Ec. destruct Ec as [Hlater _].
  apply build_ops_rules in Eb. destruct Eb as [Hlaw Hpar].
  simpl. repeat split.
  - eapply prio_of_cell_range; eauto.
  - eapply prio_of_cell_range; eauto.
  - congruence.
  - assumption.
  - assumption.
  - intros n r x Hn Hin. destruct (Hpar n r x Hn Hin) as [Hd|H]; [exfalso; apply Hd; reflexivity|assumption].
Qed.

Lemma read_batches_all : forall bs ps, read_batches bs = inr ps ->
  forall b, In b bs -> exists p, create_pipeline b = inr p.
Proof.
  induction bs as [|b t IH]; intros ps H b' Hin; simpl in H; [contradiction|].
  destruct (create_pipeline b) as [e|p] eqn:E; [discriminate|].
  destruct (read_batches t) as [e|ps'] eqn:E'; [discriminate|].
  destruct Hin as [<-|Hin]; [eauto|]. eapply IH; eauto.
Qed.

Theorem read_rows_ok_implies_rules : forall rows ps, read_rows rows = Ok ps ->
  forall b, In b (batches rows) -> batch_rules b.
Proof.
  intros rows ps H b Hin. apply read_rows_ok_c in H.
  destruct (read_batches_all _ _ H b Hin) as [p Hp]. eapply create_pipeline_rules; eauto.
Qed.

Lemma read_rows_cases : forall rows, (exists ps, read_rows rows = Ok ps) \/ read_rows rows = Err EOther.
Proof. intros rows. unfold read_rows. destruct (read_rows_c rows); eauto. Qed.

Lemma broken_rule_refused : forall rows b, In b (batches rows) -> ~ batch_rules b -> read_rows rows = Err EOther.
Proof.
  intros rows b Hin Hbad. destruct (read_rows_cases rows) as [[ps H]|H]; [|assumption].
  exfalso. apply Hbad. eapply read_rows_ok_implies_rules; eauto.
Qed.

(* one lemma per rule of the property text: [b] is a batch of the file, [r0] its first row *)
Lemma first_row_without_priority_refused : forall rows r0 t,
  In (r0 :: t) (batches rows) -> r_prio r0 = 0 -> read_rows rows = Err EOther.
Proof.
  intros rows r0 t Hin H. eapply broken_rule_refused; [exact Hin|]. simpl. intros (Hp & _). lia.
Qed.

Lemma unknown_priority_refused : forall rows r0 t,
  In (r0 :: t) (batches rows) -> 3 < r_prio r0 -> read_rows rows = Err EOther.
Proof.
  intros rows r0 t Hin H. eapply broken_rule_refused; [exact Hin|]. simpl. intros (Hp & _). lia.
Qed.

Lemma first_row_without_arrival_refused : forall rows r0 t,
  In (r0 :: t) (batches rows) -> r_arr r0 = None -> read_rows rows = Err EOther.
Proof.
  intros rows r0 t Hin H. eapply broken_rule_refused; [exact Hin|]. simpl. intros (_ & Ha & _). auto.
Qed.

Lemma later_row_with_priority_refused : forall rows r0 t r,
  In (r0 :: t) (batches rows) -> In r t -> r_prio r <> 0 -> read_rows rows = Err EOther.
Proof.
  intros rows r0 t r Hin Hr H. eapply broken_rule_refused; [exact Hin|]. simpl. intros (_ & _ & Hl & _).
  rewrite Forall_forall in Hl. destruct (Hl r Hr). contradiction.
Qed.

Lemma later_row_with_arrival_refused : forall rows r0 t r,
  In (r0 :: t) (batches rows) -> In r t -> r_arr r <> None -> read_rows rows = Err EOther.
Proof.
  intros rows r0 t r Hin Hr H. eapply broken_rule_refused; [exact Hin|]. simpl. intros (_ & _ & Hl & _).
  rewrite Forall_forall in Hl. destruct (Hl r Hr). contradiction.
Qed.

Lemma unknown_law_refused : forall rows b r,
  In b (batches rows) -> In r b -> 7 <= r_law r -> read_rows rows = Err EOther.
Proof.
  intros rows b r Hin Hr H. eapply broken_rule_refused; [exact Hin|].
  destruct b as [|r0 t]; [auto|]. simpl. intros (_ & _ & _ & Hl & _).
  rewrite Forall_forall in Hl. specialize (Hl r Hr). lia.
Qed.

Lemma undefined_parent_refused : forall rows b n r x,
  In b (batches rows) -> nth_error b n = Some r -> In x (r_parents r) ->
  (forall m r', m < n -> nth_error b m = Some r' -> r_op r' <> x) ->
  read_rows rows = Err EOther.
Proof.
  intros rows b n r x Hin Hn Hx Hnone. eapply broken_rule_refused; [exact Hin|].
  destruct b as [|r0 t]; [auto|]. simpl. intros (_ & _ & _ & _ & Hp).
  destruct (Hp n r x Hn Hx) as (m & r' & Hm & Hnth & Hop). eapply Hnone; eauto.
Qed.

(* ... and nothing else is refused: a file whose batches all satisfy the rules is loaded *)
Lemma check_rows_later_none : forall b k,
  Forall (fun r => r_prio r = 0 /\ r_arr r = None) b -> Forall (fun r => r_pid r = k) b ->
  check_rows k false b = None.
Proof.
  induction b as [|r t IH]; intros k H1 H2; simpl; [reflexivity|].
  inversion H1 as [|? ? [Hp Ha] H1']; inversion H2 as [|? ? Hk H2']; subst.
  rewrite Nat.eqb_refl. simpl. rewrite Hp. simpl. rewrite Ha. apply IH; assumption.
Qed.

Lemma build_ops_complete : forall b d i,
  Forall (fun r => r_law r < 7) b ->
  (forall n r t, nth_error b n = Some r -> In t (r_parents r) ->
     dict_get d t <> None \/ exists m r', m < n /\ nth_error b m = Some r' /\ r_op r' = t) ->
  exists ops, build_ops d i b = inr ops.
Proof.
  induction b as [|r t IH]; intros d i Hlaw Hpar; simpl; [eauto|].
  inversion Hlaw as [|? ? Hl Hlaw']; subst.
  destruct (resolve_defined_some d (r_parents r)) as [ps Eps].
  { intros x Hx. destruct (Hpar 0 r x eq_refl Hx) as [H|(m & _ & Hm & _)]; [assumption|lia]. }
  rewrite Eps. destruct (law_of_cell_some _ Hl) as [l El]. rewrite El.
  destruct (IH ((r_op r, i) :: d) (S i) Hlaw') as [ops Eops].
  { intros n r' x Hn Hx. destruct (Hpar (S n) r' x Hn Hx) as [H|(m & r'' & Hm & Hnth & Hop)].
    - left. simpl. destruct (r_op r =? x); [discriminate|assumption].
    - destruct m as [|m].
      + simpl in Hnth. inversion Hnth; subst r''. left. simpl. rewrite Hop, Nat.eqb_refl. discriminate.
      + right. exists m, r''. repeat split; [lia|assumption|assumption]. }
  rewrite Eops. eauto.
Qed.

Lemma create_pipeline_complete : forall b k, Forall (fun r => r_pid r = k) b -> batch_rules b ->
  exists p, create_pipeline b = inr p.
Proof.
  intros b k Hk Hr. destruct b as [|r0 t]; [contradiction|].
  simpl in Hr. destruct Hr as (Hp & Ha & Hlater & Hlaw & Hpar).
  inversion Hk as [|? ? Hk0 Hkt]; subst.
  destruct (prio_of_cell_some _ Hp) as [pr Epr].
  assert (Ec : check_rows (r_pid r0) true (r0 :: t) = None).
  { simpl. rewrite Nat.eqb_refl. simpl.
    destruct (r_prio r0 =? 0) eqn:E0; [apply Nat.eqb_eq in E0; lia|].
    destruct (r_arr r0) as [a|] eqn:Ea; [|contradiction].
    apply check_rows_later_none; assumption. }
  destruct (build_ops_complete (r0 :: t) [] 0 Hlaw) as [ops Eops].
  { intros n r x Hn Hx. right. apply (Hpar n r x Hn Hx). }
  unfold create_pipeline. rewrite Epr, Ec, Eops. eauto.
Qed.

Lemma read_batches_complete : forall bs, (forall b, In b bs -> exists p, create_pipeline b = inr p) ->
  exists ps, read_batches bs = inr ps.
Proof.
  induction bs as [|b t IH]; intros H; simpl; [eauto|].
  destruct (H b (or_introl eq_refl)) as [p Ep]. rewrite Ep.
  destruct IH as [ps Eps]; [intros b' Hb'; apply H; right; assumption|]. rewrite Eps. eauto.
Qed.

Theorem rules_imply_read_rows_ok : forall rows,
  (forall b, In b (batches rows) -> batch_rules b) -> exists ps, read_rows rows = Ok ps.
Proof.
  intros rows H. destruct (read_batches_complete (batches rows)) as [ps Eps].
  - intros b Hb. destruct (batches_uniform rows b Hb) as [_ [k Hk]].
    eapply create_pipeline_complete; eauto.
  - exists ps. apply read_rows_ok_c. exact Eps.
Qed.

(* ------------------------------------------------------------------------------------------ *)
(* examples *)
Module Examples.
Definition sg (c : Q) (l : law) (m : option Q) (r : Q) : seg :=
  {| sg_cpu_secs := c; sg_law := l; sg_mem := m; sg_read := r |}.
(* two roots, a join of both, a second child of the first root, a sink joining the two: a diamond on two roots;
   memory Some 0 on one operator, None on another *)
Definition diamond : pipeline_m :=
  {| pm_prio := Interactive; pm_arr := (7 # 2)%Q;
     pm_ops := [ {| om_parents := [];     om_seg := sg (1 # 1000000000) Const (Some 0%Q) 0%Q |};
                 {| om_parents := [];     om_seg := sg 1000000000000%Q Log None (1 # 2)%Q |};
                 {| om_parents := [1; 0]; om_seg := sg (57 # 100) Linear3 (Some (3 # 2)%Q) 55%Q |};
                 {| om_parents := [0];    om_seg := sg 2%Q Squared None 0%Q |};
                 {| om_parents := [2; 3]; om_seg := sg 0%Q Exp (Some 0%Q) (1 # 3)%Q |} ] |}.
Definition single : pipeline_m :=
  {| pm_prio := Query; pm_arr := (7 # 2)%Q;
     pm_ops := [ {| om_parents := []; om_seg := sg 1%Q Sqrt None 4%Q |} ] |}.
Definition file := write_rows [diamond; single; diamond].

Lemma wf_examples : Forall wf_pipeline [diamond; single; diamond].
Proof.
  assert (Hd : wf_pipeline diamond).
  { split; [discriminate|]. intros i o H.
    do 5 (destruct i as [|i]; [inversion H; subst; simpl; repeat constructor|]).
    destruct i; discriminate H. }
  assert (Hs : wf_pipeline single).
  { split; [discriminate|]. intros i o H.
    destruct i as [|i]; [inversion H; subst; simpl; repeat constructor|]. destruct i; discriminate H. }
  do 3 (constructor; [assumption|]). constructor.
Qed.

Lemma ex_read_write : read_rows file = Ok [diamond; single; diamond] /\ length file = 11 /\
  map r_mem (firstn 2 file) = [Some 0%Q; None].
Proof. vm_compute. repeat split. Qed.

Lemma ex_canonical : canonical_ids file.
Proof.
  intros k b H. vm_compute in H.
  do 3 (destruct k as [|k]; [inversion H; subst b; split;
    [intros r t E; inversion E; reflexivity
    |intros i r Hi; do 5 (destruct i as [|i]; [inversion Hi; reflexivity|]); destruct i; discriminate Hi]|]).
  destruct k; discriminate H.
Qed.

(* memory "0" and memory "" are different files and different pipelines *)
Definition row0 (m : option Q) : row :=
  {| r_pid := 0; r_arr := Some 0%Q; r_prio := 3; r_op := 0; r_parents := []; r_cpu := 1%Q; r_law := 0;
     r_mem := m; r_read := 5%Q |}.
Lemma ex_memory_zero_vs_unset :
  read_rows [row0 (Some 0%Q)] = Ok [{| pm_prio := Batch; pm_arr := 0%Q;
                                       pm_ops := [{| om_parents := []; om_seg := sg 1%Q Const (Some 0%Q) 5%Q |}] |}] /\
  read_rows [row0 None] = Ok [{| pm_prio := Batch; pm_arr := 0%Q;
                                 pm_ops := [{| om_parents := []; om_seg := sg 1%Q Const None 5%Q |}] |}].
Proof. vm_compute. split; reflexivity. Qed.

(* each malformation of [file] is refused, with its cause *)
Definition upd (n : nat) (f : row -> row) (l : list row) : list row :=
  firstn n l ++ match skipn n l with r :: t => f r :: t | [] => [] end.
Definition set_prio (c : nat) (r : row) : row :=
  {| r_pid := r_pid r; r_arr := r_arr r; r_prio := c; r_op := r_op r; r_parents := r_parents r;
     r_cpu := r_cpu r; r_law := r_law r; r_mem := r_mem r; r_read := r_read r |}.
Definition set_arr (a : option Q) (r : row) : row :=
  {| r_pid := r_pid r; r_arr := a; r_prio := r_prio r; r_op := r_op r; r_parents := r_parents r;
     r_cpu := r_cpu r; r_law := r_law r; r_mem := r_mem r; r_read := r_read r |}.
Definition set_law (c : nat) (r : row) : row :=
  {| r_pid := r_pid r; r_arr := r_arr r; r_prio := r_prio r; r_op := r_op r; r_parents := r_parents r;
     r_cpu := r_cpu r; r_law := c; r_mem := r_mem r; r_read := r_read r |}.
Definition set_parents (ps : list nat) (r : row) : row :=
  {| r_pid := r_pid r; r_arr := r_arr r; r_prio := r_prio r; r_op := r_op r; r_parents := ps;
     r_cpu := r_cpu r; r_law := r_law r; r_mem := r_mem r; r_read := r_read r |}.

Lemma ex_refusals :
  read_rows_c (upd 5 (set_prio 0) file) = inl RBlankPriority /\
  read_rows_c (upd 5 (set_prio 4) file) = inl RUnknownPriority /\
  read_rows_c (upd 6 (set_arr None) file) = inl RFirstNoArrival /\
  read_rows_c (upd 8 (set_prio 2) file) = inl RLaterPriority /\
  read_rows_c (upd 8 (set_arr (Some 0%Q)) file) = inl RLaterArrival /\
  read_rows_c (upd 3 (set_law 7) file) = inl RUnknownLaw /\
  read_rows_c (upd 2 (set_parents [1; 3]) file) = inl RUndefinedParent /\
  read_rows_c (upd 5 (set_parents [0]) file) = inl RUndefinedParent /\
  read_rows (upd 5 (set_parents [0]) file) = Err EOther.
Proof. vm_compute. repeat split. Qed.

(* a later row that re-uses an operator id shadows the earlier one (not one of the listed rules: accepted) *)
Definition set_op (c : nat) (r : row) : row :=
  {| r_pid := r_pid r; r_arr := r_arr r; r_prio := r_prio r; r_op := c; r_parents := r_parents r;
     r_cpu := r_cpu r; r_law := r_law r; r_mem := r_mem r; r_read := r_read r |}.
Lemma ex_duplicate_operator_id :
  exists p q, read_rows (upd 1 (set_op 0) (upd 2 (set_parents [0]) file)) = Ok [p; single; q] /\
              map om_parents (pm_ops p) = [[]; []; [1]; [1]; [2; 3]].
Proof. eexists. eexists. vm_compute. split; reflexivity. Qed.

(* a pipeline without operators writes no row: it is not there after the round trip *)
Lemma ex_empty_pipeline_vanishes :
  read_rows (write_rows [single; {| pm_prio := Batch; pm_arr := 1%Q; pm_ops := [] |}; single]) = Ok [single; single].
Proof. vm_compute. reflexivity. Qed.
End Examples.
