(* C16: the priority-pool scheduler (Model/Sched.v, priority_pool_step) keeps query/interactive work on
   pool 0 and batch work on pool 1, never suspends, retries the unfinished operators of a failed
   container together, abandons a retry whose doubled request reaches half of the pool, and its
   internal "depleted" assertion cannot fire from a both-or-none snapshot. *)
From Coq Require Import ZArith QArith List Bool Arith Lia Lqa.
Import ListNotations.
From Eudoxia Require Import Num.Rnd64 Model.Types Model.Dag Model.Lifecycle Model.Container Model.Pool
  Model.Executor Model.Sched Proofs.ListFacts Proofs.LifecycleFacts Proofs.ExecLifeFacts.
Close Scope Q_scope.
Close Scope Z_scope.

(* ------------------------------------------------------------------------------------------ *)
(* 0. small facts                                                                              *)
(* ------------------------------------------------------------------------------------------ *)

Lemma prio_eqb_eq a b : prio_eqb a b = true <-> a = b.
Proof. destruct a, b; cbn; split; intros H; try reflexivity; try discriminate. Qed.

Lemma prio_eqb_refl a : prio_eqb a a = true.
Proof. destruct a; reflexivity. Qed.

Lemma Qleb_true a b : Qleb a b = true <-> (a <= b)%Q.
Proof. unfold Qleb. apply Qle_bool_iff. Qed.

Lemma Qleb_false a b : Qleb a b = false <-> (b < a)%Q.
Proof.
  unfold Qleb. split; intros H.
  - apply Qnot_le_lt. intros L. apply Qle_bool_iff in L. congruence.
  - destruct (Qle_bool a b) eqn:E; [|reflexivity]. apply Qle_bool_iff in E. lra.
Qed.

Lemma Qltb_true a b : Qltb a b = true <-> (a < b)%Q.
Proof. unfold Qltb. rewrite negb_true_iff. apply (Qleb_false b a). Qed.

Lemma Qltb_false a b : Qltb a b = false <-> (b <= a)%Q.
Proof. unfold Qltb. rewrite negb_false_iff. apply (Qleb_true b a). Qed.

Lemma Qeqb_true a b : Qeqb a b = true <-> (a == b)%Q.
Proof. unfold Qeqb. apply Qeq_bool_iff. Qed.

Lemma Qeqb_false a b : Qeqb a b = false <-> ~ (a == b)%Q.
Proof.
  unfold Qeqb. split; intros H.
  - intros E. apply Qeq_bool_iff in E. congruence.
  - destruct (Qeq_bool a b) eqn:E; [|reflexivity]. apply Qeq_bool_iff in E. contradiction.
Qed.

(* the queue of a class after a push *)
Definition is_class (p : prio) (j : job) : bool := prio_eqb (j_prio j) p.

Lemma queue_of_push s j q p :
  queue_of (push_job s j q) p = queue_of s p ++ (if prio_eqb q p then [j] else []).
Proof. destruct q, p; cbn; try rewrite app_nil_r; reflexivity. Qed.

Lemma push_job_suspending s j q : ss_suspending (push_job s j q) = ss_suspending s.
Proof. destruct q; reflexivity. Qed.
Lemma push_job_requeued s j q : ss_requeued (push_job s j q) = ss_requeued s.
Proof. destruct q; reflexivity. Qed.
Lemma push_job_oom s j q : ss_oom (push_job s j q) = ss_oom s.
Proof. destruct q; reflexivity. Qed.
Lemma push_job_queue s j q : ss_queue (push_job s j q) = ss_queue s.
Proof. destruct q; reflexivity. Qed.
Lemma push_job_fail s j q : ss_fail (push_job s j q) = ss_fail s.
Proof. destruct q; reflexivity. Qed.

(* pushing a list of jobs, each under its own priority *)
Lemma queue_of_push_own s j p :
  queue_of (push_job s j (j_prio j)) p = queue_of s p ++ filter (is_class p) [j].
Proof. rewrite queue_of_push. cbn [filter]. unfold is_class. destruct (prio_eqb (j_prio j) p); reflexivity. Qed.

(* ------------------------------------------------------------------------------------------ *)
(* 1. one step of the scan: the request made for a job                                         *)
(* ------------------------------------------------------------------------------------------ *)

Definition mk_asg (j : job) (pid : nat) (cpu : Z) (ram : Q) : asg :=
  {| a_ops := j_ops j; a_cpu := cpu; a_ram := ram; a_prio := j_prio j; a_pool := Z.of_nat pid |}.

(* the 50% cut-off applies to this job (depends on the totals of the pool only) *)
Definition pp_drop (C : cfg) (x : pstat) (j : job) : bool :=
  match j_retry j with
  | Some rs => rt_err rs && over_half C x (2 * rt_cpu rs)%Z (2 * rt_ram rs)%Q
  | None => false
  end.

(* what is requested for job j when the running snapshot is x *)
Definition pp_size (C : cfg) (x : pstat) (j : job) : Z * Q :=
  match j_retry j with
  | Some rs =>
      if rt_err rs then
        if (ps_acpu x <=? 2 * rt_cpu rs)%Z || Qleb (ps_aram x) (2 * rt_ram rs)%Q
        then (ps_acpu x, ps_aram x) else ((2 * rt_cpu rs)%Z, (2 * rt_ram rs)%Q)
      else if (rt_cpu rs <=? ps_acpu x)%Z && Qleb (rt_ram rs) (ps_aram x) then
        if (rt_cpu rs =? ps_acpu x)%Z || Qeqb (rt_ram rs) (ps_aram x)
        then (ps_acpu x, ps_aram x) else (rt_cpu rs, rt_ram rs)
      else new_job_size C x
  | None => new_job_size C x
  end.

Definition pp_dead (x : pstat) : bool := Qeqb (ps_aram x) 0%Q || (ps_acpu x =? 0)%Z.
Definition pp_both (x : pstat) : bool := Qeqb (ps_aram x) 0%Q && (ps_acpu x =? 0)%Z.

Definition bump_n (r : res (nat * pstat * world * list asg * Z)) (a : option asg)
  : res (nat * pstat * world * list asg * Z) :=
  do r' <- r;
  let '(n, x'', w'', asgs, oom'') := r' in
  Ok (S n, x'', w'', (match a with Some y => y :: asgs | None => asgs end), oom'').

Lemma pp_scan_cons C w pid x j rest oom :
  pp_scan C w pid x (j :: rest) oom =
  if pp_dead x then (if pp_both x then Ok (0, x, w, [], oom) else Err ESchedAssert)
  else if pp_drop C x j then bump_n (pp_scan C w pid x rest (oom + 1)%Z) None
  else let a := mk_asg j pid (fst (pp_size C x j)) (snd (pp_size C x j)) in
       do w' <- mk_assignment C w a;
       bump_n (pp_scan C w' pid (ps_take x (a_cpu a) (a_ram a)) rest oom) (Some a).
Proof.
  cbn [pp_scan]. unfold pp_dead, pp_both, pp_drop, pp_size, bump_n, mk_asg.
  destruct (Qeqb (ps_aram x) 0 || (ps_acpu x =? 0)%Z); [reflexivity|].
  destruct (j_retry j) as [rs|].
  - destruct (rt_err rs); cbn [andb].
    + destruct (over_half C x (2 * rt_cpu rs)%Z (2 * rt_ram rs)%Q); [reflexivity|].
      destruct ((ps_acpu x <=? 2 * rt_cpu rs)%Z || Qleb (ps_aram x) (2 * rt_ram rs)%Q); reflexivity.
    + destruct ((rt_cpu rs <=? ps_acpu x)%Z && Qleb (rt_ram rs) (ps_aram x)).
      * destruct ((rt_cpu rs =? ps_acpu x)%Z || Qeqb (rt_ram rs) (ps_aram x)); reflexivity.
      * destruct (new_job_size C x) as [jc jr]. reflexivity.
  - destruct (new_job_size C x) as [jc jr]. reflexivity.
Qed.

(* ------------------------------------------------------------------------------------------ *)
(* 2. the scan as a relation                                                                   *)
(* ------------------------------------------------------------------------------------------ *)

Inductive pp_rel (C : cfg) (pid : nat) :
  world -> pstat -> list job -> Z -> nat -> pstat -> world -> list asg -> Z -> Prop :=
| ppr_nil w x oom : pp_rel C pid w x [] oom 0 x w [] oom
| ppr_stop w x j rest oom :
    (ps_aram x == 0)%Q -> ps_acpu x = 0%Z -> pp_rel C pid w x (j :: rest) oom 0 x w [] oom
| ppr_drop w x j rest oom n x' w' asgs oom' :
    ~ (ps_aram x == 0)%Q -> ps_acpu x <> 0%Z -> pp_drop C x j = true ->
    pp_rel C pid w x rest (oom + 1)%Z n x' w' asgs oom' ->
    pp_rel C pid w x (j :: rest) oom (S n) x' w' asgs oom'
| ppr_start w x j rest oom a w1 n x' w' asgs oom' :
    ~ (ps_aram x == 0)%Q -> ps_acpu x <> 0%Z -> pp_drop C x j = false ->
    a = mk_asg j pid (fst (pp_size C x j)) (snd (pp_size C x j)) ->
    mk_assignment C w a = Ok w1 ->
    pp_rel C pid w1 (ps_take x (a_cpu a) (a_ram a)) rest oom n x' w' asgs oom' ->
    pp_rel C pid w x (j :: rest) oom (S n) x' w' (a :: asgs) oom'.

Lemma pp_dead_false x : pp_dead x = false <-> ~ (ps_aram x == 0)%Q /\ ps_acpu x <> 0%Z.
Proof.
  unfold pp_dead. rewrite orb_false_iff, Qeqb_false, Z.eqb_neq. tauto.
Qed.

Lemma pp_both_true x : pp_both x = true <-> (ps_aram x == 0)%Q /\ ps_acpu x = 0%Z.
Proof. unfold pp_both. rewrite andb_true_iff, Qeqb_true, Z.eqb_eq. tauto. Qed.

Lemma pp_scan_rel C pid : forall queue w x oom n x' w' asgs oom',
  pp_scan C w pid x queue oom = Ok (n, x', w', asgs, oom') ->
  pp_rel C pid w x queue oom n x' w' asgs oom'.
Proof.
  induction queue as [|j rest IH]; intros w x oom n x' w' asgs oom' H.
  - cbn in H. inversion H; subst. constructor.
  - rewrite pp_scan_cons in H.
    destruct (pp_dead x) eqn:D.
    + destruct (pp_both x) eqn:B; [|discriminate H].
      inversion H; subst. apply pp_both_true in B. destruct B as [B1 B2]. apply ppr_stop; assumption.
    + apply pp_dead_false in D. destruct D as [D1 D2].
      destruct (pp_drop C x j) eqn:Dr.
      * unfold bump_n, bind in H.
        destruct (pp_scan C w pid x rest (oom + 1)%Z) as [[[[[n0 x0] w0] a0] o0]|e] eqn:E; [|discriminate H].
        inversion H; subst. apply ppr_drop; auto.
      * cbv zeta in H. unfold bind at 1 in H.
        destruct (mk_assignment C w _) as [w1|e] eqn:M; [|discriminate H].
        unfold bump_n, bind in H.
        destruct (pp_scan C w1 pid _ rest oom) as [[[[[n0 x0] w0] a0] o0]|e] eqn:E; [|discriminate H].
        inversion H; subst. eapply ppr_start; eauto.
Qed.

(* the converse: the relation determines the result *)
Lemma pp_rel_scan C pid w x queue oom n x' w' asgs oom' :
  pp_rel C pid w x queue oom n x' w' asgs oom' ->
  pp_scan C w pid x queue oom = Ok (n, x', w', asgs, oom').
Proof.
  induction 1 as [w x oom|w x j rest oom H1 H2|w x j rest oom n x' w' asgs oom' H1 H2 Dr _ IH
                 |w x j rest oom a w1 n x' w' asgs oom' H1 H2 Dr Ea M _ IH].
  - reflexivity.
  - rewrite pp_scan_cons.
    assert (D : pp_dead x = true) by (unfold pp_dead; apply orb_true_iff; left; apply Qeqb_true; exact H1).
    assert (B : pp_both x = true) by (apply pp_both_true; auto).
    rewrite D, B. reflexivity.
  - rewrite pp_scan_cons.
    assert (D : pp_dead x = false) by (apply pp_dead_false; auto).
    rewrite D, Dr, IH. reflexivity.
  - rewrite pp_scan_cons.
    assert (D : pp_dead x = false) by (apply pp_dead_false; auto).
    rewrite D, Dr. cbv zeta. rewrite <- Ea, M. unfold bind at 1. rewrite IH. reflexivity.
Qed.

(* ------------------------------------------------------------------------------------------ *)
(* 3. consequences (Q5: prefix, snapshot; Q4: cut-off)                                         *)
(* ------------------------------------------------------------------------------------------ *)

Lemma ps_take_tcpu x c r : ps_tcpu (ps_take x c r) = ps_tcpu x.
Proof. reflexivity. Qed.
Lemma ps_take_tram x c r : ps_tram (ps_take x c r) = ps_tram x.
Proof. reflexivity. Qed.
Lemma ps_take_acpu x c r : ps_acpu (ps_take x c r) = (ps_acpu x - c)%Z.
Proof. reflexivity. Qed.
Lemma ps_take_aram x c r : ps_aram (ps_take x c r) = (ps_aram x - r)%Q.
Proof. reflexivity. Qed.

Lemma over_half_totals C x1 x2 cpu ram :
  ps_tcpu x1 = ps_tcpu x2 -> ps_tram x1 = ps_tram x2 -> over_half C x1 cpu ram = over_half C x2 cpu ram.
Proof. unfold over_half. intros -> ->. reflexivity. Qed.

Lemma pp_drop_totals C x1 x2 j :
  ps_tcpu x1 = ps_tcpu x2 -> ps_tram x1 = ps_tram x2 -> pp_drop C x1 j = pp_drop C x2 j.
Proof.
  intros A B. unfold pp_drop. destruct (j_retry j) as [rs|]; [|reflexivity].
  rewrite (over_half_totals C x1 x2 _ _ A B). reflexivity.
Qed.

Lemma pp_rel_totals C pid w x queue oom n x' w' asgs oom' :
  pp_rel C pid w x queue oom n x' w' asgs oom' -> ps_tcpu x' = ps_tcpu x /\ ps_tram x' = ps_tram x.
Proof.
  induction 1 as [| | |w x j rest oom a w1 n x' w' asgs oom' H1 H2 Dr Ea M _ IH]; auto.
Qed.

(* Q5 (prefix): the scan removes a prefix of the queue *)
Lemma pp_rel_n_le C pid w x queue oom n x' w' asgs oom' :
  pp_rel C pid w x queue oom n x' w' asgs oom' -> n <= length queue.
Proof. induction 1; cbn [length]; lia. Qed.

(* the job an assignment was made from *)
Definition from_job (pid : nat) (j : job) (a : asg) : Prop :=
  a_ops a = j_ops j /\ a_prio a = j_prio j /\ a_pool a = Z.of_nat pid.

Lemma filter_ext_in' {A} (f g : A -> bool) l : (forall a, f a = g a) -> filter f l = filter g l.
Proof. intros H. apply filter_ext. exact H. Qed.

(* the assignments are, in queue order, one for each scanned job that is not cut off; the cut-off
   depends on the totals of the pool only, so it can be evaluated on the initial snapshot *)
Lemma pp_rel_match C pid w x queue oom n x' w' asgs oom' :
  pp_rel C pid w x queue oom n x' w' asgs oom' ->
  Forall2 (from_job pid) (filter (fun j => negb (pp_drop C x j)) (firstn n queue)) asgs.
Proof.
  induction 1 as [w x oom|w x j rest oom H1 H2|w x j rest oom n x' w' asgs oom' H1 H2 Dr _ IH
                 |w x j rest oom a w1 n x' w' asgs oom' H1 H2 Dr Ea M _ IH].
  - constructor.
  - constructor.
  - cbn [firstn filter]. rewrite Dr. cbn [negb]. exact IH.
  - cbn [firstn filter]. rewrite Dr. cbn [negb]. constructor.
    + subst a. unfold from_job, mk_asg. cbn. auto.
    + rewrite (filter_ext_in' _ (fun j0 => negb (pp_drop C (ps_take x (a_cpu a) (a_ram a)) j0))); [exact IH|].
      intros j0. reflexivity.
Qed.

(* Q4 (counter): oom_failed_to_run grows by the number of scanned jobs that are cut off *)
Lemma pp_rel_oom C pid w x queue oom n x' w' asgs oom' :
  pp_rel C pid w x queue oom n x' w' asgs oom' ->
  oom' = (oom + Z.of_nat (length (filter (pp_drop C x) (firstn n queue))))%Z.
Proof.
  induction 1 as [w x oom|w x j rest oom H1 H2|w x j rest oom n x' w' asgs oom' H1 H2 Dr _ IH
                 |w x j rest oom a w1 n x' w' asgs oom' H1 H2 Dr Ea M _ IH].
  - cbn. lia.
  - cbn. lia.
  - cbn [firstn filter]. rewrite Dr. cbn [length]. rewrite IH. lia.
  - cbn [firstn filter]. rewrite Dr. rewrite IH.
    rewrite (filter_ext_in' (pp_drop C (ps_take x (a_cpu a) (a_ram a))) (pp_drop C x)); [reflexivity|].
    intros j0. reflexivity.
Qed.

Lemma Forall2_length' {A B} (R : A -> B -> Prop) l1 l2 : Forall2 R l1 l2 -> length l1 = length l2.
Proof. induction 1; cbn; congruence. Qed.

(* every scanned job is either assigned or cut off *)
Lemma pp_rel_count C pid w x queue oom n x' w' asgs oom' :
  pp_rel C pid w x queue oom n x' w' asgs oom' ->
  n = length asgs + length (filter (pp_drop C x) (firstn n queue)).
Proof.
  intros H. pose proof (pp_rel_match _ _ _ _ _ _ _ _ _ _ _ H) as M. apply Forall2_length' in M.
  pose proof (pp_rel_n_le _ _ _ _ _ _ _ _ _ _ _ H) as L.
  rewrite <- M. rewrite <- (firstn_length_le queue L) at 1.
  generalize (firstn n queue) as l. induction l as [|a l IH]; cbn [filter length]; [reflexivity|].
  destruct (pp_drop C x a); cbn [negb length]; lia.
Qed.

(* Q5 (early stop): the scan leaves jobs in the queue only when the pool has nothing left at all *)
Lemma pp_rel_stop C pid w x queue oom n x' w' asgs oom' :
  pp_rel C pid w x queue oom n x' w' asgs oom' ->
  n < length queue -> (ps_aram x' == 0)%Q /\ ps_acpu x' = 0%Z.
Proof.
  induction 1; cbn [length]; intros L; try lia; auto; apply IHpp_rel; lia.
Qed.

(* Q5 (snapshot): the final snapshot is the initial one minus what the assignments take *)
Lemma pp_rel_snapshot C pid w x queue oom n x' w' asgs oom' :
  pp_rel C pid w x queue oom n x' w' asgs oom' ->
  ps_acpu x' = (ps_acpu x - sumZ (map a_cpu asgs))%Z /\
  (ps_aram x' == ps_aram x - sumQ (map a_ram asgs))%Q.
Proof.
  induction 1 as [w x oom|w x j rest oom H1 H2|w x j rest oom n x' w' asgs oom' H1 H2 Dr _ IH
                 |w x j rest oom a w1 n x' w' asgs oom' H1 H2 Dr Ea M _ IH]; cbn [map sumZ sumQ].
  - split; [lia|lra].
  - split; [lia|lra].
  - exact IH.
  - destruct IH as [IH1 IH2]. rewrite ps_take_acpu in IH1. rewrite ps_take_aram in IH2.
    split; [lia|lra].
Qed.

(* the request is everything that is free, or strictly less than what is free in both dimensions *)
Lemma new_job_size_all_or_less C x :
  (fst (new_job_size C x) = ps_acpu x /\ snd (new_job_size C x) = ps_aram x) \/
  ((fst (new_job_size C x) < ps_acpu x)%Z /\ (snd (new_job_size C x) < ps_aram x)%Q).
Proof.
  unfold new_job_size. cbv zeta.
  destruct ((ps_acpu x <=? _)%Z || Qleb (ps_aram x) _) eqn:E; cbn [fst snd].
  - left. auto.
  - right. apply orb_false_iff in E. destruct E as [E1 E2].
    apply Z.leb_gt in E1. apply Qleb_false in E2. auto.
Qed.

Lemma pp_size_all_or_less C x j :
  (fst (pp_size C x j) = ps_acpu x /\ snd (pp_size C x j) = ps_aram x) \/
  ((fst (pp_size C x j) < ps_acpu x)%Z /\ (snd (pp_size C x j) < ps_aram x)%Q).
Proof.
  unfold pp_size. destruct (j_retry j) as [rs|]; [|apply new_job_size_all_or_less].
  destruct (rt_err rs).
  - destruct ((ps_acpu x <=? 2 * rt_cpu rs)%Z || Qleb (ps_aram x) (2 * rt_ram rs)%Q) eqn:E; cbn [fst snd].
    + left; auto.
    + right. apply orb_false_iff in E. destruct E as [E1 E2].
      apply Z.leb_gt in E1. apply Qleb_false in E2. auto.
  - destruct ((rt_cpu rs <=? ps_acpu x)%Z && Qleb (rt_ram rs) (ps_aram x)) eqn:E;
      [|apply new_job_size_all_or_less].
    apply andb_true_iff in E. destruct E as [E1 E2]. apply Z.leb_le in E1. apply Qleb_true in E2.
    destruct ((rt_cpu rs =? ps_acpu x)%Z || Qeqb (rt_ram rs) (ps_aram x)) eqn:F; cbn [fst snd].
    + left; auto.
    + right. apply orb_false_iff in F. destruct F as [F1 F2].
      apply Z.eqb_neq in F1. apply Qeqb_false in F2. split; [lia|].
      apply Qle_lteq in E2. destruct E2 as [E2|E2]; [exact E2|contradiction].
Qed.

Lemma pp_size_fits C x j :
  (fst (pp_size C x j) <= ps_acpu x)%Z /\ (snd (pp_size C x j) <= ps_aram x)%Q.
Proof.
  destruct (pp_size_all_or_less C x j) as [[A B]|[A B]].
  - rewrite A, B. split; [lia|lra].
  - split; [lia|lra].
Qed.

(* each assignment fits into what is free in the running snapshot at the moment it is made *)
Lemma pp_rel_fits_each C pid w x queue oom n x' w' asgs oom' :
  pp_rel C pid w x queue oom n x' w' asgs oom' ->
  forall l1 a l2, asgs = l1 ++ a :: l2 ->
    (a_cpu a <= ps_acpu x - sumZ (map a_cpu l1))%Z /\ (a_ram a <= ps_aram x - sumQ (map a_ram l1))%Q.
Proof.
  induction 1 as [w x oom|w x j rest oom H1 H2|w x j rest oom n x' w' asgs oom' H1 H2 Dr _ IH
                 |w x j rest oom a w1 n x' w' asgs oom' H1 H2 Dr Ea M _ IH]; intros l1 b l2 E.
  - destruct l1; discriminate E.
  - destruct l1; discriminate E.
  - eapply IH; eauto.
  - destruct l1 as [|c l1]; cbn [app] in E; injection E as E1 E2.
    + subst b. cbn [map sumZ sumQ]. rewrite Ea. cbn [a_cpu a_ram mk_asg].
      destruct (pp_size_fits C x j) as [F1 F2]. split; [lia|lra].
    + subst c. destruct (IH l1 b l2 E2) as [I1 I2].
      rewrite ps_take_acpu in I1. rewrite ps_take_aram in I2. cbn [map sumZ sumQ]. split; [lia|lra].
Qed.

(* admissible: from a non-negative snapshot the scan never hands out more than is free *)
Lemma pp_rel_nonneg C pid w x queue oom n x' w' asgs oom' :
  pp_rel C pid w x queue oom n x' w' asgs oom' ->
  (0 <= ps_acpu x)%Z -> (0 <= ps_aram x)%Q -> (0 <= ps_acpu x')%Z /\ (0 <= ps_aram x')%Q.
Proof.
  induction 1 as [w x oom|w x j rest oom H1 H2|w x j rest oom n x' w' asgs oom' H1 H2 Dr _ IH
                 |w x j rest oom a w1 n x' w' asgs oom' H1 H2 Dr Ea M _ IH]; intros A B; auto.
  apply IH.
  - rewrite ps_take_acpu. subst a. cbn [a_cpu mk_asg]. destruct (pp_size_fits C x j); lia.
  - rewrite ps_take_aram. subst a. cbn [a_ram mk_asg]. destruct (pp_size_fits C x j); lra.
Qed.

Theorem pp_rel_admissible C pid w x queue oom n x' w' asgs oom' :
  pp_rel C pid w x queue oom n x' w' asgs oom' ->
  (0 <= ps_acpu x)%Z -> (0 <= ps_aram x)%Q ->
  (sumZ (map a_cpu asgs) <= ps_acpu x)%Z /\ (sumQ (map a_ram asgs) <= ps_aram x)%Q.
Proof.
  intros H A B. destruct (pp_rel_nonneg _ _ _ _ _ _ _ _ _ _ _ H A B) as [N1 N2].
  destruct (pp_rel_snapshot _ _ _ _ _ _ _ _ _ _ _ H) as [S1 S2].
  split; [lia|lra].
Qed.

(* the Assignment objects were all accepted: non-empty operator lists, positive CPU and RAM *)
Lemma mk_assignment_ok_args C w a w' : mk_assignment C w a = Ok w' -> args_ok a.
Proof.
  unfold mk_assignment, args_ok. intros H.
  destruct (Nat.eqb (length (a_ops a)) 0); [discriminate|].
  destruct (Z.leb (a_cpu a) 0); [discriminate|].
  destruct (Qleb (a_ram a) 0); [discriminate|]. auto.
Qed.

Lemma args_ok_pos a : args_ok a -> a_ops a <> [] /\ (0 < a_cpu a)%Z /\ (0 < a_ram a)%Q.
Proof.
  intros [A [B D]]. split; [|split].
  - intros E. rewrite E in A. discriminate.
  - apply Z.leb_gt in B. exact B.
  - apply Qleb_false in D. exact D.
Qed.

Lemma pp_rel_world C pid w x queue oom n x' w' asgs oom' :
  pp_rel C pid w x queue oom n x' w' asgs oom' ->
  mk_assignments C w asgs = Ok w' /\ Forall args_ok asgs.
Proof.
  induction 1 as [w x oom|w x j rest oom H1 H2|w x j rest oom n x' w' asgs oom' H1 H2 Dr _ IH
                 |w x j rest oom a w1 n x' w' asgs oom' H1 H2 Dr Ea M _ IH]; auto.
  destruct IH as [I1 I2]. split.
  - cbn [mk_assignments]. rewrite M. exact I1.
  - constructor; [|exact I2]. eapply mk_assignment_ok_args; eauto.
Qed.

(* ------------------------------------------------------------------------------------------ *)
(* 4. the internal assertion (Q5) and the cut-off (Q4)                                         *)
(* ------------------------------------------------------------------------------------------ *)

(* free CPU and free RAM run out together *)
Definition both_or_none (x : pstat) : Prop := ps_acpu x = 0%Z <-> (ps_aram x == 0)%Q.

(* whatever the snapshot was, after a request is served it is both-or-none *)
Lemma both_or_none_take C x j :
  both_or_none (ps_take x (fst (pp_size C x j)) (snd (pp_size C x j))).
Proof.
  unfold both_or_none. rewrite ps_take_acpu, ps_take_aram.
  destruct (pp_size_all_or_less C x j) as [[A B]|[A B]].
  - rewrite A, B. split; intros _; [ring | lia].
  - split; intros H; [lia | lra].
Qed.

Lemma pp_rel_both C pid w x queue oom n x' w' asgs oom' :
  pp_rel C pid w x queue oom n x' w' asgs oom' -> both_or_none x -> both_or_none x'.
Proof.
  induction 1 as [w x oom|w x j rest oom H1 H2|w x j rest oom n x' w' asgs oom' H1 H2 Dr _ IH
                 |w x j rest oom a w1 n x' w' asgs oom' H1 H2 Dr Ea M _ IH]; intros B; auto.
  apply IH. rewrite Ea. cbn [a_cpu a_ram mk_asg]. apply both_or_none_take.
Qed.

(* the assertion is real: it fires exactly when one dimension is zero and the other is not *)
Lemma pp_scan_assert_fires C w pid x j rest oom :
  ~ both_or_none x -> pp_scan C w pid x (j :: rest) oom = Err ESchedAssert.
Proof.
  intros N. rewrite pp_scan_cons. unfold both_or_none in N.
  destruct (pp_dead x) eqn:D.
  - destruct (pp_both x) eqn:B; [|reflexivity].
    apply pp_both_true in B. tauto.
  - apply pp_dead_false in D. tauto.
Qed.

(* Q5: from a both-or-none snapshot the scan never raises the scheduler assertion; the only possible
   errors are those of Assignment.__init__ *)
Theorem pp_scan_no_assert C pid : forall queue w x oom e,
  both_or_none x -> pp_scan C w pid x queue oom = Err e -> e = EBadAssignArgs \/ e = ETransition.
Proof.
  induction queue as [|j rest IH]; intros w x oom e B H; [discriminate H|].
  rewrite pp_scan_cons in H.
  destruct (pp_dead x) eqn:D.
  - destruct (pp_both x) eqn:Bo; [discriminate H|]. exfalso.
    unfold pp_dead in D. unfold pp_both in Bo. unfold both_or_none in B.
    destruct (Qeqb (ps_aram x) 0) eqn:E1; destruct (ps_acpu x =? 0)%Z eqn:E2; cbn in D, Bo; try discriminate.
    + apply Qeqb_true in E1. apply Z.eqb_neq in E2. tauto.
    + apply Qeqb_false in E1. apply Z.eqb_eq in E2. tauto.
  - destruct (pp_drop C x j).
    + unfold bump_n, bind in H.
      destruct (pp_scan C w pid x rest (oom + 1)%Z) as [[[[[n0 x0] w0] a0] o0]|e0] eqn:E; [discriminate H|].
      inversion H; subst. eapply IH; eauto.
    + cbv zeta in H. unfold bind at 1 in H.
      destruct (mk_assignment C w _) as [w1|e0] eqn:M.
      * unfold bump_n, bind in H.
        destruct (pp_scan C w1 pid _ rest oom) as [[[[[n0 x0] w0] a0] o0]|e1] eqn:E; [discriminate H|].
        inversion H; subst. eapply IH; [|exact E]. cbn [a_cpu a_ram mk_asg]. apply both_or_none_take.
      * inversion H; subst. apply mk_assignment_err in M. tauto.
Qed.

Corollary pp_scan_never_asserts C pid queue w x oom :
  both_or_none x -> pp_scan C w pid x queue oom <> Err ESchedAssert.
Proof.
  intros B H. destruct (pp_scan_no_assert C pid queue w x oom _ B H); discriminate.
Qed.

(* Q4: a retry of a failed container whose doubled request reaches half of the pool is abandoned:
   no assignment, the job leaves the queue, the counter goes up by one *)
Theorem pp_retry_cutoff C w pid x j rest oom rs :
  pp_dead x = false -> j_retry j = Some rs -> rt_err rs = true ->
  over_half C x (2 * rt_cpu rs)%Z (2 * rt_ram rs)%Q = true ->
  pp_scan C w pid x (j :: rest) oom = bump_n (pp_scan C w pid x rest (oom + 1)%Z) None.
Proof.
  intros D R E O. rewrite pp_scan_cons, D. unfold pp_drop. rewrite R, E, O. reflexivity.
Qed.

Corollary pp_retry_cutoff_result C w pid x j rest oom rs n x' w' asgs oom' :
  pp_dead x = false -> j_retry j = Some rs -> rt_err rs = true ->
  over_half C x (2 * rt_cpu rs)%Z (2 * rt_ram rs)%Q = true ->
  pp_scan C w pid x (j :: rest) oom = Ok (n, x', w', asgs, oom') ->
  exists n0, n = S n0 /\ pp_scan C w pid x rest (oom + 1)%Z = Ok (n0, x', w', asgs, oom').
Proof.
  intros D R E O H. rewrite (pp_retry_cutoff C w pid x j rest oom rs D R E O) in H.
  unfold bump_n, bind in H.
  destruct (pp_scan C w pid x rest (oom + 1)%Z) as [[[[[n0 x0] w0] a0] o0]|e0]; [|discriminate H].
  inversion H; subst. eauto.
Qed.

(* otherwise it is assigned twice the old request, or everything that is free if either reaches it *)
Theorem pp_retry_assigned C w pid x j rest oom rs :
  pp_dead x = false -> j_retry j = Some rs -> rt_err rs = true ->
  over_half C x (2 * rt_cpu rs)%Z (2 * rt_ram rs)%Q = false ->
  let req := if (ps_acpu x <=? 2 * rt_cpu rs)%Z || Qleb (ps_aram x) (2 * rt_ram rs)%Q
             then (ps_acpu x, ps_aram x) else ((2 * rt_cpu rs)%Z, (2 * rt_ram rs)%Q) in
  let a := mk_asg j pid (fst req) (snd req) in
  pp_scan C w pid x (j :: rest) oom =
  (do w' <- mk_assignment C w a;
   bump_n (pp_scan C w' pid (ps_take x (fst req) (snd req)) rest oom) (Some a)).
Proof.
  intros D R E O. rewrite pp_scan_cons, D. unfold pp_drop, pp_size. rewrite R, E, O. reflexivity.
Qed.

(* over_half under exact arithmetic *)
Lemma half_le_div a b : (0 < b)%Q -> ((1 # 2) <= a / b)%Q <-> (b <= 2 * a)%Q.
Proof.
  intros Hb. split; intros H.
  - assert (H1 : ((1 # 2) * b <= (a / b) * b)%Q) by (apply Qmult_le_compat_r; lra).
    assert (H2 : ((a / b) * b == a)%Q) by (field; lra). lra.
  - apply Qle_shift_div_l; lra.
Qed.

Theorem over_half_exact C x cpu ram :
  (forall q, cf_rnd C q == q)%Q ->
  over_half C x cpu ram = true <->
  ((1 # 2) <= inject_Z cpu / inject_Z (ps_tcpu x))%Q \/ ((1 # 2) <= ram / ps_tram x)%Q.
Proof.
  intros R. unfold over_half. rewrite orb_true_iff, !Qleb_true, !R. tauto.
Qed.

Corollary over_half_exact_pos C x cpu ram :
  (forall q, cf_rnd C q == q)%Q -> (0 < ps_tcpu x)%Z -> (0 < ps_tram x)%Q ->
  over_half C x cpu ram = true <-> (ps_tcpu x <= 2 * cpu)%Z \/ (ps_tram x <= 2 * ram)%Q.
Proof.
  intros R Hc Hr. rewrite (over_half_exact C x cpu ram R).
  assert (Hc' : (0 < inject_Z (ps_tcpu x))%Q) by (change 0%Q with (inject_Z 0); rewrite <- Zlt_Qlt; exact Hc).
  rewrite (half_le_div _ _ Hc'), (half_le_div _ _ Hr).
  assert (E : (2 * inject_Z cpu == inject_Z (2 * cpu))%Q) by (rewrite inject_Z_mult; reflexivity).
  rewrite E, <- Zle_Qle. tauto.
Qed.

(* ------------------------------------------------------------------------------------------ *)
(* 5. the queues before the scans                                                              *)
(* ------------------------------------------------------------------------------------------ *)

(* the job filed for a newly arrived pipeline, and for a failed container *)
Definition new_job (C : cfg) (p : nat) : job :=
  {| j_prio := prio_of_pipe C p; j_pipe := p; j_ops := pd_order (pipe_of (S_of C) p); j_retry := None |}.
Definition fail_job (C : cfg) (w : world) (r : result) : job :=
  {| j_prio := r_prio r; j_pipe := op_pipe (S_of C) (hd 0 (not_completed_ops w (r_ops r)));
     j_ops := not_completed_ops w (r_ops r); j_retry := Some (retry_of_result r) |}.

Lemma filter_app' {A} (f : A -> bool) l1 l2 : filter f (l1 ++ l2) = filter f l1 ++ filter f l2.
Proof. induction l1 as [|a t IH]; cbn; [reflexivity|]. destruct (f a); cbn; rewrite IH; reflexivity. Qed.

Lemma filter_one_app {A} (f : A -> bool) a l : filter f [a] ++ filter f l = filter f (a :: l).
Proof. cbn [filter]. destruct (f a); reflexivity. Qed.

Lemma pp_new_queue C : forall newp s,
  let s1 := fold_left (fun st p => push_job st {| j_prio := prio_of_pipe C p; j_pipe := p;
                             j_ops := pd_order (pipe_of (S_of C) p); j_retry := None |}
                       (prio_of_pipe C p)) newp s in
  (forall p, queue_of s1 p = queue_of s p ++ filter (is_class p) (map (new_job C) newp)) /\
  ss_suspending s1 = ss_suspending s /\ ss_oom s1 = ss_oom s /\ ss_requeued s1 = ss_requeued s /\
  ss_queue s1 = ss_queue s /\ ss_fail s1 = ss_fail s.
Proof.
  induction newp as [|k t IH]; intros s; cbn [fold_left map filter].
  - repeat split; auto. intros p. rewrite app_nil_r. reflexivity.
  - specialize (IH (push_job s (new_job C k) (prio_of_pipe C k))). cbv zeta in IH.
    destruct IH as [I1 [I2 [I3 [I4 [I5 I6]]]]].
    fold (new_job C k).
    rewrite push_job_suspending in I2. rewrite push_job_oom in I3. rewrite push_job_requeued in I4.
    rewrite push_job_queue in I5. rewrite push_job_fail in I6.
    repeat split; auto.
    intros p. rewrite I1. change (prio_of_pipe C k) with (j_prio (new_job C k)).
    rewrite queue_of_push_own. rewrite <- app_assoc. f_equal. apply filter_one_app.
Qed.

Lemma pp_failures_ok C w : forall results s s',
  pp_failures C w results s = Ok s' ->
  (forall p, queue_of s' p = queue_of s p ++ filter (is_class p) (map (fail_job C w) (filter r_err results))) /\
  ss_suspending s' = ss_suspending s /\ ss_oom s' = ss_oom s /\ ss_requeued s' = ss_requeued s /\
  ss_queue s' = ss_queue s /\ ss_fail s' = ss_fail s /\
  (forall r, In r results -> r_err r = true -> not_completed_ops w (r_ops r) <> []).
Proof.
  induction results as [|r t IH]; intros s s' H.
  - cbn in H. inversion H; subst. repeat split; auto;
      try (intros p; cbn; rewrite app_nil_r; reflexivity); try (intros r []).
  - cbn [pp_failures] in H. cbn [filter].
    destruct (r_err r) eqn:E.
    + destruct (not_completed_ops w (r_ops r)) as [|o ops] eqn:N; [discriminate H|].
      apply IH in H. destruct H as [I1 [I2 [I3 [I4 [I5 [I6 I7]]]]]].
      rewrite push_job_suspending in I2. rewrite push_job_oom in I3. rewrite push_job_requeued in I4.
      rewrite push_job_queue in I5. rewrite push_job_fail in I6.
      repeat split; auto.
      * intros p. rewrite I1.
        assert (J : {| j_prio := r_prio r; j_pipe := op_pipe (S_of C) o; j_ops := o :: ops;
                       j_retry := Some (retry_of_result r) |} = fail_job C w r).
        { unfold fail_job. rewrite N. reflexivity. }
        rewrite J. change (r_prio r) with (j_prio (fail_job C w r)) at 1.
        rewrite queue_of_push_own. cbn [map]. rewrite <- app_assoc. f_equal. apply filter_one_app.
      * intros r0 [<-|Hin] Er; [rewrite N; discriminate | auto].
    + apply IH in H. destruct H as [I1 [I2 [I3 [I4 [I5 [I6 I7]]]]]].
      repeat split; auto.
      intros r0 [<-|Hin] Er; [congruence | auto].
Qed.

(* the assertion of the failure loop: a failed container all of whose operators are complete *)
Lemma pp_failures_assert C w : forall results s r,
  In r results -> r_err r = true -> not_completed_ops w (r_ops r) = [] ->
  pp_failures C w results s = Err ESchedAssert.
Proof.
  induction results as [|r0 t IH]; intros s r Hin E N; [destruct Hin|].
  cbn [pp_failures].
  destruct (r_err r0) eqn:E0.
  - destruct (not_completed_ops w (r_ops r0)) as [|o ops] eqn:N0; [reflexivity|].
    destruct Hin as [->|Hin]; [congruence|]. eapply IH; eauto.
  - destruct Hin as [->|Hin]; [congruence|]. eapply IH; eauto.
Qed.

Lemma pp_failures_err C w : forall results s e,
  pp_failures C w results s = Err e -> e = ESchedAssert.
Proof.
  induction results as [|r t IH]; intros s e H; [discriminate H|].
  cbn [pp_failures] in H.
  destruct (r_err r); [|eauto].
  destruct (not_completed_ops w (r_ops r)); [inversion H; reflexivity | eauto].
Qed.

Lemma assoc_find_In {A} k (m : list (nat * A)) v : assoc_find k m = Some v -> In (k, v) m.
Proof.
  induction m as [|[a x] t IH]; cbn; [discriminate|].
  destruct (Nat.eqb a k) eqn:E.
  - intros H. inversion H; subst. apply Nat.eqb_eq in E. subst. left. reflexivity.
  - intros H. right. auto.
Qed.

Lemma assoc_del_In {A} k (m : list (nat * A)) kv : In kv (assoc_del k m) -> In kv m.
Proof. unfold assoc_del. intros H. apply filter_In in H. tauto. Qed.

(* re-queueing of suspended containers: the pushed jobs are values of the noted map, each under
   its own priority *)
Lemma pp_requeue_queue : forall cs s,
  exists l,
    (forall p, queue_of (pp_requeue cs s) p = queue_of s p ++ filter (is_class p) l) /\
    ss_oom (pp_requeue cs s) = ss_oom s /\ ss_requeued (pp_requeue cs s) = ss_requeued s /\
    ss_queue (pp_requeue cs s) = ss_queue s /\ ss_fail (pp_requeue cs s) = ss_fail s /\
    (forall kv, In kv (ss_suspending (pp_requeue cs s)) -> In kv (ss_suspending s)) /\
    (forall j, In j l -> exists c, In c cs /\ In (c_id c, j) (ss_suspending s)).
Proof.
  induction cs as [|c t IH]; intros s.
  - exists []. cbn. repeat split; auto.
    + intros p. rewrite app_nil_r. reflexivity.
    + intros j [].
  - cbn [pp_requeue].
    destruct (assoc_find (c_id c) (ss_suspending s)) as [j|] eqn:F.
    + match goal with |- context [pp_requeue t ?s1] => destruct (IH s1) as [l [I1 [I2 [I3 [I4 [I5 [I6 I7]]]]]]] end.
      rewrite push_job_oom in I2. rewrite push_job_requeued in I3. rewrite push_job_queue in I4.
      rewrite push_job_fail in I5. cbn [ss_oom ss_requeued ss_queue ss_fail] in I2, I3, I4, I5.
      exists (j :: l). repeat split; auto.
      * intros p. rewrite I1. rewrite queue_of_push_own.
        destruct p; cbn [queue_of ss_q ss_i ss_b]; rewrite <- app_assoc, filter_one_app; reflexivity.
      * intros kv H. apply I6 in H. rewrite push_job_suspending in H. cbn [ss_suspending] in H.
        eapply assoc_del_In; eauto.
      * intros j0 [<-|Hin].
        -- exists c. split; [left; reflexivity|]. apply assoc_find_In. exact F.
        -- apply I7 in Hin. destruct Hin as [c0 [Hc Hm]]. exists c0. split; [right; exact Hc|].
           rewrite push_job_suspending in Hm. cbn [ss_suspending] in Hm. eapply assoc_del_In; eauto.
    + destruct (IH s) as [l [I1 [I2 [I3 [I4 [I5 [I6 I7]]]]]]].
      exists l. repeat split; auto.
      intros j0 Hin. apply I7 in Hin. destruct Hin as [c0 [Hc Hm]]. exists c0. split; [right; exact Hc|exact Hm].
Qed.

Lemma pp_requeue_pools_queue : forall ps s,
  let s4 := fold_left (fun st p => pp_requeue (p_suspended p) st) ps s in
  exists l,
    (forall p, queue_of s4 p = queue_of s p ++ filter (is_class p) l) /\
    ss_oom s4 = ss_oom s /\ ss_requeued s4 = ss_requeued s /\
    ss_queue s4 = ss_queue s /\ ss_fail s4 = ss_fail s /\
    (forall kv, In kv (ss_suspending s4) -> In kv (ss_suspending s)) /\
    (forall j, In j l -> exists p c, In p ps /\ In c (p_suspended p) /\ In (c_id c, j) (ss_suspending s)).
Proof.
  induction ps as [|p t IH]; intros s; cbn [fold_left]; cbv zeta.
  - exists []. repeat split; auto.
    + intros p. cbn. rewrite app_nil_r. reflexivity.
    + intros j [].
  - destruct (pp_requeue_queue (p_suspended p) s) as [l1 [A1 [A2 [A3 [A4 [A5 [A6 A7]]]]]]].
    destruct (IH (pp_requeue (p_suspended p) s)) as [l2 [B1 [B2 [B3 [B4 [B5 [B6 B7]]]]]]].
    exists (l1 ++ l2). repeat split; try congruence.
    + intros q. rewrite B1, A1, filter_app', app_assoc. reflexivity.
    + intros kv H. auto.
    + intros j H. apply in_app_or in H. destruct H as [H|H].
      * apply A7 in H. destruct H as [c [Hc Hm]]. exists p, c. split; [left; reflexivity|]. auto.
      * apply B7 in H. destruct H as [p0 [c [Hp [Hc Hm]]]]. exists p0, c. split; [right; exact Hp|]. auto.
Qed.

(* ------------------------------------------------------------------------------------------ *)
(* 6. one round of priority-pool, decomposed                                                   *)
(* ------------------------------------------------------------------------------------------ *)

Ltac inv_bind H x E :=
  match type of H with
  | bind ?r _ = Ok _ => destruct r as [x|?] eqn:E; [cbn [bind] in H | discriminate H]
  end.

(* the queue of class p when the scans start: what was queued, then this round's new pipelines, then
   the retries of this round's failures, then the re-queued suspended containers [lq] *)
Definition pp_pre (C : cfg) (s : sstate) (e : estate) (results : list result) (newp : list nat)
           (lq : list job) (p : prio) : list job :=
  queue_of s p ++ filter (is_class p)
    (map (new_job C) newp ++ map (fail_job C (e_world e)) (filter r_err results) ++ lq).

Theorem pp_step_inv C s e results newp s' w' susps asgs :
  priority_pool_step C s e results newp = Ok (s', w', susps, asgs) ->
  exists m lq n1 n2 n3 x0a x0b x1a w1 w2 a1 a2 a3 o1 o2,
    note_suspending_pools C (e_world e) (e_pools e) (ss_suspending s) = Ok m /\
    (forall j, In j lq -> exists p c, In p (e_pools e) /\ In c (p_suspended p) /\ In (c_id c, j) m) /\
    (forall r, In r results -> r_err r = true -> not_completed_ops (e_world e) (r_ops r) <> []) /\
    pp_rel C 0 (e_world e) (nth 0 (snapshot e) dummy_stat)
           (pp_pre C s e results newp lq Query) (ss_oom s) n1 x0a w1 a1 o1 /\
    pp_rel C 0 w1 x0a (pp_pre C s e results newp lq Interactive) o1 n2 x0b w2 a2 o2 /\
    pp_rel C 1 w2 (nth 1 (snapshot e) dummy_stat)
           (pp_pre C s e results newp lq Batch) o2 n3 x1a w' a3 (ss_oom s') /\
    susps = [] /\ asgs = a1 ++ a2 ++ a3 /\
    ss_q s' = skipn n1 (pp_pre C s e results newp lq Query) /\
    ss_i s' = skipn n2 (pp_pre C s e results newp lq Interactive) /\
    ss_b s' = skipn n3 (pp_pre C s e results newp lq Batch) /\
    ss_queue s' = ss_queue s /\ ss_fail s' = ss_fail s /\ ss_requeued s' = ss_requeued s.
Proof.
  intros H. unfold priority_pool_step in H. cbv zeta in H.
  pose proof (pp_new_queue C newp s) as N. cbv zeta in N.
  set (s1 := fold_left _ newp s) in *.
  destruct N as [N1 [N2 [N3 [N4 [N5 N6]]]]].
  inv_bind H s2 F.
  apply pp_failures_ok in F. destruct F as [F1 [F2 [F3 [F4 [F5 [F6 F7]]]]]].
  inv_bind H m NS.
  match type of H with
  | context [fold_left ?f (e_pools e) ?s3] =>
      pose proof (pp_requeue_pools_queue (e_pools e) s3) as R; cbv zeta in R;
      set (s4 := fold_left f (e_pools e) s3) in *
  end.
  destruct R as [lq [R1 [R2 [R3 [R4 [R5 [R6 R7]]]]]]].
  cbn [ss_oom ss_requeued ss_queue ss_fail ss_suspending] in R2, R3, R4, R5, R7.
  assert (Q : forall p, queue_of s4 p = pp_pre C s e results newp lq p).
  { intros p. rewrite R1. unfold pp_pre.
    transitivity (queue_of s2 p ++ filter (is_class p) lq); [destruct p; reflexivity|].
    rewrite F1, N1, !filter_app', <- !app_assoc. reflexivity. }
  inv_bind H r1 S1. destruct r1 as [[[[n1 x0a] w1] a1] o1]. cbv beta iota in H.
  inv_bind H r2 S2. destruct r2 as [[[[n2 x0b] w2] a2] o2]. cbv beta iota in H.
  inv_bind H r3 S3. destruct r3 as [[[[n3 x1a] w3] a3] o3]. cbv beta iota in H.
  injection H as Hs Hw Hsu Ha. subst s' w' susps asgs.
  apply pp_scan_rel in S1. apply pp_scan_rel in S2. apply pp_scan_rel in S3.
  change (ss_q s4) with (queue_of s4 Query) in *.
  change (ss_i s4) with (queue_of s4 Interactive) in *.
  change (ss_b s4) with (queue_of s4 Batch) in *.
  rewrite Q in *.
  exists m, lq, n1, n2, n3, x0a, x0b, x1a, w1, w2, a1, a2, a3, o1, o2.
  cbn [ss_q ss_i ss_b ss_oom ss_queue ss_fail ss_requeued].
  rewrite F2, N2 in NS. rewrite R2, F3, N3 in S1.
  repeat split; auto; congruence.
Qed.

(* ------------------------------------------------------------------------------------------ *)
(* 7. the headline statements                                                                  *)
(* ------------------------------------------------------------------------------------------ *)

(* Q1: the priority-pool scheduler never suspends anything *)
Theorem pp_never_suspends C s e results newp s' w' susps asgs :
  priority_pool_step C s e results newp = Ok (s', w', susps, asgs) -> susps = [].
Proof.
  intros H. apply pp_step_inv in H.
  destruct H as (m & lq & n1 & n2 & n3 & x0a & x0b & x1a & w1 & w2 & a1 & a2 & a3 & o1 & o2 & H).
  tauto.
Qed.

(* every queue holds jobs of its own class only *)
Definition class_ok (s : sstate) : Prop :=
  (forall j, In j (ss_q s) -> j_prio j = Query) /\
  (forall j, In j (ss_i s) -> j_prio j = Interactive) /\
  (forall j, In j (ss_b s) -> j_prio j = Batch).

Lemma class_ok_queue_of s : class_ok s <-> forall p j, In j (queue_of s p) -> j_prio j = p.
Proof.
  unfold class_ok. split.
  - intros [A [B D]] p j. destruct p; cbn [queue_of]; auto.
  - intros H. repeat split; intros j Hj.
    + apply (H Query j Hj). + apply (H Interactive j Hj). + apply (H Batch j Hj).
Qed.

Lemma class_ok_init : class_ok init_sstate.
Proof. repeat split; intros j []. Qed.

Lemma pp_pre_class C s e results newp lq p j :
  class_ok s -> In j (pp_pre C s e results newp lq p) -> j_prio j = p.
Proof.
  intros K H. unfold pp_pre in H. apply in_app_or in H. destruct H as [H|H].
  - apply class_ok_queue_of with (p := p) (j := j) in K; assumption.
  - apply filter_In in H. destruct H as [_ H]. unfold is_class in H. apply prio_eqb_eq. exact H.
Qed.

Lemma Forall2_In_r {A B} (R : A -> B -> Prop) l1 l2 b :
  Forall2 R l1 l2 -> In b l2 -> exists a, In a l1 /\ R a b.
Proof.
  induction 1 as [|x y l1 l2 Hxy _ IH]; intros Hin; [destruct Hin|].
  destruct Hin as [<-|Hin].
  - exists x. split; [left; reflexivity|exact Hxy].
  - destruct (IH Hin) as [a [Ha Hr]]. exists a. split; [right; exact Ha|exact Hr].
Qed.

Lemma In_firstn {A} (x : A) n : forall l, In x (firstn n l) -> In x l.
Proof.
  induction n as [|n IH]; intros [|h t] H; cbn in *; try contradiction.
  destruct H as [H|H]; [left; exact H | right; apply IH; exact H].
Qed.

(* an assignment of a scan comes from a scanned job that was not cut off *)
Lemma pp_rel_from C pid w x queue oom n x' w' asgs oom' a :
  pp_rel C pid w x queue oom n x' w' asgs oom' -> In a asgs ->
  exists j, In j (firstn n queue) /\ pp_drop C x j = false /\ from_job pid j a.
Proof.
  intros H Hin. apply pp_rel_match in H.
  destruct (Forall2_In_r _ _ _ _ H Hin) as [j [Hj Hr]].
  apply filter_In in Hj. destruct Hj as [Hj Hd]. apply negb_true_iff in Hd.
  exists j. auto.
Qed.

(* Q2: queues stay sorted by class, and every container of a query or interactive pipeline is placed
   on pool 0, every container of a batch pipeline on pool 1 -- first attempts, retries and resumed
   work alike (whatever job the assignment came from) *)
Theorem pp_class_ok_preserved C s e results newp s' w' susps asgs :
  priority_pool_step C s e results newp = Ok (s', w', susps, asgs) -> class_ok s -> class_ok s'.
Proof.
  intros H K. apply pp_step_inv in H.
  destruct H as (m & lq & n1 & n2 & n3 & x0a & x0b & x1a & w1 & w2 & a1 & a2 & a3 & o1 & o2 & H).
  destruct H as (_ & _ & _ & _ & _ & _ & _ & _ & Eq & Ei & Eb & _).
  unfold class_ok. rewrite Eq, Ei, Eb.
  repeat split; intros j Hj; apply In_skipn in Hj; eapply pp_pre_class; eauto.
Qed.

Theorem pp_pool_by_class C s e results newp s' w' susps asgs :
  priority_pool_step C s e results newp = Ok (s', w', susps, asgs) -> class_ok s ->
  forall a, In a asgs ->
    (a_prio a = Query \/ a_prio a = Interactive -> a_pool a = 0%Z) /\
    (a_prio a = Batch -> a_pool a = 1%Z) /\
    (* the job it came from: queued before the round or pushed in it, of the same priority, and the
       assignment takes all its operators *)
    exists lq j, In j (pp_pre C s e results newp lq (a_prio a)) /\
                 a_ops a = j_ops j /\ a_prio a = j_prio j.
Proof.
  intros H K a Ha. apply pp_step_inv in H.
  destruct H as (m & lq & n1 & n2 & n3 & x0a & x0b & x1a & w1 & w2 & a1 & a2 & a3 & o1 & o2 & H).
  destruct H as (_ & _ & _ & S1 & S2 & S3 & _ & Ea & _).
  subst asgs. apply in_app_or in Ha. destruct Ha as [Ha|Ha]; [|apply in_app_or in Ha; destruct Ha as [Ha|Ha]].
  - destruct (pp_rel_from _ _ _ _ _ _ _ _ _ _ _ _ S1 Ha) as [j [Hj [_ [F1 [F2 F3]]]]].
    apply In_firstn in Hj. pose proof (pp_pre_class _ _ _ _ _ _ _ _ K Hj) as P.
    assert (Pa : a_prio a = Query) by congruence.
    split; [intros _; exact F3|]. split; [intros B; congruence|].
    exists lq, j. rewrite Pa. auto.
  - destruct (pp_rel_from _ _ _ _ _ _ _ _ _ _ _ _ S2 Ha) as [j [Hj [_ [F1 [F2 F3]]]]].
    apply In_firstn in Hj. pose proof (pp_pre_class _ _ _ _ _ _ _ _ K Hj) as P.
    assert (Pa : a_prio a = Interactive) by congruence.
    split; [intros _; exact F3|]. split; [intros B; congruence|].
    exists lq, j. rewrite Pa. auto.
  - destruct (pp_rel_from _ _ _ _ _ _ _ _ _ _ _ _ S3 Ha) as [j [Hj [_ [F1 [F2 F3]]]]].
    apply In_firstn in Hj. pose proof (pp_pre_class _ _ _ _ _ _ _ _ K Hj) as P.
    assert (Pa : a_prio a = Batch) by congruence.
    split; [intros [B|B]; congruence|]. split; [intros _; exact F3|].
    exists lq, j. rewrite Pa. auto.
Qed.

(* class_ok holds in every state the scheduler reaches from its initial state *)
Inductive pp_reach (C : cfg) : sstate -> Prop :=
| ppr_init : pp_reach C init_sstate
| ppr_step s e results newp s' w' susps asgs :
    pp_reach C s -> priority_pool_step C s e results newp = Ok (s', w', susps, asgs) -> pp_reach C s'.

Theorem pp_reach_class_ok C s : pp_reach C s -> class_ok s.
Proof.
  induction 1 as [|s e results newp s' w' susps asgs _ IH H]; [apply class_ok_init|].
  eapply pp_class_ok_preserved; eauto.
Qed.

Corollary pp_pool_by_class_reach C s e results newp s' w' susps asgs a :
  pp_reach C s -> priority_pool_step C s e results newp = Ok (s', w', susps, asgs) -> In a asgs ->
  (a_prio a = Query \/ a_prio a = Interactive -> a_pool a = 0%Z) /\ (a_prio a = Batch -> a_pool a = 1%Z).
Proof.
  intros R H Ha. destruct (pp_pool_by_class _ _ _ _ _ _ _ _ _ H (pp_reach_class_ok _ _ R) a Ha) as [A [B _]].
  auto.
Qed.

(* Q3: after a failure exactly the unfinished operators of the failed container are queued again, as
   one job, under the priority of the container, with the old request recorded; whenever a job is
   assigned, all its operators go into one container *)
Lemma fail_job_fields C w r :
  j_ops (fail_job C w r) = not_completed_ops w (r_ops r) /\
  j_prio (fail_job C w r) = r_prio r /\
  j_retry (fail_job C w r) = Some (retry_of_result r).
Proof. repeat split. Qed.

Theorem pp_retry_unfinished_together C s e results newp s' w' susps asgs :
  priority_pool_step C s e results newp = Ok (s', w', susps, asgs) ->
  (* the step would have raised otherwise *)
  (forall r, In r results -> r_err r = true -> not_completed_ops (e_world e) (r_ops r) <> []) /\
  exists lq n,
    (* the queues after the round: a scanned prefix removed from (old queue ++ new pipelines ++ one
       job per failed result, in result order ++ re-queued suspended work) *)
    (forall p, queue_of s' p =
       skipn (n p) (queue_of s p ++ filter (is_class p) (map (new_job C) newp)
                    ++ filter (is_class p) (map (fail_job C (e_world e)) (filter r_err results))
                    ++ filter (is_class p) lq)) /\
    (* one assignment = one whole job among those scanned *)
    (forall a, In a asgs ->
       exists p j, In j (firstn (n p) (pp_pre C s e results newp lq p)) /\
                   a_ops a = j_ops j /\ a_prio a = j_prio j).
Proof.
  intros H. apply pp_step_inv in H.
  destruct H as (m & lq & n1 & n2 & n3 & x0a & x0b & x1a & w1 & w2 & a1 & a2 & a3 & o1 & o2 & H).
  destruct H as (_ & _ & F & S1 & S2 & S3 & _ & Ea & Eq & Ei & Eb & _).
  split; [exact F|].
  exists lq, (fun p => match p with Query => n1 | Interactive => n2 | Batch => n3 end).
  split.
  - intros p. unfold pp_pre in Eq, Ei, Eb. rewrite !filter_app' in Eq, Ei, Eb.
    destruct p; cbn [queue_of]; assumption.
  - intros a Ha. subst asgs.
    apply in_app_or in Ha. destruct Ha as [Ha|Ha]; [|apply in_app_or in Ha; destruct Ha as [Ha|Ha]].
    + destruct (pp_rel_from _ _ _ _ _ _ _ _ _ _ _ _ S1 Ha) as [j [Hj [_ [F1 [F2 F3]]]]].
      exists Query, j. auto.
    + destruct (pp_rel_from _ _ _ _ _ _ _ _ _ _ _ _ S2 Ha) as [j [Hj [_ [F1 [F2 F3]]]]].
      exists Interactive, j. auto.
    + destruct (pp_rel_from _ _ _ _ _ _ _ _ _ _ _ _ S3 Ha) as [j [Hj [_ [F1 [F2 F3]]]]].
      exists Batch, j. auto.
Qed.

(* the retry job of a failed result is in the queue of the container's class when the scans start *)
Lemma fail_job_queued C s e results newp lq r :
  In r results -> r_err r = true ->
  In (fail_job C (e_world e) r) (pp_pre C s e results newp lq (r_prio r)).
Proof.
  intros Hin E. unfold pp_pre. apply in_or_app. right. apply filter_In. split.
  - apply in_or_app. right. apply in_or_app. left. apply in_map. apply filter_In. auto.
  - unfold is_class. cbn [fail_job j_prio]. apply prio_eqb_refl.
Qed.

(* ------------------------------------------------------------------------------------------ *)
(* 8. the round never raises a scheduler assertion                                             *)
(* ------------------------------------------------------------------------------------------ *)

Lemma pp_failures_total C w : forall results,
  (forall r, In r results -> r_err r = true -> not_completed_ops w (r_ops r) <> []) ->
  forall s, exists s', pp_failures C w results s = Ok s'.
Proof.
  induction results as [|r t IH]; intros HF s; [eexists; reflexivity|].
  cbn [pp_failures].
  assert (HF' : forall r0, In r0 t -> r_err r0 = true -> not_completed_ops w (r_ops r0) <> [])
    by (intros r0 Hin; apply HF; right; exact Hin).
  destruct (r_err r) eqn:E; [|apply IH; exact HF'].
  destruct (not_completed_ops w (r_ops r)) as [|o ops] eqn:N.
  - exfalso. apply (HF r (or_introl eq_refl) E). exact N.
  - apply IH; exact HF'.
Qed.

Lemma note_suspending_total C w pid : forall cs,
  (forall c, In c cs -> not_completed_ops w (c_ops c) <> []) ->
  forall m, exists m', note_suspending C w pid cs m = Ok m'.
Proof.
  induction cs as [|c t IH]; intros HS m; [eexists; reflexivity|].
  cbn [note_suspending]. unfold job_of_container.
  destruct (not_completed_ops w (c_ops c)) as [|o ops] eqn:N.
  - exfalso. apply (HS c (or_introl eq_refl)). exact N.
  - cbn [bind]. apply IH. intros c0 Hin. apply HS. right. exact Hin.
Qed.

Lemma note_suspending_pools_total C w : forall ps,
  (forall p c, In p ps -> In c (p_suspending p) -> not_completed_ops w (c_ops c) <> []) ->
  forall m, exists m', note_suspending_pools C w ps m = Ok m'.
Proof.
  induction ps as [|p t IH]; intros HS m; [eexists; reflexivity|].
  cbn [note_suspending_pools].
  destruct (note_suspending_total C w (p_id p) (p_suspending p)
              (fun c Hc => HS p c (or_introl eq_refl) Hc) m) as [m1 E].
  rewrite E. cbn [bind]. apply IH. intros p0 c Hp Hc. apply (HS p0 c (or_intror Hp) Hc).
Qed.

(* Q5 at the level of the round: when every failed container and every suspending container still
   has an unfinished operator (the executor guarantees it) and both pools are both-or-none, the only
   way the round can raise is a refusal by Assignment.__init__ (bad arguments, or an operator that is
   not assignable) -- never an assertion of the scheduler itself *)
Theorem pp_step_errors C s e results newp err :
  (forall r, In r results -> r_err r = true -> not_completed_ops (e_world e) (r_ops r) <> []) ->
  (forall p c, In p (e_pools e) -> In c (p_suspending p) ->
               not_completed_ops (e_world e) (c_ops c) <> []) ->
  both_or_none (nth 0 (snapshot e) dummy_stat) -> both_or_none (nth 1 (snapshot e) dummy_stat) ->
  priority_pool_step C s e results newp = Err err -> err = EBadAssignArgs \/ err = ETransition.
Proof.
  intros HF HS B0 B1 H. unfold priority_pool_step in H. cbv zeta in H.
  set (s1 := fold_left _ newp s) in *.
  destruct (pp_failures_total C (e_world e) results HF s1) as [s2 F]. rewrite F in H. cbn [bind] in H.
  destruct (note_suspending_pools_total C (e_world e) (e_pools e) HS (ss_suspending s2)) as [m NS].
  rewrite NS in H. cbn [bind] in H.
  match type of H with
  | context [fold_left ?f (e_pools e) ?s3] => set (s4 := fold_left f (e_pools e) s3) in *
  end.
  destruct (pp_scan C (e_world e) 0 (nth 0 (snapshot e) dummy_stat) (ss_q s4) (ss_oom s4))
    as [[[[[n1 x0a] w1] a1] o1]|e1] eqn:S1; cbn [bind] in H.
  2:{ injection H as <-. exact (pp_scan_no_assert C 0 _ _ _ _ _ B0 S1). }
  cbv beta iota in H.
  assert (B0a : both_or_none x0a) by (eapply pp_rel_both; [apply pp_scan_rel; exact S1 | exact B0]).
  destruct (pp_scan C w1 0 x0a (ss_i s4) o1) as [[[[[n2 x0b] w2] a2] o2]|e2] eqn:S2; cbn [bind] in H.
  2:{ injection H as <-. exact (pp_scan_no_assert C 0 _ _ _ _ _ B0a S2). }
  cbv beta iota in H.
  destruct (pp_scan C w2 1 (nth 1 (snapshot e) dummy_stat) (ss_b s4) o2)
    as [[[[[n3 x1a] w3] a3] o3]|e3] eqn:S3; cbn [bind] in H.
  2:{ injection H as <-. exact (pp_scan_no_assert C 1 _ _ _ _ _ B1 S3). }
  cbv beta iota in H. discriminate H.
Qed.

Corollary pp_step_no_assert C s e results newp :
  (forall r, In r results -> r_err r = true -> not_completed_ops (e_world e) (r_ops r) <> []) ->
  (forall p c, In p (e_pools e) -> In c (p_suspending p) ->
               not_completed_ops (e_world e) (c_ops c) <> []) ->
  both_or_none (nth 0 (snapshot e) dummy_stat) -> both_or_none (nth 1 (snapshot e) dummy_stat) ->
  priority_pool_step C s e results newp <> Err ESchedAssert.
Proof.
  intros HF HS B0 B1 H. destruct (pp_step_errors C s e results newp _ HF HS B0 B1 H); discriminate.
Qed.

(* and both pools are both-or-none again in the snapshot the round ends with; a snapshot made of
   fresh pools, or of pools that only released positive amounts in both dimensions, is both-or-none *)
Lemma both_or_none_dummy : both_or_none dummy_stat.
Proof. unfold both_or_none, dummy_stat. cbn. split; intros _; reflexivity. Qed.

(* ------------------------------------------------------------------------------------------ *)
(* 9. per-pool accounting of a round                                                           *)
(* ------------------------------------------------------------------------------------------ *)

Lemma filter_all {A} (f : A -> bool) l : (forall a, In a l -> f a = true) -> filter f l = l.
Proof.
  induction l as [|a t IH]; intros H; cbn; [reflexivity|].
  rewrite (H a (or_introl eq_refl)). f_equal. apply IH. intros b Hb. apply H. right. exact Hb.
Qed.
Lemma filter_none {A} (f : A -> bool) l : (forall a, In a l -> f a = false) -> filter f l = [].
Proof.
  induction l as [|a t IH]; intros H; cbn; [reflexivity|].
  rewrite (H a (or_introl eq_refl)). apply IH. intros b Hb. apply H. right. exact Hb.
Qed.

Lemma pp_rel_pool C pid w x queue oom n x' w' asgs oom' a :
  pp_rel C pid w x queue oom n x' w' asgs oom' -> In a asgs -> a_pool a = Z.of_nat pid.
Proof.
  intros H Ha. destruct (pp_rel_from _ _ _ _ _ _ _ _ _ _ _ _ H Ha) as [j [_ [_ [_ [_ F]]]]]. exact F.
Qed.

Lemma sumZ_app' l1 l2 : sumZ (l1 ++ l2) = (sumZ l1 + sumZ l2)%Z.
Proof. induction l1 as [|x t IH]; cbn [sumZ app]; [reflexivity | rewrite IH; lia]. Qed.
Lemma sumQ_app' l1 l2 : (sumQ (l1 ++ l2) == sumQ l1 + sumQ l2)%Q.
Proof. induction l1 as [|x t IH]; cbn [sumQ app]; [lra | rewrite IH; lra]. Qed.

(* what the round hands out on pool 0 (resp. 1) fits into what pool 0 (resp. 1) has free, so the
   executor's oversell checks (verify_assignments) pass; and every assignment has positive CPU and RAM
   and at least one operator *)
Theorem pp_step_admissible C s e results newp s' w' susps asgs :
  priority_pool_step C s e results newp = Ok (s', w', susps, asgs) ->
  let x0 := nth 0 (snapshot e) dummy_stat in
  let x1 := nth 1 (snapshot e) dummy_stat in
  let on k := filter (fun a => (a_pool a =? k)%Z) asgs in
  Forall args_ok asgs /\
  (forall a, In a asgs -> a_pool a = 0%Z \/ a_pool a = 1%Z) /\
  ((0 <= ps_acpu x0)%Z -> (0 <= ps_aram x0)%Q ->
   (sumZ (map a_cpu (on 0%Z)) <= ps_acpu x0)%Z /\ (sumQ (map a_ram (on 0%Z)) <= ps_aram x0)%Q) /\
  ((0 <= ps_acpu x1)%Z -> (0 <= ps_aram x1)%Q ->
   (sumZ (map a_cpu (on 1%Z)) <= ps_acpu x1)%Z /\ (sumQ (map a_ram (on 1%Z)) <= ps_aram x1)%Q).
Proof.
  intros H. cbv zeta. apply pp_step_inv in H.
  destruct H as (m & lq & n1 & n2 & n3 & x0a & x0b & x1a & w1 & w2 & a1 & a2 & a3 & o1 & o2 & H).
  destruct H as (_ & _ & _ & S1 & S2 & S3 & _ & Ea & _). subst asgs.
  assert (P1 : forall a, In a a1 -> a_pool a = 0%Z) by (intros a Ha; apply (pp_rel_pool _ _ _ _ _ _ _ _ _ _ _ _ S1 Ha)).
  assert (P2 : forall a, In a a2 -> a_pool a = 0%Z) by (intros a Ha; apply (pp_rel_pool _ _ _ _ _ _ _ _ _ _ _ _ S2 Ha)).
  assert (P3 : forall a, In a a3 -> a_pool a = 1%Z) by (intros a Ha; apply (pp_rel_pool _ _ _ _ _ _ _ _ _ _ _ _ S3 Ha)).
  assert (On0 : filter (fun a => (a_pool a =? 0)%Z) (a1 ++ a2 ++ a3) = a1 ++ a2).
  { rewrite !filter_app'. rewrite (filter_all _ a1), (filter_all _ a2), (filter_none _ a3).
    - rewrite app_nil_r. reflexivity.
    - intros a Ha. rewrite (P3 a Ha). reflexivity.
    - intros a Ha. rewrite (P2 a Ha). reflexivity.
    - intros a Ha. rewrite (P1 a Ha). reflexivity. }
  assert (On1 : filter (fun a => (a_pool a =? 1)%Z) (a1 ++ a2 ++ a3) = a3).
  { rewrite !filter_app'. rewrite (filter_none _ a1), (filter_none _ a2), (filter_all _ a3).
    - reflexivity.
    - intros a Ha. rewrite (P3 a Ha). reflexivity.
    - intros a Ha. rewrite (P2 a Ha). reflexivity.
    - intros a Ha. rewrite (P1 a Ha). reflexivity. }
  rewrite On0, On1.
  split; [|split; [|split]].
  - apply Forall_app. split; [apply (pp_rel_world _ _ _ _ _ _ _ _ _ _ _ S1)|].
    apply Forall_app. split; [apply (pp_rel_world _ _ _ _ _ _ _ _ _ _ _ S2) | apply (pp_rel_world _ _ _ _ _ _ _ _ _ _ _ S3)].
  - intros a Ha. apply in_app_or in Ha. destruct Ha as [Ha|Ha]; [left; auto|].
    apply in_app_or in Ha. destruct Ha as [Ha|Ha]; [left; auto | right; auto].
  - intros A B.
    destruct (pp_rel_nonneg _ _ _ _ _ _ _ _ _ _ _ S1 A B) as [A' B'].
    destruct (pp_rel_nonneg _ _ _ _ _ _ _ _ _ _ _ S2 A' B') as [A'' B''].
    destruct (pp_rel_snapshot _ _ _ _ _ _ _ _ _ _ _ S1) as [X1 Y1].
    destruct (pp_rel_snapshot _ _ _ _ _ _ _ _ _ _ _ S2) as [X2 Y2].
    rewrite !map_app, sumZ_app', sumQ_app'. split; [lia|lra].
  - intros A B. apply (pp_rel_admissible _ _ _ _ _ _ _ _ _ _ _ S3 A B).
Qed.

(* ------------------------------------------------------------------------------------------ *)
(* 9b. Q5 restated on pp_scan itself                                                           *)
(* ------------------------------------------------------------------------------------------ *)

Theorem pp_scan_prefix C w pid x queue oom n x' w' asgs oom' :
  pp_scan C w pid x queue oom = Ok (n, x', w', asgs, oom') ->
  n <= length queue /\
  (* one assignment, in queue order, for each of the first n jobs that is not cut off *)
  Forall2 (from_job pid) (filter (fun j => negb (pp_drop C x j)) (firstn n queue)) asgs /\
  oom' = (oom + Z.of_nat (length (filter (pp_drop C x) (firstn n queue))))%Z /\
  (* jobs are left behind only when the pool has nothing at all left *)
  (n < length queue -> (ps_aram x' == 0)%Q /\ ps_acpu x' = 0%Z).
Proof.
  intros H. apply pp_scan_rel in H. split; [|split; [|split]].
  - eapply pp_rel_n_le; eauto.
  - eapply pp_rel_match; eauto.
  - eapply pp_rel_oom; eauto.
  - eapply pp_rel_stop; eauto.
Qed.

Theorem pp_scan_snapshot C w pid x queue oom n x' w' asgs oom' :
  pp_scan C w pid x queue oom = Ok (n, x', w', asgs, oom') ->
  ps_acpu x' = (ps_acpu x - sumZ (map a_cpu asgs))%Z /\
  (ps_aram x' == ps_aram x - sumQ (map a_ram asgs))%Q /\
  ps_tcpu x' = ps_tcpu x /\ ps_tram x' = ps_tram x /\
  (* each assignment fits into what is free when it is made *)
  (forall l1 a l2, asgs = l1 ++ a :: l2 ->
     (a_cpu a <= ps_acpu x - sumZ (map a_cpu l1))%Z /\ (a_ram a <= ps_aram x - sumQ (map a_ram l1))%Q) /\
  ((0 <= ps_acpu x)%Z -> (0 <= ps_aram x)%Q ->
   (sumZ (map a_cpu asgs) <= ps_acpu x)%Z /\ (sumQ (map a_ram asgs) <= ps_aram x)%Q) /\
  Forall args_ok asgs /\ mk_assignments C w asgs = Ok w' /\
  (both_or_none x -> both_or_none x').
Proof.
  intros H. apply pp_scan_rel in H.
  destruct (pp_rel_snapshot _ _ _ _ _ _ _ _ _ _ _ H) as [A B].
  destruct (pp_rel_totals _ _ _ _ _ _ _ _ _ _ _ H) as [T1 T2].
  destruct (pp_rel_world _ _ _ _ _ _ _ _ _ _ _ H) as [W1 W2].
  split; [exact A|]. split; [exact B|]. split; [exact T1|]. split; [exact T2|].
  split; [intros l1 a l2 E; apply (pp_rel_fits_each _ _ _ _ _ _ _ _ _ _ _ H l1 a l2 E)|].
  split; [intros P1 P2; apply (pp_rel_admissible _ _ _ _ _ _ _ _ _ _ _ H P1 P2)|].
  split; [exact W2|]. split; [exact W1|].
  apply (pp_rel_both _ _ _ _ _ _ _ _ _ _ _ H).
Qed.

(* ------------------------------------------------------------------------------------------ *)
(* 9c. C12 inside the shared pool: query before interactive, work conservation                 *)
(* ------------------------------------------------------------------------------------------ *)

Lemma pp_rel_dead_noop C pid w x queue oom n x' w' asgs oom' :
  pp_rel C pid w x queue oom n x' w' asgs oom' -> (ps_aram x == 0)%Q -> ps_acpu x = 0%Z ->
  n = 0 /\ x' = x /\ w' = w /\ asgs = [] /\ oom' = oom.
Proof.
  intros H A B. destruct H; try contradiction; auto.
Qed.

Lemma skipn_nonnil {A} n (l : list A) : skipn n l <> [] -> n < length l.
Proof.
  intros H. destruct (Nat.lt_ge_cases n (length l)) as [L|L]; [exact L|].
  exfalso. apply H. apply skipn_all2. exact L.
Qed.

(* on pool 0 query jobs are served before interactive jobs: if a query job is left waiting no
   interactive job got a container; and a job is left waiting only when its pool has nothing left:
   no free CPU and no free RAM in the pool's final snapshot (initial snapshot minus what was assigned) *)
Theorem pp_shared_pool_order C s e results newp s' w' susps asgs :
  priority_pool_step C s e results newp = Ok (s', w', susps, asgs) ->
  let x0 := nth 0 (snapshot e) dummy_stat in
  let x1 := nth 1 (snapshot e) dummy_stat in
  let on k := filter (fun a => (a_pool a =? k)%Z) asgs in
  (class_ok s -> ss_q s' <> [] -> forall a, In a asgs -> a_prio a <> Interactive) /\
  (ss_q s' <> [] \/ ss_i s' <> [] ->
     (ps_acpu x0 - sumZ (map a_cpu (on 0%Z)) = 0)%Z /\ (ps_aram x0 - sumQ (map a_ram (on 0%Z)) == 0)%Q) /\
  (ss_b s' <> [] ->
     (ps_acpu x1 - sumZ (map a_cpu (on 1%Z)) = 0)%Z /\ (ps_aram x1 - sumQ (map a_ram (on 1%Z)) == 0)%Q).
Proof.
  intros H. cbv zeta. pose proof H as H0. apply pp_step_inv in H.
  destruct H as (m & lq & n1 & n2 & n3 & x0a & x0b & x1a & w1 & w2 & a1 & a2 & a3 & o1 & o2 & H).
  destruct H as (_ & _ & _ & S1 & S2 & S3 & _ & Ea & Eq & Ei & Eb & _). subst asgs.
  assert (P1 : forall a, In a a1 -> a_pool a = 0%Z) by (intros a Ha; apply (pp_rel_pool _ _ _ _ _ _ _ _ _ _ _ _ S1 Ha)).
  assert (P2 : forall a, In a a2 -> a_pool a = 0%Z) by (intros a Ha; apply (pp_rel_pool _ _ _ _ _ _ _ _ _ _ _ _ S2 Ha)).
  assert (P3 : forall a, In a a3 -> a_pool a = 1%Z) by (intros a Ha; apply (pp_rel_pool _ _ _ _ _ _ _ _ _ _ _ _ S3 Ha)).
  assert (On0 : filter (fun a => (a_pool a =? 0)%Z) (a1 ++ a2 ++ a3) = a1 ++ a2).
  { rewrite !filter_app'. rewrite (filter_all _ a1), (filter_all _ a2), (filter_none _ a3).
    - rewrite app_nil_r. reflexivity.
    - intros a Ha. rewrite (P3 a Ha). reflexivity.
    - intros a Ha. rewrite (P2 a Ha). reflexivity.
    - intros a Ha. rewrite (P1 a Ha). reflexivity. }
  assert (On1 : filter (fun a => (a_pool a =? 1)%Z) (a1 ++ a2 ++ a3) = a3).
  { rewrite !filter_app'. rewrite (filter_none _ a1), (filter_none _ a2), (filter_all _ a3).
    - reflexivity.
    - intros a Ha. rewrite (P3 a Ha). reflexivity.
    - intros a Ha. rewrite (P2 a Ha). reflexivity.
    - intros a Ha. rewrite (P1 a Ha). reflexivity. }
  rewrite On0, On1.
  destruct (pp_rel_snapshot _ _ _ _ _ _ _ _ _ _ _ S1) as [X1 Y1].
  destruct (pp_rel_snapshot _ _ _ _ _ _ _ _ _ _ _ S2) as [X2 Y2].
  destruct (pp_rel_snapshot _ _ _ _ _ _ _ _ _ _ _ S3) as [X3 Y3].
  split; [|split].
  - intros K NE a Ha. rewrite Eq in NE. apply skipn_nonnil in NE.
    destruct (pp_rel_stop _ _ _ _ _ _ _ _ _ _ _ S1 NE) as [D1 D2].
    destruct (pp_rel_dead_noop _ _ _ _ _ _ _ _ _ _ _ S2 D1 D2) as (_ & _ & _ & A2 & _). subst a2.
    cbn [app] in Ha. apply in_app_or in Ha. destruct Ha as [Ha|Ha].
    + destruct (pp_rel_from _ _ _ _ _ _ _ _ _ _ _ _ S1 Ha) as [j [Hj [_ [_ [F2 _]]]]].
      apply In_firstn in Hj. rewrite F2, (pp_pre_class _ _ _ _ _ _ _ _ K Hj). discriminate.
    + destruct (pp_rel_from _ _ _ _ _ _ _ _ _ _ _ _ S3 Ha) as [j [Hj [_ [_ [F2 _]]]]].
      apply In_firstn in Hj. rewrite F2, (pp_pre_class _ _ _ _ _ _ _ _ K Hj). discriminate.
  - rewrite !map_app, sumZ_app', sumQ_app'. intros [NE|NE].
    + rewrite Eq in NE. apply skipn_nonnil in NE.
      destruct (pp_rel_stop _ _ _ _ _ _ _ _ _ _ _ S1 NE) as [D1 D2].
      destruct (pp_rel_dead_noop _ _ _ _ _ _ _ _ _ _ _ S2 D1 D2) as (_ & E2 & _ & A2 & _). subst a2 x0b.
      cbn [map sumZ sumQ]. split; [lia|lra].
    + rewrite Ei in NE. apply skipn_nonnil in NE.
      destruct (pp_rel_stop _ _ _ _ _ _ _ _ _ _ _ S2 NE) as [D1 D2]. split; [lia|lra].
  - intros NE. rewrite Eb in NE. apply skipn_nonnil in NE.
    destruct (pp_rel_stop _ _ _ _ _ _ _ _ _ _ _ S3 NE) as [D1 D2]. split; [lia|lra].
Qed.

(* ------------------------------------------------------------------------------------------ *)
(* 10. non-vacuity: concrete rounds                                                            *)
(* ------------------------------------------------------------------------------------------ *)

Module Examples.
Definition exSt : static := mk_static [(Query, [[]]); (Batch, [[]; [0]]); (Interactive, [[]])].
Definition exC : cfg :=
  {| cf_static := exSt; cf_script := fun _ _ => [1%Q]; cf_tps := 10%Z; cf_overcommit := false;
     cf_multi := true; cf_rnd := fun q => q |}.
Definition exE : estate := init_estate exC 2 10%Z (10 # 1)%Q.
Definition show (r : res (sstate * world * list susp * list asg)) :=
  match r with
  | Ok (s, w, su, asgs) =>
      Some (length (ss_q s), length (ss_i s), length (ss_b s), ss_oom s, length su,
            map (fun a => (a_prio a, a_pool a, a_ops a, a_cpu a, Qred (a_ram a))) asgs)
  | Err e => None
  end.

(* three arrivals: query and interactive on pool 0, batch (both operators in one container) on pool 1 *)
Example ex_arrivals :
  show (priority_pool_step exC init_sstate exE [] [0; 1; 2]) =
  Some (0, 0, 0, 0%Z, 0,
        [(Query, 0%Z, [0], 1%Z, 1%Q); (Interactive, 0%Z, [3], 1%Z, 1%Q); (Batch, 1%Z, [1; 2], 1%Z, 1%Q)]).
Proof. vm_compute. reflexivity. Qed.

(* a failed batch container (operators 1 and 2 FAILED): retried together on pool 1 with twice the request *)
Definition wF : world := {| w_st := [Pending; Failed; Failed; Pending]; w_cnt := w_cnt (init_world exSt) |}.
Definition exEF : estate := {| e_world := wF; e_pools := e_pools exE; e_next := 1 |}.
Definition rF (cpu : Z) : result :=
  {| r_cid := 0; r_ops := [1; 2]; r_cpu := cpu; r_ram := inject_Z cpu; r_prio := Batch; r_pool := 1;
     r_err := true |}.
Example ex_retry :
  show (priority_pool_step exC init_sstate exEF [rF 1%Z] []) =
  Some (0, 0, 0, 0%Z, 0, [(Batch, 1%Z, [1; 2], 2%Z, 2%Q)]).
Proof. vm_compute. reflexivity. Qed.

(* only the unfinished operator is retried when the first one had completed *)
Definition wF2 : world := {| w_st := [Pending; Completed; Failed; Pending]; w_cnt := w_cnt (init_world exSt) |}.
Example ex_retry_unfinished :
  show (priority_pool_step exC init_sstate {| e_world := wF2; e_pools := e_pools exE; e_next := 1 |}
          [rF 1%Z] []) =
  Some (0, 0, 0, 0%Z, 0, [(Batch, 1%Z, [2], 2%Z, 2%Q)]).
Proof. vm_compute. reflexivity. Qed.

(* the doubled request 6 of 10 reaches half of the pool: abandoned, counted, nothing assigned *)
Example ex_cutoff :
  show (priority_pool_step exC init_sstate exEF [rF 3%Z] []) = Some (0, 0, 0, 1%Z, 0, []).
Proof. vm_compute. reflexivity. Qed.

(* a failed container with nothing left to retry makes the scheduler assert *)
Example ex_failure_assert :
  priority_pool_step exC init_sstate
    {| e_world := {| w_st := [Pending; Completed; Completed; Pending]; w_cnt := w_cnt (init_world exSt) |};
       e_pools := e_pools exE; e_next := 1 |} [rF 1%Z] [] = Err ESchedAssert.
Proof. vm_compute. reflexivity. Qed.

(* the hypothesis of pp_step_no_assert is needed: a pool with free RAM but no free CPU and a waiting
   query job makes the depleted-pool assertion fire *)
Definition badpool : pool :=
  {| p_id := 0; p_max_cpu := 10%Z; p_max_ram := 10%Q; p_avail_cpu := 0%Z; p_avail_ram := 5%Q;
     p_consumed := 0%Q; p_active := []; p_suspending := []; p_suspended := [];
     p_num_completed := 0%Z; p_tick_times := [] |}.
Example ex_depleted_assert :
  priority_pool_step exC init_sstate
    {| e_world := init_world exSt; e_pools := [badpool; new_pool 1 10%Z 10%Q]; e_next := 0 |} [] [0]
  = Err ESchedAssert.
Proof. vm_compute. reflexivity. Qed.
End Examples.

