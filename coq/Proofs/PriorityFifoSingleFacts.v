(* C12 at run level, the [priority] scheduler with ONE operator per container ([cf_multi C = false]):
   pipelines of equal priority receive their FIRST container in arrival order.

   In this mode an arriving pipeline files one job per READY operator -- for a pipeline that has just arrived
   these are its root operators (no parents), in the order of operator_states -- and the other operators are
   filed later, as their parents complete.  So a class queue holds BLOCKS of jobs, and a scan can stop in the
   middle of a block.  The argument of Proofs/PriorityFifoFacts.v is repeated with blocks:

     1. [flat_cut]: cutting a concatenation of non-empty blocks after [m] elements cuts the list of blocks
        after [cutp] blocks, the last of which may be cut in the middle.
     2. the round ([SRound]): if the new jobs (jobs of never-served pipelines) of a class queue are the root
        jobs of the waiting pipelines, block by block in arrival order, then a scan serves an arrival-ordered
        prefix of the waiting pipelines: all root operators of all of them but the last, a non-empty prefix of
        the root operators of the last; what is left has the same shape with respect to the enlarged set.
     3. the invariant [sginv] along [sim_hist], and the theorems.

   [gscan], [sim_hist], [served_pipes], [waiting], [jnew]/[anew] are those of Proofs/PriorityFifoFacts.v. *)
From Coq Require Import ZArith QArith List Bool Arith Lia Lqa Permutation.
Import ListNotations.
From Eudoxia Require Import Num.Rnd64 Model.Types Model.Dag Model.Lifecycle Model.Container Model.Pool
  Model.Executor Model.Sched Model.Simulator
  Proofs.ListFacts Proofs.LifecycleFacts Proofs.ConserveFacts Proofs.ExecLifeFacts Proofs.LedgerFacts
  Proofs.NaiveFacts Proofs.SafetyFacts Proofs.ClosedLoopFacts Proofs.PriorityFacts Proofs.PriorityPoolFacts
  Proofs.PriorityPoolRunFacts Proofs.PriorityPoolClassFacts Proofs.PriorityRunFacts Proofs.SimReachFacts
  Proofs.NaiveRunFacts Proofs.PriorityFifoFacts.
Close Scope Q_scope.
Close Scope Z_scope.

(* ------------------------------------------------------------------------------------------ *)
(* 0. lists: cutting a concatenation of blocks                                                  *)
(* ------------------------------------------------------------------------------------------ *)

(* the number of blocks touched by the first [m] elements of [flat_map f W] *)
Fixpoint cutp {A B} (f : A -> list B) (W : list A) (m : nat) : nat :=
  match W with
  | [] => 0
  | x :: t => match m with 0 => 0 | S _ => S (cutp f t (m - length (f x))) end
  end.

Lemma cutp_0 {A B} (f : A -> list B) W : cutp f W 0 = 0.
Proof. destruct W; reflexivity. Qed.

Lemma flat_cut {A B} (f : A -> list B) : forall W m,
  (forall x, In x W -> f x <> []) ->
  exists r,
    skipn m (flat_map f W) = r ++ flat_map f (skipn (cutp f W m) W) /\
    ((cutp f W m = 0 /\ r = [] /\ firstn m (flat_map f W) = []) \/
     exists W1 x r1, firstn (cutp f W m) W = W1 ++ [x] /\ f x = r1 ++ r /\ r1 <> [] /\
                     firstn m (flat_map f W) = flat_map f W1 ++ r1).
Proof.
  induction W as [|x t IH]; intros m Hne.
  - exists []. cbn [flat_map cutp]. rewrite skipn_nil, firstn_nil. split; [reflexivity|left; auto].
  - destruct m as [|m'].
    + exists []. cbn [cutp skipn firstn app]. split; [reflexivity|left; auto].
    + assert (Nx : f x <> []) by (apply Hne; left; reflexivity).
      assert (Ht : forall y, In y t -> f y <> []) by (intros y Hy; apply Hne; right; exact Hy).
      cbn [flat_map cutp]. destruct (Nat.le_gt_cases (S m') (length (f x))) as [Le|Gt].
      * exists (skipn (S m') (f x)).
        replace (S m' - length (f x)) with 0 by lia. rewrite cutp_0. split.
        -- rewrite skipn_app. replace (S m' - length (f x)) with 0 by lia. reflexivity.
        -- right. exists [], x, (firstn (S m') (f x)).
           split; [reflexivity|]. split; [symmetry; apply firstn_skipn|]. split.
           ++ destruct (f x) as [|b l]; [exfalso; apply Nx; reflexivity|cbn [firstn]; discriminate].
           ++ rewrite firstn_app. replace (S m' - length (f x)) with 0 by lia.
              rewrite firstn_O. apply app_nil_r.
      * destruct (IH (S m' - length (f x)) Ht) as (r & E1 & E2). exists r. split.
        -- rewrite skipn_app, (skipn_all2 (f x)) by lia. cbn [app skipn]. exact E1.
        -- right. rewrite firstn_app, (firstn_all2 (f x)) by lia.
           destruct E2 as [(E0 & -> & E3)|(W1 & y & r1 & F1 & F2 & F3 & F4)].
           ++ exists [], x, (f x). rewrite E0, E3. cbn [firstn app flat_map]. rewrite !app_nil_r. auto.
           ++ exists (x :: W1), y, r1. cbn [firstn]. rewrite F1, F4. cbn [app flat_map].
              rewrite app_assoc. auto.
Qed.

(* ------------------------------------------------------------------------------------------ *)
(* 1. the jobs an arriving pipeline files                                                       *)
(* ------------------------------------------------------------------------------------------ *)

Section Roots.
Variable C : cfg.
Local Notation St := (cf_static C).

Definition is_root (o : nat) : bool := match op_parents St o with [] => true | _ :: _ => false end.
(* the operators of pipeline [k] without parents, in the order of operator_states *)
Definition root_ops (k : nat) : list nat := filter is_root (pd_order (pipe_of St k)).
Definition root_job (k o : nat) : job :=
  {| j_prio := prio_of_pipe C k; j_pipe := k; j_ops := [o]; j_retry := None |}.
(* the jobs filed when pipeline [k] arrives (priority, one operator per container) *)
Definition root_jobs (k : nat) : list job := map (root_job k) (root_ops k).

Lemma root_ops_incl k : incl (root_ops k) (pd_order (pipe_of St k)).
Proof. intros o Ho. unfold root_ops in Ho. apply filter_In in Ho. apply Ho. Qed.

Lemma root_job_fields k j :
  In j (root_jobs k) ->
  exists o, In o (root_ops k) /\ j = root_job k o.
Proof. intros H. apply in_map_iff in H. destruct H as (o & <- & Ho). exists o. auto. Qed.

Lemma root_jobs_nonempty k : root_ops k <> [] -> root_jobs k <> [].
Proof. unfold root_jobs. destruct (root_ops k); [congruence|cbn [map]; discriminate]. Qed.

Lemma has_start_roots k : has_start C true k -> root_ops k <> [].
Proof.
  intros (o & Io & Po) E.
  assert (X : In o (root_ops k)).
  { unfold root_ops. apply filter_In. split; [exact Io|]. unfold is_root. change (S_of C) with St in Po.
    rewrite Po. reflexivity. }
  rewrite E in X. exact X.
Qed.

Hypothesis SK : static_ok St.

Lemma root_job_new sv k j : In j (root_jobs k) -> jnew C sv j = unsv sv k.
Proof.
  intros H. destruct (root_job_fields k j H) as (o & Ho & ->).
  unfold jnew, ops_new, root_job. cbn [j_ops existsb]. rewrite orb_false_r.
  rewrite (Hbelong C SK k o (root_ops_incl k o Ho)). reflexivity.
Qed.

Hypothesis TP : order_topo St.

(* the ready operators of a pipeline none of whose operators has left PENDING are its roots *)
Lemma fresh_ready w k : fresh C w k -> get_ops St w k assignable true = root_ops k.
Proof.
  intros F. unfold get_ops, root_ops. apply filter_ext_in'. intros o Ho.
  rewrite (F o Ho). cbn [negb orb]. change (assignable Pending) with true. cbn [andb].
  unfold is_root, parents_complete. destruct (op_parents St o) as [|p ps] eqn:E; [reflexivity|].
  cbn [forallb]. destruct (in_split _ _ Ho) as (l1 & l2 & El).
  assert (Ip : In p l1) by (apply (TP k l1 o l2 El p); rewrite E; left; reflexivity).
  assert (Ipk : In p (pd_order (pipe_of St k))) by (rewrite El; apply in_or_app; left; exact Ip).
  rewrite (F p Ipk). reflexivity.
Qed.

End Roots.

(* ------------------------------------------------------------------------------------------ *)
(* 2. one round, without worlds                                                                 *)
(* ------------------------------------------------------------------------------------------ *)

Section SRound.
Variable C : cfg.
Local Notation St := (cf_static C).
Hypothesis SK : static_ok St.

Lemma root_op_pipe k o : In o (root_ops C k) -> op_pipe St o = k.
Proof. intros Ho. apply (Hbelong C SK k o). apply root_ops_incl. exact Ho. Qed.

(* one class: the scan of its queue *)
Section OneClass.
Variable sv : list nat.
Variable A : list nat.
Variable c : prio.
Variable q : list job.
Hypothesis HA : NoDup A.
Hypothesis Hroots : forall k, In k A -> root_ops C k <> [].
Hypothesis Hq : filter (jnew C sv) q = flat_map (root_jobs C) (waiting C sv c A).

Variable w w' : world.
Variable n : nat.
Variable asgs : list asg.
Hypothesis Hscan : gscan C w q n w' asgs.

(* the number of waiting pipelines the scan reaches, these pipelines, the new jobs it scans *)
Definition spos : nat := cutp (root_jobs C) (waiting C sv c A) (served_count C sv q n).
Definition ssrv : list nat := firstn spos (waiting C sv c A).
Definition staken : list job := filter (jnew C sv) (firstn n q).

Lemma waiting_blocks k : In k (waiting C sv c A) -> root_jobs C k <> [].
Proof. intros Hk. apply root_jobs_nonempty. apply Hroots. apply waiting_In in Hk. apply Hk. Qed.

Lemma s_cut :
  exists r,
    filter (jnew C sv) (skipn n q) = r ++ flat_map (root_jobs C) (skipn spos (waiting C sv c A)) /\
    (forall j, In j r -> exists k, In k ssrv /\ In j (root_jobs C k)) /\
    ((ssrv = [] /\ staken = []) \/
     exists W1 x r1 r2, ssrv = W1 ++ [x] /\ root_jobs C x = r1 ++ r2 /\ r1 <> [] /\
                        staken = flat_map (root_jobs C) W1 ++ r1).
Proof.
  destruct (filter_firstn_skipn (jnew C sv) n q) as [F1 F2]. rewrite Hq in F1, F2.
  destruct (flat_cut (root_jobs C) (waiting C sv c A) (served_count C sv q n) waiting_blocks)
    as (r & E1 & E2).
  fold spos in E1, E2. fold ssrv in E2. unfold served_count in E1, E2. exists r.
  split; [rewrite F2; exact E1|]. destruct E2 as [(E0 & -> & E3)|(W1 & x & r1 & G1 & G2 & G3 & G4)].
  - split; [intros j []|]. left. split; [unfold ssrv; rewrite E0; reflexivity|].
    unfold staken. rewrite F1. exact E3.
  - split.
    + intros j Hj. exists x. split; [rewrite G1; apply in_or_app; right; left; reflexivity|].
      rewrite G2. apply in_or_app. right. exact Hj.
    + right. exists W1, x, r1, r. split; [exact G1|]. split; [exact G2|]. split; [exact G3|].
      unfold staken. rewrite F1. exact G4.
Qed.

(* every new job scanned belongs to a pipeline reached, every pipeline reached has a new job scanned *)
Lemma staken_in j : In j staken -> exists k, In k ssrv /\ In j (root_jobs C k).
Proof.
  destruct s_cut as (r & _ & _ & [(_ & E)|(W1 & x & r1 & r2 & G1 & G2 & G3 & G4)]); intros Hj.
  - rewrite E in Hj. destruct Hj.
  - rewrite G4 in Hj. apply in_app_or in Hj. destruct Hj as [Hj|Hj].
    + apply in_flat_map in Hj. destruct Hj as (k & Hk & Hj). exists k. split; [|exact Hj].
      rewrite G1. apply in_or_app. left. exact Hk.
    + exists x. split; [rewrite G1; apply in_or_app; right; left; reflexivity|].
      rewrite G2. apply in_or_app. left. exact Hj.
Qed.

Lemma ssrv_taken k : In k ssrv -> exists j, In j staken /\ In j (root_jobs C k).
Proof.
  destruct s_cut as (r & _ & _ & [(E & _)|(W1 & x & r1 & r2 & G1 & G2 & G3 & G4)]); intros Hk.
  - rewrite E in Hk. destruct Hk.
  - assert (Hw : In k (waiting C sv c A)) by (apply (In_firstn' k spos); exact Hk).
    rewrite G1 in Hk. apply in_app_or in Hk. destruct Hk as [Hk|[<-|[]]].
    + pose proof (waiting_blocks k Hw) as Nb. destruct (root_jobs C k) as [|j tl] eqn:E; [congruence|].
      exists j. split; [|left; reflexivity]. rewrite G4. apply in_or_app. left.
      apply in_flat_map. exists k. split; [exact Hk|]. rewrite E. left. reflexivity.
    + destruct r1 as [|j tl]; [congruence|]. exists j. split.
      * rewrite G4. apply in_or_app. right. left. reflexivity.
      * rewrite G2. left. reflexivity.
Qed.

Lemma new_is_root j : In j q -> jnew C sv j = true ->
  exists k, In k (waiting C sv c A) /\ In j (root_jobs C k).
Proof.
  intros Hj Jn. assert (X : In j (filter (jnew C sv) q)) by (apply filter_In; auto).
  rewrite Hq in X. apply in_flat_map in X. exact X.
Qed.

(* the first containers of the class: one per new job scanned, in order *)
Lemma s_served_asgs :
  Forall2 (fun j a => a_ops a = j_ops j /\ a_prio a = j_prio j) staken (filter (anew C sv) asgs).
Proof.
  pose proof (gscan_match C (ops_new C sv) _ _ _ _ _ Hscan) as M.
  assert (Hn : forall j, In j (firstn n q) -> ops_new C sv (j_ops j) = true -> j_retry j = None).
  { intros j Hj Jn. destruct (new_is_root j (In_firstn' _ _ _ Hj) Jn) as (k & _ & Hr).
    destruct (root_job_fields C k j Hr) as (o & _ & ->). reflexivity. }
  exact (M Hn).
Qed.

Lemma s_asg_pipes a o :
  In a asgs -> In o (a_ops a) -> In (op_pipe St o) sv \/ In (op_pipe St o) ssrv.
Proof.
  intros Ha Ho. destruct (anew C sv a) eqn:E.
  - right. assert (X : In a (filter (anew C sv) asgs)) by (apply filter_In; auto).
    destruct (NaiveRunFacts.Forall2_In_r _ _ _ _ s_served_asgs X) as (j & Hj & Eo & _).
    destruct (staken_in j Hj) as (k & Hk & Hr). destruct (root_job_fields C k j Hr) as (o' & Ho' & ->).
    rewrite Eo in Ho. cbn [root_job j_ops] in Ho. destruct Ho as [<-|[]].
    rewrite (root_op_pipe k o' Ho'). exact Hk.
  - left. apply (proj1 (ops_new_false C sv (a_ops a)) E). exact Ho.
Qed.

Lemma s_served_has k : In k ssrv ->
  exists a o, In a asgs /\ a_ops a = [o] /\ In o (root_ops C k) /\ a_prio a = cls C k.
Proof.
  intros Hk. destruct (ssrv_taken k Hk) as (j & Hj & Hr).
  destruct (Forall2_In_l' _ _ _ _ s_served_asgs Hj) as (a & Ha & Eo & Ep).
  apply filter_In in Ha. destruct (root_job_fields C k j Hr) as (o & Ho & ->).
  exists a, o. split; [apply Ha|]. split; [exact Eo|]. split; [exact Ho|exact Ep].
Qed.

End OneClass.

(* the three scans of a round *)
Section ThreeScans.
Variable sv : list nat.
Variable A : list nat.
Variable pre : prio -> list job.
Hypothesis HA : NoDup A.
Hypothesis Hroots : forall k, In k A -> root_ops C k <> [].
Hypothesis Hpre : forall c, filter (jnew C sv) (pre c) = flat_map (root_jobs C) (waiting C sv c A).
Variable nn : prio -> nat.

Definition s_srv (c : prio) : list nat := ssrv sv A c (pre c) (nn c).

Variable sv' : list nat.
Hypothesis Hsv' : forall k, In k sv' <-> In k sv \/ exists c, In k (s_srv c).

Lemma s_srv_In c k : In k (s_srv c) -> In k A /\ ~ In k sv /\ cls C k = c.
Proof. intros H. apply In_firstn' in H. apply waiting_In in H. exact H. Qed.

Lemma s_sv_incl : incl sv sv'.
Proof. intros k Hk. apply Hsv'. left. exact Hk. Qed.

Lemma s_unsv_split c k :
  cls C k = c -> unsv sv' k = unsv sv k && negb (memb k (s_srv c)).
Proof.
  intros Ec. destruct (unsv sv' k) eqn:U.
  - apply unsv_true in U. symmetry. apply andb_true_iff. split.
    + apply unsv_true. intros X. apply U. apply Hsv'. left. exact X.
    + apply negb_true_iff. apply memb_false. intros X. apply U. apply Hsv'. right. exists c. exact X.
  - unfold unsv in U. apply negb_false_iff in U. apply memb_In in U. apply Hsv' in U.
    symmetry. apply andb_false_iff. destruct U as [U|(c' & U)].
    + left. unfold unsv. apply negb_false_iff. apply memb_In. exact U.
    + right. apply negb_false_iff. apply memb_In.
      destruct (s_srv_In c' k U) as (_ & _ & E). rewrite Ec in E. subst c'. exact U.
Qed.

Lemma s_waiting_after c : waiting C sv' c A = skipn (spos sv A c (pre c) (nn c)) (waiting C sv c A).
Proof.
  rewrite <- (filter_not_firstn (waiting C sv c A)) by (apply waiting_NoDup; exact HA).
  unfold waiting at 3. rewrite filter_filter_and. unfold waiting at 1. apply filter_ext_in'.
  intros k _. destruct (prio_eqb (cls C k) c) eqn:E.
  - apply PriorityPoolFacts.prio_eqb_eq in E. rewrite (s_unsv_split c k E). rewrite !andb_true_r. reflexivity.
  - rewrite !andb_false_r. reflexivity.
Qed.

Lemma s_waiting_split c : waiting C sv c A = s_srv c ++ waiting C sv' c A.
Proof. rewrite s_waiting_after. unfold s_srv, ssrv. symmetry. apply firstn_skipn. Qed.

Lemma s_queue_after c :
  filter (jnew C sv') (skipn (nn c) (pre c)) = flat_map (root_jobs C) (waiting C sv' c A).
Proof.
  rewrite <- (filter_filter_sub (jnew C sv) (jnew C sv')).
  2:{ intros j _ Hj. eapply ops_new_mono; [exact s_sv_incl|exact Hj]. }
  destruct (s_cut sv A c (pre c) Hroots (Hpre c) (nn c)) as (r & E & Hr & _).
  rewrite E, filter_app, <- s_waiting_after.
  rewrite (PriorityPoolFacts.filter_none _ r), (PriorityPoolFacts.filter_all _ (flat_map _ _)); [reflexivity| |].
  - intros j Hj. apply in_flat_map in Hj. destruct Hj as (k & Hk & Hj).
    rewrite (root_job_new C SK sv' k j Hj). apply unsv_true. apply waiting_In in Hk. apply Hk.
  - intros j Hj. destruct (Hr j Hj) as (k & Hk & Hj'). rewrite (root_job_new C SK sv' k j Hj').
    unfold unsv. apply negb_false_iff. apply memb_In. apply Hsv'. right. exists c. exact Hk.
Qed.

End ThreeScans.
End SRound.

(* ------------------------------------------------------------------------------------------ *)
(* 3. the invariant, and one tick given the shape of its round                                  *)
(* ------------------------------------------------------------------------------------------ *)

Section SLoop.
Variable C : cfg.
Local Notation St := (cf_static C).
Hypothesis SK : static_ok St.

(* [sv]: the pipelines served so far. The new jobs of every class queue are the root jobs of the arrived,
   never-served pipelines of the class, block by block in arrival order; everything else in the system
   (containers, results, jobs noted for suspending containers) is made of operators of served pipelines *)
Definition sginv (sv : list nat) (s : sim) : Prop :=
  NoDup (arrived s) /\ incl sv (arrived s) /\
  (forall k, ~ In k sv -> fresh C (wof s) k) /\
  (forall c, filter (jnew C sv) (queue_of (sm_sched s) c)
             = flat_map (root_jobs C) (waiting C sv c (arrived s))) /\
  (forall p c, In p (e_pools (sm_exec s)) -> In c (pool_conts p) -> ops_served C sv (c_ops c)) /\
  (forall r, In r (sm_results s) -> ops_served C sv (r_ops r)) /\
  (forall kv, In kv (ss_suspending (sm_sched s)) -> ops_served C sv (j_ops (snd kv))).

Lemma sginv_init np cpu ram : sginv [] (init_sim C np cpu ram).
Proof.
  unfold sginv, arrived, wof. cbn [init_sim sm_arrival sm_sched sm_exec sm_results map].
  split; [constructor|]. split; [intros x []|]. split; [|split; [|split; [|split]]].
  - intros k _ o _. cbn [init_estate e_world]. apply st_of_init.
  - intros c. destruct c; reflexivity.
  - intros p c Hp Hc. cbn [init_estate e_pools] in Hp. apply in_map_iff in Hp. destruct Hp as (i & <- & _).
    destruct Hc.
  - intros r [].
  - intros kv [].
Qed.

(* the operators of queued jobs belong to arrived pipelines *)
Lemma sginv_queued sv s c j o :
  sginv sv s -> In j (queue_of (sm_sched s) c) -> In o (j_ops j) -> In (op_pipe St o) (arrived s).
Proof.
  intros (_ & Iv & _ & Gq & _) Hj Ho. destruct (jnew C sv j) eqn:E.
  - assert (X : In j (filter (jnew C sv) (queue_of (sm_sched s) c))) by (apply filter_In; auto).
    rewrite Gq in X. apply in_flat_map in X. destruct X as (k & Hk & Hr). apply waiting_In in Hk.
    destruct (root_job_fields C k j Hr) as (o' & Ho' & ->). cbn [root_job j_ops] in Ho.
    destruct Ho as [<-|[]]. rewrite (root_op_pipe C SK k o' Ho'). apply Hk.
  - apply Iv. apply (proj1 (ops_new_false C sv (j_ops j)) E). exact Ho.
Qed.

Section Tick.
Variable sv : list nat.
Variable t : Z.
Variable s s' : sim.
Variable newp : list nat.
Variable lg : tick_log.
Variable a : algo.
Hypothesis G : sginv sv s.
Hypothesis T : sim_tick C a t s newp = Ok (s', lg).
Hypothesis Hroots : forall k, In k (arrived s') -> root_ops C k <> [].
Variable pre : prio -> list job.
Variable nn : prio -> nat.
Variable w1 w2 w3 : world.
Variable a1 a2 a3 : list asg.
Variable ss' : sstate.
Variable susps : list susp.
Hypothesis Hsched : sched_step C a (sm_sched s) (sm_exec s) (sm_results s) newp = Ok (ss', w3, susps, a1 ++ a2 ++ a3).
Hypothesis Hpre : forall c, filter (jnew C sv) (pre c)
                            = flat_map (root_jobs C) (waiting C sv c (arrived s ++ newp)).
Hypothesis S1 : gscan C (wof s) (pre Query) (nn Query) w1 a1.
Hypothesis S2 : gscan C w1 (pre Interactive) (nn Interactive) w2 a2.
Hypothesis S3 : gscan C w2 (pre Batch) (nn Batch) w3 a3.
Hypothesis Hleft : forall c, queue_of ss' c = skipn (nn c) (pre c).
(* the jobs noted for suspending containers after the round *)
Hypothesis Hnoted : forall kv, In kv (ss_suspending ss') -> ops_served C sv (j_ops (snd kv)).

Local Notation A := (arrived s ++ newp).
Local Notation srv' := (s_srv C sv A pre nn).

Lemma s_tick_facts :
  arrived s' = A /\ NoDup A /\ sm_sched s' = ss' /\ tl_asgs lg = a1 ++ a2 ++ a3 /\
  exec_tick C {| e_world := w3; e_pools := e_pools (sm_exec s); e_next := e_next (sm_exec s) |}
            susps (a1 ++ a2 ++ a3) = Ok (sm_exec s', sm_results s').
Proof.
  destruct G as (Na & _). pose proof T as T0. apply PriorityPoolRunFacts.sim_tick_ok_inv in T0.
  destruct T0 as (arr & ss0 & w0 & su0 & as0 & e2 & res & Ra & Sch & Rest).
  rewrite Hsched in Sch. injection Sch as <- <- <- <-.
  destruct Rest as (Ex & E1 & E2 & E3 & E4 & _ & _ & E7 & _).
  assert (Ar : arrived s' = A).
  { unfold arrived. rewrite E4. apply record_arrivals_fst in Ra. exact Ra. }
  split; [exact Ar|]. split.
  - rewrite <- Ar. unfold arrived. rewrite E4. eapply record_arrivals_nodup; [exact Ra|exact Na].
  - split; [exact E2|]. split; [exact E7|]. rewrite E1, E3. exact Ex.
Qed.

Lemma s_HrootsA k : In k A -> root_ops C k <> [].
Proof. intros Hk. apply Hroots. rewrite (proj1 s_tick_facts). exact Hk. Qed.

Lemma s_tick_pipes a0 o :
  In a0 (a1 ++ a2 ++ a3) -> In o (a_ops a0) -> In (op_pipe St o) sv \/ exists c, In (op_pipe St o) (srv' c).
Proof.
  intros Ha Ho. apply in_app_or in Ha. destruct Ha as [Ha|Ha]; [|apply in_app_or in Ha; destruct Ha as [Ha|Ha]].
  - destruct (s_asg_pipes C SK sv A Query (pre Query) s_HrootsA (Hpre Query) _ _ _ _ S1 a0 o Ha Ho) as [X|X];
      [left; exact X|right; exists Query; exact X].
  - destruct (s_asg_pipes C SK sv A Interactive (pre Interactive) s_HrootsA (Hpre Interactive) _ _ _ _ S2 a0 o Ha Ho) as [X|X];
      [left; exact X|right; exists Interactive; exact X].
  - destruct (s_asg_pipes C SK sv A Batch (pre Batch) s_HrootsA (Hpre Batch) _ _ _ _ S3 a0 o Ha Ho) as [X|X];
      [left; exact X|right; exists Batch; exact X].
Qed.

Lemma s_srv_has c k : In k (srv' c) ->
  exists a0 o, In a0 (a1 ++ a2 ++ a3) /\ a_ops a0 = [o] /\ In o (root_ops C k) /\ a_prio a0 = cls C k.
Proof.
  intros Hk. destruct c.
  - destruct (s_served_has C sv A Query (pre Query) s_HrootsA (Hpre Query) _ _ _ _ S1 k Hk) as (a0 & o & Ha & R).
    exists a0, o. split; [apply in_or_app; left; exact Ha|exact R].
  - destruct (s_served_has C sv A Interactive (pre Interactive) s_HrootsA (Hpre Interactive) _ _ _ _ S2 k Hk) as (a0 & o & Ha & R).
    exists a0, o. split; [apply in_or_app; right; apply in_or_app; left; exact Ha|exact R].
  - destruct (s_served_has C sv A Batch (pre Batch) s_HrootsA (Hpre Batch) _ _ _ _ S3 k Hk) as (a0 & o & Ha & R).
    exists a0, o. split; [apply in_or_app; right; apply in_or_app; right; exact Ha|exact R].
Qed.

Lemma s_sv_after k : In k (sv ++ log_pipes C lg) <-> In k sv \/ exists c, In k (srv' c).
Proof.
  destruct s_tick_facts as (_ & _ & _ & El & _).
  rewrite in_app_iff, log_pipes_In, El. split.
  - intros [X|(a0 & o & Ha & Ho & <-)]; [left; exact X|]. apply (s_tick_pipes a0 o Ha Ho).
  - intros [X|(c & Hk)]; [left; exact X|]. right.
    destruct (s_srv_has c k Hk) as (a0 & o & Ha & Eo & Ho & _).
    exists a0, o. split; [exact Ha|]. split; [rewrite Eo; left; reflexivity|].
    apply (root_op_pipe C SK k o Ho).
Qed.

Lemma s_tick_ginv : sginv (sv ++ log_pipes C lg) s'.
Proof.
  destruct s_tick_facts as (Ar & NA & Es & El & Ex).
  pose proof G as (Na & Iv & Fr & Gq & Gc & Gr & Gn).
  assert (Inc : incl sv (sv ++ log_pipes C lg)) by (intros x Hx; apply in_or_app; left; exact Hx).
  assert (Pa : forall a0, In a0 (a1 ++ a2 ++ a3) -> ops_served C (sv ++ log_pipes C lg) (a_ops a0)).
  { intros a0 Ha o Ho. apply s_sv_after. exact (s_tick_pipes a0 o Ha Ho). }
  unfold sginv. rewrite Ar. split; [exact NA|]. split; [|split; [|split; [|split; [|split]]]].
  - intros k Hk. apply s_sv_after in Hk. destruct Hk as [Hk|(c & Hk)].
    + apply in_or_app. left. apply Iv. exact Hk.
    + apply (s_srv_In C sv A pre nn c k Hk).
  - (* never served: still PENDING *)
    intros k Nk.
    assert (F0 : fresh C (wof s) k) by (apply Fr; intros X; apply Nk; apply Inc; exact X).
    assert (D : forall a0 o, In a0 (a1 ++ a2 ++ a3) -> In o (a_ops a0) -> ~ In o (pd_order (pipe_of (S_of C) k))).
    { intros a0 o Ha Ho Hin. apply Nk. rewrite <- (Hbelong C SK k o Hin). apply (Pa a0 Ha o Ho). }
    assert (F1 : fresh C w1 k).
    { eapply gscan_fresh_frame; [exact S1| |exact F0]. intros a0 o Ha. apply D. apply in_or_app. left. exact Ha. }
    assert (F2 : fresh C w2 k).
    { eapply gscan_fresh_frame; [exact S2| |exact F1]. intros a0 o Ha. apply D.
      apply in_or_app. right. apply in_or_app. left. exact Ha. }
    assert (F3 : fresh C w3 k).
    { eapply gscan_fresh_frame; [exact S3| |exact F2]. intros a0 o Ha. apply D.
      apply in_or_app. right. apply in_or_app. right. exact Ha. }
    apply exec_tick_xsteps in Ex. cbn [e_world] in Ex. eapply exec_keeps_fresh; [exact Ex|exact F3].
  - intros c. rewrite Es, Hleft.
    apply (s_queue_after C SK sv A pre NA s_HrootsA Hpre nn (sv ++ log_pipes C lg) s_sv_after c).
  - apply exec_tick_ok_inv in Ex. destruct Ex as (_ & _ & Ex). cbn [e_world e_next e_pools] in Ex.
    apply (pools_tick_ops (ops_served C (sv ++ log_pipes C lg))) in Ex; [apply Ex|exact Pa|].
    intros p c Hp Hc o Ho. apply Inc. apply (Gc p c Hp Hc o Ho).
  - apply exec_tick_ok_inv in Ex. destruct Ex as (_ & _ & Ex). cbn [e_world e_next e_pools] in Ex.
    apply (pools_tick_ops (ops_served C (sv ++ log_pipes C lg))) in Ex; [apply Ex|exact Pa|].
    intros p c Hp Hc o Ho. apply Inc. apply (Gc p c Hp Hc o Ho).
  - rewrite Es. intros kv Hkv o Ho. apply Inc. apply (Hnoted kv Hkv o Ho).
Qed.

Local Notation tk c := (staken C sv (pre c) (nn c)).

(* the first containers of the tick *)
Lemma s_tick_first :
  (forall c, waiting C sv c (arrived s') = srv' c ++ waiting C (sv ++ log_pipes C lg) c (arrived s')) /\
  (forall c, (srv' c = [] /\ tk c = []) \/
             exists W1 k r1 r2, srv' c = W1 ++ [k] /\ root_jobs C k = r1 ++ r2 /\ r1 <> [] /\
                                tk c = flat_map (root_jobs C) W1 ++ r1) /\
  Forall2 (fun j a0 => a_ops a0 = j_ops j /\ a_prio a0 = j_prio j)
          (tk Query ++ tk Interactive ++ tk Batch) (filter (anew C sv) (tl_asgs lg)).
Proof.
  destruct s_tick_facts as (Ar & NA & Es & El & Ex). rewrite Ar. split; [|split].
  - intros c. apply (s_waiting_split C sv A pre NA nn (sv ++ log_pipes C lg) s_sv_after c).
  - intros c. destruct (s_cut C sv A c (pre c) s_HrootsA (Hpre c) (nn c)) as (r & _ & _ & X). exact X.
  - rewrite El, !filter_app. apply Forall2_app'; [|apply Forall2_app'].
    + apply (s_served_asgs C sv A Query (pre Query) (Hpre Query) _ _ _ _ S1).
    + apply (s_served_asgs C sv A Interactive (pre Interactive) (Hpre Interactive) _ _ _ _ S2).
    + apply (s_served_asgs C sv A Batch (pre Batch) (Hpre Batch) _ _ _ _ S3).
Qed.

End Tick.
End SLoop.

(* ------------------------------------------------------------------------------------------ *)
(* 4. priority, one operator per container: the jobs filed in a round                           *)
(* ------------------------------------------------------------------------------------------ *)

Lemma flat_map_ext_in' {A B} (f g : A -> list B) l :
  (forall x, In x l -> f x = g x) -> flat_map f l = flat_map g l.
Proof.
  induction l as [|h t IH]; intros H; cbn [flat_map]; [reflexivity|].
  rewrite (H h (or_introl eq_refl)), IH; [reflexivity|]. intros x Hx. apply H. right. exact Hx.
Qed.

Section SJobs.
Variable C : cfg.
Local Notation St := (cf_static C).
Hypothesis SK : static_ok St.
Hypothesis TP : order_topo St.
Hypothesis Hsingle : cf_multi C = false.

Lemma pr_job_of_single_ops w already ri p j :
  In j (pr_job_of C w already ri p) -> incl (j_ops j) (pd_order (pipe_of St p)).
Proof.
  unfold pr_job_of. cbv zeta. rewrite Hsingle. intros H.
  destruct (filter _ (get_ops (S_of C) w p assignable true)) as [|o t] eqn:E; [destruct H|].
  apply in_map_iff in H. destruct H as (o' & <- & Ho'). cbn [j_ops]. intros x [<-|[]].
  rewrite <- E in Ho'. apply filter_In in Ho'. destruct Ho' as [Ho' _].
  unfold get_ops in Ho'. apply filter_In in Ho'. apply Ho'.
Qed.

Lemma pr_job_of_single_new w already ri k :
  fresh C w k ->
  (forall o, In o (pd_order (pipe_of St k)) -> ~ In o already) ->
  (forall o, In o (pd_order (pipe_of St k)) -> assoc_find o ri = None) ->
  pr_job_of C w already ri k = root_jobs C k.
Proof.
  intros F Na Nr. unfold pr_job_of. cbv zeta. rewrite Hsingle. change (S_of C) with St.
  rewrite (fresh_ready C TP w k F). rewrite PriorityPoolFacts.filter_all.
  2:{ intros o Ho. apply negb_true_iff. apply memb_false. apply Na. apply root_ops_incl. exact Ho. }
  unfold root_jobs. pose proof (root_ops_incl C k) as I.
  destruct (root_ops C k) as [|o t]; [reflexivity|].
  apply map_ext_in. intros o' Ho'. rewrite (Nr o' (I o' Ho')). reflexivity.
Qed.

(* the jobs of a round: the root jobs of the new pipelines, block by block in arrival order, then jobs for
   pipelines that have results -- made of operators of served pipelines *)
Lemma s_pr_jobs_shape sv s newp :
  sginv C sv s -> NoDup (arrived s ++ newp) ->
  exists rest,
    pr_jobs C (sm_sched s) (sm_exec s) (sm_results s) newp = flat_map (root_jobs C) newp ++ rest /\
    forall j, In j rest -> ops_served C sv (j_ops j).
Proof.
  intros G NA. pose proof G as (Na & Iv & Fr & Gq & Gc & Gr & Gn).
  assert (Dj : forall k, In k newp -> ~ In k (arrived s)).
  { intros k Hk X. apply NoDup_app_inv in NA. destruct NA as (_ & _ & D). exact (D k X Hk). }
  assert (Shape : exists rest,
            pr_new_jobs C (wof s) (sm_sched s) (sm_results s) newp = flat_map (root_jobs C) newp ++ rest /\
            forall j, In j rest -> ops_served C sv (j_ops j)).
  { unfold pr_new_jobs. cbv zeta.
    fold (pr_job_of C (wof s) (queued_ops (sm_sched s)) (retry_info (wof s) (sm_results s))).
    rewrite (fold_add_new newp []) by (cbn [app]; apply NoDup_app_inv in NA; apply NA). cbn [app].
    destruct (fold_add_results (S_of C) (sm_results s) newp) as (ext & -> & Pe).
    rewrite flat_map_app. eexists. split; [f_equal|].
    - apply flat_map_ext_in'. intros k Hk. apply pr_job_of_single_new.
      + apply Fr. intros X. apply (Dj k Hk). apply Iv. exact X.
      + intros o Ho Hq. apply (Dj k Hk). rewrite <- (Hbelong C SK k o Ho).
        unfold queued_ops in Hq. rewrite !in_app_iff, !in_flat_map in Hq.
        destruct Hq as [(j & Hj & Hoj)|[(j & Hj & Hoj)|(j & Hj & Hoj)]].
        * apply (sginv_queued C SK sv s Query j o G Hj Hoj).
        * apply (sginv_queued C SK sv s Interactive j o G Hj Hoj).
        * apply (sginv_queued C SK sv s Batch j o G Hj Hoj).
      + intros o Ho. destruct (assoc_find o (retry_info (wof s) (sm_results s))) as [rs|] eqn:Ef; [|reflexivity].
        exfalso. apply retry_info_from_err in Ef. destruct Ef as (r & Hr & _ & _ & Hor).
        apply (Dj k Hk). apply Iv. rewrite <- (Hbelong C SK k o Ho). apply (Gr r Hr o Hor).
    - intros j Hj. apply in_flat_map in Hj. destruct Hj as (p & Hp & Hj).
      destruct (Pe p Hp) as (r & o & Hr & Ho & ->). intros o' Ho'.
      apply pr_job_of_single_ops in Hj. rewrite (Hbelong C SK _ o' (Hj o' Ho')). apply (Gr r Hr o Ho). }
  unfold pr_jobs. change (e_world (sm_exec s)) with (wof s).
  destruct newp as [|k t]; [destruct (sm_results s) as [|r tr] eqn:Er|]; [|exact Shape|exact Shape].
  exists []. split; [reflexivity|intros j []].
Qed.

(* the root jobs of a batch of new pipelines, sorted into class [c] *)
Lemma s_new_part sv c newp :
  (forall k, In k newp -> ~ In k sv) ->
  filter (jnew C sv) (filter (fun j => prio_eqb (j_prio j) c) (flat_map (root_jobs C) newp))
  = flat_map (root_jobs C) (waiting C sv c newp).
Proof.
  induction newp as [|k t IH]; intros H; [reflexivity|].
  assert (IH' := IH (fun k0 Hk0 => H k0 (or_intror Hk0))). pose proof (H k (or_introl eq_refl)) as Nk.
  cbn [flat_map]. rewrite !filter_app, IH'. unfold waiting. cbn [filter]. fold (waiting C sv c t).
  assert (U : unsv sv k = true) by (apply unsv_true; exact Nk). rewrite U. cbn [andb].
  assert (Pj : forall j, In j (root_jobs C k) -> j_prio j = cls C k).
  { intros j Hj. destruct (root_job_fields C k j Hj) as (o & _ & ->). reflexivity. }
  destruct (prio_eqb (cls C k) c) eqn:Ec.
  - cbn [flat_map]. f_equal. rewrite (PriorityPoolFacts.filter_all _ (root_jobs C k)).
    + apply PriorityPoolFacts.filter_all. intros j Hj. rewrite (root_job_new C SK sv k j Hj). exact U.
    + intros j Hj. rewrite (Pj j Hj). exact Ec.
  - rewrite (PriorityPoolFacts.filter_none _ (root_jobs C k)); [reflexivity|].
    intros j Hj. rewrite (Pj j Hj). exact Ec.
Qed.

(* the queue of class [c] when the scans of a priority round start *)
Lemma s_pr_pre_shape sv s newp lq c :
  sginv C sv s -> NoDup (arrived s ++ newp) ->
  (forall j, In j lq -> ops_served C sv (j_ops j)) ->
  filter (jnew C sv) (pr_pre C (sm_sched s) (sm_exec s) (sm_results s) newp lq c)
  = flat_map (root_jobs C) (waiting C sv c (arrived s ++ newp)).
Proof.
  intros G NA Hl. destruct (s_pr_jobs_shape sv s newp G NA) as (rest & Ej & Pr).
  pose proof G as (Na & Iv & _ & Gq & _). unfold pr_pre. rewrite Ej.
  rewrite filter_app, Gq, waiting_app, flat_map_app. f_equal.
  unfold PriorityFacts.is_class. rewrite !filter_app.
  rewrite s_new_part.
  2:{ intros k Hk X. apply NoDup_app_inv in NA. destruct NA as (_ & _ & D). exact (D k (Iv k X) Hk). }
  rewrite !served_part; [rewrite !app_nil_r; reflexivity|exact Hl|exact Pr].
Qed.

(* ------------------------------------------------------------------------------------------ *)
(* 5. priority, one operator per container: the loop                                            *)
(* ------------------------------------------------------------------------------------------ *)

Lemma s_pr_tick sv t s newp s' lg :
  sginv C sv s -> sim_tick C APriority t s newp = Ok (s', lg) ->
  (forall k, In k (arrived s') -> root_ops C k <> []) ->
  sginv C (sv ++ log_pipes C lg) s' /\
  exists (served : prio -> list nat) (started : prio -> list job),
    (forall c, waiting C sv c (arrived s') = served c ++ waiting C (sv ++ log_pipes C lg) c (arrived s')) /\
    (forall c, (served c = [] /\ started c = []) \/
               exists W1 k r1 r2, served c = W1 ++ [k] /\ root_jobs C k = r1 ++ r2 /\ r1 <> [] /\
                                  started c = flat_map (root_jobs C) W1 ++ r1) /\
    Forall2 (fun j a0 => a_ops a0 = j_ops j /\ a_prio a0 = j_prio j)
            (started Query ++ started Interactive ++ started Batch) (filter (anew C sv) (tl_asgs lg)).
Proof.
  intros G T Hroots. pose proof G as (_ & _ & _ & _ & Gc & _ & Gn).
  pose proof T as T0. apply PriorityPoolRunFacts.sim_tick_ok_inv in T0.
  destruct T0 as (arr & ss' & w' & susps & asgs & e2 & res & Ra & Sch & _ & _ & E2 & _ & E4 & _).
  assert (Ar : arrived s' = arrived s ++ newp).
  { unfold arrived. rewrite E4. apply record_arrivals_fst in Ra. exact Ra. }
  assert (NA : NoDup (arrived s ++ newp)).
  { rewrite <- Ar. unfold arrived. rewrite E4. eapply record_arrivals_nodup; [exact Ra|apply G]. }
  pose proof Sch as Sch0. cbn [sched_step] in Sch0. pose proof Sch0 as Sch1. apply pr_step_inv in Sch0.
  destruct Sch0 as (m & lq & n1 & n2 & n3 & st1 & st2 & st3 & w1 & w2 & a1 & a2 & a3 & o1 & o2 & H).
  destruct H as (NS & Lq & _ & _ & _ & R1 & R2 & R3 & Ea & Eq & Ei & Eb & _). subst asgs.
  apply pr_rel_gscan in R1. apply pr_rel_gscan in R2. apply pr_rel_gscan in R3.
  (* the noted map *)
  assert (Hm : forall kv, In kv m -> ops_served C sv (j_ops (snd kv))).
  { intros kv Hkv. destruct (note_suspending_pools_spec _ _ _ _ _ NS kv Hkv) as [X|(p & c & Hp & Hc & _ & Nj)].
    - apply Gn. exact X.
    - apply noted_job_fields in Nj. destruct Nj as (-> & _). eapply ops_served_sub; [apply not_completed_incl|].
      apply (Gc p c Hp). unfold pool_conts. rewrite !in_app_iff. auto. }
  assert (Hl : forall j, In j lq -> ops_served C sv (j_ops j)).
  { intros j Hj. destruct (Lq j Hj) as (p & c & Hp & Hc & _ & [X|(j0 & J0 & ->)]).
    - apply (Hm (c_id c, j) X).
    - apply job_of_container_fields in J0. destruct J0 as (E0 & _). cbn [job_with_pipe j_ops]. rewrite E0.
      eapply ops_served_sub; [apply not_completed_incl|].
      apply (Gc p c Hp). unfold pool_conts. rewrite !in_app_iff. auto. }
  set (pre := pr_pre C (sm_sched s) (sm_exec s) (sm_results s) newp lq) in *.
  assert (Hpre : forall c, filter (jnew C sv) (pre c)
                           = flat_map (root_jobs C) (waiting C sv c (arrived s ++ newp))).
  { intros c. apply s_pr_pre_shape; [exact G|exact NA|exact Hl]. }
  assert (Hleft : forall c, queue_of ss' c = skipn (pclass n1 n2 n3 c) (pre c)).
  { intros c. destruct c; cbn [queue_of pclass]; assumption. }
  assert (Hnoted : forall kv, In kv (ss_suspending ss') -> ops_served C sv (j_ops (snd kv))).
  { intros kv Hkv. apply (Hm kv (pr_step_suspending _ _ _ _ _ _ _ _ _ _ Sch1 NS kv Hkv)). }
  change (e_world (sm_exec s)) with (wof s) in R1.
  pose proof (s_tick_ginv C SK sv t s s' newp lg _ G T Hroots pre (pclass n1 n2 n3) w1 w2 w' a1 a2 a3 ss' susps
                Sch Hpre R1 R2 R3 Hleft Hnoted) as G'.
  pose proof (s_tick_first C SK sv t s s' newp lg _ G T Hroots pre (pclass n1 n2 n3) w1 w2 w' a1 a2 a3 ss' susps
                Sch Hpre R1 R2 R3) as F.
  split; [exact G'|].
  exists (s_srv C sv (arrived s ++ newp) pre (pclass n1 n2 n3)),
         (fun c => staken C sv (pre c) (pclass n1 n2 n3 c)).
  exact F.
Qed.

Lemma s_pr_hist np cpu ram t s logs :
  sim_hist C APriority 0%Z (init_sim C np cpu ram) t s logs ->
  (forall k, In k (arrived s) -> root_ops C k <> []) ->
  sginv C (served_pipes C logs) s.
Proof.
  remember (init_sim C np cpu ram) as s0 eqn:E0. remember 0%Z as t0 eqn:Et.
  induction 1 as [t s|t0 s0 t s logs newp s' lg R IH T]; intros HS.
  - subst s. apply sginv_init.
  - specialize (IH E0 Et).
    assert (Ar : arrived s' = arrived s ++ newp).
    { apply PriorityPoolRunFacts.sim_tick_ok_inv in T.
      destruct T as (arr & ss' & w' & susps & asgs & e2 & res & Ra & _ & _ & _ & _ & _ & E4 & _).
      unfold arrived. rewrite E4. apply record_arrivals_fst in Ra. exact Ra. }
    assert (HS0 : forall k, In k (arrived s) -> root_ops C k <> []).
    { intros k Hk. apply HS. rewrite Ar. apply in_or_app. left. exact Hk. }
    rewrite served_pipes_app. unfold served_pipes at 2. cbn [flat_map]. rewrite app_nil_r.
    apply (s_pr_tick _ _ _ _ _ _ (IH HS0) T HS).
Qed.

End SJobs.

(* ------------------------------------------------------------------------------------------ *)
(* 6. positions inside a concatenation of blocks                                                *)
(* ------------------------------------------------------------------------------------------ *)

(* [S] is a prefix of the concatenation of the blocks of [W]; [g] sends an element to its block. An element of
   the block of [k2] stands in [S] after the whole block of every [k1] that precedes [k2] in [W] *)
Lemma blocks_before {A B} (f : A -> list B) (g : B -> A) W S rest S1 y2 S2 k1 k2 :
  NoDup W -> (forall x y, In y (f x) -> g y = x) ->
  flat_map f W = S ++ rest -> S = S1 ++ y2 :: S2 -> before W k1 k2 -> g y2 = k2 ->
  forall y1, In y1 (f k1) -> In y1 S1.
Proof.
  intros N Hg EF ES (U & V & EW & I2) G2 y1 H1. subst S W.
  rewrite flat_map_app in EF. cbn [flat_map] in EF. rewrite <- app_assoc in EF. cbn [app] in EF.
  rewrite (app_assoc (flat_map f U)) in EF.
  apply app_eq_app in EF. destruct EF as (l & [[E1 E2]|[E1 E2]]).
  - destruct l as [|b l'].
    + rewrite app_nil_r in E1. rewrite <- E1. apply in_or_app. right. exact H1.
    + cbn [app] in E2. injection E2 as <- _. exfalso.
      assert (X : In y2 (flat_map f U ++ f k1)) by (rewrite E1; apply in_or_app; right; left; reflexivity).
      apply NoDup_app_inv in N. destruct N as (_ & N2 & D).
      apply in_app_or in X. destruct X as [X|X].
      * apply in_flat_map in X. destruct X as (x & Hx & Hy). rewrite (Hg x y2 Hy) in G2. subst x.
        apply (D k2 Hx). right. exact I2.
      * rewrite (Hg k1 y2 X) in G2. subst k2. inversion N2; subst. contradiction.
  - rewrite E1. apply in_or_app. left. apply in_or_app. right. exact H1.
Qed.

Lemma locate_mid {B} (P : B -> Prop) (X Y Z SA : list B) y SB :
  X ++ Y ++ Z = SA ++ y :: SB -> P y ->
  (forall x, In x X -> ~ P x) -> (forall z, In z Z -> ~ P z) ->
  exists Y1 Y2, Y = Y1 ++ y :: Y2 /\ SA = X ++ Y1.
Proof.
  intros E Py NX NZ. apply app_eq_app in E. destruct E as (l & [[E1 E2]|[E1 E2]]).
  - destruct l as [|b l'].
    + rewrite app_nil_r in E1. cbn [app] in E2. destruct Y as [|y' Y'].
      * cbn [app] in E2. exfalso. apply (NZ y); [rewrite <- E2; left; reflexivity|exact Py].
      * cbn [app] in E2. injection E2 as <- _. exists [], Y'. split; [reflexivity|].
        rewrite app_nil_r. symmetry. exact E1.
    + cbn [app] in E2. injection E2 as <- _. exfalso.
      apply (NX y); [rewrite E1; apply in_or_app; right; left; reflexivity|exact Py].
  - apply app_eq_app in E2. destruct E2 as (l2 & [[F1 F2]|[F1 F2]]).
    + destruct l2 as [|b l2'].
      * cbn [app] in F2. exfalso. apply (NZ y); [rewrite <- F2; left; reflexivity|exact Py].
      * cbn [app] in F2. injection F2 as <- _. exists l, l2'. split; [exact F1|exact E1].
    + exfalso. apply (NZ y); [rewrite F2; apply in_or_app; right; left; reflexivity|exact Py].
Qed.

(* ------------------------------------------------------------------------------------------ *)
(* 7. the theorems                                                                              *)
(* ------------------------------------------------------------------------------------------ *)

Lemma iterate_nil : iterate [] = [].
Proof. reflexivity. Qed.

(* a pipeline of [mk_static] with an operator has a root operator *)
Lemma mk_static_roots C l k :
  cf_static C = mk_static l -> dags_wf l ->
  pd_order (pipe_of (cf_static C) k) <> [] -> root_ops C k <> [].
Proof.
  intros E W Ne. apply has_start_roots.
  assert (Hk : k < length (s_pipes (mk_static l))).
  { destruct (Nat.lt_ge_cases k (length (s_pipes (mk_static l)))) as [L|L]; [exact L|].
    exfalso. apply Ne. rewrite E. unfold pipe_of. rewrite nth_overflow by exact L. reflexivity. }
  apply (has_start_mk_static C true l k E W Hk). intros Z.
  destruct (NaiveFacts.mk_static_pipe l k W Hk) as [Eo _]. apply Ne. rewrite E, Eo, Z. reflexivity.
Qed.

Lemma root_job_pipe C x y : In y (root_jobs C x) -> j_pipe y = x.
Proof. intros H. destruct (root_job_fields C x y H) as (o & _ & ->). reflexivity. Qed.

Lemma map_pipe_root_jobs C W :
  map j_pipe (flat_map (root_jobs C) W) = flat_map (fun k => map (fun _ => k) (root_ops C k)) W.
Proof.
  induction W as [|k t IH]; [reflexivity|]. cbn [flat_map]. rewrite map_app, IH. f_equal.
  unfold root_jobs. rewrite map_map. reflexivity.
Qed.

(* run level, states (priority, one operator per container). [logs]: the ticks that led to [s]. In every class
   queue the jobs that hold an operator of a pipeline which has never received a container are exactly the root
   jobs (one per operator without parents, no retry statistics) of the arrived, never-served pipelines of that
   class: grouped by pipeline, the pipelines in arrival order, each with all its root operators in the order of
   operator_states *)
Theorem priority_single_run_fifo C l np cpu ram t s logs :
  cf_static C = mk_static l -> dags_wf l -> cf_multi C = false ->
  sim_hist C APriority 0%Z (init_sim C np cpu ram) t s logs ->
  (forall k, In k (arrived s) -> pd_order (pipe_of (cf_static C) k) <> []) ->
  (forall c, filter (jnew C (served_pipes C logs)) (queue_of (sm_sched s) c)
             = flat_map (root_jobs C) (waiting C (served_pipes C logs) c (arrived s))) /\
  (forall c, map j_pipe (filter (jnew C (served_pipes C logs)) (queue_of (sm_sched s) c))
             = flat_map (fun k => map (fun _ => k) (root_ops C k))
                        (waiting C (served_pipes C logs) c (arrived s))) /\
  (forall c k1 k2 q1 j2 q2,
     before (waiting C (served_pipes C logs) c (arrived s)) k1 k2 ->
     filter (jnew C (served_pipes C logs)) (queue_of (sm_sched s) c) = q1 ++ j2 :: q2 -> j_pipe j2 = k2 ->
     forall o1, In o1 (root_ops C k1) -> In (root_job C k1 o1) q1) /\
  (forall k, In k (arrived s) -> root_ops C k <> []) /\
  (forall k, ~ In k (served_pipes C logs) -> fresh C (wof s) k) /\
  incl (served_pipes C logs) (arrived s) /\ NoDup (arrived s).
Proof.
  intros E W M H HS. pose proof (mk_static_SK C l E W) as SK.
  assert (TP : order_topo (cf_static C)) by (rewrite E; apply mk_static_order_topo, W).
  assert (HR : forall k, In k (arrived s) -> root_ops C k <> []).
  { intros k Hk. apply (mk_static_roots C l k E W). apply HS. exact Hk. }
  destruct (s_pr_hist C SK TP M np cpu ram t s logs H HR) as (Na & Iv & Fr & Gq & _).
  split; [exact Gq|]. split; [intros c; rewrite Gq; apply map_pipe_root_jobs|].
  split; [|auto].
  intros c k1 k2 q1 j2 q2 B Eq P2 o1 Ho1. rewrite Gq in Eq.
  apply (blocks_before (root_jobs C) j_pipe (waiting C (served_pipes C logs) c (arrived s))
           (q1 ++ j2 :: q2) [] q1 j2 q2 k1 k2).
  - apply waiting_NoDup. exact Na.
  - apply root_job_pipe.
  - rewrite app_nil_r. exact Eq.
  - reflexivity.
  - exact B.
  - exact P2.
  - unfold root_jobs. apply in_map. exact Ho1.
Qed.

(* run level, ticks (priority, one operator per container) *)
Theorem priority_single_run_fifo_tick C l np cpu ram t s logs newp s' lg :
  cf_static C = mk_static l -> dags_wf l -> cf_multi C = false ->
  sim_hist C APriority 0%Z (init_sim C np cpu ram) t s logs ->
  sim_tick C APriority t s newp = Ok (s', lg) ->
  (forall k, In k (arrived s') -> pd_order (pipe_of (cf_static C) k) <> []) ->
  exists (served : prio -> list nat) (started : prio -> list job),
    (forall c, waiting C (served_pipes C logs) c (arrived s')
               = served c ++ waiting C (served_pipes C (logs ++ [lg])) c (arrived s')) /\
    (forall c, (served c = [] /\ started c = []) \/
               exists W1 k r1 r2, served c = W1 ++ [k] /\ root_jobs C k = r1 ++ r2 /\ r1 <> [] /\
                                  started c = flat_map (root_jobs C) W1 ++ r1) /\
    Forall2 (fun j a => a_ops a = j_ops j /\ a_prio a = j_prio j)
            (started Query ++ started Interactive ++ started Batch)
            (filter (anew C (served_pipes C logs)) (tl_asgs lg)) /\
    (forall c k, In k (served c) ->
       In k (arrived s') /\ prio_of_pipe C k = c /\ ~ In k (served_pipes C logs) /\ In k (log_pipes C lg)) /\
    (forall l1 k1 l2 k2, arrived s' = l1 ++ k1 :: l2 -> In k2 l2 ->
       prio_of_pipe C k1 = prio_of_pipe C k2 -> ~ In k1 (served_pipes C logs) ->
       In k2 (served (prio_of_pipe C k2)) ->
       exists s1 s2, served (prio_of_pipe C k2) = s1 ++ k1 :: s2 /\ In k2 s2) /\
    (forall l1 k1 l2 k2 pre a2 post o2,
       arrived s' = l1 ++ k1 :: l2 -> In k2 l2 ->
       prio_of_pipe C k1 = prio_of_pipe C k2 ->
       ~ In k1 (served_pipes C logs) -> ~ In k2 (served_pipes C logs) ->
       tl_asgs lg = pre ++ a2 :: post -> In o2 (a_ops a2) -> op_pipe (cf_static C) o2 = k2 ->
       forall o1, In o1 (root_ops C k1) -> exists a1, In a1 pre /\ a_ops a1 = [o1]).
Proof.
  intros E W M H T HS. pose proof (mk_static_SK C l E W) as SK.
  assert (TP : order_topo (cf_static C)) by (rewrite E; apply mk_static_order_topo, W).
  assert (Ar : arrived s' = arrived s ++ newp).
  { pose proof T as T0. apply PriorityPoolRunFacts.sim_tick_ok_inv in T0.
    destruct T0 as (arr & ss' & w' & susps & asgs & e2 & res & Ra & _ & _ & _ & _ & _ & E4 & _).
    unfold arrived. rewrite E4. apply record_arrivals_fst in Ra. exact Ra. }
  assert (HR : forall k, In k (arrived s') -> root_ops C k <> []).
  { intros k Hk. apply (mk_static_roots C l k E W). apply HS. exact Hk. }
  assert (HR0 : forall k, In k (arrived s) -> root_ops C k <> []).
  { intros k Hk. apply HR. rewrite Ar. apply in_or_app. left. exact Hk. }
  pose proof (s_pr_hist C SK TP M np cpu ram t s logs H HR0) as G.
  destruct (s_pr_tick C SK TP M _ t s newp s' lg G T HR) as (G' & served & started & P1 & P2 & P3).
  set (sv := served_pipes C logs) in *.
  assert (Esv : served_pipes C (logs ++ [lg]) = sv ++ log_pipes C lg).
  { rewrite served_pipes_app. unfold served_pipes at 2. cbn [flat_map]. rewrite app_nil_r. reflexivity. }
  rewrite Esv.
  assert (N' : NoDup (arrived s')) by (apply G').
  assert (NF : forall c, NoDup (waiting C sv c (arrived s'))) by (intros c; apply waiting_NoDup; exact N').
  (* the pipelines reached *)
  assert (Q4 : forall c k, In k (served c) ->
             In k (arrived s') /\ prio_of_pipe C k = c /\ ~ In k sv /\ In k (log_pipes C lg)).
  { intros c k Hk.
    assert (Hf : In k (waiting C sv c (arrived s'))) by (rewrite P1; apply in_or_app; left; exact Hk).
    apply waiting_In in Hf. destruct Hf as (Ia & Ns & Ec). split; [exact Ia|]. split; [exact Ec|]. split; [exact Ns|].
    destruct (in_dec Nat.eq_dec k (sv ++ log_pipes C lg)) as [X|X].
    + apply in_app_or in X. destruct X as [X|X]; [contradiction|exact X].
    + exfalso. specialize (NF c). rewrite P1 in NF. apply NoDup_app_inv in NF. destruct NF as (_ & _ & D).
      apply (D k Hk). apply waiting_In. auto. }
  assert (Q5 : forall l1 k1 l2 k2, arrived s' = l1 ++ k1 :: l2 -> In k2 l2 ->
             prio_of_pipe C k1 = prio_of_pipe C k2 -> ~ In k1 sv -> In k2 (served (prio_of_pipe C k2)) ->
             exists s1 s2, served (prio_of_pipe C k2) = s1 ++ k1 :: s2 /\ In k2 s2).
  { intros l1 k1 l2 k2 Ea I2 Ec N1 S2. set (c := prio_of_pipe C k2) in *.
    assert (B : before (arrived s') k1 k2) by (exists l1, l2; auto).
    assert (Hf2 : In k2 (waiting C sv c (arrived s'))) by (rewrite P1; apply in_or_app; left; exact S2).
    unfold waiting in Hf2. apply filter_In in Hf2. destruct Hf2 as [_ Hb2].
    assert (Hb1 : unsv sv k1 && prio_eqb (cls C k1) c = true).
    { apply andb_true_iff. split; [apply unsv_true; exact N1|apply PriorityPoolFacts.prio_eqb_eq; exact Ec]. }
    pose proof (before_filter (fun k => unsv sv k && prio_eqb (cls C k) c) _ _ _ B Hb1 Hb2) as BF.
    fold (waiting C sv c (arrived s')) in BF.
    destruct (prefix_before _ _ _ k1 k2 (NF c) (P1 c) BF S2) as (s1 & s2 & Es & Is). exists s1, s2. auto. }
  (* every job started belongs to a pipeline reached; what is started is a prefix of the blocks *)
  assert (Q2a : forall c j, In j (started c) -> exists k, In k (served c) /\ In j (root_jobs C k)).
  { intros c j Hj. destruct (P2 c) as [(_ & E0)|(W1 & k & r1 & r2 & G1 & G2 & _ & G4)].
    - rewrite E0 in Hj. destruct Hj.
    - rewrite G4 in Hj. apply in_app_or in Hj. destruct Hj as [Hj|Hj].
      + apply in_flat_map in Hj. destruct Hj as (k0 & Hk0 & Hj). exists k0. split; [|exact Hj].
        rewrite G1. apply in_or_app. left. exact Hk0.
      + exists k. split; [rewrite G1; apply in_or_app; right; left; reflexivity|].
        rewrite G2. apply in_or_app. left. exact Hj. }
  assert (Q2b : forall c, exists rest,
             flat_map (root_jobs C) (waiting C sv c (arrived s')) = started c ++ rest).
  { intros c. rewrite (P1 c), flat_map_app.
    destruct (P2 c) as [(E0 & E1)|(W1 & k & r1 & r2 & G1 & G2 & _ & G4)].
    - rewrite E0, E1. eexists. reflexivity.
    - rewrite G1, G4, flat_map_app. cbn [flat_map]. rewrite G2, app_nil_r.
      eexists. rewrite <- !app_assoc. reflexivity. }
  assert (Q2c : forall c c' j, In j (started c') -> c' <> c -> ~ (cls C (j_pipe j) = c)).
  { intros c c' j Hj Nc Ec. destruct (Q2a c' j Hj) as (k & Hk & Hr).
    rewrite (root_job_pipe C k j Hr) in Ec. destruct (Q4 c' k Hk) as (_ & Ec' & _).
    unfold cls in Ec. congruence. }
  exists served, started. split; [exact P1|]. split; [exact P2|]. split; [exact P3|].
  split; [exact Q4|]. split; [exact Q5|].
  intros l1 k1 l2 k2 pre a2 post o2 Ea I2 Ec N1 N2 El Ho2 Ep2 o1 Ho1.
  set (c := prio_of_pipe C k2) in *.
  (* the assignment is one of the first containers of the tick *)
  assert (An : anew C sv a2 = true).
  { apply ops_new_true. exists o2. split; [exact Ho2|]. rewrite Ep2. exact N2. }
  rewrite El, filter_app in P3. cbn [filter] in P3. rewrite An in P3.
  apply Forall2_app_inv_r in P3. destruct P3 as (SA & SB & FA & FB & ES).
  inversion FB as [|j2 a2' SB' t2 (Eo2 & _) FB' E1 E2]; subst a2' t2 SB. clear FB.
  (* its job is a root job of k2, started in the scan of class c *)
  assert (J2 : exists c', In j2 (started c')).
  { assert (X : In j2 (started Query ++ started Interactive ++ started Batch))
      by (rewrite ES; apply in_or_app; right; left; reflexivity).
    apply in_app_or in X. destruct X as [X|X]; [exists Query; exact X|].
    apply in_app_or in X. destruct X as [X|X]; [exists Interactive; exact X|exists Batch; exact X]. }
  destruct J2 as (c' & J2). destruct (Q2a c' j2 J2) as (k & Hk & Hr).
  assert (Ek : k = k2).
  { destruct (root_job_fields C k j2 Hr) as (o & Ho & Ej). rewrite Ej in Eo2. cbn [root_job j_ops] in Eo2.
    rewrite Eo2 in Ho2. destruct Ho2 as [<-|[]]. rewrite <- Ep2. symmetry.
    apply (root_op_pipe C SK k o Ho). }
  subst k. assert (Ec' : c' = c) by (symmetry; apply (Q4 c' k2 Hk)). subst c'.
  assert (P2j : cls C (j_pipe j2) = c) by (rewrite (root_job_pipe C k2 j2 Hr); reflexivity).
  (* the position of the job inside the block of class c *)
  assert (Loc : exists Y1 Y2, started c = Y1 ++ j2 :: Y2 /\ forall j, In j Y1 -> In j SA).
  { assert (NQ : forall cc j, cc <> c -> In j (started cc) -> ~ cls C (j_pipe j) = c)
      by (intros cc j Ncc Hj; exact (Q2c c cc j Hj Ncc)).
    destruct c eqn:Dc.
    - destruct (locate_mid (fun j => cls C (j_pipe j) = Query) [] (started Query)
                  (started Interactive ++ started Batch) SA j2 SB' ES P2j) as (Y1 & Y2 & F1 & F2).
      + intros x [].
      + intros z Hz. apply in_app_or in Hz. destruct Hz as [Hz|Hz]; [apply (NQ Interactive)|apply (NQ Batch)];
          (discriminate || exact Hz).
      + exists Y1, Y2. split; [exact F1|]. intros j Hj. rewrite F2. exact Hj.
    - rewrite (app_assoc (started Query)) in ES.
      rewrite <- (app_assoc (started Query) (started Interactive)) in ES.
      destruct (locate_mid (fun j => cls C (j_pipe j) = Interactive) (started Query) (started Interactive)
                  (started Batch) SA j2 SB' ES P2j) as (Y1 & Y2 & F1 & F2).
      + intros x Hx. apply (NQ Query); (discriminate || exact Hx).
      + intros z Hz. apply (NQ Batch); (discriminate || exact Hz).
      + exists Y1, Y2. split; [exact F1|]. intros j Hj. rewrite F2. apply in_or_app. right. exact Hj.
    - rewrite app_assoc in ES. rewrite <- (app_nil_r (started Batch)) in ES.
      destruct (locate_mid (fun j => cls C (j_pipe j) = Batch) (started Query ++ started Interactive)
                  (started Batch) [] SA j2 SB' ES P2j) as (Y1 & Y2 & F1 & F2).
      + intros x Hx. apply in_app_or in Hx. destruct Hx as [Hx|Hx]; [apply (NQ Query)|apply (NQ Interactive)];
          (discriminate || exact Hx).
      + intros z [].
      + exists Y1, Y2. split; [exact F1|]. intros j Hj. rewrite F2. apply in_or_app. right. exact Hj. }
  destruct Loc as (Y1 & Y2 & EY & HY).
  (* k1 precedes k2 among the waiting pipelines of the class *)
  assert (B : before (arrived s') k1 k2) by (exists l1, l2; auto).
  assert (Hb1 : unsv sv k1 && prio_eqb (cls C k1) c = true).
  { apply andb_true_iff. split; [apply unsv_true; exact N1|apply PriorityPoolFacts.prio_eqb_eq; exact Ec]. }
  assert (Hb2 : unsv sv k2 && prio_eqb (cls C k2) c = true).
  { apply andb_true_iff. split; [apply unsv_true; exact N2|apply PriorityPoolFacts.prio_eqb_eq; reflexivity]. }
  pose proof (before_filter (fun k => unsv sv k && prio_eqb (cls C k) c) _ _ _ B Hb1 Hb2) as BF.
  fold (waiting C sv c (arrived s')) in BF.
  destruct (Q2b c) as (rest & ER).
  assert (I1 : In (root_job C k1 o1) Y1).
  { apply (blocks_before (root_jobs C) j_pipe _ (started c) rest Y1 j2 Y2 k1 k2 (NF c) (root_job_pipe C)
             ER EY BF (root_job_pipe C k2 j2 Hr)).
    unfold root_jobs. apply in_map. exact Ho1. }
  destruct (Forall2_In_l' _ _ _ _ FA (HY _ I1)) as (a1 & Ha1 & Eo1 & _).
  apply filter_In in Ha1. exists a1. split; [apply Ha1|exact Eo1].
Qed.

(* every tick of every run of the priority policy (one operator per container), read off the logs: with the
   arrival order up to and including the tick, and "served" meaning "holds a container in an earlier log" *)
Theorem priority_single_logs_fifo C l np cpu ram arrivals sf logs oe :
  cf_static C = mk_static l -> dags_wf l -> cf_multi C = false ->
  sim_run C APriority 0%Z (init_sim C np cpu ram) arrivals = (sf, logs, oe) ->
  (forall k, In k (concat arrivals) -> pd_order (pipe_of (cf_static C) k) <> []) ->
  forall pre lg post, logs = pre ++ lg :: post ->
  exists (served : prio -> list nat) (started : prio -> list job),
    (forall c, waiting C (served_pipes C pre) c (flat_map tl_new (pre ++ [lg]))
               = served c ++ waiting C (served_pipes C (pre ++ [lg])) c (flat_map tl_new (pre ++ [lg]))) /\
    (forall c, (served c = [] /\ started c = []) \/
               exists W1 k r1 r2, served c = W1 ++ [k] /\ root_jobs C k = r1 ++ r2 /\ r1 <> [] /\
                                  started c = flat_map (root_jobs C) W1 ++ r1) /\
    Forall2 (fun j a => a_ops a = j_ops j /\ a_prio a = j_prio j)
            (started Query ++ started Interactive ++ started Batch)
            (filter (anew C (served_pipes C pre)) (tl_asgs lg)).
Proof.
  intros E W M H HS pre lg post El.
  pose proof (sim_run_hist _ _ _ _ _ _ _ _ H) as Hh.
  destruct (sim_hist_split _ _ _ _ _ _ _ Hh pre lg post El) as (t1 & s1 & newp & s2 & H1 & T).
  assert (H2 : sim_hist C APriority 0%Z (init_sim C np cpu ram) (t1 + 1)%Z s2 (pre ++ [lg]))
    by (econstructor; eauto).
  pose proof (sim_hist_arrived _ _ _ _ _ _ _ _ H2) as A2.
  assert (HS2 : forall k, In k (arrived s2) -> pd_order (pipe_of (cf_static C) k) <> []).
  { intros k Hk. apply HS. apply (sim_run_new_incl _ _ _ _ _ _ _ _ H). rewrite A2 in Hk. rewrite El.
    rewrite in_flat_map in Hk. destruct Hk as (x & Hx & Hk). apply in_flat_map. exists x. split; [|exact Hk].
    apply in_app_or in Hx. apply in_or_app. destruct Hx as [Hx|[<-|[]]]; [left; exact Hx|right; left; reflexivity]. }
  destruct (priority_single_run_fifo_tick C l np cpu ram t1 s1 pre newp s2 lg E W M H1 T HS2)
    as (served & started & P1 & P2 & P3 & _).
  exists served, started. rewrite <- A2. split; [exact P1|]. split; [exact P2|exact P3].
Qed.

(* ------------------------------------------------------------------------------------------ *)
(* Examples                                                                                    *)
(* ------------------------------------------------------------------------------------------ *)
Module SingleFifoExamples.

(* three batch pipelines without edges: pipeline 0 has the operators 0, 1, 2 (three ticks each), pipeline 1 the
   operators 3, 4, pipeline 2 the operators 5, 6 (one tick each). One pool of 3 CPU / 3 GB: a new job gets
   1 CPU / 1 GB, so the pool holds three containers. Pipeline 0 arrives in tick 0 and fills the pool; pipelines
   2 and 1 arrive, in this order, in tick 1 and wait: the batch queue holds the blocks [5], [6] | [3], [4].
   The pool is free again for the round of tick 3, which starts [5], [6] and [3]: all root operators of
   pipeline 2, then a part of those of pipeline 1 *)
Definition Ls : list (prio * dag) := [(Batch, [[]; []; []]); (Batch, [[]; []]); (Batch, [[]; []])].
Definition Cs : cfg :=
  {| cf_static := mk_static Ls;
     cf_script := fun op _ => if Nat.ltb op 3 then [(1 # 2)%Q; (1 # 2)%Q; (1 # 2)%Q] else [(1 # 2)%Q];
     cf_tps := 10%Z; cf_overcommit := false; cf_multi := false; cf_rnd := fun q => q |}.

Lemma Ls_wf : dags_wf Ls.
Proof.
  assert (W3 : wf_dag [[]; []; []]).
  { intros j Hj. cbn in Hj. unfold parents.
    destruct j as [|[|[|j]]]; [| | |lia]; (split; [constructor|intros ? []]). }
  assert (W2 : wf_dag [[]; []]).
  { intros j Hj. cbn in Hj. unfold parents.
    destruct j as [|[|j]]; [| |lia]; (split; [constructor|intros ? []]). }
  unfold dags_wf, Ls. apply Forall_cons; [exact W3|apply Forall_cons; [exact W2|apply Forall_cons; [exact W2|apply Forall_nil]]].
Qed.

Definition arrs3 : list (list nat) := [[0]; [2; 1]; []].

Lemma has_ops k : In k [0; 2; 1] -> pd_order (pipe_of (cf_static Cs) k) <> [].
Proof. intros [<-|[<-|[<-|[]]]]; vm_compute; discriminate. Qed.

Definition s_init : sim := init_sim Cs 1 3%Z 3%Q.
Definition s_run := sim_run Cs APriority 0%Z s_init arrs3.
Definition s_s3 : sim := Eval vm_compute in fst (fst s_run).
Definition s_logs3 : list tick_log := Eval vm_compute in snd (fst s_run).
Definition s_tk := sim_tick Cs APriority 3%Z s_s3 [].
Definition s_s4 : sim := Eval vm_compute in match s_tk with Ok (s, _) => s | Err _ => s_s3 end.
Definition s_lg4 : tick_log :=
  Eval vm_compute in match s_tk with Ok (_, lg) => lg | Err _ => FifoExamples.dummy_log end.
Definition dummy_asg : asg := {| a_ops := []; a_cpu := 0%Z; a_ram := 0%Q; a_prio := Batch; a_pool := 0%Z |}.
Definition s_pre : list asg := Eval vm_compute in firstn 2 (tl_asgs s_lg4).
Definition s_a2 : asg := Eval vm_compute in nth 2 (tl_asgs s_lg4) dummy_asg.

Lemma s_run_eq : sim_run Cs APriority 0%Z s_init arrs3 = (s_s3, s_logs3, None).
Proof. vm_compute. reflexivity. Qed.

Lemma s_hist3 : sim_hist Cs APriority 0%Z (init_sim Cs 1 3%Z 3%Q) 3%Z s_s3 s_logs3.
Proof. exact (sim_run_hist _ _ _ _ _ _ _ _ s_run_eq). Qed.

Lemma s_tick_eq : sim_tick Cs APriority 3%Z s_s3 [] = Ok (s_s4, s_lg4).
Proof. vm_compute. reflexivity. Qed.

Lemma s_arrived3 : arrived s_s3 = [0; 2; 1].
Proof. vm_compute. reflexivity. Qed.

Lemma s_arrived4 : arrived s_s4 = [0; 2; 1].
Proof. vm_compute. reflexivity. Qed.

Lemma s_has_ops4 : forall k, In k (arrived s_s4) -> pd_order (pipe_of (cf_static Cs) k) <> [].
Proof. rewrite s_arrived4. exact has_ops. Qed.

Lemma s_asgs4 : tl_asgs s_lg4 = s_pre ++ s_a2 :: [].
Proof. vm_compute. reflexivity. Qed.

(* what the run looks like around tick 3 *)
Lemma s_view :
  map j_ops (ss_b (sm_sched s_s3)) = [[5]; [6]; [3]; [4]] /\
  root_ops Cs 2 = [5; 6] /\ root_ops Cs 1 = [3; 4] /\
  served_pipes Cs s_logs3 = [0; 0; 0] /\
  waiting Cs (served_pipes Cs s_logs3) Batch (arrived s_s4) = [2; 1] /\
  waiting Cs (served_pipes Cs (s_logs3 ++ [s_lg4])) Batch (arrived s_s4) = [] /\
  map a_ops (tl_asgs s_lg4) = [[5]; [6]; [3]] /\
  map a_ops s_pre = [[5]; [6]] /\ a_ops s_a2 = [3] /\
  map j_ops (ss_b (sm_sched s_s4)) = [[4]].
Proof. vm_compute. repeat split; reflexivity. Qed.

(* the hypotheses of the run-level theorems hold on this run ... *)
Lemma s_hypotheses :
  cf_static Cs = mk_static Ls /\ dags_wf Ls /\ cf_multi Cs = false /\
  sim_hist Cs APriority 0%Z (init_sim Cs 1 3%Z 3%Q) 3%Z s_s3 s_logs3 /\
  sim_tick Cs APriority 3%Z s_s3 [] = Ok (s_s4, s_lg4) /\
  (forall k, In k (arrived s_s3) -> pd_order (pipe_of (cf_static Cs) k) <> []) /\
  (forall k, In k (arrived s_s4) -> pd_order (pipe_of (cf_static Cs) k) <> []).
Proof.
  split; [reflexivity|]. split; [exact Ls_wf|]. split; [reflexivity|]. split; [exact s_hist3|].
  split; [exact s_tick_eq|].
  split; [|exact s_has_ops4]. rewrite s_arrived3. exact has_ops.
Qed.

(* ... the state theorem applied to the state before tick 3: the new jobs of the batch queue are the blocks of
   pipelines 2 and 1, in arrival order ... *)
Lemma s_state_applied :
  map j_ops (filter (jnew Cs (served_pipes Cs s_logs3)) (ss_b (sm_sched s_s3))) = [[5]; [6]; [3]; [4]].
Proof.
  assert (HS : forall k, In k (arrived s_s3) -> pd_order (pipe_of (cf_static Cs) k) <> [])
    by (rewrite s_arrived3; exact has_ops).
  destruct (priority_single_run_fifo Cs Ls 1 3%Z 3%Q 3%Z s_s3 s_logs3 eq_refl Ls_wf eq_refl s_hist3 HS)
    as (P1 & _).
  specialize (P1 Batch). cbn [queue_of] in P1. rewrite P1.
  replace (waiting Cs (served_pipes Cs s_logs3) Batch (arrived s_s3)) with [2; 1] by (vm_compute; reflexivity).
  vm_compute. reflexivity.
Qed.

(* ... and the tick theorem applied to tick 3: pipelines 2 and 1 -- in arrival order -- are reached, and the
   container of pipeline 1 (operator 3) comes after the containers of both root operators of pipeline 2 *)
Lemma s_tick_applied :
  exists (served : prio -> list nat) (started : prio -> list job),
    served Batch = [2; 1] /\
    Forall2 (fun j a => a_ops a = j_ops j /\ a_prio a = j_prio j)
            (started Query ++ started Interactive ++ started Batch)
            (filter (anew Cs (served_pipes Cs s_logs3)) (tl_asgs s_lg4)) /\
    (forall o1, In o1 (root_ops Cs 2) -> exists a1, In a1 s_pre /\ a_ops a1 = [o1]).
Proof.
  destruct (priority_single_run_fifo_tick Cs Ls 1 3%Z 3%Q 3%Z s_s3 s_logs3 [] s_s4 s_lg4 eq_refl Ls_wf eq_refl
              s_hist3 s_tick_eq s_has_ops4) as (served & started & P1 & _ & P3 & _ & _ & P6).
  exists served, started. split; [|split; [exact P3|]].
  - specialize (P1 Batch). destruct s_view as (_ & _ & _ & _ & V1 & V2 & _).
    rewrite V1, V2, app_nil_r in P1. symmetry. exact P1.
  - assert (Sv : served_pipes Cs s_logs3 = [0; 0; 0]) by (vm_compute; reflexivity).
    apply (P6 [0] 2 [1] 1 s_pre s_a2 [] 3).
    + exact s_arrived4.
    + left. reflexivity.
    + vm_compute. reflexivity.
    + rewrite Sv. intros [X|[X|[X|[]]]]; discriminate X.
    + rewrite Sv. intros [X|[X|[X|[]]]]; discriminate X.
    + exact s_asgs4.
    + left. reflexivity.
    + vm_compute. reflexivity.
Qed.

(* the whole run of five ticks, for the statement over logs: tick 4 starts the rest of pipeline 1's block *)
Definition arrs5 : list (list nat) := [[0]; [2; 1]; []; []; []].
Definition s_run5 := sim_run Cs APriority 0%Z s_init arrs5.
Definition s_s5 : sim := Eval vm_compute in fst (fst s_run5).
Definition s_lg5 : tick_log := Eval vm_compute in nth 4 (snd (fst s_run5)) FifoExamples.dummy_log.

Lemma s_logs_hypotheses :
  sim_run Cs APriority 0%Z (init_sim Cs 1 3%Z 3%Q) arrs5 = (s_s5, s_logs3 ++ s_lg4 :: [s_lg5], None) /\
  (forall k, In k (concat arrs5) -> pd_order (pipe_of (cf_static Cs) k) <> []) /\
  map (fun lg => (tl_new lg, map a_ops (tl_asgs lg))) (s_logs3 ++ s_lg4 :: [s_lg5])
    = [([0], [[0]; [1]; [2]]); ([2; 1], []); ([], []); ([], [[5]; [6]; [3]]); ([], [[4]])].
Proof.
  split; [vm_compute; reflexivity|]. split; [|vm_compute; reflexivity].
  replace (concat arrs5) with [0; 2; 1] by reflexivity. exact has_ops.
Qed.

End SingleFifoExamples.
