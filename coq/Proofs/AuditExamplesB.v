(* Audit B (C11..C20): non-vacuity witnesses that were missing, and closed examples that document
   totalisation artefacts / weak spots found by the review. Nothing here is used by a property theorem. *)
From Coq Require Import List ZArith QArith Qabs Lia Lqa Sorting.Sorted.
Import ListNotations.
From Eudoxia Require Import Num.Rnd64 Model.Types Model.Dag Model.Lifecycle Model.Container Model.Pool
  Model.Executor Model.Sched Model.Simulator Model.Trace Model.Csv Model.Generator Model.Rest Model.Tools
  Model.Timing
  Proofs.OomFacts Proofs.FloatBoundFacts Proofs.PriorityFacts Proofs.PriorityPoolFacts
  Proofs.PriorityPoolRunFacts Proofs.TraceFacts Proofs.CsvFacts Proofs.GeneratorFacts Proofs.ToolsFacts
  Proofs.RestFacts.
Close Scope Q_scope.
Close Scope Z_scope.

(* ====================================================================================== *)
(* C11                                                                                      *)
(* ====================================================================================== *)

(* The float-faithful killer theorem (C11_float_no_survivor_clearly_above) had no witness in which the
   killer, run with cf_rnd = rnd64, really kills: pool of 5 GB, usage 10, candidates 0 (4 of 8 GB, score 2)
   and 1 (6 of 6 GB, score 6): step 1 kills nobody, step 2 kills container 1 only. *)
Module C11.
Import FloatExamples.

Definition act : list container := [mkc 0 8 4; mkc 1 6 6].

Example hyp_nodup : NoDup (map c_id act).
Proof. cbn. repeat constructor; cbn; intuition discriminate. Qed.

Example float_killer_runs :
  match oom_killer exF 5 w0 10 act with
  | Ok (_, cons', act') =>
      (Qred cons', map (fun c => (c_id c, c_completed c, c_error c)) act', ids_killed act act')
  | Err _ => (0%Q, [], [])
  end = (4%Q, [(0, false, false); (1, true, true)], [1]).
Proof. vm_compute. reflexivity. Qed.

(* the theorem applied: hypotheses hold, conclusion is about a real victim/survivor pair *)
Example float_theorem_applies :
  exists w' cons' act', oom_killer exF 5 w0 10 act = Ok (w', cons', act') /\
    In 1 (ids_killed act act') /\ ~ In 0 (ids_killed act act').
Proof.
  destruct (oom_killer exF 5 w0 10 act) as [[[w' cons'] act']|] eqn:E; [|vm_compute in E; discriminate].
  exists w', cons', act'. split; [reflexivity|].
  assert (K : ids_killed act act' = [1]).
  { generalize float_killer_runs. rewrite E. intros H. inversion H. reflexivity. }
  rewrite K. split; [left; reflexivity|]. intros [H|[]]. discriminate.
Qed.
End C11.

(* ====================================================================================== *)
(* C12                                                                                      *)
(* ====================================================================================== *)

(* [pr_preempt] runs on fuel and returns what it has when the fuel ends; no theorem says the fuel of
   [priority_step] suffices (the C12 suspension theorems are safety statements and hold for any fuel).
   Worst case shape: three pools, pool 0 holds five batch containers of which only the last can be
   suspended, pools 1 and 2 are empty; two query jobs wait. The scan needs 3 * 6 iterations; the fuel of
   priority_step is 4 * (4 + 5) = 36. Same answer with the fuel doubled. *)
Module C12.
Definition mkc (id : nat) (cs : bool) : container :=
  {| c_id := id; c_ops := [id]; c_cpu := 1%Z; c_ram := 1%Q; c_prio := Batch; c_opidx := 0;
     c_rest := None; c_frozen := false; c_mem := 0%Q; c_can_suspend := cs; c_completed := false;
     c_error := false; c_ticks := 0%Z; c_susp_left := 0%Z |}.
Definition iters : list (nat * list container * bool) :=
  [(0, [mkc 0 false; mkc 1 false; mkc 2 false; mkc 3 false; mkc 4 true], false); (1, [], false); (2, [], false)].
Definition fuel : nat := (S 3) * (S 3 + 5).

Example preempt_fuel_suffices_here :
  pr_preempt fuel 2 iters 0 [] = pr_preempt (2 * fuel) 2 iters 0 [] /\
  map su_cid (pr_preempt fuel 2 iters 0 []) = [4] /\
  (* and 17 iterations are not enough: the fuel matters *)
  pr_preempt 12 2 iters 0 [] = [].
Proof. vm_compute. repeat split; reflexivity. Qed.
End C12.

(* ====================================================================================== *)
(* C13                                                                                      *)
(* ====================================================================================== *)
Module C13.
Open Scope Q_scope.

(* hypotheses of C13_float_exact_away are satisfiable: a = 0.071 s at 100 ticks/s, x = 7.1 *)
Example exact_away_hyp :
  forall k : Z, ~ (Qabs (inject_Z k - (71 # 1000) * inject_Z 100) <=
                   (71 # 1000) * inject_Z 100 * (4 # 9007199254740992)).
Proof.
  intros k H.
  assert (A : (71 # 1000) * inject_Z 100 == 71 # 10) by reflexivity.
  rewrite A in H.
  assert (B : (71 # 10) * (4 # 9007199254740992) < 1 # 10) by reflexivity.
  apply Qabs_Qle_condition in H. destruct H as [H1 H2].
  assert (L : 7 < inject_Z k) by lra.
  assert (U : inject_Z k < 8) by lra.
  change 7 with (inject_Z 7) in L. change 8 with (inject_Z 8) in U.
  rewrite <- Zlt_Qlt in L, U. lia.
Qed.

Example exact_away_applies :
  Z.max 0 (ceilQ (rnd64 ((71 # 1000) / rnd64 (1 / inject_Z 100)))) = ceilQ ((71 # 1000) * inject_Z 100).
Proof. vm_compute. reflexivity. Qed.

(* EARLY delivery is reachable for the code (third disjunct of C13_float_replay_spec). The double nearest
   to 5/7 (the CSV cell 0.7142857142857143; gentrace itself writes 0.7142857142857142 for tick 5) is
   6433713753386423 / 2^53 > 5/7; the first tick whose start is at or after it is tick 6, the code (and
   the float-faithful model) delivers in tick 5, i.e. 1.6e-17 s BEFORE the arrival time as written. The
   exact replay of the same rational delivers in tick 6. *)
Definition a57 : Q := 6433713753386423 # 9007199254740992.

Example early_by_one :
  rnd64 (5 # 7) == a57 /\ 5 # 7 < a57 /\ ceilQ (a57 * inject_Z 7) = 6%Z /\
  replay rnd64 7 [a57] 8 = at_tick 5 8 /\
  replay exact 7 [a57] 8 = at_tick 6 8.
Proof. repeat split; vm_compute; reflexivity. Qed.
Close Scope Q_scope.
End C13.

(* ====================================================================================== *)
(* C14                                                                                      *)
(* ====================================================================================== *)
Module C14.
Import CsvFacts.Examples.

(* C14_write_read with pipelines that are paired with OTHER arrival times when written again *)
Definition shifted : list pipeline_m :=
  map (fun p => {| pm_prio := pm_prio p; pm_arr := (pm_arr p + 5)%Q; pm_ops := pm_ops p |})
      [diamond; single; diamond].

Example write_read_hyp : same_except_arrival shifted [diamond; single; diamond].
Proof. repeat constructor. Qed.

Example write_read_applies :
  rows_eq_except_arrival (write_rows shifted) file /\ write_rows shifted <> file.
Proof.
  split.
  - apply (write_read file [diamond; single; diamond]); [exact (proj1 ex_read_write)|exact ex_canonical|].
    exact write_read_hyp.
  - intros H. apply (f_equal (fun l => match l with r :: _ => r_arr r | [] => None end)) in H.
    vm_compute in H. discriminate.
Qed.
End C14.

(* ====================================================================================== *)
(* C15                                                                                      *)
(* ====================================================================================== *)
Module C15.
Definition P : gparams := {| g_np := 2; g_nops := 3 # 1; g_ratio := 1 # 2; g_wmean := 2 |}.
Definition draws : list draw :=
  [ DChoice 3; DNormal (3 # 1) (37 # 10); DNormal (1 # 2) (1 # 5); DNormal (1 # 2) (-3 # 2);
    DChoice 1; DNormal (2 # 1) (29 # 10);
    DChoice 2; DNormal (3 # 1) (-4 # 1); DChoice 1; DNormal (2 # 1) (-1 # 3) ]%Q.

(* hypotheses of C15_gap_at_least_one_tick instantiated: the generator fires in its first tick, draws the
   gap 2.9 -> 2 idle ticks, and fires again *)
Example gap_hyps :
  (0 <= g_wmean P)%Z /\ gs_since (gen_init draws) = gs_wait (gen_init draws) /\
  exists b s1, gen_tick P (gen_init draws) = Some (b, s1) /\ length b = 2 /\ gs_wait s1 = 2%Z /\
               gen_run P 2 s1 = Some ([[]; []], idle s1 2).
Proof.
  split; [discriminate|]. split; [reflexivity|].
  destruct (gen_tick P (gen_init draws)) as [[b s1]|] eqn:E; [|vm_compute in E; discriminate].
  exists b, s1. split; [reflexivity|]. vm_compute in E. inversion E; subst. vm_compute. repeat split; reflexivity.
Qed.

(* the priority clause is NOT tied to the generator model: [DChoice v] carries any integer, so the model
   happily delivers a pipeline of "priority 7"; the C15_choice_* theorems speak about the stand-alone
   function [choice_of] only *)
Example choice_unconstrained :
  option_map (fun r => map (map gp_prio) (fst r))
    (gen_run {| g_np := 1; g_nops := 1; g_ratio := 0; g_wmean := 0 |} 1
             (gen_init [DChoice 7; DNormal 1 1; DNormal 0 0])) = Some [[7%Z]].
Proof. vm_compute. reflexivity. Qed.
End C15.

(* ====================================================================================== *)
(* C16                                                                                      *)
(* ====================================================================================== *)
Module C16.
Import PriorityPoolFacts.Examples.

(* C16_pool_by_class is about the priority TAG of the assignment. Per round (arbitrary results) the tag
   need not be the pipeline's priority: a failed result that carries the tag Query for the operators 1, 2
   of the BATCH pipeline 1 is retried on pool 0. (In a run the executor copies the tag from the
   assignment, so tag = pipeline priority by induction; that run-level statement is not a theorem.) *)
Definition rTag : result :=
  Pool.Build_result 0 [1; 2] 1%Z 1%Q Query 1 true.
Example tag_is_not_pipeline_priority :
  show (priority_pool_step exC init_sstate exEF [rTag] []) =
    Some (0, 0, 0, 0%Z, 0, [(Query, 0%Z, [1; 2], 2%Z, 2%Q)]) /\
  prio_of_pipe exC (op_pipe exSt 1) = Batch.
Proof. vm_compute. split; reflexivity. Qed.

(* Totalisation: the code asserts num_pools == 2 when the scheduler is created; the model has no such
   check and reads pool 1 with [nth 1 .. dummy_stat]. With ONE pool the model runs to the end, batch work
   simply waits for ever (theorems C16_runs_to_end etc. quantify over every np). *)
Import PriorityPoolRunFacts.RunExamples.
Definition Sb : static := mk_static [(Batch, [[]])].
Definition Cb : cfg :=
  {| cf_static := Sb; cf_script := fun _ _ => [1%Q]; cf_tps := 10%Z; cf_overcommit := false;
     cf_multi := true; cf_rnd := fun q => q |}.
Example one_pool_runs_in_the_model :
  let '(sf, logs, oe) := sim_run Cb APriorityPool 0%Z (init_sim Cb 1 10%Z 10%Q) [[0]; []; []] in
  oe = None /\ sm_nasg sf = 0%Z /\ length (ss_b (sm_sched sf)) = 1.
Proof. vm_compute. repeat split; reflexivity. Qed.
End C16.

(* ====================================================================================== *)
(* C19                                                                                      *)
(* ====================================================================================== *)
Module C19.
(* Totalisation: ticks_per_second = 0 raises ZeroDivisionError in rest_scheduler; in the model x / 0 = 0,
   the clock stands still and no poll is ever sent (the C19 theorems quantify over every tps; the case
   runner refuses tps <= 0). *)
Example tps_zero_never_polls :
  outs rnd64 0 1 (repeat (mkin [] 0 []) 5) = repeat None 5.
Proof. vm_compute. reflexivity. Qed.

(* a malformed reply (truncated wire form, or a boolean that is neither 0 nor 1) is not decoded *)
Example malformed_reply_refused :
  decode_reply [0; 1; 1; 3; 2; 1; 3; 2; 1; 0; 0]%Z = None /\
  decode_reply [0; 1; 1; 3; 2; 1; 3; 2; 1; 0; 2; 0]%Z = None /\
  decode_reply [0; 1; 1; 3; 2; 1; 3; 2; 1; 0; 1; 0]%Z <> None.
Proof. vm_compute. repeat split; discriminate. Qed.
End C19.

(* ====================================================================================== *)
(* C20                                                                                      *)
(* ====================================================================================== *)
Module C20.
Open Scope Q_scope.
(* hypotheses of C20_jitter_bound_float instantiated (a = 0.1 as a double, draw 0.05, delta 0.1) *)
Example jitter_float_hyps :
  let a := rnd64 (1 # 10) in let d := rnd64 (1 # 20) in let delta := rnd64 (1 # 10) in
  rnd64 a == a /\ 0 <= d /\ d <= delta /\
  a <= jitter_arrival rnd64 a d /\ jitter_arrival rnd64 a d <= rnd64 (a + delta).
Proof. vm_compute. repeat split; discriminate. Qed.

(* outside the domain of C20_snap_float_total (negative arrival): the loops still end within the fuel and
   the result is the boundary below *)
Example snap_negative :
  snap_val rnd64 10 (rnd64 (-(1 # 20))) = Some (rnd64 (-(1 # 10))).
Proof. vm_compute. reflexivity. Qed.
Close Scope Q_scope.
End C20.
