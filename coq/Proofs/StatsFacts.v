(* C06: completion, latency and the returned statistics against an independent recount of the run.

   The recount ([rc_*]) reads only the event log of a run (one [tick_log] per tick, tick t = position
   in the list): which pipelines arrived, which commands were issued, which results were reported and
   which pipelines were recorded as finished.  It does not look at the counters the loop keeps.

   Main results
     stats_refine            (T1) every integer field and every latency list of [final_stats] of a run
                                  that reached its last tick equals the recount
     class_partition         (T2) arrivals / completions per class add up to the totals; the latency
                                  list of "all" is a permutation of all recorded latencies
     completed_once, finished_is_successful, finish_after_arrival, never_while_unfinished   (T3)
     finish_needs_result, finish_tick_has_result, late_finish_refuted                       (T4)
     uncontended_latency     (T5) a container alone in its pool reports success in exactly the
                                  [total]-th pool tick and nothing before *)
From Coq Require Import ZArith QArith List Bool Arith Lia Lqa Permutation.
Import ListNotations.
From Eudoxia Require Import Num.Rnd64 Model.Types Model.Dag Model.Lifecycle Model.Container Model.Pool
  Model.Executor Model.Sched Model.Simulator
  Proofs.ListFacts Proofs.LifecycleFacts Proofs.ConserveFacts Proofs.ExecLifeFacts
  Proofs.ContainerRunFacts.
Close Scope Q_scope.
Close Scope Z_scope.

(* ------------------------------------------------------------------------------------------ *)
(* 0. the independent recount                                                                   *)
(* ------------------------------------------------------------------------------------------ *)

(* class filter: [None] = every pipeline *)
Definition prio_sel (C : cfg) (po : option prio) (p : nat) : bool :=
  match po with
  | None => true
  | Some q => prio_eqb (pd_prio (pipe_of (cf_static C) p)) q
  end.

Definition rc_arrived (logs : list tick_log) : list nat := concat (map tl_new logs).
Definition rc_arrivals (C : cfg) (logs : list tick_log) (po : option prio) : Z :=
  Z.of_nat (length (filter (prio_sel C po) (rc_arrived logs))).

(* (pipeline, tick) for every pipeline recorded as finished; [t] is the tick of the first log *)
Fixpoint rc_finished_from (t : Z) (logs : list tick_log) : list (nat * Z) :=
  match logs with
  | [] => []
  | lg :: r => map (fun p => (p, t)) (tl_finished lg) ++ rc_finished_from (t + 1)%Z r
  end.
Definition rc_finished (logs : list tick_log) : list (nat * Z) := rc_finished_from 0%Z logs.

(* the tick of the (first) log in which the pipeline occurs among the arrivals *)
Fixpoint rc_arrival_tick_from (t : Z) (logs : list tick_log) (p : nat) : Z :=
  match logs with
  | [] => 0%Z
  | lg :: r => if memb p (tl_new lg) then t else rc_arrival_tick_from (t + 1)%Z r p
  end.
Definition rc_arrival_tick (logs : list tick_log) (p : nat) : Z := rc_arrival_tick_from 0%Z logs p.

(* latencies in completion order: tick of finish - tick of arrival *)
Definition rc_latencies (C : cfg) (logs : list tick_log) (po : option prio) : list Z :=
  map (fun x => (snd x - rc_arrival_tick logs (fst x))%Z)
      (filter (fun x => prio_sel C po (fst x)) (rc_finished logs)).

Definition rc_results (logs : list tick_log) : list result := concat (map tl_results logs).
Definition rc_assignments (logs : list tick_log) : Z := Z.of_nat (length (concat (map tl_asgs logs))).
Definition rc_suspensions (logs : list tick_log) : Z := Z.of_nat (length (concat (map tl_susp logs))).
Definition rc_failures (logs : list tick_log) : Z := Z.of_nat (length (filter r_err (rc_results logs))).
Definition rc_completed_containers (logs : list tick_log) : Z :=
  Z.of_nat (length (filter (fun r => negb (r_err r)) (rc_results logs))).

(* ------------------------------------------------------------------------------------------ *)
(* 1. list helpers                                                                              *)
(* ------------------------------------------------------------------------------------------ *)

Lemma filter_map_comm {A B} (f : B -> bool) (g : A -> B) (l : list A) :
  filter f (map g l) = map g (filter (fun x => f (g x)) l).
Proof.
  induction l as [|x t IH]; [reflexivity|]. cbn [map filter].
  destruct (f (g x)); cbn [map]; rewrite IH; reflexivity.
Qed.

Lemma filter_length_app {A} (f : A -> bool) l1 l2 :
  length (filter f (l1 ++ l2)) = length (filter f l1) + length (filter f l2).
Proof. rewrite filter_app, app_length. reflexivity. Qed.

Lemma add_absent_In x y l : In x (add_absent y l) <-> x = y \/ In x l.
Proof.
  induction l as [|h t IH]; cbn [add_absent].
  - cbn. intuition.
  - destruct (Nat.eqb y h) eqn:E.
    + apply Nat.eqb_eq in E. subst h. cbn. intuition.
    + cbn [In]. rewrite IH. intuition.
Qed.

Lemma add_absent_NoDup y l : NoDup l -> NoDup (add_absent y l).
Proof.
  induction l as [|h t IH]; cbn [add_absent]; intros N.
  - constructor; [intros []|constructor].
  - destruct (Nat.eqb y h) eqn:E; [exact N|].
    inversion N as [|? ? Nh Nt]; subst. constructor; [|apply IH; exact Nt].
    intros Hin. apply add_absent_In in Hin. destruct Hin as [->|Hin]; [|contradiction].
    rewrite Nat.eqb_refl in E. discriminate.
Qed.

Definition add_all (newp l : list nat) : list nat := fold_left (fun l p => add_absent p l) newp l.

Lemma add_all_In newp : forall l x, In x (add_all newp l) <-> In x l \/ In x newp.
Proof.
  unfold add_all. induction newp as [|p t IH]; intros l x; cbn [fold_left].
  - cbn. intuition.
  - rewrite IH, add_absent_In. cbn [In]. intuition.
Qed.

Lemma add_all_NoDup newp : forall l, NoDup l -> NoDup (add_all newp l).
Proof.
  unfold add_all. induction newp as [|p t IH]; intros l N; cbn [fold_left]; [exact N|].
  apply IH, add_absent_NoDup, N.
Qed.

Lemma NoDup_filter {A} (f : A -> bool) l : NoDup l -> NoDup (filter f l).
Proof.
  induction 1 as [|x l Hx N IH]; cbn [filter]; [constructor|].
  destruct (f x); [constructor; [|exact IH]|exact IH].
  intros Hin. apply filter_In in Hin. tauto.
Qed.

(* ------------------------------------------------------------------------------------------ *)
(* 2. one tick, inverted                                                                        *)
(* ------------------------------------------------------------------------------------------ *)

Lemma record_arrivals_spec tick : forall newp arr arr',
  record_arrivals tick newp arr = Ok arr' ->
  arr' = arr ++ map (fun p => (p, tick)) newp /\ NoDup newp /\
  (forall p, In p newp -> ~ In p (map fst arr)).
Proof.
  induction newp as [|p t IH]; intros arr arr' H; cbn [record_arrivals] in H.
  - inversion H; subst. rewrite app_nil_r. split; [reflexivity|]. split; [constructor|intros ? []].
  - destruct (existsb (fun x => Nat.eqb (fst x) p) arr) eqn:E; [discriminate|].
    destruct (IH _ _ H) as [-> [N D]]. split; [|split].
    + rewrite <- app_assoc. reflexivity.
    + constructor; [|exact N]. intros Hin. apply (D p Hin).
      rewrite map_app. apply in_or_app. right. left. reflexivity.
    + intros q [<-|Hq].
      * intros Hin. apply in_map_iff in Hin. destruct Hin as [[a t0] [Ea Hin]]. cbn in Ea. subst a.
        assert (existsb (fun x => Nat.eqb (fst x) p) arr = true).
        { apply existsb_exists. exists (p, t0). split; [exact Hin|apply Nat.eqb_refl]. }
        congruence.
      * intros Hin. apply (D q Hq). rewrite map_app. apply in_or_app. left. exact Hin.
Qed.

(* the sweep of one tick, as a function of what the tick produced *)
Definition sweep (C : cfg) (w : world) (results : list result) (outstanding : list nat) : list nat :=
  match results with
  | [] => []
  | _ => filter (fun p => is_successful (cf_static C) w p) outstanding
  end.

Lemma sim_tick_inv C a tick s newp s' lg :
  sim_tick C a tick s newp = Ok (s', lg) ->
  exists ss' w' e2,
    sched_step C a (sm_sched s) (sm_exec s) (sm_results s) newp
      = Ok (ss', w', tl_susp lg, tl_asgs lg) /\
    exec_tick C {| e_world := w'; e_pools := e_pools (sm_exec s); e_next := e_next (sm_exec s) |}
              (tl_susp lg) (tl_asgs lg) = Ok (e2, tl_results lg) /\
    record_arrivals tick newp (sm_arrival s) = Ok (sm_arrival s') /\
    tl_new lg = newp /\
    tl_finished lg = sweep C (e_world e2) (tl_results lg) (add_all newp (sm_outstanding s)) /\
    sm_exec s' = e2 /\ sm_sched s' = ss' /\ sm_results s' = tl_results lg /\
    sm_outstanding s' = filter (fun p => negb (memb p (tl_finished lg))) (add_all newp (sm_outstanding s)) /\
    sm_lat s' = sm_lat s ++ map (fun p => (pd_prio (pipe_of (cf_static C) p),
                                           (tick - arrival_of p (sm_arrival s'))%Z)) (tl_finished lg) /\
    sm_created s' = (sm_created s + Z.of_nat (length newp))%Z /\
    sm_nasg s' = (sm_nasg s + Z.of_nat (length (tl_asgs lg)))%Z /\
    sm_nsusp s' = (sm_nsusp s + Z.of_nat (length (tl_susp lg)))%Z /\
    sm_nfail s' = (sm_nfail s + Z.of_nat (length (filter r_err (tl_results lg))))%Z.
Proof.
  unfold sim_tick, bind. intros H.
  destruct (record_arrivals tick newp (sm_arrival s)) as [arr|e] eqn:Ea; [|discriminate].
  destruct (sched_step C a (sm_sched s) (sm_exec s) (sm_results s) newp)
    as [[[[ss' w'] susps] asgs]|e] eqn:Es; [|discriminate].
  destruct (exec_tick C _ susps asgs) as [[e2 results]|e] eqn:Ee; [|discriminate].
  inversion H; subst s' lg; clear H. cbn.
  exists ss', w', e2. repeat split; auto.
Qed.

(* ------------------------------------------------------------------------------------------ *)
(* 3. runs that reach their last tick                                                           *)
(* ------------------------------------------------------------------------------------------ *)

Inductive ok_run (C : cfg) (a : algo) : Z -> sim -> list tick_log -> sim -> Prop :=
| okr_nil t s : ok_run C a t s [] s
| okr_cons t s newp s1 lg logs sf :
    sim_tick C a t s newp = Ok (s1, lg) -> ok_run C a (t + 1)%Z s1 logs sf ->
    ok_run C a t s (lg :: logs) sf.

Lemma sim_run_ok C a : forall arrivals t s sf logs,
  sim_run C a t s arrivals = (sf, logs, None) -> ok_run C a t s logs sf /\ length logs = length arrivals.
Proof.
  induction arrivals as [|newp r IH]; intros t s sf logs H; cbn [sim_run] in H.
  - inversion H; subst. split; [constructor|reflexivity].
  - destruct (sim_tick C a t s newp) as [[s1 lg]|e] eqn:E; [|discriminate].
    destruct (sim_run C a (t + 1)%Z s1 r) as [[sf' logs'] e'] eqn:R.
    inversion H; subst. destruct (IH _ _ _ _ R) as [O L]. split.
    + econstructor; eauto.
    + cbn [length]. rewrite L. reflexivity.
Qed.

(* a run that stops early reports the error of the failing tick and the log up to it *)
Lemma sim_run_logs_le C a : forall arrivals t s sf logs e,
  sim_run C a t s arrivals = (sf, logs, e) -> length logs <= length arrivals.
Proof.
  induction arrivals as [|newp r IH]; intros t s sf logs e H; cbn [sim_run] in H.
  - inversion H; subst. cbn. lia.
  - destruct (sim_tick C a t s newp) as [[s1 lg]|e1] eqn:E.
    + destruct (sim_run C a (t + 1)%Z s1 r) as [[sf' logs'] e'] eqn:R.
      inversion H; subst. specialize (IH _ _ _ _ _ R). cbn [length]. lia.
    + inversion H; subst. cbn. lia.
Qed.

(* arrivals as the loop records them: (pipeline, tick) *)
Fixpoint rc_arrival_list (t : Z) (logs : list tick_log) : list (nat * Z) :=
  match logs with
  | [] => []
  | lg :: r => map (fun p => (p, t)) (tl_new lg) ++ rc_arrival_list (t + 1)%Z r
  end.

Lemma rc_arrival_list_fst : forall logs t, map fst (rc_arrival_list t logs) = rc_arrived logs.
Proof.
  induction logs as [|lg r IH]; intros t; [reflexivity|].
  cbn [rc_arrival_list]. unfold rc_arrived. cbn [map concat]. rewrite map_app, map_map. cbn [fst].
  rewrite map_id. f_equal. apply IH.
Qed.

Lemma arrival_of_app_batch p t l rest :
  arrival_of p (map (fun q => (q, t)) l ++ rest) = if memb p l then t else arrival_of p rest.
Proof.
  induction l as [|q l IH]; [reflexivity|].
  cbn [map app arrival_of]. unfold memb. cbn [existsb]. rewrite (Nat.eqb_sym p q).
  destruct (Nat.eqb q p); [reflexivity|]. cbn [orb]. exact IH.
Qed.

Lemma arrival_of_list : forall logs t p,
  arrival_of p (rc_arrival_list t logs) = rc_arrival_tick_from t logs p.
Proof.
  induction logs as [|lg r IH]; intros t p; [reflexivity|].
  cbn [rc_arrival_list rc_arrival_tick_from]. rewrite arrival_of_app_batch, IH. reflexivity.
Qed.

Lemma arrival_of_app_known p l1 l2 : In p (map fst l1) -> arrival_of p (l1 ++ l2) = arrival_of p l1.
Proof.
  induction l1 as [|[a t] l1 IH]; intros H; [destruct H|].
  cbn [app arrival_of]. destruct (Nat.eqb a p) eqn:E; [reflexivity|].
  apply IH. cbn in H. destruct H as [H|H]; [|exact H]. subst a. rewrite Nat.eqb_refl in E. discriminate.
Qed.

Lemma arrival_of_unique p t l : NoDup (map fst l) -> In (p, t) l -> arrival_of p l = t.
Proof.
  induction l as [|[a t0] l IH]; intros N H; [destruct H|].
  cbn [arrival_of]. cbn [map fst] in N. inversion N as [|? ? Na Nl]; subst.
  destruct H as [H|H].
  - inversion H; subst. rewrite Nat.eqb_refl. reflexivity.
  - destruct (Nat.eqb a p) eqn:E; [|apply IH; assumption].
    apply Nat.eqb_eq in E. subst a. exfalso. apply Na. apply in_map_iff. exists (p, t). auto.
Qed.

(* ---- the invariant that links the loop's bookkeeping across ticks ---- *)
Definition book_ok (s : sim) : Prop :=
  NoDup (sm_outstanding s) /\ incl (sm_outstanding s) (map fst (sm_arrival s)) /\
  NoDup (map fst (sm_arrival s)).

Lemma book_ok_init C np cpu ram : book_ok (init_sim C np cpu ram).
Proof. split; [constructor|]. split; [intros ? []|constructor]. Qed.

Lemma sweep_incl C w results out : incl (sweep C w results out) out.
Proof.
  unfold sweep. destruct results; [intros ? []|]. intros x Hx. apply filter_In in Hx. tauto.
Qed.

Lemma sim_tick_book C a t s newp s1 lg :
  sim_tick C a t s newp = Ok (s1, lg) -> book_ok s ->
  book_ok s1 /\
  sm_arrival s1 = sm_arrival s ++ map (fun p => (p, t)) newp /\
  incl (tl_finished lg) (map fst (sm_arrival s1)) /\
  NoDup (tl_finished lg) /\
  (forall p, In p (tl_finished lg) -> ~ In p (sm_outstanding s1)) /\
  (forall p, In p (tl_finished lg) -> In p (sm_outstanding s) \/ In p newp) /\
  (forall p, In p newp -> ~ In p (map fst (sm_arrival s))).
Proof.
  intros H [N [I Na]]. apply sim_tick_inv in H.
  destruct H as (ss' & w' & e2 & _ & _ & Hr & _ & Hf & _ & _ & _ & Ho & _).
  apply record_arrivals_spec in Hr. destruct Hr as [Ha [Nn D]].
  assert (Iout : incl (add_all newp (sm_outstanding s)) (map fst (sm_arrival s1))).
  { intros x Hx. apply add_all_In in Hx. rewrite Ha, map_app, map_map. cbn [fst]. rewrite map_id.
    apply in_or_app. destruct Hx as [Hx|Hx]; [left; apply I, Hx | right; exact Hx]. }
  assert (Nout : NoDup (add_all newp (sm_outstanding s))) by (apply add_all_NoDup, N).
  assert (Ifin : incl (tl_finished lg) (add_all newp (sm_outstanding s))).
  { rewrite Hf. apply sweep_incl. }
  split; [|split; [exact Ha|split; [|split; [|split; [|split]]]]].
  - split; [|split].
    + rewrite Ho. apply NoDup_filter, Nout.
    + rewrite Ho. intros x Hx. apply filter_In in Hx. apply Iout. tauto.
    + rewrite Ha, map_app, map_map. cbn [fst]. rewrite map_id.
      apply ConserveFacts.NoDup_app_intro; [exact Na|exact Nn|].
      intros x Hx Hn. apply (D x Hn Hx).
  - intros x Hx. apply Iout, Ifin, Hx.
  - rewrite Hf. unfold sweep. destruct (tl_results lg); [constructor|]. apply NoDup_filter, Nout.
  - intros p Hp Hin. rewrite Ho in Hin. apply filter_In in Hin. destruct Hin as [_ Hm].
    apply memb_In in Hp. rewrite Hp in Hm. discriminate.
  - intros p Hp. apply Ifin in Hp. apply add_all_In in Hp. exact Hp.
  - exact D.
Qed.

(* ---- counters, arrival list, completed containers ---- *)

Lemma length_concat_cons {A} (x : list A) l : length (concat (x :: l)) = length x + length (concat l).
Proof. cbn [concat]. apply app_length. Qed.

Lemma pool_tick_num_completed C w next p ss asgs w' next' p' res :
  pool_tick C w next p ss asgs = Ok (w', next', p', res) ->
  p_num_completed p' =
  (p_num_completed p + Z.of_nat (length (filter (fun r => negb (r_err r)) res)))%Z.
Proof.
  intros H. unfold pool_tick in H.
  inv_bind H r1 E1. destruct r1 as [[[w1 act1] sing1] cons1]. cbv beta iota in H.
  inv_bind H r2 E2. destruct r2 as [[[next2 acpu2] aram2] act2]. cbv beta iota in H.
  inv_bind H r3 E3. destruct r3 as [w3 sing3]. cbv beta iota in H. cbv zeta in H.
  inv_bind H r4 E4. destruct r4 as [[w4 cons4] act4]. cbv beta iota in H.
  inv_bind H r5 E5. destruct r5 as [[w5 cons5] act5]. cbv beta iota in H.
  injection H as Hw Hn Hp Hr. subst p' res. cbn [p_num_completed upd_pool].
  rewrite filter_map_comm, map_length. reflexivity.
Qed.

Lemma pools_tick_num_completed C ss asgs : forall ps w next w' next' ps' res,
  pools_tick C w next ps ss asgs = Ok (w', next', ps', res) ->
  sumZ (map p_num_completed ps') =
  (sumZ (map p_num_completed ps) + Z.of_nat (length (filter (fun r => negb (r_err r)) res)))%Z.
Proof.
  induction ps as [|p t IH]; intros w next w' next' ps' res H.
  - cbn in H. inversion H; subst. reflexivity.
  - cbn [pools_tick] in H. cbv zeta in H.
    inv_bind H r1 E1. destruct r1 as [[[w1 next1] p1] res1]. cbv beta iota in H.
    inv_bind H r2 E2. destruct r2 as [[[w2 next2] t2] res2]. cbv beta iota in H.
    inversion H; subst. cbn [map sumZ].
    rewrite (pool_tick_num_completed _ _ _ _ _ _ _ _ _ _ E1), (IH _ _ _ _ _ _ E2).
    rewrite filter_length_app. lia.
Qed.

Lemma exec_tick_num_completed C s ss asgs s' res :
  exec_tick C s ss asgs = Ok (s', res) ->
  sumZ (map p_num_completed (e_pools s')) =
  (sumZ (map p_num_completed (e_pools s)) + Z.of_nat (length (filter (fun r => negb (r_err r)) res)))%Z.
Proof.
  unfold exec_tick. intros H. cbv zeta in H.
  match type of H with (if ?b then _ else _) = _ => destruct b end; [discriminate|].
  inv_bind H r E. destruct r as [[[w next] ps] res1]. cbv beta iota in H. inversion H; subst.
  cbn [e_pools]. eapply pools_tick_num_completed; eauto.
Qed.

Definition completed_of (s : sim) : Z := sumZ (map p_num_completed (e_pools (sm_exec s))).

Lemma completed_init C np cpu ram : completed_of (init_sim C np cpu ram) = 0%Z.
Proof.
  unfold completed_of, init_sim, init_estate. cbn [sm_exec e_pools]. rewrite map_map.
  cbn [new_pool p_num_completed]. induction (seq 0 np) as [|x l IH]; [reflexivity|].
  cbn [map sumZ]. rewrite IH. reflexivity.
Qed.

Lemma run_counters C a t s logs sf :
  ok_run C a t s logs sf ->
  sm_created sf = (sm_created s + Z.of_nat (length (rc_arrived logs)))%Z /\
  sm_nasg sf = (sm_nasg s + rc_assignments logs)%Z /\
  sm_nsusp sf = (sm_nsusp s + rc_suspensions logs)%Z /\
  sm_nfail sf = (sm_nfail s + rc_failures logs)%Z /\
  completed_of sf = (completed_of s + rc_completed_containers logs)%Z.
Proof.
  induction 1 as [t s|t s newp s1 lg logs sf Ht Hr IH].
  - unfold rc_assignments, rc_suspensions, rc_failures, rc_completed_containers, rc_arrived, rc_results.
    cbn. repeat split; lia.
  - destruct IH as (I1 & I2 & I3 & I4 & I5).
    apply sim_tick_inv in Ht.
    destruct Ht as (ss' & w' & e2 & _ & He & _ & Hn & _ & Hx & _ & _ & _ & _ & H1 & H2 & H3 & H4).
    apply exec_tick_num_completed in He. cbn [e_pools] in He.
    unfold rc_assignments, rc_suspensions, rc_failures, rc_completed_containers, rc_arrived, rc_results
      in *.
    cbn [map]. rewrite !length_concat_cons. cbn [concat]. rewrite !filter_length_app.
    rewrite I1, I2, I3, I4, I5, H1, H2, H3, H4. unfold completed_of at 1. rewrite Hx, He.
    unfold completed_of. rewrite Hn. repeat split; lia.
Qed.

Lemma run_arrivals C a t s logs sf :
  ok_run C a t s logs sf -> book_ok s ->
  book_ok sf /\ sm_arrival sf = sm_arrival s ++ rc_arrival_list t logs /\
  (forall p, In p (rc_arrived logs) -> ~ In p (map fst (sm_arrival s))).
Proof.
  induction 1 as [t s|t s newp s1 lg logs sf Ht Hr IH]; intros B.
  - split; [exact B|]. cbn. rewrite app_nil_r. split; [reflexivity|intros ? []].
  - pose proof Ht as Ht0. apply sim_tick_inv in Ht0.
    destruct Ht0 as (_ & _ & _ & _ & _ & _ & Hn & _).
    destruct (sim_tick_book _ _ _ _ _ _ _ Ht B) as (B1 & Ha & _ & _ & _ & _ & D).
    destruct (IH B1) as (Bf & Hf & Df). split; [exact Bf|]. split.
    + rewrite Hf, Ha. cbn [rc_arrival_list]. rewrite Hn, <- app_assoc. reflexivity.
    + unfold rc_arrived. cbn [map concat]. rewrite Hn. intros p Hp. apply in_app_or in Hp.
      destruct Hp as [Hp|Hp]; [apply D, Hp|].
      intros Hin. apply (Df p Hp). rewrite Ha, map_app. apply in_or_app. left. exact Hin.
Qed.

(* ---- the latency list ---- *)

Lemma run_latencies C a t s logs sf :
  ok_run C a t s logs sf -> book_ok s ->
  sm_lat sf = sm_lat s ++
    map (fun x => (pd_prio (pipe_of (cf_static C) (fst x)), (snd x - arrival_of (fst x) (sm_arrival sf))%Z))
        (rc_finished_from t logs).
Proof.
  induction 1 as [t s|t s newp s1 lg logs sf Ht Hr IH]; intros B.
  - cbn. rewrite app_nil_r. reflexivity.
  - destruct (sim_tick_book _ _ _ _ _ _ _ Ht B) as (B1 & Ha & If & _).
    destruct (run_arrivals _ _ _ _ _ _ Hr B1) as (_ & Hf & _).
    apply sim_tick_inv in Ht.
    destruct Ht as (_ & _ & _ & _ & _ & _ & _ & _ & _ & _ & _ & _ & Hl & _).
    rewrite (IH B1), Hl. cbn [rc_finished_from]. rewrite map_app, map_map, <- app_assoc. cbn [fst snd].
    f_equal. f_equal. apply map_ext_in. intros p Hp. f_equal. f_equal.
    rewrite Hf. symmetry. apply arrival_of_app_known. apply If, Hp.
Qed.

(* ------------------------------------------------------------------------------------------ *)
(* T1. the returned statistics equal the recount                                                *)
(* ------------------------------------------------------------------------------------------ *)

Section Refine.
Variable C : cfg.
Variable a : algo.
Variables (np : nat) (cpu : Z) (ram : Q).
Variable arrivals : list (list nat).
Variables (s : sim) (logs : list tick_log).
Hypothesis Hrun : sim_run C a 0%Z (init_sim C np cpu ram) arrivals = (s, logs, None).

Lemma run_is_ok : ok_run C a 0%Z (init_sim C np cpu ram) logs s.
Proof. apply (sim_run_ok _ _ _ _ _ _ _ Hrun). Qed.

Lemma run_every_tick_logged : length logs = length arrivals.
Proof. apply (sim_run_ok _ _ _ _ _ _ _ Hrun). Qed.

Lemma run_arrival_list : sm_arrival s = rc_arrival_list 0%Z logs.
Proof.
  destruct (run_arrivals _ _ _ _ _ _ run_is_ok (book_ok_init C np cpu ram)) as (_ & H & _). exact H.
Qed.

Lemma run_arrival_of p : arrival_of p (sm_arrival s) = rc_arrival_tick logs p.
Proof. rewrite run_arrival_list. apply arrival_of_list. Qed.

Lemma run_lat : sm_lat s =
  map (fun x => (pd_prio (pipe_of (cf_static C) (fst x)), (snd x - rc_arrival_tick logs (fst x))%Z))
      (rc_finished logs).
Proof.
  rewrite (run_latencies _ _ _ _ _ _ run_is_ok (book_ok_init C np cpu ram)). cbn [init_sim sm_lat app].
  apply map_ext. intros x. rewrite run_arrival_of. reflexivity.
Qed.

Lemma run_lat_of pr : lat_of s pr = rc_latencies C logs (Some pr).
Proof.
  unfold lat_of, rc_latencies. rewrite run_lat, filter_map_comm, map_map. cbn [fst snd prio_sel].
  reflexivity.
Qed.

Lemma run_arrivals_of pr : arrivals_of C s pr = rc_arrivals C logs (Some pr).
Proof.
  unfold arrivals_of, rc_arrivals. rewrite <- (rc_arrival_list_fst logs 0%Z), <- run_arrival_list.
  rewrite filter_map_comm, map_length. reflexivity.
Qed.

Lemma run_arrivals_all : Z.of_nat (length (sm_arrival s)) = rc_arrivals C logs None.
Proof.
  unfold rc_arrivals. rewrite <- (rc_arrival_list_fst logs 0%Z), <- run_arrival_list.
  cbn [prio_sel]. rewrite (ConserveFacts.filter_all (fun _ : nat => true)) by reflexivity.
  rewrite map_length. reflexivity.
Qed.

Theorem stats_refine (dur : Q) :
  let st := final_stats C dur s in
  let tps := cf_tps C in
  length logs = length arrivals /\
  st_created st = rc_arrivals C logs None /\
  st_completed st = rc_completed_containers logs /\
  st_throughput st = (inject_Z (rc_completed_containers logs) / dur)%Q /\
  st_assignments st = rc_assignments logs /\
  st_suspensions st = rc_suspensions logs /\
  st_failures st = rc_failures logs /\
  st_all st = pipeline_stats tps (rc_arrivals C logs None)
                (rc_latencies C logs (Some Query) ++ rc_latencies C logs (Some Interactive)
                 ++ rc_latencies C logs (Some Batch)) /\
  st_query st = pipeline_stats tps (rc_arrivals C logs (Some Query)) (rc_latencies C logs (Some Query)) /\
  st_interactive st = pipeline_stats tps (rc_arrivals C logs (Some Interactive))
                        (rc_latencies C logs (Some Interactive)) /\
  st_batch st = pipeline_stats tps (rc_arrivals C logs (Some Batch)) (rc_latencies C logs (Some Batch)).
Proof.
  cbv zeta.
  destruct (run_counters _ _ _ _ _ _ run_is_ok) as (H1 & H2 & H3 & H4 & H5).
  rewrite completed_init in H5. cbn [init_sim sm_created sm_nasg sm_nsusp sm_nfail] in H1, H2, H3, H4.
  unfold completed_of in H5.
  unfold final_stats. cbn [st_created st_completed st_throughput st_assignments st_suspensions
    st_failures st_all st_query st_interactive st_batch].
  rewrite !run_lat_of, !run_arrivals_of, run_arrivals_all, H1, H2, H3, H4, H5.
  split; [exact run_every_tick_logged|].
  split; [unfold rc_arrivals; cbn [prio_sel];
          rewrite (ConserveFacts.filter_all (fun _ : nat => true)) by reflexivity; lia|].
  repeat split; try lia.
Qed.

End Refine.

(* ------------------------------------------------------------------------------------------ *)
(* T2. the classes partition the totals                                                         *)
(* ------------------------------------------------------------------------------------------ *)

Lemma prio_filter_length {A} (f : A -> prio) (l : list A) :
  length l = length (filter (fun x => prio_eqb (f x) Query) l)
           + length (filter (fun x => prio_eqb (f x) Interactive) l)
           + length (filter (fun x => prio_eqb (f x) Batch) l).
Proof.
  induction l as [|x t IH]; [reflexivity|]. cbn [filter].
  destruct (f x); cbn [prio_eqb prio_val Z.eqb Pos.eqb length]; lia.
Qed.

Lemma prio_filter_perm {A} (f : A -> prio) (l : list A) :
  Permutation (filter (fun x => prio_eqb (f x) Query) l
               ++ filter (fun x => prio_eqb (f x) Interactive) l
               ++ filter (fun x => prio_eqb (f x) Batch) l) l.
Proof.
  induction l as [|x t IH]; [constructor|]. cbn [filter].
  destruct (f x); cbn [prio_eqb prio_val Z.eqb Pos.eqb].
  - cbn [app]. constructor. exact IH.
  - eapply Permutation_trans; [apply Permutation_sym, Permutation_middle|].
    constructor. exact IH.
  - rewrite app_assoc.
    eapply Permutation_trans; [apply Permutation_sym, Permutation_middle|].
    rewrite <- app_assoc. constructor. exact IH.
Qed.

(* for every simulator state, hence for the statistics of every run *)
Theorem class_partition C dur s :
  let st := final_stats C dur s in
  pst_arrivals (st_all st)
    = (pst_arrivals (st_query st) + pst_arrivals (st_interactive st) + pst_arrivals (st_batch st))%Z /\
  pst_completions (st_all st)
    = (pst_completions (st_query st) + pst_completions (st_interactive st)
       + pst_completions (st_batch st))%Z /\
  Permutation (lat_of s Query ++ lat_of s Interactive ++ lat_of s Batch) (map snd (sm_lat s)).
Proof.
  cbv zeta. unfold final_stats, pipeline_stats, arrivals_of.
  cbn [st_all st_query st_interactive st_batch pst_arrivals pst_completions]. split; [|split].
  - rewrite (prio_filter_length (fun x => pd_prio (pipe_of (cf_static C) (fst x))) (sm_arrival s)).
    cbv beta. rewrite !Nat2Z.inj_add. reflexivity.
  - rewrite !app_length. lia.
  - unfold lat_of. rewrite <- !map_app. apply Permutation_map. apply (prio_filter_perm fst).
Qed.

(* the same at the level of the recount *)
Theorem rc_class_partition C logs :
  rc_arrivals C logs None
    = (rc_arrivals C logs (Some Query) + rc_arrivals C logs (Some Interactive)
       + rc_arrivals C logs (Some Batch))%Z /\
  Permutation (rc_latencies C logs (Some Query) ++ rc_latencies C logs (Some Interactive)
               ++ rc_latencies C logs (Some Batch))
              (rc_latencies C logs None).
Proof.
  unfold rc_arrivals, rc_latencies. cbn [prio_sel]. split.
  - rewrite (ConserveFacts.filter_all (fun _ : nat => true)) by reflexivity.
    rewrite (prio_filter_length (fun p => pd_prio (pipe_of (cf_static C) p)) (rc_arrived logs)).
    cbv beta. rewrite !Nat2Z.inj_add. reflexivity.
  - rewrite (ConserveFacts.filter_all (fun _ : nat * Z => true)) by reflexivity.
    rewrite <- !map_app. apply Permutation_map.
    apply (prio_filter_perm (fun x : nat * Z => pd_prio (pipe_of (cf_static C) (fst x)))).
Qed.

(* mean and p99 do not depend on the order: "all" is taken over exactly the recorded completions *)
Lemma insZ_comm x y : forall l, insZ x (insZ y l) = insZ y (insZ x l).
Proof.
  induction l as [|h t IH]; cbn [insZ].
  - destruct (x <=? y)%Z eqn:A, (y <=? x)%Z eqn:B; try reflexivity.
    + apply Z.leb_le in A, B. assert (x = y) by lia. subst. reflexivity.
    + apply Z.leb_gt in A, B. lia.
  - destruct (y <=? h)%Z eqn:A, (x <=? h)%Z eqn:B; cbn [insZ]; rewrite ?A, ?B.
    + destruct (x <=? y)%Z eqn:D, (y <=? x)%Z eqn:E; try reflexivity.
      * apply Z.leb_le in D, E. assert (x = y) by lia. subst. reflexivity.
      * apply Z.leb_gt in D, E. lia.
    + destruct (x <=? y)%Z eqn:D; [|reflexivity].
      apply Z.leb_le in A, D. apply Z.leb_gt in B. lia.
    + destruct (y <=? x)%Z eqn:D; [|reflexivity].
      apply Z.leb_le in B, D. apply Z.leb_gt in A. lia.
    + f_equal. exact IH.
Qed.

Lemma sortZ_perm l l' : Permutation l l' -> sortZ l = sortZ l'.
Proof.
  unfold sortZ. induction 1 as [|x l l' P IH|x y l|l1 l2 l3 P1 IH1 P2 IH2]; cbn [fold_right].
  - reflexivity.
  - rewrite IH. reflexivity.
  - apply insZ_comm.
  - congruence.
Qed.

Lemma percentile99_perm l l' : Permutation l l' -> percentile99 l = percentile99 l'.
Proof.
  intros P. pose proof (sortZ_perm _ _ P) as E.
  destruct l as [|x t], l' as [|x' t'].
  - reflexivity.
  - apply Permutation_nil in P. discriminate.
  - apply Permutation_sym, Permutation_nil in P. discriminate.
  - unfold percentile99. rewrite E. reflexivity.
Qed.

Lemma meanZ_perm l l' : Permutation l l' -> meanZ l = meanZ l'.
Proof.
  intros P. pose proof (sumZ_perm _ _ P) as E. pose proof (Permutation_length P) as L.
  destruct l as [|x t], l' as [|x' t'].
  - reflexivity.
  - apply Permutation_nil in P. discriminate.
  - apply Permutation_sym, Permutation_nil in P. discriminate.
  - unfold meanZ. rewrite E, L. reflexivity.
Qed.

Lemma pipeline_stats_perm tps n l l' :
  Permutation l l' -> pipeline_stats tps n l = pipeline_stats tps n l'.
Proof.
  intros P. unfold pipeline_stats.
  rewrite (meanZ_perm _ _ P), (percentile99_perm _ _ P), (Permutation_length P). reflexivity.
Qed.

Corollary stats_all_recount C a np cpu ram arrivals s logs dur :
  sim_run C a 0%Z (init_sim C np cpu ram) arrivals = (s, logs, None) ->
  st_all (final_stats C dur s)
    = pipeline_stats (cf_tps C) (rc_arrivals C logs None) (rc_latencies C logs None).
Proof.
  intros H. destruct (stats_refine _ _ _ _ _ _ _ _ H dur) as (_ & _ & _ & _ & _ & _ & _ & E & _).
  rewrite E. apply pipeline_stats_perm. apply rc_class_partition.
Qed.

(* ------------------------------------------------------------------------------------------ *)
(* T3. a pipeline is recorded once, not before it arrived, and only when it is successful       *)
(* ------------------------------------------------------------------------------------------ *)

Lemma rc_finished_fst : forall logs t, map fst (rc_finished_from t logs) = concat (map tl_finished logs).
Proof.
  induction logs as [|lg r IH]; intros t; [reflexivity|].
  cbn [rc_finished_from map concat]. rewrite map_app, map_map. cbn [fst]. rewrite map_id, IH. reflexivity.
Qed.

Lemma sim_tick_outstanding C a t s newp s1 lg :
  sim_tick C a t s newp = Ok (s1, lg) ->
  forall p, In p (sm_outstanding s1) <->
            (In p (sm_outstanding s) \/ In p newp) /\ ~ In p (tl_finished lg).
Proof.
  intros H p. apply sim_tick_inv in H.
  destruct H as (_ & _ & _ & _ & _ & _ & _ & _ & _ & _ & _ & Ho & _).
  rewrite Ho, filter_In, add_all_In, negb_true_iff, memb_false. reflexivity.
Qed.

(* what the sweep of one tick records, in terms of the world after that tick's executor phase *)
Theorem sim_tick_sweep C a t s newp s1 lg :
  sim_tick C a t s newp = Ok (s1, lg) ->
  (forall p, In p (tl_finished lg) ->
     is_successful (cf_static C) (e_world (sm_exec s1)) p = true /\ tl_results lg <> [] /\
     (In p (sm_outstanding s) \/ In p newp) /\ ~ In p (sm_outstanding s1)) /\
  (forall p, In p (sm_outstanding s1) -> tl_results lg <> [] ->
     is_successful (cf_static C) (e_world (sm_exec s1)) p = false) /\
  (tl_results lg = [] -> tl_finished lg = []).
Proof.
  intros H. pose proof (sim_tick_outstanding _ _ _ _ _ _ _ H) as Ho. apply sim_tick_inv in H.
  destruct H as (_ & _ & e2 & _ & _ & _ & _ & Hf & He & _). subst e2. unfold sweep in Hf.
  split; [|split].
  - intros p Hp. destruct (tl_results lg) as [|r0 rs] eqn:R; [rewrite Hf in Hp; destruct Hp|].
    pose proof Hp as Hp0. rewrite Hf in Hp. apply filter_In in Hp. destruct Hp as [Hin Hs].
    apply add_all_In in Hin. split; [exact Hs|]. split; [discriminate|]. split; [exact Hin|].
    intros Hout. apply Ho in Hout. tauto.
  - intros p Hp Hr. destruct (tl_results lg) as [|r0 rs] eqn:R; [congruence|].
    destruct (is_successful (cf_static C) (e_world (sm_exec s1)) p) eqn:E; [|reflexivity].
    exfalso. apply Ho in Hp. destruct Hp as [Hin Hnf]. apply Hnf. rewrite Hf. apply filter_In.
    split; [apply add_all_In; exact Hin|exact E].
  - intros R. rewrite Hf, R. reflexivity.
Qed.

(* the states after each tick, next to the log of that tick *)
Fixpoint sim_trace (C : cfg) (a : algo) (t : Z) (s : sim) (arrivals : list (list nat))
  : list (sim * tick_log) :=
  match arrivals with
  | [] => []
  | newp :: r =>
      match sim_tick C a t s newp with
      | Err _ => []
      | Ok (s', lg) => (s', lg) :: sim_trace C a (t + 1)%Z s' r
      end
  end.

Lemma sim_run_trace C a : forall arrivals t s sf logs e,
  sim_run C a t s arrivals = (sf, logs, e) ->
  map snd (sim_trace C a t s arrivals) = logs /\ last (map fst (sim_trace C a t s arrivals)) s = sf.
Proof.
  induction arrivals as [|newp r IH]; intros t s sf logs e H; cbn [sim_run sim_trace] in *.
  - inversion H; subst. split; reflexivity.
  - destruct (sim_tick C a t s newp) as [[s1 lg]|e1] eqn:E.
    + destruct (sim_run C a (t + 1)%Z s1 r) as [[sf' logs'] e'] eqn:R. inversion H; subst.
      destruct (IH _ _ _ _ _ R) as [I1 I2]. cbn [map snd fst]. split; [f_equal; exact I1|].
      destruct (map fst (sim_trace C a (t + 1)%Z s1 r)) as [|x l] eqn:M.
      * cbn in I2. cbn. exact I2.
      * cbn [last]. cbn [last] in I2. rewrite <- I2. clear.
        revert x. induction l as [|y l IHl]; intros x; [reflexivity|]. cbn [last]. apply IHl.
    + inversion H; subst. split; reflexivity.
Qed.

Theorem finished_is_successful C a : forall arrivals t s,
  Forall (fun sl =>
            (forall p, In p (tl_finished (snd sl)) ->
               is_successful (cf_static C) (e_world (sm_exec (fst sl))) p = true /\
               tl_results (snd sl) <> [] /\ ~ In p (sm_outstanding (fst sl))) /\
            (forall p, In p (sm_outstanding (fst sl)) -> tl_results (snd sl) <> [] ->
               is_successful (cf_static C) (e_world (sm_exec (fst sl))) p = false))
         (sim_trace C a t s arrivals).
Proof.
  induction arrivals as [|newp r IH]; intros t s; cbn [sim_trace]; [constructor|].
  destruct (sim_tick C a t s newp) as [[s1 lg]|e1] eqn:E; [|constructor].
  constructor; [|apply IH]. cbn [fst snd].
  destruct (sim_tick_sweep _ _ _ _ _ _ _ E) as (A & B & _). split; [|exact B].
  intros p Hp. destruct (A p Hp) as (A1 & A2 & _ & A4). auto.
Qed.

Lemma run_finished_once C a t s logs sf :
  ok_run C a t s logs sf -> book_ok s ->
  NoDup (concat (map tl_finished logs)) /\
  (forall p, In p (concat (map tl_finished logs)) -> In p (sm_outstanding s) \/ In p (rc_arrived logs)).
Proof.
  induction 1 as [t s|t s newp s1 lg logs sf Ht Hr IH]; intros B.
  - cbn. split; [constructor|intros ? []].
  - destruct (sim_tick_book _ _ _ _ _ _ _ Ht B) as (B1 & Ha & If & Nf & Dout & Orig & _).
    destruct (IH B1) as [N O].
    destruct (run_arrivals _ _ _ _ _ _ Hr B1) as (_ & _ & Darr).
    pose proof (sim_tick_outstanding _ _ _ _ _ _ _ Ht) as Ho.
    assert (Hn : tl_new lg = newp).
    { apply sim_tick_inv in Ht. destruct Ht as (_ & _ & _ & _ & _ & _ & Hn & _). exact Hn. }
    cbn [map concat]. split.
    + apply ConserveFacts.NoDup_app_intro; [exact Nf|exact N|].
      intros p Hp Hq. destruct (O p Hq) as [Hq'|Hq'].
      * apply (Dout p Hp Hq').
      * apply (Darr p Hq'). apply If, Hp.
    + intros p Hp. unfold rc_arrived. cbn [map concat]. rewrite Hn. apply in_app_or in Hp.
      destruct Hp as [Hp|Hp].
      * destruct (Orig p Hp) as [H|H]; [left; exact H|right; apply in_or_app; left; exact H].
      * destruct (O p Hp) as [H|H].
        -- apply Ho in H. destruct H as [[H|H] _]; [left; exact H|right; apply in_or_app; left; exact H].
        -- right. apply in_or_app. right. exact H.
Qed.

Lemma run_finish_ticks C a t s logs sf :
  ok_run C a t s logs sf -> book_ok s ->
  forall p tf, In (p, tf) (rc_finished_from t logs) ->
    (t <= tf)%Z /\
    (In p (sm_outstanding s) \/ exists ta, In (p, ta) (rc_arrival_list t logs) /\ (ta <= tf)%Z).
Proof.
  induction 1 as [t s|t s newp s1 lg logs sf Ht Hr IH]; intros B p tf Hin.
  - destruct Hin.
  - destruct (sim_tick_book _ _ _ _ _ _ _ Ht B) as (B1 & _ & _ & _ & _ & Orig & _).
    pose proof (sim_tick_outstanding _ _ _ _ _ _ _ Ht) as Ho.
    assert (Hn : tl_new lg = newp).
    { apply sim_tick_inv in Ht. destruct Ht as (_ & _ & _ & _ & _ & _ & Hn & _). exact Hn. }
    cbn [rc_finished_from] in Hin. cbn [rc_arrival_list]. rewrite Hn. apply in_app_or in Hin.
    destruct Hin as [Hin|Hin].
    + apply in_map_iff in Hin. destruct Hin as [q [E Hq]]. inversion E; subst q tf.
      split; [lia|]. destruct (Orig p Hq) as [H|H]; [left; exact H|].
      right. exists t. split; [|lia]. apply in_or_app. left. apply in_map_iff. exists p. auto.
    + destruct (IH B1 p tf Hin) as [L [H|[ta [H1 H2]]]].
      * split; [lia|]. apply Ho in H. destruct H as [[H|H] _]; [left; exact H|].
        right. exists t. split; [|lia]. apply in_or_app. left. apply in_map_iff. exists p. auto.
      * split; [lia|]. right. exists ta. split; [apply in_or_app; right; exact H1|exact H2].
Qed.

(* a pipeline is recorded as finished at most once, only if it arrived, and not before its arrival
   tick: every recounted latency is >= 0 *)
Theorem completed_once C a np cpu ram arrivals s logs :
  sim_run C a 0%Z (init_sim C np cpu ram) arrivals = (s, logs, None) ->
  NoDup (concat (map tl_finished logs)) /\
  NoDup (rc_arrived logs) /\
  (forall p tf, In (p, tf) (rc_finished logs) ->
     In p (rc_arrived logs) /\ (0 <= rc_arrival_tick logs p <= tf)%Z).
Proof.
  intros H. pose proof (run_is_ok _ _ _ _ _ _ _ _ H) as R.
  pose proof (book_ok_init C np cpu ram) as B0.
  destruct (run_finished_once _ _ _ _ _ _ R B0) as [N _].
  destruct (run_arrivals _ _ _ _ _ _ R B0) as ((_ & _ & Na) & Harr & _).
  cbn [init_sim sm_arrival app] in Harr.
  split; [exact N|]. split; [rewrite <- (rc_arrival_list_fst logs 0%Z), <- Harr; exact Na|].
  intros p tf Hin. destruct (run_finish_ticks _ _ _ _ _ _ R B0 p tf Hin) as [L [[]|[ta [H1 H2]]]].
  split.
  - rewrite <- (rc_arrival_list_fst logs 0%Z). apply in_map_iff. exists (p, ta). auto.
  - rewrite <- (run_arrival_of _ _ _ _ _ _ _ _ H). rewrite <- Harr in H1.
    rewrite (arrival_of_unique p ta _ Na H1). split; [|exact H2].
    rewrite Harr in H1. clear -H1. revert H1. generalize 0%Z as t0.
    induction logs as [|lg r IH]; intros t0 H1; [destruct H1|].
    cbn [rc_arrival_list] in H1. apply in_app_or in H1. destruct H1 as [H1|H1].
    + apply in_map_iff in H1. destruct H1 as [q [E _]]. inversion E; subst. lia.
    + specialize (IH _ H1). lia.
Qed.

(* never while an operator is unfinished: with the counts invariant, [is_successful] says that
   every operator of the pipeline is Completed *)
Definition counts_ok (S : static) (w : world) (k : nat) : Prop :=
  forall a, cnt_of w k a =
            Z.of_nat (length (filter (fun o => ostate_eqb (st_of w o) a) (pd_order (pipe_of S k)))).

Lemma filter_len_le {A} (f : A -> bool) l : length (filter f l) <= length l.
Proof. induction l as [|h t IH]; [constructor|]. cbn [filter]. destruct (f h); cbn [length]; lia. Qed.

Lemma filter_full {A} (f : A -> bool) l : length (filter f l) = length l -> forall x, In x l -> f x = true.
Proof.
  induction l as [|h t IH]; intros L x Hx; [destruct Hx|]. cbn [filter] in L.
  pose proof (filter_len_le f t) as Le.
  destruct (f h) eqn:E; cbn [length] in L.
  - destruct Hx as [->|Hx]; [exact E|]. apply IH; [lia|exact Hx].
  - lia.
Qed.

Theorem never_while_unfinished S w k :
  counts_ok S w k ->
  (is_successful S w k = true <-> forall o, In o (pd_order (pipe_of S k)) -> st_of w o = Completed).
Proof.
  intros Hc. unfold is_successful. rewrite (Hc Completed), Z.eqb_eq, Nat2Z.inj_iff. split.
  - intros L o Ho. apply ostate_eqb_eq. apply (filter_full _ _ L o Ho).
  - intros H. f_equal. apply ConserveFacts.filter_all. intros o Ho. apply ostate_eqb_eq, H, Ho.
Qed.

Corollary finished_all_completed C a t s newp s1 lg p :
  sim_tick C a t s newp = Ok (s1, lg) -> In p (tl_finished lg) ->
  counts_ok (cf_static C) (e_world (sm_exec s1)) p ->
  forall o, In o (pd_order (pipe_of (cf_static C) p)) -> st_of (e_world (sm_exec s1)) o = Completed.
Proof.
  intros H Hp Hc. destruct (sim_tick_sweep _ _ _ _ _ _ _ H) as (A & _).
  destruct (A p Hp) as (A1 & _). apply (never_while_unfinished _ _ _ Hc). exact A1.
Qed.

(* ------------------------------------------------------------------------------------------ *)
(* T5. an uncontended container finishes in exactly the ticks its operators need                *)
(* ------------------------------------------------------------------------------------------ *)

(* [n] ticks of one pool without any command; the results of each tick *)
Fixpoint pool_quiet_run (C : cfg) (n : nat) (w : world) (next : nat) (p : pool)
  : res (world * nat * pool * list (list result)) :=
  match n with
  | O => Ok (w, next, p, [])
  | S n' =>
      match pool_tick C w next p [] [] with
      | Err e => Err e
      | Ok (w', next', p', res) =>
          match pool_quiet_run C n' w' next' p' with
          | Err e => Err e
          | Ok (w'', next'', p'', rs) => Ok (w'', next'', p'', res :: rs)
          end
      end
  end.

Lemma pool_quiet_run_add C a : forall b w next p,
  pool_quiet_run C (a + b) w next p =
  match pool_quiet_run C a w next p with
  | Err e => Err e
  | Ok (w1, next1, p1, rs1) =>
      match pool_quiet_run C b w1 next1 p1 with
      | Err e => Err e
      | Ok (w2, next2, p2, rs2) => Ok (w2, next2, p2, rs1 ++ rs2)
      end
  end.
Proof.
  induction a as [|a IH]; intros b w next p.
  - cbn [plus pool_quiet_run app].
    destruct (pool_quiet_run C b w next p) as [[[[w2 next2] p2] rs2]|e]; reflexivity.
  - cbn [plus pool_quiet_run].
    destruct (pool_tick C w next p [] []) as [[[[w' next'] p'] res]|e]; [|reflexivity].
    rewrite IH.
    destruct (pool_quiet_run C a w' next' p') as [[[[w1 next1] p1] rs1]|e]; [|reflexivity].
    destruct (pool_quiet_run C b w1 next1 p1) as [[[[w2 next2] p2] rs2]|e]; reflexivity.
Qed.

Definition skey (c : container) : nat * list nat * Z * Q * prio :=
  (c_id c, c_ops c, c_cpu c, c_ram c, c_prio c).

Lemma set_mem_skey C c cons m c1 cons1 : set_mem C c cons m = (c1, cons1) -> skey c1 = skey c.
Proof. unfold set_mem. intros H. inversion H. reflexivity. Qed.
Lemma mark_completed_skey C c cons e c1 cons1 :
  mark_completed C c cons e = (c1, cons1) -> skey c1 = skey c.
Proof.
  unfold mark_completed. destruct (set_mem C c cons 0%Q) as [c0 cons0] eqn:E.
  apply set_mem_skey in E. intros H. inversion H. subst. exact E.
Qed.

Lemma ctick_skey C w cons c w' cons' c' : ctick C w cons c = Ok (w', cons', c') -> skey c' = skey c.
Proof.
  unfold ctick. destruct (c_completed c); [intros H; inversion H; reflexivity|].
  destruct (c_frozen c); [intros H; inversion H; reflexivity|].
  destruct (nth_error (c_ops c) (c_opidx c)) as [op|]; [|discriminate].
  intros H. inv_bind H wr E. destruct wr as [w1 rest].
  destruct rest as [|m rest']; [discriminate|].
  destruct (set_mem C c cons m) as [c1 cons1] eqn:Sm. apply set_mem_skey in Sm.
  destruct (Qltb (c_ram c) m).
  - inversion H. subst. exact Sm.
  - destruct rest' as [|m' rest''].
    + inv_bind H w2 E2. destruct (Nat.eqb (S (c_opidx c)) (length (c_ops c))).
      * destruct (mark_completed C (with_pos c1 (S (c_opidx c)) None false false) cons1 false)
          as [c2 cons2] eqn:M.
        apply mark_completed_skey in M. inversion H. subst.
        change (skey (tick_elapsed c2)) with (skey c2). rewrite M. exact Sm.
      * inversion H. subst. exact Sm.
    + inversion H. subst. exact Sm.
Qed.

(* one tick of a pool whose only container is [c], not over its limit afterwards *)
Lemma pool_tick_single C w next p c w' cons' c' :
  p_active p = [c] -> p_suspending p = [] ->
  ctick C w (p_consumed p) c = Ok (w', cons', c') ->
  Qltb (c_ram c') (c_mem c') = false -> Qleb cons' (p_max_ram p) = true ->
  exists p',
    pool_tick C w next p [] [] = Ok (w', next, p', map (result_of (p_id p)) (filter c_completed [c'])) /\
    p_active p' = filter (fun c => negb (c_completed c)) [c'] /\ p_suspending p' = [] /\
    (c_completed c' = false -> p_consumed p' = cons') /\
    p_max_ram p' = p_max_ram p /\ p_id p' = p_id p.
Proof.
  intros Ha Hs Ht Hm Hc. unfold pool_tick. rewrite Ha, Hs.
  cbn [bind tick_suspending tick_active]. rewrite Ht. cbn [bind].
  unfold oom_killer. cbn [kill_over_limit]. rewrite Hm. cbn [bind]. rewrite Hc.
  eexists. split; [reflexivity|]. cbn [upd_pool p_active p_suspending p_consumed p_max_ram p_id filter].
  split; [reflexivity|]. split; [reflexivity|]. split; [|split; reflexivity].
  intros Hf. rewrite Hf. reflexivity.
Qed.

Lemma repeat_snoc {A} (x : A) n : repeat x n ++ [x] = repeat x (S n).
Proof. induction n as [|n IH]; [reflexivity|]. cbn [repeat app]. rewrite IH. reflexivity. Qed.

Section Uncontended.
Variable C : cfg.
Variables (id : nat) (ops : list nat) (cpu : Z) (ram : Q) (pr : prio).
Variable w0 : world.
Variable p0 : pool.
Variable next : nat.
Let c0 := new_container id ops cpu ram pr.
Let T := total C ops cpu.

Hypothesis Ex : forall x, (cf_rnd C x == x)%Q.
Hypothesis Hact : p_active p0 = [c0].
Hypothesis Hsusp : p_suspending p0 = [].
Hypothesis Hassigned : forall o, In o ops -> st_of w0 o = Assigned.
Hypothesis Hnodup : NoDup ops.
Hypothesis Hrange : forall o, In o ops -> o < length (w_st w0).
Hypothesis Hdeps : forall k, k < length ops -> forall p, In p (op_parents (cf_static C) (nth k ops 0)) ->
  st_of w0 p = Completed \/ exists i, i < k /\ nth i ops 0 = p.
Hypothesis Hne : forall k, k < length ops -> scr C ops cpu k <> [].
Hypothesis Hfit : all_fit C ops cpu ram.
Hypothesis Hops : 0 < length ops.
Hypothesis Hram : (0 <= ram)%Q.
Hypothesis Hcap : (p_consumed p0 + ram <= p_max_ram p0)%Q.

Lemma T_pos : 0 < T.
Proof.
  unfold T, total. pose proof (off_lt C ops cpu Hne 0 (length ops) Hops (le_n _)) as H.
  cbn [off] in H. exact H.
Qed.

(* the state after tick t of the container run, as [run_success_at] gives it *)
Lemma run_at t : 0 < t <= T ->
  exists w cons c,
    cticks C t w0 (p_consumed p0) c0 = Ok (w, cons, c) /\
    c_error c = false /\ (c_completed c = true <-> t = T) /\
    (c_mem c <= ram)%Q /\ (cons <= p_max_ram p0)%Q /\
    (t = T -> forall i, i < length ops -> st_of w (nth i ops 0) = Completed).
Proof.
  intros Ht.
  destruct (run_success_at C id ops cpu ram pr w0 (p_consumed p0) Hassigned Hnodup Hrange Hdeps Hne
              t Hfit Ht)
    as (k & j & w & cons & c & Hk & Hj & E & Hr & _ & _ & Her & Hcp & _ & Hm1 & Hm2 & Hb & Hc & _ & _ & Hac).
  exists w, cons, c. split; [exact Hr|]. split; [exact Her|]. split; [exact Hcp|].
  assert (Hmem : (c_mem c <= ram)%Q).
  { destruct (Nat.eq_dec t T) as [Et|Nt].
    - rewrite (Hm2 Et). exact Hram.
    - rewrite (Hm1 Nt). apply Hfit; assumption. }
  split; [exact Hmem|]. split.
  - specialize (Hac Ex). rewrite Hac. lra.
  - intros Et i Hi. pose proof (proj1 (pos_total C ops cpu Hne k j Hk Hj)) as Hp.
    rewrite <- E in Hp. destruct (Hp Et) as [E1 E2].
    destruct (Nat.eq_dec i k) as [->|Ni].
    + rewrite Hc. replace (S j =? L C ops cpu k) with true by (symmetry; apply Nat.eqb_eq; lia).
      reflexivity.
    + apply Hb. lia.
Qed.

Lemma quiet_prefix n : n < T ->
  exists w cons c p,
    pool_quiet_run C n w0 next p0 = Ok (w, next, p, repeat [] n) /\
    cticks C n w0 (p_consumed p0) c0 = Ok (w, cons, c) /\
    p_active p = [c] /\ p_suspending p = [] /\ p_consumed p = cons /\
    p_max_ram p = p_max_ram p0 /\ p_id p = p_id p0 /\ skey c = skey c0.
Proof.
  induction n as [|n IH]; intros Hn.
  - exists w0, (p_consumed p0), c0, p0. cbn [pool_quiet_run cticks repeat]. repeat split; auto.
  - destruct (IH ltac:(lia)) as (w & cons & c & p & Hrun & Hct & Ha & Hs & Hcons & Hmx & Hid & Hk).
    destruct (run_at (S n) ltac:(lia)) as (w2 & cons2 & c2 & Hct2 & Her & Hcp & Hmem & Hcap2 & _).
    rewrite run_S_last, Hct in Hct2.
    assert (Hk2 : skey c2 = skey c0) by (rewrite (ctick_skey _ _ _ _ _ _ _ Hct2); exact Hk).
    assert (Hram2 : c_ram c2 = ram).
    { unfold skey in Hk2. inversion Hk2. reflexivity. }
    assert (Hnc : c_completed c2 = false).
    { destruct (c_completed c2) eqn:E; [|reflexivity]. destruct Hcp as [Hcp _]. specialize (Hcp eq_refl). lia. }
    rewrite <- Hcons in Hct2.
    destruct (pool_tick_single C w next p c w2 cons2 c2 Ha Hs Hct2) as (p' & Hpt & Ha' & Hs' & Hc' & Hmx' & Hid').
    { rewrite Hram2. apply cr_Qltb_false. exact Hmem. }
    { rewrite Hmx. apply Qle_bool_iff. exact Hcap2. }
    cbn [filter] in Hpt, Ha'. rewrite Hnc in Hpt, Ha'. cbn [negb map] in Hpt, Ha'.
    exists w2, cons2, c2, p'. split.
    + replace (S n) with (n + 1) by lia. rewrite pool_quiet_run_add, Hrun.
      cbn [pool_quiet_run]. rewrite Hpt, repeat_snoc, Nat.add_1_r. reflexivity.
    + split; [rewrite run_S_last, Hct, <- Hcons; exact Hct2|].
      split; [exact Ha'|]. split; [exact Hs'|]. split; [apply Hc'; exact Hnc|].
      split; [congruence|]. split; [congruence|exact Hk2].
Qed.

(* the success result is reported in exactly the T-th tick, nothing before, and the pool is empty
   afterwards; T = sum of the script lengths of the operators *)
Theorem uncontended_latency :
  exists w p r,
    pool_quiet_run C T w0 next p0 = Ok (w, next, p, repeat [] (T - 1) ++ [[r]]) /\
    r_err r = false /\ r_cid r = id /\ r_ops r = ops /\ r_cpu r = cpu /\ r_ram r = ram /\
    r_prio r = pr /\ r_pool r = p_id p0 /\
    p_active p = [] /\ p_suspending p = [] /\
    (forall i, i < length ops -> st_of w (nth i ops 0) = Completed).
Proof.
  pose proof T_pos as TP.
  destruct (quiet_prefix (T - 1) ltac:(lia)) as (w & cons & c & p & Hrun & Hct & Ha & Hs & Hcons & Hmx & Hid & Hk).
  destruct (run_at T ltac:(lia)) as (w2 & cons2 & c2 & Hct2 & Her & Hcp & Hmem & Hcap2 & Hdone).
  replace T with (S (T - 1)) in Hct2 at 1 by lia. rewrite run_S_last, Hct in Hct2.
  assert (Hk2 : skey c2 = skey c0) by (rewrite (ctick_skey _ _ _ _ _ _ _ Hct2); exact Hk).
  unfold skey in Hk2. cbn [c0 new_container c_id c_ops c_cpu c_ram c_prio] in Hk2. injection Hk2 as K1 K2 K3 K4 K5.
  assert (Hc : c_completed c2 = true) by (apply Hcp; reflexivity).
  rewrite <- Hcons in Hct2.
  destruct (pool_tick_single C w next p c w2 cons2 c2 Ha Hs Hct2) as (p' & Hpt & Ha' & Hs' & _ & _ & _).
  { rewrite K4. apply cr_Qltb_false. exact Hmem. }
  { rewrite Hmx. apply Qle_bool_iff. exact Hcap2. }
  cbn [filter] in Hpt, Ha'. rewrite Hc in Hpt, Ha'. cbn [negb map] in Hpt, Ha'.
  exists w2, p', (result_of (p_id p) c2). split.
  - replace T with ((T - 1) + 1) at 1 by lia. rewrite pool_quiet_run_add, Hrun.
    cbn [pool_quiet_run]. rewrite Hpt. reflexivity.
  - cbn [result_of r_err r_cid r_ops r_cpu r_ram r_prio r_pool].
    rewrite Hid. repeat split; auto.
Qed.

End Uncontended.

(* ------------------------------------------------------------------------------------------ *)
(* T4. the tick in which a pipeline becomes successful produces a result                        *)
(* ------------------------------------------------------------------------------------------ *)

(* The sweep runs only in ticks with results.  An operator becomes Completed only in [ctick], on the
   last tick of its script.  If it is the last operator of its container, the container is marked
   completed and is harvested in this very pool tick (a result).  If it is not, the container still
   owns a later operator, which is not Completed; so the pipeline of the completed operator can
   only have become successful if that later operator belongs to ANOTHER pipeline.  Hence: when
   every container holds operators of one pipeline only (all shipped schedulers build such
   containers), a tick in which a pipeline becomes successful has a result and the sweep records the
   pipeline in that tick.  With a container that mixes pipelines the completion is recorded late:
   [late_finish_refuted] below. *)

Definition nc (w w' : world) : Prop := forall o, st_of w' o = Completed -> st_of w o = Completed.

Lemma nc_refl w : nc w w.
Proof. intros o H. exact H. Qed.
Lemma nc_trans a b c : nc a b -> nc b c -> nc a c.
Proof. intros H1 H2 o H. apply H1, H2, H. Qed.

Lemma transition_origin S w op new w' o :
  transition S w op new = Ok w' -> st_of w' o = Completed ->
  st_of w o = Completed \/ (o = op /\ new = Completed).
Proof.
  intros T H. destruct (Nat.eq_dec o op) as [->|N].
  - destruct (Nat.lt_ge_cases op (length (w_st w))) as [L|L].
    + rewrite (transition_st_same _ _ _ _ _ T L) in H. right. auto.
    + left. apply transition_ok in T. destruct T as [_ [_ ->]].
      unfold st_of, world_after in H. cbn [w_st] in H. rewrite set_nth_out in H by exact L. exact H.
  - left. rewrite (transition_st_other _ _ _ _ _ _ T N) in H. exact H.
Qed.

Lemma transition_nc S w op new w' : new <> Completed -> transition S w op new = Ok w' -> nc w w'.
Proof.
  intros Hn T o H. destruct (transition_origin _ _ _ _ _ _ T H) as [H1|[_ H1]]; [exact H1|contradiction].
Qed.

Lemma transition_all_nc S new : new <> Completed -> forall ops w w',
  transition_all S w ops new = Ok w' -> nc w w'.
Proof.
  intros Hn. induction ops as [|o t IH]; intros w w' H; cbn [transition_all] in H.
  - inversion H. apply nc_refl.
  - inv_bind H w1 E. eapply nc_trans; [eapply transition_nc; eauto|eapply IH; eauto].
Qed.

Lemma csuspend_nc C w c w' c' : csuspend C w c = Ok (w', c') -> nc w w'.
Proof.
  unfold csuspend. intros H. inv_bind H w1 E. inversion H; subst.
  eapply transition_all_nc; [|exact E]. discriminate.
Qed.

Lemma csuspend_tick_nc C w c w' c' : csuspend_tick C w c = Ok (w', c') -> nc w w'.
Proof.
  unfold csuspend_tick. cbv zeta. destruct (_ =? 0)%Z; intros H.
  - inv_bind H w1 E. inversion H; subst. eapply transition_all_nc; [|exact E]. discriminate.
  - inversion H. apply nc_refl.
Qed.

Lemma ckill_nc C w cons c w' cons' c' : ckill C w cons c = Ok (w', cons', c') -> nc w w' /\ c_completed c' = true.
Proof.
  unfold ckill. destruct (c_completed c); [discriminate|]. intros H. inv_bind H w1 E.
  destruct (mark_completed C c cons true) as [c1 cons1] eqn:M. inversion H; subst. split.
  - eapply transition_all_nc; [|exact E]. discriminate.
  - eapply mark_completed_completed; eauto.
Qed.

Lemma apply_suspends_nc C : forall ss w act sing w' act' sing',
  apply_suspends C w act sing ss = Ok (w', act', sing') -> nc w w'.
Proof.
  induction ss as [|s t IH]; intros w act sing w' act' sing' H; cbn [apply_suspends] in H.
  - inversion H. apply nc_refl.
  - destruct (find_container (su_cid s) act) as [c|]; [|discriminate].
    inv_bind H wc E. destruct wc as [w1 c1]. eapply nc_trans; [eapply csuspend_nc; eauto|eapply IH; eauto].
Qed.

Lemma tick_suspending_nc C : forall sing w w' sing', tick_suspending C w sing = Ok (w', sing') -> nc w w'.
Proof.
  induction sing as [|c t IH]; intros w w' sing' H; cbn [tick_suspending] in H.
  - inversion H. apply nc_refl.
  - inv_bind H wc E. destruct wc as [w1 c1]. inv_bind H wt E2. destruct wt as [w2 t2]. inversion H; subst.
    eapply nc_trans; [eapply csuspend_tick_nc; eauto|eapply IH; eauto].
Qed.

(* forward tracking of containers through the killer: a container of the input is still in the
   output, or the output holds a completed container *)
Definition kept (x : container) (l : list container) : Prop :=
  In x l \/ exists y, In y l /\ c_completed y = true.

Lemma kill_over_limit_fwd C : forall act w cons w' cons' act',
  kill_over_limit C w cons act = Ok (w', cons', act') -> nc w w' /\ forall x, In x act -> kept x act'.
Proof.
  induction act as [|c t IH]; intros w cons w' cons' act' H; cbn [kill_over_limit] in H.
  - inversion H. split; [apply nc_refl|intros ? []].
  - inv_bind H r E. destruct r as [[w1 cons1] c1]. inv_bind H rt E2. destruct rt as [[w2 cons2] t2].
    inversion H; subst. destruct (IH _ _ _ _ _ E2) as [N2 K2].
    assert (X : nc w w1 /\ (c1 = c \/ c_completed c1 = true)).
    { destruct (Qltb (c_ram c) (c_mem c)).
      - destruct (ckill_nc _ _ _ _ _ _ _ E) as [A B]. auto.
      - inversion E; subst. split; [apply nc_refl|auto]. }
    destruct X as [N1 X]. split; [eapply nc_trans; eauto|].
    intros x [<-|Hx].
    + destruct X as [->|X]; [left; left; reflexivity|right; exists c1; split; [left; reflexivity|exact X]].
    + destruct (K2 x Hx) as [A|[y [A B]]]; [left; right; exact A|right; exists y; split; [right; exact A|exact B]].
Qed.

Lemma replace_container_fwd c' : forall l x, In x l ->
  In x (replace_container c' l) \/ In c' (replace_container c' l).
Proof.
  induction l as [|h t IH]; intros x Hx; [destruct Hx|]. cbn [replace_container].
  destruct (Nat.eqb (c_id h) (c_id c')).
  - destruct Hx as [<-|Hx]; [right; left; reflexivity|left; right; exact Hx].
  - destruct Hx as [<-|Hx]; [left; left; reflexivity|].
    destruct (IH x Hx) as [A|A]; [left|right]; right; exact A.
Qed.

Lemma kill_until_fits_fwd C mx : forall order w cons act w' cons' act',
  kill_until_fits C mx w cons act order = Ok (w', cons', act') ->
  nc w w' /\ forall x, In x act -> kept x act'.
Proof.
  induction order as [|cid t IH]; intros w cons act w' cons' act' H; cbn [kill_until_fits] in H.
  - inversion H; subst. split; [apply nc_refl|intros x Hx; left; exact Hx].
  - destruct (Qleb cons mx); [inversion H; subst; split; [apply nc_refl|intros x Hx; left; exact Hx]|].
    destruct (find_container cid act) as [c|]; [|discriminate].
    inv_bind H r E. destruct r as [[w1 cons1] c1]. destruct (ckill_nc _ _ _ _ _ _ _ E) as [N1 Cc].
    destruct (IH _ _ _ _ _ _ H) as [N2 K2]. split; [eapply nc_trans; eauto|].
    intros x Hx. destruct (replace_container_fwd c1 act x Hx) as [A|A].
    + apply K2, A.
    + destruct (K2 c1 A) as [B|B]; [right; exists c1; auto|right; exact B].
Qed.

Lemma oom_killer_fwd C mx w cons act w' cons' act' :
  oom_killer C mx w cons act = Ok (w', cons', act') -> nc w w' /\ forall x, In x act -> kept x act'.
Proof.
  unfold oom_killer. intros H. inv_bind H r E. destruct r as [[w1 cons1] act1].
  destruct (kill_over_limit_fwd _ _ _ _ _ _ _ E) as [N1 K1].
  destruct (Qleb cons1 mx).
  - inversion H; subst. auto.
  - destruct (kill_until_fits_fwd _ _ _ _ _ _ _ _ _ H) as [N2 K2]. split; [eapply nc_trans; eauto|].
    intros x Hx. destruct (K1 x Hx) as [A|[y [A B]]].
    + apply K2, A.
    + destruct (K2 y A) as [D|D]; [right; exists y; auto|right; exact D].
Qed.

(* the container has just advanced past [o] and still has an operator to run *)
Definition past (c : container) (o : nat) : Prop :=
  (exists i, S i = c_opidx c /\ nth_error (c_ops c) i = Some o) /\ c_opidx c < length (c_ops c).

Lemma ctick_origin C w cons c w' cons' c' o :
  ctick C w cons c = Ok (w', cons', c') ->
  st_of w o <> Completed -> st_of w' o = Completed ->
  c_completed c' = true \/ past c' o.
Proof.
  unfold ctick. intros H Hb Ha.
  destruct (c_completed c); [inversion H; subst; contradiction|].
  destruct (c_frozen c); [inversion H; subst; contradiction|].
  destruct (nth_error (c_ops c) (c_opidx c)) as [op|] eqn:Nth; [|discriminate].
  inv_bind H wr E. destruct wr as [w1 rest].
  assert (Hb1 : st_of w1 o <> Completed).
  { destruct (c_rest c).
    - inversion E; subst. exact Hb.
    - inv_bind E w0 E0. inversion E; subst. intros X. apply Hb.
      eapply transition_nc; [|exact E0|exact X]. discriminate. }
  destruct rest as [|m rest']; [discriminate|].
  destruct (set_mem C c cons m) as [c1 cons1] eqn:Sm. apply set_mem_fields in Sm.
  destruct Sm as (So & Si & Sc).
  destruct (Qltb (c_ram c) m); [inversion H; subst; contradiction|].
  destruct rest' as [|m' rest'']; [|inversion H; subst; contradiction].
  inv_bind H w2 E2.
  destruct (Nat.eqb (S (c_opidx c)) (length (c_ops c))) eqn:Fin.
  - left. destruct (mark_completed C _ cons1 false) as [c2 cons2] eqn:M.
    apply mark_completed_completed in M. inversion H; subst. exact M.
  - right. inversion H; subst.
    destruct (transition_origin _ _ _ _ _ _ E2 Ha) as [X|[-> _]]; [contradiction|].
    unfold past. cbn [tick_elapsed with_pos c_opidx c_ops]. rewrite So. split.
    + exists (c_opidx c). split; [reflexivity|exact Nth].
    + apply Nat.eqb_neq in Fin. assert (c_opidx c < length (c_ops c)) by (apply nth_error_Some; congruence).
      lia.
Qed.

Lemma tick_active_origin C o : forall act w cons w' cons' act',
  tick_active C w cons act = Ok (w', cons', act') ->
  st_of w o <> Completed -> st_of w' o = Completed ->
  exists c', In c' act' /\ (c_completed c' = true \/ past c' o).
Proof.
  induction act as [|c t IH]; intros w cons w' cons' act' H Hb Ha; cbn [tick_active] in H.
  - inversion H; subst. contradiction.
  - inv_bind H r E. destruct r as [[w1 cons1] c1]. inv_bind H rt E2. destruct rt as [[w2 cons2] t2].
    inversion H; subst.
    destruct (ostate_eqb (st_of w1 o) Completed) eqn:Q.
    + apply ostate_eqb_eq in Q. exists c1. split; [left; reflexivity|]. eapply ctick_origin; eauto.
    + apply ostate_eqb_neq in Q. destruct (IH _ _ _ _ _ E2 Q Ha) as [c' [Hc' X]].
      exists c'. split; [right; exact Hc'|exact X].
Qed.

Lemma pool_tick_origin C w next p ss asgs w' next' p' res o :
  pool_tick C w next p ss asgs = Ok (w', next', p', res) ->
  st_of w o <> Completed -> st_of w' o = Completed ->
  res <> [] \/ exists c', In c' (p_active p') /\ c_completed c' = false /\ past c' o.
Proof.
  intros H Hb Ha. unfold pool_tick in H.
  inv_bind H r1 E1. destruct r1 as [[[w1 act1] sing1] cons1]. cbv beta iota in H.
  inv_bind H r2 E2. destruct r2 as [[[next2 acpu2] aram2] act2]. cbv beta iota in H.
  inv_bind H r3 E3. destruct r3 as [w3 sing3]. cbv beta iota in H. cbv zeta in H.
  inv_bind H r4 E4. destruct r4 as [[w4 cons4] act4]. cbv beta iota in H.
  inv_bind H r5 E5. destruct r5 as [[w5 cons5] act5]. cbv beta iota in H.
  injection H as Hw Hn Hp Hr. subst w5 p' res.
  assert (N1 : nc w w1).
  { destruct ss as [|s0 ss'].
    - inversion E1; subst. apply nc_refl.
    - inv_bind E1 u V. inv_bind E1 r A. destruct r as [[wa acta] singa]. inversion E1; subst.
      eapply apply_suspends_nc; eauto. }
  pose proof (tick_suspending_nc _ _ _ _ _ E3) as N3.
  destruct (oom_killer_fwd _ _ _ _ _ _ _ _ E5) as [N5 K5].
  assert (Hb3 : st_of w3 o <> Completed) by (intros X; apply Hb, N1, N3, X).
  assert (Ha4 : st_of w4 o = Completed) by (apply N5, Ha).
  destruct (tick_active_origin _ _ _ _ _ _ _ _ E4 Hb3 Ha4) as [c' [Hc' X]].
  assert (Res : forall y, In y act5 -> c_completed y = true ->
                map (result_of (p_id p)) (filter c_completed act5) <> []).
  { intros y Hy Cy Em. apply map_eq_nil in Em.
    assert (In y (filter c_completed act5)) by (apply filter_In; auto). rewrite Em in H. destruct H. }
  destruct (K5 c' Hc') as [A|[y [A B]]]; [|left; eapply Res; eauto].
  destruct (c_completed c') eqn:Cc; [left; eapply Res; eauto|].
  destruct X as [X|X]; [discriminate|]. right. exists c'. cbn [upd_pool p_active].
  split; [apply filter_In; split; [exact A|rewrite Cc; reflexivity]|]. auto.
Qed.

Lemma pools_tick_origin C ss asgs o : forall ps w next w' next' ps' res,
  pools_tick C w next ps ss asgs = Ok (w', next', ps', res) ->
  st_of w o <> Completed -> st_of w' o = Completed ->
  res <> [] \/ exists p' c', In p' ps' /\ In c' (p_active p') /\ c_completed c' = false /\ past c' o.
Proof.
  induction ps as [|p t IH]; intros w next w' next' ps' res H Hb Ha.
  - cbn in H. inversion H; subst. contradiction.
  - cbn [pools_tick] in H. cbv zeta in H.
    inv_bind H r1 E1. destruct r1 as [[[w1 next1] p1] res1]. cbv beta iota in H.
    inv_bind H r2 E2. destruct r2 as [[[w2 next2] t2] res2]. cbv beta iota in H.
    inversion H; subst.
    destruct (ostate_eqb (st_of w1 o) Completed) eqn:Q.
    + apply ostate_eqb_eq in Q. destruct (pool_tick_origin _ _ _ _ _ _ _ _ _ _ _ E1 Hb Q) as [R|[c' [A B]]].
      * left. intros Em. apply app_eq_nil in Em. tauto.
      * right. exists p1, c'. split; [left; reflexivity|]. auto.
    + apply ostate_eqb_neq in Q. destruct (IH _ _ _ _ _ _ E2 Q Ha) as [R|[p' [c' [A B]]]].
      * left. intros Em. apply app_eq_nil in Em. tauto.
      * right. exists p', c'. split; [right; exact A|exact B].
Qed.

Lemma exec_tick_origin C s ss asgs s' res o :
  exec_tick C s ss asgs = Ok (s', res) ->
  st_of (e_world s) o <> Completed -> st_of (e_world s') o = Completed ->
  res <> [] \/ exists p' c', In p' (e_pools s') /\ In c' (p_active p') /\ c_completed c' = false /\ past c' o.
Proof.
  unfold exec_tick. intros H Hb Ha. cbv zeta in H.
  match type of H with (if ?b then _ else _) = _ => destruct b end; [discriminate|].
  inv_bind H r E. destruct r as [[[w next] ps] res1]. cbv beta iota in H. inversion H; subst.
  cbn [e_world e_pools] in *. eapply pools_tick_origin; eauto.
Qed.

(* every container holds operators of one pipeline only *)
Definition mono_container (S : static) (c : container) : Prop :=
  forall k o1 o2, In o1 (c_ops c) -> In o2 (c_ops c) ->
                  In o1 (pd_order (pipe_of S k)) -> In o2 (pd_order (pipe_of S k)).

Lemma filter_not_full {A} (f : A -> bool) l :
  length (filter f l) <> length l -> exists x, In x l /\ f x = false.
Proof.
  induction l as [|h t IH]; intros L; [exfalso; apply L; reflexivity|].
  cbn [filter] in L. destruct (f h) eqn:E.
  - cbn [length] in L. destruct IH as [x [Hx Fx]]; [lia|]. exists x. split; [right|]; auto.
  - exists h. split; [left; reflexivity|exact E].
Qed.

Theorem finish_needs_result C e ss asgs e' res k :
  exec_tick C e ss asgs = Ok (e', res) ->
  counts_ok (cf_static C) (e_world e) k -> counts_ok (cf_static C) (e_world e') k ->
  (forall p c, In p (e_pools e') -> In c (p_active p) -> mono_container (cf_static C) c) ->
  allbusy (e_world e') (sown e') ->
  is_successful (cf_static C) (e_world e) k = false ->
  is_successful (cf_static C) (e_world e') k = true ->
  res <> [].
Proof.
  intros H Cb Ca Mono Busy Sb Sa.
  pose proof (proj1 (never_while_unfinished _ _ _ Ca) Sa) as All.
  assert (Ex : exists o, In o (pd_order (pipe_of (cf_static C) k)) /\ st_of (e_world e) o <> Completed).
  { unfold is_successful in Sb. rewrite (Cb Completed) in Sb. apply Z.eqb_neq in Sb.
    destruct (filter_not_full (fun o => ostate_eqb (st_of (e_world e) o) Completed)
                (pd_order (pipe_of (cf_static C) k))) as [o [Ho Fo]].
    { intros E. apply Sb. rewrite E. reflexivity. }
    exists o. split; [exact Ho|]. apply ostate_eqb_neq. exact Fo. }
  destruct Ex as [o [Ho Nb]].
  destruct (exec_tick_origin _ _ _ _ _ _ o H Nb (All o Ho)) as [R|(p' & c' & Hp' & Hc' & Cc & [[i [Ei Ni]] Lt])];
    [exact R|exfalso].
  set (o2 := nth (c_opidx c') (c_ops c') 0).
  assert (In2 : In o2 (c_ops c')) by (apply nth_In; exact Lt).
  assert (In1 : In o (c_ops c')) by (eapply nth_error_In; eauto).
  assert (Own : In o2 (sown e')).
  { unfold sown. apply in_flat_map. exists p'. split; [exact Hp'|]. unfold pown. apply in_or_app. left.
    unfold owns. apply in_flat_map. exists c'. split; [exact Hc'|]. unfold own. rewrite Cc.
    rewrite (skipn_cons_nth _ _ 0 Lt). left. reflexivity. }
  pose proof (All o2 (Mono p' c' Hp' Hc' k o o2 In1 In2 Ho)) as Done.
  destruct (Busy o2 Own) as [B|[B|B]]; congruence.
Qed.

(* the mk_assignment phase of a scheduler completes nothing *)
Lemma mk_assignment_nc C w a w' : mk_assignment C w a = Ok w' -> nc w w'.
Proof.
  unfold mk_assignment. intros H.
  destruct (Nat.eqb (length (a_ops a)) 0); [discriminate|].
  destruct (Z.leb (a_cpu a) 0); [discriminate|].
  destruct (Qleb (a_ram a) 0); [discriminate|].
  eapply transition_all_nc; [|exact H]. discriminate.
Qed.

(* at the level of the loop: the sweep of that very tick records the pipeline *)
Corollary finish_tick_has_result C a t s newp s1 lg p ss' w' :
  sim_tick C a t s newp = Ok (s1, lg) ->
  sched_step C a (sm_sched s) (sm_exec s) (sm_results s) newp = Ok (ss', w', tl_susp lg, tl_asgs lg) ->
  counts_ok (cf_static C) w' p -> counts_ok (cf_static C) (e_world (sm_exec s1)) p ->
  (forall q c, In q (e_pools (sm_exec s1)) -> In c (p_active q) -> mono_container (cf_static C) c) ->
  allbusy (e_world (sm_exec s1)) (sown (sm_exec s1)) ->
  is_successful (cf_static C) w' p = false ->
  is_successful (cf_static C) (e_world (sm_exec s1)) p = true ->
  In p (sm_outstanding s) \/ In p newp ->
  tl_results lg <> [] /\ In p (tl_finished lg).
Proof.
  intros H Hs Cb Ca Mono Busy Sb Sa Hout. apply sim_tick_inv in H.
  destruct H as (ss2 & w2 & e2 & Hs2 & He & _ & _ & Hf & Hx & _). rewrite Hs in Hs2.
  inversion Hs2; subst ss2 w2. subst e2.
  assert (R : tl_results lg <> []).
  { eapply (finish_needs_result C _ _ _ _ _ p He); eauto. }
  split; [exact R|]. rewrite Hf. unfold sweep. destruct (tl_results lg); [congruence|].
  apply filter_In. split; [apply add_all_In; exact Hout|exact Sa].
Qed.

(* ------------------------------------------------------------------------------------------ *)
(* Examples (non-vacuity) and the counterexample                                                *)
(* ------------------------------------------------------------------------------------------ *)
Module Examples.

(* a query pipeline with one operator arriving in tick 0, a batch pipeline with two chained
   operators arriving in tick 1; every operator takes two ticks; one pool; naive *)
Definition exS : static := mk_static [(Query, [[]]); (Batch, [[]; [0]])].
Definition exC : cfg :=
  {| cf_static := exS; cf_script := fun _ _ => [1%Q; 1%Q]; cf_tps := 10%Z; cf_overcommit := false;
     cf_multi := true; cf_rnd := fun x => x |}.
Definition ex_arrivals : list (list nat) := [[0]; [1]; []; []; []; []; []; []].
Definition ex_out : sim * list tick_log * option err :=
  Eval vm_compute in sim_run exC ANaive 0%Z (init_sim exC 1 4%Z 8%Q) ex_arrivals.
Definition ex_s : sim := fst (fst ex_out).
Definition ex_logs : list tick_log := snd (fst ex_out).

Example ex_run : sim_run exC ANaive 0%Z (init_sim exC 1 4%Z 8%Q) ex_arrivals = (ex_s, ex_logs, None).
Proof. vm_compute. reflexivity. Qed.

(* the recount of this run: the query finishes in tick 1 (latency 1), the batch pipeline is assigned
   in tick 2 (the pool was taken), runs ticks 2..5 and finishes in tick 5 (latency 4) *)
Example ex_recount :
  rc_arrived ex_logs = [0; 1] /\ rc_finished ex_logs = [(0, 1%Z); (1, 5%Z)] /\
  rc_latencies exC ex_logs (Some Query) = [1%Z] /\ rc_latencies exC ex_logs (Some Batch) = [4%Z] /\
  rc_latencies exC ex_logs (Some Interactive) = [] /\
  rc_assignments ex_logs = 2%Z /\ rc_suspensions ex_logs = 0%Z /\ rc_failures ex_logs = 0%Z /\
  rc_completed_containers ex_logs = 2%Z.
Proof. vm_compute. repeat split; reflexivity. Qed.

Example ex_stats_refine :
  let st := final_stats exC 1%Q ex_s in
  st_created st = 2%Z /\ st_completed st = 2%Z /\ st_assignments st = 2%Z /\ st_failures st = 0%Z /\
  st_query st = pipeline_stats 10%Z 1%Z [1%Z] /\ st_batch st = pipeline_stats 10%Z 1%Z [4%Z] /\
  st_interactive st = pipeline_stats 10%Z 0%Z [] /\
  st_all st = pipeline_stats 10%Z 2%Z [1%Z; 4%Z].
Proof.
  destruct (stats_refine _ _ _ _ _ _ _ _ ex_run 1%Q) as (_ & H1 & H2 & _ & H4 & _ & H6 & H7 & H8 & H9 & H10).
  destruct ex_recount as (_ & _ & R1 & R2 & R3 & R4 & _ & R6 & R7).
  cbv zeta. rewrite H1, H2, H4, H6, H7, H8, H9, H10, R1, R2, R3, R4, R6, R7.
  repeat split; reflexivity.
Qed.

Example ex_completed_once :
  NoDup (concat (map tl_finished ex_logs)) /\
  forall p tf, In (p, tf) (rc_finished ex_logs) -> (0 <= rc_arrival_tick ex_logs p <= tf)%Z.
Proof.
  destruct (completed_once _ _ _ _ _ _ _ _ ex_run) as (A & _ & B). split; [exact A|].
  intros p tf H. apply (B p tf H).
Qed.

(* ---- T4: a container that mixes two pipelines delays the record of the first ---- *)
Definition mxS : static := mk_static [(Batch, [[]]); (Batch, [[]])].
Definition mxC : cfg :=
  {| cf_static := mxS; cf_script := fun _ _ => [1%Q]; cf_tps := 10%Z; cf_overcommit := false;
     cf_multi := true; cf_rnd := fun x => x |}.
Definition mx_e0 : estate := init_estate mxC 1 4%Z 8%Q.
(* operator 0 is the only operator of pipeline 0, operator 1 the only one of pipeline 1 *)
Definition mx_a : asg :=
  {| a_ops := [0; 1]; a_cpu := 1%Z; a_ram := 4%Q; a_prio := Batch; a_pool := 0%Z |}.

(* Tick 1: operator 0 completes, pipeline 0 is successful, but no container finished: no result, the
   sweep does not run.  Tick 2: the container finishes; only now the sweep records pipeline 0, one tick
   (in general: the whole run time of the other pipeline's operators) late. *)
Definition mx_e1 : estate :=
  Eval vm_compute in match exec_step mxC mx_e0 [] [mx_a] with Ok (e, _) => e | Err _ => mx_e0 end.
Definition mx_e2 : estate :=
  Eval vm_compute in match exec_step mxC mx_e1 [] [] with Ok (e, _) => e | Err _ => mx_e0 end.
Definition mx_r : result :=
  {| r_cid := 0; r_ops := [0; 1]; r_cpu := 1%Z; r_ram := 4%Q; r_prio := Batch; r_pool := 0; r_err := false |}.
Definition mx_c1 : container :=
  Eval vm_compute in hd (new_container 0 [] 0%Z 0%Q Batch) (flat_map p_active (e_pools mx_e1)).
Definition mx_p1 : pool := Eval vm_compute in hd (new_pool 0 0%Z 0%Q) (e_pools mx_e1).

Theorem late_finish_refuted :
  exec_step mxC mx_e0 [] [mx_a] = Ok (mx_e1, []) /\
  is_successful mxS (e_world mx_e0) 0 = false /\
  is_successful mxS (e_world mx_e1) 0 = true /\
  sweep mxC (e_world mx_e1) [] [0; 1] = [] /\
  exec_step mxC mx_e1 [] [] = Ok (mx_e2, [mx_r]) /\
  sweep mxC (e_world mx_e2) [mx_r] [0; 1] = [0; 1] /\
  ~ (forall p c, In p (e_pools mx_e1) -> In c (p_active p) -> mono_container mxS c).
Proof.
  split; [vm_compute; reflexivity|]. split; [vm_compute; reflexivity|].
  split; [vm_compute; reflexivity|]. split; [reflexivity|].
  split; [vm_compute; reflexivity|]. split; [vm_compute; reflexivity|].
  intros M.
  assert (Hp : In mx_p1 (e_pools mx_e1)) by (vm_compute; left; reflexivity).
  assert (Hc : In mx_c1 (p_active mx_p1)) by (vm_compute; left; reflexivity).
  specialize (M mx_p1 mx_c1 Hp Hc 0 0 1).
  assert (X : In 1 (pd_order (pipe_of mxS 0))).
  { apply M; [vm_compute; left; reflexivity|vm_compute; right; left; reflexivity|
              vm_compute; left; reflexivity]. }
  vm_compute in X. destruct X as [X|[]]. discriminate.
Qed.

(* ---- T5: scripts [1;2] and [3], allocation 4 GB, alone in a pool of 8 GB ---- *)
Definition uS : static :=
  {| s_ops := [ {| od_pipe := 0; od_parents := [] |}; {| od_pipe := 0; od_parents := [0] |} ];
     s_pipes := [ mk_pdef 0 Batch [[]; [0]] ] |}.
Definition uw0 : world := {| w_st := [Assigned; Assigned]; w_cnt := [[0; 2; 0; 0; 0; 0]%Z] |}.
Definition uC : cfg :=
  {| cf_static := uS;
     cf_script := fun op _ => match op with O => [1; 2]%Q | _ => [3]%Q end;
     cf_tps := 100%Z; cf_overcommit := false; cf_multi := true; cf_rnd := fun x => x |}.
Definition up0 : pool :=
  {| p_id := 0; p_max_cpu := 4%Z; p_max_ram := 8%Q; p_avail_cpu := 3%Z; p_avail_ram := 4%Q;
     p_consumed := 0%Q; p_active := [new_container 7 [0; 1] 1%Z 4%Q Batch]; p_suspending := [];
     p_suspended := []; p_num_completed := 0%Z; p_tick_times := [] |}.

Example ex_uncontended :
  total uC [0; 1] 1%Z = 3 /\
  exists w p r,
    pool_quiet_run uC 3 uw0 1 up0 = Ok (w, 1, p, [[]; []; [r]]) /\
    r_err r = false /\ r_cid r = 7 /\ p_active p = [] /\ w_st w = [Completed; Completed].
Proof.
  split; [reflexivity|].
  destruct (uncontended_latency uC 7 [0; 1] 1%Z 4%Q Batch uw0 up0 1) as (w & p & r & H & A1 & A2 & _ & _ & _ & _ & _ & A3 & _ & A4).
  - intros x. reflexivity.
  - reflexivity.
  - reflexivity.
  - intros o [<- | [<- | []]]; reflexivity.
  - constructor; [intros [H | []]; discriminate|]. constructor; [intros []|]. constructor.
  - intros o [<- | [<- | []]]; cbn; lia.
  - intros [|[|k]] Hk p Hp; cbn in Hk, Hp.
    + destruct Hp.
    + destruct Hp as [<- | []]. right. exists 0. split; [lia | reflexivity].
    + lia.
  - intros [|[|k]] Hk; cbn in Hk; try lia; discriminate.
  - intros [|[|k]] j Hk Hj; cbn in Hk; try lia.
    + destruct j as [|[|j]]; cbn in Hj; try lia; cbn; unfold Qle; cbn; lia.
    + destruct j as [|j]; cbn in Hj; try lia; cbn; unfold Qle; cbn; lia.
  - cbn. lia.
  - unfold Qle; cbn; lia.
  - unfold Qle; cbn; lia.
  - exists w, p, r. change (total uC [0; 1] 1%Z) with 3 in H. cbn [Nat.sub repeat app] in H.
    split; [exact H|]. split; [exact A1|]. split; [exact A2|]. split; [exact A3|].
    vm_compute in H. inversion H; subst. reflexivity.
Qed.

End Examples.

