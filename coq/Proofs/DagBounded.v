(* Independent cross-check of the general iteration theorems: every DAG on at most 6 nodes,
   by computation (a bounded theorem, labelled as such). *)
From Coq Require Import List Arith Bool ZArith.
Import ListNotations.
From Eudoxia Require Import Model.Types Model.Dag.

(* all subsets of [0..j), as ascending lists *)
Fixpoint subsets (j : nat) : list (list nat) :=
  match j with
  | O => [[]]
  | S j' => let r := subsets j' in r ++ map (fun s => s ++ [j']) r
  end.

(* all DAGs on n nodes whose parents are earlier nodes *)
Fixpoint all_dags (n : nat) : list dag :=
  match n with
  | O => [[]]
  | S n' => flat_map (fun g => map (fun ps => g ++ [ps]) (subsets n')) (all_dags n')
  end.

Fixpoint index_of (x : nat) (l : list nat) : nat :=
  match l with [] => 0 | y :: t => if Nat.eqb x y then 0 else S (index_of x t) end.

(* visits every node exactly once, parents strictly before children *)
Definition iter_ok (g : dag) : bool :=
  let it := iterate g in
  Nat.eqb (length it) (length g)
  && forallb (fun x => memb x it) (nodes g)
  && nodupb it
  && forallb (fun j => forallb (fun p => Nat.ltb (index_of p it) (index_of j it)) (parents g j)) (nodes g).

Definition all_dags_upto (n : nat) : list dag := flat_map all_dags (seq 0 (S n)).

Lemma dag_iter_ok_le6 : forallb iter_ok (all_dags_upto 6) = true.
Proof. vm_compute. reflexivity. Qed.

Lemma all_dags_upto_6_count : Z.of_nat (length (all_dags_upto 6)) = 33868%Z.
Proof. vm_compute. reflexivity. Qed.
