(* C07: reproducibility. In the implementation container ids come from a process-global counter, so a
   second simulation in the same process starts numbering where the first one stopped. Every Coq
   definition is a function, so "same input, same output" is trivial; what could fail is dependence on
   the value the container counter starts from. This file proves that it does not matter: shifting
   every container id by [k] (in the pools, the counter, the suspend commands, the scheduler state and
   the previous results) shifts every id in the answer by [k] and changes nothing else.
   E1 pool_tick, E2 exec_tick/exec_step, E3 exec_run, E4 sched_step/sim_tick/sim_run/final_stats,
   E5 examples. Everything holds for an arbitrary [C : cfg]. *)
From Coq Require Import ZArith QArith List Bool Arith Lia.
Import ListNotations.
From Eudoxia Require Import Num.Rnd64 Model.Types Model.Dag Model.Lifecycle Model.Container Model.Pool
  Model.Executor Model.Sched Model.Simulator Proofs.ListFacts.
Close Scope Q_scope.
Close Scope Z_scope.

(* ====================================================================== *)
(* 0. the shift and generic facts                                         *)
(* ====================================================================== *)

Definition map_res {A B} (f : A -> B) (r : res A) : res B :=
  match r with Ok a => Ok (f a) | Err e => Err e end.

Definition shift_c (k : nat) (c : container) : container :=
  {| c_id := k + c_id c; c_ops := c_ops c; c_cpu := c_cpu c; c_ram := c_ram c; c_prio := c_prio c;
     c_opidx := c_opidx c; c_rest := c_rest c; c_frozen := c_frozen c; c_mem := c_mem c;
     c_can_suspend := c_can_suspend c; c_completed := c_completed c; c_error := c_error c;
     c_ticks := c_ticks c; c_susp_left := c_susp_left c |}.

Definition shift_pool (k : nat) (p : pool) : pool :=
  {| p_id := p_id p; p_max_cpu := p_max_cpu p; p_max_ram := p_max_ram p;
     p_avail_cpu := p_avail_cpu p; p_avail_ram := p_avail_ram p; p_consumed := p_consumed p;
     p_active := map (shift_c k) (p_active p);
     p_suspending := map (shift_c k) (p_suspending p);
     p_suspended := map (shift_c k) (p_suspended p);
     p_num_completed := p_num_completed p; p_tick_times := p_tick_times p |}.

Definition shift_estate (k : nat) (s : estate) : estate :=
  {| e_world := e_world s; e_pools := map (shift_pool k) (e_pools s); e_next := k + e_next s |}.

Definition shift_susp (k : nat) (x : susp) : susp :=
  {| su_cid := k + su_cid x; su_pool := su_pool x |}.

Definition shift_result (k : nat) (r : result) : result :=
  {| r_cid := k + r_cid r; r_ops := r_ops r; r_cpu := r_cpu r; r_ram := r_ram r; r_prio := r_prio r;
     r_pool := r_pool r; r_err := r_err r |}.

Lemma eqb_add_l k a b : Nat.eqb (k + a) (k + b) = Nat.eqb a b.
Proof.
  destruct (Nat.eqb a b) eqn:E.
  - apply Nat.eqb_eq in E. subst. apply Nat.eqb_refl.
  - apply Nat.eqb_neq in E. apply Nat.eqb_neq. lia.
Qed.

Lemma filter_map_comm {A B} (f : B -> bool) (f' : A -> bool) (g : A -> B) (l : list A) :
  (forall x, f (g x) = f' x) -> filter f (map g l) = map g (filter f' l).
Proof.
  intros H. induction l as [|h t IH]; [reflexivity|].
  cbn [map filter]. rewrite H. destruct (f' h); cbn [map]; rewrite IH; reflexivity.
Qed.

Lemma fold_left_map {A B X} (f : X -> B -> X) (g : A -> B) (l : list A) (x : X) :
  fold_left f (map g l) x = fold_left (fun a y => f a (g y)) l x.
Proof. revert x; induction l as [|h t IH]; intros x; [reflexivity|]. cbn [map fold_left]. apply IH. Qed.

Lemma forallb_map {A B} (f : B -> bool) (g : A -> B) (l : list A) :
  forallb f (map g l) = forallb (fun x => f (g x)) l.
Proof. induction l as [|h t IH]; [reflexivity|]. cbn [map forallb]. rewrite IH. reflexivity. Qed.

Lemma set_nth_map {A B} (g : A -> B) (l : list A) i v :
  set_nth (map g l) i (g v) = map g (set_nth l i v).
Proof.
  revert i; induction l as [|h t IH]; intros [|i]; cbn [map set_nth]; try reflexivity.
  rewrite IH. reflexivity.
Qed.

Lemma map_res_bind {A B D} (f : B -> D) (r : res A) (g : A -> res B) :
  map_res f (bind r g) = bind r (fun a => map_res f (g a)).
Proof. destruct r; reflexivity. Qed.

Lemma bind_map_res {A B D} (f : A -> B) (r : res A) (g : B -> res D) :
  bind (map_res f r) g = bind r (fun a => g (f a)).
Proof. destruct r; reflexivity. Qed.

(* ====================================================================== *)
(* 1. containers never read their id                                      *)
(* ====================================================================== *)

Definition sh_wqc (k : nat) (x : world * Q * container) : world * Q * container :=
  let '(w, q, c) := x in (w, q, shift_c k c).
Definition sh_wc (k : nat) (x : world * container) : world * container :=
  let '(w, c) := x in (w, shift_c k c).

Lemma ctick_shift C k w cons c :
  ctick C w cons (shift_c k c) = map_res (sh_wqc k) (ctick C w cons c).
Proof.
  unfold ctick.
  cbn [shift_c c_id c_ops c_cpu c_ram c_prio c_opidx c_rest c_frozen c_mem c_can_suspend c_completed
       c_error c_ticks c_susp_left].
  destruct (c_completed c); [reflexivity|].
  destruct (c_frozen c); [reflexivity|].
  destruct (nth_error (c_ops c) (c_opidx c)) as [op|]; [|reflexivity].
  destruct (match c_rest c with
            | Some r => Ok (w, r)
            | None => do w' <- transition (cf_static C) w op Running; Ok (w', cf_script C op (c_cpu c))
            end) as [[w1 rest]|e]; [|reflexivity].
  cbn [bind].
  destruct rest as [|m rest']; [reflexivity|].
  unfold set_mem, mark_completed, set_mem.
  cbn [shift_c c_id c_ops c_cpu c_ram c_prio c_opidx c_rest c_frozen c_mem c_can_suspend c_completed
       c_error c_ticks c_susp_left].
  destruct (Qltb (c_ram c) m); [reflexivity|].
  destruct rest' as [|m' rest'']; [|reflexivity].
  destruct (transition (cf_static C) w1 op Completed) as [w2|e]; [|reflexivity].
  cbn [bind].
  destruct (Nat.eqb (S (c_opidx c)) (length (c_ops c))); reflexivity.
Qed.

Lemma ckill_shift C k w cons c :
  ckill C w cons (shift_c k c) = map_res (sh_wqc k) (ckill C w cons c).
Proof.
  unfold ckill.
  cbn [shift_c c_id c_ops c_cpu c_ram c_prio c_opidx c_rest c_frozen c_mem c_can_suspend c_completed
       c_error c_ticks c_susp_left].
  destruct (c_completed c); [reflexivity|].
  destruct (transition_all (cf_static C) w (skipn (c_opidx c) (c_ops c)) Failed) as [w'|e];
    [|reflexivity].
  reflexivity.
Qed.

Lemma csuspend_shift C k w c :
  csuspend C w (shift_c k c) = map_res (sh_wc k) (csuspend C w c).
Proof.
  unfold csuspend.
  cbn [shift_c c_id c_ops c_cpu c_ram c_prio c_opidx c_rest c_frozen c_mem c_can_suspend c_completed
       c_error c_ticks c_susp_left].
  destruct (transition_all (cf_static C) w (skipn (c_opidx c) (c_ops c)) Suspending) as [w'|e];
    reflexivity.
Qed.

Lemma csuspend_tick_shift C k w c :
  csuspend_tick C w (shift_c k c) = map_res (sh_wc k) (csuspend_tick C w c).
Proof.
  unfold csuspend_tick.
  cbn [shift_c c_id c_ops c_cpu c_ram c_prio c_opidx c_rest c_frozen c_mem c_can_suspend c_completed
       c_error c_ticks c_susp_left].
  destruct (Z.eqb (c_susp_left c - 1) 0); [|reflexivity].
  destruct (transition_all (cf_static C) w (skipn (c_opidx c) (c_ops c)) Pending) as [w'|e];
    reflexivity.
Qed.

Lemma new_container_shift k id ops cpu ram pr :
  new_container (k + id) ops cpu ram pr = shift_c k (new_container id ops cpu ram pr).
Proof. reflexivity. Qed.

(* ====================================================================== *)
(* 2. E1: one pool tick                                                   *)
(* ====================================================================== *)

Lemma find_container_shift k cid l :
  find_container (k + cid) (map (shift_c k) l) = option_map (shift_c k) (find_container cid l).
Proof.
  unfold find_container. induction l as [|c t IH]; [reflexivity|].
  cbn [map find shift_c c_id]. rewrite eqb_add_l. destruct (Nat.eqb (c_id c) cid); [reflexivity|exact IH].
Qed.

Lemma remove_container_shift k cid l :
  remove_container (k + cid) (map (shift_c k) l) = map (shift_c k) (remove_container cid l).
Proof.
  unfold remove_container. apply filter_map_comm. intros c. cbn [shift_c c_id].
  rewrite eqb_add_l. reflexivity.
Qed.

Lemma replace_container_shift k c' l :
  replace_container (shift_c k c') (map (shift_c k) l) = map (shift_c k) (replace_container c' l).
Proof.
  induction l as [|c t IH]; [reflexivity|].
  cbn [map replace_container]. change (c_id (shift_c k c)) with (k + c_id c).
  change (c_id (shift_c k c')) with (k + c_id c'). rewrite eqb_add_l.
  destruct (Nat.eqb (c_id c) (c_id c')); [reflexivity|]. rewrite IH. reflexivity.
Qed.

Lemma verify_suspends_shift k act ss :
  verify_suspends (map (shift_c k) act) (map (shift_susp k) ss) = verify_suspends act ss.
Proof.
  induction ss as [|s t IH]; [reflexivity|].
  cbn [map verify_suspends shift_susp su_cid]. rewrite find_container_shift.
  destruct (find_container (su_cid s) act) as [c|]; [|reflexivity].
  cbn [option_map shift_c c_can_suspend]. destruct (c_can_suspend c); [exact IH|reflexivity].
Qed.

Definition sh_wll (k : nat) (x : world * list container * list container) :=
  let '(w, a, s) := x in (w, map (shift_c k) a, map (shift_c k) s).

Lemma apply_suspends_shift C k ss : forall w act sing,
  apply_suspends C w (map (shift_c k) act) (map (shift_c k) sing) (map (shift_susp k) ss) =
  map_res (sh_wll k) (apply_suspends C w act sing ss).
Proof.
  induction ss as [|s t IH]; intros w act sing; [reflexivity|].
  cbn [map apply_suspends shift_susp su_cid]. rewrite find_container_shift.
  destruct (find_container (su_cid s) act) as [c|]; [|reflexivity].
  cbn [option_map]. rewrite csuspend_shift.
  destruct (csuspend C w c) as [[w' c']|e]; [|reflexivity].
  cbn [map_res sh_wc bind]. rewrite remove_container_shift.
  change (map (shift_c k) sing ++ [shift_c k c']) with (map (shift_c k) sing ++ map (shift_c k) [c']).
  rewrite <- map_app. apply IH.
Qed.

Definition sh_asg (k : nat) (x : nat * Z * Q * list container) :=
  let '(n, a, r, l) := x in (k + n, a, r, map (shift_c k) l).

Lemma apply_assignments_shift C k asgs : forall next acpu aram act,
  apply_assignments C (k + next) acpu aram (map (shift_c k) act) asgs =
  map_res (sh_asg k) (apply_assignments C next acpu aram act asgs).
Proof.
  induction asgs as [|a t IH]; intros next acpu aram act; [reflexivity|].
  cbn [apply_assignments]. destruct (opcount_ok C a); [|reflexivity].
  rewrite new_container_shift.
  change [shift_c k (new_container next (a_ops a) (a_cpu a) (a_ram a) (a_prio a))]
    with (map (shift_c k) [new_container next (a_ops a) (a_cpu a) (a_ram a) (a_prio a)]).
  rewrite <- map_app. rewrite <- Nat.add_succ_r. apply IH.
Qed.

Definition sh_wl (k : nat) (x : world * list container) :=
  let '(w, l) := x in (w, map (shift_c k) l).
Definition sh_wql (k : nat) (x : world * Q * list container) :=
  let '(w, q, l) := x in (w, q, map (shift_c k) l).

Lemma tick_suspending_shift C k sing : forall w,
  tick_suspending C w (map (shift_c k) sing) = map_res (sh_wl k) (tick_suspending C w sing).
Proof.
  induction sing as [|c t IH]; intros w; [reflexivity|].
  cbn [map tick_suspending]. rewrite csuspend_tick_shift.
  destruct (csuspend_tick C w c) as [[w' c']|e]; [|reflexivity].
  cbn [map_res sh_wc bind]. rewrite IH.
  destruct (tick_suspending C w' t) as [[w'' t']|e]; reflexivity.
Qed.

Lemma tick_active_shift C k act : forall w cons,
  tick_active C w cons (map (shift_c k) act) = map_res (sh_wql k) (tick_active C w cons act).
Proof.
  induction act as [|c t IH]; intros w cons; [reflexivity|].
  cbn [map tick_active]. rewrite ctick_shift.
  destruct (ctick C w cons c) as [[[w' cons'] c']|e]; [|reflexivity].
  cbn [map_res sh_wqc bind]. rewrite IH.
  destruct (tick_active C w' cons' t) as [[[w'' cons''] t']|e]; reflexivity.
Qed.

Lemma kill_over_limit_shift C k act : forall w cons,
  kill_over_limit C w cons (map (shift_c k) act) = map_res (sh_wql k) (kill_over_limit C w cons act).
Proof.
  induction act as [|c t IH]; intros w cons; [reflexivity|].
  cbn [map kill_over_limit].
  assert (H : (if Qltb (c_ram (shift_c k c)) (c_mem (shift_c k c))
               then ckill C w cons (shift_c k c) else Ok (w, cons, shift_c k c))
              = map_res (sh_wqc k) (if Qltb (c_ram c) (c_mem c) then ckill C w cons c else Ok (w, cons, c))).
  { cbn [shift_c c_ram c_mem]. destruct (Qltb (c_ram c) (c_mem c)); [apply ckill_shift|reflexivity]. }
  rewrite H. clear H.
  destruct (if Qltb (c_ram c) (c_mem c) then ckill C w cons c else Ok (w, cons, c))
    as [[[w' cons'] c']|e]; [|reflexivity].
  cbn [map_res sh_wqc bind]. rewrite IH.
  destruct (kill_over_limit C w' cons' t) as [[[w'' cons''] t']|e]; reflexivity.
Qed.

(* the victim order: scores do not depend on ids, the sort compares scores only *)
Definition sh_key (k : nat) (x : Q * nat) : Q * nat := (fst x, k + snd x).

Lemma insert_desc_shift k x l :
  insert_desc (sh_key k x) (map (sh_key k) l) = map (sh_key k) (insert_desc x l).
Proof.
  induction l as [|y t IH]; [reflexivity|].
  cbn [map insert_desc]. change (fst (sh_key k x)) with (fst x). change (fst (sh_key k y)) with (fst y).
  destruct (Qltb (fst x) (fst y)); [|reflexivity].
  cbn [map]. rewrite IH. reflexivity.
Qed.

Lemma sort_desc_shift k l : sort_desc (map (sh_key k) l) = map (sh_key k) (sort_desc l).
Proof.
  unfold sort_desc. induction l as [|x t IH]; [reflexivity|].
  cbn [map fold_right]. rewrite IH. apply insert_desc_shift.
Qed.

Lemma victims_order_shift C k act :
  victims_order C (map (shift_c k) act) = map (Nat.add k) (victims_order C act).
Proof.
  unfold victims_order.
  rewrite (filter_map_comm scorable scorable (shift_c k)) by (intros c; reflexivity).
  rewrite map_map.
  rewrite (map_ext (fun x => (score C (shift_c k x), c_id (shift_c k x)))
                   (fun x => sh_key k (score C x, c_id x))) by (intros c; reflexivity).
  rewrite <- (map_map (fun c => (score C c, c_id c)) (sh_key k)).
  rewrite sort_desc_shift. rewrite !map_map. apply map_ext. intros x. reflexivity.
Qed.

Lemma kill_until_fits_shift C k mr order : forall w cons act,
  kill_until_fits C mr w cons (map (shift_c k) act) (map (Nat.add k) order) =
  map_res (sh_wql k) (kill_until_fits C mr w cons act order).
Proof.
  induction order as [|cid t IH]; intros w cons act; [reflexivity|].
  cbn [map kill_until_fits]. destruct (Qleb cons mr); [reflexivity|].
  rewrite find_container_shift.
  destruct (find_container cid act) as [c|]; [|reflexivity].
  cbn [option_map]. rewrite ckill_shift.
  destruct (ckill C w cons c) as [[[w' cons'] c']|e]; [|reflexivity].
  cbn [map_res sh_wqc bind]. rewrite replace_container_shift. apply IH.
Qed.

Lemma oom_killer_shift C k mr w cons act :
  oom_killer C mr w cons (map (shift_c k) act) = map_res (sh_wql k) (oom_killer C mr w cons act).
Proof.
  unfold oom_killer. rewrite kill_over_limit_shift.
  destruct (kill_over_limit C w cons act) as [[[w1 cons1] act1]|e]; [|reflexivity].
  cbn [map_res sh_wql bind]. destruct (Qleb cons1 mr); [reflexivity|].
  rewrite victims_order_shift. apply kill_until_fits_shift.
Qed.

Lemma reconcile_shift C k act : reconcile C (map (shift_c k) act) = reconcile C act.
Proof. unfold reconcile. rewrite map_map. reflexivity. Qed.

Lemma result_of_shift k pid c : result_of pid (shift_c k c) = shift_result k (result_of pid c).
Proof. reflexivity. Qed.

Definition sh_ptick (k : nat) (x : world * nat * pool * list result) :=
  let '(w, n, p, r) := x in (w, k + n, shift_pool k p, map (shift_result k) r).

Lemma sumZ_cpu_shift k l : sumZ (map c_cpu (map (shift_c k) l)) = sumZ (map c_cpu l).
Proof. rewrite map_map. reflexivity. Qed.

Lemma fold_ram_shift k l (a : Q) :
  fold_left (fun a c => (a + c_ram c)%Q) (map (shift_c k) l) a = fold_left (fun a c => (a + c_ram c)%Q) l a.
Proof. rewrite fold_left_map. reflexivity. Qed.

Theorem pool_tick_shift C k w next p ss asgs :
  pool_tick C w (k + next) (shift_pool k p) (map (shift_susp k) ss) asgs =
  map_res (sh_ptick k) (pool_tick C w next p ss asgs).
Proof.
  unfold pool_tick.
  cbn [shift_pool p_id p_max_cpu p_max_ram p_avail_cpu p_avail_ram p_consumed p_active p_suspending
       p_suspended p_num_completed p_tick_times].
  (* phase 1 *)
  set (ph1 := match ss with
              | [] => Ok (w, p_active p, p_suspending p, p_consumed p)
              | _ :: _ =>
                  do _ <- verify_suspends (p_active p) ss;
                  do r <- apply_suspends C w (p_active p) (p_suspending p) ss;
                  let '(w', act, sing) := r in Ok (w', act, sing, reconcile C act)
              end).
  assert (H1 : match map (shift_susp k) ss with
               | [] => Ok (w, map (shift_c k) (p_active p), map (shift_c k) (p_suspending p), p_consumed p)
               | _ :: _ =>
                   do _ <- verify_suspends (map (shift_c k) (p_active p)) (map (shift_susp k) ss);
                   do r <- apply_suspends C w (map (shift_c k) (p_active p))
                             (map (shift_c k) (p_suspending p)) (map (shift_susp k) ss);
                   let '(w', act, sing) := r in Ok (w', act, sing, reconcile C act)
               end
               = map_res (fun x => let '(w1, a, s, q) := x in (w1, map (shift_c k) a, map (shift_c k) s, q)) ph1).
  { subst ph1. destruct ss as [|s0 ss0]; [reflexivity|].
    rewrite verify_suspends_shift, apply_suspends_shift.
    cbn [map]. 
    destruct (verify_suspends (p_active p) (s0 :: ss0)) as [u|e]; [|reflexivity].
    cbn [bind].
    destruct (apply_suspends C w (p_active p) (p_suspending p) (s0 :: ss0)) as [[[w' act] sing]|e];
      [|reflexivity].
    cbn [map_res sh_wll bind]. rewrite reconcile_shift. reflexivity. }
  rewrite H1. clear H1.
  destruct ph1 as [[[[w1 act1] sing1] cons1]|e]; [|reflexivity].
  cbn [map_res bind].
  (* phase 2 *)
  set (ph2 := match asgs with
              | [] => Ok (next, p_avail_cpu p, p_avail_ram p, act1)
              | _ :: _ =>
                  do _ <- verify_assignments C p asgs;
                  apply_assignments C next (p_avail_cpu p) (p_avail_ram p) act1 asgs
              end).
  assert (H2 : match asgs with
               | [] => Ok (k + next, p_avail_cpu p, p_avail_ram p, map (shift_c k) act1)
               | _ :: _ =>
                   do _ <- verify_assignments C (shift_pool k p) asgs;
                   apply_assignments C (k + next) (p_avail_cpu p) (p_avail_ram p) (map (shift_c k) act1) asgs
               end = map_res (sh_asg k) ph2).
  { subst ph2. destruct asgs as [|a0 asgs0]; [reflexivity|].
    change (verify_assignments C (shift_pool k p) (a0 :: asgs0))
      with (verify_assignments C p (a0 :: asgs0)).
    destruct (verify_assignments C p (a0 :: asgs0)) as [u|e]; [|reflexivity].
    cbn [bind]. apply apply_assignments_shift. }
  match goal with
  | |- context [bind (match asgs with [] => ?a | _ :: _ => ?b end)] =>
      change (match asgs with [] => a | _ :: _ => b end) with
        (match asgs with
         | [] => Ok (k + next, p_avail_cpu p, p_avail_ram p, map (shift_c k) act1)
         | _ :: _ =>
             do _ <- verify_assignments C (shift_pool k p) asgs;
             apply_assignments C (k + next) (p_avail_cpu p) (p_avail_ram p) (map (shift_c k) act1) asgs
         end)
  end.
  rewrite H2. clear H2.
  destruct ph2 as [[[[next2 acpu2] aram2] act2]|e]; [|reflexivity].
  cbn [map_res sh_asg bind].
  (* phase 3 *)
  rewrite tick_suspending_shift.
  destruct (tick_suspending C w1 sing1) as [[w3 sing3]|e]; [|reflexivity].
  cbn [map_res sh_wl bind].
  (* phase 4 *)
  rewrite tick_active_shift.
  destruct (tick_active C w3 cons1 act2) as [[[w4 cons4] act4]|e]; [|reflexivity].
  cbn [map_res sh_wql bind].
  (* phase 5 *)
  rewrite oom_killer_shift.
  destruct (oom_killer C (p_max_ram p) w4 cons4 act4) as [[[w5 cons5] act5]|e]; [|reflexivity].
  cbn [map_res sh_wql bind].
  (* phase 6, 7 *)
  cbv zeta.
  rewrite (filter_map_comm is_suspended is_suspended (shift_c k)) by (intros c; reflexivity).
  rewrite (filter_map_comm c_completed c_completed (shift_c k)) by (intros c; reflexivity).
  rewrite (filter_map_comm (fun c => negb (is_suspended c)) (fun c => negb (is_suspended c)) (shift_c k))
    by (intros c; reflexivity).
  rewrite (filter_map_comm (fun c => negb (c_completed c)) (fun c => negb (c_completed c)) (shift_c k))
    by (intros c; reflexivity).
  rewrite (filter_map_comm (fun c => negb (c_error c)) (fun c => negb (c_error c)) (shift_c k))
    by (intros c; reflexivity).
  rewrite !sumZ_cpu_shift, !fold_ram_shift, reconcile_shift, map_length.
  unfold sh_ptick, upd_pool, shift_pool.
  cbn [p_id p_max_cpu p_max_ram p_avail_cpu p_avail_ram p_consumed p_active p_suspending
       p_suspended p_num_completed p_tick_times].
  rewrite <- map_app. rewrite !map_map.
  destruct (filter c_completed act5); reflexivity.
Qed.

(* ====================================================================== *)
(* 3. E2: the executor                                                    *)
(* ====================================================================== *)

Definition sh_pstick (k : nat) (x : world * nat * list pool * list result) :=
  let '(w, n, ps, r) := x in (w, k + n, map (shift_pool k) ps, map (shift_result k) r).

Lemma pools_tick_shift C k ss asgs ps : forall w next,
  pools_tick C w (k + next) (map (shift_pool k) ps) (map (shift_susp k) ss) asgs =
  map_res (sh_pstick k) (pools_tick C w next ps ss asgs).
Proof.
  induction ps as [|p t IH]; intros w next; [reflexivity|].
  cbn [map pools_tick]. change (p_id (shift_pool k p)) with (p_id p).
  rewrite (filter_map_comm (fun s => (su_pool s =? Z.of_nat (p_id p))%Z)
             (fun s => (su_pool s =? Z.of_nat (p_id p))%Z) (shift_susp k)) by (intros s; reflexivity).
  rewrite pool_tick_shift.
  destruct (pool_tick C w next p (filter (fun s => (su_pool s =? Z.of_nat (p_id p))%Z) ss)
              (filter (fun a => (a_pool a =? Z.of_nat (p_id p))%Z) asgs)) as [[[[w' next'] p'] res]|e];
    [|reflexivity].
  cbn [map_res sh_ptick bind]. rewrite IH.
  destruct (pools_tick C w' next' t ss asgs) as [[[[w'' next''] t'] res']|e]; [|reflexivity].
  cbn [map_res sh_pstick bind map]. rewrite map_app. reflexivity.
Qed.

Definition sh_etick (k : nat) (x : estate * list result) :=
  let '(s, r) := x in (shift_estate k s, map (shift_result k) r).

Theorem exec_tick_shift C k s ss asgs :
  exec_tick C (shift_estate k s) (map (shift_susp k) ss) asgs =
  map_res (sh_etick k) (exec_tick C s ss asgs).
Proof.
  unfold exec_tick. cbn [shift_estate e_world e_pools e_next].
  rewrite map_length, forallb_map. cbn [shift_susp su_pool].
  destruct (negb (forallb (fun x => pool_in_range (length (e_pools s)) (su_pool x)) ss
                  && forallb (fun a => pool_in_range (length (e_pools s)) (a_pool a)) asgs));
    [reflexivity|].
  rewrite pools_tick_shift.
  destruct (pools_tick C (e_world s) (e_next s) (e_pools s) ss asgs) as [[[[w next] ps] res]|e];
    reflexivity.
Qed.

Theorem exec_step_shift C k s ss asgs :
  exec_step C (shift_estate k s) (map (shift_susp k) ss) asgs =
  map_res (sh_etick k) (exec_step C s ss asgs).
Proof.
  unfold exec_step. cbn [shift_estate e_world e_pools e_next].
  destruct (mk_assignments C (e_world s) asgs) as [w|e]; [|reflexivity].
  cbn [bind].
  apply (exec_tick_shift C k {| e_world := w; e_pools := e_pools s; e_next := e_next s |}).
Qed.

(* ====================================================================== *)
(* 4. E3: a whole executor run                                            *)
(* ====================================================================== *)

(* the executor driven by a list of per-tick commands: the final state and the results of every tick,
   or the first error *)
Fixpoint exec_run (C : cfg) (s : estate) (cmds : list (list susp * list asg))
  : res (estate * list (list result)) :=
  match cmds with
  | [] => Ok (s, [])
  | (ss, asgs) :: t =>
      do r <- exec_step C s ss asgs;
      let '(s', res) := r in
      do rt <- exec_run C s' t;
      let '(sf, rest) := rt in
      Ok (sf, res :: rest)
  end.

Definition shift_cmd (k : nat) (c : list susp * list asg) : list susp * list asg :=
  (map (shift_susp k) (fst c), snd c).

Definition sh_erun (k : nat) (x : estate * list (list result)) :=
  let '(s, rs) := x in (shift_estate k s, map (map (shift_result k)) rs).

Theorem exec_run_shift C k cmds : forall s,
  exec_run C (shift_estate k s) (map (shift_cmd k) cmds) = map_res (sh_erun k) (exec_run C s cmds).
Proof.
  induction cmds as [|[ss asgs] t IH]; intros s; [reflexivity|].
  cbn [map exec_run shift_cmd fst snd]. rewrite exec_step_shift.
  destruct (exec_step C s ss asgs) as [[s' res]|e]; [|reflexivity].
  cbn [map_res sh_etick bind]. rewrite IH.
  destruct (exec_run C s' t) as [[sf rest]|e]; reflexivity.
Qed.

(* ====================================================================== *)
(* 5. E4: the schedulers                                                  *)
(* ====================================================================== *)

Definition shift_retry (k : nat) (r : retry) : retry :=
  {| rt_ram := rt_ram r; rt_cpu := rt_cpu r; rt_err := rt_err r; rt_cid := k + rt_cid r;
     rt_pool := rt_pool r |}.
Definition shift_job (k : nat) (j : job) : job :=
  {| j_prio := j_prio j; j_pipe := j_pipe j; j_ops := j_ops j;
     j_retry := option_map (shift_retry k) (j_retry j) |}.
Definition shift_kv (k : nat) (x : nat * job) : nat * job := (k + fst x, shift_job k (snd x)).

Definition shift_sstate (k : nat) (s : sstate) : sstate :=
  {| ss_queue := ss_queue s; ss_fail := ss_fail s;
     ss_q := map (shift_job k) (ss_q s); ss_i := map (shift_job k) (ss_i s);
     ss_b := map (shift_job k) (ss_b s);
     ss_suspending := map (shift_kv k) (ss_suspending s);
     ss_requeued := map (Nat.add k) (ss_requeued s);
     ss_oom := ss_oom s |}.

Definition sh_sched (k : nat) (x : sstate * world * list susp * list asg) :=
  let '(s, w, su, a) := x in (shift_sstate k s, w, map (shift_susp k) su, a).

Lemma flat_map_map {A B D} (f : B -> list D) (g : A -> B) (l : list A) :
  flat_map f (map g l) = flat_map (fun x => f (g x)) l.
Proof. induction l as [|h t IH]; [reflexivity|]. cbn [map flat_map]. rewrite IH. reflexivity. Qed.

Lemma flat_map_map_out {A B D} (f : A -> list B) (f' : A -> list D) (g : B -> D) (l : list A) :
  (forall x, f' x = map g (f x)) -> flat_map f' l = map g (flat_map f l).
Proof.
  intros H. induction l as [|h t IH]; [reflexivity|].
  cbn [flat_map]. rewrite map_app, H, IH. reflexivity.
Qed.

(* ---------- naive, starter ---------- *)

Lemma naive_pools_shift C k single ps : forall w queue requeue acc,
  naive_pools C single w (map (shift_pool k) ps) queue requeue acc =
  naive_pools C single w ps queue requeue acc.
Proof.
  induction ps as [|p t IH]; intros w queue requeue acc; [reflexivity|].
  cbn [map naive_pools shift_pool p_id p_avail_cpu p_avail_ram].
  destruct ((p_avail_cpu p <=? 0)%Z || Qleb (p_avail_ram p) 0%Q); [apply IH|].
  destruct (naive_scan C single w (p_id p) (p_avail_cpu p) (p_avail_ram p) queue)
    as [[[[q' rq] w'] a]|e]; [|reflexivity].
  cbn [bind]. apply IH.
Qed.

Theorem naive_step_shift C k starter s e results newp :
  naive_step C starter (shift_sstate k s) (shift_estate k e) (map (shift_result k) results) newp =
  map_res (sh_sched k) (naive_step C starter s e results newp).
Proof.
  assert (H : (do r <- naive_pools C (if starter then true else negb (cf_multi C)) (e_world e)
                        (map (shift_pool k) (e_pools e)) (ss_queue s ++ newp) [] [];
               let '(q, rq, w', asgs) := r in
               Ok (with_queue (shift_sstate k s) (q ++ rq), w', @nil susp, asgs))
              = map_res (sh_sched k)
                  (do r <- naive_pools C (if starter then true else negb (cf_multi C)) (e_world e)
                             (e_pools e) (ss_queue s ++ newp) [] [];
                   let '(q, rq, w', asgs) := r in
                   Ok (with_queue s (q ++ rq), w', @nil susp, asgs))).
  { rewrite naive_pools_shift.
    destruct (naive_pools C (if starter then true else negb (cf_multi C)) (e_world e) (e_pools e)
                (ss_queue s ++ newp) [] []) as [[[[q rq] w'] asgs]|er]; reflexivity. }
  unfold naive_step. cbn [shift_estate e_world e_pools shift_sstate ss_queue].
  destruct newp as [|p0 newp0]; destruct results as [|r0 results0]; cbn [map];
    first [reflexivity | exact H].
Qed.

(* ---------- overbook ---------- *)

Lemma ob_results_shift C k results : forall proc fails,
  ob_results C (map (shift_result k) results) proc fails = ob_results C results proc fails.
Proof.
  induction results as [|r t IH]; intros proc fails; [reflexivity|].
  cbn [map ob_results shift_result r_ops r_err].
  destruct (r_ops r) as [|op [|op' l]]; try reflexivity. apply IH.
Qed.

Theorem overbook_step_shift C k s e results newp :
  overbook_step C (shift_sstate k s) (shift_estate k e) (map (shift_result k) results) newp =
  map_res (sh_sched k) (overbook_step C s e results newp).
Proof.
  assert (H : forall results,
    (do pf <- ob_results C (map (shift_result k) results)
                (fold_left (fun l p => add_absent p l) newp []) (ss_fail s);
     let '(proc, fails) := pf in
     let queue := fold_left (fun q p => ob_enqueue (get_ops (S_of C) (e_world e) p assignable true) q)
                            proc (ss_queue s) in
     let snap := map (fun p => (p_id p, p_avail_cpu p, p_max_ram p)) (map (shift_pool k) (e_pools e)) in
     do r <- ob_assign C (e_world e) fails snap queue [];
     let '(q', w', asgs) := r in
     Ok ({| ss_queue := q'; ss_fail := fails; ss_q := ss_q (shift_sstate k s);
            ss_i := ss_i (shift_sstate k s); ss_b := ss_b (shift_sstate k s);
            ss_suspending := ss_suspending (shift_sstate k s);
            ss_requeued := ss_requeued (shift_sstate k s); ss_oom := ss_oom s |},
         w', @nil susp, asgs))
    = map_res (sh_sched k)
       (do pf <- ob_results C results (fold_left (fun l p => add_absent p l) newp []) (ss_fail s);
        let '(proc, fails) := pf in
        let queue := fold_left (fun q p => ob_enqueue (get_ops (S_of C) (e_world e) p assignable true) q)
                               proc (ss_queue s) in
        let snap := map (fun p => (p_id p, p_avail_cpu p, p_max_ram p)) (e_pools e) in
        do r <- ob_assign C (e_world e) fails snap queue [];
        let '(q', w', asgs) := r in
        Ok ({| ss_queue := q'; ss_fail := fails; ss_q := ss_q s; ss_i := ss_i s; ss_b := ss_b s;
               ss_suspending := ss_suspending s; ss_requeued := ss_requeued s; ss_oom := ss_oom s |},
            w', @nil susp, asgs))).
  { intros rs. rewrite ob_results_shift.
    destruct (ob_results C rs (fold_left (fun l p => add_absent p l) newp []) (ss_fail s))
      as [[proc fails]|er]; [|reflexivity].
    cbn [bind]. cbv zeta. rewrite map_map.
    cbn [shift_pool p_id p_avail_cpu p_max_ram].
    destruct (ob_assign C (e_world e) fails
                (map (fun x => (p_id x, p_avail_cpu x, p_max_ram x)) (e_pools e))
                (fold_left (fun q p => ob_enqueue (get_ops (S_of C) (e_world e) p assignable true) q)
                   proc (ss_queue s)) []) as [[[q' w'] asgs]|er]; reflexivity. }
  unfold overbook_step. cbn [shift_estate e_world e_pools].
  change (ss_fail (shift_sstate k s)) with (ss_fail s).
  change (ss_queue (shift_sstate k s)) with (ss_queue s).
  change (ss_oom (shift_sstate k s)) with (ss_oom s).
  destruct newp as [|p0 newp0]; destruct results as [|r0 results0];
    first [reflexivity | exact (H _)].
Qed.

(* ---------- priority, priority-pool: shared pieces ---------- *)

Lemma push_job_shift k s j p :
  push_job (shift_sstate k s) (shift_job k j) p = shift_sstate k (push_job s j p).
Proof.
  destruct p; unfold push_job, with_queues, shift_sstate;
    cbn [ss_queue ss_fail ss_q ss_i ss_b ss_suspending ss_requeued ss_oom];
    rewrite map_app; reflexivity.
Qed.

Lemma fold_push_shift {X} k (J : X -> job) (P : X -> prio) (l : list X) : forall s,
  fold_left (fun st x => push_job st (shift_job k (J x)) (P x)) l (shift_sstate k s) =
  shift_sstate k (fold_left (fun st x => push_job st (J x) (P x)) l s).
Proof.
  induction l as [|x t IH]; intros s; [reflexivity|].
  cbn [fold_left]. rewrite push_job_shift. apply IH.
Qed.

Lemma assoc_set_shift {A B} k (g : A -> B) a v (m : list (nat * A)) :
  assoc_set (k + a) (g v) (map (fun x => (k + fst x, g (snd x))) m) =
  map (fun x => (k + fst x, g (snd x))) (assoc_set a v m).
Proof.
  induction m as [|[b x] t IH]; [reflexivity|].
  cbn [map assoc_set fst snd]. rewrite eqb_add_l.
  destruct (Nat.eqb b a); [reflexivity|]. rewrite IH. reflexivity.
Qed.

Lemma assoc_find_shift {A B} k (g : A -> B) a (m : list (nat * A)) :
  assoc_find (k + a) (map (fun x => (k + fst x, g (snd x))) m) = option_map g (assoc_find a m).
Proof.
  induction m as [|[b x] t IH]; [reflexivity|].
  cbn [map assoc_find fst snd]. rewrite eqb_add_l.
  destruct (Nat.eqb b a); [reflexivity|]. exact IH.
Qed.

Lemma assoc_del_shift {A B} k (g : A -> B) a (m : list (nat * A)) :
  assoc_del (k + a) (map (fun x => (k + fst x, g (snd x))) m) =
  map (fun x => (k + fst x, g (snd x))) (assoc_del a m).
Proof.
  unfold assoc_del. apply filter_map_comm. intros [b x]. cbn [fst]. rewrite eqb_add_l. reflexivity.
Qed.

(* values only (keys are operators) *)
Lemma assoc_set_vmap {A B} (g : A -> B) a v (m : list (nat * A)) :
  assoc_set a (g v) (map (fun x => (fst x, g (snd x))) m) =
  map (fun x => (fst x, g (snd x))) (assoc_set a v m).
Proof.
  induction m as [|[b x] t IH]; [reflexivity|].
  cbn [map assoc_set fst snd]. destruct (Nat.eqb b a); [reflexivity|]. rewrite IH. reflexivity.
Qed.

Lemma assoc_find_vmap {A B} (g : A -> B) a (m : list (nat * A)) :
  assoc_find a (map (fun x => (fst x, g (snd x))) m) = option_map g (assoc_find a m).
Proof.
  induction m as [|[b x] t IH]; [reflexivity|].
  cbn [map assoc_find fst snd]. destruct (Nat.eqb b a); [reflexivity|]. exact IH.
Qed.

Lemma job_of_container_shift k w pid c :
  job_of_container w pid (shift_c k c) = map_res (shift_job k) (job_of_container w pid c).
Proof.
  unfold job_of_container. cbn [shift_c c_ops].
  destruct (not_completed_ops w (c_ops c)); reflexivity.
Qed.

Lemma job_with_pipe_shift C k j : job_with_pipe C (shift_job k j) = shift_job k (job_with_pipe C j).
Proof. reflexivity. Qed.

Lemma note_suspending_shift C k w pid cs : forall m,
  note_suspending C w pid (map (shift_c k) cs) (map (shift_kv k) m) =
  map_res (map (shift_kv k)) (note_suspending C w pid cs m).
Proof.
  induction cs as [|c t IH]; intros m; [reflexivity|].
  cbn [map note_suspending]. rewrite job_of_container_shift.
  destruct (job_of_container w pid c) as [j|e]; [|reflexivity].
  cbn [map_res bind]. rewrite job_with_pipe_shift.
  change (c_id (shift_c k c)) with (k + c_id c).
  unfold shift_kv at 1. rewrite (assoc_set_shift k (shift_job k)). apply IH.
Qed.

Lemma note_suspending_pools_shift C k w ps : forall m,
  note_suspending_pools C w (map (shift_pool k) ps) (map (shift_kv k) m) =
  map_res (map (shift_kv k)) (note_suspending_pools C w ps m).
Proof.
  induction ps as [|p t IH]; intros m; [reflexivity|].
  cbn [map note_suspending_pools shift_pool p_id p_suspending].
  rewrite note_suspending_shift.
  destruct (note_suspending C w (p_id p) (p_suspending p) m) as [m'|e]; [|reflexivity].
  cbn [map_res bind]. apply IH.
Qed.

Lemma snapshot_shift k e : snapshot (shift_estate k e) = snapshot e.
Proof. unfold snapshot. cbn [shift_estate e_pools]. rewrite map_map. reflexivity. Qed.

Lemma retry_of_result_shift k r :
  retry_of_result (shift_result k r) = shift_retry k (retry_of_result r).
Proof. reflexivity. Qed.

(* ---------- priority-pool ---------- *)

Ltac scan_tac IH :=
  repeat first
    [ rewrite IH
    | reflexivity
    | match goal with |- context [if ?b then _ else _] => destruct b end
    | match goal with
      | |- context [bind (mk_assignment ?C ?w ?a)] => destruct (mk_assignment C w a); cbn [bind]
      end
    | match goal with |- context [let '(_, _) := ?x in _] => destruct x end ].

Lemma pp_scan_shift C k pid queue : forall w x oom,
  pp_scan C w pid x (map (shift_job k) queue) oom = pp_scan C w pid x queue oom.
Proof.
  induction queue as [|j rest IH]; intros w x oom; [reflexivity|].
  cbn [map pp_scan shift_job j_ops j_prio j_retry].
  destruct (j_retry j) as [rs|]; cbn [option_map shift_retry rt_err rt_cpu rt_ram]; scan_tac IH.
Qed.

Lemma pp_requeue_shift k cs : forall s,
  pp_requeue (map (shift_c k) cs) (shift_sstate k s) = shift_sstate k (pp_requeue cs s).
Proof.
  induction cs as [|c t IH]; intros s; [reflexivity|].
  cbn [map pp_requeue]. change (c_id (shift_c k c)) with (k + c_id c).
  change (ss_suspending (shift_sstate k s)) with (map (shift_kv k) (ss_suspending s)).
  unfold shift_kv. rewrite (assoc_find_shift k (shift_job k)), (assoc_del_shift k (shift_job k)).
  destruct (assoc_find (c_id c) (ss_suspending s)) as [j|]; cbn [option_map]; [|apply IH].
  change (j_prio (shift_job k j)) with (j_prio j).
  rewrite <- IH. rewrite <- push_job_shift. reflexivity.
Qed.

Lemma pp_requeue_pools_shift k ps : forall s,
  fold_left (fun st p => pp_requeue (p_suspended p) st) (map (shift_pool k) ps) (shift_sstate k s) =
  shift_sstate k (fold_left (fun st p => pp_requeue (p_suspended p) st) ps s).
Proof.
  induction ps as [|p t IH]; intros s; [reflexivity|].
  cbn [map fold_left shift_pool p_suspended]. rewrite pp_requeue_shift. apply IH.
Qed.

Lemma pp_failures_shift C k w results : forall s,
  pp_failures C w (map (shift_result k) results) (shift_sstate k s) =
  map_res (shift_sstate k) (pp_failures C w results s).
Proof.
  induction results as [|r t IH]; intros s; [reflexivity|].
  cbn [map pp_failures]. rewrite retry_of_result_shift.
  cbn [shift_result r_err r_ops r_prio].
  destruct (r_err r); [|apply IH].
  destruct (not_completed_ops w (r_ops r)) as [|o ops]; [reflexivity|].
  rewrite <- IH. f_equal. rewrite <- push_job_shift. reflexivity.
Qed.

Theorem priority_pool_step_shift C k s e results newp :
  priority_pool_step C (shift_sstate k s) (shift_estate k e) (map (shift_result k) results) newp =
  map_res (sh_sched k) (priority_pool_step C s e results newp).
Proof.
  unfold priority_pool_step. rewrite snapshot_shift.
  change (e_world (shift_estate k e)) with (e_world e).
  change (e_pools (shift_estate k e)) with (map (shift_pool k) (e_pools e)).
  pose proof (fold_push_shift k
             (fun p => {| j_prio := prio_of_pipe C p; j_pipe := p;
                          j_ops := pd_order (pipe_of (S_of C) p); j_retry := None |})
             (fun p => prio_of_pipe C p) newp s) as HF.
  unfold shift_job in HF. cbn [j_prio j_pipe j_ops j_retry option_map] in HF. rewrite HF. clear HF.
  rewrite pp_failures_shift.
  destruct (pp_failures C (e_world e) results
              (fold_left (fun st p => push_job st
                 {| j_prio := prio_of_pipe C p; j_pipe := p;
                    j_ops := pd_order (pipe_of (S_of C) p); j_retry := None |} (prio_of_pipe C p))
                 newp s)) as [s2|er]; [|reflexivity].
  cbn [map_res bind].
  change (ss_suspending (shift_sstate k s2)) with (map (shift_kv k) (ss_suspending s2)).
  rewrite note_suspending_pools_shift.
  destruct (note_suspending_pools C (e_world e) (e_pools e) (ss_suspending s2)) as [m|er];
    [|reflexivity].
  cbn [map_res bind]. cbv zeta.
  match goal with
  | |- context [fold_left _ (map (shift_pool k) (e_pools e)) ?s3] =>
      change s3 with (shift_sstate k
        {| ss_queue := ss_queue s2; ss_fail := ss_fail s2; ss_q := ss_q s2; ss_i := ss_i s2;
           ss_b := ss_b s2; ss_suspending := m; ss_requeued := ss_requeued s2; ss_oom := ss_oom s2 |})
  end.
  rewrite pp_requeue_pools_shift.
  set (s4 := fold_left (fun st p => pp_requeue (p_suspended p) st) (e_pools e) _).
  cbn [shift_sstate ss_queue ss_fail ss_q ss_i ss_b ss_suspending ss_requeued ss_oom].
  rewrite !pp_scan_shift.
  destruct (pp_scan C (e_world e) 0 (nth 0 (snapshot e) dummy_stat) (ss_q s4) (ss_oom s4))
    as [[[[[n1 x0a] w1] a1] o1]|er]; [|reflexivity].
  cbn [bind]. rewrite !pp_scan_shift.
  destruct (pp_scan C w1 0 x0a (ss_i s4) o1) as [[[[[n2 x0b] w2] a2] o2]|er]; [|reflexivity].
  cbn [bind]. rewrite !pp_scan_shift.
  destruct (pp_scan C w2 1 (nth 1 (snapshot e) dummy_stat) (ss_b s4) o2)
    as [[[[[n3 x1a] w3] a3] o3]|er]; [|reflexivity].
  cbn [bind map_res sh_sched]. rewrite !skipn_map. reflexivity.
Qed.

(* ---------- priority ---------- *)

Definition sh_ri (k : nat) (x : nat * retry) : nat * retry := (fst x, shift_retry k (snd x)).

Lemma retry_info_shift k w results :
  retry_info w (map (shift_result k) results) = map (sh_ri k) (retry_info w results).
Proof.
  unfold retry_info. change (@nil (nat * retry)) with (map (sh_ri k) []) at 1.
  generalize (@nil (nat * retry)) as m.
  induction results as [|r t IH]; intros m; [reflexivity|].
  cbn [map fold_left]. change (r_err (shift_result k r)) with (r_err r).
  change (r_ops (shift_result k r)) with (r_ops r). rewrite retry_of_result_shift.
  destruct (r_err r); [|apply IH].
  rewrite <- IH. f_equal.
  generalize (r_ops r) as ops. clear IH. intros ops. revert m.
  induction ops as [|o ops IHo]; intros m; [reflexivity|].
  cbn [fold_left]. destruct (ostate_eqb (st_of w o) Completed); [apply IHo|].
  unfold sh_ri at 1. rewrite (assoc_set_vmap (shift_retry k)). apply IHo.
Qed.

Lemma queued_ops_shift k s : queued_ops (shift_sstate k s) = queued_ops s.
Proof.
  unfold queued_ops. cbn [shift_sstate ss_q ss_i ss_b]. rewrite !flat_map_map. reflexivity.
Qed.

Lemma pr_new_jobs_shift C k w s results newp :
  pr_new_jobs C w (shift_sstate k s) (map (shift_result k) results) newp =
  map (shift_job k) (pr_new_jobs C w s results newp).
Proof.
  unfold pr_new_jobs. rewrite retry_info_shift, queued_ops_shift, fold_left_map.
  cbn [shift_result r_ops].
  apply flat_map_map_out. intros p.
  destruct (filter (fun o => negb (memb o (queued_ops s)))
              (if cf_multi C then get_ops (S_of C) w p assignable false
               else get_ops (S_of C) w p assignable true)) as [|o ops]; [reflexivity|].
  unfold sh_ri. destruct (cf_multi C).
  - cbn [map]. rewrite (assoc_find_vmap (shift_retry k)). reflexivity.
  - rewrite map_map. apply map_ext. intros o'. rewrite (assoc_find_vmap (shift_retry k)). reflexivity.
Qed.

Lemma memb_shift k x l : memb (k + x) (map (Nat.add k) l) = memb x l.
Proof.
  unfold memb. induction l as [|y t IH]; [reflexivity|].
  cbn [map existsb]. rewrite eqb_add_l, IH. reflexivity.
Qed.

Lemma pr_requeue_shift C k w pid cs : forall s,
  pr_requeue C w pid (map (shift_c k) cs) (shift_sstate k s) =
  map_res (shift_sstate k) (pr_requeue C w pid cs s).
Proof.
  induction cs as [|c t IH]; intros s; [reflexivity|].
  cbn [map pr_requeue]. change (c_id (shift_c k c)) with (k + c_id c).
  change (ss_requeued (shift_sstate k s)) with (map (Nat.add k) (ss_requeued s)).
  change (ss_suspending (shift_sstate k s)) with (map (shift_kv k) (ss_suspending s)).
  rewrite memb_shift. destruct (memb (c_id c) (ss_requeued s)); [apply IH|].
  unfold shift_kv. rewrite (assoc_find_shift k (shift_job k)), (assoc_del_shift k (shift_job k)).
  rewrite job_of_container_shift.
  assert (H : match option_map (shift_job k) (assoc_find (c_id c) (ss_suspending s)) with
              | Some j => Ok j
              | None => do j0 <- map_res (shift_job k) (job_of_container w pid c);
                        Ok (job_with_pipe C j0)
              end = map_res (shift_job k)
                      match assoc_find (c_id c) (ss_suspending s) with
                      | Some j => Ok j
                      | None => do j0 <- job_of_container w pid c; Ok (job_with_pipe C j0)
                      end).
  { destruct (assoc_find (c_id c) (ss_suspending s)) as [j|]; [reflexivity|].
    cbn [option_map]. destruct (job_of_container w pid c) as [j0|e]; reflexivity. }
  rewrite H. clear H.
  destruct (match assoc_find (c_id c) (ss_suspending s) with
            | Some j => Ok j
            | None => do j0 <- job_of_container w pid c; Ok (job_with_pipe C j0)
            end) as [j|e]; [|reflexivity].
  cbn [map_res bind]. change (j_prio (shift_job k j)) with (j_prio j).
  rewrite <- IH. f_equal. rewrite <- push_job_shift. f_equal.
  unfold shift_sstate. cbn [ss_queue ss_fail ss_q ss_i ss_b ss_suspending ss_requeued ss_oom].
  rewrite map_app. reflexivity.
Qed.

Lemma pr_requeue_pools_shift C k w ps : forall s,
  pr_requeue_pools C w (map (shift_pool k) ps) (shift_sstate k s) =
  map_res (shift_sstate k) (pr_requeue_pools C w ps s).
Proof.
  induction ps as [|p t IH]; intros s; [reflexivity|].
  cbn [map pr_requeue_pools shift_pool p_id p_suspended]. rewrite pr_requeue_shift.
  destruct (pr_requeue C w (p_id p) (p_suspended p) s) as [s'|e]; [|reflexivity].
  cbn [map_res bind]. apply IH.
Qed.

Lemma pr_scan_shift C k queue : forall w stats oom,
  pr_scan C w stats (map (shift_job k) queue) oom = pr_scan C w stats queue oom.
Proof.
  induction queue as [|j rest IH]; intros w stats oom; [reflexivity|].
  cbn [map pr_scan shift_job j_ops j_prio j_retry].
  destruct (max_ram_pool stats 0 None 0%Q) as [pid|]; [|reflexivity].
  destruct (j_retry j) as [rs|]; cbn [option_map shift_retry rt_err rt_cpu rt_ram]; scan_tac IH.
Qed.

Lemma skip_query_shift k l :
  skip_query (map (shift_c k) l) =
  option_map (fun x => (shift_c k (fst x), map (shift_c k) (snd x))) (skip_query l).
Proof.
  induction l as [|c t IH]; [reflexivity|].
  cbn [map skip_query]. change (c_prio (shift_c k c)) with (c_prio c).
  destruct (prio_eqb (c_prio c) Query); [exact IH|reflexivity].
Qed.

Definition sh_iter (k : nat) (x : nat * list container * bool) : nat * list container * bool :=
  (fst (fst x), map (shift_c k) (snd (fst x)), snd x).

Lemma pr_preempt_shift k fuel : forall need iters i acc,
  pr_preempt fuel need (map (sh_iter k) iters) i (map (shift_susp k) acc) =
  map (shift_susp k) (pr_preempt fuel need iters i acc).
Proof.
  induction fuel as [|f IH]; intros need iters i acc; [reflexivity|].
  cbn [pr_preempt]. rewrite !map_length.
  destruct (Nat.leb need (length acc)); [reflexivity|].
  rewrite forallb_map. change (fun x => snd (sh_iter k x)) with (fun x : nat * list container * bool => snd x).
  destruct (forallb (fun x => snd x) iters); [reflexivity|].
  change (0, @nil container, true) with (sh_iter k (0, [], true)) at 1.
  rewrite map_nth.
  destruct (nth i iters (0, [], true)) as [[pid l] ex].
  unfold sh_iter at 1. cbn [fst snd].
  rewrite skip_query_shift.
  destruct (skip_query l) as [[c t]|]; cbn [option_map fst snd].
  - change (pid, map (shift_c k) t, ex) with (sh_iter k (pid, t, ex)).
    rewrite set_nth_map.
    change (c_can_suspend (shift_c k c)) with (c_can_suspend c).
    change (c_id (shift_c k c)) with (k + c_id c).
    rewrite <- IH. f_equal.
    destruct (c_can_suspend c); [|reflexivity].
    rewrite map_app. reflexivity.
  - change (pid, @nil container, true) with (sh_iter k (pid, [], true)).
    rewrite set_nth_map. apply IH.
Qed.

Theorem priority_step_shift C k s e results newp :
  priority_step C (shift_sstate k s) (shift_estate k e) (map (shift_result k) results) newp =
  map_res (sh_sched k) (priority_step C s e results newp).
Proof.
  unfold priority_step. rewrite snapshot_shift.
  change (e_world (shift_estate k e)) with (e_world e).
  change (e_pools (shift_estate k e)) with (map (shift_pool k) (e_pools e)).
  assert (HJ : match newp, map (shift_result k) results with
               | [], [] => []
               | _, _ => pr_new_jobs C (e_world e) (shift_sstate k s) (map (shift_result k) results) newp
               end = map (shift_job k)
                       match newp, results with
                       | [], [] => []
                       | _, _ => pr_new_jobs C (e_world e) s results newp
                       end).
  { destruct newp as [|p0 n0]; destruct results as [|r0 rs0]; try reflexivity;
      apply pr_new_jobs_shift. }
  rewrite HJ. clear HJ.
  set (jobs := match newp, results with
               | [], [] => []
               | _, _ => pr_new_jobs C (e_world e) s results newp
               end).
  rewrite fold_left_map.
  pose proof (fold_push_shift k (fun j : job => j) (fun j => prio_of_pipe C (j_pipe j)) jobs s) as HF.
  change (fun (st : sstate) (y : job) =>
            push_job st (shift_job k y) (prio_of_pipe C (j_pipe (shift_job k y))))
    with (fun (st : sstate) (x : job) => push_job st (shift_job k x) (prio_of_pipe C (j_pipe x))).
  rewrite HF. clear HF.
  set (s1 := fold_left (fun st x => push_job st x (prio_of_pipe C (j_pipe x))) jobs s).
  change (ss_suspending (shift_sstate k s1)) with (map (shift_kv k) (ss_suspending s1)).
  rewrite note_suspending_pools_shift.
  destruct (note_suspending_pools C (e_world e) (e_pools e) (ss_suspending s1)) as [m|er];
    [|reflexivity].
  cbn [map_res bind]. cbv zeta.
  match goal with
  | |- context [pr_requeue_pools C (e_world e) (map (shift_pool k) (e_pools e)) ?s2] =>
      change s2 with (shift_sstate k
        {| ss_queue := ss_queue s1; ss_fail := ss_fail s1; ss_q := ss_q s1; ss_i := ss_i s1;
           ss_b := ss_b s1; ss_suspending := m; ss_requeued := ss_requeued s1; ss_oom := ss_oom s1 |})
  end.
  rewrite pr_requeue_pools_shift.
  destruct (pr_requeue_pools C (e_world e) (e_pools e)
              {| ss_queue := ss_queue s1; ss_fail := ss_fail s1; ss_q := ss_q s1; ss_i := ss_i s1;
                 ss_b := ss_b s1; ss_suspending := m; ss_requeued := ss_requeued s1;
                 ss_oom := ss_oom s1 |}) as [s3|er]; [|reflexivity].
  cbn [map_res bind].
  cbn [shift_sstate ss_queue ss_fail ss_q ss_i ss_b ss_suspending ss_requeued ss_oom].
  rewrite !pr_scan_shift.
  destruct (pr_scan C (e_world e) (snapshot e) (ss_q s3) (ss_oom s3))
    as [[[[[n1 st1] w1] a1] o1]|er]; [|reflexivity].
  cbn [bind]. rewrite !pr_scan_shift.
  destruct (pr_scan C w1 st1 (ss_i s3) o1) as [[[[[n2 st2] w2] a2] o2]|er]; [|reflexivity].
  cbn [bind]. rewrite !pr_scan_shift.
  destruct (pr_scan C w2 st2 (ss_b s3) o2) as [[[[[n3 st3] w3] a3] o3]|er]; [|reflexivity].
  cbn [bind map_res sh_sched]. rewrite !skipn_map.
  f_equal. f_equal. f_equal.
  destruct (skipn n1 (ss_q s3)) as [|j0 q0]; [reflexivity|].
  cbn [map]. change (shift_job k j0 :: map (shift_job k) q0) with (map (shift_job k) (j0 :: q0)).
  rewrite !map_length, !map_map.
  rewrite flat_map_map.
  change (fun x => p_active (shift_pool k x)) with (fun x => map (shift_c k) (p_active x)).
  assert (HL : forall ps, length (flat_map (fun x => map (shift_c k) (p_active x)) ps)
                          = length (flat_map p_active ps)).
  { induction ps as [|p t IHp]; [reflexivity|].
    cbn [flat_map]. rewrite !app_length, map_length, IHp. reflexivity. }
  rewrite HL.
  change (fun x => (p_id (shift_pool k x), p_active (shift_pool k x), false))
    with (fun x => sh_iter k (p_id x, p_active x, false)).
  rewrite <- (map_map (fun p => (p_id p, p_active p, false)) (sh_iter k)).
  apply (pr_preempt_shift k _ _ _ 0 []).
Qed.

Theorem sched_step_shift C a k s e results newp :
  sched_step C a (shift_sstate k s) (shift_estate k e) (map (shift_result k) results) newp =
  map_res (sh_sched k) (sched_step C a s e results newp).
Proof.
  destruct a; cbn [sched_step].
  - apply naive_step_shift.
  - apply naive_step_shift.
  - apply overbook_step_shift.
  - apply priority_step_shift.
  - apply priority_pool_step_shift.
Qed.

(* ====================================================================== *)
(* 6. E4: the simulator loop and the statistics                           *)
(* ====================================================================== *)

Definition shift_sim (k : nat) (s : sim) : sim :=
  {| sm_exec := shift_estate k (sm_exec s); sm_sched := shift_sstate k (sm_sched s);
     sm_results := map (shift_result k) (sm_results s);
     sm_outstanding := sm_outstanding s; sm_arrival := sm_arrival s; sm_lat := sm_lat s;
     sm_created := sm_created s; sm_nasg := sm_nasg s; sm_nsusp := sm_nsusp s; sm_nfail := sm_nfail s |}.

Definition shift_log (k : nat) (l : tick_log) : tick_log :=
  {| tl_new := tl_new l; tl_susp := map (shift_susp k) (tl_susp l); tl_asgs := tl_asgs l;
     tl_results := map (shift_result k) (tl_results l); tl_finished := tl_finished l |}.

Definition sh_stick (k : nat) (x : sim * tick_log) := let '(s, l) := x in (shift_sim k s, shift_log k l).

Theorem sim_tick_shift C a k tick s newp :
  sim_tick C a tick (shift_sim k s) newp = map_res (sh_stick k) (sim_tick C a tick s newp).
Proof.
  unfold sim_tick.
  cbn [shift_sim sm_exec sm_sched sm_results sm_outstanding sm_arrival sm_lat sm_created sm_nasg
       sm_nsusp sm_nfail].
  destruct (record_arrivals tick newp (sm_arrival s)) as [arr|er]; [|reflexivity].
  cbn [bind]. rewrite sched_step_shift.
  destruct (sched_step C a (sm_sched s) (sm_exec s) (sm_results s) newp) as [[[[ss' w'] susps] asgs]|er];
    [|reflexivity].
  cbn [map_res sh_sched bind].
  change {| e_world := w'; e_pools := e_pools (shift_estate k (sm_exec s));
            e_next := e_next (shift_estate k (sm_exec s)) |}
    with (shift_estate k {| e_world := w'; e_pools := e_pools (sm_exec s); e_next := e_next (sm_exec s) |}).
  rewrite exec_tick_shift.
  destruct (exec_tick C {| e_world := w'; e_pools := e_pools (sm_exec s); e_next := e_next (sm_exec s) |}
              susps asgs) as [[e2 results]|er]; [|reflexivity].
  cbn [map_res sh_etick bind]. cbv zeta.
  change (e_world (shift_estate k e2)) with (e_world e2).
  rewrite (filter_map_comm r_err r_err (shift_result k)) by (intros r; reflexivity).
  rewrite !map_length.
  destruct results as [|r0 rs]; reflexivity.
Qed.

Definition sh_srun (k : nat) (x : sim * list tick_log * option err) :=
  let '(s, l, e) := x in (shift_sim k s, map (shift_log k) l, e).

Theorem sim_run_shift C a k arrivals : forall tick s,
  sim_run C a tick (shift_sim k s) arrivals = sh_srun k (sim_run C a tick s arrivals).
Proof.
  induction arrivals as [|newp t IH]; intros tick s; [reflexivity|].
  cbn [sim_run]. rewrite sim_tick_shift.
  destruct (sim_tick C a tick s newp) as [[s' lg]|er]; [|reflexivity].
  cbn [map_res sh_stick]. rewrite IH.
  destruct (sim_run C a (tick + 1)%Z s' t) as [[sf logs] e]. reflexivity.
Qed.

Theorem final_stats_shift C k d s : final_stats C d (shift_sim k s) = final_stats C d s.
Proof.
  unfold final_stats.
  change (e_pools (sm_exec (shift_sim k s))) with (map (shift_pool k) (e_pools (sm_exec s))).
  rewrite map_map, flat_map_map. reflexivity.
Qed.

(* ---------- the canonical event log: ids renumbered by subtracting the start value ---------- *)

Definition canon_susp (k : nat) (x : susp) : susp := {| su_cid := su_cid x - k; su_pool := su_pool x |}.
Definition canon_result (k : nat) (r : result) : result :=
  {| r_cid := r_cid r - k; r_ops := r_ops r; r_cpu := r_cpu r; r_ram := r_ram r; r_prio := r_prio r;
     r_pool := r_pool r; r_err := r_err r |}.
Definition canon_log (k : nat) (l : tick_log) : tick_log :=
  {| tl_new := tl_new l; tl_susp := map (canon_susp k) (tl_susp l); tl_asgs := tl_asgs l;
     tl_results := map (canon_result k) (tl_results l); tl_finished := tl_finished l |}.

Lemma canon_shift_susp k x : canon_susp k (shift_susp k x) = x.
Proof.
  destruct x as [cid pl]. unfold canon_susp, shift_susp. cbn [su_cid su_pool].
  f_equal. lia.
Qed.

Lemma canon_shift_result k r : canon_result k (shift_result k r) = r.
Proof.
  destruct r as [cid ops cpu ram pr pl er]. unfold canon_result, shift_result.
  cbn [r_cid r_ops r_cpu r_ram r_prio r_pool r_err]. f_equal. lia.
Qed.

Lemma map_id_ext {A} (f : A -> A) (l : list A) : (forall x, f x = x) -> map f l = l.
Proof. intros H. induction l as [|h t IH]; [reflexivity|]. cbn [map]. rewrite H, IH. reflexivity. Qed.

Lemma canon_shift_log k l : canon_log k (shift_log k l) = l.
Proof.
  destruct l as [nw su asgs rs fin]. unfold canon_log, shift_log.
  cbn [tl_new tl_susp tl_asgs tl_results tl_finished]. rewrite !map_map.
  rewrite (map_id_ext (fun x => canon_susp k (shift_susp k x))) by apply canon_shift_susp.
  rewrite (map_id_ext (fun x => canon_result k (shift_result k x))) by apply canon_shift_result.
  reflexivity.
Qed.

Lemma canon_shift_logs k ls : map (canon_log k) (map (shift_log k) ls) = ls.
Proof. rewrite map_map. apply map_id_ext. apply canon_shift_log. Qed.

(* the start state of a simulation whose process-global container counter stands at [k] *)
Definition init_sim_at (C : cfg) (npools : nat) (cpu : Z) (ram : Q) (k : nat) : sim :=
  {| sm_exec := {| e_world := init_world (cf_static C);
                   e_pools := map (fun i => new_pool i cpu ram) (seq 0 npools);
                   e_next := k |};
     sm_sched := init_sstate; sm_results := [];
     sm_outstanding := []; sm_arrival := []; sm_lat := [];
     sm_created := 0%Z; sm_nasg := 0%Z; sm_nsusp := 0%Z; sm_nfail := 0%Z |}.

Lemma init_sim_at_0 C npools cpu ram : init_sim_at C npools cpu ram 0 = init_sim C npools cpu ram.
Proof. reflexivity. Qed.

Lemma init_sim_at_shift C npools cpu ram k :
  init_sim_at C npools cpu ram k = shift_sim k (init_sim C npools cpu ram).
Proof.
  unfold init_sim_at, init_sim, shift_sim, init_estate, shift_estate.
  cbn [sm_exec sm_sched sm_results sm_outstanding sm_arrival sm_lat sm_created sm_nasg sm_nsusp sm_nfail
       e_world e_pools e_next].
  rewrite Nat.add_0_r, map_map. reflexivity.
Qed.

(* C07, the part that is not trivial in a functional model: the run does not depend on where the
   container counter starts. Same error (or none), the same canonical tick-by-tick log of arrivals,
   suspensions, assignments, results and finished pipelines, the same statistics. *)
Theorem cid_equivariance C a npools cpu ram tick arrivals k d :
  forall sf logs e sf' logs' e',
    sim_run C a tick (init_sim C npools cpu ram) arrivals = (sf, logs, e) ->
    sim_run C a tick (init_sim_at C npools cpu ram k) arrivals = (sf', logs', e') ->
    e' = e /\
    logs' = map (shift_log k) logs /\
    map (canon_log k) logs' = logs /\
    sf' = shift_sim k sf /\
    final_stats C d sf' = final_stats C d sf.
Proof.
  intros sf logs e sf' logs' e' H0 Hk.
  rewrite init_sim_at_shift, sim_run_shift, H0 in Hk. cbn [sh_srun] in Hk.
  inversion Hk; subst. repeat split.
  - apply canon_shift_logs.
  - apply final_stats_shift.
Qed.

(* two arbitrary start values: a second simulation in the same process (counter at k2) against a
   first one (counter at k1) *)
Corollary cid_independence C a npools cpu ram tick arrivals k1 k2 d :
  forall sf1 logs1 e1 sf2 logs2 e2,
    sim_run C a tick (init_sim_at C npools cpu ram k1) arrivals = (sf1, logs1, e1) ->
    sim_run C a tick (init_sim_at C npools cpu ram k2) arrivals = (sf2, logs2, e2) ->
    e1 = e2 /\
    map (canon_log k1) logs1 = map (canon_log k2) logs2 /\
    final_stats C d sf1 = final_stats C d sf2.
Proof.
  intros sf1 logs1 e1 sf2 logs2 e2 H1 H2.
  destruct (sim_run C a tick (init_sim C npools cpu ram) arrivals) as [[sf logs] e] eqn:H0.
  destruct (cid_equivariance C a npools cpu ram tick arrivals k1 d _ _ _ _ _ _ H0 H1)
    as [E1 [_ [L1 [_ S1]]]].
  destruct (cid_equivariance C a npools cpu ram tick arrivals k2 d _ _ _ _ _ _ H0 H2)
    as [E2 [_ [L2 [_ S2]]]].
  repeat split; congruence.
Qed.

(* ====================================================================== *)
(* 7. E5: examples                                                        *)
(* ====================================================================== *)

(* two pipelines: one operator; two operators in a chain. Every operator runs one tick with 1 GB. *)
Definition ex_cfg : cfg :=
  {| cf_static := mk_static [(Batch, [[]]); (Query, [[]; [0]])];
     cf_script := fun _ _ => [1%Q];
     cf_tps := 10%Z; cf_overcommit := false; cf_multi := true; cf_rnd := fun q => Qred q |}.

Definition ex_state (n : nat) : estate :=
  {| e_world := init_world (cf_static ex_cfg); e_pools := [new_pool 0 4%Z 8%Q]; e_next := n |}.

(* tick 1: two assignments (the containers get ids n and n+1; the first completes at once, the second
   finishes its first operator and becomes suspendable); tick 2: suspend container n+1 *)
Definition ex_cmds (n : nat) : list (list susp * list asg) :=
  [ ([], [ {| a_ops := [0]; a_cpu := 1%Z; a_ram := 2%Q; a_prio := Batch; a_pool := 0%Z |};
           {| a_ops := [1; 2]; a_cpu := 1%Z; a_ram := 3%Q; a_prio := Query; a_pool := 0%Z |} ]);
    ([ {| su_cid := n + 1; su_pool := 0%Z |} ], []) ].

(* (result ids per tick, ids of the suspending and suspended containers at the end, final counter) *)
Definition ex_view (r : res (estate * list (list result))) : option (list (list nat) * list nat * nat) :=
  match r with
  | Ok (s, rs) => Some (map (map r_cid) rs, map c_id (flat_map (fun p => p_suspending p ++ p_suspended p) (e_pools s)), e_next s)
  | Err _ => None
  end.

Example ex_run_from_0 : ex_view (exec_run ex_cfg (ex_state 0) (ex_cmds 0)) = Some ([[0]; []], [1], 2).
Proof. vm_compute. reflexivity. Qed.

Example ex_run_from_17 : ex_view (exec_run ex_cfg (ex_state 17) (ex_cmds 17)) = Some ([[17]; []], [18], 19).
Proof. vm_compute. reflexivity. Qed.

Example ex_run_shift_17 :
  exec_run ex_cfg (ex_state 17) (ex_cmds 17) = map_res (sh_erun 17) (exec_run ex_cfg (ex_state 0) (ex_cmds 0)).
Proof. vm_compute. reflexivity. Qed.

(* the command that was right for the run from 0 is wrong for the run from 17: the ids in the commands
   must move with the counter (they do, since the schedulers copy them from the pools) *)
Example ex_run_unshifted_cmds : ex_view (exec_run ex_cfg (ex_state 17) (ex_cmds 0)) = None.
Proof. vm_compute. reflexivity. Qed.

(* a whole simulation under the priority scheduler, counter at 0 and at 17: four two-operator batch
   pipelines fill the pool, a query pipeline arrives one tick later and one batch container is
   preempted (a suspend command carrying a container id), noted and re-queued by the scheduler *)
Definition ex2_cfg : cfg :=
  {| cf_static := mk_static [(Batch, [[]; [0]]); (Batch, [[]; [0]]); (Batch, [[]; [0]]);
                             (Batch, [[]; [0]]); (Query, [[]])];
     cf_script := fun _ _ => [1%Q];
     cf_tps := 10%Z; cf_overcommit := false; cf_multi := true; cf_rnd := fun q => Qred q |}.
Definition ex2_arrivals : list (list nat) := [[0; 1; 2; 3]; [4]; []; []; []; []].

Definition susp_ids (logs : list tick_log) : list nat := flat_map (fun l => map su_cid (tl_susp l)) logs.
Definition result_ids (logs : list tick_log) : list nat := flat_map (fun l => map r_cid (tl_results l)) logs.

Example ex_sim_shift_17 :
  let '(sf0, logs0, e0) := sim_run ex2_cfg APriority 0%Z (init_sim_at ex2_cfg 1 4%Z 8%Q 0) ex2_arrivals in
  let '(sf1, logs1, e1) := sim_run ex2_cfg APriority 0%Z (init_sim_at ex2_cfg 1 4%Z 8%Q 17) ex2_arrivals in
  e0 = None /\ e1 = None /\
  susp_ids logs0 = [0] /\ susp_ids logs1 = [17] /\
  result_ids logs0 = [1; 2; 3; 4; 5] /\ result_ids logs1 = [18; 19; 20; 21; 22] /\
  ss_requeued (sm_sched sf0) = [0] /\ ss_requeued (sm_sched sf1) = [17] /\
  map (canon_log 17) logs1 = logs0 /\
  final_stats ex2_cfg 1%Q sf1 = final_stats ex2_cfg 1%Q sf0.
Proof. vm_compute. repeat split; reflexivity. Qed.

