(* C18 at run level: the operator queue of overbook, driven by the simulator loop.

   Per round, Proofs/OverbookFacts.v describes what [overbook_step] does. Here the loop
   scheduler + executor is closed ([sim_tick C AOverbook]) and the invariant of the scheduler's
   operator queue [ss_queue (sm_sched s)] is proved for every simulator state [s] reachable from
   [init_sim]:

     (a) no operator is queued twice;
     (b) soundness: every queued operator is ready in the current world (PENDING or FAILED, hence held
         by no container, and all its parents COMPLETED) -- no hypothesis on the static description;
     (c) completeness: for every pipeline that has arrived, is not abandoned (fewer than three failed
         containers) and has no result waiting to be processed by the next round, every ready operator
         is in the queue -- for static descriptions built by [mk_static] from well-formed DAGs.

   Structure:
     1. what one executor tick changes when every container holds exactly one operator and nothing is
        suspending: an operator whose state differs afterwards is RUNNING or belongs to a result of
        this very tick ([exec_tick_changes]);
     2. the dispatch loop [ob_run] touches exactly the operators it assigns;
     3. the operators of a pipeline of [mk_static l] and their parents all carry that pipeline's number;
     4. one tick of the closed loop ([ob_tick_anatomy]), then the three invariants
        ([ob_exec_shape], [ob_queue_sound], [ob_queue_complete]) and their preservation;
     5. reachable-state and run forms; 6. a concrete run with an OOM kill and a retry. *)
From Coq Require Import ZArith QArith List Bool Arith Lia Permutation.
Import ListNotations.
From Eudoxia Require Import Num.Rnd64 Model.Types Model.Dag Model.Lifecycle Model.Container Model.Pool
  Model.Executor Model.Sched Model.Simulator
  Proofs.ListFacts Proofs.LifecycleFacts Proofs.DagProof Proofs.ConserveFacts Proofs.ExecLifeFacts
  Proofs.NaiveFacts Proofs.OverbookFacts Proofs.SafetyFacts Proofs.PriorityPoolRunFacts.
Close Scope Q_scope.
Close Scope Z_scope.

(* ------------------------------------------------------------------------------------------ *)
(* 0. small facts                                                                               *)
(* ------------------------------------------------------------------------------------------ *)

Lemma ostate_eq_dec (a b : ostate) : {a = b} + {a <> b}.
Proof. decide equality. Qed.

Lemma nodup_app_disjoint {A} (a b : list A) x : NoDup (a ++ b) -> In x a -> In x b -> False.
Proof.
  induction a as [|h t IH]; cbn [app]; intros N Ha Hb; [contradiction|].
  inversion N as [|? ? Hn N']; subst. destruct Ha as [->|Ha].
  - apply Hn. apply in_or_app. right. exact Hb.
  - exact (IH N' Ha Hb).
Qed.

Lemma nodup_app_tail {A} (a b : list A) : NoDup (a ++ b) -> NoDup b.
Proof.
  induction a as [|h t IH]; cbn [app]; intros N; [exact N|].
  inversion N as [|? ? _ N']; subst. exact (IH N').
Qed.

(* an accepted request changes the state of the requested operator only, to the requested state *)
Lemma transition_changed S w op new w' o :
  transition S w op new = Ok w' -> st_of w' o <> st_of w o -> o = op /\ st_of w' o = new.
Proof.
  intros T N. destruct (transition_st_cases _ _ _ _ _ o T) as [E|[E1 E2]]; [contradiction|auto].
Qed.

(* ------------------------------------------------------------------------------------------ *)
(* 1. one executor tick over single-operator containers                                         *)
(* ------------------------------------------------------------------------------------------ *)

Definition ob_single (c : container) : Prop := exists o, c_ops c = [o].
Definition ob_asg_single (a : asg) : Prop := exists o, a_ops a = [o].
Definition ob_res_single (r : result) : Prop := exists o, r_ops r = [o].

(* [ob_expl w0 w act]: every operator whose state differs between [w0] and [w] is RUNNING in [w] or is
   an operator of a container of [act] that has completed (normally or killed) *)
Definition ob_expl (w0 w : world) (act : list container) : Prop :=
  forall o, st_of w o <> st_of w0 o ->
    st_of w o = Running \/ exists c, In c act /\ c_completed c = true /\ In o (c_ops c).

(* the same without the RUNNING alternative (the OOM killer) *)
Definition ob_chg (w0 w : world) (act : list container) : Prop :=
  forall o, st_of w o <> st_of w0 o -> exists c, In c act /\ c_completed c = true /\ In o (c_ops c).

(* completed containers stay in the list as they are *)
Definition ob_keeps (act act' : list container) : Prop :=
  forall c, In c act -> c_completed c = true -> In c act'.

Lemma ob_keeps_refl act : ob_keeps act act.
Proof. intros c H _. exact H. Qed.

Lemma ob_keeps_trans a b c : ob_keeps a b -> ob_keeps b c -> ob_keeps a c.
Proof. intros H1 H2 x Hx K. apply H2; [apply H1|]; assumption. Qed.

Lemma ob_chg_refl w act : ob_chg w w act.
Proof. intros o N. contradiction N. reflexivity. Qed.

Lemma ob_chg_trans w0 w1 w2 act1 act2 :
  ob_chg w0 w1 act1 -> ob_keeps act1 act2 -> ob_chg w1 w2 act2 -> ob_chg w0 w2 act2.
Proof.
  intros H1 K H2 o N. destruct (ostate_eq_dec (st_of w2 o) (st_of w1 o)) as [E|E].
  - rewrite E in N. destruct (H1 o N) as (c & I & Kc & O). exists c. split; [apply K; assumption|auto].
  - apply H2. exact E.
Qed.

Lemma ob_expl_chg_trans w0 w1 w2 act1 act2 :
  ob_expl w0 w1 act1 -> ob_keeps act1 act2 -> ob_chg w1 w2 act2 -> ob_expl w0 w2 act2.
Proof.
  intros H1 K H2 o N. destruct (ostate_eq_dec (st_of w2 o) (st_of w1 o)) as [E|E].
  - rewrite E in N. rewrite E. destruct (H1 o N) as [R|(c & I & Kc & O)]; [left; exact R|].
    right. exists c. split; [apply K; assumption|auto].
  - right. apply H2. exact E.
Qed.

(* Container.tick() of a single-operator container: the operator starts (RUNNING), or finishes and
   the container is completed at once *)
Lemma ctick_changes C w cons c w' cons' c' :
  ctick C w cons c = Ok (w', cons', c') -> ob_single c ->
  c_ops c' = c_ops c /\
  forall o, st_of w' o <> st_of w o ->
    In o (c_ops c) /\ (st_of w' o = Running \/ c_completed c' = true).
Proof.
  unfold ctick. intros H [o1 Eo].
  destruct (c_completed c) eqn:Cc.
  { inversion H; subst. split; [reflexivity|]. intros o N. contradiction N. reflexivity. }
  destruct (c_frozen c).
  { inversion H; subst. split; [reflexivity|]. intros o N. contradiction N. reflexivity. }
  destruct (nth_error (c_ops c) (c_opidx c)) as [op|] eqn:En; [|discriminate].
  assert (Eidx : c_opidx c = 0 /\ op = o1).
  { rewrite Eo in En. destruct (c_opidx c) as [|n]; cbn in En.
    - inversion En. auto.
    - destruct n; discriminate. }
  destruct Eidx as [Ei ->].
  apply bind_ok_inv in H. destruct H as [[w1 rest] [E H]].
  assert (X1 : forall o, st_of w1 o <> st_of w o -> o = o1 /\ st_of w1 o = Running).
  { destruct (c_rest c) as [r|].
    - inversion E; subst. intros o N. contradiction N. reflexivity.
    - apply bind_ok_inv in E. destruct E as [w0 [T E]]. inversion E; subst.
      intros o N. eapply transition_changed; eauto. }
  assert (Y1 : forall o, st_of w1 o <> st_of w o ->
                 In o (c_ops c) /\ (st_of w1 o = Running \/ False)).
  { intros o N. destruct (X1 o N) as [-> R]. split; [rewrite Eo; left; reflexivity | left; exact R]. }
  cbv beta iota in H.
  destruct rest as [|m rest']; [discriminate|].
  destruct (set_mem C c cons m) as [c1 cons1] eqn:Sm.
  apply set_mem_fields in Sm. destruct Sm as (O1 & _ & _).
  destruct (Qltb (c_ram c) m).
  { inversion H; subst. cbn [c_ops tick_elapsed with_pos]. split; [exact O1|].
    intros o N. destruct (Y1 o N) as [I [R|[]]]. split; [exact I | left; exact R]. }
  destruct rest' as [|m' r''].
  2:{ inversion H; subst. cbn [c_ops tick_elapsed with_pos]. split; [exact O1|].
      intros o N. destruct (Y1 o N) as [I [R|[]]]. split; [exact I | left; exact R]. }
  apply bind_ok_inv in H. destruct H as [w2 [T H]]. cbv zeta in H.
  destruct (Nat.eqb (S (c_opidx c)) (length (c_ops c))) eqn:Eq.
  2:{ rewrite Ei, Eo in Eq. discriminate. }
  destruct (mark_completed C (with_pos c1 (S (c_opidx c)) None false false) cons1 false)
    as [c2 cons2] eqn:Mc.
  inversion H; subst.
  pose proof (mark_completed_ops _ _ _ _ _ _ Mc) as O2.
  pose proof (mark_completed_completed _ _ _ _ _ _ Mc) as K2.
  cbn [c_ops with_pos] in O2.
  split; [cbn [c_ops tick_elapsed]; congruence|].
  intros o N. destruct (Nat.eq_dec o o1) as [->|Ne].
  - split; [rewrite Eo; left; reflexivity|]. right. cbn [c_completed tick_elapsed]. exact K2.
  - exfalso. apply N. rewrite (transition_st_other _ _ _ _ _ _ T Ne).
    destruct (ostate_eq_dec (st_of w1 o) (st_of w o)) as [E'|E']; [exact E'|].
    destruct (X1 o E') as [E'' _]. contradiction.
Qed.

(* kill(): the container is completed at once; only its own operators move *)
Lemma ckill_changes C w cons c w' cons' c' :
  ckill C w cons c = Ok (w', cons', c') ->
  c_completed c = false /\ c_completed c' = true /\ c_ops c' = c_ops c /\
  forall o, st_of w' o <> st_of w o -> In o (c_ops c).
Proof.
  unfold ckill. intros H. destruct (c_completed c) eqn:Cc; [discriminate|].
  apply bind_ok_inv in H. destruct H as [w1 [T H]].
  destruct (mark_completed C c cons true) as [c2 cons2] eqn:Mc. inversion H; subst.
  split; [reflexivity|]. split; [eapply mark_completed_completed; eauto|].
  split; [eapply mark_completed_ops; eauto|].
  intros o N. destruct (in_dec Nat.eq_dec o (skipn (c_opidx c) (c_ops c))) as [Hi|Hn].
  - eapply In_skipn; eauto.
  - exfalso. apply N. eapply transition_all_frame; eauto.
Qed.

Lemma tick_active_changes C : forall act w cons w' cons' act',
  tick_active C w cons act = Ok (w', cons', act') -> Forall ob_single act ->
  Forall ob_single act' /\ ob_expl w w' act'.
Proof.
  induction act as [|c t IH]; intros w cons w' cons' act' H Sg; cbn [tick_active] in H.
  - inversion H; subst. split; [constructor|]. intros o N. contradiction N. reflexivity.
  - inversion Sg as [|? ? Sc St]; subst.
    apply bind_ok_inv in H. destruct H as [[[w1 cons1] c1] [E1 H]].
    apply bind_ok_inv in H. destruct H as [[[w2 cons2] t2] [E2 H]]. inversion H; subst.
    destruct (ctick_changes _ _ _ _ _ _ _ E1 Sc) as [Oc X1].
    destruct (IH _ _ _ _ _ E2 St) as [S2 X2].
    split.
    + constructor; [|exact S2]. destruct Sc as [o1 Eo]. exists o1. congruence.
    + intros o N. destruct (ostate_eq_dec (st_of w' o) (st_of w1 o)) as [E|E].
      * rewrite E in N. rewrite E. destruct (X1 o N) as [Io [R|K]]; [left; exact R|].
        right. exists c1. split; [left; reflexivity|]. split; [exact K | rewrite Oc; exact Io].
      * destruct (X2 o E) as [R|(c0 & I0 & K0 & O0)]; [left; exact R|].
        right. exists c0. split; [right; exact I0 | auto].
Qed.

Lemma kill_over_limit_changes C : forall act w cons w' cons' act',
  kill_over_limit C w cons act = Ok (w', cons', act') -> Forall ob_single act ->
  Forall ob_single act' /\ ob_keeps act act' /\ ob_chg w w' act'.
Proof.
  induction act as [|c t IH]; intros w cons w' cons' act' H Sg; cbn [kill_over_limit] in H.
  - inversion H; subst. split; [constructor|]. split; [apply ob_keeps_refl | apply ob_chg_refl].
  - inversion Sg as [|? ? Sc St]; subst.
    apply bind_ok_inv in H. destruct H as [[[w1 cons1] c1] [E1 H]].
    apply bind_ok_inv in H. destruct H as [[[w2 cons2] t2] [E2 H]]. inversion H; subst.
    assert (A : c_ops c1 = c_ops c /\ (c_completed c = true -> c1 = c) /\
                forall o, st_of w1 o <> st_of w o -> c_completed c1 = true /\ In o (c_ops c1)).
    { destruct (Qltb (c_ram c) (c_mem c)).
      - destruct (ckill_changes _ _ _ _ _ _ _ E1) as (K0 & K1 & O1 & X).
        split; [exact O1|]. split; [intros K; congruence|].
        intros o N. split; [exact K1 | rewrite O1; auto].
      - inversion E1; subst. split; [reflexivity|]. split; [reflexivity|].
        intros o N. contradiction N. reflexivity. }
    destruct A as (Oc & Kc & X1).
    destruct (IH _ _ _ _ _ E2 St) as (S2 & K2 & X2).
    split; [|split].
    + constructor; [|exact S2]. destruct Sc as [o1 Eo]. exists o1. congruence.
    + intros c0 [<-|I0] K0; [left; apply Kc; exact K0 | right; apply K2; assumption].
    + intros o N. destruct (ostate_eq_dec (st_of w' o) (st_of w1 o)) as [E|E].
      * rewrite E in N. destruct (X1 o N) as [K O]. exists c1. split; [left; reflexivity | auto].
      * destruct (X2 o E) as (c0 & I0 & K0 & O0). exists c0. split; [right; exact I0 | auto].
Qed.

Lemma kill_until_fits_changes C mx : forall order w cons act w' cons' act',
  kill_until_fits C mx w cons act order = Ok (w', cons', act') -> Forall ob_single act ->
  Forall ob_single act' /\ ob_keeps act act' /\ ob_chg w w' act'.
Proof.
  induction order as [|cid t IH]; intros w cons act w' cons' act' H Sg; cbn [kill_until_fits] in H.
  - inversion H; subst. split; [exact Sg|]. split; [apply ob_keeps_refl | apply ob_chg_refl].
  - destruct (Qleb cons mx).
    { inversion H; subst. split; [exact Sg|]. split; [apply ob_keeps_refl | apply ob_chg_refl]. }
    destruct (find_container cid act) as [c|] eqn:F; [|discriminate].
    apply bind_ok_inv in H. destruct H as [[[w1 cons1] c1] [E1 H]]. cbv beta iota in H.
    destruct (find_container_split _ _ _ F) as (l1 & l2 & Ea & Ic & Nl).
    pose proof (ckill_id _ _ _ _ _ _ _ E1) as Ic1.
    destruct (ckill_changes _ _ _ _ _ _ _ E1) as (K0 & K1 & O1 & X1).
    assert (Er : replace_container c1 act = l1 ++ c1 :: l2).
    { rewrite Ea. apply replace_container_split; [|congruence].
      rewrite Ic1, Ic. exact Nl. }
    rewrite Er in H.
    assert (Sg1 : Forall ob_single (l1 ++ c1 :: l2)).
    { rewrite Ea in Sg. apply Forall_app in Sg. destruct Sg as [Sa Sb].
      inversion Sb as [|? ? Sc Sl2]; subst. apply Forall_app. split; [exact Sa|].
      constructor; [|exact Sl2]. destruct Sc as [o1 Eo]. exists o1. congruence. }
    destruct (IH _ _ _ _ _ _ H Sg1) as (S2 & K2 & X2).
    split; [exact S2|]. split.
    + intros c0 I0 Kc0. apply K2; [|exact Kc0]. rewrite Ea in I0.
      apply in_app_iff in I0. apply in_app_iff. destruct I0 as [I0|[<-|I0]].
      * left. exact I0.
      * congruence.
      * right. right. exact I0.
    + intros o N. destruct (ostate_eq_dec (st_of w' o) (st_of w1 o)) as [E|E].
      * rewrite E in N. exists c1. split.
        -- apply K2; [|exact K1]. apply in_app_iff. right. left. reflexivity.
        -- split; [exact K1 | rewrite O1; auto].
      * apply X2. exact E.
Qed.

Lemma oom_killer_changes C mx w cons act w' cons' act' :
  oom_killer C mx w cons act = Ok (w', cons', act') -> Forall ob_single act ->
  Forall ob_single act' /\ ob_keeps act act' /\ ob_chg w w' act'.
Proof.
  unfold oom_killer. intros H Sg. apply bind_ok_inv in H. destruct H as [[[w1 cons1] act1] [E1 H]].
  cbv beta iota in H.
  destruct (kill_over_limit_changes _ _ _ _ _ _ _ E1 Sg) as (S1 & K1 & X1).
  destruct (Qleb cons1 mx); [inversion H; subst; auto|].
  destruct (kill_until_fits_changes _ _ _ _ _ _ _ _ _ H S1) as (S2 & K2 & X2).
  split; [exact S2|]. split; [eapply ob_keeps_trans; eauto | eapply ob_chg_trans; eauto].
Qed.

Lemma apply_assignments_single C : forall asgs next acpu aram act next' acpu' aram' act',
  apply_assignments C next acpu aram act asgs = Ok (next', acpu', aram', act') ->
  Forall ob_asg_single asgs -> Forall ob_single act -> Forall ob_single act'.
Proof.
  induction asgs as [|a t IH]; intros next acpu aram act next' acpu' aram' act' H As Sg;
    cbn [apply_assignments] in H.
  - inversion H; subst. exact Sg.
  - inversion As as [|? ? Sa St]; subst. destruct (opcount_ok C a); [|discriminate].
    eapply IH; [exact H | exact St|]. apply Forall_app. split; [exact Sg|].
    constructor; [|constructor]. destruct Sa as [o Eo]. exists o. exact Eo.
Qed.

(* the pools of overbook: nothing suspending, every active container holds one operator *)
Definition ob_pool_ok (p : pool) : Prop := p_suspending p = [] /\ Forall ob_single (p_active p).

Lemma pool_tick_changes C w next p asgs w' next' p' res :
  pool_tick C w next p [] asgs = Ok (w', next', p', res) ->
  ob_pool_ok p -> Forall ob_asg_single asgs ->
  ob_pool_ok p' /\ Forall ob_res_single res /\
  forall o, st_of w' o <> st_of w o ->
    st_of w' o = Running \/ exists r, In r res /\ In o (r_ops r).
Proof.
  unfold pool_tick. intros H [Sg Act] As.
  apply bind_ok_inv in H. destruct H as [[[[w1 act1] sing1] cons1] [E1 H]].
  inversion E1; subst w1 act1 sing1 cons1. clear E1. cbv beta iota in H.
  apply bind_ok_inv in H. destruct H as [[[[next2 acpu2] aram2] act2] [E2 H]]. cbv beta iota in H.
  assert (S2 : Forall ob_single act2).
  { destruct asgs as [|a0 asgs'].
    - inversion E2; subst. exact Act.
    - apply bind_ok_inv in E2. destruct E2 as [u [_ E2]]. eapply apply_assignments_single; eauto. }
  rewrite Sg in H.
  apply bind_ok_inv in H. destruct H as [[w3 sing3] [E3 H]].
  cbn [tick_suspending] in E3. inversion E3; subst w3 sing3. clear E3. cbv beta iota zeta in H.
  apply bind_ok_inv in H. destruct H as [[[w4 cons4] act4] [E4 H]]. cbv beta iota in H.
  apply bind_ok_inv in H. destruct H as [[[w5 cons5] act5] [E5 H]]. cbv beta iota in H.
  inversion H; subst. clear H.
  destruct (tick_active_changes _ _ _ _ _ _ _ E4 S2) as [S4 X4].
  destruct (oom_killer_changes _ _ _ _ _ _ _ _ E5 S4) as (S5 & K5 & X5).
  pose proof (ob_expl_chg_trans _ _ _ _ _ X4 K5 X5) as X.
  split; [|split].
  - split; [reflexivity|]. cbn [p_active upd_pool]. apply Forall_filter_keep. exact S5.
  - apply Forall_forall. intros r Hr. apply in_map_iff in Hr. destruct Hr as (c & <- & Hc).
    apply filter_In in Hc. destruct Hc as [Hc _]. rewrite Forall_forall in S5.
    destruct (S5 c Hc) as [o Eo]. exists o. exact Eo.
  - intros o N. destruct (X o N) as [R|(c & Ic & Kc & Oc)]; [left; exact R|].
    right. exists (result_of (p_id p) c). split; [|exact Oc].
    apply in_map. apply filter_In. auto.
Qed.

Lemma pools_tick_changes C asgs : forall ps w next w' next' ps' res,
  pools_tick C w next ps [] asgs = Ok (w', next', ps', res) ->
  Forall ob_pool_ok ps -> Forall ob_asg_single asgs ->
  Forall ob_pool_ok ps' /\ Forall ob_res_single res /\
  forall o, st_of w' o <> st_of w o ->
    st_of w' o = Running \/ exists r, In r res /\ In o (r_ops r).
Proof.
  induction ps as [|p t IH]; intros w next w' next' ps' res H Pk As; cbn [pools_tick] in H.
  - inversion H; subst. split; [constructor|]. split; [constructor|].
    intros o N. contradiction N. reflexivity.
  - inversion Pk as [|? ? Pp Pt]; subst. cbv zeta in H. cbn [filter] in H.
    apply bind_ok_inv in H. destruct H as [[[[w1 next1] p1] res1] [E1 H]]. cbv beta iota in H.
    apply bind_ok_inv in H. destruct H as [[[[w2 next2] t2] res2] [E2 H]]. cbv beta iota in H.
    inversion H; subst. clear H.
    destruct (pool_tick_changes _ _ _ _ _ _ _ _ _ E1 Pp (Forall_filter_keep _ _ _ As))
      as (P1 & R1 & X1).
    destruct (IH _ _ _ _ _ _ E2 Pt As) as (P2 & R2 & X2).
    split; [constructor; assumption|]. split; [apply Forall_app; auto|].
    intros o N. destruct (ostate_eq_dec (st_of w' o) (st_of w1 o)) as [E|E].
    + rewrite E in N. rewrite E. destruct (X1 o N) as [R|(r & Ir & Or)]; [left; exact R|].
      right. exists r. split; [apply in_or_app; left; exact Ir | exact Or].
    + destruct (X2 o E) as [R|(r & Ir & Or)]; [left; exact R|].
      right. exists r. split; [apply in_or_app; right; exact Ir | exact Or].
Qed.

(* X: an executor tick of overbook. An operator whose state differs afterwards is RUNNING or is the
   operator of a result of this tick; every result carries exactly one operator. *)
Theorem exec_tick_changes C s asgs s' res :
  exec_tick C s [] asgs = Ok (s', res) ->
  Forall ob_pool_ok (e_pools s) -> Forall ob_asg_single asgs ->
  Forall ob_pool_ok (e_pools s') /\ Forall ob_res_single res /\
  forall o, st_of (e_world s') o <> st_of (e_world s) o ->
    st_of (e_world s') o = Running \/ exists r, In r res /\ In o (r_ops r).
Proof.
  intros H Pk As. apply exec_tick_ok_inv in H. destruct H as (_ & _ & H).
  eapply pools_tick_changes; eauto.
Qed.

(* ------------------------------------------------------------------------------------------ *)
(* 2. the dispatch loop touches exactly the operators it assigns                                *)
(* ------------------------------------------------------------------------------------------ *)

Lemma ob_asg_transition C w op pid mr w1 :
  mk_assignment C w (ob_asg C op pid mr) = Ok w1 ->
  transition_all (cf_static C) w [op] Assigned = Ok w1.
Proof. intros M. apply mk_assignment_transition_all in M. destruct M as [_ M]. exact M. Qed.

Lemma ob_run_frame C fails w snap q q' w' snap' ev :
  ob_run C fails w snap q q' w' snap' ev ->
  forall o, ~ In o (map oe_op ev) -> st_of w' o = st_of w o.
Proof.
  induction 1 as [w snap|w snap op rest q' w' snap' ev _ _ IH|w snap op rest _ _ _
                 |w snap op rest pid mr snap1 w1 q' w' snap' ev NA As F M R IH]; intros o Ho.
  - reflexivity.
  - apply IH. exact Ho.
  - reflexivity.
  - cbn [map oe_op] in Ho. rewrite IH by (intros Hi; apply Ho; right; exact Hi).
    eapply transition_all_frame; [eapply ob_asg_transition; exact M|].
    intros [<-|[]]. apply Ho. left. reflexivity.
Qed.

Lemma ob_run_assigned C fails w snap q q' w' snap' ev :
  ob_run C fails w snap q q' w' snap' ev ->
  forall o, In o (map oe_op ev) -> o < length (w_st w) -> st_of w' o = Assigned.
Proof.
  induction 1 as [w snap|w snap op rest q' w' snap' ev _ _ IH|w snap op rest _ _ _
                 |w snap op rest pid mr snap1 w1 q' w' snap' ev NA As F M R IH]; intros o Ho L.
  - destruct Ho.
  - apply IH; assumption.
  - destruct Ho.
  - cbn [map oe_op] in Ho. destruct Ho as [<-|Ho].
    + assert (A1 : st_of w1 op = Assigned).
      { eapply transition_all_set; [eapply ob_asg_transition; exact M | left; reflexivity | exact L]. }
      destruct (asteps_st _ _ _ op (ob_run_asteps _ _ _ _ _ _ _ _ _ R)) as [E|[A _]].
      * congruence.
      * rewrite A1 in A. discriminate.
    + apply IH; [exact Ho|].
      rewrite (asteps_length _ _ _ (mk_assignment_asteps _ _ _ _ M)). exact L.
Qed.

Lemma ob_run_asg_single C fails w snap q q' w' snap' ev :
  ob_run C fails w snap q q' w' snap' ev -> Forall ob_asg_single (map oe_asg ev).
Proof.
  intros R. pose proof (ob_run_events _ _ _ _ _ _ _ _ _ R) as EV. clear R.
  induction EV as [|x t (_ & _ & _ & _ & mr & Ea & _) _ IH]; [constructor|].
  cbn [map]. constructor; [|exact IH]. exists (oe_op x). rewrite Ea. reflexivity.
Qed.

Lemma overbook_step_asg_single C s e results newp s' w' susps asgs :
  overbook_step C s e results newp = Ok (s', w', susps, asgs) -> Forall ob_asg_single asgs.
Proof.
  intros H. apply overbook_step_cases in H.
  destruct H as [(_ & _ & _ & _ & _ & ->)|(_ & proc & fails & q' & snap' & ev & _ & R & _ & _ & ->)].
  - constructor.
  - eapply ob_run_asg_single; eauto.
Qed.

(* ------------------------------------------------------------------------------------------ *)
(* 3. static descriptions built by [mk_static]                                                  *)
(* ------------------------------------------------------------------------------------------ *)

(* the operators listed for pipeline [k], and all their parents, carry the pipeline number [k] *)
Lemma mk_static_order_inv l k o :
  dags_wf l -> In o (pd_order (pipe_of (mk_static l) k)) ->
  op_pipe (mk_static l) o = k /\
  (forall p, In p (op_parents (mk_static l) o) -> op_pipe (mk_static l) p = k) /\
  o < length (s_ops (mk_static l)).
Proof.
  intros W Ho. pose proof (mk_static_orders_in_range l W k o Ho) as Lo.
  destruct (Nat.lt_ge_cases k (length (s_pipes (mk_static l)))) as [Lt|Ge].
  2:{ unfold pipe_of in Ho. rewrite nth_overflow in Ho by exact Ge. destruct Ho. }
  remember (pipe_of (mk_static l) k) as p eqn:Ep.
  assert (Hin : In p (mk_pipes 0 l)).
  { rewrite Ep. unfold pipe_of. apply nth_In. exact Lt. }
  destruct (mk_pipes_in _ _ _ Hin) as (pr & g & Hl & E & _).
  assert (Wg : wf_dag g).
  { unfold dags_wf in W. rewrite Forall_forall in W. apply (W (pr, g) Hl). }
  assert (Eo : pd_order p = map (fun i => pd_first p + i) (iterate g)) by (rewrite E at 1; reflexivity).
  assert (Ed : pd_dag p = g) by (rewrite E; reflexivity).
  assert (Hn : forall i, i < length g ->
            nth (pd_first p + i) (s_ops (mk_static l)) dummy_op =
            {| od_pipe := k; od_parents := map (fun x => pd_first p + x) (parents g i) |}).
  { intros i Hi. pose proof (mk_static_nth l k i Lt) as N. rewrite <- Ep in N.
    unfold pd_n in N. rewrite Ed in N. exact (N Hi). }
  rewrite Eo in Ho. apply in_map_iff in Ho. destruct Ho as [j [<- Hj]].
  apply (Permutation_in _ (dag_iter_perm g Wg)) in Hj. apply In_nodes in Hj.
  split; [unfold op_pipe; rewrite (Hn j Hj); reflexivity|]. split; [|exact Lo].
  intros q Hq. unfold op_parents in Hq. rewrite (Hn j Hj) in Hq. cbn [od_parents] in Hq.
  apply in_map_iff in Hq. destruct Hq as [i [<- Hi]].
  destruct (Wg j Hj) as [_ Lp]. specialize (Lp i Hi).
  unfold op_pipe. rewrite (Hn i) by lia. reflexivity.
Qed.

(* ------------------------------------------------------------------------------------------ *)
(* 4. one tick of the closed loop; the invariants                                               *)
(* ------------------------------------------------------------------------------------------ *)

(* ready = what [get_ops ... assignable true] selects: PENDING or FAILED, all parents COMPLETED *)
Definition ob_ready_op (C : cfg) (w : world) (o : nat) : Prop :=
  assignable (st_of w o) = true /\ parents_complete (cf_static C) w o = true.

(* the executor side: the world has one cell per operator, no pool has a suspending container, every
   active container and every result waiting for the next round holds exactly one operator *)
Definition ob_exec_shape (C : cfg) (s : sim) : Prop :=
  length (w_st (e_world (sm_exec s))) = length (s_ops (cf_static C)) /\
  Forall ob_pool_ok (e_pools (sm_exec s)) /\
  Forall ob_res_single (sm_results s).

(* (a) + (b) *)
Definition ob_queue_sound (C : cfg) (s : sim) : Prop :=
  NoDup (ss_queue (sm_sched s)) /\
  forall o, In o (ss_queue (sm_sched s)) -> ob_ready_op C (e_world (sm_exec s)) o.

(* (c) *)
Definition ob_queue_complete (C : cfg) (s : sim) : Prop :=
  forall k o,
    In k (map fst (sm_arrival s)) ->
    (assoc_get k (ss_fail (sm_sched s)) < max_failures)%Z ->
    ~ (exists r, In r (sm_results s) /\ r_pipe C r = k) ->
    In o (pd_order (pipe_of (cf_static C) k)) ->
    ob_ready_op C (e_world (sm_exec s)) o ->
    In o (ss_queue (sm_sched s)).

Definition ob_queue_inv (C : cfg) (s : sim) : Prop := ob_exec_shape C s /\ ob_queue_sound C s.

(* a successful tick: the round of the scheduler (no suspensions), then an executor tick that is a
   history of executor requests and satisfies X *)
Lemma ob_tick_anatomy C t s newp s' lg :
  sim_tick C AOverbook t s newp = Ok (s', lg) -> ob_exec_shape C s ->
  exists w' asgs,
    overbook_step C (sm_sched s) (sm_exec s) (sm_results s) newp = Ok (sm_sched s', w', [], asgs) /\
    map fst (sm_arrival s') = map fst (sm_arrival s) ++ newp /\
    xsteps (cf_static C) w' (e_world (sm_exec s')) /\
    (forall o, st_of (e_world (sm_exec s')) o <> st_of w' o ->
       st_of (e_world (sm_exec s')) o = Running \/
       exists r, In r (sm_results s') /\ In o (r_ops r)) /\
    ob_exec_shape C s'.
Proof.
  intros T (Ln & Pk & Rs).
  apply sim_tick_ok_inv in T.
  destruct T as (arr & ss' & w' & susps & asgs & e2 & res & Ea & Es & Ee & X1 & X2 & X3 & X4 & _).
  unfold sched_step in Es.
  pose proof (ob_no_suspend _ _ _ _ _ _ _ _ _ Es) as Su. subst susps.
  pose proof (overbook_step_asg_single _ _ _ _ _ _ _ _ _ Es) as As.
  pose proof (ob_world _ _ _ _ _ _ _ _ _ Es) as Aw.
  pose proof (exec_tick_xsteps _ _ _ _ _ _ Ee) as Xs. cbn [e_world] in Xs.
  destruct (exec_tick_changes _ _ _ _ _ Ee Pk As) as (Pk2 & Rs2 & Ch). cbn [e_world] in Ch.
  exists w', asgs. unfold ob_exec_shape. rewrite X1, X2, X3, X4.
  split; [exact Es|]. split; [eapply record_arrivals_fst; eauto|]. split; [exact Xs|].
  split; [exact Ch|]. split; [|split; assumption].
  rewrite (xsteps_length _ _ _ Xs), (asteps_length _ _ _ Aw). exact Ln.
Qed.

(* (a) + (b) through a round of the scheduler *)
Lemma ob_sched_sound C s e results newp s' w' susps asgs :
  overbook_step C s e results newp = Ok (s', w', susps, asgs) ->
  NoDup (ss_queue s) -> (forall o, In o (ss_queue s) -> ob_ready_op C (e_world e) o) ->
  NoDup (ss_queue s') /\ forall o, In o (ss_queue s') -> ob_ready_op C w' o.
Proof.
  intros H N Rd. apply overbook_step_cases in H.
  destruct H as [(_ & _ & -> & -> & _ & _)|(_ & proc & fails & q' & snap' & ev & E & R & -> & _ & _)].
  - auto.
  - cbn [ss_queue].
    destruct (ob_enqueue_fold C (e_world e) proc (ss_queue s)) as (ad & E2 & I2 & N2 & _).
    change (ob_queue C (e_world e) (ss_queue s) proc = ss_queue s ++ ad) in E2.
    specialize (N2 N).
    destruct (ob_run_queue _ _ _ _ _ _ _ _ _ R) as (pre & Eq & SL & _).
    rewrite E2 in Eq. rewrite Eq in N2.
    split; [eapply nodup_app_tail; eauto|].
    intros o Ho.
    assert (Rd0 : ob_ready_op C (e_world e) o).
    { assert (Io : In o (ss_queue s ++ ad)) by (rewrite Eq; apply in_or_app; right; exact Ho).
      apply in_app_iff in Io. destruct Io as [Io|Io]; [auto|].
      destruct (I2 o Io) as (p & _ & Hg). apply get_ops_In in Hg. destruct Hg as (_ & A & P).
      split; [exact A | apply P; reflexivity]. }
    assert (Nev : ~ In o (map oe_op ev)).
    { intros Hi. apply (sublist_In _ _ _ SL) in Hi. exact (nodup_app_disjoint _ _ _ N2 Hi Ho). }
    destruct Rd0 as [A P]. split.
    + rewrite (ob_run_frame _ _ _ _ _ _ _ _ _ R o Nev). exact A.
    + eapply parents_complete_steps; [|exact P]. apply asteps_steps. eapply ob_run_asteps; eauto.
Qed.

Lemma ob_tick_sound C t s newp s' lg :
  sim_tick C AOverbook t s newp = Ok (s', lg) -> ob_queue_inv C s -> ob_queue_inv C s'.
Proof.
  intros T [Sh [N Rd]].
  destruct (ob_tick_anatomy _ _ _ _ _ _ T Sh) as (w' & asgs & Es & _ & Xs & _ & Sh').
  split; [exact Sh'|].
  destruct (ob_sched_sound _ _ _ _ _ _ _ _ _ Es N Rd) as [N' Rd'].
  split; [exact N'|]. intros o Ho. destruct (Rd' o Ho) as [A P]. split.
  - rewrite (xsteps_assignable_frame _ _ _ o Xs A). exact A.
  - eapply parents_complete_steps; [apply xsteps_steps; exact Xs | exact P].
Qed.

(* (c) through a tick *)
Lemma ob_tick_complete C l t s newp s' lg :
  cf_static C = mk_static l -> dags_wf l ->
  sim_tick C AOverbook t s newp = Ok (s', lg) ->
  ob_queue_inv C s -> ob_queue_complete C s -> ob_queue_complete C s'.
Proof.
  intros ES W T [Sh Sd] Cp.
  destruct (ob_tick_anatomy _ _ _ _ _ _ T Sh) as (w' & asgs & Es & Ar & Xs & Ch & Sh').
  destruct Sh' as (_ & _ & Rs'). destruct Sh as (Ln & _ & _).
  intros k o Hk Hf Hr Ho [A2 P2].
  assert (ST : forall S, S = mk_static l -> In o (pd_order (pipe_of S k)) ->
               op_pipe S o = k /\ (forall p, In p (op_parents S o) -> op_pipe S p = k) /\
               o < length (s_ops S)).
  { intros S -> Ho'. apply mk_static_order_inv; assumption. }
  destruct (ST _ ES Ho) as (H1 & H2 & H3). clear ST.
  (* a result of this tick that holds an operator of pipeline k is a result of pipeline k *)
  assert (NR : forall x, op_pipe (cf_static C) x = k ->
               ~ exists r, In r (sm_results s') /\ In x (r_ops r)).
  { intros x Px (r & Ir & Ox). apply Hr. exists r. split; [exact Ir|].
    rewrite Forall_forall in Rs'. destruct (Rs' r Ir) as [x' Ex]. rewrite Ex in Ox.
    destruct Ox as [<-|[]]. unfold r_pipe. rewrite Ex. exact Px. }
  (* the executor left o and its parents alone *)
  assert (A1 : st_of w' o = st_of (e_world (sm_exec s')) o).
  { destruct (ostate_eq_dec (st_of (e_world (sm_exec s')) o) (st_of w' o)) as [E|E];
      [symmetry; exact E|].
    exfalso. destruct (Ch o E) as [R|Ex].
    - rewrite R in A2. discriminate.
    - exact (NR o H1 Ex). }
  assert (P1 : forall p, In p (op_parents (cf_static C) o) -> st_of w' p = Completed).
  { intros p Hp. pose proof (proj1 (parents_complete_spec _ _ _) P2 p Hp) as Cp2.
    destruct (ostate_eq_dec (st_of (e_world (sm_exec s')) p) (st_of w' p)) as [E|E]; [congruence|].
    exfalso. destruct (Ch p E) as [R|Ex].
    - congruence.
    - exact (NR p (H2 p Hp) Ex). }
  apply overbook_step_cases in Es.
  destruct Es as [(En & Er & Es' & Ew & _ & _)
                 |(_ & proc & fails & q' & snap' & ev & E & R & Es' & _ & _)].
  - (* nothing arrived, nothing reported: the scheduler returns at once *)
    subst newp. rewrite app_nil_r in Ar. rewrite Es' in Hf |- *.
    apply (Cp k o).
    + rewrite <- Ar. exact Hk.
    + exact Hf.
    + rewrite Er. intros (r & [] & _).
    + exact Ho.
    + subst w'. split.
      * rewrite A1. exact A2.
      * apply parents_complete_spec. exact P1.
  - rewrite Es' in Hf |- *. cbn [ss_queue ss_fail] in Hf |- *.
    pose proof (ob_run_asteps _ _ _ _ _ _ _ _ _ R) as Aw.
    (* o was ready before the round *)
    assert (A0 : st_of (e_world (sm_exec s)) o = st_of w' o).
    { destruct (asteps_st _ _ _ o Aw) as [E0|[_ E0]]; [symmetry; exact E0|].
      rewrite <- A1, E0 in A2. discriminate. }
    assert (P0 : parents_complete (cf_static C) (e_world (sm_exec s)) o = true).
    { apply parents_complete_spec. intros p Hp. specialize (P1 p Hp).
      destruct (asteps_st _ _ _ p Aw) as [E0|[_ E0]]; congruence. }
    assert (Rd0 : ob_ready_op C (e_world (sm_exec s)) o).
    { split; [rewrite A0, A1; exact A2 | exact P0]. }
    assert (G : In o (get_ops (S_of C) (e_world (sm_exec s)) k assignable true)).
    { apply get_ops_In. split; [exact Ho|]. split; [apply Rd0 | intros _; exact P0]. }
    destruct (ob_enqueue_fold C (e_world (sm_exec s)) proc (ss_queue (sm_sched s)))
      as (ad & E2 & _ & _ & A3).
    change (ob_queue C (e_world (sm_exec s)) (ss_queue (sm_sched s)) proc
            = ss_queue (sm_sched s) ++ ad) in E2.
    destruct (ob_results_spec _ _ _ _ _ _ E) as (_ & Fc & Pr).
    assert (Iq : In o (ob_queue C (e_world (sm_exec s)) (ss_queue (sm_sched s)) proc)).
    { rewrite E2. destruct (in_dec Nat.eq_dec k proc) as [Ip|Np].
      - eapply A3; eauto.
      - apply in_or_app. left. apply (Cp k o).
        + rewrite Ar in Hk. apply in_app_iff in Hk. destruct Hk as [Hk|Hk]; [exact Hk|].
          exfalso. apply Np. apply Pr. left. unfold ob_proc0. apply fold_add_absent_In. left. exact Hk.
        + rewrite (Fc k) in Hf. lia.
        + intros Ex. apply Np. apply Pr. right. exact Ex.
        + exact Ho.
        + exact Rd0. }
    destruct (ob_run_queue _ _ _ _ _ _ _ _ _ R) as (pre & Eq & _ & FA & _).
    rewrite Eq in Iq. apply in_app_iff in Iq. destruct Iq as [Ip|Iq]; [|exact Iq].
    exfalso. rewrite Forall_forall in FA. destruct (FA o Ip) as [Ab|Ie].
    + unfold abandoned, S_of in Ab. rewrite H1 in Ab. lia.
    + assert (As' : st_of w' o = Assigned).
      { eapply ob_run_assigned; eauto. rewrite Ln. exact H3. }
      rewrite A1 in As'. rewrite As' in A2. discriminate.
Qed.

(* ------------------------------------------------------------------------------------------ *)
(* 5. reachable states and whole runs                                                           *)
(* ------------------------------------------------------------------------------------------ *)

Lemma ob_init_shape C np cpu ram : ob_exec_shape C (init_sim C np cpu ram).
Proof.
  unfold ob_exec_shape, init_sim, init_estate. cbn [sm_exec sm_results e_world e_pools].
  split; [unfold init_world; cbn [w_st]; apply repeat_length|]. split; [|constructor].
  apply Forall_forall. intros p Hp. apply in_map_iff in Hp. destruct Hp as (i & <- & _).
  split; [reflexivity | constructor].
Qed.

Lemma ob_init_inv C np cpu ram : ob_queue_inv C (init_sim C np cpu ram).
Proof.
  split; [apply ob_init_shape|]. split; [constructor | intros o []].
Qed.

Lemma ob_queue_inv_reach C np cpu ram t s :
  sim_reach C AOverbook 0%Z (init_sim C np cpu ram) t s -> ob_queue_inv C s.
Proof.
  intros R. refine (sim_reach_inv C AOverbook (ob_queue_inv C) _ _ _ _ _ R (ob_init_inv _ _ _ _)).
  intros t1 s1 newp s2 lg I T. eapply ob_tick_sound; eauto.
Qed.

Lemma ob_queue_complete_reach_aux C l np cpu ram t s :
  cf_static C = mk_static l -> dags_wf l ->
  sim_reach C AOverbook 0%Z (init_sim C np cpu ram) t s -> ob_queue_inv C s /\ ob_queue_complete C s.
Proof.
  intros ES W R.
  refine (sim_reach_inv C AOverbook (fun s => ob_queue_inv C s /\ ob_queue_complete C s)
            _ _ _ _ _ R _).
  - intros t1 s1 newp s2 lg [I Cp] T. split; [eapply ob_tick_sound; eauto|].
    eapply ob_tick_complete; eauto.
  - split; [apply ob_init_inv|]. intros k o [].
Qed.

(* (a) + (b): in every state of a run of overbook no operator is queued twice and every queued operator
   is ready. No hypothesis on the static description. *)
Theorem ob_queue_sound_reach C np cpu ram t s :
  sim_reach C AOverbook 0%Z (init_sim C np cpu ram) t s ->
  NoDup (ss_queue (sm_sched s)) /\
  (forall o, In o (ss_queue (sm_sched s)) ->
     assignable (st_of (e_world (sm_exec s)) o) = true /\
     parents_complete (cf_static C) (e_world (sm_exec s)) o = true).
Proof. intros R. apply ob_queue_inv_reach in R. destruct R as [_ Sd]. exact Sd. Qed.

(* the shape of the executor under overbook: nothing is ever suspending, every container and every
   reported result holds exactly one operator *)
Theorem ob_exec_shape_reach C np cpu ram t s :
  sim_reach C AOverbook 0%Z (init_sim C np cpu ram) t s ->
  (forall p, In p (e_pools (sm_exec s)) ->
     p_suspending p = [] /\ forall c, In c (p_active p) -> exists o, c_ops c = [o]) /\
  (forall r, In r (sm_results s) -> exists o, r_ops r = [o]).
Proof.
  intros R. apply ob_queue_inv_reach in R. destruct R as [(_ & Pk & Rs) _].
  rewrite Forall_forall in Pk, Rs. split; [|exact Rs].
  intros p Hp. destruct (Pk p Hp) as [Sg Act]. split; [exact Sg|].
  rewrite Forall_forall in Act. exact Act.
Qed.

(* (c): every ready operator of an arrived, not abandoned pipeline without a pending result is queued *)
Theorem ob_queue_complete_reach C l np cpu ram t s :
  cf_static C = mk_static l -> dags_wf l ->
  sim_reach C AOverbook 0%Z (init_sim C np cpu ram) t s ->
  forall k o,
    In k (map fst (sm_arrival s)) ->
    (assoc_get k (ss_fail (sm_sched s)) < max_failures)%Z ->
    ~ (exists r, In r (sm_results s) /\ r_pipe C r = k) ->
    In o (pd_order (pipe_of (cf_static C) k)) ->
    assignable (st_of (e_world (sm_exec s)) o) = true ->
    parents_complete (cf_static C) (e_world (sm_exec s)) o = true ->
    In o (ss_queue (sm_sched s)).
Proof.
  intros ES W R k o Hk Hf Hr Ho A P.
  destruct (ob_queue_complete_reach_aux _ _ _ _ _ _ _ ES W R) as [_ Cp].
  apply (Cp k o); auto. split; assumption.
Qed.

(* (b) + (c) together: for such a pipeline the queued operators are exactly the ready ones *)
Theorem ob_queue_exact_reach C l np cpu ram t s :
  cf_static C = mk_static l -> dags_wf l ->
  sim_reach C AOverbook 0%Z (init_sim C np cpu ram) t s ->
  forall k,
    In k (map fst (sm_arrival s)) ->
    (assoc_get k (ss_fail (sm_sched s)) < max_failures)%Z ->
    ~ (exists r, In r (sm_results s) /\ r_pipe C r = k) ->
    forall o, In o (get_ops (cf_static C) (e_world (sm_exec s)) k assignable true) <->
              In o (pd_order (pipe_of (cf_static C) k)) /\ In o (ss_queue (sm_sched s)).
Proof.
  intros ES W R k Hk Hf Hr o. rewrite get_ops_In. split.
  - intros (Ho & A & P). split; [exact Ho|].
    eapply ob_queue_complete_reach; eauto.
  - intros [Ho Iq]. destruct (ob_queue_sound_reach _ _ _ _ _ _ R) as [_ Rd].
    destruct (Rd o Iq) as [A P]. split; [exact Ho|]. split; [exact A | intros _; exact P].
Qed.

(* run forms: [sf] is the state in which the run ended, normally or at the tick that raised *)
Theorem ob_queue_sound_run C np cpu ram arrivals sf logs oe :
  sim_run C AOverbook 0%Z (init_sim C np cpu ram) arrivals = (sf, logs, oe) ->
  NoDup (ss_queue (sm_sched sf)) /\
  (forall o, In o (ss_queue (sm_sched sf)) ->
     assignable (st_of (e_world (sm_exec sf)) o) = true /\
     parents_complete (cf_static C) (e_world (sm_exec sf)) o = true).
Proof.
  intros H. apply sim_run_reach in H. destruct H as [t R]. eapply ob_queue_sound_reach; eauto.
Qed.

Theorem ob_queue_complete_run C l np cpu ram arrivals sf logs oe :
  cf_static C = mk_static l -> dags_wf l ->
  sim_run C AOverbook 0%Z (init_sim C np cpu ram) arrivals = (sf, logs, oe) ->
  forall k o,
    In k (map fst (sm_arrival sf)) ->
    (assoc_get k (ss_fail (sm_sched sf)) < max_failures)%Z ->
    ~ (exists r, In r (sm_results sf) /\ r_pipe C r = k) ->
    In o (pd_order (pipe_of (cf_static C) k)) ->
    assignable (st_of (e_world (sm_exec sf)) o) = true ->
    parents_complete (cf_static C) (e_world (sm_exec sf)) o = true ->
    In o (ss_queue (sm_sched sf)).
Proof.
  intros ES W H. apply sim_run_reach in H. destruct H as [t R]. eapply ob_queue_complete_reach; eauto.
Qed.

(* ------------------------------------------------------------------------------------------ *)
(* 6. non-vacuity: an OOM kill, the retry, and a waiting pipeline                               *)
(* ------------------------------------------------------------------------------------------ *)

Module OverbookRunExample.

(* pipeline 0: operators 0, 1 (roots) and 2 (child of both); pipeline 1: operators 3, 4 (independent).
   One pool with 2 CPUs and 8 GB; every operator takes two ticks at 5 GB. Overbook gives every
   container the whole pool's 8 GB, so two running containers (10 GB) exceed the pool: the killer
   fails one of them. *)
Definition Lx : list (prio * dag) := [(Batch, [[]; []; [0; 1]]); (Query, [[]; []])].
Definition Cx : cfg :=
  {| cf_static := mk_static Lx; cf_script := fun _ _ => [5%Q; 5%Q]; cf_tps := 10%Z;
     cf_overcommit := true; cf_multi := false; cf_rnd := fun q => q |}.
Definition run_x (arrivals : list (list nat)) :=
  sim_run Cx AOverbook 0%Z (init_sim Cx 1 2%Z 8%Q) arrivals.

Lemma Lx_wf : dags_wf Lx.
Proof.
  constructor; [|constructor; [|constructor]]; intros j Hj; cbn in Hj.
  - destruct j as [|[|[|j]]]; [| | |lia]; unfold parents; cbn [nth snd]; split.
    + constructor.
    + intros q [].
    + constructor.
    + intros q [].
    + constructor; [intros [H|[]]; discriminate|]. constructor; [intros []|constructor].
    + intros q [<-|[<-|[]]]; lia.
  - destruct j as [|[|j]]; [| |lia]; unfold parents; cbn [nth snd]; split.
    + constructor.
    + intros q [].
    + constructor.
    + intros q [].
Qed.

(* tick 0: pipeline 0 arrives, operators 0 and 1 get a container each; both start, 10 GB > 8 GB,
   the container of operator 0 is killed *)
Example ex_ob_kill :
  let '(s1, logs, oe) := run_x [[0]] in
  oe = None /\ map (fun lg => map a_ops (tl_asgs lg)) logs = [[[0]; [1]]] /\
  map (st_of (e_world (sm_exec s1))) [0; 1; 2; 3; 4] = [Failed; Running; Pending; Pending; Pending] /\
  map (fun r => (r_ops r, r_err r)) (sm_results s1) = [([0], true)] /\
  ss_queue (sm_sched s1) = [] /\ sm_nfail s1 = 1%Z.
Proof. vm_compute. repeat split. Qed.

(* tick 1: pipeline 1 arrives and the failure is reported: operators 3, 4 and, again, the failed
   operator 0 are queued; one CPU is free, operator 3 is assigned, 4 and 0 wait *)
Example ex_ob_requeued :
  let '(s2, logs, oe) := run_x [[0]; [1]] in
  oe = None /\ map (fun lg => map a_ops (tl_asgs lg)) logs = [[[0]; [1]]; [[3]]] /\
  ss_queue (sm_sched s2) = [4; 0] /\ ss_fail (sm_sched s2) = [(0, 1%Z)] /\
  map (st_of (e_world (sm_exec s2))) [0; 1; 2; 3; 4] = [Failed; Completed; Pending; Running; Pending] /\
  map fst (sm_arrival s2) = [0; 1] /\
  map (fun r => (r_ops r, r_pipe Cx r)) (sm_results s2) = [([1], 0)].
Proof. vm_compute. repeat split. Qed.

(* the completeness theorem applies in that state: pipeline 1 has arrived, has no failure and no
   pending result; its ready operator 4 must be queued *)
Definition s2x : sim := fst (fst (run_x [[0]; [1]])).

Example ex_ob_complete_applies : In 4 (ss_queue (sm_sched s2x)).
Proof.
  assert (E : sim_run Cx AOverbook 0%Z (init_sim Cx 1 2%Z 8%Q) [[0]; [1]]
              = (s2x, snd (fst (run_x [[0]; [1]])), snd (run_x [[0]; [1]]))).
  { unfold s2x, run_x.
    destruct (sim_run Cx AOverbook 0%Z (init_sim Cx 1 2%Z 8%Q) [[0]; [1]]) as [[a b] c]. reflexivity. }
  apply (ob_queue_complete_run Cx Lx 1 2%Z 8%Q [[0]; [1]] s2x _ _ eq_refl Lx_wf E 1 4).
  - vm_compute. right. left. reflexivity.
  - vm_compute. reflexivity.
  - assert (Er : map (r_pipe Cx) (sm_results s2x) = [0]) by (vm_compute; reflexivity).
    intros (r & Ir & Ek). apply (in_map (r_pipe Cx)) in Ir. rewrite Er, Ek in Ir.
    destruct Ir as [D|[]]. discriminate.
  - vm_compute. right. left. reflexivity.
  - vm_compute. reflexivity.
  - vm_compute. reflexivity.
Qed.

(* the whole run: operator 0 is retried in tick 4 (after 3 and 4), operator 2 starts once both its
   parents are completed; one failed container, no error, everything completed, queue empty *)
Example ex_ob_retry_run :
  let '(sf, logs, oe) := run_x [[0]; [1]; []; []; []; []; []; []] in
  oe = None /\ sm_nfail sf = 1%Z /\ ss_queue (sm_sched sf) = [] /\
  map (fun lg => map a_ops (tl_asgs lg)) logs = [[[0]; [1]]; [[3]]; [[4]]; [[0]]; []; [[2]]; []; []] /\
  map (st_of (e_world (sm_exec sf))) [0; 1; 2; 3; 4] =
    [Completed; Completed; Completed; Completed; Completed].
Proof. vm_compute. repeat split. Qed.

End OverbookRunExample.
