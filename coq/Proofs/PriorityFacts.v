(* C12: the priority scheduler (Model/Sched.v, priority_step): strict priority order within a round,
   work conservation, FIFO within a class, query-only preemption, and re-offering of suspended work. *)
From Coq Require Import ZArith QArith List Bool Arith Lia Lqa.
Import ListNotations.
From Eudoxia Require Import Num.Rnd64 Model.Types Model.Dag Model.Lifecycle Model.Container Model.Pool
  Model.Executor Model.Sched Proofs.ListFacts Proofs.LifecycleFacts Proofs.ExecLifeFacts.
Close Scope Q_scope.
Close Scope Z_scope.

(* ------------------------------------------------------------------------------------------ *)
(* 0. small facts                                                                              *)
(* ------------------------------------------------------------------------------------------ *)

Lemma prio_eqb_eq a b : prio_eqb a b = true <-> a = b.
Proof. destruct a, b; cbn; split; intros H; try reflexivity; try discriminate. Qed.

Lemma prio_eqb_refl a : prio_eqb a a = true.
Proof. destruct a; reflexivity. Qed.

Lemma Qleb_true a b : Qleb a b = true <-> (a <= b)%Q.
Proof. unfold Qleb. apply Qle_bool_iff. Qed.

Lemma Qleb_false a b : Qleb a b = false <-> (b < a)%Q.
Proof.
  unfold Qleb. split; intros H.
  - apply Qnot_le_lt. intros L. apply Qle_bool_iff in L. congruence.
  - destruct (Qle_bool a b) eqn:E; [|reflexivity]. apply Qle_bool_iff in E. lra.
Qed.

Lemma Qltb_true a b : Qltb a b = true <-> (a < b)%Q.
Proof. unfold Qltb. rewrite negb_true_iff. apply (Qleb_false b a). Qed.

Lemma Qltb_false a b : Qltb a b = false <-> (b <= a)%Q.
Proof. unfold Qltb. rewrite negb_false_iff. apply (Qleb_true b a). Qed.

Lemma Qeqb_true a b : Qeqb a b = true <-> (a == b)%Q.
Proof. unfold Qeqb. apply Qeq_bool_iff. Qed.

Lemma Qeqb_false a b : Qeqb a b = false <-> ~ (a == b)%Q.
Proof.
  unfold Qeqb. split; intros H.
  - intros E. apply Qeq_bool_iff in E. congruence.
  - destruct (Qeq_bool a b) eqn:E; [|reflexivity]. apply Qeq_bool_iff in E. contradiction.
Qed.

(* the queue of a class after a push *)
Definition is_class (p : prio) (j : job) : bool := prio_eqb (j_prio j) p.

Lemma queue_of_push s j q p :
  queue_of (push_job s j q) p = queue_of s p ++ (if prio_eqb q p then [j] else []).
Proof. destruct q, p; cbn; try rewrite app_nil_r; reflexivity. Qed.

Lemma push_job_suspending s j q : ss_suspending (push_job s j q) = ss_suspending s.
Proof. destruct q; reflexivity. Qed.
Lemma push_job_requeued s j q : ss_requeued (push_job s j q) = ss_requeued s.
Proof. destruct q; reflexivity. Qed.
Lemma push_job_oom s j q : ss_oom (push_job s j q) = ss_oom s.
Proof. destruct q; reflexivity. Qed.
Lemma push_job_queue s j q : ss_queue (push_job s j q) = ss_queue s.
Proof. destruct q; reflexivity. Qed.
Lemma push_job_fail s j q : ss_fail (push_job s j q) = ss_fail s.
Proof. destruct q; reflexivity. Qed.

(* pushing a list of jobs, each under its own priority *)
Lemma queue_of_push_own s j p :
  queue_of (push_job s j (j_prio j)) p = queue_of s p ++ filter (is_class p) [j].
Proof. rewrite queue_of_push. cbn [filter]. unfold is_class. destruct (prio_eqb (j_prio j) p); reflexivity. Qed.


Definition mk_asg (j : job) (pid : nat) (cpu : Z) (ram : Q) : asg :=
  {| a_ops := j_ops j; a_cpu := cpu; a_ram := ram; a_prio := j_prio j; a_pool := Z.of_nat pid |}.

Lemma ps_take_acpu x c r : ps_acpu (ps_take x c r) = (ps_acpu x - c)%Z.
Proof. reflexivity. Qed.
Lemma ps_take_aram x c r : ps_aram (ps_take x c r) = (ps_aram x - r)%Q.
Proof. reflexivity. Qed.

Lemma mk_assignment_ok_args C w a w' : mk_assignment C w a = Ok w' -> args_ok a.
Proof.
  unfold mk_assignment, args_ok. intros H.
  destruct (Nat.eqb (length (a_ops a)) 0); [discriminate|].
  destruct (Z.leb (a_cpu a) 0); [discriminate|].
  destruct (Qleb (a_ram a) 0); [discriminate|]. auto.
Qed.

Lemma args_ok_pos a : args_ok a -> a_ops a <> [] /\ (0 < a_cpu a)%Z /\ (0 < a_ram a)%Q.
Proof.
  intros [A [B D]]. split; [|split].
  - intros E. rewrite E in A. discriminate.
  - apply Z.leb_gt in B. exact B.
  - apply Qleb_false in D. exact D.
Qed.

Lemma new_job_size_all_or_less C x :
  (fst (new_job_size C x) = ps_acpu x /\ snd (new_job_size C x) = ps_aram x) \/
  ((fst (new_job_size C x) < ps_acpu x)%Z /\ (snd (new_job_size C x) < ps_aram x)%Q).
Proof.
  unfold new_job_size. cbv zeta.
  destruct ((ps_acpu x <=? _)%Z || Qleb (ps_aram x) _) eqn:E; cbn [fst snd].
  - left. auto.
  - right. apply orb_false_iff in E. destruct E as [E1 E2].
    apply Z.leb_gt in E1. apply Qleb_false in E2. auto.
Qed.

Lemma In_firstn {A} (x : A) n : forall l, In x (firstn n l) -> In x l.
Proof.
  induction n as [|n IH]; intros [|h t] H; cbn in *; try contradiction.
  destruct H as [H|H]; [left; exact H | right; apply IH; exact H].
Qed.

Lemma filter_app' {A} (f : A -> bool) l1 l2 : filter f (l1 ++ l2) = filter f l1 ++ filter f l2.
Proof. induction l1 as [|a t IH]; cbn; [reflexivity|]. destruct (f a); cbn; rewrite IH; reflexivity. Qed.

Lemma filter_one_app {A} (f : A -> bool) a l : filter f [a] ++ filter f l = filter f (a :: l).
Proof. cbn [filter]. destruct (f a); reflexivity. Qed.

Lemma sumZ_app' l1 l2 : sumZ (l1 ++ l2) = (sumZ l1 + sumZ l2)%Z.
Proof. induction l1 as [|x t IH]; cbn [sumZ app]; [reflexivity | rewrite IH; lia]. Qed.
Lemma sumQ_app' l1 l2 : (sumQ (l1 ++ l2) == sumQ l1 + sumQ l2)%Q.
Proof. induction l1 as [|x t IH]; cbn [sumQ app]; [lra | rewrite IH; lra]. Qed.

(* ------------------------------------------------------------------------------------------ *)
(* 1. get_pool_with_max_avail_ram                                                              *)
(* ------------------------------------------------------------------------------------------ *)

(* a pool is depleted when it has no free CPU or no free RAM *)
Definition depleted_pool (x : pstat) : Prop := (ps_acpu x <= 0)%Z \/ (ps_aram x <= 0)%Q.
Definition depleted (stats : list pstat) : Prop := Forall depleted_pool stats.

Lemma max_ram_pool_some_stays : forall stats i b br, exists k, max_ram_pool stats i (Some b) br = Some k.
Proof.
  induction stats as [|x t IH]; intros i b br; cbn [max_ram_pool]; [eauto|].
  destruct ((0 <? ps_acpu x)%Z && Qltb br (ps_aram x)); apply IH.
Qed.

Lemma max_ram_pool_none_gen : forall stats i br,
  max_ram_pool stats i None br = None <->
  Forall (fun x => (ps_acpu x <= 0)%Z \/ (ps_aram x <= br)%Q) stats.
Proof.
  induction stats as [|x t IH]; intros i br; cbn [max_ram_pool].
  - split; [constructor | reflexivity].
  - destruct ((0 <? ps_acpu x)%Z && Qltb br (ps_aram x)) eqn:E.
    + apply andb_true_iff in E. destruct E as [E1 E2]. apply Z.ltb_lt in E1. apply Qltb_true in E2.
      split; intros H.
      * destruct (max_ram_pool_some_stays t (S i) i (ps_aram x)) as [k Hk]. congruence.
      * inversion H as [|? ? [Hx|Hx] _]; subst; [lia|lra].
    + rewrite IH. split; intros H.
      * constructor; [|exact H]. apply andb_false_iff in E. destruct E as [E|E].
        -- left. apply Z.ltb_ge in E. exact E.
        -- right. apply Qltb_false in E. exact E.
      * inversion H; subst. assumption.
Qed.

(* P1 ("depleted"): the search fails exactly when every pool has run out of CPU or of RAM *)
Theorem max_ram_pool_none stats i :
  max_ram_pool stats i None 0%Q = None <-> depleted stats.
Proof. apply max_ram_pool_none_gen. Qed.

Lemma max_ram_pool_some_gen : forall stats i best br pid,
  max_ram_pool stats i best br = Some pid ->
  best = Some pid \/
  (i <= pid /\ pid < i + length stats /\
   (0 < ps_acpu (nth (pid - i) stats dummy_stat))%Z /\ (br < ps_aram (nth (pid - i) stats dummy_stat))%Q).
Proof.
  induction stats as [|x t IH]; intros i best br pid H; cbn [max_ram_pool] in H; [left; exact H|].
  destruct ((0 <? ps_acpu x)%Z && Qltb br (ps_aram x)) eqn:E.
  - apply andb_true_iff in E. destruct E as [E1 E2]. apply Z.ltb_lt in E1. apply Qltb_true in E2.
    apply IH in H. right. destruct H as [H|[H1 [H2 [H3 H4]]]].
    + injection H as <-. cbn [length]. replace (i - i) with 0 by lia. cbn [nth]. repeat split; auto; lia.
    + cbn [length]. replace (pid - i) with (S (pid - S i)) by lia. cbn [nth].
      repeat split; auto; try lia. lra.
  - apply IH in H. destruct H as [H|[H1 [H2 [H3 H4]]]]; [left; exact H|]. right.
    cbn [length]. replace (pid - i) with (S (pid - S i)) by lia. cbn [nth].
    repeat split; auto; lia.
Qed.

(* the chosen pool exists and has free CPU and free RAM *)
Lemma max_ram_pool_some stats pid :
  max_ram_pool stats 0 None 0%Q = Some pid ->
  pid < length stats /\ (0 < ps_acpu (nth pid stats dummy_stat))%Z /\ (0 < ps_aram (nth pid stats dummy_stat))%Q.
Proof.
  intros H. apply max_ram_pool_some_gen in H. destruct H as [H|[H1 [H2 [H3 H4]]]]; [discriminate|].
  rewrite Nat.sub_0_r in *. auto.
Qed.

(* ------------------------------------------------------------------------------------------ *)
(* 2. one step of the scan                                                                     *)
(* ------------------------------------------------------------------------------------------ *)

(* an errored retry whose doubled request does not fit into the chosen pool: dropped silently *)
Definition pr_nofit (x : pstat) (j : job) : bool :=
  match j_retry j with
  | Some rs => rt_err rs && ((ps_acpu x <? 2 * rt_cpu rs)%Z || Qltb (ps_aram x) (2 * rt_ram rs)%Q)
  | None => false
  end.
(* an errored retry that fits but reaches half of the pool: abandoned and counted *)
Definition pr_cut (C : cfg) (x : pstat) (j : job) : bool :=
  match j_retry j with
  | Some rs => rt_err rs && over_half C x (2 * rt_cpu rs)%Z (2 * rt_ram rs)%Q
  | None => false
  end.
Definition pr_size (C : cfg) (x : pstat) (j : job) : Z * Q :=
  match j_retry j with
  | Some rs =>
      if rt_err rs then ((2 * rt_cpu rs)%Z, (2 * rt_ram rs)%Q)
      else if (rt_cpu rs <? ps_acpu x)%Z && Qltb (rt_ram rs) (ps_aram x) then (rt_cpu rs, rt_ram rs)
      else new_job_size C x
  | None => new_job_size C x
  end.
(* the job is a retry of a failed container *)
Definition retry_err (j : job) : bool :=
  match j_retry j with Some rs => rt_err rs | None => false end.

Definition bump_n (r : res (nat * list pstat * world * list asg * Z)) (a : option asg)
  : res (nat * list pstat * world * list asg * Z) :=
  do r' <- r;
  let '(n, x'', w'', asgs, oom'') := r' in
  Ok (S n, x'', w'', (match a with Some y => y :: asgs | None => asgs end), oom'').

Lemma pr_scan_cons C w stats j rest oom :
  pr_scan C w stats (j :: rest) oom =
  match max_ram_pool stats 0 None 0%Q with
  | None => Ok (0, stats, w, [], oom)
  | Some pid =>
      let x := nth pid stats dummy_stat in
      if pr_nofit x j then bump_n (pr_scan C w stats rest oom) None
      else if pr_cut C x j then bump_n (pr_scan C w stats rest (oom + 1)%Z) None
      else let a := mk_asg j pid (fst (pr_size C x j)) (snd (pr_size C x j)) in
           do w' <- mk_assignment C w a;
           bump_n (pr_scan C w' (set_stat stats pid (ps_take x (a_cpu a) (a_ram a))) rest oom) (Some a)
  end.
Proof.
  cbn [pr_scan]. destruct (max_ram_pool stats 0 None 0%Q) as [pid|]; [|reflexivity].
  cbv zeta. unfold pr_nofit, pr_cut, pr_size, bump_n, mk_asg.
  destruct (j_retry j) as [rs|].
  - destruct (rt_err rs); cbn [andb].
    + destruct ((ps_acpu (nth pid stats dummy_stat) <? 2 * rt_cpu rs)%Z
                || Qltb (ps_aram (nth pid stats dummy_stat)) (2 * rt_ram rs)%Q); [reflexivity|].
      destruct (over_half C (nth pid stats dummy_stat) (2 * rt_cpu rs)%Z (2 * rt_ram rs)%Q); reflexivity.
    + destruct ((rt_cpu rs <? ps_acpu (nth pid stats dummy_stat))%Z
                && Qltb (rt_ram rs) (ps_aram (nth pid stats dummy_stat))); [reflexivity|].
      destruct (new_job_size C (nth pid stats dummy_stat)) as [jc jr]. reflexivity.
  - destruct (new_job_size C (nth pid stats dummy_stat)) as [jc jr]. reflexivity.
Qed.

(* the scan as a relation *)
Inductive pr_rel (C : cfg) :
  world -> list pstat -> list job -> Z -> nat -> list pstat -> world -> list asg -> Z -> Prop :=
| prr_nil w st oom : pr_rel C w st [] oom 0 st w [] oom
| prr_stop w st j rest oom :
    max_ram_pool st 0 None 0%Q = None -> pr_rel C w st (j :: rest) oom 0 st w [] oom
| prr_nofit w st j rest oom pid n st' w' asgs oom' :
    max_ram_pool st 0 None 0%Q = Some pid -> pr_nofit (nth pid st dummy_stat) j = true ->
    pr_rel C w st rest oom n st' w' asgs oom' ->
    pr_rel C w st (j :: rest) oom (S n) st' w' asgs oom'
| prr_cut w st j rest oom pid n st' w' asgs oom' :
    max_ram_pool st 0 None 0%Q = Some pid -> pr_nofit (nth pid st dummy_stat) j = false ->
    pr_cut C (nth pid st dummy_stat) j = true ->
    pr_rel C w st rest (oom + 1)%Z n st' w' asgs oom' ->
    pr_rel C w st (j :: rest) oom (S n) st' w' asgs oom'
| prr_start w st j rest oom pid a w1 n st' w' asgs oom' :
    max_ram_pool st 0 None 0%Q = Some pid -> pr_nofit (nth pid st dummy_stat) j = false ->
    pr_cut C (nth pid st dummy_stat) j = false ->
    a = mk_asg j pid (fst (pr_size C (nth pid st dummy_stat) j)) (snd (pr_size C (nth pid st dummy_stat) j)) ->
    mk_assignment C w a = Ok w1 ->
    pr_rel C w1 (set_stat st pid (ps_take (nth pid st dummy_stat) (a_cpu a) (a_ram a))) rest oom n st' w' asgs oom' ->
    pr_rel C w st (j :: rest) oom (S n) st' w' (a :: asgs) oom'.

Lemma pr_scan_rel C : forall queue w st oom n st' w' asgs oom',
  pr_scan C w st queue oom = Ok (n, st', w', asgs, oom') ->
  pr_rel C w st queue oom n st' w' asgs oom'.
Proof.
  induction queue as [|j rest IH]; intros w st oom n st' w' asgs oom' H.
  - cbn in H. inversion H; subst. constructor.
  - rewrite pr_scan_cons in H.
    destruct (max_ram_pool st 0 None 0%Q) as [pid|] eqn:M.
    2:{ inversion H; subst. apply prr_stop. exact M. }
    cbv zeta in H.
    destruct (pr_nofit (nth pid st dummy_stat) j) eqn:NF.
    { unfold bump_n, bind in H.
      destruct (pr_scan C w st rest oom) as [[[[[n0 x0] w0] a0] o0]|e] eqn:E; [|discriminate H].
      inversion H; subst. eapply prr_nofit; eauto. }
    destruct (pr_cut C (nth pid st dummy_stat) j) eqn:CU.
    { unfold bump_n, bind in H.
      destruct (pr_scan C w st rest (oom + 1)%Z) as [[[[[n0 x0] w0] a0] o0]|e] eqn:E; [|discriminate H].
      inversion H; subst. eapply prr_cut; eauto. }
    unfold bind at 1 in H.
    destruct (mk_assignment C w _) as [w1|e] eqn:MA; [|discriminate H].
    unfold bump_n, bind in H.
    destruct (pr_scan C w1 _ rest oom) as [[[[[n0 x0] w0] a0] o0]|e] eqn:E; [|discriminate H].
    inversion H; subst. eapply prr_start; eauto.
Qed.

Lemma pr_rel_scan C w st queue oom n st' w' asgs oom' :
  pr_rel C w st queue oom n st' w' asgs oom' ->
  pr_scan C w st queue oom = Ok (n, st', w', asgs, oom').
Proof.
  induction 1 as [w st oom|w st j rest oom M
                 |w st j rest oom pid n st' w' asgs oom' M NF _ IH
                 |w st j rest oom pid n st' w' asgs oom' M NF CU _ IH
                 |w st j rest oom pid a w1 n st' w' asgs oom' M NF CU Ea MA _ IH].
  - reflexivity.
  - rewrite pr_scan_cons, M. reflexivity.
  - rewrite pr_scan_cons, M. cbv zeta. rewrite NF, IH. reflexivity.
  - rewrite pr_scan_cons, M. cbv zeta. rewrite NF, CU, IH. reflexivity.
  - rewrite pr_scan_cons, M. cbv zeta. rewrite NF, CU, <- Ea, MA. unfold bind at 1. rewrite IH. reflexivity.
Qed.

(* ------------------------------------------------------------------------------------------ *)
(* 3. P1: the scan removes a prefix; assignments come from the scanned jobs, in order          *)
(* ------------------------------------------------------------------------------------------ *)

Definition from_job (j : job) (a : asg) : Prop := a_ops a = j_ops j /\ a_prio a = j_prio j.

(* [asgs] is made, in order, from the jobs [js]: each job yields one assignment with exactly its
   operators and its priority, except that retries of failed containers may yield none *)
Inductive scan_sub : list job -> list asg -> Prop :=
| ssb_nil : scan_sub [] []
| ssb_skip j js asgs : retry_err j = true -> scan_sub js asgs -> scan_sub (j :: js) asgs
| ssb_take j js a asgs : from_job j a -> scan_sub js asgs -> scan_sub (j :: js) (a :: asgs).

Lemma pr_nofit_err x j : pr_nofit x j = true -> retry_err j = true.
Proof.
  unfold pr_nofit, retry_err. destruct (j_retry j) as [rs|]; [|discriminate].
  intros H. apply andb_true_iff in H. tauto.
Qed.
Lemma pr_cut_err C x j : pr_cut C x j = true -> retry_err j = true.
Proof.
  unfold pr_cut, retry_err. destruct (j_retry j) as [rs|]; [|discriminate].
  intros H. apply andb_true_iff in H. tauto.
Qed.

Ltac pr_induction H :=
  induction H as [w st oom|w st j rest oom M
                 |w st j rest oom pid n st' w' asgs oom' M NF _ IH
                 |w st j rest oom pid n st' w' asgs oom' M NF CU _ IH
                 |w st j rest oom pid a w1 n st' w' asgs oom' M NF CU Ea MA _ IH].

Lemma pr_rel_n_le C w st queue oom n st' w' asgs oom' :
  pr_rel C w st queue oom n st' w' asgs oom' -> n <= length queue.
Proof. intros H. pr_induction H; cbn [length]; lia. Qed.

Lemma pr_rel_sub C w st queue oom n st' w' asgs oom' :
  pr_rel C w st queue oom n st' w' asgs oom' -> scan_sub (firstn n queue) asgs.
Proof.
  intros H. pr_induction H; cbn [firstn].
  - constructor.
  - constructor.
  - apply ssb_skip; [eapply pr_nofit_err; eauto | exact IH].
  - apply ssb_skip; [eapply pr_cut_err; eauto | exact IH].
  - apply ssb_take; [|exact IH]. subst a. split; reflexivity.
Qed.

Lemma scan_sub_In_r js asgs a :
  scan_sub js asgs -> In a asgs -> exists j, In j js /\ from_job j a.
Proof.
  induction 1 as [|j js asgs E _ IH|j js b asgs F _ IH]; intros Hin.
  - destruct Hin.
  - destruct (IH Hin) as [j0 [H1 H2]]. exists j0. split; [right; exact H1 | exact H2].
  - destruct Hin as [<-|Hin].
    + exists j. split; [left; reflexivity | exact F].
    + destruct (IH Hin) as [j0 [H1 H2]]. exists j0. split; [right; exact H1 | exact H2].
Qed.

(* a scanned job that is not the retry of a failed container always gets its container *)
Lemma scan_sub_In_l js asgs j :
  scan_sub js asgs -> In j js -> retry_err j = false -> exists a, In a asgs /\ from_job j a.
Proof.
  induction 1 as [|j0 js asgs E _ IH|j0 js b asgs F _ IH]; intros Hin R.
  - destruct Hin.
  - destruct Hin as [->|Hin]; [congruence|]. apply IH; assumption.
  - destruct Hin as [->|Hin].
    + exists b. split; [left; reflexivity | exact F].
    + destruct (IH Hin R) as [a [H1 H2]]. exists a. split; [right; exact H1 | exact H2].
Qed.

(* early stop only on depletion *)
Lemma pr_rel_stop C w st queue oom n st' w' asgs oom' :
  pr_rel C w st queue oom n st' w' asgs oom' -> n < length queue -> depleted st'.
Proof.
  intros H. pr_induction H; cbn [length]; intros L; try lia; try (apply IH; lia).
  apply (max_ram_pool_none st 0). exact M.
Qed.

(* a depleted snapshot: the scan does nothing at all *)
Lemma pr_rel_depleted_noop C w st queue oom n st' w' asgs oom' :
  pr_rel C w st queue oom n st' w' asgs oom' -> depleted st ->
  n = 0 /\ st' = st /\ w' = w /\ asgs = [] /\ oom' = oom.
Proof.
  intros H D. apply (max_ram_pool_none st 0) in D.
  destruct H; try congruence; auto.
Qed.

Theorem pr_scan_prefix C w st queue oom n st' w' asgs oom' :
  pr_scan C w st queue oom = Ok (n, st', w', asgs, oom') ->
  n <= length queue /\ scan_sub (firstn n queue) asgs /\
  (n < length queue -> max_ram_pool st' 0 None 0%Q = None /\ depleted st').
Proof.
  intros H. apply pr_scan_rel in H. split; [|split].
  - eapply pr_rel_n_le; eauto.
  - eapply pr_rel_sub; eauto.
  - intros L. pose proof (pr_rel_stop _ _ _ _ _ _ _ _ _ _ H L) as D. split; [|exact D].
    apply (max_ram_pool_none st' 0). exact D.
Qed.

(* ------------------------------------------------------------------------------------------ *)
(* 4. P2: the running snapshot                                                                 *)
(* ------------------------------------------------------------------------------------------ *)

Definition on_pool (i : nat) (a : asg) : bool := (a_pool a =? Z.of_nat i)%Z.

Lemma pr_rel_length C w st queue oom n st' w' asgs oom' :
  pr_rel C w st queue oom n st' w' asgs oom' -> length st' = length st.
Proof.
  intros H. pr_induction H; auto. rewrite IH. unfold set_stat. apply set_nth_length.
Qed.

Lemma nth_set_stat st pid v i :
  pid < length st ->
  nth i (set_stat st pid v) dummy_stat = if Nat.eqb i pid then v else nth i st dummy_stat.
Proof.
  intros L. unfold set_stat. destruct (Nat.eqb i pid) eqn:E.
  - apply Nat.eqb_eq in E. subst i. apply nth_set_nth_same. exact L.
  - apply Nat.eqb_neq in E. apply nth_set_nth_other. intros ->. apply E. reflexivity.
Qed.

Lemma on_pool_mk j pid c r i : on_pool i (mk_asg j pid c r) = Nat.eqb i pid.
Proof.
  unfold on_pool, mk_asg. cbn [a_pool].
  destruct (Nat.eqb i pid) eqn:E.
  - apply Nat.eqb_eq in E. subst. apply Z.eqb_refl.
  - apply Nat.eqb_neq in E. apply Z.eqb_neq. intros H. apply Nat2Z.inj in H. congruence.
Qed.

Lemma pr_rel_snapshot C w st queue oom n st' w' asgs oom' :
  pr_rel C w st queue oom n st' w' asgs oom' ->
  forall i,
    ps_acpu (nth i st' dummy_stat) = (ps_acpu (nth i st dummy_stat) - sumZ (map a_cpu (filter (on_pool i) asgs)))%Z /\
    (ps_aram (nth i st' dummy_stat) == ps_aram (nth i st dummy_stat) - sumQ (map a_ram (filter (on_pool i) asgs)))%Q /\
    ps_tcpu (nth i st' dummy_stat) = ps_tcpu (nth i st dummy_stat) /\
    ps_tram (nth i st' dummy_stat) = ps_tram (nth i st dummy_stat).
Proof.
  intros H. pr_induction H; intros i; cbn [filter map sumZ sumQ]; auto.
  - repeat split; [lia|lra].
  - repeat split; [lia|lra].
  - destruct (max_ram_pool_some _ _ M) as [L _].
    destruct (IH i) as [I1 [I2 [I3 I4]]].
    rewrite (nth_set_stat _ _ _ _ L) in I1, I2, I3, I4.
    assert (OP : on_pool i a = Nat.eqb i pid) by (rewrite Ea; apply on_pool_mk). rewrite OP.
    destruct (Nat.eqb i pid) eqn:E.
    + apply Nat.eqb_eq in E. subst i. cbn [map sumZ sumQ].
      rewrite ps_take_acpu in I1. rewrite ps_take_aram in I2. repeat split; auto; [lia|lra].
    + repeat split; auto.
Qed.

Lemma pr_size_fits C x j :
  pr_nofit x j = false ->
  (fst (pr_size C x j) <= ps_acpu x)%Z /\ (snd (pr_size C x j) <= ps_aram x)%Q.
Proof.
  unfold pr_nofit, pr_size. intros NF.
  assert (N : (fst (new_job_size C x) <= ps_acpu x)%Z /\ (snd (new_job_size C x) <= ps_aram x)%Q).
  { destruct (new_job_size_all_or_less C x) as [[A B]|[A B]]; [rewrite A, B|]; split; try lia; lra. }
  destruct (j_retry j) as [rs|]; [|exact N].
  destruct (rt_err rs); cbn [andb] in NF.
  - apply orb_false_iff in NF. destruct NF as [N1 N2]. apply Z.ltb_ge in N1. apply Qltb_false in N2.
    cbn [fst snd]. auto.
  - destruct ((rt_cpu rs <? ps_acpu x)%Z && Qltb (rt_ram rs) (ps_aram x)) eqn:E; [|exact N].
    apply andb_true_iff in E. destruct E as [E1 E2]. apply Z.ltb_lt in E1. apply Qltb_true in E2.
    cbn [fst snd]. split; [lia|lra].
Qed.

Definition nonneg_pool (x : pstat) : Prop := (0 <= ps_acpu x)%Z /\ (0 <= ps_aram x)%Q.

Lemma Forall_set_nth {A} (P : A -> Prop) : forall l i v, Forall P l -> P v -> Forall P (set_nth l i v).
Proof.
  induction l as [|h t IH]; intros [|i] v H Pv; cbn [set_nth]; auto; inversion H; subst; constructor; auto.
Qed.

Lemma Forall_nth_d {A} (P : A -> Prop) l d i : Forall P l -> P d -> P (nth i l d).
Proof.
  intros H Pd. destruct (Nat.lt_ge_cases i (length l)) as [L|L].
  - rewrite Forall_forall in H. apply H. apply nth_In. exact L.
  - rewrite nth_overflow; assumption.
Qed.

Lemma nonneg_dummy : nonneg_pool dummy_stat.
Proof. split; cbn; [lia|lra]. Qed.

Lemma pr_rel_nonneg C w st queue oom n st' w' asgs oom' :
  pr_rel C w st queue oom n st' w' asgs oom' -> Forall nonneg_pool st -> Forall nonneg_pool st'.
Proof.
  intros H. pr_induction H; intros N; auto.
  apply IH. unfold set_stat. apply Forall_set_nth; [exact N|].
  destruct (pr_size_fits C (nth pid st dummy_stat) j NF) as [F1 F2].
  pose proof (Forall_nth_d _ _ _ pid N nonneg_dummy) as [X1 X2].
  subst a. cbn [a_cpu a_ram mk_asg]. split; [rewrite ps_take_acpu; lia | rewrite ps_take_aram; lra].
Qed.

(* admissible: per pool, the scan never hands out more than the pool has free *)
Theorem pr_rel_admissible C w st queue oom n st' w' asgs oom' :
  pr_rel C w st queue oom n st' w' asgs oom' -> Forall nonneg_pool st ->
  forall i, (sumZ (map a_cpu (filter (on_pool i) asgs)) <= ps_acpu (nth i st dummy_stat))%Z /\
            (sumQ (map a_ram (filter (on_pool i) asgs)) <= ps_aram (nth i st dummy_stat))%Q.
Proof.
  intros H N i. pose proof (pr_rel_nonneg _ _ _ _ _ _ _ _ _ _ H N) as N'.
  destruct (Forall_nth_d _ _ _ i N' nonneg_dummy) as [X1 X2].
  destruct (pr_rel_snapshot _ _ _ _ _ _ _ _ _ _ H i) as [S1 [S2 _]].
  split; [lia|lra].
Qed.

(* each assignment fits into what its pool has free at the moment it is made *)
Lemma pr_rel_fits_each C w st queue oom n st' w' asgs oom' :
  pr_rel C w st queue oom n st' w' asgs oom' ->
  forall l1 a l2 i, asgs = l1 ++ a :: l2 -> a_pool a = Z.of_nat i ->
    (a_cpu a <= ps_acpu (nth i st dummy_stat) - sumZ (map a_cpu (filter (on_pool i) l1)))%Z /\
    (a_ram a <= ps_aram (nth i st dummy_stat) - sumQ (map a_ram (filter (on_pool i) l1)))%Q.
Proof.
  intros H. pr_induction H; intros l1 b l2 i E P.
  - destruct l1; discriminate E.
  - destruct l1; discriminate E.
  - eapply IH; eauto.
  - eapply IH; eauto.
  - destruct (max_ram_pool_some _ _ M) as [L _].
    destruct l1 as [|c l1]; cbn [app] in E; injection E as E1 E2.
    + subst b. cbn [filter map sumZ sumQ]. rewrite Ea in P. cbn [a_pool mk_asg] in P.
      apply Nat2Z.inj in P. subst i. rewrite Ea. cbn [a_cpu a_ram mk_asg].
      destruct (pr_size_fits C (nth pid st dummy_stat) j NF) as [F1 F2]. split; [lia|lra].
    + subst c. destruct (IH l1 b l2 i E2 P) as [I1 I2].
      rewrite (nth_set_stat _ _ _ _ L) in I1, I2.
      cbn [filter]. assert (OP : on_pool i a = Nat.eqb i pid) by (rewrite Ea; apply on_pool_mk). rewrite OP.
      destruct (Nat.eqb i pid) eqn:Ei.
      * apply Nat.eqb_eq in Ei. subst i. cbn [map sumZ sumQ].
        rewrite ps_take_acpu in I1. rewrite ps_take_aram in I2. split; [lia|lra].
      * auto.
Qed.

Lemma pr_rel_world C w st queue oom n st' w' asgs oom' :
  pr_rel C w st queue oom n st' w' asgs oom' ->
  mk_assignments C w asgs = Ok w' /\ Forall args_ok asgs.
Proof.
  intros H. pr_induction H; auto.
  destruct IH as [I1 I2]. split.
  - cbn [mk_assignments]. rewrite MA. exact I1.
  - constructor; [|exact I2]. eapply mk_assignment_ok_args; eauto.
Qed.

Lemma pr_rel_pool_range C w st queue oom n st' w' asgs oom' b :
  pr_rel C w st queue oom n st' w' asgs oom' -> In b asgs ->
  exists pid, a_pool b = Z.of_nat pid /\ pid < length st.
Proof.
  intros H. pr_induction H; intros Hin; try contradiction; auto.
  destruct Hin as [<-|Hin].
  - exists pid. destruct (max_ram_pool_some _ _ M) as [L _]. rewrite Ea. auto.
  - destruct (IH Hin) as [p [P1 P2]]. exists p. unfold set_stat in P2. rewrite set_nth_length in P2. auto.
Qed.

Theorem pr_scan_snapshot C w st queue oom n st' w' asgs oom' :
  pr_scan C w st queue oom = Ok (n, st', w', asgs, oom') ->
  length st' = length st /\
  (forall i,
    ps_acpu (nth i st' dummy_stat) = (ps_acpu (nth i st dummy_stat) - sumZ (map a_cpu (filter (on_pool i) asgs)))%Z /\
    (ps_aram (nth i st' dummy_stat) == ps_aram (nth i st dummy_stat) - sumQ (map a_ram (filter (on_pool i) asgs)))%Q /\
    ps_tcpu (nth i st' dummy_stat) = ps_tcpu (nth i st dummy_stat) /\
    ps_tram (nth i st' dummy_stat) = ps_tram (nth i st dummy_stat)) /\
  (forall l1 a l2 i, asgs = l1 ++ a :: l2 -> a_pool a = Z.of_nat i ->
    (a_cpu a <= ps_acpu (nth i st dummy_stat) - sumZ (map a_cpu (filter (on_pool i) l1)))%Z /\
    (a_ram a <= ps_aram (nth i st dummy_stat) - sumQ (map a_ram (filter (on_pool i) l1)))%Q) /\
  (Forall nonneg_pool st ->
   forall i, (sumZ (map a_cpu (filter (on_pool i) asgs)) <= ps_acpu (nth i st dummy_stat))%Z /\
             (sumQ (map a_ram (filter (on_pool i) asgs)) <= ps_aram (nth i st dummy_stat))%Q) /\
  (forall a, In a asgs -> exists pid, a_pool a = Z.of_nat pid /\ pid < length st) /\
  Forall args_ok asgs /\ mk_assignments C w asgs = Ok w'.
Proof.
  intros H. apply pr_scan_rel in H.
  destruct (pr_rel_world _ _ _ _ _ _ _ _ _ _ H) as [W1 W2].
  split; [eapply pr_rel_length; eauto|].
  split; [apply (pr_rel_snapshot _ _ _ _ _ _ _ _ _ _ H)|].
  split; [apply (pr_rel_fits_each _ _ _ _ _ _ _ _ _ _ H)|].
  split; [apply (pr_rel_admissible _ _ _ _ _ _ _ _ _ _ H)|].
  split; [intros a Ha; apply (pr_rel_pool_range _ _ _ _ _ _ _ _ _ _ _ H Ha)|].
  auto.
Qed.

(* ------------------------------------------------------------------------------------------ *)
(* 5. the queues before the scans                                                              *)
(* ------------------------------------------------------------------------------------------ *)

Lemma pr_new_jobs_prio C w s results newp j :
  In j (pr_new_jobs C w s results newp) -> j_prio j = prio_of_pipe C (j_pipe j).
Proof.
  unfold pr_new_jobs. cbv zeta. intros H. apply in_flat_map in H. destruct H as [p [_ H]].
  destruct (filter _ _) as [|o ops] in H; [destruct H|].
  destruct (cf_multi C).
  - destruct H as [<-|[]]. reflexivity.
  - apply in_map_iff in H. destruct H as [o' [<- _]]. reflexivity.
Qed.

Lemma fold_push_queue (f : job -> prio) : forall l s,
  (forall j, In j l -> f j = j_prio j) ->
  let s1 := fold_left (fun st j => push_job st j (f j)) l s in
  (forall p, queue_of s1 p = queue_of s p ++ filter (is_class p) l) /\
  ss_suspending s1 = ss_suspending s /\ ss_oom s1 = ss_oom s /\ ss_requeued s1 = ss_requeued s /\
  ss_queue s1 = ss_queue s /\ ss_fail s1 = ss_fail s.
Proof.
  induction l as [|j t IH]; intros s Hf; cbn [fold_left]; cbv zeta.
  - repeat split; auto. intros p. cbn. rewrite app_nil_r. reflexivity.
  - assert (Hf' : forall j0, In j0 t -> f j0 = j_prio j0) by (intros j0 Hj; apply Hf; right; exact Hj).
    specialize (IH (push_job s j (f j)) Hf'). cbv zeta in IH.
    destruct IH as [I1 [I2 [I3 [I4 [I5 I6]]]]].
    rewrite push_job_suspending in I2. rewrite push_job_oom in I3. rewrite push_job_requeued in I4.
    rewrite push_job_queue in I5. rewrite push_job_fail in I6.
    repeat split; auto.
    intros p. rewrite I1. rewrite (Hf j (or_introl eq_refl)).
    rewrite queue_of_push_own. rewrite <- app_assoc. f_equal. apply filter_one_app.
Qed.

Lemma assoc_find_In {A} k (m : list (nat * A)) v : assoc_find k m = Some v -> In (k, v) m.
Proof.
  induction m as [|[a x] t IH]; cbn; [discriminate|].
  destruct (Nat.eqb a k) eqn:E.
  - intros H. inversion H; subst. apply Nat.eqb_eq in E. subst. left. reflexivity.
  - intros H. right. auto.
Qed.

Lemma assoc_del_In {A} k (m : list (nat * A)) kv : In kv (assoc_del k m) -> In kv m.
Proof. unfold assoc_del. intros H. apply filter_In in H. tauto. Qed.

(* the job re-queued for a suspended container: the one noted while it was suspending, or (when the
   suspension began and ended within one tick) one built now from its unfinished operators *)
Definition req_job (C : cfg) (w : world) (pid : nat) (m : list (nat * job)) (c : container) (j : job) : Prop :=
  In (c_id c, j) m \/ (exists j0, job_of_container w pid c = Ok j0 /\ j = job_with_pipe C j0).

Lemma req_job_weaken C w pid k m c j :
  req_job C w pid (assoc_del k m) c j -> req_job C w pid m c j.
Proof. intros [H|H]; [left; eapply assoc_del_In; eauto | right; exact H]. Qed.

Lemma job_of_container_fields w pid c j0 :
  job_of_container w pid c = Ok j0 ->
  j_ops j0 = not_completed_ops w (c_ops c) /\ j_ops j0 <> [] /\ j_prio j0 = c_prio c /\
  j_retry j0 = Some {| rt_ram := c_ram c; rt_cpu := c_cpu c; rt_err := c_error c;
                       rt_cid := c_id c; rt_pool := pid |}.
Proof.
  unfold job_of_container. destruct (not_completed_ops w (c_ops c)) as [|o ops] eqn:N; [discriminate|].
  intros H. inversion H; subst. cbn. repeat split. discriminate.
Qed.

Lemma pr_requeue_spec C w pid : forall cs s s',
  pr_requeue C w pid cs s = Ok s' ->
  exists lq,
    (forall p, queue_of s' p = queue_of s p ++ filter (is_class p) lq) /\
    ss_oom s' = ss_oom s /\ ss_queue s' = ss_queue s /\ ss_fail s' = ss_fail s /\
    (forall id, In id (ss_requeued s) -> In id (ss_requeued s')) /\
    (forall id, In id (ss_requeued s') -> In id (ss_requeued s) \/ In id (map c_id cs)) /\
    (forall kv, In kv (ss_suspending s') -> In kv (ss_suspending s)) /\
    (forall c, In c cs -> In (c_id c) (ss_requeued s')) /\
    (forall j, In j lq -> exists c, In c cs /\ ~ In (c_id c) (ss_requeued s) /\
                                    req_job C w pid (ss_suspending s) c j) /\
    (forall c, In c cs -> ~ In (c_id c) (ss_requeued s) ->
       exists c' j, In c' cs /\ c_id c' = c_id c /\ In j lq /\ req_job C w pid (ss_suspending s) c' j).
Proof.
  induction cs as [|c0 t IH]; intros s s' H.
  - cbn in H. inversion H; subst. exists [].
    split; [intros p; cbn; rewrite app_nil_r; reflexivity|].
    repeat split; auto; try (intros ? []); try (intros ? ? []); try (intros ? [] ?).
  - cbn [pr_requeue] in H.
    destruct (memb (c_id c0) (ss_requeued s)) eqn:Mb.
    + apply memb_In in Mb. apply IH in H.
      destruct H as [lq [I1 [I2 [I3 [I4 [I5 [I6 [I7 [I8 [I9 I10]]]]]]]]]].
      exists lq. split; [exact I1|]. split; [exact I2|]. split; [exact I3|]. split; [exact I4|].
      split; [exact I5|].
      split; [intros id Hid; destruct (I6 id Hid) as [G|G]; [left; exact G | right; right; exact G]|].
      split; [exact I7|].
      split; [intros c [<-|Hc]; [apply I5; exact Mb | apply I8; exact Hc]|].
      split.
      * intros j Hj. destruct (I9 j Hj) as [c [G1 G2]]. exists c. split; [right; exact G1 | exact G2].
      * intros c [<-|Hc] Hn; [contradiction|].
        destruct (I10 c Hc Hn) as [c' [j [G1 G2]]]. exists c', j. split; [right; exact G1 | exact G2].
    + apply memb_false in Mb. unfold bind at 1 in H.
      match type of H with
      | match ?r with Ok _ => _ | Err _ => _ end = _ => destruct r as [j|er] eqn:J; [|discriminate H]
      end.
      assert (RJ : req_job C w pid (ss_suspending s) c0 j).
      { destruct (assoc_find (c_id c0) (ss_suspending s)) as [j'|] eqn:F.
        - inversion J; subst. left. apply assoc_find_In. exact F.
        - right. unfold bind in J. destruct (job_of_container w pid c0) as [j0|] eqn:JC; [|discriminate J].
          inversion J; subst. eauto. }
      apply IH in H. destruct H as [lq [I1 [I2 [I3 [I4 [I5 [I6 [I7 [I8 [I9 I10]]]]]]]]]].
      rewrite push_job_oom in I2. rewrite push_job_queue in I3. rewrite push_job_fail in I4.
      rewrite push_job_requeued in I5, I6, I9, I10. rewrite push_job_suspending in I7, I9, I10.
      cbn [ss_oom ss_queue ss_fail ss_requeued ss_suspending] in I2, I3, I4, I5, I6, I7, I9, I10.
      exists (j :: lq).
      split.
      { intros p. rewrite I1, queue_of_push_own.
        destruct p; cbn [queue_of ss_q ss_i ss_b]; rewrite <- app_assoc, filter_one_app; reflexivity. }
      split; [exact I2|]. split; [exact I3|]. split; [exact I4|].
      split; [intros id Hid; apply I5; apply in_or_app; left; exact Hid|].
      split.
      { intros id Hid. destruct (I6 id Hid) as [G|G].
        - apply in_app_or in G. destruct G as [G|[<-|[]]]; [left; exact G | right; left; reflexivity].
        - right. right. exact G. }
      split; [intros kv Hkv; apply I7 in Hkv; eapply assoc_del_In; eauto|].
      split.
      { intros c [<-|Hc]; [|apply I8; exact Hc]. apply I5. apply in_or_app. right. left. reflexivity. }
      split.
      { intros j1 [<-|Hj].
        - exists c0. split; [left; reflexivity|]. split; [exact Mb | exact RJ].
        - destruct (I9 j1 Hj) as [c [G1 [G2 G3]]]. exists c. split; [right; exact G1|].
          split; [intros G; apply G2; apply in_or_app; left; exact G|].
          eapply req_job_weaken; eauto. }
      intros c Hc Hn.
      destruct (Nat.eq_dec (c_id c) (c_id c0)) as [E|E].
      { exists c0, j. split; [left; reflexivity|]. split; [symmetry; exact E|]. split; [left; reflexivity|exact RJ]. }
      destruct Hc as [<-|Hc]; [congruence|].
      assert (Hn' : ~ In (c_id c) (ss_requeued s ++ [c_id c0])).
      { intros G. apply in_app_or in G. destruct G as [G|[G|[]]]; [contradiction | congruence]. }
      destruct (I10 c Hc Hn') as [c' [j1 [G1 [G2 [G3 G4]]]]].
      exists c', j1. split; [right; exact G1|]. split; [exact G2|]. split; [right; exact G3|].
      eapply req_job_weaken; eauto.
Qed.

Lemma req_job_mono C w pid m m' c j :
  (forall kv, In kv m' -> In kv m) -> req_job C w pid m' c j -> req_job C w pid m c j.
Proof. intros Hm [H|H]; [left; apply Hm; exact H | right; exact H]. Qed.

Lemma pr_requeue_pools_spec C w : forall ps s s',
  pr_requeue_pools C w ps s = Ok s' ->
  exists lq,
    (forall p, queue_of s' p = queue_of s p ++ filter (is_class p) lq) /\
    ss_oom s' = ss_oom s /\ ss_queue s' = ss_queue s /\ ss_fail s' = ss_fail s /\
    (forall id, In id (ss_requeued s) -> In id (ss_requeued s')) /\
    (forall kv, In kv (ss_suspending s') -> In kv (ss_suspending s)) /\
    (forall p c, In p ps -> In c (p_suspended p) -> In (c_id c) (ss_requeued s')) /\
    (forall j, In j lq -> exists p c, In p ps /\ In c (p_suspended p) /\ ~ In (c_id c) (ss_requeued s) /\
                                      req_job C w (p_id p) (ss_suspending s) c j) /\
    (forall p c, In p ps -> In c (p_suspended p) -> ~ In (c_id c) (ss_requeued s) ->
       exists p' c' j, In p' ps /\ In c' (p_suspended p') /\ c_id c' = c_id c /\ In j lq /\
                       req_job C w (p_id p') (ss_suspending s) c' j).
Proof.
  induction ps as [|p0 t IH]; intros s s' H.
  - cbn in H. inversion H; subst. exists [].
    split; [intros p; cbn; rewrite app_nil_r; reflexivity|].
    repeat split; auto; try (intros ? ? []; fail); try (intros ? []; fail).
  - cbn [pr_requeue_pools] in H. unfold bind in H.
    destruct (pr_requeue C w (p_id p0) (p_suspended p0) s) as [sa|er] eqn:A; [|discriminate H].
    apply pr_requeue_spec in A. destruct A as [l1 [A1 [A2 [A3 [A4 [A5 [A6 [A7 [A8 [A9 A10]]]]]]]]]].
    apply IH in H. destruct H as [l2 [B1 [B2 [B3 [B4 [B5 [B6 [B7 [B8 B9]]]]]]]]].
    exists (l1 ++ l2).
    split; [intros p; rewrite B1, A1, filter_app', app_assoc; reflexivity|].
    split; [congruence|]. split; [congruence|]. split; [congruence|].
    split; [intros id Hid; auto|].
    split; [intros kv Hkv; auto|].
    split.
    { intros p c [<-|Hp] Hc; [apply B5; apply A8; exact Hc | eapply B7; eauto]. }
    split.
    { intros j Hj. apply in_app_or in Hj. destruct Hj as [Hj|Hj].
      - destruct (A9 j Hj) as [c [G1 [G2 G3]]]. exists p0, c. split; [left; reflexivity|]. auto.
      - destruct (B8 j Hj) as [p [c [G1 [G2 [G3 G4]]]]]. exists p, c. split; [right; exact G1|].
        split; [exact G2|]. split; [intros G; apply G3; apply A5; exact G|].
        eapply req_job_mono; eauto. }
    intros p c Hp Hc Hn.
    assert (Head : forall c1, In c1 (p_suspended p0) -> c_id c1 = c_id c ->
              exists p' c' j, In p' (p0 :: t) /\ In c' (p_suspended p') /\ c_id c' = c_id c /\
                              In j (l1 ++ l2) /\ req_job C w (p_id p') (ss_suspending s) c' j).
    { intros c1 Hc1 E1. assert (Hn1 : ~ In (c_id c1) (ss_requeued s)) by (rewrite E1; exact Hn).
      destruct (A10 c1 Hc1 Hn1) as [c' [j [G1 [G2 [G3 G4]]]]].
      exists p0, c', j. split; [left; reflexivity|]. split; [exact G1|]. split; [congruence|].
      split; [apply in_or_app; left; exact G3 | exact G4]. }
    destruct Hp as [<-|Hp]; [apply (Head c Hc eq_refl)|].
    destruct (in_dec Nat.eq_dec (c_id c) (ss_requeued sa)) as [Hin|Hnin].
    + destruct (A6 _ Hin) as [G|G]; [contradiction|].
      apply in_map_iff in G. destruct G as [c1 [E1 Hc1]]. apply (Head c1 Hc1 E1).
    + destruct (B9 p c Hp Hc Hnin) as [p' [c' [j [G1 [G2 [G3 [G4 G5]]]]]]].
      exists p', c', j. split; [right; exact G1|]. split; [exact G2|]. split; [exact G3|].
      split; [apply in_or_app; right; exact G4|]. eapply req_job_mono; eauto.
Qed.

(* ------------------------------------------------------------------------------------------ *)
(* 6. one round of the priority scheduler, decomposed                                          *)
(* ------------------------------------------------------------------------------------------ *)

Ltac inv_bind H x E :=
  match type of H with
  | bind ?r _ = Ok _ =>
      destruct r as [x|?] eqn:E; [unfold bind at 1 in H; cbv beta iota in H | discriminate H]
  end.

(* the jobs filed for new or changed pipelines this round *)
Definition pr_jobs (C : cfg) (s : sstate) (e : estate) (results : list result) (newp : list nat) : list job :=
  match newp, results with [], [] => [] | _, _ => pr_new_jobs C (e_world e) s results newp end.

(* the queue of class p when the scans start: what was queued, then the jobs filed this round, then the
   re-queued suspended containers [lq] *)
Definition pr_pre (C : cfg) (s : sstate) (e : estate) (results : list result) (newp : list nat)
           (lq : list job) (p : prio) : list job :=
  queue_of s p ++ filter (is_class p) (pr_jobs C s e results newp ++ lq).

(* the suspensions computed from the query queue left after the scans *)
Definition pr_susps (e : estate) (q : list job) : list susp :=
  match q with
  | [] => []
  | _ =>
      let iters := map (fun p => (p_id p, p_active p, false)) (e_pools e) in
      let fuel := (S (length iters)) * (S (length iters) + length (flat_map p_active (e_pools e))) in
      pr_preempt fuel (length q) iters 0 []
  end.

Theorem pr_step_inv C s e results newp s' w' susps asgs :
  priority_step C s e results newp = Ok (s', w', susps, asgs) ->
  exists m lq n1 n2 n3 st1 st2 st3 w1 w2 a1 a2 a3 o1 o2,
    note_suspending_pools C (e_world e) (e_pools e) (ss_suspending s) = Ok m /\
    (* re-queued suspended containers *)
    (forall j, In j lq -> exists p c, In p (e_pools e) /\ In c (p_suspended p) /\
                 ~ In (c_id c) (ss_requeued s) /\ req_job C (e_world e) (p_id p) m c j) /\
    (forall p c, In p (e_pools e) -> In c (p_suspended p) -> ~ In (c_id c) (ss_requeued s) ->
       exists p' c' j, In p' (e_pools e) /\ In c' (p_suspended p') /\ c_id c' = c_id c /\ In j lq /\
                       req_job C (e_world e) (p_id p') m c' j) /\
    (forall p c, In p (e_pools e) -> In c (p_suspended p) -> In (c_id c) (ss_requeued s')) /\
    (forall id, In id (ss_requeued s) -> In id (ss_requeued s')) /\
    (* the three scans, in descending priority, over one running snapshot *)
    pr_rel C (e_world e) (snapshot e) (pr_pre C s e results newp lq Query) (ss_oom s) n1 st1 w1 a1 o1 /\
    pr_rel C w1 st1 (pr_pre C s e results newp lq Interactive) o1 n2 st2 w2 a2 o2 /\
    pr_rel C w2 st2 (pr_pre C s e results newp lq Batch) o2 n3 st3 w' a3 (ss_oom s') /\
    asgs = a1 ++ a2 ++ a3 /\
    ss_q s' = skipn n1 (pr_pre C s e results newp lq Query) /\
    ss_i s' = skipn n2 (pr_pre C s e results newp lq Interactive) /\
    ss_b s' = skipn n3 (pr_pre C s e results newp lq Batch) /\
    susps = pr_susps e (ss_q s') /\
    ss_queue s' = ss_queue s /\ ss_fail s' = ss_fail s.
Proof.
  intros H. unfold priority_step in H. cbv zeta in H.
  fold (pr_jobs C s e results newp) in H.
  assert (JP : forall j, In j (pr_jobs C s e results newp) -> prio_of_pipe C (j_pipe j) = j_prio j).
  { intros j Hj. unfold pr_jobs in Hj. symmetry.
    destruct newp as [|k newp]; [destruct results as [|r results]; [destruct Hj|]|];
      eapply pr_new_jobs_prio; eauto. }
  pose proof (fold_push_queue (fun j => prio_of_pipe C (j_pipe j)) (pr_jobs C s e results newp) s JP) as N.
  cbv zeta in N.
  set (s1 := fold_left _ (pr_jobs C s e results newp) s) in *.
  destruct N as [N1 [N2 [N3 [N4 [N5 N6]]]]].
  inv_bind H m NS.
  inv_bind H s3 RQ.
  apply pr_requeue_pools_spec in RQ.
  destruct RQ as [lq [R1 [R2 [R3 [R4 [R5 [R6 [R7 [R8 R9]]]]]]]]].
  cbn [ss_oom ss_requeued ss_queue ss_fail ss_suspending] in R2, R3, R4, R5, R8, R9.
  assert (Q : forall p, queue_of s3 p = pr_pre C s e results newp lq p).
  { intros p. rewrite R1. unfold pr_pre.
    transitivity (queue_of s1 p ++ filter (is_class p) lq); [destruct p; reflexivity|].
    rewrite N1, !filter_app', <- !app_assoc. reflexivity. }
  inv_bind H r1 S1. destruct r1 as [[[[n1 st1] w1] a1] o1]. cbv beta iota in H.
  inv_bind H r2 S2. destruct r2 as [[[[n2 st2] w2] a2] o2]. cbv beta iota in H.
  inv_bind H r3 S3. destruct r3 as [[[[n3 st3] w3] a3] o3]. cbv beta iota in H.
  injection H as Hs Hw Hsu Ha. subst s' w' asgs.
  apply pr_scan_rel in S1. apply pr_scan_rel in S2. apply pr_scan_rel in S3.
  change (ss_q s3) with (queue_of s3 Query) in *.
  change (ss_i s3) with (queue_of s3 Interactive) in *.
  change (ss_b s3) with (queue_of s3 Batch) in *.
  rewrite (Q Query), (Q Interactive), (Q Batch) in *.
  exists m, lq, n1, n2, n3, st1, st2, st3, w1, w2, a1, a2, a3, o1, o2.
  cbn [ss_q ss_i ss_b ss_oom ss_queue ss_fail ss_requeued].
  rewrite N2 in NS. rewrite R2, N3 in S1. rewrite N4 in R5, R8, R9.
  split; [exact NS|]. split; [exact R8|]. split; [exact R9|]. split; [exact R7|]. split; [exact R5|].
  split; [exact S1|]. split; [exact S2|]. split; [exact S3|]. split; [reflexivity|].
  split; [reflexivity|]. split; [reflexivity|]. split; [reflexivity|].
  split; [symmetry; exact Hsu|]. split; congruence.
Qed.

(* ------------------------------------------------------------------------------------------ *)
(* 7. P3 strict priority, P4 work conservation, P5 FIFO                                        *)
(* ------------------------------------------------------------------------------------------ *)

Definition class_ok (s : sstate) : Prop :=
  (forall j, In j (ss_q s) -> j_prio j = Query) /\
  (forall j, In j (ss_i s) -> j_prio j = Interactive) /\
  (forall j, In j (ss_b s) -> j_prio j = Batch).

Lemma class_ok_queue_of s : class_ok s <-> forall p j, In j (queue_of s p) -> j_prio j = p.
Proof.
  unfold class_ok. split.
  - intros [A [B D]] p j. destruct p; cbn [queue_of]; auto.
  - intros H. repeat split; intros j Hj.
    + apply (H Query j Hj). + apply (H Interactive j Hj). + apply (H Batch j Hj).
Qed.

Lemma class_ok_init : class_ok init_sstate.
Proof. repeat split; intros j []. Qed.

Lemma pr_pre_class C s e results newp lq p j :
  class_ok s -> In j (pr_pre C s e results newp lq p) -> j_prio j = p.
Proof.
  intros K H. unfold pr_pre in H. apply in_app_or in H. destruct H as [H|H].
  - apply class_ok_queue_of with (p := p) (j := j) in K; assumption.
  - apply filter_In in H. destruct H as [_ H]. unfold is_class in H. apply prio_eqb_eq. exact H.
Qed.

Theorem pr_class_ok_preserved C s e results newp s' w' susps asgs :
  priority_step C s e results newp = Ok (s', w', susps, asgs) -> class_ok s -> class_ok s'.
Proof.
  intros H K. apply pr_step_inv in H.
  destruct H as (m & lq & n1 & n2 & n3 & st1 & st2 & st3 & w1 & w2 & a1 & a2 & a3 & o1 & o2 & H).
  destruct H as (_ & _ & _ & _ & _ & _ & _ & _ & _ & Eq & Ei & Eb & _).
  unfold class_ok. rewrite Eq, Ei, Eb.
  repeat split; intros j Hj; apply In_skipn in Hj; eapply pr_pre_class; eauto.
Qed.

Lemma skipn_nonnil {A} n (l : list A) : skipn n l <> [] -> n < length l.
Proof.
  intros H. destruct (Nat.lt_ge_cases n (length l)) as [L|L]; [exact L|].
  exfalso. apply H. apply skipn_all2. exact L.
Qed.

Lemma pr_rel_class C w st queue oom n st' w' asgs oom' p :
  pr_rel C w st queue oom n st' w' asgs oom' -> (forall j, In j queue -> j_prio j = p) ->
  forall a, In a asgs -> a_prio a = p.
Proof.
  intros H K a Ha. apply pr_rel_sub in H.
  destruct (scan_sub_In_r _ _ _ H Ha) as [j [Hj [_ F]]]. rewrite F. apply K. eapply In_firstn; eauto.
Qed.

(* P3: the assignments of a round are those of the query scan, then of the interactive scan, then of
   the batch scan; if a query job is left waiting nothing at all was given to interactive or batch
   work, and if an interactive job is left waiting nothing was given to batch work *)
Theorem priority_order C s e results newp s' w' susps asgs :
  priority_step C s e results newp = Ok (s', w', susps, asgs) ->
  exists a1 a2 a3,
    asgs = a1 ++ a2 ++ a3 /\
    (class_ok s -> Forall (fun a => a_prio a = Query) a1 /\ Forall (fun a => a_prio a = Interactive) a2 /\
                   Forall (fun a => a_prio a = Batch) a3) /\
    (ss_q s' <> [] -> a2 = [] /\ a3 = []) /\
    (ss_i s' <> [] -> a3 = []).
Proof.
  intros H. apply pr_step_inv in H.
  destruct H as (m & lq & n1 & n2 & n3 & st1 & st2 & st3 & w1 & w2 & a1 & a2 & a3 & o1 & o2 & H).
  destruct H as (_ & _ & _ & _ & _ & S1 & S2 & S3 & Ea & Eq & Ei & Eb & _).
  exists a1, a2, a3. split; [exact Ea|]. split; [|split].
  - intros K. repeat split; apply Forall_forall; intros a Ha.
    + eapply (pr_rel_class _ _ _ _ _ _ _ _ _ _ Query S1); eauto. intros j Hj. eapply pr_pre_class; eauto.
    + eapply (pr_rel_class _ _ _ _ _ _ _ _ _ _ Interactive S2); eauto. intros j Hj. eapply pr_pre_class; eauto.
    + eapply (pr_rel_class _ _ _ _ _ _ _ _ _ _ Batch S3); eauto. intros j Hj. eapply pr_pre_class; eauto.
  - intros NE. rewrite Eq in NE. apply skipn_nonnil in NE.
    pose proof (pr_rel_stop _ _ _ _ _ _ _ _ _ _ S1 NE) as D1.
    destruct (pr_rel_depleted_noop _ _ _ _ _ _ _ _ _ _ S2 D1) as (_ & E2 & _ & A2 & _). subst st2.
    destruct (pr_rel_depleted_noop _ _ _ _ _ _ _ _ _ _ S3 D1) as (_ & _ & _ & A3 & _). auto.
  - intros NE. rewrite Ei in NE. apply skipn_nonnil in NE.
    pose proof (pr_rel_stop _ _ _ _ _ _ _ _ _ _ S2 NE) as D2.
    destruct (pr_rel_depleted_noop _ _ _ _ _ _ _ _ _ _ S3 D2) as (_ & _ & _ & A3 & _). auto.
Qed.

(* the reading of P3 on single assignments *)
Corollary priority_strict C s e results newp s' w' susps asgs a :
  priority_step C s e results newp = Ok (s', w', susps, asgs) -> class_ok s -> In a asgs ->
  (a_prio a = Interactive -> ss_q s' = []) /\
  (a_prio a = Batch -> ss_q s' = [] /\ ss_i s' = []).
Proof.
  intros H K Ha. destruct (priority_order _ _ _ _ _ _ _ _ _ H) as (a1 & a2 & a3 & Ea & Cl & O1 & O2).
  destruct (Cl K) as (C1 & C2 & C3). rewrite Forall_forall in C1, C2, C3.
  subst asgs. apply in_app_or in Ha. destruct Ha as [Ha|Ha]; [|apply in_app_or in Ha; destruct Ha as [Ha|Ha]].
  - pose proof (C1 a Ha) as P. split; intros Q; congruence.
  - pose proof (C2 a Ha) as P. split; [|intros Q; congruence].
    intros _. destruct (ss_q s') as [|j q]; [reflexivity|].
    destruct O1 as [E2 _]; [discriminate|]. subst a2. destruct Ha.
  - pose proof (C3 a Ha) as P. split; [intros Q; congruence|].
    intros _. split.
    + destruct (ss_q s') as [|j q]; [reflexivity|].
      destruct O1 as [_ E3]; [discriminate|]. subst a3. destruct Ha.
    + destruct (ss_i s') as [|j q]; [reflexivity|].
      rewrite O2 in Ha; [destruct Ha | discriminate].
Qed.

(* P4: if any job is left waiting after the round, every pool of the final snapshot -- the snapshot of
   the executor minus what this round's assignments take, pool by pool -- is out of CPU or out of RAM *)
Theorem priority_work_conserving C s e results newp s' w' susps asgs :
  priority_step C s e results newp = Ok (s', w', susps, asgs) ->
  exists st3,
    length st3 = length (snapshot e) /\
    (forall i,
       ps_acpu (nth i st3 dummy_stat) =
         (ps_acpu (nth i (snapshot e) dummy_stat) - sumZ (map a_cpu (filter (on_pool i) asgs)))%Z /\
       (ps_aram (nth i st3 dummy_stat) ==
         ps_aram (nth i (snapshot e) dummy_stat) - sumQ (map a_ram (filter (on_pool i) asgs)))%Q) /\
    (ss_q s' <> [] \/ ss_i s' <> [] \/ ss_b s' <> [] -> depleted st3).
Proof.
  intros H. apply pr_step_inv in H.
  destruct H as (m & lq & n1 & n2 & n3 & st1 & st2 & st3 & w1 & w2 & a1 & a2 & a3 & o1 & o2 & H).
  destruct H as (_ & _ & _ & _ & _ & S1 & S2 & S3 & Ea & Eq & Ei & Eb & _).
  exists st3. split; [|split].
  - rewrite (pr_rel_length _ _ _ _ _ _ _ _ _ _ S3), (pr_rel_length _ _ _ _ _ _ _ _ _ _ S2).
    apply (pr_rel_length _ _ _ _ _ _ _ _ _ _ S1).
  - intros i.
    destruct (pr_rel_snapshot _ _ _ _ _ _ _ _ _ _ S1 i) as [X1 [Y1 _]].
    destruct (pr_rel_snapshot _ _ _ _ _ _ _ _ _ _ S2 i) as [X2 [Y2 _]].
    destruct (pr_rel_snapshot _ _ _ _ _ _ _ _ _ _ S3 i) as [X3 [Y3 _]].
    subst asgs. rewrite !filter_app', !map_app, !sumZ_app', !sumQ_app'. split; [lia|lra].
  - intros [NE|[NE|NE]].
    + rewrite Eq in NE. apply skipn_nonnil in NE.
      pose proof (pr_rel_stop _ _ _ _ _ _ _ _ _ _ S1 NE) as D1.
      destruct (pr_rel_depleted_noop _ _ _ _ _ _ _ _ _ _ S2 D1) as (_ & E2 & _). subst st2.
      destruct (pr_rel_depleted_noop _ _ _ _ _ _ _ _ _ _ S3 D1) as (_ & E3 & _). subst st3. exact D1.
    + rewrite Ei in NE. apply skipn_nonnil in NE.
      pose proof (pr_rel_stop _ _ _ _ _ _ _ _ _ _ S2 NE) as D2.
      destruct (pr_rel_depleted_noop _ _ _ _ _ _ _ _ _ _ S3 D2) as (_ & E3 & _). subst st3. exact D2.
    + rewrite Eb in NE. apply skipn_nonnil in NE.
      apply (pr_rel_stop _ _ _ _ _ _ _ _ _ _ S3 NE).
Qed.

(* assignments of earlier jobs precede those of later jobs *)
Lemma scan_sub_split : forall l1 l2 asgs,
  scan_sub (l1 ++ l2) asgs -> exists b1 b2, asgs = b1 ++ b2 /\ scan_sub l1 b1 /\ scan_sub l2 b2.
Proof.
  induction l1 as [|j t IH]; intros l2 asgs H.
  - exists [], asgs. split; [reflexivity|]. split; [constructor | exact H].
  - cbn [app] in H. inversion H as [|j0 js as0 E H'|j0 js a as0 F H']; subst.
    + destruct (IH _ _ H') as [b1 [b2 [E1 [E2 E3]]]]. exists b1, b2.
      split; [exact E1|]. split; [apply ssb_skip; assumption | exact E3].
    + destruct (IH _ _ H') as [b1 [b2 [E1 [E2 E3]]]]. exists (a :: b1), b2.
      split; [cbn; f_equal; exact E1|]. split; [apply ssb_take; assumption | exact E3].
Qed.

(* P5: each class queue is FIFO: the jobs filed this round (for new or changed pipelines, then for
   suspended containers) go to the tail, the scans take jobs from the head, and the containers of one
   class are created in queue order *)
Theorem priority_fifo C s e results newp s' w' susps asgs :
  priority_step C s e results newp = Ok (s', w', susps, asgs) ->
  exists lq n a,
    asgs = a Query ++ a Interactive ++ a Batch /\
    forall p,
      queue_of s' p = skipn (n p) (queue_of s p ++ filter (is_class p) (pr_jobs C s e results newp)
                                   ++ filter (is_class p) lq) /\
      scan_sub (firstn (n p) (queue_of s p ++ filter (is_class p) (pr_jobs C s e results newp)
                              ++ filter (is_class p) lq)) (a p).
Proof.
  intros H. apply pr_step_inv in H.
  destruct H as (m & lq & n1 & n2 & n3 & st1 & st2 & st3 & w1 & w2 & a1 & a2 & a3 & o1 & o2 & H).
  destruct H as (_ & _ & _ & _ & _ & S1 & S2 & S3 & Ea & Eq & Ei & Eb & _).
  exists lq, (fun p => match p with Query => n1 | Interactive => n2 | Batch => n3 end),
         (fun p => match p with Query => a1 | Interactive => a2 | Batch => a3 end).
  split; [exact Ea|].
  apply pr_rel_sub in S1. apply pr_rel_sub in S2. apply pr_rel_sub in S3.
  unfold pr_pre in *. rewrite !filter_app' in *.
  intros p. destruct p; cbn [queue_of]; auto.
Qed.

(* ------------------------------------------------------------------------------------------ *)
(* 8. P6: preemption                                                                           *)
(* ------------------------------------------------------------------------------------------ *)

Notation iter_t := (nat * list container * bool)%type (only parsing).
Definition it_pid (it : iter_t) : nat := fst (fst it).
Definition it_rem (it : iter_t) : list container := snd (fst it).

(* a well-formed suspension: it names an active container of the pool it names, the container is at
   an operator boundary (can_suspend_container) and is not a query container *)
Definition susp_ok (pools : list pool) (x : susp) : Prop :=
  exists p c, In p pools /\ In c (p_active p) /\ su_pool x = Z.of_nat (p_id p) /\ su_cid x = c_id c /\
              c_can_suspend c = true /\ c_prio c <> Query.

Definition iters_ok (pools : list pool) (iters : list iter_t) : Prop :=
  forall it, In it iters -> exists p pre, In p pools /\ it_pid it = p_id p /\ p_active p = pre ++ it_rem it.

Lemma skip_query_some : forall l c t,
  skip_query l = Some (c, t) -> exists qs, l = qs ++ [c] ++ t /\ c_prio c <> Query.
Proof.
  induction l as [|h r IH]; intros c t H; cbn [skip_query] in H; [discriminate|].
  destruct (prio_eqb (c_prio h) Query) eqn:E.
  - destruct (IH c t H) as [qs [E1 E2]]. exists (h :: qs). rewrite E1. auto.
  - inversion H; subst. exists []. split; [reflexivity|].
    intros P. rewrite P in E. discriminate.
Qed.

Lemma In_set_nth {A} (y v : A) : forall l i, In y (set_nth l i v) -> y = v \/ In y l.
Proof.
  induction l as [|h t IH]; intros [|i] H; cbn [set_nth] in H; try (destruct H; fail).
  - destruct H as [H|H]; [left; auto | right; right; exact H].
  - destruct H as [H|H]; [right; left; exact H|]. destruct (IH i H) as [G|G]; [left; exact G | right; right; exact G].
Qed.

Lemma set_nth_split {A} (d v : A) : forall l i, i < length l ->
  exists l1 l2, l = l1 ++ nth i l d :: l2 /\ set_nth l i v = l1 ++ v :: l2.
Proof.
  induction l as [|h t IH]; intros [|i] L; cbn [length] in L; try lia.
  - exists [], t. split; reflexivity.
  - destruct (IH i ltac:(lia)) as [l1 [l2 [E1 E2]]]. exists (h :: l1), l2. cbn [nth set_nth app].
    split; f_equal; assumption.
Qed.

Lemma pr_preempt_ok pools : forall fuel need iters i acc,
  iters_ok pools iters -> Forall (susp_ok pools) acc ->
  Forall (susp_ok pools) (pr_preempt fuel need iters i acc).
Proof.
  induction fuel as [|f IH]; intros need iters i acc IO AO; cbn [pr_preempt]; [exact AO|].
  destruct (Nat.leb need (length acc)); [exact AO|].
  destruct (forallb (fun x => snd x) iters); [exact AO|].
  destruct (nth i iters (0, [], true)) as [[pid l] ex] eqn:N.
  destruct (Nat.lt_ge_cases i (length iters)) as [L|L].
  - assert (Hin : In (pid, l, ex) iters) by (rewrite <- N; apply nth_In; exact L).
    destruct (IO _ Hin) as [p [pre [Hp [Epid Eact]]]]. cbn in Epid, Eact.
    destruct (skip_query l) as [[c t]|] eqn:SQ.
    + destruct (skip_query_some _ _ _ SQ) as [qs [El Pc]].
      apply IH.
      * intros it Hit. apply In_set_nth in Hit. destruct Hit as [->|Hit]; [|apply IO; exact Hit].
        exists p, (pre ++ qs ++ [c]). split; [exact Hp|]. split; [exact Epid|].
        cbn [it_rem fst snd]. rewrite Eact, El, <- !app_assoc. reflexivity.
      * destruct (c_can_suspend c) eqn:CS; [|exact AO].
        apply Forall_app. split; [exact AO|]. constructor; [|constructor].
        exists p, c. split; [exact Hp|]. split.
        { rewrite Eact, El. apply in_or_app. right. apply in_or_app. right. left. reflexivity. }
        cbn [su_pool su_cid]. rewrite Epid. auto.
    + apply IH; [|exact AO].
      intros it Hit. apply In_set_nth in Hit. destruct Hit as [->|Hit]; [|apply IO; exact Hit].
      exists p, (pre ++ l). split; [exact Hp|]. split; [exact Epid|].
      cbn [it_rem fst snd]. rewrite app_nil_r. exact Eact.
  - rewrite nth_overflow in N by exact L. inversion N; subst. cbn [skip_query].
    rewrite set_nth_out by exact L. apply IH; assumption.
Qed.

Lemma pr_preempt_length : forall fuel need iters i acc,
  length acc <= need -> length (pr_preempt fuel need iters i acc) <= need.
Proof.
  induction fuel as [|f IH]; intros need iters i acc LA; cbn [pr_preempt]; [exact LA|].
  destruct (Nat.leb need (length acc)) eqn:E; [exact LA|]. apply Nat.leb_gt in E.
  destruct (forallb (fun x => snd x) iters); [exact LA|].
  destruct (nth i iters (0, [], true)) as [[pid l] ex].
  destruct (skip_query l) as [[c t]|]; [|apply IH; exact LA].
  apply IH. destruct (c_can_suspend c); [|exact LA]. rewrite app_length. cbn [length]. lia.
Qed.

(* the ids named so far together with the ids still ahead of the iterators *)
Definition pre_ids (iters : list iter_t) (acc : list susp) : list nat :=
  map su_cid acc ++ flat_map (fun it => map c_id (it_rem it)) iters.

Lemma flat_map_app' {A B} (f : A -> list B) l1 l2 : flat_map f (l1 ++ l2) = flat_map f l1 ++ flat_map f l2.
Proof. induction l1 as [|a t IH]; cbn; [reflexivity|]. rewrite IH, app_assoc. reflexivity. Qed.

Lemma NoDup_app_l {A} (l1 l2 : list A) : NoDup (l1 ++ l2) -> NoDup l1.
Proof.
  induction l1 as [|a t IH]; intros H; [constructor|].
  cbn [app] in H. inversion H; subst. constructor; [|apply IH; assumption].
  intros Hin. apply H2. apply in_or_app. left. exact Hin.
Qed.

Lemma pr_preempt_nodup : forall fuel need iters i acc,
  NoDup (pre_ids iters acc) -> NoDup (map su_cid (pr_preempt fuel need iters i acc)).
Proof.
  induction fuel as [|f IH]; intros need iters i acc ND; cbn [pr_preempt];
    [apply (NoDup_app_l _ _ ND)|].
  destruct (Nat.leb need (length acc)); [apply (NoDup_app_l _ _ ND)|].
  destruct (forallb (fun x => snd x) iters); [apply (NoDup_app_l _ _ ND)|].
  destruct (nth i iters (0, [], true)) as [[pid l] ex] eqn:N.
  destruct (Nat.lt_ge_cases i (length iters)) as [L|L].
  - destruct (skip_query l) as [[c t]|] eqn:SQ.
    + destruct (skip_query_some _ _ _ SQ) as [qs [El Pc]].
      destruct (set_nth_split (0, [], true) (pid, t, ex) iters i L) as [l1 [l2 [E1 E2]]].
      rewrite N in E1. apply IH. rewrite E2.
      eapply msub_NoDup; [|exact ND].
      intros z. unfold pre_ids. rewrite E1. rewrite !flat_map_app'. cbn [flat_map it_rem fst snd].
      rewrite El, !map_app.
      destruct (c_can_suspend c); [rewrite map_app|]; cbn [map su_cid]; rewrite !cnt_app; lia.
    + destruct (set_nth_split (0, [], true) (pid, [], true) iters i L) as [l1 [l2 [E1 E2]]].
      rewrite N in E1. apply IH. rewrite E2.
      eapply msub_NoDup; [|exact ND].
      intros z. unfold pre_ids. rewrite E1. rewrite !flat_map_app'. cbn [flat_map it_rem fst snd map].
      rewrite !cnt_app. change (cnt z (@nil nat)) with 0. lia.
  - rewrite nth_overflow in N by exact L. inversion N; subst. cbn [skip_query].
    rewrite set_nth_out by exact L. apply IH; assumption.
Qed.

Lemma init_iters_ids pools :
  flat_map (fun it : iter_t => map c_id (it_rem it)) (map (fun p => (p_id p, p_active p, false)) pools)
  = map c_id (flat_map p_active pools).
Proof.
  induction pools as [|p t IH]; cbn [map flat_map]; [reflexivity|].
  rewrite map_app, IH. reflexivity.
Qed.

(* P6: suspensions are issued only for active containers that are not query containers and sit at an
   operator boundary, only while a query job is left waiting, at most one per waiting query job, and no
   container is named twice *)
Theorem priority_suspend_rules C s e results newp s' w' susps asgs :
  priority_step C s e results newp = Ok (s', w', susps, asgs) ->
  Forall (susp_ok (e_pools e)) susps /\
  length susps <= length (ss_q s') /\
  (ss_q s' = [] -> susps = []) /\
  (NoDup (map c_id (flat_map p_active (e_pools e))) -> NoDup (map su_cid susps)).
Proof.
  intros H. apply pr_step_inv in H.
  destruct H as (m & lq & n1 & n2 & n3 & st1 & st2 & st3 & w1 & w2 & a1 & a2 & a3 & o1 & o2 & H).
  destruct H as (_ & _ & _ & _ & _ & _ & _ & _ & _ & _ & _ & _ & Es & _).
  subst susps. unfold pr_susps. destruct (ss_q s') as [|j q] eqn:Q.
  - repeat split; auto. constructor.
  - cbv zeta. split; [|split; [|split]].
    + apply pr_preempt_ok; [|constructor].
      intros it Hit. apply in_map_iff in Hit. destruct Hit as [p [<- Hp]].
      exists p, []. auto.
    + apply pr_preempt_length. cbn. lia.
    + discriminate.
    + intros ND. apply pr_preempt_nodup. unfold pre_ids. cbn [map app].
      rewrite init_iters_ids. exact ND.
Qed.

(* ------------------------------------------------------------------------------------------ *)
(* 9. P7: suspended work is offered again, once                                                *)
(* ------------------------------------------------------------------------------------------ *)

Lemma assoc_set_In {A} k (v : A) : forall m kv, In kv (assoc_set k v m) -> kv = (k, v) \/ In kv m.
Proof.
  induction m as [|[a x] t IH]; intros kv H; cbn [assoc_set] in H.
  - destruct H as [H|[]]. left. auto.
  - destruct (Nat.eqb a k) eqn:E.
    + destruct H as [H|H]; [|right; right; exact H]. apply Nat.eqb_eq in E. subst a. left. auto.
    + destruct H as [H|H]; [right; left; exact H|]. destruct (IH kv H) as [G|G]; [left; exact G | right; right; exact G].
Qed.

(* a job noted for a container: built from the operators it has not completed, with its old request *)
Definition noted_job (C : cfg) (w : world) (pid : nat) (c : container) (j : job) : Prop :=
  exists j0, job_of_container w pid c = Ok j0 /\ j = job_with_pipe C j0.

Lemma noted_job_fields C w pid c j :
  noted_job C w pid c j ->
  j_ops j = not_completed_ops w (c_ops c) /\ j_ops j <> [] /\ j_prio j = c_prio c /\
  j_retry j = Some {| rt_ram := c_ram c; rt_cpu := c_cpu c; rt_err := c_error c;
                      rt_cid := c_id c; rt_pool := pid |}.
Proof.
  intros [j0 [H ->]]. apply job_of_container_fields in H. cbn [job_with_pipe j_ops j_prio j_retry]. exact H.
Qed.

Lemma note_suspending_spec C w pid : forall cs m m',
  note_suspending C w pid cs m = Ok m' ->
  forall kv, In kv m' -> In kv m \/ exists c, In c cs /\ fst kv = c_id c /\ noted_job C w pid c (snd kv).
Proof.
  induction cs as [|c t IH]; intros m m' H kv Hkv.
  - cbn in H. inversion H; subst. left. exact Hkv.
  - cbn [note_suspending] in H. unfold bind in H.
    destruct (job_of_container w pid c) as [j0|er] eqn:J; [|discriminate H].
    destruct (IH _ _ H kv Hkv) as [G|[c' [G1 G2]]].
    + apply assoc_set_In in G. destruct G as [->|G]; [|left; exact G].
      right. exists c. split; [left; reflexivity|]. split; [reflexivity|]. exists j0. auto.
    + right. exists c'. split; [right; exact G1 | exact G2].
Qed.

Lemma note_suspending_pools_spec C w : forall ps m m',
  note_suspending_pools C w ps m = Ok m' ->
  forall kv, In kv m' ->
    In kv m \/ exists p c, In p ps /\ In c (p_suspending p) /\ fst kv = c_id c /\
                           noted_job C w (p_id p) c (snd kv).
Proof.
  induction ps as [|p t IH]; intros m m' H kv Hkv.
  - cbn in H. inversion H; subst. left. exact Hkv.
  - cbn [note_suspending_pools] in H. unfold bind in H.
    destruct (note_suspending C w (p_id p) (p_suspending p) m) as [m1|er] eqn:N; [|discriminate H].
    destruct (IH _ _ H kv Hkv) as [G|[p' [c [G1 G2]]]].
    + destruct (note_suspending_spec _ _ _ _ _ _ N kv G) as [G'|[c [G1 G2]]]; [left; exact G'|].
      right. exists p, c. split; [left; reflexivity | split; [exact G1 | exact G2]].
    + right. exists p', c. split; [right; exact G1 | exact G2].
Qed.

Lemma NoDup_map_inj {A} (f : A -> nat) : forall l a b,
  NoDup (map f l) -> In a l -> In b l -> f a = f b -> a = b.
Proof.
  induction l as [|h t IH]; intros a b ND Ha Hb E; [destruct Ha|].
  cbn [map] in ND. inversion ND as [|? ? Hn ND']; subst.
  destruct Ha as [<-|Ha]; destruct Hb as [<-|Hb]; auto.
  - exfalso. apply Hn. rewrite E. apply in_map. exact Hb.
  - exfalso. apply Hn. rewrite <- E. apply in_map. exact Ha.
Qed.

(* P7: a suspended container that has not been re-queued yet gets its job filed in this round -- the
   job noted while it was suspending, or one built now from its unfinished operators -- under the
   priority of the job, and its id is recorded so that it is filed exactly once. The job is then
   treated like any other: placed in this round, or still waiting after it (or, were it the retry of
   a failed container, subject to the retry rules). *)
Theorem priority_resume_offered C s e results newp s' w' susps asgs p c :
  priority_step C s e results newp = Ok (s', w', susps, asgs) ->
  In p (e_pools e) -> In c (p_suspended p) -> ~ In (c_id c) (ss_requeued s) ->
  In (c_id c) (ss_requeued s') /\
  exists m p' c' j,
    note_suspending_pools C (e_world e) (e_pools e) (ss_suspending s) = Ok m /\
    In p' (e_pools e) /\ In c' (p_suspended p') /\ c_id c' = c_id c /\
    (NoDup (map c_id (flat_map p_suspended (e_pools e))) -> c' = c) /\
    (In (c_id c', j) m \/ noted_job C (e_world e) (p_id p') c' j) /\
    ((exists a, In a asgs /\ a_ops a = j_ops j /\ a_prio a = j_prio j)
     \/ In j (queue_of s' (j_prio j))
     \/ retry_err j = true).
Proof.
  intros H Hp Hc Hn. apply pr_step_inv in H.
  destruct H as (m & lq & n1 & n2 & n3 & st1 & st2 & st3 & w1 & w2 & a1 & a2 & a3 & o1 & o2 & H).
  destruct H as (NS & _ & R9 & R7 & _ & S1 & S2 & S3 & Ea & Eq & Ei & Eb & _).
  split; [eapply R7; eauto|].
  destruct (R9 p c Hp Hc Hn) as (p' & c' & j & Hp' & Hc' & Eid & Hj & RJ).
  exists m, p', c', j. split; [exact NS|]. split; [exact Hp'|]. split; [exact Hc'|]. split; [exact Eid|].
  split.
  { intros ND. apply (NoDup_map_inj c_id _ c' c ND); [| |exact Eid]; apply in_flat_map; eauto. }
  split; [exact RJ|].
  assert (Pre : In j (pr_pre C s e results newp lq (j_prio j))).
  { unfold pr_pre. apply in_or_app. right. apply filter_In. split.
    - apply in_or_app. right. exact Hj.
    - unfold is_class. apply prio_eqb_refl. }
  destruct (retry_err j) eqn:RE; [right; right; reflexivity|].
  assert (G : forall w0 st0 o0 n st1' w1' al o1',
            pr_rel C w0 st0 (pr_pre C s e results newp lq (j_prio j)) o0 n st1' w1' al o1' ->
            (exists a, In a al /\ a_ops a = j_ops j /\ a_prio a = j_prio j) \/
            In j (skipn n (pr_pre C s e results newp lq (j_prio j)))).
  { intros w0 st0 o0 n st1' w1' al o1' R.
    rewrite <- (firstn_skipn n (pr_pre C s e results newp lq (j_prio j))) in Pre.
    apply in_app_or in Pre. destruct Pre as [Pre|Pre]; [left|right; exact Pre].
    apply pr_rel_sub in R. destruct (scan_sub_In_l _ _ _ R Pre RE) as [a [Ha [F1 F2]]]. eauto. }
  subst asgs.
  destruct (j_prio j) eqn:P; cbn [queue_of].
  - rewrite Eq. destruct (G _ _ _ _ _ _ _ _ S1) as [[a [Ha F]]|G']; [left|right; left; exact G'].
    exists a. split; [apply in_or_app; left; exact Ha | exact F].
  - rewrite Ei. destruct (G _ _ _ _ _ _ _ _ S2) as [[a [Ha F]]|G']; [left|right; left; exact G'].
    exists a. split; [apply in_or_app; right; apply in_or_app; left; exact Ha | exact F].
  - rewrite Eb. destruct (G _ _ _ _ _ _ _ _ S3) as [[a [Ha F]]|G']; [left|right; left; exact G'].
    exists a. split; [apply in_or_app; right; apply in_or_app; right; exact Ha | exact F].
Qed.

(* where the entries of the noted map come from: kept from earlier rounds, or noted in this round for
   a container that is suspending now *)
Theorem priority_noted_map C s e results newp s' w' susps asgs m :
  priority_step C s e results newp = Ok (s', w', susps, asgs) ->
  note_suspending_pools C (e_world e) (e_pools e) (ss_suspending s) = Ok m ->
  forall kv, In kv m ->
    In kv (ss_suspending s) \/
    exists p c, In p (e_pools e) /\ In c (p_suspending p) /\ fst kv = c_id c /\
                noted_job C (e_world e) (p_id p) c (snd kv).
Proof. intros _ NS kv Hkv. eapply note_suspending_pools_spec; eauto. Qed.

(* exactly once: a job is re-queued only for a suspended container whose id was not yet recorded, and
   after the round every suspended container's id is recorded *)
Theorem priority_requeue_once C s e results newp s' w' susps asgs :
  priority_step C s e results newp = Ok (s', w', susps, asgs) ->
  (forall p c, In p (e_pools e) -> In c (p_suspended p) -> In (c_id c) (ss_requeued s')) /\
  (forall id, In id (ss_requeued s) -> In id (ss_requeued s')) /\
  ((forall p c, In p (e_pools e) -> In c (p_suspended p) -> In (c_id c) (ss_requeued s)) ->
   exists n, forall q,
     queue_of s' q = skipn (n q) (queue_of s q ++ filter (is_class q) (pr_jobs C s e results newp))).
Proof.
  intros H. apply pr_step_inv in H.
  destruct H as (m & lq & n1 & n2 & n3 & st1 & st2 & st3 & w1 & w2 & a1 & a2 & a3 & o1 & o2 & H).
  destruct H as (NS & R8 & R9 & R7 & R5 & S1 & S2 & S3 & Ea & Eq & Ei & Eb & _).
  split; [exact R7|]. split; [exact R5|].
  intros All.
  assert (L : lq = []).
  { destruct lq as [|j lq]; [reflexivity|]. exfalso.
    destruct (R8 j (or_introl eq_refl)) as (p & c & Hp & Hc & Hn & _). apply Hn. eapply All; eauto. }
  subst lq. unfold pr_pre in Eq, Ei, Eb. rewrite app_nil_r in Eq, Ei, Eb.
  exists (fun q => match q with Query => n1 | Interactive => n2 | Batch => n3 end).
  intros q. destruct q; cbn [queue_of]; assumption.
Qed.

(* the assertion behind P7: a suspended container that was never noted and has no unfinished operator
   makes the re-queue loop raise (`ops[0]` on an empty list in the code) *)
Lemma pr_requeue_assert C w pid c t s :
  memb (c_id c) (ss_requeued s) = false -> assoc_find (c_id c) (ss_suspending s) = None ->
  not_completed_ops w (c_ops c) = [] -> pr_requeue C w pid (c :: t) s = Err ESchedAssert.
Proof.
  intros M F N. cbn [pr_requeue]. rewrite M, F. unfold job_of_container. rewrite N. reflexivity.
Qed.

(* ------------------------------------------------------------------------------------------ *)
(* 10. the round as a whole: admissible commands                                               *)
(* ------------------------------------------------------------------------------------------ *)

Lemma mk_assignments_app C : forall l1 l2 w w1 w2,
  mk_assignments C w l1 = Ok w1 -> mk_assignments C w1 l2 = Ok w2 -> mk_assignments C w (l1 ++ l2) = Ok w2.
Proof.
  induction l1 as [|a t IH]; intros l2 w w1 w2 H1 H2.
  - cbn in H1. inversion H1; subst. exact H2.
  - cbn [mk_assignments app] in *. unfold bind in *.
    destruct (mk_assignment C w a) as [wa|er]; [|discriminate H1]. eapply IH; eauto.
Qed.

(* per pool, the round never hands out more than the pool has free (so the executor's oversell checks
   pass), every assignment names an existing pool and has positive CPU and RAM and at least one
   operator, and the returned world is the one in which exactly these Assignment objects were created *)
Theorem priority_admissible C s e results newp s' w' susps asgs :
  priority_step C s e results newp = Ok (s', w', susps, asgs) ->
  Forall args_ok asgs /\
  mk_assignments C (e_world e) asgs = Ok w' /\
  (forall a, In a asgs -> exists pid, a_pool a = Z.of_nat pid /\ pid < length (e_pools e)) /\
  (Forall nonneg_pool (snapshot e) ->
   forall i, (sumZ (map a_cpu (filter (on_pool i) asgs)) <= ps_acpu (nth i (snapshot e) dummy_stat))%Z /\
             (sumQ (map a_ram (filter (on_pool i) asgs)) <= ps_aram (nth i (snapshot e) dummy_stat))%Q).
Proof.
  intros H. apply pr_step_inv in H.
  destruct H as (m & lq & n1 & n2 & n3 & st1 & st2 & st3 & w1 & w2 & a1 & a2 & a3 & o1 & o2 & H).
  destruct H as (_ & _ & _ & _ & _ & S1 & S2 & S3 & Ea & _). subst asgs.
  destruct (pr_rel_world _ _ _ _ _ _ _ _ _ _ S1) as [W1 A1].
  destruct (pr_rel_world _ _ _ _ _ _ _ _ _ _ S2) as [W2 A2].
  destruct (pr_rel_world _ _ _ _ _ _ _ _ _ _ S3) as [W3 A3].
  pose proof (pr_rel_length _ _ _ _ _ _ _ _ _ _ S1) as L1.
  pose proof (pr_rel_length _ _ _ _ _ _ _ _ _ _ S2) as L2.
  assert (LS : length (snapshot e) = length (e_pools e)) by (unfold snapshot; apply map_length).
  split; [|split; [|split]].
  - apply Forall_app. split; [exact A1|]. apply Forall_app. split; assumption.
  - eapply mk_assignments_app; [exact W1|]. eapply mk_assignments_app; eauto.
  - intros a Ha. apply in_app_or in Ha. destruct Ha as [Ha|Ha]; [|apply in_app_or in Ha; destruct Ha as [Ha|Ha]].
    + destruct (pr_rel_pool_range _ _ _ _ _ _ _ _ _ _ _ S1 Ha) as [pid [P1 P2]]. exists pid. split; [exact P1|lia].
    + destruct (pr_rel_pool_range _ _ _ _ _ _ _ _ _ _ _ S2 Ha) as [pid [P1 P2]]. exists pid. split; [exact P1|lia].
    + destruct (pr_rel_pool_range _ _ _ _ _ _ _ _ _ _ _ S3 Ha) as [pid [P1 P2]]. exists pid. split; [exact P1|lia].
  - intros N i.
    pose proof (pr_rel_nonneg _ _ _ _ _ _ _ _ _ _ S1 N) as N1.
    pose proof (pr_rel_nonneg _ _ _ _ _ _ _ _ _ _ S2 N1) as N2.
    pose proof (pr_rel_nonneg _ _ _ _ _ _ _ _ _ _ S3 N2) as N3.
    destruct (Forall_nth_d _ _ _ i N3 nonneg_dummy) as [X Y].
    destruct (pr_rel_snapshot _ _ _ _ _ _ _ _ _ _ S1 i) as [X1 [Y1 _]].
    destruct (pr_rel_snapshot _ _ _ _ _ _ _ _ _ _ S2 i) as [X2 [Y2 _]].
    destruct (pr_rel_snapshot _ _ _ _ _ _ _ _ _ _ S3 i) as [X3 [Y3 _]].
    rewrite !filter_app', !map_app, !sumZ_app', !sumQ_app'. split; [lia|lra].
Qed.

(* ------------------------------------------------------------------------------------------ *)
(* 11. a caveat: retries of failed containers can be dropped while pools have room              *)
(* ------------------------------------------------------------------------------------------ *)

(* P4 speaks of jobs that are still queued. A retry of a failed container whose doubled request does
   not fit into the pool with the most free RAM is removed from the queue without an assignment and
   without being counted (`to_remove.append(job)` precedes the `continue` in the code); likewise a
   retry that fits but reaches half of the pool is removed and counted. Their operators stay FAILED
   and are queued again only when their pipeline shows up in a later batch of results. *)
Theorem pr_retry_dropped C w st j rest oom pid :
  max_ram_pool st 0 None 0%Q = Some pid -> pr_nofit (nth pid st dummy_stat) j = true ->
  pr_scan C w st (j :: rest) oom = bump_n (pr_scan C w st rest oom) None.
Proof. intros M NF. rewrite pr_scan_cons, M. cbv zeta. rewrite NF. reflexivity. Qed.

Theorem pr_retry_cutoff C w st j rest oom pid :
  max_ram_pool st 0 None 0%Q = Some pid -> pr_nofit (nth pid st dummy_stat) j = false ->
  pr_cut C (nth pid st dummy_stat) j = true ->
  pr_scan C w st (j :: rest) oom = bump_n (pr_scan C w st rest (oom + 1)%Z) None.
Proof. intros M NF CU. rewrite pr_scan_cons, M. cbv zeta. rewrite NF, CU. reflexivity. Qed.

(* ------------------------------------------------------------------------------------------ *)
(* 12. non-vacuity: concrete rounds                                                            *)
(* ------------------------------------------------------------------------------------------ *)

Module Examples.
Definition exSt : static :=
  mk_static [(Query, [[]]); (Batch, [[]; [0]]); (Interactive, [[]]); (Query, [[]])].
Definition exC : cfg :=
  {| cf_static := exSt; cf_script := fun _ _ => [1%Q]; cf_tps := 10%Z; cf_overcommit := false;
     cf_multi := true; cf_rnd := fun q => q |}.
(* (|query queue|, |interactive queue|, |batch queue|, oom counter, requeued ids, suspensions,
    assignments as (priority, pool, operators, cpu, ram)) *)
Definition show (r : res (sstate * world * list susp * list asg)) :=
  match r with
  | Ok (s, w, su, asgs) =>
      Some (length (ss_q s), length (ss_i s), length (ss_b s), ss_oom s, ss_requeued s,
            map (fun x => (su_cid x, su_pool x)) su,
            map (fun a => (a_prio a, a_pool a, a_ops a, a_cpu a, Qred (a_ram a))) asgs)
  | Err e => None
  end.

(* arrivals in the order query, batch, interactive: served query, interactive, batch; each time the
   pool with the most free RAM is chosen *)
Example ex_order :
  show (priority_step exC init_sstate (init_estate exC 2 10%Z (10 # 1)%Q) [] [0; 1; 2]) =
  Some (0, 0, 0, 0%Z, [], [],
        [(Query, 0%Z, [0], 1%Z, 1%Q); (Interactive, 1%Z, [3], 1%Z, 1%Q); (Batch, 0%Z, [1; 2], 1%Z, 1%Q)]).
Proof. vm_compute. reflexivity. Qed.

(* two pools of one CPU: the query and the interactive job take them, the batch job waits (P3, P4) *)
Example ex_depleted_batch_waits :
  show (priority_step exC init_sstate (init_estate exC 2 1%Z (1 # 1)%Q) [] [1; 2; 0]) =
  Some (0, 0, 1, 0%Z, [], [], [(Query, 0%Z, [0], 1%Z, 1%Q); (Interactive, 1%Z, [3], 1%Z, 1%Q)]).
Proof. vm_compute. reflexivity. Qed.

(* two query jobs take both pools: interactive and batch get nothing; query jobs in arrival order *)
Example ex_depleted_query_first :
  show (priority_step exC init_sstate (init_estate exC 2 1%Z (1 # 1)%Q) [] [1; 0; 3; 2]) =
  Some (0, 1, 1, 0%Z, [], [], [(Query, 0%Z, [0], 1%Z, 1%Q); (Query, 1%Z, [4], 1%Z, 1%Q)]).
Proof. vm_compute. reflexivity. Qed.

(* preemption: both pools full, two query jobs waiting; pool 0 runs a query container (never
   suspended), pool 1 a batch container at an operator boundary: exactly that one is suspended *)
Definition mkc (id : nat) (ops : list nat) (cpu : Z) (pr : prio) (idx : nat) : container :=
  {| c_id := id; c_ops := ops; c_cpu := cpu; c_ram := inject_Z cpu; c_prio := pr; c_opidx := idx;
     c_rest := None; c_frozen := false; c_mem := 0%Q; c_can_suspend := true; c_completed := false;
     c_error := false; c_ticks := 3%Z; c_susp_left := 0%Z |}.
Definition fullpool (id : nat) (act : list container) : pool :=
  {| p_id := id; p_max_cpu := 10%Z; p_max_ram := 10%Q; p_avail_cpu := 0%Z; p_avail_ram := 0%Q;
     p_consumed := 0%Q; p_active := act; p_suspending := []; p_suspended := [];
     p_num_completed := 0%Z; p_tick_times := [] |}.
Definition wP : world :=
  {| w_st := [Pending; Completed; Assigned; Pending; Pending]; w_cnt := w_cnt (init_world exSt) |}.
Example ex_preempt :
  show (priority_step exC init_sstate
          {| e_world := wP;
             e_pools := [fullpool 0 [mkc 8 [5] 10%Z Query 0]; fullpool 1 [mkc 7 [1; 2] 10%Z Batch 1]];
             e_next := 9 |} [] [0; 3]) =
  Some (2, 0, 0, 0%Z, [], [(7, 1%Z)], []).
Proof. vm_compute. reflexivity. Qed.

(* a suspended batch container (operator 1 complete, operator 2 back to PENDING): its unfinished
   operator is offered again with the old request, and its id is recorded *)
Definition spool : pool :=
  {| p_id := 0; p_max_cpu := 10%Z; p_max_ram := 10%Q; p_avail_cpu := 10%Z; p_avail_ram := 10%Q;
     p_consumed := 0%Q; p_active := []; p_suspending := []; p_suspended := [mkc 7 [1; 2] 2%Z Batch 1];
     p_num_completed := 0%Z; p_tick_times := [] |}.
Definition wS : world :=
  {| w_st := [Pending; Completed; Pending; Pending; Pending]; w_cnt := w_cnt (init_world exSt) |}.
Example ex_resume :
  show (priority_step exC init_sstate {| e_world := wS; e_pools := [spool]; e_next := 9 |} [] []) =
  Some (0, 0, 0, 0%Z, [7], [], [(Batch, 0%Z, [2], 2%Z, 2%Q)]).
Proof. vm_compute. reflexivity. Qed.

(* ... and only once: with the id recorded nothing is filed *)
Example ex_resume_once :
  show (priority_step exC
          {| ss_queue := []; ss_fail := []; ss_q := []; ss_i := []; ss_b := []; ss_suspending := [];
             ss_requeued := [7]; ss_oom := 0%Z |}
          {| e_world := wS; e_pools := [spool]; e_next := 9 |} [] []) =
  Some (0, 0, 0, 0%Z, [7], [], []).
Proof. vm_compute. reflexivity. Qed.

(* the assertion of P7: the suspended container has no unfinished operator *)
Example ex_resume_assert :
  priority_step exC init_sstate
    {| e_world := {| w_st := [Pending; Completed; Completed; Pending; Pending];
                     w_cnt := w_cnt (init_world exSt) |};
       e_pools := [spool]; e_next := 9 |} [] [] = Err ESchedAssert.
Proof. vm_compute. reflexivity. Qed.

(* retries of a failed batch container on a pool with 4 of 10 CPUs and 4 of 10 GB free *)
Definition hpool : pool :=
  {| p_id := 0; p_max_cpu := 10%Z; p_max_ram := 10%Q; p_avail_cpu := 4%Z; p_avail_ram := 4%Q;
     p_consumed := 0%Q; p_active := []; p_suspending := []; p_suspended := [];
     p_num_completed := 0%Z; p_tick_times := [] |}.
Definition wF : world :=
  {| w_st := [Pending; Failed; Failed; Pending; Pending]; w_cnt := w_cnt (init_world exSt) |}.
Definition rF (cpu : Z) : result :=
  {| r_cid := 0; r_ops := [1; 2]; r_cpu := cpu; r_ram := inject_Z cpu; r_prio := Batch; r_pool := 0;
     r_err := true |}.
(* old request 1: doubled and assigned *)
Example ex_retry :
  show (priority_step exC init_sstate {| e_world := wF; e_pools := [hpool]; e_next := 1 |} [rF 1%Z] []) =
  Some (0, 0, 0, 0%Z, [], [], [(Batch, 0%Z, [1; 2], 2%Z, 2%Q)]).
Proof. vm_compute. reflexivity. Qed.
(* the caveat of section 11: old request 3, doubled 6 > 4 free: the job leaves the queue, nothing is
   assigned, nothing is counted -- although the pool is not depleted *)
Example ex_retry_dropped :
  show (priority_step exC init_sstate {| e_world := wF; e_pools := [hpool]; e_next := 1 |} [rF 3%Z] []) =
  Some (0, 0, 0, 0%Z, [], [], []).
Proof. vm_compute. reflexivity. Qed.
(* old request 3 on an empty pool of 10: fits, but 6/10 reaches one half: abandoned and counted *)
Example ex_retry_cutoff :
  show (priority_step exC init_sstate
          {| e_world := wF; e_pools := [new_pool 0 10%Z 10%Q]; e_next := 1 |} [rF 3%Z] []) =
  Some (0, 0, 0, 1%Z, [], [], []).
Proof. vm_compute. reflexivity. Qed.
End Examples.

