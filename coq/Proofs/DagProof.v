From Coq Require Import List Arith Lia Bool Permutation.
Import ListNotations.
From Eudoxia Require Import Model.Types Model.Dag Proofs.ListFacts.

Lemma NoDup_app_intro (A : Type) (l1 l2 : list A) :
  NoDup l1 -> NoDup l2 -> (forall x, In x l1 -> In x l2 -> False) -> NoDup (l1 ++ l2).
Proof.
  induction l1 as [|a l1 IH]; simpl; intros H1 H2 Hd; [exact H2|].
  inversion H1 as [|? ? Hn H1']; subst. constructor.
  - rewrite in_app_iff. intros [H|H]; [contradiction | apply (Hd a); [left; reflexivity | exact H]].
  - apply IH; [exact H1' | exact H2 | intros x Hx; apply Hd; right; exact Hx].
Qed.

Lemma In_nodes g x : In x (nodes g) <-> x < length g.
Proof. unfold nodes. rewrite in_seq. lia. Qed.

Lemma In_children g i j : In j (children g i) <-> j < length g /\ In i (parents g j).
Proof.
  unfold children. rewrite filter_In, In_nodes, memb_In. tauto.
Qed.

Lemma NoDup_children g i : NoDup (children g i).
Proof. unfold children. apply NoDup_filter. apply seq_NoDup. Qed.

Lemma ready_spec g out c :
  ready g out c = true <-> ~ In c out /\ forall p, In p (parents g c) -> In p out.
Proof.
  unfold ready. rewrite andb_true_iff, negb_true_iff, memb_false, forallb_forall.
  split; intros [H1 H2]; split; auto; intros p Hp.
  - apply memb_In. auto.
  - apply memb_In. auto.
Qed.

Definition Topo (g : dag) (out : list nat) : Prop :=
  forall l1 x l2, out = l1 ++ x :: l2 -> forall p, In p (parents g x) -> In p l2.

Record Inv (g : dag) (queue out : list nat) : Prop := {
  inv_nodup : NoDup (out ++ queue);
  inv_bound : forall x, In x (out ++ queue) -> x < length g;
  inv_qready : forall x, In x queue -> forall p, In p (parents g x) -> In p out;
  inv_unseen : forall x, x < length g -> ~ In x (out ++ queue) ->
               exists p, In p (parents g x) /\ ~ In p out;
  inv_topo : Topo g out
}.

Lemma Inv_init g : wf_dag g -> Inv g (roots g) [].
Proof.
  intros Hwf. split; simpl.
  - unfold roots. apply NoDup_filter, seq_NoDup.
  - intros x Hx. unfold roots in Hx. apply filter_In in Hx. apply In_nodes. tauto.
  - intros x Hx p Hp. unfold roots in Hx. apply filter_In in Hx. destruct Hx as [_ Hx].
    destruct (parents g x); [contradiction | discriminate].
  - intros x Hx Hn. destruct (parents g x) as [|p ps] eqn:E.
    + exfalso. apply Hn. unfold roots. apply filter_In. split; [apply In_nodes; exact Hx|].
      rewrite E. reflexivity.
    + exists p. split; [left; reflexivity | tauto].
  - intros l1 x l2 H. destruct l1; discriminate.
Qed.

Lemma Inv_step g curr q out :
  wf_dag g -> Inv g (curr :: q) out ->
  Inv g (q ++ filter (ready g (curr :: out)) (children g curr)) (curr :: out).
Proof.
  intros Hwf [Hnd Hb Hq Hu Ht].
  set (new := filter (ready g (curr :: out)) (children g curr)).
  assert (Hnew : forall j, In j new <->
            j < length g /\ In curr (parents g j) /\ ~ In j (curr :: out) /\
            forall p, In p (parents g j) -> In p (curr :: out)).
  { intros j. unfold new. rewrite filter_In, In_children, ready_spec. tauto. }
  assert (Hcur_notin : ~ In curr out /\ ~ In curr q).
  { apply NoDup_remove_2 in Hnd. rewrite in_app_iff in Hnd. tauto. }
  assert (Hnd' : NoDup (out ++ q)) by (apply NoDup_remove_1 in Hnd; exact Hnd).
  split.
  - (* NoDup *)
    change ((curr :: out) ++ q ++ new) with (curr :: (out ++ q ++ new)).
    constructor.
    + rewrite !in_app_iff. intros [H|[H|H]]; try tauto.
      apply Hnew in H. destruct H as [_ [_ [H _]]]. apply H. left. reflexivity.
    + rewrite app_assoc. apply NoDup_app_intro.
      * exact Hnd'.
      * unfold new. apply NoDup_filter, NoDup_children.
      * intros x Hx Hx2. apply Hnew in Hx2. destruct Hx2 as [_ [Hc [Hn _]]].
        apply in_app_iff in Hx. destruct Hx as [Hx|Hx].
        -- apply Hn. right. exact Hx.
        -- (* x in q: then all its parents are in out, but curr is a parent and not in out *)
           assert (In curr out) by (apply (Hq x); [right; exact Hx | exact Hc]). tauto.
  - (* bound *)
    intros x Hx. simpl in Hx. rewrite !in_app_iff in Hx.
    destruct Hx as [Hx|[Hx|[Hx|Hx]]].
    + subst. apply Hb. apply in_app_iff. right. left. reflexivity.
    + apply Hb. apply in_app_iff. left. exact Hx.
    + apply Hb. apply in_app_iff. right. right. exact Hx.
    + apply Hnew in Hx. tauto.
  - (* queue ready *)
    intros x Hx p Hp. apply in_app_iff in Hx. destruct Hx as [Hx|Hx].
    + right. apply (Hq x); [right; exact Hx | exact Hp].
    + apply Hnew in Hx. destruct Hx as [_ [_ [_ H]]]. apply H. exact Hp.
  - (* unseen *)
    intros x Hx Hn.
    assert (Hn1 : ~ In x (out ++ curr :: q)).
    { intros H. apply Hn. simpl. rewrite !in_app_iff in *. simpl in H. tauto. }
    destruct (Hu x Hx Hn1) as [p [Hp Hpo]].
    destruct (forallb (fun p => memb p (curr :: out)) (parents g x)) eqn:E.
    + (* all parents returned now: x must be a ready child of curr -> in new, contradiction *)
      exfalso. apply Hn. simpl. right. rewrite !in_app_iff. right. right.
      apply Hnew. rewrite forallb_forall in E.
      assert (Hall : forall p', In p' (parents g x) -> In p' (curr :: out)).
      { intros p' Hp'. apply memb_In. apply E. exact Hp'. }
      repeat split; try exact Hx; try exact Hall.
      * destruct (Hall p Hp) as [H|H]; [subst; exact Hp | contradiction].
      * intros H. apply Hn. simpl. simpl in H. rewrite in_app_iff. tauto.
    + assert (exists p', In p' (parents g x) /\ memb p' (curr :: out) = false) as [p' [Hp' Hm]].
      { clear -E. induction (parents g x) as [|a l IH]; simpl in E; [discriminate|].
        apply andb_false_iff in E. destruct E as [E|E].
        - exists a. split; [left; reflexivity | exact E].
        - destruct (IH E) as [p' [H1 H2]]. exists p'. split; [right; exact H1 | exact H2]. }
      exists p'. split; [exact Hp' | apply memb_false; exact Hm].
  - (* topo *)
    intros l1 x l2 Heq p Hp. destruct l1 as [|a l1]; simpl in Heq; inversion Heq; subst.
    + apply (Hq x); [left; reflexivity | exact Hp].
    + eapply Ht; [reflexivity | exact Hp].
Qed.

(* NoDup list of naturals below n has length <= n, and if length = n it is a permutation of seq *)
Lemma NoDup_bounded_length (l : list nat) n :
  NoDup l -> (forall x, In x l -> x < n) -> length l <= n.
Proof.
  intros Hnd Hb. rewrite <- (seq_length n 0). apply NoDup_incl_length; [exact Hnd|].
  intros x Hx. apply in_seq. specialize (Hb x Hx). lia.
Qed.

Lemma all_seen g out : wf_dag g -> Inv g [] out -> forall x, x < length g -> In x out.
Proof.
  intros Hwf [_ _ _ Hu _] x. induction x as [x IH] using lt_wf_ind. intros Hx.
  destruct (in_dec Nat.eq_dec x out) as [H|H]; [exact H|].
  exfalso. destruct (Hu x Hx) as [p [Hp Hpo]]; [rewrite app_nil_r; exact H|].
  destruct (Hwf x Hx) as [_ Hlt]. specialize (Hlt p Hp).
  apply Hpo. apply IH; lia.
Qed.

Lemma iter_spec g : wf_dag g -> forall fuel queue out,
  Inv g queue out -> length out + fuel = length g ->
  let r := iter g fuel queue out in
  Permutation r (nodes g) /\ Topo g (rev r).
Proof.
  intros Hwf fuel. induction fuel as [|f IH]; intros queue out HI Hlen; simpl.
  - (* fuel exhausted: out already has all nodes *)
    assert (Hq : queue = []).
    { destruct queue as [|c q]; [reflexivity|]. exfalso.
      pose proof (NoDup_bounded_length (out ++ c :: q) (length g) (inv_nodup _ _ _ HI) (inv_bound _ _ _ HI)) as H.
      rewrite app_length in H. simpl in H. lia. }
    subst. rewrite rev_involutive. split; [|exact (inv_topo _ _ _ HI)].
    apply Permutation_trans with out; [apply Permutation_sym, Permutation_rev|].
    apply NoDup_Permutation.
    + pose proof (inv_nodup _ _ _ HI) as H. rewrite app_nil_r in H. exact H.
    + apply seq_NoDup.
    + intros x. rewrite In_nodes. split.
      * intros H. apply (inv_bound _ _ _ HI). rewrite app_nil_r. exact H.
      * apply all_seen; assumption.
  - destruct queue as [|curr q].
    + rewrite rev_involutive. split; [|exact (inv_topo _ _ _ HI)].
      apply Permutation_trans with out; [apply Permutation_sym, Permutation_rev|].
      apply NoDup_Permutation.
      * pose proof (inv_nodup _ _ _ HI) as H. rewrite app_nil_r in H. exact H.
      * apply seq_NoDup.
      * intros x. rewrite In_nodes. split.
        -- intros H. apply (inv_bound _ _ _ HI). rewrite app_nil_r. exact H.
        -- apply all_seen; assumption.
    + apply IH.
      * apply Inv_step; assumption.
      * simpl. lia.
Qed.

Theorem dag_iter_perm g : wf_dag g -> Permutation (iterate g) (nodes g).
Proof.
  intros Hwf. unfold iterate.
  apply (iter_spec g Hwf (length g) (roots g) []); [apply Inv_init; exact Hwf | reflexivity].
Qed.

(* parents come strictly earlier in the iteration order *)
Theorem dag_iter_topo g : wf_dag g ->
  forall l1 x l2, iterate g = l1 ++ x :: l2 -> forall p, In p (parents g x) -> In p l1.
Proof.
  intros Hwf l1 x l2 Heq p Hp.
  destruct (iter_spec g Hwf (length g) (roots g) []) as [_ Ht];
    [apply Inv_init; exact Hwf | reflexivity|].
  fold (iterate g) in Ht. rewrite Heq in Ht. rewrite rev_app_distr in Ht. simpl in Ht.
  rewrite <- app_assoc in Ht. simpl in Ht.
  apply in_rev. eapply Ht; [reflexivity | exact Hp].
Qed.

Print Assumptions dag_iter_perm.
Print Assumptions dag_iter_topo.
