(* Audit A (C01..C10): non-vacuity witnesses that were missing in Properties/ and in the Examples
   modules of Proofs/.  One executor scenario (a diamond pipeline, a chain, a single operator that
   OOMs) is driven by hand-written commands through: three assignments, an OOM kill, two operator
   boundaries, an accepted suspension lasting two ticks, a success, a re-assignment of the returned
   operators.  The theorems of Properties/C01, C02, C09, C10 are then APPLIED to these concrete
   states (their hypotheses are discharged by computation), so the hypotheses are jointly
   satisfiable on a non-trivial reachable state.  Further: a C06 finish-tick instance, a C05
   tick-arithmetic instance, and the histogram invariant (hypothesis [counts_ok] of C06) shown to
   hold in every reachable executor state. No new definitions enter the model. *)
From Coq Require Import List Arith ZArith QArith Qabs Bool Lia Permutation.
Import ListNotations.
From Eudoxia Require Import Proofs.PriorityPoolRunFacts Proofs.SimReachFacts.
From Eudoxia Require Import Num.Rnd64 Model.Types Model.Dag Model.Lifecycle Model.Timing Model.Container
  Model.Pool Model.Executor Model.Sched Model.Simulator
  Proofs.LifecycleFacts Proofs.ExecLifeFacts Proofs.LedgerFacts Proofs.SuspendFacts
  Proofs.NaiveFacts Proofs.ClosedLoopFacts Proofs.StatsFacts Proofs.TimingFacts.
Close Scope Q_scope.
Close Scope Z_scope.

Module AuditA.

(* pipeline 0: diamond 0 -> {1,2} -> 3 (Batch); pipeline 1: chain 4 -> 5 (Query); pipeline 2: operator 6 *)
Definition L : list (prio * dag) :=
  [(Batch, [[]; [0]; [0]; [1; 2]]); (Query, [[]; [0]]); (Batch, [[]])].
Definition St : static := mk_static L.

(* every operator takes two ticks at 1 GB, except operator 6 which asks for 100 GB at once and
   operator 2 whose second tick asks for 50 GB *)
Definition Cf : cfg :=
  {| cf_static := St;
     cf_script := fun op _ => if Nat.eqb op 6 then [100%Q] else if Nat.eqb op 2 then [1%Q; 50%Q] else [1%Q; 1%Q];
     cf_tps := 1%Z; cf_overcommit := false; cf_multi := true; cf_rnd := rnd64 |}.

Lemma L_wf : dags_wf L.
Proof.
  unfold dags_wf, L.
  apply Forall_cons; [|apply Forall_cons; [|apply Forall_cons; [|apply Forall_nil]]];
    cbn [snd]; intros j Hj; cbn [length] in Hj;
    (destruct j as [|[|[|[|j]]]]; try lia); cbn;
    (split; [repeat constructor; cbn; intuition lia | intros p Hp; intuition lia]).
Qed.

Definition s0 : estate := init_estate Cf 1 8%Z 64%Q.

Definition aA : asg := {| a_ops := [0; 1; 2; 3]; a_cpu := 1%Z; a_ram := 40%Q; a_prio := Batch; a_pool := 0%Z |}.
Definition aB : asg := {| a_ops := [4; 5]; a_cpu := 1%Z; a_ram := 4%Q; a_prio := Query; a_pool := 0%Z |}.
Definition aC : asg := {| a_ops := [6]; a_cpu := 1%Z; a_ram := 4%Q; a_prio := Batch; a_pool := 0%Z |}.
Definition aA' : asg := {| a_ops := [1; 2; 3]; a_cpu := 2%Z; a_ram := 8%Q; a_prio := Batch; a_pool := 0%Z |}.
Definition su0 : susp := {| su_cid := 0; su_pool := 0%Z |}.

Definition stepE (s : estate) (ss : list susp) (asgs : list asg) : estate :=
  match exec_step Cf s ss asgs with Ok (s', _) => s' | Err _ => s end.
Definition stepR (s : estate) (ss : list susp) (asgs : list asg) : list result :=
  match exec_step Cf s ss asgs with Ok (_, r) => r | Err _ => [] end.

Definition s1 : estate := Eval vm_compute in stepE s0 [] [aA; aB; aC].
Definition r1 : list result := Eval vm_compute in stepR s0 [] [aA; aB; aC].
Definition s2 : estate := Eval vm_compute in stepE s1 [] [].
Definition s3 : estate := Eval vm_compute in stepE s2 [su0] [].
Definition s4 : estate := Eval vm_compute in stepE s3 [] [].
Definition r4 : list result := Eval vm_compute in stepR s3 [] [].
Definition s5 : estate := Eval vm_compute in stepE s4 [] [aA'].
Definition s6 : estate := Eval vm_compute in stepE s5 [] [].
Definition s7 : estate := Eval vm_compute in stepE s6 [] [].
Definition s8 : estate := Eval vm_compute in stepE s7 [] [].
Definition r8 : list result := Eval vm_compute in stepR s7 [] [].

Lemma E1 : exec_step Cf s0 [] [aA; aB; aC] = Ok (s1, r1).     Proof. vm_compute. reflexivity. Qed.
Lemma E2 : exec_step Cf s1 [] [] = Ok (s2, []).                 Proof. vm_compute. reflexivity. Qed.
Lemma E3 : exec_step Cf s2 [su0] [] = Ok (s3, []).              Proof. vm_compute. reflexivity. Qed.
Lemma E4 : exec_step Cf s3 [] [] = Ok (s4, r4).                 Proof. vm_compute. reflexivity. Qed.
Lemma E5 : exec_step Cf s4 [] [aA'] = Ok (s5, []).              Proof. vm_compute. reflexivity. Qed.
Lemma E6 : exec_step Cf s5 [] [] = Ok (s6, []).                 Proof. vm_compute. reflexivity. Qed.
Lemma E7 : exec_step Cf s6 [] [] = Ok (s7, []).                 Proof. vm_compute. reflexivity. Qed.
Lemma E8 : exec_step Cf s7 [] [] = Ok (s8, r8).                 Proof. vm_compute. reflexivity. Qed.

(* what happened, readable: operator states after each tick; results; pool lists (ids) *)
Example story :
  map (fun s => w_st (e_world s)) [s1; s2; s3; s4; s5] =
  [ [Running; Assigned; Assigned; Assigned; Running; Assigned; Failed];
    [Completed; Assigned; Assigned; Assigned; Completed; Assigned; Failed];
    [Completed; Suspending; Suspending; Suspending; Completed; Running; Failed];
    [Completed; Pending; Pending; Pending; Completed; Completed; Failed];
    [Completed; Running; Assigned; Assigned; Completed; Completed; Failed] ] /\
  map (fun r => (r_cid r, r_ops r, r_err r)) r1 = [(2, [6], true)] /\
  map (fun r => (r_cid r, r_ops r, r_err r)) r4 = [(1, [4; 5], false)] /\
  map (fun s => let p := hd (new_pool 0 0%Z 0%Q) (e_pools s) in
                (map c_id (p_active p), map c_id (p_suspending p), map c_id (p_suspended p),
                 p_avail_cpu p, Qred (p_avail_ram p)))
      [s1; s2; s3; s4; s5] =
  [ ([0; 1], [], [], 6%Z, 20%Q); ([0; 1], [], [], 6%Z, 20%Q); ([1], [0], [], 6%Z, 20%Q);
    ([], [], [0], 8%Z, 64%Q); ([3], [], [0], 6%Z, 56%Q) ].
Proof. split; [|split; [|split]]; vm_compute; reflexivity. Qed.

Ltac in_range := unfold ops_in_range; repeat constructor; vm_compute; lia.

Lemma R1 : reach_exec_r Cf s0 s1.
Proof.
  eapply rr_step with (asgs := [aA; aB; aC]); [apply rr_init | | exact E1].
  intros a [<-|[<-|[<-|[]]]]; unfold ops_in_range; cbn [a_ops aA aB aC]; repeat constructor; vm_compute; lia.
Qed.
Lemma R2 : reach_exec_r Cf s0 s2.
Proof. eapply rr_step with (asgs := []); [exact R1 | intros a H; destruct H | exact E2]. Qed.
Lemma R3 : reach_exec_r Cf s0 s3.
Proof. eapply rr_step with (asgs := []); [exact R2 | intros a H; destruct H | exact E3]. Qed.
Lemma R4 : reach_exec_r Cf s0 s4.
Proof. eapply rr_step with (asgs := []); [exact R3 | intros a H; destruct H | exact E4]. Qed.
Lemma R5 : reach_exec_r Cf s0 s5.
Proof.
  eapply rr_step with (asgs := [aA']); [exact R4 | | exact E5].
  intros a [<-|[]]; unfold ops_in_range; cbn [a_ops aA']; repeat constructor; vm_compute; lia.
Qed.

(* ---------------------------------------------------------------------------------------- *)
(* C01                                                                                        *)
(* ---------------------------------------------------------------------------------------- *)

(* exec_dep_inv_mk_static (= C01_exec_dep_inv) applied to s5: operator 1 is Running, its parent 0
   is Completed; the instance is not vacuous: [started (st_of w 1)] holds and [op_parents St 1 = [0]] *)
Example C01_exec_dep_inv_applies :
  DepInv St (e_world s5) /\ st_of (e_world s5) 1 = Running /\ op_parents St 1 = [0] /\
  st_of (e_world s5) 0 = Completed /\ op_parents St 3 = [1; 2].
Proof.
  split; [|vm_compute; repeat split; reflexivity].
  exact (exec_dep_inv_mk_static Cf L 1 8%Z 64%Q s5 eq_refl L_wf R5).
Qed.

(* an inadmissible custom decision: the join (operator 3) alone in a container while the branches
   are unfinished. The Assignment is accepted (dependencies are not checked at assignment), the first
   container tick raises the dependency error: the whole executor tick is Err EDep, nothing runs.
   Hypotheses of ctick_bad_start_rejected_dep (= C01_container_bad_start_rejected) instantiated. *)
Definition aJoin : asg := {| a_ops := [3]; a_cpu := 1%Z; a_ram := 4%Q; a_prio := Batch; a_pool := 0%Z |}.
Definition cJoin : container := new_container 3 [3] 1%Z 4%Q Batch.
Definition wJoin : world :=
  Eval vm_compute in match mk_assignments Cf (e_world s4) [aJoin] with Ok w => w | Err _ => e_world s4 end.

Example C01_bad_decision_rejected :
  mk_assignments Cf (e_world s4) [aJoin] = Ok wJoin /\
  exec_step Cf s4 [] [aJoin] = Err EDep /\
  ctick Cf wJoin 0%Q cJoin = Err EDep.
Proof.
  split; [vm_compute; reflexivity|]. split; [vm_compute; reflexivity|].
  apply (ctick_bad_start_rejected_dep Cf wJoin 0%Q cJoin 3 1); try reflexivity.
  - vm_compute. left. reflexivity.
  - vm_compute. discriminate.
Qed.

(* ---------------------------------------------------------------------------------------- *)
(* C02                                                                                        *)
(* ---------------------------------------------------------------------------------------- *)

(* unique_owner / owned_busy applied where two containers are live (one of them suspending) *)
Example C02_unique_owner_applies :
  sown s3 = [5; 1; 2; 3] /\ NoDup (sown s3) /\ (forall o, In o (sown s3) -> busy (st_of (e_world s3) o)) /\
  live_containers s3 <> [] /\ length (live_containers s3) = 2.
Proof.
  split; [vm_compute; reflexivity|].
  split; [exact (unique_owner Cf 1 8%Z 64%Q s3 R3)|].
  split; [intros o; exact (owned_busy Cf 1 8%Z 64%Q s3 o R3)|].
  split; [vm_compute; discriminate | vm_compute; reflexivity].
Qed.

(* no re-assignment: operator 5 (Running in s3) and operator 0 (Completed) cannot be handed out again;
   exec_step_rejects_reassign (= C02_no_reassign) applied, and the computed error *)
Definition aDup : asg := {| a_ops := [5]; a_cpu := 1%Z; a_ram := 1%Q; a_prio := Query; a_pool := 0%Z |}.
Definition aOld : asg := {| a_ops := [0]; a_cpu := 1%Z; a_ram := 1%Q; a_prio := Batch; a_pool := 0%Z |}.
Example C02_no_reassign_applies :
  (exists e, exec_step Cf s3 [] [aDup] = Err e) /\
  exec_step Cf s3 [] [aDup] = Err ETransition /\ exec_step Cf s3 [] [aOld] = Err ETransition.
Proof.
  split; [|split; vm_compute; reflexivity].
  apply (exec_step_rejects_reassign Cf s3 [] [aDup] aDup 5); [left; reflexivity | left; reflexivity|].
  vm_compute. right. left. reflexivity.
Qed.

(* completion is final along the run: operator 0 from s2 on *)
Example C02_final_applies : st_of (e_world s2) 0 = Completed /\ st_of (e_world s5) 0 = Completed.
Proof.
  split; [vm_compute; reflexivity|].
  assert (R25 : reach_exec_r Cf s2 s5).
  { eapply rr_step with (asgs := [aA']);
      [eapply rr_step with (asgs := []); [eapply rr_step with (asgs := []); [apply rr_init| |exact E3]| |exact E4]| |exact E5];
      try (intros a H; destruct H; fail).
    intros a [<-|[]]; unfold ops_in_range; cbn [a_ops aA']; repeat constructor; vm_compute; lia. }
  apply (exec_completed_final_run Cf 1 8%Z 64%Q s2 s5 0 R2 R25). vm_compute. reflexivity.
Qed.

(* The histogram invariant (hypothesis [counts_ok] of C06_never_while_unfinished and
   C06_finish_tick_has_result; "per-state counts" of the C02 text) holds in EVERY reachable executor
   state under arbitrary in-range commands, for pipelines built from well-formed DAGs.  It was only
   available per scheduler (NaiveFacts/ClosedLoopFacts); assembled here from existing lemmas. *)
Lemma steps_in_hist S w w' :
  static_ok S -> (forall o, o < length (s_ops S) -> In o (pd_order (pipe_of S (op_pipe S o)))) ->
  steps_in S w w' -> hist_ok S w -> hist_ok S w'.
Proof.
  intros SO Cov H. induction H as [|w op new w' w'' Lt T _ IH]; intros Hh; [exact Hh|].
  apply IH. eapply transition_hist; eauto. apply Cov.
  destruct Hh as (Len & _). rewrite <- Len. exact Lt.
Qed.

Theorem hist_ok_every_reachable C l n cpu ram s :
  cf_static C = mk_static l -> dags_wf l ->
  reach_exec_r C (init_estate C n cpu ram) s -> hist_ok (cf_static C) (e_world s).
Proof.
  intros E W R.
  destruct (reach_steps_in C _ _ R (inv_init C n cpu ram)) as [SI _].
  eapply steps_in_hist; [| |exact SI|].
  - rewrite E. apply static_ok_mk_static. exact W.
  - rewrite E. apply ClosedLoopFacts.mk_static_ops_known. exact W.
  - apply hist_ok_init.
Qed.

Corollary counts_ok_every_reachable C l n cpu ram s k :
  cf_static C = mk_static l -> dags_wf l ->
  reach_exec_r C (init_estate C n cpu ram) s -> StatsFacts.counts_ok (cf_static C) (e_world s) k.
Proof.
  intros E W R. destruct (hist_ok_every_reachable C l n cpu ram s E W R) as (_ & _ & _ & H).
  intros a. exact (H k a).
Qed.

(* ... in particular in every state of every simulation run under every shipped scheduler
   (Proofs/SimReachFacts.v: such a state is [reach_exec_r]-reachable) *)
Theorem hist_ok_sim C a l np cpu ram t s :
  cf_static C = mk_static l -> dags_wf l ->
  sim_reach C a 0%Z (init_sim C np cpu ram) t s -> hist_ok (cf_static C) (e_world (sm_exec s)).
Proof.
  intros E W R. eapply hist_ok_every_reachable; [exact E|exact W|]. eapply sim_reach_exec_r; eauto.
Qed.

Corollary counts_ok_sim C a l np cpu ram t s k :
  cf_static C = mk_static l -> dags_wf l ->
  sim_reach C a 0%Z (init_sim C np cpu ram) t s ->
  StatsFacts.counts_ok (cf_static C) (e_world (sm_exec s)) k.
Proof.
  intros E W R. destruct (hist_ok_sim C a l np cpu ram t s E W R) as (_ & _ & _ & H).
  intros x. exact (H k x).
Qed.

Corollary counts_ok_sim_all C a l np cpu ram t s :
  cf_static C = mk_static l -> dags_wf l ->
  sim_reach C a 0%Z (init_sim C np cpu ram) t s ->
  forall k, StatsFacts.counts_ok (cf_static C) (e_world (sm_exec s)) k.
Proof. intros E W R k. eapply counts_ok_sim; eauto. Qed.

(* the world a scheduler hands to the executor (all its Assignment objects created) as well *)
Theorem counts_ok_sched_world C a l np cpu ram t s newp ss' w' susps asgs k :
  cf_static C = mk_static l -> dags_wf l ->
  sim_reach C a 0%Z (init_sim C np cpu ram) t s ->
  sched_step C a (sm_sched s) (sm_exec s) (sm_results s) newp = Ok (ss', w', susps, asgs) ->
  StatsFacts.counts_ok (cf_static C) w' k.
Proof.
  intros E W R Sch.
  assert (Hr : PriorityRunFacts.pipes_in_range (cf_static C))
    by (rewrite E; apply PriorityRunFacts.mk_static_pipes_in_range; exact W).
  destruct (sim_reach_exec_r_from C Hr a (init_estate C np cpu ram) _ _ _ _ R
              (sim_range_init C a np cpu ram) (rr_init C _)) as [_ (Lw & P & RR & G)].
  destruct (sched_step_range C Hr _ _ _ _ _ _ _ _ _ Sch P RR G) as [_ RA].
  pose proof (sched_step_world _ _ _ _ _ _ _ _ _ _ Sch) as Emk.
  pose proof (mk_assignments_steps_in _ _ _ _ Emk RA Lw) as SI.
  assert (Hh : hist_ok (cf_static C) w').
  { eapply steps_in_hist; [| |exact SI|].
    - rewrite E. apply static_ok_mk_static. exact W.
    - rewrite E. apply ClosedLoopFacts.mk_static_ops_known. exact W.
    - eapply hist_ok_sim; eauto. }
  destruct Hh as (_ & _ & _ & H). intros x. exact (H k x).
Qed.

(* C06 "never while any operator is unfinished", without the histogram hypothesis *)
Theorem never_while_unfinished_sim C a l np cpu ram t s k :
  cf_static C = mk_static l -> dags_wf l ->
  sim_reach C a 0%Z (init_sim C np cpu ram) t s ->
  (is_successful (cf_static C) (e_world (sm_exec s)) k = true <->
   forall o, In o (pd_order (pipe_of (cf_static C) k)) -> st_of (e_world (sm_exec s)) o = Completed).
Proof. intros E W R. apply StatsFacts.never_while_unfinished. eapply counts_ok_sim; eauto. Qed.

(* C06 "in the tick in which its last operator completes", without the two histogram hypotheses and
   without the busy-owner hypothesis (all three hold in every state of a run) *)
Theorem finish_tick_has_result_sim C a l np cpu ram t s newp s1 lg p ss' w' :
  cf_static C = mk_static l -> dags_wf l ->
  sim_reach C a 0%Z (init_sim C np cpu ram) t s ->
  sim_tick C a t s newp = Ok (s1, lg) ->
  sched_step C a (sm_sched s) (sm_exec s) (sm_results s) newp = Ok (ss', w', tl_susp lg, tl_asgs lg) ->
  (forall q c, In q (e_pools (sm_exec s1)) -> In c (p_active q) ->
     StatsFacts.mono_container (cf_static C) c) ->
  is_successful (cf_static C) w' p = false ->
  is_successful (cf_static C) (e_world (sm_exec s1)) p = true ->
  In p (sm_outstanding s) \/ In p newp ->
  tl_results lg <> [] /\ In p (tl_finished lg).
Proof.
  intros E W R T Sch Mono F1 F2 Hp.
  assert (R1 : sim_reach C a 0%Z (init_sim C np cpu ram) (t + 1)%Z s1) by (econstructor; eauto).
  eapply StatsFacts.finish_tick_has_result; [exact T|exact Sch| | |exact Mono| |exact F1|exact F2|exact Hp].
  - exact (counts_ok_sched_world C a l np cpu ram t s newp ss' w' _ _ p E W R Sch).
  - exact (counts_ok_sim C a l np cpu ram _ s1 p E W R1).
  - intros o Ho. eapply owned_busy; [|exact Ho]. eapply sim_reach_exec_r; eauto.
Qed.

(* non-vacuity: the run of SimReachFacts.SimReachExamples, state after three ticks under every scheduler *)
Example counts_ok_sim_applies a k :
  StatsFacts.counts_ok (cf_static SimReachExamples.Cx) (e_world (sm_exec (SimReachExamples.mid a))) k.
Proof.
  destruct (SimReachExamples.mid_reach a) as [t R].
  exact (counts_ok_sim SimReachExamples.Cx a SimReachExamples.Lx 2 10%Z 10%Q t _ k eq_refl
           SimReachExamples.Lx_wf R).
Qed.

(* ---------------------------------------------------------------------------------------- *)
(* C09                                                                                        *)
(* ---------------------------------------------------------------------------------------- *)

Example story2 :
  map (fun s => w_st (e_world s)) [s6; s7; s8] =
  [ [Completed; Completed; Assigned; Assigned; Completed; Completed; Failed];
    [Completed; Completed; Running; Assigned; Completed; Completed; Failed];
    [Completed; Completed; Failed; Failed; Completed; Completed; Failed] ] /\
  map (fun r => (r_cid r, r_ops r, r_err r)) r8 = [(3, [1; 2; 3], true)].
Proof. split; vm_compute; reflexivity. Qed.

Lemma RC5 : reach_count Cf s0 s5 (r1 ++ r4) 4.
Proof.
  change (r1 ++ r4) with ((((([] ++ r1) ++ []) ++ []) ++ r4) ++ []).
  change 4 with (((((0 + length [aA; aB; aC]) + length (@nil asg)) + length (@nil asg)) + length (@nil asg))
                 + length [aA']).
  eapply rc_step; [eapply rc_step; [eapply rc_step; [eapply rc_step; [eapply rc_step; [apply rc_init|exact E1]
    |exact E2]|exact E3]|exact E4]|exact E5].
Qed.
Lemma RC8 : reach_count Cf s0 s8 (r1 ++ r4 ++ r8) 4.
Proof.
  change (r1 ++ r4 ++ r8) with ((((r1 ++ r4) ++ []) ++ []) ++ r8).
  change 4 with (((4 + length (@nil asg)) + length (@nil asg)) + length (@nil asg)).
  eapply rc_step; [eapply rc_step; [eapply rc_step; [exact RC5|exact E6]|exact E7]|exact E8].
Qed.

(* ledger_count (= C09_ledger) applied: 4 assignments = 1 success + 1 failure + 1 live + 1 suspended at s5,
   and = 1 success + 2 failures + 0 live + 1 suspended at s8 *)
Example C09_ledger_applies :
  (4 = length (filter (fun r => negb (r_err r)) (r1 ++ r4)) + length (filter r_err (r1 ++ r4))
       + live_count s5 + suspended_count s5) /\
  (length (filter (fun r => negb (r_err r)) (r1 ++ r4)), length (filter r_err (r1 ++ r4)),
   live_count s5, suspended_count s5) = (1, 1, 1, 1) /\
  (length (filter (fun r => negb (r_err r)) (r1 ++ r4 ++ r8)), length (filter r_err (r1 ++ r4 ++ r8)),
   live_count s8, suspended_count s8) = (1, 2, 0, 1).
Proof.
  split; [exact (ledger_count Cf 1 8%Z 64%Q s5 (r1 ++ r4) 4 RC5)|].
  split; vm_compute; reflexivity.
Qed.

Example C09_accounting_applies :
  NoDup (map r_cid (r1 ++ r4 ++ r8)) /\ map r_cid (r1 ++ r4 ++ r8) = [2; 1; 3] /\
  all_ids (e_pools s8) = [0] /\ e_next s8 = 4 /\
  (forall p c, In p (e_pools s8) -> In c (p_suspended p) -> ~ In (c_id c) (map r_cid (r1 ++ r4 ++ r8))).
Proof.
  pose proof (reach_count_hist _ _ _ _ _ RC8) as RH.
  split; [exact (results_once Cf 1 8%Z 64%Q s8 _ RH)|].
  split; [vm_compute; reflexivity|]. split; [vm_compute; reflexivity|]. split; [vm_compute; reflexivity|].
  intros p c Hp Hc. exact (suspended_not_in_results Cf 1 8%Z 64%Q s8 _ p c RH Hp Hc).
Qed.

(* pool level *)
Definition pl (s : estate) : pool := hd (new_pool 0 0%Z 0%Q) (e_pools s).
Definition p1 : pool := Eval vm_compute in pl s1.
Definition p2 : pool := Eval vm_compute in pl s2.
Definition p3 : pool := Eval vm_compute in pl s3.
Definition p4 : pool := Eval vm_compute in pl s4.
Definition p7 : pool := Eval vm_compute in pl s7.
Definition p8 : pool := Eval vm_compute in pl s8.
Definition w1 : world := Eval vm_compute in e_world s1.
Definition w2 : world := Eval vm_compute in e_world s2.
Definition w3 : world := Eval vm_compute in e_world s3.
Definition w4 : world := Eval vm_compute in e_world s4.
Definition w7 : world := Eval vm_compute in e_world s7.
Definition w8 : world := Eval vm_compute in e_world s8.

Lemma PT2 : pool_tick Cf w1 3 p1 [] [] = Ok (w2, 3, p2, []).        Proof. vm_compute. reflexivity. Qed.
Lemma PT3 : pool_tick Cf w2 3 p2 [su0] [] = Ok (w3, 3, p3, []).     Proof. vm_compute. reflexivity. Qed.
Lemma PT4 : pool_tick Cf w3 3 p3 [] [] = Ok (w4, 3, p4, r4).        Proof. vm_compute. reflexivity. Qed.
Lemma PT8 : pool_tick Cf w7 4 p7 [] [] = Ok (w8, 4, p8, r8).        Proof. vm_compute. reflexivity. Qed.

(* result_shape (= C09_result_shape) applied to the tick in which container 3 = [1;2;3] is killed in its
   second operator: the hypotheses ([active_ok], NoDup) hold of the concrete running container, the
   failure has the completed prefix [1] and the failed suffix [2;3] *)
Example C09_result_shape_applies :
  forall r, In r r8 ->
    r_err r = true /\
    exists k, k < length (r_ops r) /\
              (forall o, In o (firstn k (r_ops r)) -> st_of w8 o = Completed) /\
              (forall o, In o (skipn k (r_ops r)) -> st_of w8 o = Failed).
Proof.
  intros r Hr.
  assert (A : forall c, In c (p_active p7) -> active_ok w7 c /\ NoDup (c_ops c)).
  { intros c Hc. vm_compute in Hc. destruct Hc as [<-|[]]. split.
    - unfold active_ok, prefix_completed, LedgerFacts.ops_known. cbn [c_opidx c_ops c_completed].
      split; [intros i Hi; destruct i as [|i]; [vm_compute; reflexivity|cbn in Hi; lia]|].
      split; [cbn; lia|]. split; [reflexivity|].
      intros o Ho. cbn in Ho. vm_compute. destruct Ho as [<-|[<-|[<-|[]]]]; lia.
    - cbn [c_ops]. repeat constructor; cbn; intuition lia. }
  destruct (result_shape Cf w7 4 p7 [] [] w8 4 p8 r8 A ltac:(intros a []) PT8) as [Sh _].
  destruct (Sh r Hr) as [_ F]. vm_compute in Hr. destruct Hr as [<-|[]].
  split; [reflexivity|]. exact (F eq_refl).
Qed.

(* ... and it really is k = 1 *)
Example C09_failure_prefix :
  map (st_of w8) [1; 2; 3] = [Completed; Failed; Failed] /\ map (st_of w7) [1; 2; 3] = [Completed; Running; Assigned].
Proof. split; vm_compute; reflexivity. Qed.

(* success: result_shape on the tick in which container 1 = [4;5] finishes *)
Example C09_success_shape_applies :
  forall r, In r r4 -> r_err r = false /\ forall o, In o (r_ops r) -> st_of w4 o = Completed.
Proof.
  intros r Hr.
  assert (A : forall c, In c (p_active p3) -> active_ok w3 c /\ NoDup (c_ops c)).
  { intros c Hc. vm_compute in Hc. destruct Hc as [<-|[]]. split.
    - unfold active_ok, prefix_completed, LedgerFacts.ops_known. cbn [c_opidx c_ops c_completed].
      split; [intros i Hi; destruct i as [|i]; [vm_compute; reflexivity|cbn in Hi; lia]|].
      split; [cbn; lia|]. split; [reflexivity|].
      intros o Ho. cbn in Ho. vm_compute. destruct Ho as [<-|[<-|[]]]; lia.
    - cbn [c_ops]. repeat constructor; cbn; intuition lia. }
  destruct (result_shape Cf w3 3 p3 [] [] w4 3 p4 r4 A ltac:(intros a []) PT4) as [Sh _].
  destruct (Sh r Hr) as [S _]. vm_compute in Hr. destruct Hr as [<-|[]].
  split; [reflexivity|]. exact (S eq_refl).
Qed.

(* a command for a pool that does not exist: bad_pool_rejected (= C09_bad_pool_rejected) *)
Example C09_bad_pool_applies :
  exec_tick Cf s4 [] [{| a_ops := [1]; a_cpu := 1%Z; a_ram := 1%Q; a_prio := Batch; a_pool := 1%Z |}] = Err EBadPool
  /\ exec_tick Cf s4 [{| su_cid := 0; su_pool := (-1)%Z |}] [] = Err EBadPool.
Proof.
  split.
  - apply bad_pool_rejected. right. eexists. split; [left; reflexivity|vm_compute; reflexivity].
  - apply bad_pool_rejected. left. eexists. split; [left; reflexivity|vm_compute; reflexivity].
Qed.

(* ---------------------------------------------------------------------------------------- *)
(* C10                                                                                        *)
(* ---------------------------------------------------------------------------------------- *)

Definition c0_2 : container := Eval vm_compute in hd (new_container 0 [] 0%Z 0%Q Batch) (p_active p2).

Example C10_can_suspend_story :
  map (fun p => map (fun c => (c_id c, c_opidx c, c_can_suspend c)) (p_active p)) [p1; p2; p3] =
  [ [(0, 0, false); (1, 0, false)]; [(0, 1, true); (1, 1, true)]; [(1, 1, false)] ].
Proof. vm_compute. reflexivity. Qed.

(* rejected: in the middle of an operator (s1), unknown container, container already suspending (s3),
   container already suspended (s4); suspend_rejected (= C10_rejected) applied to the first *)
Example C10_rejected_applies :
  pool_tick Cf w1 3 p1 [su0] [] = Err EBadSuspend /\
  exec_step Cf s1 [su0] [] = Err EBadSuspend /\
  exec_step Cf s2 [{| su_cid := 9; su_pool := 0%Z |}] [] = Err EBadSuspend /\
  exec_step Cf s3 [su0] [] = Err EBadSuspend /\
  exec_step Cf s4 [su0] [] = Err EBadSuspend /\
  exec_step Cf s2 [su0; su0] [] = Err EBadSuspend.
Proof.
  split.
  - apply (suspend_rejected Cf w1 3 p1 [su0] [] su0); [left; reflexivity|].
    intros c Hc. vm_compute in Hc. inversion Hc; subst. reflexivity.
  - repeat split; vm_compute; reflexivity.
Qed.

(* accepted only at the boundary: suspendable_only_between_operators (= C10_only_between_operators)
   applied to the tick s1 -> s2 *)
Example C10_only_between_applies :
  forall c', In c' (p_active p2) -> c_can_suspend c' = true /\
    exists c, In c (p_active p1) /\ c_id c = c_id c' /\ c_opidx c' = S (c_opidx c) /\
              c_opidx c' < length (c_ops c') /\ c_rest c' = None.
Proof.
  intros c' Hc'.
  assert (A : forall c, In c (p_active p1) -> c_completed c = false /\ c_frozen c = false).
  { intros c Hc. vm_compute in Hc. destruct Hc as [<-|[<-|[]]]; split; reflexivity. }
  destruct (suspendable_only_between_operators Cf w1 3 p1 [] [] w2 3 p2 [] A PT2 c' Hc') as (_ & _ & H).
  assert (Cs : c_can_suspend c' = true).
  { vm_compute in Hc'. destruct Hc' as [<-|[<-|[]]]; reflexivity. }
  split; [exact Cs|]. destruct (H Cs) as (c & [Hc|Hc] & I & _ & O & Lt & Rs).
  - exists c. repeat split; assumption.
  - destruct Hc.
Qed.

(* the suspension of container 0 (40 GB at 1 tick/s, float-faithful: D = 2): suspension_lasts
   (= C10_lasts_D_ticks), suspend_release_states (= C10_returns_work_intact), suspend_accepted_tick,
   suspending_countdown applied *)
Definition wS : world := Eval vm_compute in match csuspend Cf w2 c0_2 with Ok (w, _) => w | Err _ => w2 end.
Definition cS : container := Eval vm_compute in match csuspend Cf w2 c0_2 with Ok (_, c) => c | Err _ => c0_2 end.
Lemma CS : csuspend Cf w2 c0_2 = Ok (wS, cS).   Proof. vm_compute. reflexivity. Qed.

Example C10_lasts_applies :
  suspend_ticks Cf (c_ram c0_2) = 2%Z /\
  (exists ck, susp_iter Cf wS cS 1 = Ok (wS, ck) /\ is_suspended ck = false /\ same_but_susp c0_2 ck) /\
  (forall wk ck, susp_iter Cf wS cS 2 = Ok (wk, ck) -> is_suspended ck = true /\ same_but_susp c0_2 ck) /\
  (exists wk ck, susp_iter Cf wS cS 2 = Ok (wk, ck) /\ map (st_of wk) [0; 1; 2; 3] = [Completed; Pending; Pending; Pending]).
Proof.
  destruct (suspension_lasts Cf w2 c0_2 wS cS CS) as [A B].
  split; [vm_compute; reflexivity|].
  split; [apply (A 1); vm_compute; reflexivity|].
  split; [intros wk ck; apply (B 2 wk ck); vm_compute; reflexivity|].
  eexists. eexists. split; vm_compute; reflexivity.
Qed.

Example C10_returns_applies :
  exists w' c', susp_iter Cf wS cS (Z.to_nat (suspend_ticks Cf (c_ram c0_2))) = Ok (w', c') /\
    is_suspended c' = true /\
    (forall o, In o [1; 2; 3] -> st_of w' o = Pending) /\ st_of w' 0 = Completed /\
    exists w3', mk_assignment Cf w' aA' = Ok w3'.
Proof.
  remember (susp_iter Cf wS cS (Z.to_nat (suspend_ticks Cf (c_ram c0_2)))) as R eqn:ER.
  assert (X : exists w' c', R = Ok (w', c')) by (subst R; vm_compute; eauto).
  destruct X as (w' & c' & EQ). exists w', c'. split; [exact EQ|]. rewrite EQ in ER. symmetry in ER.
  destruct (suspend_release_states Cf w2 c0_2 wS cS w' c') as (H1 & _ & H3 & H4 & _ & H6); try exact CS; try exact ER.
  - cbn [c_ops c0_2]. repeat constructor; cbn; intuition lia.
  - intros o Ho. cbn in Ho. vm_compute. destruct Ho as [<-|[<-|[<-|[<-|[]]]]]; lia.
  - intros o Ho. cbn in Ho. destruct Ho as [<-|[]]. vm_compute. reflexivity.
  - intros o Ho. cbn in Ho. destruct Ho as [<-|[<-|[<-|[]]]]; vm_compute; reflexivity.
  - split; [exact H1|]. split; [exact H3|]. split; [apply H4; cbn; left; reflexivity|].
    apply (H6 2%Z 8%Q Batch 0%Z); [cbn; lia | lia | reflexivity].
Qed.

Example C10_pool_level_applies :
  (exists c, find_container 0 (p_active p2) = Some c /\ c_can_suspend c = true /\
             In (with_susp c (suspend_ticks Cf (c_ram c) - 1)) (p_suspending p3)) /\
  (forall c, In c (p_suspending p3) -> c_susp_left c = 1%Z /\ In (with_susp c 0) (p_suspended p4)) /\
  (* the allocation is held while suspending and released exactly when it ends *)
  map (fun p => (p_avail_cpu p, Qred (p_avail_ram p))) [p2; p3; p4] = [(6%Z, 20%Q); (6%Z, 20%Q); (8%Z, 64%Q)].
Proof.
  split.
  - destruct (suspend_accepted_tick Cf w2 3 p2 [su0] [] w3 3 p3 [] su0 PT3 ltac:(left; reflexivity))
      as (c & F & Cs & _ & D & _).
    exists c. split; [exact F|]. split; [exact Cs|]. apply D.
    vm_compute in F. inversion F; subst. vm_compute. discriminate.
  - split; [|vm_compute; reflexivity].
    intros c Hc. assert (L1 : c_susp_left c = 1%Z).
    { vm_compute in Hc. destruct Hc as [<-|[]]. reflexivity. }
    split; [exact L1|].
    destruct (suspending_countdown Cf w3 3 p3 [] [] w4 3 p4 r4 c PT4 Hc) as [A _]. exact (A L1).
Qed.

(* ---------------------------------------------------------------------------------------- *)
(* C06: finish_tick_has_result (= C06_finish_tick_has_result) applied                         *)
(* ---------------------------------------------------------------------------------------- *)
Module F.
Import StatsFacts.Examples.
(* exC of StatsFacts.Examples (a 1-operator query pipeline 0, a 2-operator batch pipeline 1, two ticks per
   operator), naive, TWO pools: pipeline 0 runs in pool 0 in ticks 0-1; pipeline 1 arrives in tick 1 and
   starts in pool 1.  Tick 1 is the tick in which the last operator of pipeline 0 completes. *)
Definition i0 : sim := init_sim exC 2 4%Z 8%Q.
Definition sA : sim := Eval vm_compute in match sim_tick exC ANaive 0%Z i0 [0] with Ok (s, _) => s | Err _ => i0 end.
Definition sB : sim := Eval vm_compute in match sim_tick exC ANaive 1%Z sA [1] with Ok (s, _) => s | Err _ => i0 end.
Definition lgB : tick_log :=
  Eval vm_compute in match sim_tick exC ANaive 1%Z sA [1] with
                     | Ok (_, l) => l
                     | Err _ => {| tl_new := []; tl_susp := []; tl_asgs := []; tl_results := []; tl_finished := [] |}
                     end.
Definition ssB : sstate :=
  Eval vm_compute in match sched_step exC ANaive (sm_sched sA) (sm_exec sA) (sm_results sA) [1] with
                     | Ok (x, _, _, _) => x | Err _ => sm_sched sA end.
Definition wB : world :=
  Eval vm_compute in match sched_step exC ANaive (sm_sched sA) (sm_exec sA) (sm_results sA) [1] with
                     | Ok (_, w, _, _) => w | Err _ => e_world (sm_exec sA) end.

Lemma TB : sim_tick exC ANaive 1%Z sA [1] = Ok (sB, lgB).   Proof. vm_compute. reflexivity. Qed.
Lemma SB : sched_step exC ANaive (sm_sched sA) (sm_exec sA) (sm_results sA) [1] = Ok (ssB, wB, tl_susp lgB, tl_asgs lgB).
Proof. vm_compute. reflexivity. Qed.

Lemma counts_concrete w k :
  (forall a, In a all_ostates -> cnt_of w k a =
     Z.of_nat (length (filter (fun o => ostate_eqb (st_of w o) a) (pd_order (pipe_of exS k))))) ->
  StatsFacts.counts_ok exS w k.
Proof. intros H a. apply H. destruct a; cbn; tauto. Qed.

Example C06_finish_tick_applies :
  tl_results lgB <> [] /\ In 0 (tl_finished lgB) /\
  (* the instance is not degenerate: a container of the other pipeline is running in sB *)
  map (fun p => map c_ops (p_active p)) (e_pools (sm_exec sB)) = [[]; [[1; 2]]] /\
  sm_lat sB = [(Query, 1%Z)].
Proof.
  assert (G : tl_results lgB <> [] /\ In 0 (tl_finished lgB)).
  { apply (finish_tick_has_result exC ANaive 1%Z sA [1] sB lgB 0 ssB wB TB SB).
    - apply counts_concrete. intros a Ha. cbn in Ha.
      repeat (destruct Ha as [<-|Ha]; [vm_compute; reflexivity|]). destruct Ha.
    - apply counts_concrete. intros a Ha. cbn in Ha.
      repeat (destruct Ha as [<-|Ha]; [vm_compute; reflexivity|]). destruct Ha.
    - intros q c Hq Hc. vm_compute in Hq. destruct Hq as [<-|[<-|[]]]; vm_compute in Hc; [destruct Hc|].
      destruct Hc as [<-|[]]. intros k o1 o2 H1 H2 H3. cbn [c_ops] in H1, H2.
      destruct k as [|[|[|k]]]; cbn in H3.
      + destruct H1 as [<-|[<-|[]]]; destruct H3 as [H3|[]]; discriminate H3.
      + cbn. destruct H2 as [<-|[<-|[]]]; auto.
      + destruct H3.
      + destruct H3.
    - intros o Ho. vm_compute in Ho. destruct Ho as [<-|[<-|[]]]; vm_compute; auto.
    - vm_compute. reflexivity.
    - vm_compute. reflexivity.
    - left. vm_compute. left. reflexivity. }
  destruct G as [G1 G2]. split; [exact G1|]. split; [exact G2|]. split; vm_compute; reflexivity.
Qed.
End F.

(* ---------------------------------------------------------------------------------------- *)
(* C05: tick arithmetic instances                                                             *)
(* ---------------------------------------------------------------------------------------- *)
Definition mt0 : mathtab := {| mt_log := fun _ => 0%Q; mt_sqrt := fun _ => 1%Q |}.
Definition tiny : seg := {| sg_cpu_secs := (1 # 1000)%Q; sg_law := Const; sg_mem := None; sg_read := 0%Q |}.

(* op_seg_ticks_min_one (= C05_min_one_tick) applied: 1 ms of CPU at 10 ticks/s rounds to zero ticks and is
   bumped to one CPU tick; the script has exactly one entry *)
Example C05_min_one_tick_applies :
  map (seg_ticks rnd64 mt0 10%Z 1%Z) [tiny] = [(0%Z, 0%Z)] /\
  op_seg_ticks rnd64 mt0 10%Z 1%Z [tiny] = [(0%Z, 1%Z)] /\
  length (op_script rnd64 mt0 10%Z 1%Z [tiny]) = 1 /\
  (1 <= sumZ (map (fun p => (fst p + snd p)%Z) (op_seg_ticks rnd64 mt0 10%Z 1%Z [tiny])))%Z.
Proof.
  split; [vm_compute; reflexivity|]. split; [vm_compute; reflexivity|]. split; [vm_compute; reflexivity|].
  apply op_seg_ticks_min_one; [discriminate|].
  constructor; [|constructor]. vm_compute. split; discriminate.
Qed.

(* ticks_of_exact_away_rnd64 (= C05_ticks_exact_away) applied: 0.25 s at 6 ticks/s, x = 1.5, no integer
   within 6 * 2^-53 of it: the float-faithful count is floor(1.5) = 1 *)
Example C05_exact_away_applies :
  ticks_of rnd64 6%Z (1 # 4)%Q = floorQ ((1 # 4) * inject_Z 6)%Q /\ floorQ ((1 # 4) * inject_Z 6)%Q = 1%Z.
Proof.
  split; [|vm_compute; reflexivity].
  apply ticks_of_exact_away_rnd64; [unfold Qle; cbn; lia | lia |].
  intros k H. apply Qabs_Qle_condition in H. destruct H as [H1 H2].
  unfold Qle, Qminus, Qplus, Qopp, Qmult, inject_Z in H1, H2.
  cbn [Qnum Qden] in H1, H2. lia.
Qed.

End AuditA.
