(* Facts about choice_float (Model/Generator.v): numpy's Generator.choice(a, p=probs) as it is computed in
   binary64 from the one uniform double u it draws (float cumsum, division by the last entry, right-side search).
     - the index is in range for u < 1 (the last cdf entry is exactly 1);
     - a class of probability 0 is never chosen (its cdf entry is bit-identical to the previous one; entry 0 is 0);
     - the index is monotone in u; the float cdf is sorted, so numpy's binary search finds the same index;
     - the float cdf entry k is within the relative factors [cf_lo n, cf_hi n] of the exact cumulative probability,
       hence choice_float = the exact inverse CDF choice_of whenever u is outside those windows (general n, and the
       closed window 2^-50 for the three priority classes);
     - the same through the normalisation of __init__ (prio_probs);
     - gen_run_u (computed class draws) is gen_run on the resolved stream. *)
From Coq Require Import ZArith QArith Qabs List Bool Arith Lia Lqa Psatz.
Import ListNotations.
Close Scope Q_scope.
Close Scope Z_scope.
From Eudoxia Require Import Num.Rnd64 Model.Types Model.Generator
  Proofs.Rnd64Facts Proofs.FloatBoundFacts Proofs.GeneratorFacts.
Local Open Scope Q_scope.

(* ------------------------------------------------------------------------------------------ *)
(* lists *)

Lemma nth_map_lt {A B} (f : A -> B) l i d d' : (i < length l)%nat -> nth i (map f l) d' = f (nth i l d).
Proof.
  intros H. rewrite (nth_indep (map f l) d' (f d)) by (rewrite map_length; exact H). apply map_nth.
Qed.

Lemma last_map {A B} (f : A -> B) l d d' : l <> [] -> last (map f l) d' = f (last l d).
Proof.
  induction l as [|x t IH]; intros H; [congruence|].
  destruct t as [|y t']; [reflexivity|].
  change (last (map f (y :: t')) d' = f (last (y :: t') d)). apply IH. discriminate.
Qed.

Lemma last_nth {A} (l : list A) d : last l d = nth (length l - 1) l d.
Proof.
  induction l as [|x t IH]; [reflexivity|].
  destruct t as [|y t']; [reflexivity|].
  change (last (y :: t') d = nth (length (y :: t')) (x :: y :: t') d).
  rewrite IH. simpl. rewrite Nat.sub_0_r. reflexivity.
Qed.

(* ------------------------------------------------------------------------------------------ *)
(* the right-side search *)

Lemma search_right_bounds c : forall u i, (i <= search_right c u i <= i + length c)%nat.
Proof.
  induction c as [|x t IH]; intros u i; simpl; [lia|].
  destruct (Qltb u x); [lia|]. specialize (IH u (S i)). lia.
Qed.

(* the result is the first index whose entry exceeds u *)
Lemma search_right_spec c : forall u i k, search_right c u i = (i + k)%nat ->
  (forall j, (j < k)%nat -> ~ u < nth j c 0) /\ ((k < length c)%nat -> u < nth k c 0).
Proof.
  induction c as [|x t IH]; intros u i k E; simpl in E.
  - assert (k = 0)%nat by lia. subst k. split; [intros j Hj; lia | simpl; lia].
  - destruct (Qltb_spec u x) as [L|L].
    + assert (k = 0)%nat by lia. subst k. split; [intros j Hj; lia | intros _; exact L].
    + destruct k as [|k].
      * pose proof (search_right_bounds t u (S i)). lia.
      * replace (i + S k)%nat with (S i + k)%nat in E by lia.
        destruct (IH u (S i) k E) as [A B]. split.
        -- intros [|j] Hj; simpl; [exact L | apply A; lia].
        -- intros Hk. simpl in Hk. simpl. apply B. lia.
Qed.

Lemma search_right_mono c : forall u u' i, u <= u' -> (search_right c u i <= search_right c u' i)%nat.
Proof.
  induction c as [|x t IH]; intros u u' i H; simpl; [lia|].
  destruct (Qltb_spec u x) as [L|L].
  - destruct (Qltb u' x); [lia|]. pose proof (search_right_bounds t u' (S i)). lia.
  - destruct (Qltb_spec u' x) as [L'|L']; [exfalso; apply L; lra|]. apply IH, H.
Qed.

Lemma search_right_lt_last c : forall u i, c <> [] -> u < last c 0 -> (search_right c u i < i + length c)%nat.
Proof.
  induction c as [|x t IH]; intros u i Hne Hl; [congruence|]. simpl.
  destruct (Qltb_spec u x) as [L|L]; [lia|].
  destruct t as [|y t']; [simpl in Hl; contradiction|].
  assert (Hl' : u < last (y :: t') 0) by exact Hl.
  specialize (IH u (S i) ltac:(discriminate) Hl'). simpl length in *. lia.
Qed.

(* two arrays on which u compares the same way give the same index *)
Lemma search_right_agree u : forall c c' i,
  Forall2 (fun x y => Qltb u x = Qltb u y) c c' -> search_right c u i = search_right c' u i.
Proof.
  intros c c' i H. revert i. induction H as [|x y t t' E H IH]; intros i; [reflexivity|].
  simpl. rewrite E. destruct (Qltb u y); [reflexivity | apply IH].
Qed.

Lemma Forall2_nth_intro {A B} (R : A -> B -> Prop) da db : forall (l : list A) (l' : list B),
  length l = length l' -> (forall k, (k < length l)%nat -> R (nth k l da) (nth k l' db)) -> Forall2 R l l'.
Proof.
  induction l as [|x t IH]; intros [|y t'] E H; simpl in E; try discriminate; constructor.
  - apply (H 0%nat). simpl; lia.
  - apply IH; [lia|]. intros k Hk. apply (H (S k)). simpl; lia.
Qed.

(* ------------------------------------------------------------------------------------------ *)
(* the float cumsum *)

Lemma fcumsum_length l : forall acc, length (fcumsum acc l) = length l.
Proof. induction l as [|p t IH]; intros acc; simpl; [reflexivity | rewrite IH; reflexivity]. Qed.

Lemma float_cdf_length probs : length (float_cdf probs) = length probs.
Proof. unfold float_cdf. rewrite map_length. apply fcumsum_length. Qed.

Lemma fcumsum_ne l acc : l <> [] -> fcumsum acc l <> [].
Proof. destruct l; [congruence | discriminate]. Qed.

Lemma rnd64_pos_lt x : 0 < x -> 0 < rnd64 x.
Proof. intros H. rewrite (rnd64_pos x H). apply rp_pos, H. Qed.

(* the total is positive as soon as one probability is *)
Lemma fcumsum_last_pos l : forall acc, l <> [] -> nonnegl l -> 0 <= acc -> 0 < acc + sumQl l ->
  0 < last (fcumsum acc l) 0.
Proof.
  induction l as [|p t IH]; intros acc Hne Hn Ha Hs; [congruence|].
  inversion Hn as [|p' t' Hp Ht]; subst.
  destruct t as [|q t'].
  - simpl in *. apply rnd64_pos_lt. lra.
  - change (0 < last (fcumsum (fadd acc p) (q :: t')) 0).
    assert (Ha' : 0 <= fadd acc p) by (apply rnd64_nonneg; lra).
    apply IH; [discriminate | exact Ht | exact Ha' |].
    pose proof (sumQl_nonneg _ Ht) as Hs'.
    destruct (Qlt_le_dec 0 (sumQl (q :: t'))) as [G|G]; [lra|].
    assert (0 < fadd acc p); [|lra].
    apply rnd64_pos_lt. change (sumQl (p :: q :: t')) with (p + sumQl (q :: t')) in Hs. lra.
Qed.

Lemma fdiv_self x : 0 < x -> fdiv x x == 1.
Proof.
  intros H. unfold fdiv. rewrite (rnd64_proper (x / x) 1) by (field; lra).
  exact (rnd64_int 1 ltac:(vm_compute; discriminate)).
Qed.

Lemma float_cdf_last probs : probs <> [] -> nonnegl probs -> 0 < sumQl probs -> last (float_cdf probs) 0 == 1.
Proof.
  intros Hne Hn Hs. unfold float_cdf.
  rewrite (last_map _ _ 0 0) by (apply fcumsum_ne, Hne).
  apply fdiv_self. apply fcumsum_last_pos; [exact Hne | exact Hn | lra | lra].
Qed.

(* (a) *)
Theorem choice_float_in_range probs u :
  nonnegl probs -> 0 < sumQl probs -> u < 1 -> (choice_float probs u < length probs)%nat.
Proof.
  intros Hn Hs Hu.
  assert (Hne : probs <> []) by (intros ->; simpl in Hs; lra).
  unfold choice_float. rewrite <- (float_cdf_length probs).
  apply (search_right_lt_last (float_cdf probs) u 0%nat).
  - intros E. apply (f_equal (@length Q)) in E. rewrite float_cdf_length in E. destruct probs; [congruence | discriminate].
  - rewrite (float_cdf_last probs Hne Hn Hs). exact Hu.
Qed.

(* an entry whose probability is 0 repeats the previous entry bit for bit *)
Lemma fcumsum_zero_step l : forall acc i, (0 < i)%nat -> (i < length l)%nat -> nth i l 0 == 0 ->
  nth i (fcumsum acc l) 0 == nth (i - 1) (fcumsum acc l) 0.
Proof.
  induction l as [|p t IH]; intros acc i H0 Hi Hz; simpl in Hi; [lia|].
  destruct i as [|j]; [lia|]. simpl. rewrite Nat.sub_0_r.
  destruct j as [|j'].
  - destruct t as [|q t']; [simpl in Hi; lia|]. simpl in Hz. simpl.
    unfold fadd at 1. rewrite (rnd64_proper (fadd acc p + q) (fadd acc p)) by (rewrite Hz; ring).
    unfold fadd. apply rnd64_idem.
  - specialize (IH (fadd acc p) (S j') ltac:(lia) ltac:(lia) Hz).
    simpl in IH. rewrite Nat.sub_0_r in IH. exact IH.
Qed.

Lemma fdiv_proper a b c : a == b -> fdiv a c == fdiv b c.
Proof. intros H. unfold fdiv. apply rnd64_proper. rewrite H. reflexivity. Qed.

Lemma float_cdf_nth probs k : (k < length probs)%nat ->
  nth k (float_cdf probs) 0 = fdiv (nth k (fcumsum 0 probs) 0) (last (fcumsum 0 probs) 0).
Proof.
  intros H. unfold float_cdf. apply (nth_map_lt (fun x => fdiv x (last (fcumsum 0 probs) 0))).
  rewrite fcumsum_length. exact H.
Qed.

(* (b) *)
Theorem choice_float_zero_prob_never probs u i :
  (i < length probs)%nat -> nth i probs 0 == 0 -> 0 <= u -> choice_float probs u <> i.
Proof.
  intros Hi Hz Hu E. unfold choice_float in E.
  destruct (search_right_spec (float_cdf probs) u 0%nat i E) as [A B].
  rewrite float_cdf_length in B. specialize (B Hi).
  destruct i as [|j].
  - (* entry 0 is  (0 + p0) / total = 0 *)
    rewrite (float_cdf_nth probs 0%nat Hi) in B.
    destruct probs as [|p t]; [simpl in Hi; lia|]. simpl in Hz. simpl nth in B.
    assert (Z0 : fadd 0 p == 0).
    { unfold fadd. rewrite (rnd64_proper (0 + p) 0) by (rewrite Hz; ring). apply rnd64_0. }
    rewrite (fdiv_proper _ 0 _ Z0) in B. unfold fdiv in B.
    rewrite (rnd64_proper (0 / _) 0) in B by (unfold Qdiv; ring). rewrite rnd64_0 in B. lra.
  - apply (A j); [lia|].
    rewrite (float_cdf_nth probs j) by lia. rewrite (float_cdf_nth probs (S j) Hi) in B.
    pose proof (fcumsum_zero_step probs 0 (S j) ltac:(lia) Hi Hz) as Z. simpl in Z. rewrite Nat.sub_0_r in Z.
    rewrite (fdiv_proper _ _ _ Z) in B. exact B.
Qed.

(* (c) *)
Theorem choice_float_monotone probs u u' : u <= u' -> (choice_float probs u <= choice_float probs u')%nat.
Proof. intros H. apply search_right_mono, H. Qed.

(* ------------------------------------------------------------------------------------------ *)
(* (d) the float cdf against the exact cumulative probabilities *)

(* (1 - 2^-53)^k, the companion of FloatBoundFacts.pw k = (1 + 2^-53)^k *)
Fixpoint pm (k : nat) : Q := match k with O => 1 | S k' => (1 - u53) * pm k' end.

Lemma pm_pos k : 0 < pm k.
Proof. induction k as [|k IH]; cbn [pm]; [lra|]. unfold u53 in *. nra. Qed.

Lemma pm_le1 k : pm k <= 1.
Proof. induction k as [|k IH]; cbn [pm]; [lra|]. pose proof (pm_pos k). unfold u53 in *. nra. Qed.

Lemma pm_S_le k : pm (S k) <= pm k.
Proof. pose proof (pm_pos k). cbn [pm]. unfold u53. nra. Qed.

Lemma pm_anti a b : (a <= b)%nat -> pm b <= pm a.
Proof. induction 1 as [|b H IH]; [lra|]. eapply Qle_trans; [apply pm_S_le | exact IH]. Qed.

Lemma step_lo A p acc m e : 0 <= A -> 0 <= p -> 0 < m -> m <= 1 -> 0 <= e -> e <= 1 -> A * m <= acc ->
  (A + p) * ((1 - e) * m) <= (acc + p) * (1 - e).
Proof.
  intros HA Hp Hm Hm1 He He1 H.
  assert (E1 : p * m <= p) by nra.
  assert (E2 : (A + p) * m <= acc + p) by nra.
  assert (E3 : 0 <= 1 - e) by lra.
  setoid_replace ((A + p) * ((1 - e) * m)) with ((1 - e) * ((A + p) * m)) by ring.
  setoid_replace ((acc + p) * (1 - e)) with ((1 - e) * (acc + p)) by ring.
  apply Qmult_le_nonneg_l; assumption.
Qed.

Lemma step_hi A p acc w e : 0 <= A -> 0 <= p -> 1 <= w -> 0 <= e -> acc <= A * w ->
  (acc + p) * (1 + e) <= (A + p) * ((1 + e) * w).
Proof.
  intros HA Hp Hw He H.
  assert (E1 : p <= p * w) by nra.
  assert (E2 : acc + p <= (A + p) * w) by nra.
  assert (E3 : 0 <= 1 + e) by lra.
  setoid_replace ((A + p) * ((1 + e) * w)) with ((1 + e) * ((A + p) * w)) by ring.
  setoid_replace ((acc + p) * (1 + e)) with ((1 + e) * (acc + p)) by ring.
  apply Qmult_le_nonneg_l; assumption.
Qed.

Lemma u53_range : 0 <= u53 /\ u53 <= 1.
Proof. unfold u53. split; [discriminate | discriminate]. Qed.

(* entry k of the float cumsum started at acc (exact value A, j roundings behind it) *)
Lemma fcumsum_bounds l : forall acc A j, nonnegl l -> 0 <= A -> A * pm j <= acc -> acc <= A * pw j ->
  forall k, (k < length l)%nat ->
  (A + cdf l (S k)) * pm (j + S k) <= nth k (fcumsum acc l) 0 /\
  nth k (fcumsum acc l) 0 <= (A + cdf l (S k)) * pw (j + S k).
Proof.
  induction l as [|p t IH]; intros acc A j Hn HA Hlo Hhi k Hk; simpl in Hk; [lia|].
  inversion Hn as [|p' t' Hp Ht]; subst.
  destruct u53_range as [U0 U1].
  pose proof (pm_pos j) as M0. pose proof (pm_le1 j) as M1. pose proof (pw_ge1 j) as W1.
  assert (Hacc : 0 <= acc) by nra.
  destruct (rnd64_rel_nonneg (acc + p) ltac:(lra)) as [R1 R2].
  assert (L : (A + p) * pm (S j) <= fadd acc p).
  { cbn [pm]. eapply Qle_trans; [apply (step_lo A p acc (pm j) u53); assumption | exact R1]. }
  assert (H : fadd acc p <= (A + p) * pw (S j)).
  { cbn [pw]. eapply Qle_trans; [exact R2 | apply (step_hi A p acc (pw j) u53); assumption]. }
  destruct k as [|k].
  - cbn [fcumsum nth]. rewrite Nat.add_1_r.
    assert (E : A + cdf (p :: t) 1 == A + p) by (unfold cdf; simpl; ring).
    rewrite E. split; assumption.
  - cbn [fcumsum nth]. rewrite cdf_cons.
    specialize (IH (fadd acc p) (A + p) (S j) Ht ltac:(lra) L H k ltac:(lia)).
    replace (j + S (S k))%nat with (S j + S k)%nat by lia.
    setoid_replace (A + (p + cdf t (S k))) with (A + p + cdf t (S k)) by ring. exact IH.
Qed.

Lemma cdf_le_sum l : nonnegl l -> forall i, cdf l i <= sumQl l.
Proof.
  intros H. induction H as [|p t Hp Ht IH]; intros i.
  - unfold cdf. destruct i; simpl; lra.
  - destruct i as [|i]; [unfold cdf; simpl; pose proof (sumQl_nonneg _ Ht); lra|].
    rewrite cdf_cons. simpl. specialize (IH i). lra.
Qed.

(* quotient of two quantities known up to relative factors *)
Lemma div_bounds c T P S lc hc lT hT :
  0 <= P -> 0 < S -> 0 < lc -> 0 < hc -> 0 < lT -> 0 < hT ->
  P * lc <= c -> c <= P * hc -> S * lT <= T -> T <= S * hT ->
  (P / S) * (lc / hT) <= c / T /\ c / T <= (P / S) * (hc / lT).
Proof.
  intros HP HS Hlc Hhc HlT HhT C1 C2 T1 T2.
  assert (HT : 0 < T) by nra.
  assert (R0 : 0 <= P / S) by (apply Qle_shift_div_l; [exact HS | lra]).
  split.
  - apply Qle_shift_div_l; [exact HT|].
    assert (F0 : 0 <= P / S * (lc / hT)).
    { apply Qmult_le_0_compat; [exact R0|]. apply Qle_shift_div_l; [exact HhT | lra]. }
    eapply Qle_trans; [apply (Qmult_le_nonneg_l _ T (S * hT) F0 T2)|].
    setoid_replace (P / S * (lc / hT) * (S * hT)) with (P * lc) by (field; split; lra). exact C1.
  - apply Qle_shift_div_r; [exact HT|].
    assert (F0 : 0 <= P / S * (hc / lT)).
    { apply Qmult_le_0_compat; [exact R0|]. apply Qle_shift_div_l; [exact HlT | lra]. }
    eapply Qle_trans; [exact C2|].
    setoid_replace (P * hc) with (P / S * (hc / lT) * (S * lT)) by (field; split; lra).
    apply (Qmult_le_nonneg_l _ (S * lT) T F0 T1).
Qed.

(* the exactly normalised probabilities and the two relative factors *)
Definition exact_norm (probs : list Q) : list Q := map (fun p => p / sumQl probs) probs.
Definition cf_lo (n : nat) : Q := pm (S n) / pw n.
Definition cf_hi (n : nat) : Q := pw (S n) / pm n.

Lemma sumQl_map_div l s : sumQl (map (fun p => p / s) l) == sumQl l / s.
Proof. induction l as [|p t IH]; simpl; [unfold Qdiv; ring|]. rewrite IH. unfold Qdiv; ring. Qed.

Lemma cdf_exact_norm probs i : cdf (exact_norm probs) i == cdf probs i / sumQl probs.
Proof. unfold cdf, exact_norm. rewrite firstn_map. apply sumQl_map_div. Qed.

Lemma exact_norm_length probs : length (exact_norm probs) = length probs.
Proof. apply map_length. Qed.

Lemma exact_norm_nonneg probs : nonnegl probs -> 0 < sumQl probs -> nonnegl (exact_norm probs).
Proof.
  intros H Hs. unfold exact_norm, nonnegl. apply Forall_forall. intros x Hx.
  apply in_map_iff in Hx. destruct Hx as [p [<- Hp]].
  unfold nonnegl in H. rewrite Forall_forall in H. specialize (H p Hp).
  apply Qle_shift_div_l; [exact Hs | lra].
Qed.

Lemma cf_lo_le1 n : 0 < cf_lo n /\ cf_lo n <= 1.
Proof.
  unfold cf_lo. pose proof (pm_pos (S n)). pose proof (pm_le1 (S n)). pose proof (pw_ge1 n). split.
  - apply Qlt_shift_div_l; lra.
  - apply Qle_shift_div_r; lra.
Qed.

Lemma cf_hi_ge1 n : 1 <= cf_hi n.
Proof.
  unfold cf_hi. pose proof (pm_pos n). pose proof (pm_le1 n). pose proof (pw_ge1 (S n)).
  apply Qle_shift_div_l; lra.
Qed.

(* entry k of the float cdf is the exact cumulative probability up to the factors (1 -+ 2^-53)^(k+2) / (1 +- 2^-53)^n *)
Lemma float_cdf_bounds_k probs k : nonnegl probs -> 0 < sumQl probs -> (k < length probs)%nat ->
  let n := length probs in let e := cdf probs (S k) / sumQl probs in
  e * (pm (S (S k)) / pw n) <= nth k (float_cdf probs) 0 /\ nth k (float_cdf probs) 0 <= e * (pw (S (S k)) / pm n).
Proof.
  intros Hn Hs Hk n e.
  assert (Hne : probs <> []) by (intros ->; simpl in Hs; lra).
  rewrite (float_cdf_nth probs k Hk).
  set (c := nth k (fcumsum 0 probs) 0). set (T := last (fcumsum 0 probs) 0).
  assert (B0 : forall i, (i < length probs)%nat ->
            cdf probs (S i) * pm (S i) <= nth i (fcumsum 0 probs) 0 /\ nth i (fcumsum 0 probs) 0 <= cdf probs (S i) * pw (S i)).
  { intros i Hi.
    destruct (fcumsum_bounds probs 0 0 0%nat Hn ltac:(lra) ltac:(lra) ltac:(lra) i Hi) as [A B].
    simpl plus in A, B. split.
    - eapply Qle_trans; [|exact A]. apply Qle_lteq; right. ring.
    - eapply Qle_trans; [exact B|]. apply Qle_lteq; right. ring. }
  destruct (B0 k Hk) as [C1 C2]. fold c in C1, C2.
  assert (Hn1 : (length probs - 1 < length probs)%nat) by (destruct probs; [congruence | simpl; lia]).
  destruct (B0 (length probs - 1)%nat Hn1) as [T1 T2].
  replace (S (length probs - 1)) with (length probs) in T1, T2 by lia.
  rewrite (cdf_all probs (length probs)) in T1, T2 by lia.
  assert (ET : nth (length probs - 1) (fcumsum 0 probs) 0 = T).
  { unfold T. rewrite last_nth, fcumsum_length. reflexivity. }
  rewrite ET in T1, T2. fold n in T1, T2.
  pose proof (cdf_nonneg probs (S k) Hn) as P0.
  pose proof (pm_pos (S k)). pose proof (pw_ge1 (S k)). pose proof (pm_pos n). pose proof (pw_ge1 n).
  destruct (div_bounds c T (cdf probs (S k)) (sumQl probs) (pm (S k)) (pw (S k)) (pm n) (pw n)
              P0 Hs ltac:(lra) ltac:(lra) ltac:(lra) ltac:(lra) C1 C2 T1 T2) as [D1 D2].
  assert (HT : 0 < T) by nra.
  assert (Hc : 0 <= c) by nra.
  assert (Q0 : 0 <= c / T) by (apply Qle_shift_div_l; [exact HT | lra]).
  destruct (rnd64_rel_nonneg (c / T) Q0) as [R1 R2]. fold (fdiv c T) in R1, R2.
  destruct u53_range as [U0 U1].
  fold e in D1, D2. split.
  - eapply Qle_trans; [|exact R1].
    setoid_replace (e * (pm (S (S k)) / pw n)) with (e * (pm (S k) / pw n) * (1 - u53))
      by (cbn [pm]; field; lra).
    setoid_replace (e * (pm (S k) / pw n) * (1 - u53)) with ((1 - u53) * (e * (pm (S k) / pw n))) by ring.
    setoid_replace (c / T * (1 - u53)) with ((1 - u53) * (c / T)) by ring.
    apply Qmult_le_nonneg_l; [lra | exact D1].
  - eapply Qle_trans; [exact R2|].
    setoid_replace (e * (pw (S (S k)) / pm n)) with ((1 + u53) * (e * (pw (S k) / pm n)))
      by (cbn [pw]; field; lra).
    setoid_replace (c / T * (1 + u53)) with ((1 + u53) * (c / T)) by ring.
    apply Qmult_le_nonneg_l; [lra | exact D2].
Qed.

Theorem float_cdf_close probs k : nonnegl probs -> 0 < sumQl probs -> (k < length probs)%nat ->
  let n := length probs in let e := cdf (exact_norm probs) (S k) in
  e * cf_lo n <= nth k (float_cdf probs) 0 /\ nth k (float_cdf probs) 0 <= e * cf_hi n.
Proof.
  intros Hn Hs Hk n e.
  destruct (float_cdf_bounds_k probs k Hn Hs Hk) as [A B]. fold n in A, B.
  assert (Ee : e == cdf probs (S k) / sumQl probs) by apply cdf_exact_norm.
  assert (E0 : 0 <= e).
  { rewrite Ee. apply Qle_shift_div_l; [exact Hs|]. pose proof (cdf_nonneg probs (S k) Hn). lra. }
  pose proof (pm_pos n). pose proof (pw_ge1 n).
  split.
  - eapply Qle_trans; [|exact A]. rewrite <- Ee. apply Qmult_le_nonneg_l; [exact E0|].
    unfold cf_lo, Qdiv. apply Qmult_le_compat_r; [apply pm_anti; lia|].
    apply Qlt_le_weak, Qinv_lt_0_compat. lra.
  - eapply Qle_trans; [exact B|]. rewrite <- Ee. apply Qmult_le_nonneg_l; [exact E0|].
    unfold cf_hi, Qdiv. apply Qmult_le_compat_r; [apply pw_mono; lia|].
    apply Qlt_le_weak, Qinv_lt_0_compat. lra.
Qed.

(* the exact inverse CDF as a right-side search in the exact cumulative sums *)
Fixpoint ecums (acc : Q) (l : list Q) : list Q :=
  match l with [] => [] | p :: t => (acc + p) :: ecums (acc + p) t end.

Lemma choice_from_search l : forall acc u i, choice_from l acc u i = search_right (ecums acc l) u i.
Proof.
  induction l as [|p t IH]; intros acc u i; simpl; [reflexivity|].
  destruct (Qltb u (acc + p)); [reflexivity | apply IH].
Qed.

Lemma ecums_length l : forall acc, length (ecums acc l) = length l.
Proof. induction l as [|p t IH]; intros acc; simpl; [reflexivity | rewrite IH; reflexivity]. Qed.

Lemma ecums_nth l : forall acc k, (k < length l)%nat -> nth k (ecums acc l) 0 == acc + cdf l (S k).
Proof.
  induction l as [|p t IH]; intros acc k Hk; simpl in Hk; [lia|].
  destruct k as [|k].
  - simpl. unfold cdf; simpl. ring.
  - cbn [ecums nth]. rewrite IH by lia. rewrite cdf_cons. ring.
Qed.

Lemma Qltb_both u a b : (u < a <-> u < b) -> Qltb u a = Qltb u b.
Proof.
  intros H. destruct (Qltb_spec u a) as [A|A], (Qltb_spec u b) as [B|B]; try reflexivity; exfalso; tauto.
Qed.

(* (d) *)
Theorem choice_float_close_to_exact probs u : nonnegl probs -> 0 < sumQl probs ->
  (forall k, (k < length probs)%nat -> let e := cdf (exact_norm probs) (S k) in
      u < e * cf_lo (length probs) \/ e * cf_hi (length probs) <= u) ->
  choice_float probs u = choice_of (exact_norm probs) u.
Proof.
  intros Hn Hs H. unfold choice_float, choice_of. rewrite choice_from_search.
  apply search_right_agree. apply (Forall2_nth_intro _ 0 0).
  - rewrite float_cdf_length, ecums_length, exact_norm_length. reflexivity.
  - intros k Hk. rewrite float_cdf_length in Hk.
    destruct (float_cdf_close probs k Hn Hs Hk) as [A B].
    rewrite (Qltb_both u _ (0 + cdf (exact_norm probs) (S k))).
    + apply Qltb_both. rewrite (ecums_nth (exact_norm probs) 0 k) by (rewrite exact_norm_length; exact Hk).
      reflexivity.
    + set (e := cdf (exact_norm probs) (S k)) in *.
      assert (E0 : 0 <= e) by (apply cdf_nonneg, exact_norm_nonneg; assumption).
      destruct (cf_lo_le1 (length probs)) as [L0 L1]. pose proof (cf_hi_ge1 (length probs)) as H1.
      destruct (H k Hk) as [C|C]; fold e in C; split; intros G; nra.
Qed.

(* the three priority classes: the windows are narrower than 2^-50 *)
Lemma cf_3 : 1 - (1 # 1125899906842624) <= cf_lo 3 /\ cf_hi 3 <= 1 + (1 # 1125899906842624).
Proof. split; vm_compute; discriminate. Qed.

Theorem choice_float_close_to_exact_3 probs u : length probs = 3%nat -> nonnegl probs -> 0 < sumQl probs ->
  (forall k, (k < 3)%nat -> (1 # 1125899906842624) < Qabs (u - cdf (exact_norm probs) (S k))) ->
  choice_float probs u = choice_of (exact_norm probs) u.
Proof.
  intros L Hn Hs H. apply choice_float_close_to_exact; [exact Hn | exact Hs|].
  rewrite L. intros k Hk e. specialize (H k Hk). fold e in H.
  assert (E0 : 0 <= e) by (apply cdf_nonneg, exact_norm_nonneg; assumption).
  assert (E1 : e <= 1).
  { unfold e. rewrite cdf_exact_norm. apply Qle_shift_div_r; [exact Hs|].
    pose proof (cdf_le_sum probs Hn (S k)). lra. }
  destruct cf_3 as [C1 C2].
  destruct (Qlt_le_dec u e) as [G|G].
  - left. rewrite (Qabs_neg (u - e)) in H by lra. nra.
  - right. rewrite (Qabs_pos (u - e)) in H by lra. nra.
Qed.

(* ------------------------------------------------------------------------------------------ *)
(* the generator with computed class draws *)

Definition choice_ok (Pv : Z -> Prop) (d : draw) : Prop := match d with DChoice v => Pv v | DNormal _ _ => True end.

Lemma gen_ops_forall (Pd : draw -> Prop) P : forall n k prev ds ops ds',
  gen_ops P n k prev ds = Some (ops, ds') -> Forall Pd ds -> Forall Pd ds'.
Proof.
  induction n as [|n IH]; intros k prev ds ops ds' E F; cbn [gen_ops] in E.
  - inversion E; subst; exact F.
  - destruct prev as [pv|].
    + destruct ds as [|[v|mu x] ds1]; try discriminate.
      destruct (Qeq_bool mu (g_ratio P)); [|discriminate].
      destruct (gen_ops P n (S k) (Some k) ds1) as [[t d2]|] eqn:G; [|discriminate].
      inversion E; subst. eapply IH; [exact G|]. inversion F; assumption.
    + destruct (gen_ops P n (S k) (Some k) ds) as [[t d2]|] eqn:G; [|discriminate].
      inversion E; subst. eapply IH; eauto.
Qed.

Lemma gen_pipeline_forall Pv P cnt ds p ds' :
  gen_pipeline P cnt ds = Some (p, ds') -> Forall (choice_ok Pv) ds -> Pv (gp_prio p) /\ Forall (choice_ok Pv) ds'.
Proof.
  unfold gen_pipeline. destruct ds as [|[v|mu x] ds1]; try discriminate. intros E F.
  inversion F as [|? ? Hv F1]; subst. simpl in Hv.
  destruct (v =? query_value)%Z.
  - inversion E; subst; simpl; split; assumption.
  - destruct ds1 as [|[v2|mu x] ds2]; try discriminate.
    destruct (Qeq_bool mu (g_nops P)); [|discriminate].
    destruct (gen_ops P (Z.to_nat (op_count x)) 0 None ds2) as [[ops ds3]|] eqn:G; [|discriminate].
    inversion E; subst; simpl. split; [exact Hv|].
    eapply gen_ops_forall; [exact G|]. inversion F1; assumption.
Qed.

Lemma gen_batch_forall Pv P : forall n cnt ds ps cnt' ds',
  gen_batch P n cnt ds = Some (ps, cnt', ds') -> Forall (choice_ok Pv) ds ->
  Forall (fun p => Pv (gp_prio p)) ps /\ Forall (choice_ok Pv) ds'.
Proof.
  induction n as [|n IH]; intros cnt ds ps cnt' ds' E F; cbn [gen_batch] in E.
  - inversion E; subst. split; [constructor | exact F].
  - destruct (gen_pipeline P cnt ds) as [[p ds1]|] eqn:G; [|discriminate].
    destruct (gen_batch P n (cnt + 1)%Z ds1) as [[[t c2] ds2]|] eqn:B; [|discriminate].
    inversion E; subst.
    destruct (gen_pipeline_forall Pv P cnt ds p ds1 G F) as [Hp F1].
    destruct (IH _ _ _ _ _ B F1) as [Ht F2]. split; [constructor; assumption | exact F2].
Qed.

Lemma gen_tick_forall Pv P s b s1 :
  gen_tick P s = Some (b, s1) -> Forall (choice_ok Pv) (gs_draws s) ->
  Forall (fun p => Pv (gp_prio p)) b /\ Forall (choice_ok Pv) (gs_draws s1).
Proof.
  unfold gen_tick. intros E F. destruct (gs_since s =? gs_wait s)%Z.
  - destruct (gen_batch P (g_np P) (gs_cnt s) (gs_draws s)) as [[[ps cnt] ds]|] eqn:B; [|discriminate].
    destruct ds as [|[v|mu x] ds]; try discriminate.
    destruct (Qeq_bool mu (inject_Z (g_wmean P))); [|discriminate].
    inversion E; subst; simpl.
    destruct (gen_batch_forall Pv P _ _ _ _ _ _ B F) as [Hb F1]. split; [exact Hb|]. inversion F1; assumption.
  - inversion E; subst; simpl. split; [constructor | exact F].
Qed.

Lemma gen_run_forall Pv P : forall n s out s',
  gen_run P n s = Some (out, s') -> Forall (choice_ok Pv) (gs_draws s) ->
  forall p, In p (concat out) -> Pv (gp_prio p).
Proof.
  induction n as [|n IH]; intros s out s' E F p Hp; cbn [gen_run] in E.
  - inversion E; subst. simpl in Hp. contradiction.
  - destruct (gen_tick P s) as [[b s1]|] eqn:T; [|discriminate].
    destruct (gen_run P n s1) as [[t s2]|] eqn:R; [|discriminate].
    inversion E; subst. simpl in Hp. apply in_app_or in Hp.
    destruct (gen_tick_forall Pv P s b s1 T F) as [Hb F1].
    destruct Hp as [Hp|Hp].
    + rewrite Forall_forall in Hb. apply Hb, Hp.
    + eapply IH; eauto.
Qed.

(* gen_run_u is gen_run on the resolved stream: every theorem about gen_run (all streams) applies to it *)
Theorem gen_run_u_resolved P user n ds out s' :
  gen_run_u P user n ds = Some (out, s') ->
  exists dl, resolve (prio_probs user) ds = Some dl /\ length dl = length ds /\
             gen_run P n (gen_init dl) = Some (out, s').
Proof.
  unfold gen_run_u. destruct (resolve (prio_probs user) ds) as [dl|] eqn:R; [|discriminate].
  intros E. exists dl. split; [reflexivity|]. split; [|exact E].
  clear E. revert dl R. induction ds as [|d t IH]; intros dl R; simpl in R.
  - inversion R; reflexivity.
  - destruct (resolve_draw (prio_probs user) d); [|discriminate].
    destruct (resolve (prio_probs user) t) as [r|]; [|discriminate].
    inversion R; subst. simpl. f_equal. apply IH. reflexivity.
Qed.

Definition unif_nonneg (d : udraw) : Prop := match d with UUniform u => 0 <= u | UNormal _ _ => True end.

Lemma prio_probs_length user : length (prio_probs user) = length user.
Proof. unfold prio_probs. apply map_length. Qed.

Lemma prio_probs_zero user k : nth k user 0 == 0 -> nth k (prio_probs user) 0 == 0.
Proof.
  intros Hz. destruct (Nat.lt_ge_cases k (length user)) as [L|L].
  - unfold prio_probs. rewrite (nth_map_lt (fun p => fdiv p (fsum user)) user k 0 0 L).
    unfold fdiv. rewrite (rnd64_proper (nth k user 0 / fsum user) 0) by (rewrite Hz; unfold Qdiv; ring).
    apply rnd64_0.
  - rewrite nth_overflow by (rewrite prio_probs_length; exact L). reflexivity.
Qed.

Lemma resolve_forall (Pv : Z -> Prop) pp : forall ds dl, resolve pp ds = Some dl ->
  (forall u v, In (UUniform u) ds -> nth_error priority_values (choice_float pp u) = Some v -> Pv v) ->
  Forall (choice_ok Pv) dl.
Proof.
  induction ds as [|d t IH]; intros dl R H; simpl in R.
  - inversion R; constructor.
  - destruct (resolve_draw pp d) as [x|] eqn:D; [|discriminate].
    destruct (resolve pp t) as [r|] eqn:Rt; [|discriminate]. inversion R; subst.
    constructor.
    + destruct d as [u|mu y]; simpl in D.
      * destruct (nth_error priority_values (choice_float pp u)) as [v|] eqn:N; [|discriminate].
        inversion D; subst. simpl. apply (H u v); [left; reflexivity | exact N].
      * inversion D; subst. exact I.
    + apply IH; [reflexivity|]. intros u v Hu. apply H. right; exact Hu.
Qed.

(* closed loop: with computed class draws, every delivered pipeline carries one of the three priority values and the
   probability configured for that class is not 0 - for every stream of uniforms >= 0 *)
Theorem gen_u_zero_prob_never P user n ds out s' :
  length user = 3%nat -> Forall unif_nonneg ds ->
  gen_run_u P user n ds = Some (out, s') ->
  forall p, In p (concat out) ->
  exists k, nth_error priority_values k = Some (gp_prio p) /\ ~ nth k user 0 == 0.
Proof.
  intros L Hu E p Hp.
  destruct (gen_run_u_resolved P user n ds out s' E) as [dl [R [_ G]]].
  apply (gen_run_forall (fun v => exists k, nth_error priority_values k = Some v /\ ~ nth k user 0 == 0)
           P n (gen_init dl) out s' G); [|exact Hp].
  simpl. apply (resolve_forall _ (prio_probs user) ds dl R).
  intros u v Hin N. exists (choice_float (prio_probs user) u). split; [exact N|].
  intros Z. rewrite Forall_forall in Hu. specialize (Hu _ Hin). simpl in Hu.
  assert (K : (choice_float (prio_probs user) u < 3)%nat).
  { change 3%nat with (length priority_values). apply (proj1 (nth_error_Some priority_values _)).
    rewrite N. discriminate. }
  refine (choice_float_zero_prob_never (prio_probs user) u _ _ _ Hu eq_refl).
  - rewrite prio_probs_length, L. exact K.
  - apply prio_probs_zero, Z.
Qed.

(* ------------------------------------------------------------------------------------------ *)
(* the float cdf is sorted; numpy's binary search returns the index of the linear scan *)

Lemma fcumsum_nth_S l : forall acc k, (S k < length l)%nat ->
  nth (S k) (fcumsum acc l) 0 = fadd (nth k (fcumsum acc l) 0) (nth (S k) l 0).
Proof.
  induction l as [|p t IH]; intros acc k H; simpl in H; [lia|].
  destruct k as [|k].
  - destruct t as [|q t']; [simpl in H; lia|]. reflexivity.
  - cbn [fcumsum nth]. apply IH. lia.
Qed.

Lemma fcumsum_nth_rnd l : forall acc k, (k < length l)%nat -> exists x, nth k (fcumsum acc l) 0 = rnd64 x.
Proof.
  induction l as [|p t IH]; intros acc k H; simpl in H; [lia|].
  destruct k as [|k]; [exists (acc + p); reflexivity|].
  cbn [fcumsum nth]. apply IH. lia.
Qed.

Lemma fcumsum_step_le l acc k : nonnegl l -> (S k < length l)%nat ->
  nth k (fcumsum acc l) 0 <= nth (S k) (fcumsum acc l) 0.
Proof.
  intros Hn H. rewrite (fcumsum_nth_S l acc k H).
  destruct (fcumsum_nth_rnd l acc k ltac:(lia)) as [x E]. rewrite E.
  assert (Hp : 0 <= nth (S k) l 0).
  { unfold nonnegl in Hn. rewrite Forall_forall in Hn. apply Hn, nth_In, H. }
  rewrite <- (rnd64_idem x) at 1. unfold fadd. apply rnd64_mono. lra.
Qed.

Definition sorted_nth (c : list Q) : Prop :=
  forall i j, (i <= j)%nat -> (j < length c)%nat -> nth i c 0 <= nth j c 0.

Lemma fcumsum_sorted l acc : nonnegl l -> sorted_nth (fcumsum acc l).
Proof.
  intros Hn i j Hij Hj. rewrite fcumsum_length in Hj.
  induction Hij as [|j Hij IH]; [lra|].
  eapply Qle_trans; [apply IH; lia | apply fcumsum_step_le; assumption].
Qed.

Theorem float_cdf_sorted probs : nonnegl probs -> 0 < sumQl probs -> sorted_nth (float_cdf probs).
Proof.
  intros Hn Hs i j Hij Hj. rewrite float_cdf_length in Hj.
  assert (Hne : probs <> []) by (intros ->; simpl in Hs; lra).
  rewrite (float_cdf_nth probs i) by lia. rewrite (float_cdf_nth probs j Hj).
  pose proof (fcumsum_last_pos probs 0 Hne Hn ltac:(lra) ltac:(lra)) as HT.
  unfold fdiv. apply rnd64_mono. unfold Qdiv. apply Qmult_le_compat_r.
  - apply (fcumsum_sorted probs 0 Hn i j Hij). rewrite fcumsum_length. exact Hj.
  - apply Qlt_le_weak, Qinv_lt_0_compat, HT.
Qed.

Lemma search_right_unique c u k : (k <= length c)%nat ->
  (forall j, (j < k)%nat -> ~ u < nth j c 0) -> ((k < length c)%nat -> u < nth k c 0) ->
  search_right c u 0 = k.
Proof.
  intros Hk A B.
  destruct (search_right_spec c u 0%nat (search_right c u 0) eq_refl) as [A' B'].
  pose proof (search_right_bounds c u 0%nat) as Bd.
  destruct (Nat.lt_trichotomy (search_right c u 0) k) as [L|[L|L]]; [|exact L|].
  - exfalso. apply (A _ L). apply B'. lia.
  - exfalso. apply (A' _ L). apply B. lia.
Qed.

Lemma bsearch_right_linear c u : sorted_nth c -> forall fuel lo hi,
  (hi - lo <= fuel)%nat -> (lo <= hi)%nat -> (hi <= length c)%nat ->
  (forall j, (j < lo)%nat -> ~ u < nth j c 0) ->
  (forall j, (hi <= j)%nat -> (j < length c)%nat -> u < nth j c 0) ->
  bsearch_right fuel c u lo hi = search_right c u 0.
Proof.
  intros Hs. induction fuel as [|f IH]; intros lo hi Hf Hl Hh A B.
  - assert (hi = lo) by lia. subst hi. simpl. symmetry. apply search_right_unique; [lia | exact A|].
    intros H. apply B; lia.
  - cbn [bsearch_right]. destruct (Nat.ltb_spec lo hi) as [L|L].
    + set (mid := (lo + (hi - lo) / 2)%nat).
      assert (Hm : (lo <= mid /\ mid < hi)%nat).
      { unfold mid. pose proof (Nat.div_lt (hi - lo) 2 ltac:(lia) ltac:(lia)). lia. }
      destruct (Qltb_spec u (nth mid c 0)) as [G|G].
      * apply IH; [lia | lia | lia | exact A|].
        intros j Hj Hjl. destruct (Nat.lt_ge_cases j hi) as [J|J]; [|apply B; assumption].
        eapply Qlt_le_trans; [exact G | apply Hs; lia].
      * apply IH; [lia | lia | lia | | exact B].
        intros j Hj Hu. apply G. eapply Qlt_le_trans; [exact Hu | apply Hs; lia].
    + assert (hi = lo) by lia. subst hi. symmetry. apply search_right_unique; [lia | exact A|].
      intros H. apply B; lia.
Qed.

(* numpy's  cdf.searchsorted(u, side='right')  (binary search over the whole array) is choice_float *)
Theorem choice_float_binsearch probs u : nonnegl probs -> 0 < sumQl probs ->
  bsearch_right (length probs) (float_cdf probs) u 0 (length probs) = choice_float probs u.
Proof.
  intros Hn Hs. unfold choice_float.
  apply (bsearch_right_linear (float_cdf probs) u (float_cdf_sorted probs Hn Hs)).
  - lia.
  - lia.
  - rewrite float_cdf_length. lia.
  - intros j Hj. lia.
  - intros j Hj Hl. rewrite float_cdf_length in Hl. lia.
Qed.

(* ------------------------------------------------------------------------------------------ *)
(* through the normalisation of __init__: choice_float (prio_probs user) against the exact inverse CDF of user *)

(* agreement with the exact inverse CDF of any target whose cumulative sums bracket the float cdf *)
Lemma choice_float_agree probs target lo hi u :
  length target = length probs -> nonnegl target -> 0 < lo -> lo <= 1 -> 1 <= hi ->
  (forall k, (k < length probs)%nat ->
     cdf target (S k) * lo <= nth k (float_cdf probs) 0 /\ nth k (float_cdf probs) 0 <= cdf target (S k) * hi) ->
  (forall k, (k < length probs)%nat -> u < cdf target (S k) * lo \/ cdf target (S k) * hi <= u) ->
  choice_float probs u = choice_of target u.
Proof.
  intros L Hn L0 L1 H1 B H. unfold choice_float, choice_of. rewrite choice_from_search.
  apply search_right_agree. apply (Forall2_nth_intro _ 0 0).
  - rewrite float_cdf_length, ecums_length, L. reflexivity.
  - intros k Hk. rewrite float_cdf_length in Hk.
    destruct (B k Hk) as [A A'].
    rewrite (Qltb_both u _ (0 + cdf target (S k))).
    + apply Qltb_both. rewrite (ecums_nth target 0 k) by (rewrite L; exact Hk). reflexivity.
    + set (e := cdf target (S k)) in *.
      assert (E0 : 0 <= e) by (apply cdf_nonneg; assumption).
      destruct (H k Hk) as [C|C]; fold e in C; split; intros G; nra.
Qed.

Lemma fold_left_fcumsum l : forall acc, l <> [] -> fold_left fadd l acc = last (fcumsum acc l) 0.
Proof.
  induction l as [|p t IH]; intros acc H; [congruence|].
  destruct t as [|q t']; [reflexivity|].
  change (fold_left fadd (q :: t') (fadd acc p) = last (fcumsum (fadd acc p) (q :: t')) 0).
  apply IH. discriminate.
Qed.

Lemma fsum_pos user : nonnegl user -> 0 < sumQl user -> 0 < fsum user.
Proof.
  intros Hn Hs. assert (Hne : user <> []) by (intros ->; simpl in Hs; lra).
  unfold fsum. rewrite (fold_left_fcumsum user 0 Hne).
  apply fcumsum_last_pos; [exact Hne | exact Hn | lra | lra].
Qed.

Definition within (a b : Q) (q p : Q) : Prop := p * a <= q /\ q <= p * b.

Lemma sum_within a b : forall ql pl, Forall2 (within a b) ql pl ->
  sumQl pl * a <= sumQl ql /\ sumQl ql <= sumQl pl * b.
Proof.
  induction 1 as [|q p tq tp [W1 W2] F [I1 I2]]; simpl; [lra|]. split; lra.
Qed.

Lemma Forall2_firstn {A B} (R : A -> B -> Prop) : forall i l l', Forall2 R l l' -> Forall2 R (firstn i l) (firstn i l').
Proof.
  induction i as [|i IH]; intros l l' F; [constructor|].
  destruct F; simpl; constructor; auto.
Qed.

Lemma prio_probs_within user : nonnegl user -> 0 < fsum user ->
  Forall2 (within ((1 - u53) / fsum user) ((1 + u53) / fsum user)) (prio_probs user) user.
Proof.
  intros Hn Hs. unfold prio_probs. set (s := fsum user) in *. clearbody s.
  induction Hn as [|p t Hp Ht IH]; simpl; constructor; [|exact IH].
  assert (Q0 : 0 <= p / s) by (apply Qle_shift_div_l; [exact Hs | lra]).
  destruct (rnd64_rel_nonneg (p / s) Q0) as [R1 R2]. fold (fdiv p s) in R1, R2.
  split.
  - eapply Qle_trans; [|exact R1]. apply Qle_lteq; right. field. lra.
  - eapply Qle_trans; [exact R2|]. apply Qle_lteq; right. field. lra.
Qed.

Lemma prio_probs_nonneg user : nonnegl user -> 0 < fsum user -> nonnegl (prio_probs user).
Proof.
  intros Hn Hs. unfold prio_probs, nonnegl. apply Forall_forall. intros x Hx.
  apply in_map_iff in Hx. destruct Hx as [p [<- Hp]].
  unfold nonnegl in Hn. rewrite Forall_forall in Hn. specialize (Hn p Hp).
  apply rnd64_nonneg. apply Qle_shift_div_l; [exact Hs | lra].
Qed.

Definition nf_lo (n : nat) : Q := cf_lo n * ((1 - u53) / (1 + u53)).
Definition nf_hi (n : nat) : Q := cf_hi n * ((1 + u53) / (1 - u53)).

Lemma nf_range n : 0 < nf_lo n /\ nf_lo n <= 1 /\ 1 <= nf_hi n.
Proof.
  unfold nf_lo, nf_hi. destruct (cf_lo_le1 n) as [A B]. pose proof (cf_hi_ge1 n) as C.
  assert (R1 : 0 < (1 - u53) / (1 + u53) /\ (1 - u53) / (1 + u53) <= 1).
  { unfold u53. split; vm_compute; [reflexivity | discriminate]. }
  assert (R2 : 1 <= (1 + u53) / (1 - u53)) by (unfold u53; vm_compute; discriminate).
  destruct R1 as [R0 R1]. repeat split; nra.
Qed.

(* the float cdf of the normalised doubles against the exact cumulative probabilities of the CONFIGURED triple:
   the float sum used for the normalisation cancels, only the roundings of the three divisions remain *)
Theorem float_cdf_prio_probs_close user k : nonnegl user -> 0 < sumQl user -> (k < length user)%nat ->
  let n := length user in let e := cdf (exact_norm user) (S k) in
  e * nf_lo n <= nth k (float_cdf (prio_probs user)) 0 /\ nth k (float_cdf (prio_probs user)) 0 <= e * nf_hi n.
Proof.
  intros Hn Hs Hk n e.
  pose proof (fsum_pos user Hn Hs) as Fs.
  pose proof (prio_probs_within user Hn Fs) as W.
  pose proof (prio_probs_nonneg user Hn Fs) as Qn.
  set (a := (1 - u53) / fsum user) in *. set (b := (1 + u53) / fsum user) in *.
  assert (Ha : 0 < a) by (unfold a; apply Qlt_shift_div_l; [exact Fs | unfold u53; vm_compute; reflexivity]).
  assert (Hb : 0 < b) by (unfold b; apply Qlt_shift_div_l; [exact Fs | unfold u53; vm_compute; reflexivity]).
  destruct (sum_within a b _ _ W) as [T1 T2].
  destruct (sum_within a b _ _ (Forall2_firstn _ (S k) _ _ W)) as [C1 C2].
  fold (cdf (prio_probs user) (S k)) in C1, C2. fold (cdf user (S k)) in C1, C2.
  assert (Qs : 0 < sumQl (prio_probs user)) by nra.
  pose proof (cdf_nonneg user (S k) Hn) as P0.
  destruct (div_bounds _ _ _ _ a b a b P0 Hs Ha Hb Ha Hb C1 C2 T1 T2) as [D1 D2].
  assert (Ee : e == cdf user (S k) / sumQl user) by apply cdf_exact_norm.
  assert (E0 : 0 <= e).
  { rewrite Ee. apply Qle_shift_div_l; [exact Hs | lra]. }
  assert (Eab : a / b == (1 - u53) / (1 + u53)) by (unfold a, b; field; unfold u53; split; [discriminate | lra]).
  assert (Eba : b / a == (1 + u53) / (1 - u53)) by (unfold a, b; field; unfold u53; split; [discriminate | lra]).
  rewrite Eab, <- Ee in D1. rewrite Eba, <- Ee in D2.
  assert (Lq : (k < length (prio_probs user))%nat) by (rewrite prio_probs_length; exact Hk).
  destruct (float_cdf_close (prio_probs user) k Qn Qs Lq) as [F1 F2].
  rewrite prio_probs_length in F1, F2. fold n in F1, F2.
  rewrite cdf_exact_norm in F1, F2.
  destruct (cf_lo_le1 n) as [L0 L1]. pose proof (cf_hi_ge1 n) as H1.
  unfold nf_lo, nf_hi. split.
  - eapply Qle_trans; [|exact F1].
    setoid_replace (e * (cf_lo n * ((1 - u53) / (1 + u53)))) with (cf_lo n * (e * ((1 - u53) / (1 + u53)))) by ring.
    setoid_replace (cdf (prio_probs user) (S k) / sumQl (prio_probs user) * cf_lo n)
      with (cf_lo n * (cdf (prio_probs user) (S k) / sumQl (prio_probs user))) by ring.
    apply Qmult_le_nonneg_l; [lra | exact D1].
  - eapply Qle_trans; [exact F2|].
    setoid_replace (e * (cf_hi n * ((1 + u53) / (1 - u53)))) with (cf_hi n * (e * ((1 + u53) / (1 - u53)))) by ring.
    setoid_replace (cdf (prio_probs user) (S k) / sumQl (prio_probs user) * cf_hi n)
      with (cf_hi n * (cdf (prio_probs user) (S k) / sumQl (prio_probs user))) by ring.
    apply Qmult_le_nonneg_l; [lra | exact D2].
Qed.

Theorem choice_float_prio_probs_close user u : nonnegl user -> 0 < sumQl user ->
  (forall k, (k < length user)%nat -> let e := cdf (exact_norm user) (S k) in
      u < e * nf_lo (length user) \/ e * nf_hi (length user) <= u) ->
  choice_float (prio_probs user) u = choice_of (exact_norm user) u.
Proof.
  intros Hn Hs H. destruct (nf_range (length user)) as [N0 [N1 N2]].
  apply (choice_float_agree (prio_probs user) (exact_norm user) (nf_lo (length user)) (nf_hi (length user)) u).
  - rewrite exact_norm_length, prio_probs_length. reflexivity.
  - apply exact_norm_nonneg; assumption.
  - exact N0.
  - exact N1.
  - exact N2.
  - intros k Hk. rewrite prio_probs_length in Hk. apply (float_cdf_prio_probs_close user k Hn Hs Hk).
  - intros k Hk. rewrite prio_probs_length in Hk. apply (H k Hk).
Qed.

Lemma nf_3 : 1 - (1 # 562949953421312) <= nf_lo 3 /\ nf_hi 3 <= 1 + (1 # 562949953421312).
Proof. split; vm_compute; discriminate. Qed.

(* the generator's three classes, end to end from the configured probabilities: outside 2^-49 of the exact boundaries
   the class numpy returns is the exact inverse CDF of (interactive, query, batch) / their sum *)
Theorem choice_float_prio_probs_close_3 user u : length user = 3%nat -> nonnegl user -> 0 < sumQl user ->
  (forall k, (k < 3)%nat -> (1 # 562949953421312) < Qabs (u - cdf (exact_norm user) (S k))) ->
  choice_float (prio_probs user) u = choice_of (exact_norm user) u.
Proof.
  intros L Hn Hs H. apply choice_float_prio_probs_close; [exact Hn | exact Hs|].
  rewrite L. intros k Hk e. specialize (H k Hk). fold e in H.
  assert (E0 : 0 <= e) by (apply cdf_nonneg, exact_norm_nonneg; assumption).
  assert (E1 : e <= 1).
  { unfold e. rewrite cdf_exact_norm. apply Qle_shift_div_r; [exact Hs|].
    pose proof (cdf_le_sum user Hn (S k)). lra. }
  destruct nf_3 as [C1 C2].
  destruct (Qlt_le_dec u e) as [G|G].
  - left. rewrite (Qabs_neg (u - e)) in H by lra. nra.
  - right. rewrite (Qabs_pos (u - e)) in H by lra. nra.
Qed.

(* ------------------------------------------------------------------------------------------ *)
(* linear closed form of the factors, any number of classes up to 2^40 *)

Lemma pm_lin k : 1 - nQ k * u53 <= pm k.
Proof.
  induction k as [|k IH]; cbn [pm]; [rewrite nQ_0; lra|].
  rewrite nQ_S. pose proof (nQ_nonneg k). pose proof (pm_pos k). unfold u53 in *. nra.
Qed.

Definition lin_eps (n : nat) : Q := (4 * nQ n + 4) * u53.

Lemma cf_lin n : (Z.of_nat n <= 1099511627776)%Z -> 1 - lin_eps n <= cf_lo n /\ cf_hi n <= 1 + lin_eps n.
Proof.
  intros Hn. unfold cf_lo, cf_hi, lin_eps.
  pose proof (pm_lin (S n)) as A1. pose proof (pm_lin n) as A2.
  pose proof (pw_lin (S n) ltac:(lia)) as B1. pose proof (pw_lin n ltac:(lia)) as B2.
  rewrite nQ_S in A1, B1.
  pose proof (pm_pos n) as M0. pose proof (pm_pos (S n)) as M1. pose proof (pw_ge1 n) as W0. pose proof (pw_ge1 (S n)) as W1.
  pose proof (nQ_nonneg n) as X0.
  assert (X1 : nQ n <= 1099511627776) by (apply (nQ_leZ n 1099511627776 Hn)).
  set (x := nQ n) in *. clearbody x.
  split.
  - apply Qle_shift_div_l; [lra|]. unfold u53 in *. nra.
  - apply Qle_shift_div_r; [lra|]. unfold u53 in *. nra.
Qed.

(* numpy's choice is the exact inverse CDF unless u is within the RELATIVE distance (4n+4) * 2^-53 of an exact boundary *)
Theorem choice_float_close_to_exact_lin probs u : nonnegl probs -> 0 < sumQl probs ->
  (Z.of_nat (length probs) <= 1099511627776)%Z ->
  (forall k, (k < length probs)%nat -> let e := cdf (exact_norm probs) (S k) in
      e * lin_eps (length probs) < Qabs (u - e)) ->
  choice_float probs u = choice_of (exact_norm probs) u.
Proof.
  intros Hn Hs Hl H. apply choice_float_close_to_exact; [exact Hn | exact Hs|].
  intros k Hk. specialize (H k Hk). cbv zeta in H |- *.
  set (e := cdf (exact_norm probs) (S k)) in *.
  assert (E0 : 0 <= e) by (apply cdf_nonneg, exact_norm_nonneg; assumption).
  clearbody e.
  destruct (cf_lin (length probs) Hl) as [C1 C2].
  destruct (Qlt_le_dec u e) as [G|G].
  - left. pose proof (Qabs_neg (u - e) ltac:(lra)) as EA.
    assert (M : e * (1 - lin_eps (length probs)) <= e * cf_lo (length probs)) by (apply Qmult_le_nonneg_l; assumption).
    lra.
  - right. pose proof (Qabs_pos (u - e) ltac:(lra)) as EA.
    assert (M : e * cf_hi (length probs) <= e * (1 + lin_eps (length probs))) by (apply Qmult_le_nonneg_l; assumption).
    lra.
Qed.
