(* Facts about Model/TraceFile.v: replaying a trace file = reading it lazily (Model/CsvLazy.v) + the tick mapping of
   C13 (Model/Trace.v).
   A. a generic replay machine over any element type, of which Trace.replay_from (file positions) and the hand-out
      of WorkloadTrace (pipelines) are two images;
   B. WorkloadTrace with the real readiness test, as a function of the batches batch_by_arrival delivers;
   C. well-formed files: [file_replay] is C13's [replay] of the arrival column, and the C13 theorems for files;
   D. malformed files: the longest well-formed prefix, the moment the refusal surfaces, what is never delivered. *)
From Coq Require Import ZArith QArith Qabs List Bool Arith Lia Sorting.Sorted.
Import ListNotations.
From Eudoxia Require Import Num.Rnd64 Model.Types Model.Timing Model.Csv Model.CsvLazy Model.Trace Model.TraceFile
  Proofs.Rnd64Facts Proofs.CsvFacts Proofs.CsvLazyFacts Proofs.TraceFacts.
Close Scope Q_scope.
Close Scope Z_scope.

Local Opaque create_pipeline.

Lemma skipn_add : forall (A : Type) (l : list A) k m, skipn m (skipn k l) = skipn (k + m) l.
Proof.
  induction l as [|x l IH]; intros k m.
  - rewrite !skipn_nil. reflexivity.
  - destruct k as [|k]; [reflexivity|]. cbn [plus skipn]. apply IH.
Qed.

(* ------------------------------------------------------------------------------------------ *)
(* A. the generic machine *)

Section Generic.
Variable A : Type.
Variable arrf : A -> Q.

Fixpoint ggroup (l : list A) : list (list A) :=
  match l with
  | [] => []
  | x :: t =>
      match ggroup t with
      | [] => [[x]]
      | [] :: r => [x] :: r
      | (y :: b) :: r => if Qeq_bool (arrf x) (arrf y) then (x :: y :: b) :: r else [x] :: (y :: b) :: r
      end
  end.

Definition gbatch_arrival (b : list A) : Q := match b with [] => 0%Q | x :: _ => arrf x end.

Definition gready (key : Q -> Q) (cur : Z) (b : list A) : bool :=
  Qle_bool (key (gbatch_arrival b)) (inject_Z cur).

Fixpoint gtake (key : Q -> Q) (cur : Z) (bs : list (list A)) : list A * list (list A) :=
  match bs with
  | [] => ([], [])
  | b :: r =>
      if gready key cur b
      then let (d, r') := gtake key cur r in (b ++ d, r')
      else ([], bs)
  end.

Fixpoint greplay (key : Q -> Q) (cur : Z) (bs : list (list A)) (n : nat) : list (list A) :=
  match n with
  | O => []
  | S n' => let (d, r) := gtake key cur bs in d :: greplay key (cur + 1) r n'
  end.

(* what is left after n calls *)
Fixpoint grest (key : Q -> Q) (cur : Z) (bs : list (list A)) (n : nat) : list (list A) :=
  match n with
  | O => bs
  | S n' => grest key (cur + 1) (snd (gtake key cur bs)) n'
  end.

(* the number of calls that return before the call that hands out the last batch (n: none of the n calls does) *)
Fixpoint exhaust (key : Q -> Q) (cur : Z) (bs : list (list A)) (n : nat) : nat :=
  match n with
  | O => 0
  | S n' => match snd (gtake key cur bs) with
            | [] => 0
            | r => S (exhaust key (cur + 1) r n')
            end
  end.

Lemma ggroup_concat l : concat (ggroup l) = l.
Proof.
  induction l as [|x t IH]; cbn [ggroup]; [reflexivity|].
  destruct (ggroup t) as [|[|y b] r]; cbn [concat app] in *.
  - rewrite <- IH. reflexivity.
  - rewrite <- IH. reflexivity.
  - destruct (Qeq_bool (arrf x) (arrf y)); cbn [concat app]; rewrite <- IH; reflexivity.
Qed.

Lemma ggroup_nonempty l : Forall (fun b => b <> []) (ggroup l).
Proof.
  induction l as [|x t IH]; cbn [ggroup]; [constructor|].
  destruct (ggroup t) as [|[|y b] r].
  - constructor; [discriminate|constructor].
  - constructor; [discriminate|]. inversion IH; assumption.
  - destruct (Qeq_bool (arrf x) (arrf y)).
    + inversion IH; subst. constructor; [discriminate|assumption].
    + constructor; [discriminate|assumption].
Qed.

Lemma gtake_split key cur bs : concat bs = fst (gtake key cur bs) ++ concat (snd (gtake key cur bs)).
Proof.
  induction bs as [|b r IH]; cbn [gtake]; [reflexivity|].
  destruct (gready key cur b); [|reflexivity].
  destruct (gtake key cur r) as [d r']. cbn [fst snd concat] in *. rewrite IH, app_assoc. reflexivity.
Qed.

(* a call hands out whole batches from the front *)
Lemma gtake_firstn key cur bs :
  exists m, m <= length bs /\ fst (gtake key cur bs) = concat (firstn m bs) /\ snd (gtake key cur bs) = skipn m bs.
Proof.
  induction bs as [|b r IH]; cbn [gtake].
  - exists 0. repeat split. lia.
  - destruct (gready key cur b).
    + destruct IH as (m & M1 & M2 & M3). destruct (gtake key cur r) as [d r']. cbn [fst snd] in *.
      exists (S m). cbn [length firstn skipn concat]. subst. repeat split. lia.
    + exists 0. repeat split. lia.
Qed.

Lemma greplay_length key n : forall cur bs, length (greplay key cur bs n) = n.
Proof.
  induction n as [|n IH]; intros; cbn [greplay]; [reflexivity|].
  destruct (gtake key cur bs). cbn [length]. rewrite IH. reflexivity.
Qed.

Lemma greplay_firstn key n : forall cur bs t, t <= n -> firstn t (greplay key cur bs n) = greplay key cur bs t.
Proof.
  induction n as [|n IH]; intros cur bs t Ht.
  - assert (t = 0) by lia. subst. reflexivity.
  - destruct t as [|t]; [reflexivity|]. cbn [greplay]. destruct (gtake key cur bs) as [d r].
    cbn [firstn]. rewrite IH by lia. reflexivity.
Qed.

(* after t calls: whole batches from the front have been handed out, the others are left *)
Lemma greplay_batches key t : forall cur bs,
  exists m, m <= length bs /\ concat (greplay key cur bs t) = concat (firstn m bs) /\ grest key cur bs t = skipn m bs.
Proof.
  induction t as [|t IH]; intros cur bs; cbn [greplay grest].
  - exists 0. repeat split. lia.
  - destruct (gtake_firstn key cur bs) as (m & M1 & M2 & M3).
    destruct (gtake key cur bs) as [d r]. cbn [fst snd] in *. subst d r.
    destruct (IH (cur + 1)%Z (skipn m bs)) as (m' & N1 & N2 & N3).
    rewrite skipn_length in N1.
    exists (m + m'). split; [lia|]. cbn [concat]. rewrite N2, N3. split.
    + rewrite firstn_add, concat_app. reflexivity.
    + apply skipn_add.
Qed.

Lemma greplay_incl key n : forall cur bs d, In d (greplay key cur bs n) -> incl d (concat bs).
Proof.
  induction n as [|n IH]; intros cur bs d H; cbn [greplay] in H; [contradiction|].
  pose proof (gtake_split key cur bs) as Hs.
  destruct (gtake key cur bs) as [d0 r]. cbn [fst snd] in Hs. destruct H as [<-|H].
  - intros x Hx. rewrite Hs. apply in_or_app. left. exact Hx.
  - intros x Hx. rewrite Hs. apply in_or_app. right. exact (IH _ _ _ H x Hx).
Qed.

Lemma exhaust_le key n : forall cur bs, exhaust key cur bs n <= n.
Proof.
  induction n as [|n IH]; intros; cbn [exhaust]; [lia|].
  destruct (snd (gtake key cur bs)); [lia|]. specialize (IH (cur + 1)%Z (l :: l0)). lia.
Qed.

(* up to that call something is left *)
Lemma exhaust_rest key n : forall cur bs t, bs <> [] -> t <= exhaust key cur bs n -> grest key cur bs t <> [].
Proof.
  induction n as [|n IH]; intros cur bs t Hb Ht; cbn [exhaust] in Ht.
  - assert (t = 0) by lia. subst. exact Hb.
  - destruct t as [|t]; [exact Hb|]. cbn [grest].
    destruct (snd (gtake key cur bs)) as [|b r]; [lia|]. apply (IH _ _ t); [discriminate | lia].
Qed.

(* appending batches does not change the calls before the one that hands out the last batch ... *)
Lemma gtake_app_rest key cur bs x : snd (gtake key cur bs) <> [] ->
  gtake key cur (bs ++ x) = (fst (gtake key cur bs), snd (gtake key cur bs) ++ x).
Proof.
  induction bs as [|b r IH]; cbn [gtake app]; intros H; [cbn in H; congruence|].
  destruct (gready key cur b); [|reflexivity].
  destruct (gtake key cur r) as [d r'] eqn:E. cbn [fst snd] in *. rewrite (IH H). reflexivity.
Qed.

(* ... and that call hands out at least all of them *)
Lemma gtake_app_all key cur bs x : snd (gtake key cur bs) = [] ->
  fst (gtake key cur (bs ++ x)) = concat bs ++ fst (gtake key cur x).
Proof.
  induction bs as [|b r IH]; cbn [gtake app concat]; intros H; [reflexivity|].
  destruct (gready key cur b); [|discriminate H].
  destruct (gtake key cur r) as [d r'] eqn:E. cbn [fst snd] in *. specialize (IH H).
  destruct (gtake key cur (r ++ x)) as [d2 r2]. cbn [fst] in *. rewrite IH, app_assoc. reflexivity.
Qed.

Lemma greplay_app_exhaust key n : forall cur bs x, bs <> [] ->
  let T := exhaust key cur bs n in
  firstn T (greplay key cur (bs ++ x) n) = firstn T (greplay key cur bs n) /\
  (T < n -> incl (concat (grest key cur bs T)) (nth T (greplay key cur (bs ++ x) n) []) /\
            grest key cur bs (S T) = []).
Proof.
  induction n as [|n IH]; intros cur bs x Hb; cbn [exhaust greplay].
  - split; [reflexivity | lia].
  - destruct (snd (gtake key cur bs)) as [|b r] eqn:E.
    + split; [reflexivity|]. intros _. cbn [grest]. rewrite E. split; [|destruct n; reflexivity].
      pose proof (gtake_app_all key cur bs x E) as H.
      destruct (gtake key cur (bs ++ x)) as [d2 r2]. cbn [fst nth] in *. rewrite H.
      intros y Hy. apply in_or_app. left. exact Hy.
    + assert (Hne : snd (gtake key cur bs) <> []) by (rewrite E; discriminate).
      rewrite (gtake_app_rest key cur bs x Hne). rewrite E.
      destruct (gtake key cur bs) as [d r0] eqn:E2. cbn [fst snd] in *. subst r0.
      destruct (IH (cur + 1)%Z (b :: r) x ltac:(discriminate)) as [I1 I2].
      cbn [firstn nth grest]. rewrite E2. cbn [snd]. split.
      * f_equal. exact I1.
      * intros HT. apply I2. lia.
Qed.

End Generic.

Arguments ggroup {A}. Arguments gbatch_arrival {A}. Arguments gready {A}. Arguments gtake {A}.
Arguments greplay {A}. Arguments grest {A}. Arguments exhaust {A}.

(* images under a map that preserves arrival times *)
Section GenericMap.
Variables A B : Type.
Variable fa : A -> Q.
Variable fb : B -> Q.
Variable f : A -> B.
Hypothesis Hf : forall x, fb (f x) = fa x.

Lemma ggroup_map l : ggroup fb (map f l) = map (map f) (ggroup fa l).
Proof.
  induction l as [|x t IH]; cbn [map ggroup]; [reflexivity|].
  rewrite IH. destruct (ggroup fa t) as [|[|y b] r]; cbn [map]; try reflexivity.
  rewrite !Hf. destruct (Qeq_bool (fa x) (fa y)); reflexivity.
Qed.

Lemma gready_map key cur b : gready fb key cur (map f b) = gready fa key cur b.
Proof. unfold gready. destruct b; cbn [map gbatch_arrival]; [reflexivity|]. rewrite Hf. reflexivity. Qed.

Lemma gtake_map key cur bs :
  gtake fb key cur (map (map f) bs) = (map f (fst (gtake fa key cur bs)), map (map f) (snd (gtake fa key cur bs))).
Proof.
  induction bs as [|b r IH]; cbn [map gtake]; [reflexivity|].
  rewrite gready_map. destruct (gready fa key cur b); [|reflexivity].
  rewrite IH. destruct (gtake fa key cur r). cbn [fst snd]. rewrite map_app. reflexivity.
Qed.

Lemma greplay_map key n : forall cur bs,
  greplay fb key cur (map (map f) bs) n = map (map f) (greplay fa key cur bs n).
Proof.
  induction n as [|n IH]; intros cur bs; cbn [greplay]; [reflexivity|].
  rewrite gtake_map. destruct (gtake fa key cur bs) as [d r]. cbn [fst snd map]. rewrite IH. reflexivity.
Qed.
End GenericMap.

(* Model/Trace.v is the instance on (position, arrival) *)
Lemma group_is_ggroup l : group l = ggroup (@snd nat Q) l.
Proof.
  induction l as [|x t IH]; cbn [group ggroup]; [reflexivity|]. rewrite IH. reflexivity.
Qed.

Lemma take_ready_is_gtake key cur bs : take_ready key cur bs = gtake (@snd nat Q) key cur bs.
Proof.
  induction bs as [|b r IH]; cbn [take_ready gtake]; [reflexivity|].
  unfold gready. replace (gbatch_arrival (@snd nat Q) b) with (batch_arrival b) by (destruct b; reflexivity).
  destruct (Qle_bool (key (batch_arrival b)) (inject_Z cur)); [|reflexivity]. rewrite IH. reflexivity.
Qed.

Lemma replay_from_is_greplay key n : forall cur bs, replay_from key cur bs n = greplay (@snd nat Q) key cur bs n.
Proof.
  induction n as [|n IH]; intros cur bs; cbn [replay_from greplay]; [reflexivity|].
  rewrite take_ready_is_gtake. destruct (gtake (@snd nat Q) key cur bs) as [d r]. rewrite IH. reflexivity.
Qed.

(* ------------------------------------------------------------------------------------------ *)
(* B. WorkloadTrace with the real test, as a function of the batches batch_by_arrival delivers *)

Lemma key_ready_gready key cur b : key_ready key cur b = gready arr_of key cur b.
Proof. unfold key_ready, gready. destruct b; reflexivity. Qed.

Lemma gtake_lead key cur bs :
  gtake arr_of key cur bs =
    (concat (firstn (lead (key_ready key cur) bs) bs), skipn (lead (key_ready key cur) bs) bs).
Proof.
  induction bs as [|b r IH]; cbn [gtake lead]; [reflexivity|].
  rewrite <- key_ready_gready. destruct (key_ready key cur b); [|reflexivity].
  rewrite IH. reflexivity.
Qed.

(* [n] calls, the first with current_tick = s, of a WorkloadTrace that still has to hand out [rem] (look-ahead
   included) and whose iterator ends with [oe] after them: the call that hands out the last batch raises when the
   iterator ends with a refusal *)
Fixpoint frun (key : Q -> Q) (oe : option refusal) (s : nat) (rem : list (list arrival)) (n : nat)
  : list (list arrival) * option refusal :=
  match n with
  | O => ([], None)
  | S n' =>
      let (d, r) := gtake arr_of key (Z.of_nat s) rem in
      match r, oe, rem with
      | [], Some e, _ :: _ => ([], Some e)
      | _, _, _ => let (l, o) := frun key oe (S s) r n' in (d :: l, o)
      end
  end.

Lemma wt_tick_cases key cur st rem oe : wt_rep st rem oe ->
  let d := fst (gtake arr_of key cur rem) in
  let r := snd (gtake arr_of key cur rem) in
  (r = [] /\ rem <> [] /\ exists e, oe = Some e /\ wt_tick (key_ready key cur) st = inl e) \/
  (~ (r = [] /\ rem <> [] /\ oe <> None) /\
   exists st', wt_tick (key_ready key cur) st = inr (d, st') /\ wt_rep st' r oe).
Proof.
  intros Hrep. rewrite gtake_lead. cbn [fst snd]. unfold wt_tick.
  destruct (wt_loop_spec rem st [] _ oe (key_ready key cur) Hrep (wt_rep_length _ _ _ Hrep))
    as [[L1 [L2 [e [L3 L4]]]] | [st' [L1 L2]]].
  - left. rewrite L1, skipn_all. split; [reflexivity|]. split; [exact L2|]. exists e. split; assumption.
  - right. split.
    + intros [R1 [R2 R3]]. rewrite R1 in L2. unfold wt_rep in L2. destruct (wt_next st').
      * destruct L2 as [rem' [L2 _]]. discriminate L2.
      * destruct L2 as [_ L2]. contradiction.
    + exists st'. split; [exact L1 | exact L2].
Qed.

Lemma key_readys_S key s n : key_readys key s (S n) = key_ready key (Z.of_nat s) :: key_readys key (S s) n.
Proof. reflexivity. Qed.

Lemma wt_run_frun key n : forall s st rem oe, wt_rep st rem oe ->
  wt_run (key_readys key s n) st = frun key oe s rem n.
Proof.
  induction n as [|n IH]; intros s st rem oe Hrep; [reflexivity|].
  rewrite key_readys_S. cbn [wt_run frun].
  destruct (wt_tick_cases key (Z.of_nat s) st rem oe Hrep) as [[R1 [R2 [e [R3 R4]]]] | [R1 [st' [R2 R3]]]].
  - rewrite R4. destruct (gtake arr_of key (Z.of_nat s) rem) as [d r]. cbn [fst snd] in *. subst r oe.
    destruct rem; [congruence | reflexivity].
  - rewrite R2. rewrite (IH (S s) st' _ oe R3).
    destruct (gtake arr_of key (Z.of_nat s) rem) as [d r]. cbn [fst snd] in *.
    destruct r as [|b r]; [|reflexivity]. destruct oe as [e|]; [|reflexivity].
    destruct rem as [|b0 rem]; [reflexivity|]. exfalso. apply R1. repeat split; discriminate.
Qed.

(* the constructor *)
Lemma wt_init_cases rows :
  match fst (lazy_batches rows), snd (lazy_batches rows) with
  | [], Some e => wt_init rows = inl e
  | bs, oe => exists st, wt_init rows = inr st /\ wt_rep st bs oe
  end.
Proof.
  unfold wt_init, lazy_batches. destruct (ba_all (ba_start rows)) as [bs oe] eqn:E. cbn [fst snd].
  pose proof (wt_advance_spec _ _ _ E) as HA. destruct bs as [|b bs].
  - destruct oe as [e|]; [exact HA|]. destruct HA as [it' HA]. eexists. split; [exact HA|].
    unfold wt_rep. cbn. split; reflexivity.
  - destruct HA as [it' [HA1 HA2]]. eexists. split; [exact HA1|].
    unfold wt_rep. cbn [wt_next wt_iter]. exists bs. split; [reflexivity | exact HA2].
Qed.

Lemma wt_replay_frun key n rows :
  wt_replay (key_readys key 0 n) rows =
    match fst (lazy_batches rows), snd (lazy_batches rows) with
    | [], Some e => ([], Some e)
    | bs, oe => frun key oe 0 bs n
    end.
Proof.
  unfold wt_replay. pose proof (wt_init_cases rows) as H.
  destruct (fst (lazy_batches rows)) as [|b bs]; destruct (snd (lazy_batches rows)) as [e|].
  - rewrite H. reflexivity.
  - destruct H as [st [H1 H2]]. rewrite H1. apply wt_run_frun, H2.
  - destruct H as [st [H1 H2]]. rewrite H1. apply wt_run_frun, H2.
  - destruct H as [st [H1 H2]]. rewrite H1. apply wt_run_frun, H2.
Qed.

Lemma Zof_S s : Z.of_nat (S s) = (Z.of_nat s + 1)%Z.
Proof. lia. Qed.

(* an iterator that ends normally: C13's machine *)
Lemma frun_none key n : forall s rem, frun key None s rem n = (greplay arr_of key (Z.of_nat s) rem n, None).
Proof.
  induction n as [|n IH]; intros s rem; cbn [frun greplay]; [reflexivity|].
  destruct (gtake arr_of key (Z.of_nat s) rem) as [d r].
  rewrite IH, Zof_S. destruct r; reflexivity.
Qed.

(* an iterator that ends with a refusal: the same calls, cut at the call that hands out the last batch *)
Lemma frun_some key e n : forall s rem, rem <> [] ->
  frun key (Some e) s rem n =
    (firstn (exhaust arr_of key (Z.of_nat s) rem n) (greplay arr_of key (Z.of_nat s) rem n),
     if exhaust arr_of key (Z.of_nat s) rem n <? n then Some e else None).
Proof.
  induction n as [|n IH]; intros s rem Hr; cbn [frun greplay exhaust]; [reflexivity|].
  destruct (gtake arr_of key (Z.of_nat s) rem) as [d r]. cbn [snd].
  destruct r as [|b r].
  - destruct rem; [congruence | reflexivity].
  - rewrite IH by discriminate. rewrite Zof_S. cbn [firstn]. reflexivity.
Qed.

(* ------------------------------------------------------------------------------------------ *)
(* C. well-formed files *)

Lemma Qeq_bool_sym x y : Qeq_bool x y = Qeq_bool y x.
Proof.
  destruct (Qeq_bool x y) eqn:E1; destruct (Qeq_bool y x) eqn:E2; try reflexivity.
  - apply Qeq_bool_iff in E1. apply Qeq_bool_neq in E2. exfalso. apply E2. symmetry. exact E1.
  - apply Qeq_bool_iff in E2. apply Qeq_bool_neq in E1. exfalso. apply E1. symmetry. exact E2.
Qed.

Lemma Qeq_bool_via a y t : Qeq_bool a t = true -> Qeq_bool a y = Qeq_bool y t.
Proof.
  intros H. apply Qeq_bool_iff in H.
  destruct (Qeq_bool a y) eqn:E1; destruct (Qeq_bool y t) eqn:E2; try reflexivity.
  - apply Qeq_bool_iff in E1. apply Qeq_bool_neq in E2. exfalso. apply E2. rewrite <- E1. exact H.
  - apply Qeq_bool_iff in E2. apply Qeq_bool_neq in E1. exfalso. apply E1. rewrite H, E2. reflexivity.
Qed.

(* the left-to-right loop of batch_by_arrival against the grouping of Model/Trace.v *)
Definition merge_into (t : Q) (cur : list arrival) (gs : list (list arrival)) : list (list arrival) :=
  match gs with
  | [] => [cur]
  | [] :: r => cur :: r
  | (y :: b) :: r => if Qeq_bool (arr_of y) t then (cur ++ y :: b) :: r else cur :: (y :: b) :: r
  end.

Lemma merge_single a l : merge_into (arr_of a) [a] (ggroup arr_of l) = ggroup arr_of (a :: l).
Proof.
  cbn [ggroup]. unfold merge_into. destruct (ggroup arr_of l) as [|[|y b] r]; try reflexivity.
  rewrite (Qeq_bool_sym (arr_of y) (arr_of a)). reflexivity.
Qed.

Lemma group_loop_ggroup : forall l t cur, group_loop t cur l = merge_into t cur (ggroup arr_of l).
Proof.
  induction l as [|a l IH]; intros t cur; [reflexivity|].
  cbn [group_loop]. fold (arr_of a). destruct (Qeq_bool (arr_of a) t) eqn:E.
  - rewrite IH. cbn [ggroup]. pose proof (ggroup_nonempty _ arr_of l) as Hne.
    destruct (ggroup arr_of l) as [|[|y b] r].
    + unfold merge_into. rewrite E. reflexivity.
    + inversion Hne; congruence.
    + unfold merge_into. rewrite (Qeq_bool_via _ (arr_of y) _ E).
      destruct (Qeq_bool (arr_of y) t).
      * rewrite E, <- app_assoc. reflexivity.
      * rewrite E. reflexivity.
  - rewrite IH, merge_single. cbn [ggroup].
    destruct (ggroup arr_of l) as [|[|y b] r]; unfold merge_into.
    + rewrite E. reflexivity.
    + rewrite E. reflexivity.
    + destruct (Qeq_bool (arr_of a) (arr_of y)); rewrite E; reflexivity.
Qed.

Lemma arrival_groups_is_ggroup l : arrival_groups l = ggroup arr_of l.
Proof.
  destruct l as [|a l]; [reflexivity|]. unfold arrival_groups. fold (arr_of a).
  rewrite group_loop_ggroup. apply merge_single.
Qed.

(* the pipelines with their file positions: the common refinement of the two replays *)
Fixpoint idx_from (i : nat) (l : list arrival) : list (nat * arrival) :=
  match l with
  | [] => []
  | a :: t => (i, a) :: idx_from (S i) t
  end.

Lemma idx_from_snd l : forall i, map snd (idx_from i l) = l.
Proof. induction l as [|a t IH]; intros i; cbn [idx_from map]; [reflexivity|]. rewrite IH. reflexivity. Qed.

Lemma idx_from_items l : forall i,
  map (fun ia : nat * arrival => (fst ia, arr_of (snd ia))) (idx_from i l) = index_from i (map arr_of l).
Proof. induction l as [|a t IH]; intros i; cbn [idx_from map index_from]; [reflexivity|]. rewrite IH. reflexivity. Qed.

Lemma idx_from_nth l : forall i x, In x (idx_from i l) -> i <= fst x /\ nth_error l (fst x - i) = Some (snd x).
Proof.
  induction l as [|a t IH]; intros i x H; cbn [idx_from] in H; [contradiction|].
  destruct H as [<-|H].
  - cbn [fst snd]. rewrite Nat.sub_diag. split; [lia | reflexivity].
  - apply IH in H. destruct H as [H1 H2]. split; [lia|].
    replace (fst x - i) with (S (fst x - S i)) by lia. exact H2.
Qed.

Lemma select_map (l : list arrival) (Y : list (nat * arrival)) :
  (forall x, In x Y -> nth_error l (fst x) = Some (snd x)) -> select l (map fst Y) = map snd Y.
Proof.
  induction Y as [|y Y IH]; intros H; [reflexivity|].
  unfold select in *. cbn [map flat_map]. rewrite (H y (or_introl eq_refl)). cbn [app].
  f_equal. apply IH. intros x Hx. apply H. right. exact Hx.
Qed.

(* the hand-out of WorkloadTrace over the arrival batches of [l] is C13's replay of the arrival column of [l],
   read as positions in [l] *)
Lemma greplay_is_replay key n (l : list arrival) :
  greplay arr_of key 0 (arrival_groups l) n = map (select l) (replay_key key 0 (map arr_of l) n).
Proof.
  set (fa := fun ia : nat * arrival => arr_of (snd ia)).
  set (X := greplay fa key 0 (ggroup fa (idx_from 0 l)) n).
  assert (H1 : greplay arr_of key 0 (arrival_groups l) n = map (map snd) X).
  { rewrite arrival_groups_is_ggroup. rewrite <- (idx_from_snd l 0) at 1.
    rewrite (ggroup_map _ _ fa arr_of snd) by reflexivity.
    rewrite (greplay_map _ _ fa arr_of snd) by reflexivity. reflexivity. }
  assert (H2 : replay_key key 0 (map arr_of l) n = map (map fst) X).
  { unfold replay_key. rewrite group_is_ggroup, replay_from_is_greplay, <- idx_from_items.
    rewrite (ggroup_map _ _ fa (@snd nat Q) (fun ia : nat * arrival => (fst ia, arr_of (snd ia)))) by reflexivity.
    rewrite (greplay_map _ _ fa (@snd nat Q) (fun ia : nat * arrival => (fst ia, arr_of (snd ia)))) by reflexivity.
    fold X. rewrite map_map. apply map_ext. intros Y. rewrite map_map. reflexivity. }
  rewrite H1, H2, map_map. apply map_ext_in. intros Y HY. symmetry. apply select_map.
  intros x Hx. pose proof (greplay_incl _ fa key n 0%Z _ Y HY x Hx) as Hin.
  rewrite ggroup_concat in Hin. apply idx_from_nth in Hin. rewrite Nat.sub_0_r in Hin. apply Hin.
Qed.

Lemma combine_fst_snd (A B : Type) (l : list (A * B)) : combine (map fst l) (map snd l) = l.
Proof. induction l as [|[a b] l IH]; cbn [map combine fst snd]; [reflexivity|]. rewrite IH. reflexivity. Qed.

(* what the lazy reader delivers on an accepted file *)
Lemma lazy_arrivals_good rows ps : read_rows_c rows = inr ps ->
  lazy_arrivals rows = (file_pipelines rows ps, None).
Proof.
  intros H. apply lazy_eager_ok in H. unfold lazy_pipelines in H.
  destruct (lazy_arrivals rows) as [l oe] eqn:E. cbn [fst snd] in H. injection H as Hps Hoe. subst oe ps.
  destruct (lazy_never_loads_differently _ _ _ E) as [H1 [H2 _]].
  rewrite (H2 eq_refl), firstn_all in H1.
  unfold file_pipelines. rewrite batch_ids_pid, <- (built_ids _ _ H1), combine_fst_snd. reflexivity.
Qed.

Lemma file_pipelines_arrivals rows ps : length (batch_ids rows) = length ps ->
  map arr_of (file_pipelines rows ps) = map pm_arr ps.
Proof.
  unfold file_pipelines. generalize (batch_ids rows). induction ps as [|p ps IH]; intros [|i ids] H; try discriminate H.
  - reflexivity.
  - cbn [combine map]. rewrite IH by (cbn [length] in H; lia). reflexivity.
Qed.

Lemma read_batches_length bs : forall ps, read_batches bs = inr ps -> length bs = length ps.
Proof.
  induction bs as [|b t IH]; intros ps H; cbn [read_batches] in H.
  - inversion H. reflexivity.
  - destruct (create_pipeline b); [discriminate|]. destruct (read_batches t) as [e|ps']; [discriminate|].
    inversion H. cbn [length]. rewrite (IH ps' eq_refl). reflexivity.
Qed.

Lemma read_rows_ids_length rows ps : read_rows_c rows = inr ps -> length (batch_ids rows) = length ps.
Proof. intros H. unfold batch_ids. rewrite map_length. apply read_batches_length, H. Qed.

Lemma file_replay_key_good key n rows ps : read_rows_c rows = inr ps ->
  wt_replay (key_readys key 0 n) rows =
    (map (select (file_pipelines rows ps)) (replay_key key 0 (map pm_arr ps) n), None).
Proof.
  intros H. rewrite wt_replay_frun.
  rewrite (lazy_batches_ok _ _ (lazy_arrivals_good _ _ H)). cbn [fst snd].
  rewrite <- (file_pipelines_arrivals rows ps (read_rows_ids_length _ _ H)).
  rewrite <- greplay_is_replay.
  destruct (arrival_groups (file_pipelines rows ps)); apply frun_none.
Qed.

(* (a) *)
Theorem file_replay_is_replay : forall (rnd : Q -> Q) tps n rows ps, read_rows_c rows = inr ps ->
  file_replay_with rnd tps n rows =
    (map (select (file_pipelines rows ps)) (replay rnd tps (map pm_arr ps) n), None).
Proof. intros rnd tps n rows ps H. apply file_replay_key_good, H. Qed.

(* ---- the C13 theorems, for files ---- *)

Lemma select_nil (A : Type) (is : list nat) : select (@nil A) is = [].
Proof. induction is as [|i is IH]; [reflexivity|]. unfold select in *. cbn [flat_map]. rewrite IH. destruct i; reflexivity. Qed.

Lemma select_shift (A : Type) (a : A) l is : select (a :: l) (map S is) = select l is.
Proof. induction is as [|i is IH]; [reflexivity|]. unfold select in *. cbn [map flat_map nth_error]. rewrite IH. reflexivity. Qed.

Lemma select_concat (A : Type) (l : list A) R : concat (map (select l) R) = select l (concat R).
Proof.
  induction R as [|r R IH]; [reflexivity|]. cbn [map concat]. rewrite IH. unfold select. rewrite flat_map_app. reflexivity.
Qed.

Lemma select_seq0 (A : Type) (l : list A) : forall m, select l (seq 0 m) = firstn m l.
Proof.
  induction l as [|a l IH]; intros m.
  - rewrite select_nil, firstn_nil. reflexivity.
  - destruct m as [|m]; [reflexivity|]. cbn [seq firstn]. rewrite <- seq_shift.
    change (select (a :: l) (0 :: map S (seq 0 m))) with (a :: select (a :: l) (map S (seq 0 m))).
    rewrite select_shift, IH. reflexivity.
Qed.

Lemma file_pipelines_length rows ps : read_rows_c rows = inr ps -> length (file_pipelines rows ps) = length ps.
Proof.
  intros H. unfold file_pipelines, arrival. rewrite combine_length, (read_rows_ids_length _ _ H). apply Nat.min_id.
Qed.

(* exactly once, in file order, nobody skipped; never an exception; one answer per call *)
Theorem file_once_in_file_order : forall (rnd : Q -> Q) tps n rows ps, read_rows_c rows = inr ps ->
  exists m, m <= length ps /\
    concat (fst (file_replay_with rnd tps n rows)) = firstn m (file_pipelines rows ps) /\
    snd (file_replay_with rnd tps n rows) = None /\
    length (fst (file_replay_with rnd tps n rows)) = n.
Proof.
  intros rnd tps n rows ps H. rewrite (file_replay_is_replay rnd tps n rows ps H). cbn [fst snd].
  destruct (replay_prefix rnd tps (map pm_arr ps) n) as [m [M1 M2]]. rewrite map_length in M1.
  exists m. split; [exact M1|]. split; [|split; [reflexivity|]].
  - rewrite select_concat, M2. apply select_seq0.
  - rewrite map_length. apply replay_length.
Qed.

(* each call's answer is a run of consecutive file positions *)
Lemma concat_seq_segments : forall (R : list (list nat)) s m, concat R = seq s m ->
  forall t, exists s' k, nth t R [] = seq s' k.
Proof.
  induction R as [|r R IH]; intros s m H t.
  - exists 0, 0. destruct t; reflexivity.
  - cbn [concat] in H. pose proof (prefix_seq _ _ _ _ H) as Hr.
    destruct t as [|t]; [exists s, (length r); exact Hr|].
    cbn [nth]. rewrite Hr in H.
    assert (Hm : length r <= m).
    { apply (f_equal (@length nat)) in H. rewrite app_length, !seq_length in H. lia. }
    replace m with (length r + (m - length r)) in H by lia. rewrite seq_app in H.
    apply app_inv_head in H. exact (IH _ _ H t).
Qed.

Lemma filter_none (A : Type) (g : A -> bool) l : (forall x, In x l -> g x = false) -> filter g l = [].
Proof.
  induction l as [|x l IH]; intros H; [reflexivity|]. cbn [filter]. rewrite (H x (or_introl eq_refl)).
  apply IH. intros y Hy. apply H. right. exact Hy.
Qed.

Lemma filter_all (A : Type) (g : A -> bool) l : (forall x, In x l -> g x = true) -> filter g l = l.
Proof.
  induction l as [|x l IH]; intros H; [reflexivity|]. cbn [filter]. rewrite (H x (or_introl eq_refl)).
  f_equal. apply IH. intros y Hy. apply H. right. exact Hy.
Qed.

Lemma seq_filter_char (g : nat -> bool) len s k :
  (forall i, In i (seq s k) <-> i < len /\ g i = true) -> filter g (seq 0 len) = seq s k.
Proof.
  intros H. destruct k as [|k].
  - cbn [seq]. apply filter_none. intros i Hi. apply in_seq in Hi.
    destruct (g i) eqn:E; [|reflexivity]. exfalso. apply (proj2 (H i)). split; [lia | exact E].
  - assert (Hs : s + S k <= len).
    { assert (Hin : In (s + k) (seq s (S k))) by (apply in_seq; lia). apply H in Hin. lia. }
    replace len with (s + (S k + (len - s - S k))) by lia.
    rewrite seq_app, seq_app, !filter_app. cbn [plus].
    rewrite (filter_none _ g (seq 0 s)), (filter_all _ g (seq s (S k))), (filter_none _ g (seq (s + S k) _)).
    + rewrite app_nil_r. reflexivity.
    + intros i Hi. apply in_seq in Hi. destruct (g i) eqn:E; [|reflexivity].
      assert (Hin : In i (seq s (S k))) by (apply H; split; [lia | exact E]). apply in_seq in Hin. lia.
    + intros i Hi. apply H in Hi. apply Hi.
    + intros i Hi. apply in_seq in Hi. destruct (g i) eqn:E; [|reflexivity].
      assert (Hin : In i (seq s (S k))) by (apply H; split; [lia | exact E]). apply in_seq in Hin. lia.
Qed.

Lemma filter_map_S (g : nat -> bool) l : filter g (map S l) = map S (filter (fun i => g (S i)) l).
Proof.
  induction l as [|x l IH]; [reflexivity|]. cbn [map filter]. rewrite IH. destruct (g (S x)); reflexivity.
Qed.

Definition at_pos {A : Type} (l : list A) (f : A -> bool) (i : nat) : bool :=
  match nth_error l i with Some a => f a | None => false end.

Lemma select_filter (A : Type) (f : A -> bool) (l : list A) :
  select l (filter (at_pos l f) (seq 0 (length l))) = filter f l.
Proof.
  induction l as [|a l IH]; [reflexivity|].
  cbn [length seq filter]. rewrite <- seq_shift, filter_map_S.
  unfold at_pos at 1. cbn [nth_error].
  assert (E : filter (fun i => at_pos (a :: l) f (S i)) (seq 0 (length l)) = filter (at_pos l f) (seq 0 (length l)))
    by (apply filter_ext; intros i; reflexivity).
  rewrite E. destruct (f a).
  - change (select (a :: l) (0 :: ?x)) with (a :: select (a :: l) x). rewrite select_shift, IH. reflexivity.
  - rewrite select_shift, IH. reflexivity.
Qed.

Lemma nth_map_select (l : list arrival) R t : nth t (map (select l) R) [] = select l (nth t R []).
Proof. change (@nil arrival) with (select l []) at 1. apply map_nth. Qed.

(* a monotone tick computation, rows in arrival order: call t returns exactly the pipelines whose tick
   max 0 (ceil (key arrival)) is t, in file order *)
Lemma file_tick_filter_key key : (forall x y, (x <= y)%Q -> (key x <= key y)%Q) ->
  forall n rows ps, read_rows_c rows = inr ps -> StronglySorted Qle (map pm_arr ps) ->
  forall t, t < n ->
    nth t (fst (wt_replay (key_readys key 0 n) rows)) [] =
      filter (fun a => Z.max 0 (ceilQ (key (pm_arr (snd a)))) =? Z.of_nat t)%Z (file_pipelines rows ps).
Proof.
  intros Hmono n rows ps H Hs t Ht.
  rewrite (file_replay_key_good key n rows ps H). cbn [fst]. rewrite nth_map_select.
  set (l := file_pipelines rows ps). set (arrs := map pm_arr ps).
  etransitivity; [|apply select_filter].
  match goal with |- _ = select _ (filter (at_pos _ ?F) _) => set (f := F) end.
  f_equal.
  destruct (replay_key_prefix key 0 arrs n) as [m [_ Hm]].
  destruct (concat_seq_segments _ _ _ Hm t) as [s [k Hseg]]. rewrite Hseg.
  symmetry. apply seq_filter_char. intros i. rewrite <- Hseg.
  rewrite (replay_key_spec key Hmono 0%Z arrs n Hs t i).
  assert (Hlen : length arrs = length l).
  { unfold arrs, l. rewrite map_length, (file_pipelines_length _ _ H). reflexivity. }
  assert (Harr : arrs = map arr_of l).
  { unfold arrs, l. symmetry. apply file_pipelines_arrivals, read_rows_ids_length, H. }
  rewrite Hlen. split.
  - intros (_ & B & C). split; [exact B|]. unfold at_pos.
    match goal with |- context [@nth_error ?T ?L i] => destruct (@nth_error T L i) as [a|] eqn:E end;
      [|apply nth_error_None in E; unfold arrival in *; lia].
    change (0 + Z.of_nat t)%Z with (Z.of_nat t) in C.
    unfold f. apply Z.eqb_eq. rewrite <- C, Harr.
    rewrite (nth_indep _ 0%Q (arr_of a)) by (rewrite map_length; exact B).
    rewrite map_nth. erewrite nth_error_nth by exact E. reflexivity.
  - intros (B & C). split; [exact Ht|]. split; [exact B|]. unfold at_pos in C.
    match type of C with context [@nth_error ?T ?L i] => destruct (@nth_error T L i) as [a|] eqn:E end;
      [|discriminate C].
    unfold f in C. apply Z.eqb_eq in C. rewrite Harr. change (0 + Z.of_nat t)%Z with (Z.of_nat t).
    rewrite (nth_indep _ 0%Q (arr_of a)) by (rewrite map_length; exact B).
    rewrite map_nth. erewrite nth_error_nth by exact E. exact C.
Qed.

(* the code: any rounding that is monotone with relative error 2^-53, in particular rnd64 *)
Theorem file_float_tick_any_rounding : forall (rnd : Q -> Q),
  (forall x y, (x <= y)%Q -> (rnd x <= rnd y)%Q) ->
  (forall x, (Qabs (rnd x - x) <= Qabs x * (1 # 9007199254740992))%Q) ->
  forall tps, (0 < tps)%Z -> forall n rows ps,
  read_rows_c rows = inr ps -> StronglySorted Qle (map pm_arr ps) ->
  forall t, t < n ->
    nth t (fst (file_replay_with rnd tps n rows)) [] =
      filter (fun a => file_tick rnd tps a =? Z.of_nat t)%Z (file_pipelines rows ps).
Proof.
  intros rnd H1 H2 tps Htps n rows ps H Hs t Ht.
  exact (file_tick_filter_key _ (fkey_mono rnd H1 H2 tps Htps) n rows ps H Hs t Ht).
Qed.

Theorem file_float_tick : forall tps n rows ps, (0 < tps)%Z ->
  read_rows_c rows = inr ps -> StronglySorted Qle (map pm_arr ps) ->
  forall t, t < n ->
    nth t (fst (file_replay tps n rows)) [] =
      filter (fun a => file_tick rnd64 tps a =? Z.of_nat t)%Z (file_pipelines rows ps).
Proof.
  intros tps n rows ps Htps. exact (file_float_tick_any_rounding rnd64 rnd64_mono rnd64_err tps Htps n rows ps).
Qed.

(* the exact specification: the tick is ceil(arrival * tps) (0 for arrivals before time 0) *)
Theorem file_spec_tick : forall tps n rows ps, (0 < tps)%Z ->
  read_rows_c rows = inr ps -> StronglySorted Qle (map pm_arr ps) ->
  forall t, t < n ->
    nth t (fst (file_replay_with exact tps n rows)) [] =
      filter (fun a => Z.max 0 (ceilQ (pm_arr (snd a) * inject_Z tps)) =? Z.of_nat t)%Z (file_pipelines rows ps).
Proof.
  intros tps n rows ps Htps H Hs t Ht.
  unfold file_replay_with, file_readys.
  rewrite (file_tick_filter_key _ (key_exact_mono tps Htps) n rows ps H Hs t Ht).
  apply filter_ext. intros a. rewrite (ceilQ_comp _ _ (key_exact_eq tps (pm_arr (snd a)) Htps)). reflexivity.
Qed.

(* never before the arrival and never after the first tick at or after it, up to the rounding of the two float
   operations *)
Theorem file_float_window : forall tps n rows ps, (0 < tps)%Z ->
  read_rows_c rows = inr ps -> StronglySorted Qle (map pm_arr ps) ->
  forall t a, In a (nth t (fst (file_replay tps n rows)) []) -> (0 <= pm_arr (snd a))%Q ->
    (ceilQ (pm_arr (snd a) * inject_Z tps * (1 - (4 # 9007199254740992))) <= Z.of_nat t
     <= ceilQ (pm_arr (snd a) * inject_Z tps * (1 + (4 # 9007199254740992))))%Z.
Proof.
  intros tps n rows ps Htps H Hs t a Hin Ha.
  assert (Ht : t < n).
  { destruct (Nat.lt_ge_cases t n) as [L|L]; [exact L|]. exfalso.
    destruct (file_once_in_file_order rnd64 tps n rows ps H) as [m [_ [_ [_ HL]]]].
    fold (file_replay tps n rows) in HL. rewrite nth_overflow in Hin by lia. exact Hin. }
  rewrite (file_float_tick tps n rows ps Htps H Hs t Ht) in Hin. apply filter_In in Hin.
  destruct Hin as [_ Hf]. apply Z.eqb_eq in Hf. rewrite <- Hf. unfold file_tick, next_batch_tick, tick_length.
  apply (rnd64_tick_window tps (pm_arr (snd a)) Htps Ha).
Qed.

(* ------------------------------------------------------------------------------------------ *)
(* D. malformed files *)

(* D1. the longest well-formed prefix is a file of its own, with the same batches *)
Lemma batch_loop_head : forall rows id cur, exists b0 t, batch_loop id cur rows = (cur ++ b0) :: t.
Proof.
  induction rows as [|r rest IH]; intros id cur; cbn [batch_loop].
  - exists [], []. rewrite app_nil_r. reflexivity.
  - destruct (r_pid r =? id).
    + destruct (IH id (cur ++ [r])) as [b0 [t H]]. exists (r :: b0), t. rewrite H, <- app_assoc. reflexivity.
    + exists [], (batch_loop (r_pid r) [r] rest). rewrite app_nil_r. reflexivity.
Qed.

Lemma batches_single : forall id cur, cur <> [] -> Forall (fun r => r_pid r = id) cur -> batches cur = [cur].
Proof.
  intros id [|c0 cur'] Hne Hall; [congruence|]. inversion Hall as [|? ? H0 H1]; subst.
  cbn [batches]. rewrite <- (app_nil_r cur') at 1. rewrite (batch_loop_block cur' _ [c0] [] H1). reflexivity.
Qed.

Lemma batch_loop_prefix : forall rows id cur k, cur <> [] -> Forall (fun r => r_pid r = id) cur ->
  batches (concat (firstn (S k) (batch_loop id cur rows))) = firstn (S k) (batch_loop id cur rows).
Proof.
  induction rows as [|r rest IH]; intros id cur k Hne Hall; cbn [batch_loop].
  - cbn [firstn concat]. rewrite firstn_nil. cbn [concat]. rewrite app_nil_r. apply (batches_single id); assumption.
  - destruct (r_pid r =? id) eqn:E.
    + apply Nat.eqb_eq in E. apply IH; [destruct cur; discriminate|].
      apply Forall_app. split; [assumption | constructor; [exact E | constructor]].
    + cbn [firstn concat]. destruct k as [|k].
      * cbn [firstn concat]. rewrite app_nil_r. apply (batches_single id); assumption.
      * pose proof (IH (r_pid r) [r] k ltac:(discriminate) ltac:(constructor; [reflexivity | constructor])) as HB.
        destruct (batch_loop_head rest (r_pid r) [r]) as [b0 [t Hh]]. rewrite Hh in *.
        cbn [firstn concat app] in *.
        set (X := b0 ++ concat (firstn k t)) in *.
        destruct cur as [|c0 cur']; [congruence|]. inversion Hall as [|? ? H0 H1]; subst.
        cbn [app batches]. rewrite (batch_loop_block cur' _ [c0] (r :: X) H1).
        cbn [batch_loop]. rewrite E. f_equal. exact HB.
Qed.

Lemma batches_prefix : forall rows k, batches (concat (firstn k (batches rows))) = firstn k (batches rows).
Proof.
  intros [|r rest] k; [rewrite firstn_nil; reflexivity|]. destruct k as [|k]; [reflexivity|].
  cbn [batches]. apply batch_loop_prefix; [discriminate | constructor; [reflexivity | constructor]].
Qed.

Lemma good_batches_spec : forall bs e, read_batches bs = inl e ->
  exists k bad ps, good_batches bs = firstn k bs /\ nth_error bs k = Some bad /\ create_pipeline bad = inl e /\
                   read_batches (firstn k bs) = inr ps /\ length ps = k /\
                   lazy_read bs = (combine (map batch_pid (firstn k bs)) ps, Some e).
Proof.
  induction bs as [|b t IH]; intros e H; cbn [read_batches] in H; [discriminate|].
  cbn [good_batches lazy_read]. destruct (create_pipeline b) as [e'|p] eqn:E.
  - inversion H; subst e'. exists 0, b, []. repeat split. exact E.
  - destruct (read_batches t) as [e'|ps'] eqn:E2; [|discriminate]. inversion H; subst e'.
    destruct (IH e eq_refl) as (k & bad & ps & G1 & G2 & G3 & G4 & G5 & G6).
    exists (S k), bad, (p :: ps). cbn [firstn read_batches nth_error map combine length].
    rewrite G1, E, G4, G6, G5. repeat split; assumption.
Qed.

Theorem file_malformed_prefix : forall rows e, read_rows_c rows = inl e ->
  exists ps rest bad,
    rows = good_prefix rows ++ rest /\
    read_rows_c (good_prefix rows) = inr ps /\
    nth_error (batches rows) (length ps) = Some bad /\ create_pipeline bad = inl e /\
    (forall b t, rest = b :: t -> exists t', bad = b :: t') /\
    lazy_arrivals rows = (file_pipelines (good_prefix rows) ps, Some e) /\
    lazy_batches rows = (removelast (arrival_groups (file_pipelines (good_prefix rows) ps)), Some e).
Proof.
  intros rows e H. unfold read_rows_c in H.
  destruct (good_batches_spec _ _ H) as (k & bad & ps & G1 & G2 & G3 & G4 & G5 & G6).
  assert (HB : batches (good_prefix rows) = firstn k (batches rows)).
  { unfold good_prefix. rewrite G1. apply batches_prefix. }
  assert (HL : lazy_arrivals rows = (file_pipelines (good_prefix rows) ps, Some e)).
  { rewrite lazy_arrivals_spec, G6. unfold file_pipelines. rewrite batch_ids_pid, HB. reflexivity. }
  exists ps, (concat (skipn k (batches rows))), bad. repeat split.
  - unfold good_prefix. rewrite G1, <- concat_app, firstn_skipn, batches_concat. reflexivity.
  - unfold read_rows_c. rewrite HB. exact G4.
  - rewrite G5. exact G2.
  - exact G3.
  - intros b t Hr.
    assert (Hsk : exists tl, skipn k (batches rows) = bad :: tl).
    { clear - G2. revert k G2. induction (batches rows) as [|x l IH]; intros k G2; destruct k; try discriminate G2.
      - inversion G2. exists l. reflexivity.
      - cbn [nth_error] in G2. cbn [skipn]. apply IH, G2. }
    destruct Hsk as [tl Hsk]. rewrite Hsk in Hr. cbn [concat] in Hr.
    assert (Hbad : bad <> []).
    { apply (batches_uniform rows). apply nth_error_In with (n := k). exact G2. }
    destruct bad as [|b' t']; [congruence|]. cbn [app] in Hr. inversion Hr. exists t'. reflexivity.
  - exact HL.
  - apply lazy_batches_raise, HL.
Qed.

(* D2. the replay of a malformed file *)
Lemma last_skipn (A : Type) (d : A) : forall (l : list A) m, skipn m l <> [] -> last (skipn m l) d = last l d.
Proof.
  induction l as [|x l IH]; intros m H.
  - rewrite skipn_nil in H. congruence.
  - destruct m as [|m]; [reflexivity|]. cbn [skipn] in *. rewrite (IH m H).
    destruct l; [rewrite skipn_nil in H; congruence | reflexivity].
Qed.

Lemma last_In (A : Type) (d : A) (l : list A) : l <> [] -> In (last l d) l.
Proof.
  intros H. rewrite (app_removelast_last d H) at 2. apply in_or_app. right. left. reflexivity.
Qed.

Lemma replay_good_prefix key n rows ps : read_rows_c rows = inr ps ->
  wt_replay (key_readys key 0 n) rows = (greplay arr_of key 0 (arrival_groups (file_pipelines rows ps)) n, None).
Proof.
  intros H. rewrite wt_replay_frun, (lazy_batches_ok _ _ (lazy_arrivals_good _ _ H)). cbn [fst snd].
  destruct (arrival_groups (file_pipelines rows ps)); apply frun_none.
Qed.

Lemma surfaced_init rows e : wt_init rows = inl e -> forall res, snd res <> None -> surfaced_in rows res = Some AtConstruction.
Proof. intros H res Hr. unfold surfaced_in. rewrite H. destruct (snd res); [reflexivity | congruence]. Qed.

Lemma file_malformed_key key n rows e : read_rows_c rows = inl e ->
  forall res, res = wt_replay (key_readys key 0 n) rows ->
  let good := fst (wt_replay (key_readys key 0 n) (good_prefix rows)) in
  let delivered := fst (lazy_batches rows) in
  match delivered with
  | [] => res = ([], Some e) /\ surfaced_in rows res = Some AtConstruction
  | _ :: _ =>
      exists T, T <= n /\ fst res = firstn T good /\
        (T = n -> snd res = None /\ surfaced_in rows res = None) /\
        (T < n -> snd res = Some e /\ surfaced_in rows res = Some (AtTick T) /\
                  forall x, In x (last delivered []) -> In x (nth T good []))
  end.
Proof.
  intros H res Hres good delivered.
  destruct (file_malformed_prefix rows e H) as (ps & rest & bad & P1 & P2 & _ & _ & _ & P5 & P6).
  pose proof (wt_init_cases rows) as HI. pose proof (wt_replay_frun key n rows) as HR.
  unfold delivered. rewrite P6 in *. cbn [fst snd] in *.
  set (l := file_pipelines (good_prefix rows) ps) in *.
  destruct (removelast (arrival_groups l)) as [|b0 bs0] eqn:Ebs.
  - rewrite Hres, HR. split; [reflexivity|]. apply (surfaced_init rows e HI). discriminate.
  - set (bs := b0 :: bs0) in *. assert (Hbs : bs <> []) by discriminate.
    assert (Hg : arrival_groups l <> []) by (intro Z; rewrite Z in Ebs; discriminate Ebs).
    pose proof (app_removelast_last [] Hg) as Hsplit. rewrite Ebs in Hsplit. fold bs in Hsplit.
    set (lost := last (arrival_groups l) []) in *.
    assert (Hgood : good = greplay arr_of key 0 (bs ++ [lost]) n).
    { unfold good. rewrite (replay_good_prefix key n _ ps P2). cbn [fst]. fold l. rewrite Hsplit. reflexivity. }
    rewrite (frun_some key e n 0 bs Hbs) in HR. change (Z.of_nat 0) with 0%Z in HR.
    set (T := exhaust arr_of key 0 bs n) in *.
    pose proof (exhaust_le _ arr_of key n 0%Z bs) as HT. fold T in HT.
    destruct (greplay_app_exhaust _ arr_of key n 0%Z bs [lost] Hbs) as [A1 A2]. fold T in A1, A2.
    destruct HI as [st [HI _]].
    exists T. split; [exact HT|]. rewrite Hres, HR. cbn [fst snd]. split; [rewrite Hgood; symmetry; exact A1|]. split.
    + intros HTn. rewrite HTn, Nat.ltb_irrefl. split; reflexivity.
    + intros HTn. assert (Hlt : (T <? n) = true) by (apply Nat.ltb_lt; exact HTn). rewrite Hlt.
      split; [reflexivity|]. split.
      * unfold surfaced_in. cbn [fst snd]. rewrite HI, firstn_length, greplay_length. f_equal. f_equal. lia.
      * intros x Hx. rewrite Hgood. apply (proj1 (A2 HTn)).
        destruct (greplay_batches _ arr_of key T 0%Z bs) as (m & _ & _ & M3).
        pose proof (exhaust_rest _ arr_of key n 0%Z bs T Hbs (Nat.le_refl _)) as Hne.
        rewrite M3 in *. apply in_concat. exists (last bs []). split; [|exact Hx].
        rewrite <- (last_skipn _ [] bs m Hne). apply last_In, Hne.
Qed.

(* (b) *)
Theorem file_malformed_replay : forall (rnd : Q -> Q) tps n rows e, read_rows_c rows = inl e ->
  let good := fst (file_replay_with rnd tps n (good_prefix rows)) in
  let delivered := fst (lazy_batches rows) in
  match delivered with
  | [] => file_replay_with rnd tps n rows = ([], Some e) /\ file_refusal_at rnd tps n rows = Some AtConstruction
  | _ :: _ =>
      exists T, T <= n /\ fst (file_replay_with rnd tps n rows) = firstn T good /\
        (T = n -> snd (file_replay_with rnd tps n rows) = None /\ file_refusal_at rnd tps n rows = None) /\
        (T < n -> snd (file_replay_with rnd tps n rows) = Some e /\
                  file_refusal_at rnd tps n rows = Some (AtTick T) /\
                  forall x, In x (last delivered []) -> In x (nth T good []))
  end.
Proof.
  intros rnd tps n rows e H.
  exact (file_malformed_key (next_batch_tick rnd (tick_length rnd tps)) n rows e H _ eq_refl).
Qed.

(* D3. under the hypotheses of C13 the call that raises is the tick of the last batch before the lost one *)
Theorem file_malformed_tick_any_rounding : forall (rnd : Q -> Q),
  (forall x y, (x <= y)%Q -> (rnd x <= rnd y)%Q) ->
  (forall x, (Qabs (rnd x - x) <= Qabs x * (1 # 9007199254740992))%Q) ->
  forall tps, (0 < tps)%Z -> forall n rows e ps,
  read_rows_c rows = inl e -> read_rows_c (good_prefix rows) = inr ps -> StronglySorted Qle (map pm_arr ps) ->
  forall T, file_refusal_at rnd tps n rows = Some (AtTick T) ->
    T < n /\ forall x, In x (last (fst (lazy_batches rows)) []) -> file_tick rnd tps x = Z.of_nat T.
Proof.
  intros rnd H1 H2 tps Htps n rows e ps H Hp Hs T HT.
  pose proof (file_malformed_replay rnd tps n rows e H) as HM. cbv zeta in HM.
  destruct (fst (lazy_batches rows)) as [|b0 bs0].
  - destruct HM as [_ HM]. rewrite HM in HT. discriminate HT.
  - destruct HM as (T' & M1 & M2 & M3 & M4).
    destruct (Nat.eq_dec T' n) as [E|E].
    + destruct (M3 E) as [_ M5]. rewrite M5 in HT. discriminate HT.
    + destruct (M4 ltac:(lia)) as (_ & M5 & M6). rewrite M5 in HT. inversion HT; subst T'.
      split; [lia|]. intros x Hx. apply M6 in Hx.
      rewrite (file_float_tick_any_rounding rnd H1 H2 tps Htps n _ ps Hp Hs T ltac:(lia)) in Hx.
      apply filter_In in Hx. destruct Hx as [_ Hx]. apply Z.eqb_eq in Hx. exact Hx.
Qed.

Theorem file_malformed_tick : forall tps n rows e ps, (0 < tps)%Z ->
  read_rows_c rows = inl e -> read_rows_c (good_prefix rows) = inr ps -> StronglySorted Qle (map pm_arr ps) ->
  forall T, file_refusal_at rnd64 tps n rows = Some (AtTick T) ->
    T < n /\ forall x, In x (last (fst (lazy_batches rows)) []) -> file_tick rnd64 tps x = Z.of_nat T.
Proof.
  intros tps n rows e ps Htps.
  exact (file_malformed_tick_any_rounding rnd64 rnd64_mono rnd64_err tps Htps n rows e ps).
Qed.

(* D4. what never reaches the simulator: the batch lost inside batch_by_arrival and the last batch WorkloadTrace
   received (it is handed out in the very call that raises) *)
Lemma concat_single (A : Type) (x : list A) : concat [x] = x.
Proof. cbn [concat]. apply app_nil_r. Qed.

Lemma file_malformed_decomp key n rows e : read_rows_c rows = inl e ->
  exists ps mid, read_rows_c (good_prefix rows) = inr ps /\
    let l := file_pipelines (good_prefix rows) ps in
    let delivered := fst (lazy_batches rows) in
    l = concat (fst (wt_replay (key_readys key 0 n) rows)) ++ mid ++ last delivered [] ++ last (arrival_groups l) [] /\
    l = concat (removelast delivered) ++ last delivered [] ++ last (arrival_groups l) [].
Proof.
  intros H.
  destruct (file_malformed_prefix rows e H) as (ps & rest & bad & P1 & P2 & _ & _ & _ & P5 & P6).
  pose proof (wt_replay_frun key n rows) as HR. rewrite P6 in *. cbn [fst snd] in *.
  set (l := file_pipelines (good_prefix rows) ps) in *.
  destruct (removelast (arrival_groups l)) as [|b0 bs0] eqn:Ebs.
  - exists ps, []. split; [exact P2|]. cbv zeta. fold l. rewrite HR. cbn [fst concat removelast last app].
    destruct (arrival_groups l) as [|g gs] eqn:Eg.
    + rewrite <- (arrival_groups_concat l), Eg. split; reflexivity.
    + assert (Hg : g :: gs <> []) by discriminate.
      pose proof (app_removelast_last [] Hg) as Hsplit. rewrite Ebs in Hsplit. cbn [app] in Hsplit.
      assert (Hl : l = last (g :: gs) []).
      { rewrite <- (arrival_groups_concat l), Eg. rewrite Hsplit at 1. apply concat_single. }
      split; exact Hl.
  - set (bs := b0 :: bs0) in *. assert (Hbs : bs <> []) by discriminate.
    assert (Hg : arrival_groups l <> []) by (intro Z; rewrite Z in Ebs; discriminate Ebs).
    pose proof (app_removelast_last [] Hg) as Hsplit. rewrite Ebs in Hsplit. fold bs in Hsplit.
    set (lost := last (arrival_groups l) []) in *.
    assert (Hl : l = concat bs ++ lost).
    { rewrite <- (arrival_groups_concat l) at 1. rewrite Hsplit, concat_app, concat_single. reflexivity. }
    rewrite (frun_some key e n 0 bs Hbs) in HR. change (Z.of_nat 0) with 0%Z in HR.
    set (T := exhaust arr_of key 0 bs n) in *.
    pose proof (exhaust_le _ arr_of key n 0%Z bs) as HT. fold T in HT.
    rewrite (greplay_firstn _ arr_of key n 0%Z bs T HT) in HR.
    destruct (greplay_batches _ arr_of key T 0%Z bs) as (m & _ & M2 & M3).
    pose proof (exhaust_rest _ arr_of key n 0%Z bs T Hbs (Nat.le_refl _)) as Hne. rewrite M3 in Hne.
    exists ps, (concat (removelast (skipn m bs))). split; [exact P2|]. cbv zeta. fold l. rewrite HR. cbn [fst]. rewrite M2. split.
    + rewrite Hl at 1. rewrite <- (firstn_skipn m bs) at 1. rewrite concat_app.
      rewrite (app_removelast_last [] Hne) at 1. rewrite concat_app, concat_single, (last_skipn _ [] bs m Hne).
      rewrite <- !app_assoc. reflexivity.
    + rewrite Hl at 1. rewrite (app_removelast_last [] Hbs) at 1. rewrite concat_app, concat_single, <- app_assoc.
      reflexivity.
Qed.

(* (c) *)
Theorem file_malformed_never_delivered : forall (rnd : Q -> Q) tps n rows e, read_rows_c rows = inl e ->
  exists ps mid, read_rows_c (good_prefix rows) = inr ps /\
    let l := file_pipelines (good_prefix rows) ps in
    l = concat (fst (file_replay_with rnd tps n rows)) ++ mid ++
        last (fst (lazy_batches rows)) [] ++ last (arrival_groups l) [].
Proof.
  intros rnd tps n rows e H.
  destruct (file_malformed_decomp (next_batch_tick rnd (tick_length rnd tps)) n rows e H) as (ps & mid & D1 & D2 & _).
  exists ps, mid. split; [exact D1 | exact D2].
Qed.

(* never silently: as soon as the well-formed prefix alone would hand out more than the batches before the last one
   WorkloadTrace received, the replay of the file has raised *)
Theorem file_malformed_never_silent : forall (rnd : Q -> Q) tps n rows e, read_rows_c rows = inl e ->
  fst (lazy_batches rows) <> [] ->
  length (concat (removelast (fst (lazy_batches rows)))) <
    length (concat (fst (file_replay_with rnd tps n (good_prefix rows)))) ->
  snd (file_replay_with rnd tps n rows) = Some e.
Proof.
  intros rnd tps n rows e H Hd Hlen.
  pose proof (file_malformed_replay rnd tps n rows e H) as HM. cbv zeta in HM.
  destruct (file_malformed_decomp (next_batch_tick rnd (tick_length rnd tps)) n rows e H) as (ps & mid & D1 & D2 & D3).
  cbv zeta in D2, D3.
  destruct (fst (lazy_batches rows)) as [|b0 bs0] eqn:Ed; [congruence|].
  destruct HM as (T & M1 & M2 & M3 & M4).
  destruct (Nat.eq_dec T n) as [E|E]; [|apply M4; lia]. exfalso.
  destruct (file_once_in_file_order rnd tps n _ ps D1) as [m [_ [_ [_ HL]]]].
  rewrite E, firstn_all2 in M2 by lia.
  change (wt_replay (key_readys (next_batch_tick rnd (tick_length rnd tps)) 0 n) rows)
    with (file_replay_with rnd tps n rows) in D2.
  rewrite M2 in D2. rewrite D3 in D2 at 1. apply (f_equal (@length arrival)) in D2.
  rewrite !app_length in D2. lia.
Qed.

(* ------------------------------------------------------------------------------------------ *)
(* examples *)
Module FileExamples.
Import CsvFacts.Examples CsvLazyFacts.LazyExamples.

(* one-operator pipelines arriving at 0, 0.07 (the double), 0.07, 0.3 (the double), 1; at 100 ticks/s *)
Definition a007 : Q := rnd64 (7 # 100).
Definition a03 : Q := rnd64 (3 # 10).
Definition six : list row := write_rows [at_ 0%Q; at_ a007; at_ a007; at_ a03; at_ 1%Q; at_ 1%Q].
(* the LAST pipeline (arrival 1) has an unknown scaling law: the batch of arrival 1 is lost, the batch of arrival
   0.3 is the last one WorkloadTrace receives *)
Definition six_bad : list row := upd 5 (set_law 7) six.
(* the FIRST pipeline is malformed *)
Definition six_bad0 : list row := upd 0 (set_law 7) six.

Definition good32 := file_replay 100 32 six.
Definition bad32 := file_replay 100 32 six_bad.
Definition bad20 := file_replay 100 20 six_bad.

(* 0.07 is delivered in tick 8 (F7, as in C13_late_by_one_refuted), both pipelines of that arrival in file order;
   0.3 in tick 30; the run of 32 ticks ends before tick 100 *)
Lemma ex_good :
  good32 = (repeat [] 0 ++ [[(0, at_ 0%Q)]] ++ repeat [] 7 ++ [[(1, at_ a007); (2, at_ a007)]] ++ repeat [] 21 ++
            [[(3, at_ a03)]] ++ repeat [] 1, None) /\
  map (select (file_pipelines six [at_ 0%Q; at_ a007; at_ a007; at_ a03; at_ 1%Q; at_ 1%Q]))
      (replay rnd64 100 [0%Q; a007; a007; a03; 1%Q; 1%Q] 32) = fst good32 /\
  file_refusal_at rnd64 100 32 six = None.
Proof. vm_compute. repeat split. Qed.

(* the malformed file: the calls 0..29 return what the good file returns, call 30 - the tick of arrival 0.3 - raises,
   pipeline 3 is never returned; a run of 20 calls ends before the look-ahead reaches the bad batch: no exception *)
Lemma ex_bad :
  read_rows_c six_bad = inl RUnknownLaw /\
  good_prefix six_bad = firstn 5 six /\
  fst (lazy_batches six_bad) = [[(0, at_ 0%Q)]; [(1, at_ a007); (2, at_ a007)]; [(3, at_ a03)]] /\
  bad32 = (firstn 30 (fst good32), Some RUnknownLaw) /\
  file_refusal_at rnd64 100 32 six_bad = Some (AtTick 30) /\
  file_tick rnd64 100 (3, at_ a03) = 30%Z /\
  bad20 = (firstn 20 (fst good32), None) /\ file_refusal_at rnd64 100 20 six_bad = None.
Proof. vm_compute. repeat split. Qed.

Lemma ex_bad0 :
  file_replay 100 32 six_bad0 = ([], Some RUnknownLaw) /\
  file_refusal_at rnd64 100 32 six_bad0 = Some AtConstruction /\ good_prefix six_bad0 = [].
Proof. vm_compute. repeat split. Qed.

(* the hypotheses of the file theorems are satisfiable on [six] *)
Lemma ex_hyps :
  read_rows_c six = inr [at_ 0%Q; at_ a007; at_ a007; at_ a03; at_ 1%Q; at_ 1%Q] /\
  StronglySorted Qle (map pm_arr [at_ 0%Q; at_ a007; at_ a007; at_ a03; at_ 1%Q; at_ 1%Q]).
Proof.
  split; [vm_compute; reflexivity|].
  repeat (constructor; [|repeat (constructor; [vm_compute; discriminate|]); try constructor]). constructor.
Qed.
End FileExamples.

(* ------------------------------------------------------------------------------------------ *)
(* the link to C14: [file_replay_with] is an instance of the look-ahead machine [wt_replay], so every C14_trace_
   theorem (stated for arbitrary readiness predicates) holds of it *)
Theorem file_replay_is_wt_replay : forall (rnd : Q -> Q) tps n rows,
  file_replay_with rnd tps n rows = wt_replay (file_readys rnd tps n) rows /\ length (file_readys rnd tps n) = n.
Proof. intros. split; [reflexivity|]. unfold file_readys, key_readys. rewrite map_length, seq_length. reflexivity. Qed.

Theorem file_lookahead_prefix : forall (rnd : Q -> Q) tps n rows ticks oe',
  file_replay_with rnd tps n rows = (ticks, oe') ->
  exists m, concat ticks = concat (firstn m (fst (lazy_batches rows))) /\
            forall e, oe' = Some e ->
              snd (lazy_batches rows) = Some e /\ m <= pred (length (fst (lazy_batches rows))).
Proof. intros rnd tps n rows ticks oe' H. exact (wt_replay_prefix rows _ ticks oe' H). Qed.
