(* C17 at run level: the naive scheduler (and the starter template, which shares [naive_step]) driven by
   the simulator loop.

   Proofs/NaiveFacts.v describes one scheduling round. Here the loop scheduler + executor is closed
   ([sim_tick C ANaive] / [sim_tick C AStarter]) and invariants are proved for every simulator state
   reachable from [init_sim] ([sim_reach]), for every workload, pool count, pool size and tick rate:

     1. no retries: an operator that has FAILED stays FAILED for the rest of the run and no later tick
        creates a container for its pipeline; every operator ever put into a container was PENDING;
        a container that ended with an error left a FAILED operator behind;
     2. whole pool: every container receives everything its pool has free, which is the whole pool; a pool
        holds at most one live container, and then nothing of it is free;
     3. nothing is lost: every pipeline that has arrived and is neither complete nor failed is in the
        waiting queue, exactly once, and the queue holds arrived pipelines only;
     4. FIFO: pipelines receive their first container in arrival order.

   Sections take [static_ok] and [ops_known] as hypotheses; both hold for [mk_static] of well-formed DAGs. *)
From Coq Require Import ZArith QArith List Bool Arith Lia Lqa Permutation.
Import ListNotations.
From Eudoxia Require Import Num.Rnd64 Model.Types Model.Dag Model.Lifecycle Model.Container Model.Pool
  Model.Executor Model.Sched Model.Simulator
  Proofs.ListFacts Proofs.LifecycleFacts Proofs.ConserveFacts Proofs.ExecLifeFacts
  Proofs.NaiveFacts Proofs.SafetyFacts Proofs.ClosedLoopFacts Proofs.PriorityPoolRunFacts
  Proofs.PriorityRunFacts Proofs.SimReachFacts.
Close Scope Q_scope.
Close Scope Z_scope.

(* ------------------------------------------------------------------------------------------ *)
(* 0. the two algorithms that run [naive_step]; one tick of the closed loop, opened              *)
(* ------------------------------------------------------------------------------------------ *)

Definition nalgo (starter : bool) : algo := if starter then AStarter else ANaive.

Lemma sched_step_nalgo C starter s e results newp :
  sched_step C (nalgo starter) s e results newp = naive_step C starter s e results newp.
Proof. destruct starter; reflexivity. Qed.

Definition wof (s : sim) : world := e_world (sm_exec s).
Definition arrived (s : sim) : list nat := map fst (sm_arrival s).

Lemma naive_tick_anatomy C starter t s newp s' lg :
  sim_tick C (nalgo starter) t s newp = Ok (s', lg) ->
  exists w' asgs,
    naive_step C starter (sm_sched s) (sm_exec s) (sm_results s) newp = Ok (sm_sched s', w', [], asgs) /\
    pools_tick C w' (e_next (sm_exec s)) (e_pools (sm_exec s)) [] asgs
      = Ok (wof s', e_next (sm_exec s'), e_pools (sm_exec s'), sm_results s') /\
    record_arrivals t newp (sm_arrival s) = Ok (sm_arrival s') /\
    arrived s' = arrived s ++ newp /\
    tl_new lg = newp /\ tl_susp lg = [] /\ tl_asgs lg = asgs /\ tl_results lg = sm_results s'.
Proof.
  intros H. apply PriorityPoolRunFacts.sim_tick_ok_inv in H.
  destruct H as (arr & ss' & w' & susps & asgs & e2 & res & Ra & Sch & Ex & E1 & E2 & E3 & E4 & E5 & E6 & E7 & E8).
  rewrite sched_step_nalgo in Sch.
  pose proof (naive_no_suspend _ _ _ _ _ _ _ _ _ _ Sch) as Su. rewrite Su in *. clear Su.
  apply exec_tick_ok_inv in Ex. destruct Ex as (_ & _ & Ex). cbn [e_world e_next e_pools] in Ex.
  exists w', asgs. unfold wof, arrived. rewrite E1, E2, E3, E4, E8.
  split; [exact Sch|]. split; [exact Ex|]. split; [exact Ra|].
  split; [apply record_arrivals_fst in Ra; exact Ra|]. auto.
Qed.

(* the executor's part of a tick only starts, completes and fails operators when nothing is suspending *)
Lemma pools_tick_xsteps_pp C asgs ps w next w' next' ps' res :
  pools_tick C w next ps [] asgs = Ok (w', next', ps', res) ->
  PriorityPoolRunFacts.xsteps (cf_static C) w w'.
Proof. apply pools_tick_xsteps. Qed.

(* ------------------------------------------------------------------------------------------ *)
(* 1. the histogram invariant along a run; no retries                                            *)
(* ------------------------------------------------------------------------------------------ *)

Lemma xsteps_source_in_range S w op new w' :
  new <> Assigned -> transition S w op new = Ok w' -> op < length (w_st w).
Proof.
  intros N T. apply transition_ok in T. destruct T as (V & _).
  destruct (Nat.lt_ge_cases op (length (w_st w))) as [L|L]; [exact L|exfalso].
  unfold st_of in V. rewrite nth_overflow in V by exact L.
  apply N. eapply valid_assignable_source; [|exact V]. reflexivity.
Qed.

Lemma xsteps_hist_pp S w w' :
  static_ok S -> ops_known S ->
  PriorityPoolRunFacts.xsteps S w w' -> hist_ok S w -> hist_ok S w'.
Proof.
  intros SK OK X. induction X as [w|w op new w' w'' N T _ IH]; intros H; [exact H|].
  apply IH. eapply transition_hist; [exact SK|exact H| |exact T].
  apply OK. destruct H as (L & _). rewrite <- L. eapply xsteps_source_in_range; eauto.
Qed.

Section NoRetry.
Variable C : cfg.
Variable starter : bool.
Local Notation St := (cf_static C).
Local Notation alg := (nalgo starter).
Hypothesis SK : static_ok St.
Hypothesis OK : ops_known St.

Lemma naive_tick_hist t s newp s' lg :
  sim_tick C alg t s newp = Ok (s', lg) -> hist_ok St (wof s) -> hist_ok St (wof s').
Proof.
  intros T H. destruct (naive_tick_anatomy _ _ _ _ _ _ _ T) as (w' & asgs & Sch & Ex & _).
  destruct (naive_never_retries _ _ _ _ _ _ _ _ _ _ SK H Sch) as (H' & _).
  eapply xsteps_hist_pp; [exact SK|exact OK| |exact H']. eapply pools_tick_xsteps_pp; eauto.
Qed.

(* one tick: a FAILED operator stays FAILED and its pipeline gets nothing; whatever is put into a
   container was PENDING and belongs to a pipeline without a FAILED operator *)
Lemma naive_tick_no_retry t s newp s' lg :
  sim_tick C alg t s newp = Ok (s', lg) -> hist_ok St (wof s) ->
  (forall k o, In o (pd_order (pipe_of St k)) -> st_of (wof s) o = Failed ->
     st_of (wof s') o = Failed /\
     forall a o', In a (tl_asgs lg) -> In o' (a_ops a) -> op_pipe St o' <> k) /\
  (forall a o, In a (tl_asgs lg) -> In o (a_ops a) ->
     st_of (wof s) o = Pending /\
     forall o', In o' (pd_order (pipe_of St (op_pipe St o))) -> st_of (wof s) o' <> Failed).
Proof.
  intros T H. destruct (naive_tick_anatomy _ _ _ _ _ _ _ T) as (w' & asgs & Sch & Ex & _ & _ & _ & _ & Ea & _).
  destruct (naive_never_retries _ _ _ _ _ _ _ _ _ _ SK H Sch) as (_ & P & F).
  rewrite Ea. split; [|exact P].
  intros k o Io Fo. destruct (F k o Io Fo) as [F1 F2]. split; [|exact F2].
  eapply xsteps_failed; [|exact F1]. eapply pools_tick_xsteps_pp; eauto.
Qed.

Lemma naive_reach_hist_from t0 s0 t s :
  sim_reach C alg t0 s0 t s -> hist_ok St (wof s0) -> hist_ok St (wof s).
Proof.
  intros R. apply (sim_reach_inv C alg (fun s => hist_ok St (wof s))) with (2 := R).
  intros t1 s1 newp s' lg P T. eapply naive_tick_hist; eauto.
Qed.

Theorem naive_reach_hist np cpu ram t s :
  sim_reach C alg 0%Z (init_sim C np cpu ram) t s -> hist_ok St (wof s).
Proof. intros R. eapply naive_reach_hist_from; [exact R|]. apply hist_ok_init. Qed.

Lemma naive_reach_failed_stays t0 s0 t s o k :
  sim_reach C alg t0 s0 t s -> hist_ok St (wof s0) ->
  In o (pd_order (pipe_of St k)) -> st_of (wof s0) o = Failed -> st_of (wof s) o = Failed.
Proof.
  intros R H0 Io. induction R as [t s|t0 s0 t s newp s' lg R IH T]; intros F; [exact F|].
  pose proof (naive_reach_hist_from _ _ _ _ R H0) as H.
  destruct (naive_tick_no_retry _ _ _ _ _ T H) as [X _]. apply (X k o Io). apply IH; assumption.
Qed.

(* run level: after a failure, for the rest of the run *)
Theorem naive_run_never_after_failure np cpu ram t s t' s' k o :
  sim_reach C alg 0%Z (init_sim C np cpu ram) t s -> sim_reach C alg t s t' s' ->
  In o (pd_order (pipe_of St k)) -> st_of (wof s) o = Failed ->
  st_of (wof s') o = Failed /\
  forall newp s'' lg, sim_tick C alg t' s' newp = Ok (s'', lg) ->
    forall a o', In a (tl_asgs lg) -> In o' (a_ops a) -> op_pipe St o' <> k.
Proof.
  intros R0 R Io F. pose proof (naive_reach_hist _ _ _ _ _ R0) as H.
  pose proof (naive_reach_failed_stays _ _ _ _ _ _ R H Io F) as F'. split; [exact F'|].
  intros newp s'' lg T. pose proof (naive_reach_hist_from _ _ _ _ R H) as H'.
  destruct (naive_tick_no_retry _ _ _ _ _ T H') as [X _]. apply (X k o Io F').
Qed.

(* run level: no operator is ever assigned twice, and nothing is assigned next to a failure *)
Theorem naive_run_assigns_pending np cpu ram t s newp s' lg :
  sim_reach C alg 0%Z (init_sim C np cpu ram) t s -> sim_tick C alg t s newp = Ok (s', lg) ->
  forall a o, In a (tl_asgs lg) -> In o (a_ops a) ->
    st_of (wof s) o = Pending /\
    forall o', In o' (pd_order (pipe_of St (op_pipe St o))) -> st_of (wof s) o' <> Failed.
Proof.
  intros R T. pose proof (naive_reach_hist _ _ _ _ _ R) as H.
  destruct (naive_tick_no_retry _ _ _ _ _ T H) as [_ X]. exact X.
Qed.

End NoRetry.

(* ------------------------------------------------------------------------------------------ *)
(* 2. whole pool: one live container per pool, holding all of it                                 *)
(* ------------------------------------------------------------------------------------------ *)

(* a pool between two ticks of a naive run: nothing suspending or suspended, conservation, and either no
   container (then, by conservation, everything is free) or exactly one and nothing free *)
Definition wp_pool (p : pool) : Prop :=
  p_suspending p = [] /\ p_suspended p = [] /\ Forall cact (p_active p) /\
  cpu_conserved p /\ ram_conserved p /\
  (p_active p = [] \/ exists c, p_active p = [c] /\ p_avail_cpu p = 0%Z /\ (p_avail_ram p == 0)%Q).

Lemma keys_length l : length (keys l) = length l.
Proof. unfold keys. apply map_length. Qed.

Lemma new_keys_length : forall asgs next, length (new_keys next asgs) = length asgs.
Proof. induction asgs as [|a t IH]; intros next; cbn [new_keys length]; [reflexivity|]. rewrite IH. reflexivity. Qed.

Lemma wp_pool_tick C w next p asgs w' next' p' res :
  pool_tick C w next p [] asgs = Ok (w', next', p', res) ->
  wp_pool p -> Forall args_ok asgs ->
  length asgs <= 1 -> (forall a, In a asgs -> whole_pool p a) ->
  wp_pool p' /\ Forall (rgood w') res.
Proof.
  intros H (Hs & Hd & Fa & Cc & Cr & Sh) Aa La Wa.
  destruct (pool_tick_good _ _ _ _ _ _ _ _ _ H Hs Hd Fa Aa) as [(_ & _ & _ & Hs' & Hd' & Fa' & _) Rg].
  split; [|exact Rg].
  destruct (pool_tick_conserve_nosusp _ _ _ _ _ _ _ _ _ H Cc Cr) as (Cc' & Cr' & _).
  destruct (pool_tick_account _ _ _ _ _ _ _ _ _ _ H)
    as (fin & done & _ & Ed & Pm & _ & _ & _ & _ & _ & _ & _ & Ec & Er & _).
  rewrite Hd, Hd' in Ed. cbn [app] in Ed. subst done.
  specialize (Pm (or_introl eq_refl)). apply Permutation_length in Pm.
  unfold live in Pm. rewrite Hs, Hs', !app_nil_r in Pm.
  rewrite app_length, !keys_length, app_length, new_keys_length in Pm.
  cbn [map sumZ sumQ] in Ec, Er.
  assert (Tot : length (p_active p) + length asgs <= 1).
  { destruct Sh as [E0|(c & E0 & Z0 & Q0)]; rewrite E0; cbn [length]; [lia|].
    destruct asgs as [|a t2]; [cbn [length]; lia|].
    destruct (Wa a (or_introl eq_refl)) as (_ & _ & _ & Pc & _). lia. }
  split; [exact Hs'|]. split; [exact Hd'|]. split; [exact Fa'|]. split; [exact Cc'|]. split; [exact Cr'|].
  destruct (p_active p') as [|c' [|c'' t']]; [left; reflexivity| |cbn [length] in Pm; lia].
  right. exists c'. split; [reflexivity|].
  cbn [length] in Pm. destruct fin as [|f0 ft]; [|cbn [length] in Pm; lia].
  cbn [map sumZ sumQ] in Ec, Er.
  destruct Sh as [E0|(c & E0 & Z0 & Q0)]; rewrite E0 in Pm; cbn [length] in Pm.
  - destruct asgs as [|a [|a2 t2]]; [cbn [length] in Pm; lia| |cbn [length] in La; lia].
    destruct (Wa a (or_introl eq_refl)) as (_ & Wc & Wr & _).
    cbn [map sumZ sumQ] in Ec, Er. rewrite Wc in Ec. rewrite Wr in Er. split; [lia|]. rewrite Er. ring.
  - destruct asgs as [|a t2].
    + cbn [map sumZ sumQ] in Ec, Er. split; [lia|]. rewrite Er, Q0. ring.
    + destruct (Wa a (or_introl eq_refl)) as (_ & _ & _ & Pc & _). lia.
Qed.

(* the commands of a naive round, pool by pool: at most one, asking for all that is free *)
Lemma NoDup_map_inj_in {A B} (f : A -> B) (l : list A) x y :
  NoDup (map f l) -> In x l -> In y l -> f x = f y -> x = y.
Proof.
  induction l as [|h t IH]; intros N Hx Hy E; [destruct Hx|].
  cbn [map] in N. inversion N as [|? ? Nh Nt]; subst.
  destruct Hx as [->|Hx], Hy as [->|Hy].
  - reflexivity.
  - exfalso. apply Nh. rewrite E. apply in_map. exact Hy.
  - exfalso. apply Nh. rewrite <- E. apply in_map. exact Hx.
  - apply IH; assumption.
Qed.

Lemma Forall2_In_r {A B} (R : A -> B -> Prop) l1 l2 y :
  Forall2 R l1 l2 -> In y l2 -> exists x, In x l1 /\ R x y.
Proof.
  induction 1 as [|a b t1 t2 Rab _ IH]; intros Hy; [destruct Hy|].
  destruct Hy as [<-|Hy]; [exists a; split; [left; reflexivity|exact Rab]|].
  destruct (IH Hy) as (x & Hx & Rx). exists x. split; [right; exact Hx|exact Rx].
Qed.

Lemma naive_round_commands C starter s e results newp s' w' susps asgs :
  naive_step C starter s e results newp = Ok (s', w', susps, asgs) ->
  NoDup (map p_id (e_pools e)) ->
  Forall args_ok asgs /\
  (forall a, In a asgs -> exists p, In p (e_pools e) /\ whole_pool p a) /\
  (forall p, In p (e_pools e) ->
     length (mine_a p asgs) <= 1 /\ forall a, In a (mine_a p asgs) -> whole_pool p a).
Proof.
  intros H N.
  destruct (naive_one_per_pool_all_free _ _ _ _ _ _ _ _ _ _ H) as (ps & SL & F2).
  assert (Ex : forall a, In a asgs -> exists p, In p (e_pools e) /\ whole_pool p a).
  { intros a Ha. destruct (Forall2_In_r _ _ _ _ F2 Ha) as (p & Hp & W). exists p. split; [|exact W].
    eapply sublist_In; eauto. }
  split; [|split; [exact Ex|]].
  - apply Forall_forall. intros a Ha.
    destruct (naive_ops _ _ _ _ _ _ _ _ _ _ H a Ha) as (k & wk & _ & _ & _ & _ & _ & _ & _ & _ & _ & w1 & M & _).
    apply mk_assignment_transition_all in M. apply M.
  - intros p Hp. split; [exact (naive_count_per_pool _ _ _ _ _ _ _ _ _ _ p H N)|].
    intros a Ha. unfold mine_a in Ha. apply filter_In in Ha. destruct Ha as [Ha Eb].
    destruct (Ex a Ha) as (q & Hq & W). apply Z.eqb_eq in Eb.
    assert (q = p); [|subst q; exact W].
    apply (NoDup_map_inj_in p_id (e_pools e)); auto. destruct W as (E & _). lia.
Qed.

Lemma wp_pools_tick C asgs : forall ps w next w' next' ps' res,
  pools_tick C w next ps [] asgs = Ok (w', next', ps', res) ->
  Forall wp_pool ps -> Forall args_ok asgs ->
  (forall p, In p ps -> length (mine_a p asgs) <= 1 /\ forall a, In a (mine_a p asgs) -> whole_pool p a) ->
  Forall wp_pool ps' /\ Forall (rgood w') res.
Proof.
  induction ps as [|p t IH]; intros w next w' next' ps' res H F A M; cbn [pools_tick] in H.
  - inversion H; subst. split; constructor.
  - cbv zeta in H. cbn [filter] in H. inversion F as [|? ? Fp Ft]; subst.
    apply bind_ok_inv in H. destruct H as [[[[w1 next1] p1] res1] [E1 H]].
    apply bind_ok_inv in H. destruct H as [[[[w2 next2] t2] res2] [E2 H]]. inversion H; subst.
    destruct (M p (or_introl eq_refl)) as [Ml Mw].
    assert (Am : Forall args_ok (mine_a p asgs)) by (apply Forall_filter_keep; exact A).
    destruct (wp_pool_tick _ _ _ _ _ _ _ _ _ E1 Fp Am Ml Mw) as [P1 R1].
    destruct (IH _ _ _ _ _ _ E2 Ft A (fun q Hq => M q (or_intror Hq))) as [P2 R2].
    split; [constructor; assumption|]. apply Forall_app. split; [|exact R2].
    eapply Forall_impl; [|exact R1]. intros r. apply (rgood_stable (cf_static C)).
    eapply pools_tick_xsteps; eauto.
Qed.

Section WholePool.
Variable C : cfg.
Variable starter : bool.
Local Notation alg := (nalgo starter).

Definition wp_inv (np : nat) (cpu : Z) (ram : Q) (s : sim) : Prop :=
  map p_id (e_pools (sm_exec s)) = seq 0 np /\
  Forall (fun p => p_max_cpu p = cpu /\ p_max_ram p = ram) (e_pools (sm_exec s)) /\
  Forall wp_pool (e_pools (sm_exec s)) /\
  Forall (rgood (wof s)) (sm_results s).

Lemma wp_inv_init np cpu ram : wp_inv np cpu ram (init_sim C np cpu ram).
Proof.
  unfold wp_inv, init_sim, init_estate. cbn [sm_exec sm_results e_pools].
  split; [rewrite map_map; cbn [new_pool p_id]; apply map_id|].
  split; [apply Forall_forall; intros p Hp; apply in_map_iff in Hp; destruct Hp as (i & <- & _); split; reflexivity|].
  split; [|constructor].
  apply Forall_forall. intros p Hp. apply in_map_iff in Hp. destruct Hp as (i & <- & _).
  unfold wp_pool, new_pool, cpu_conserved, ram_conserved, live.
  cbn [p_suspending p_suspended p_active p_avail_cpu p_avail_ram p_max_cpu p_max_ram app map sumZ sumQ].
  split; [reflexivity|]. split; [reflexivity|]. split; [constructor|]. split; [lia|]. split; [ring|].
  left. reflexivity.
Qed.

(* one tick: the invariant survives; every command of the tick goes to a pool without a container and asks
   for all of that pool *)
Lemma wp_tick np cpu ram t s newp s' lg :
  wp_inv np cpu ram s -> sim_tick C alg t s newp = Ok (s', lg) ->
  wp_inv np cpu ram s' /\
  NoDup (map a_pool (tl_asgs lg)) /\
  forall a, In a (tl_asgs lg) ->
    exists p, In p (e_pools (sm_exec s)) /\ a_pool a = Z.of_nat (p_id p) /\ p_active p = [] /\
              a_cpu a = p_avail_cpu p /\ a_ram a = p_avail_ram p /\
              p_avail_cpu p = cpu /\ (p_avail_ram p == ram)%Q /\ (0 < cpu)%Z /\ (0 < ram)%Q.
Proof.
  intros (Ids & Mx & Wp & Rg) T.
  destruct (naive_tick_anatomy _ _ _ _ _ _ _ T) as (w' & asgs & Sch & Ex & _ & _ & _ & _ & Ea & _).
  assert (N : NoDup (map p_id (e_pools (sm_exec s)))) by (rewrite Ids; apply seq_NoDup).
  destruct (naive_round_commands _ _ _ _ _ _ _ _ _ _ Sch N) as (Aa & Ew & Mn).
  destruct (wp_pools_tick _ _ _ _ _ _ _ _ _ Ex Wp Aa Mn) as [Wp' Rg'].
  destruct (pools_tick_static _ _ _ _ _ _ _ _ _ _ Ex) as [Ids' Mx'].
  rewrite Ea. split; [|split].
  - unfold wp_inv. rewrite Ids', Ids. split; [reflexivity|]. split; [apply Mx'; exact Mx|]. split; assumption.
  - eapply naive_at_most_one_per_pool; eauto.
  - intros a Ha. destruct (Ew a Ha) as (p & Hp & (W1 & W2 & W3 & W4 & W5)).
    exists p. rewrite Forall_forall in Wp, Mx. destruct (Wp p Hp) as (Hs & _ & _ & Cc & Cr & Sh).
    destruct (Mx p Hp) as [Mc Mr].
    assert (E0 : p_active p = []).
    { destruct Sh as [E0|(c & _ & Z0 & _)]; [exact E0|lia]. }
    unfold cpu_conserved, ram_conserved, live in Cc, Cr. rewrite E0, Hs in Cc, Cr.
    cbn [app map sumZ sumQ] in Cc, Cr. rewrite Mc in Cc. rewrite Mr in Cr.
    assert (Ec : p_avail_cpu p = cpu) by lia.
    assert (Er : (p_avail_ram p == ram)%Q) by (rewrite <- Cr; ring).
    repeat split; auto; try lia. rewrite <- Er. exact W5.
Qed.

Theorem wp_reach np cpu ram t s :
  sim_reach C alg 0%Z (init_sim C np cpu ram) t s -> wp_inv np cpu ram s.
Proof.
  intros R. apply (sim_reach_inv C alg (wp_inv np cpu ram)) with (2 := R); [|apply wp_inv_init].
  intros t1 s1 newp s' lg P T. eapply wp_tick; eauto.
Qed.

(* run level, states: at most one live container per pool; an empty pool is entirely free, an occupied
   pool is entirely held by its container *)
Theorem naive_run_one_container_per_pool np cpu ram t s p :
  sim_reach C alg 0%Z (init_sim C np cpu ram) t s -> In p (e_pools (sm_exec s)) ->
  p_suspending p = [] /\ p_suspended p = [] /\
  ((p_active p = [] /\ p_avail_cpu p = cpu /\ (p_avail_ram p == ram)%Q) \/
   (exists c, p_active p = [c] /\ c_cpu c = cpu /\ (c_ram c == ram)%Q /\
              p_avail_cpu p = 0%Z /\ (p_avail_ram p == 0)%Q)).
Proof.
  intros R Hp. destruct (wp_reach _ _ _ _ _ R) as (_ & Mx & Wp & _).
  rewrite Forall_forall in Wp, Mx. destruct (Wp p Hp) as (Hs & Hd & _ & Cc & Cr & Sh).
  destruct (Mx p Hp) as [Mc Mr]. split; [exact Hs|]. split; [exact Hd|].
  unfold cpu_conserved, ram_conserved, live in Cc, Cr. rewrite Hs, Mc in Cc. rewrite Hs, Mr in Cr.
  destruct Sh as [E0|(c & E0 & Z0 & Q0)]; rewrite E0 in Cc, Cr; cbn [app map sumZ sumQ] in Cc, Cr.
  - left. split; [exact E0|]. split; [lia|]. rewrite <- Cr. ring.
  - right. exists c. split; [exact E0|]. split; [lia|]. split; [|split; assumption].
    rewrite <- Cr, Q0. ring.
Qed.

(* run level, commands: every container of the run is created in a pool that holds no container, with all
   of that pool's CPUs and RAM, at most one per pool and tick *)
Theorem naive_run_whole_pool np cpu ram t s newp s' lg :
  sim_reach C alg 0%Z (init_sim C np cpu ram) t s -> sim_tick C alg t s newp = Ok (s', lg) ->
  tl_susp lg = [] /\
  NoDup (map a_pool (tl_asgs lg)) /\
  forall a, In a (tl_asgs lg) ->
    exists p, In p (e_pools (sm_exec s)) /\ a_pool a = Z.of_nat (p_id p) /\ p_active p = [] /\
              a_cpu a = p_avail_cpu p /\ a_ram a = p_avail_ram p /\
              p_avail_cpu p = cpu /\ (p_avail_ram p == ram)%Q /\ (0 < cpu)%Z /\ (0 < ram)%Q.
Proof.
  intros R T. destruct (wp_tick _ _ _ _ _ _ _ _ (wp_reach _ _ _ _ _ R) T) as (_ & N & X).
  destruct (naive_tick_anatomy _ _ _ _ _ _ _ T) as (w' & asgs & _ & _ & _ & _ & _ & Su & _).
  auto.
Qed.

(* run level, results: a container that ended with an error left a FAILED operator behind *)
Theorem naive_run_failed_container np cpu ram t s r :
  sim_reach C alg 0%Z (init_sim C np cpu ram) t s -> In r (sm_results s) -> r_err r = true ->
  exists o, In o (r_ops r) /\ st_of (wof s) o = Failed.
Proof.
  intros R Hr E. destruct (wp_reach _ _ _ _ _ R) as (_ & _ & _ & Rg).
  rewrite Forall_forall in Rg. destruct (Rg r Hr) as (_ & _ & X). exact (X E).
Qed.

End WholePool.

(* ------------------------------------------------------------------------------------------ *)
(* 3. nothing is lost                                                                           *)
(* ------------------------------------------------------------------------------------------ *)

Lemma filter_length_le' {A} (f : A -> bool) l : length (filter f l) <= length l.
Proof. induction l as [|h t IH]; cbn [filter length]; [lia|]. destruct (f h); cbn [length]; lia. Qed.

Lemma filter_length_full {A} (f : A -> bool) l :
  length (filter f l) = length l -> forall x, In x l -> f x = true.
Proof.
  induction l as [|h t IH]; intros E x Hx; [destruct Hx|].
  cbn [filter length] in E. destruct (f h) eqn:Fh.
  - cbn [length] in E. destruct Hx as [<-|Hx]; [exact Fh|]. apply IH; [lia|exact Hx].
  - pose proof (filter_length_le' f t). lia.
Qed.

Lemma existsb_fst_false (p : nat) (arr : list (nat * Z)) :
  existsb (fun x => Nat.eqb (fst x) p) arr = false -> ~ In p (map fst arr).
Proof.
  intros E Hin. apply in_map_iff in Hin. destruct Hin as (x & <- & Hx).
  assert (existsb (fun y => Nat.eqb (fst y) (fst x)) arr = true); [|congruence].
  apply existsb_exists. exists x. split; [exact Hx|apply Nat.eqb_refl].
Qed.

(* record_arrival refuses a pipeline that has arrived before *)
Lemma record_arrivals_nodup t : forall newp arr arr',
  record_arrivals t newp arr = Ok arr' -> NoDup (map fst arr) -> NoDup (map fst arr').
Proof.
  induction newp as [|p r IH]; intros arr arr' H N; cbn [record_arrivals] in H.
  - inversion H; subst. exact N.
  - destruct (existsb _ arr) eqn:E; [discriminate|]. apply existsb_fst_false in E.
    apply IH in H; [exact H|]. rewrite map_app. cbn [map fst].
    apply NoDup_app_intro; [exact N|constructor; [intros []|constructor]|].
    intros x Hx [<-|[]]. exact (E Hx).
Qed.

Section NoLoss.
Variable C : cfg.
Variable starter : bool.
Local Notation St := (cf_static C).
Local Notation alg := (nalgo starter).
Hypothesis SK : static_ok St.
Hypothesis OK : ops_known St.

Definition all_completed (w : world) (k : nat) : Prop :=
  forall o, In o (pd_order (pipe_of St k)) -> st_of w o = Completed.
Definition some_failed (w : world) (k : nat) : Prop :=
  exists o, In o (pd_order (pipe_of St k)) /\ st_of w o = Failed.
(* the two reasons for which the naive scheduler forgets a pipeline *)
Definition gone (w : world) (k : nat) : Prop := all_completed w k \/ some_failed w k.

Lemma dropped_gone w k : hist_ok St w -> dropped C w k = true -> gone w k.
Proof.
  intros (_ & _ & _ & Cn) D. unfold dropped in D. apply orb_true_iff in D. destruct D as [D|D].
  - left. unfold is_successful in D. apply Z.eqb_eq in D. change (S_of C) with St in D.
    rewrite (Cn k Completed) in D. apply Nat2Z.inj in D. unfold count_st in D.
    intros o Ho. pose proof (filter_length_full _ _ D o Ho) as E. apply ostate_eqb_eq in E. exact E.
  - right. unfold has_failures in D. apply Z.ltb_lt in D. rewrite (Cn k Failed) in D.
    unfold count_st in D.
    destruct (filter (fun o => ostate_eqb (st_of w o) Failed) (pd_order (pipe_of St k))) as [|o t] eqn:E;
      [cbn in D; lia|].
    assert (Ho : In o (filter (fun o => ostate_eqb (st_of w o) Failed) (pd_order (pipe_of St k))))
      by (rewrite E; left; reflexivity).
    apply filter_In in Ho. destruct Ho as [Ho Eo]. apply ostate_eqb_eq in Eo. exists o. auto.
Qed.

Lemma gone_nv_run single w ps q rest rq w' ev k :
  nv_run C single w ps q rest rq w' ev -> hist_ok St w -> gone w k -> gone w' k.
Proof.
  intros R H [G|(o & Io & Fo)].
  - left. intros o Ho. pose proof (nv_run_asteps _ _ _ _ _ _ _ _ _ R) as A.
    destruct (asteps_st _ _ _ o A) as [E|[E _]]; rewrite (G o Ho) in E; [exact E|discriminate].
  - right. exists o. split; [exact Io|].
    destruct (nv_run_hist C single SK _ _ _ _ _ _ _ R H) as (_ & _ & X). apply (X k o Io Fo).
Qed.

Lemma gone_xsteps w w' k : PriorityPoolRunFacts.xsteps St w w' -> gone w k -> gone w' k.
Proof.
  intros X [G|(o & Io & Fo)].
  - left. intros o Ho. eapply xsteps_completed; [exact X|]. apply G. exact Ho.
  - right. exists o. split; [exact Io|]. eapply xsteps_failed; eauto.
Qed.

(* a round: every queued pipeline is still queued afterwards, or complete, or failed *)
Lemma nv_run_no_loss single w ps q rest rq w' ev :
  nv_run C single w ps q rest rq w' ev -> hist_ok St w ->
  forall k, In k q -> In k rest \/ In k rq \/ gone w' k.
Proof.
  induction 1 as [w q|w p ps q rest rq w' ev _ _ IH|w p ps q rest rq w' ev _ _ R IH
                 |w p ps pre k0 q1 w1 rest rq w' ev Po Fi D N M R IH]; intros H k Hk.
  - left. exact Hk.
  - apply IH; assumption.
  - right. destruct (keepb C w k) eqn:Kb.
    + left. apply in_or_app. left. apply filter_In. split; assumption.
    + right. eapply gone_nv_run; [exact R|exact H|]. apply dropped_gone; [exact H|].
      unfold keepb in Kb. apply negb_false_iff in Kb. exact Kb.
  - pose proof (nv_asg_hist _ _ _ _ _ _ SK H M) as H1.
    apply in_app_or in Hk. destruct Hk as [Hk|[<-|Hk]].
    + right. destruct (keepb C w k) eqn:Kb.
      * left. apply in_or_app. left. apply filter_In. split; assumption.
      * right. eapply gone_nv_run; [exact R|exact H1|].
        assert (R1 : nv_run C single w [p] (pre ++ k0 :: q1) q1 (filter (keepb C w) pre ++ [k0]) w1
                       [{| ev_pool := p; ev_pipe := k0; ev_world := w; ev_asg := nv_asg C single w p k0 |}]).
        { eapply nvr_some; eauto. constructor. }
        eapply gone_nv_run; [exact R1|exact H|]. apply dropped_gone; [exact H|].
        unfold keepb in Kb. apply negb_false_iff in Kb. exact Kb.
    + right. left. apply in_or_app. right. left. reflexivity.
    + destruct (IH H1 k Hk) as [X|[X|X]]; [left; exact X| |right; right; exact X].
      right. left. apply in_or_app. right. right. exact X.
Qed.

Lemma naive_round_no_loss s e results newp s' w' susps asgs :
  naive_step C starter s e results newp = Ok (s', w', susps, asgs) -> hist_ok St (e_world e) ->
  (forall k, In k (ss_queue s ++ newp) -> In k (ss_queue s') \/ gone w' k) /\
  (forall k, gone (e_world e) k -> gone w' k).
Proof.
  intros Hst H. apply naive_step_cases in Hst.
  destruct Hst as [(-> & _ & -> & -> & _)|(rest & rq & ev & R & -> & _)].
  - rewrite app_nil_r. split; [intros k Hk; left; exact Hk|auto].
  - cbn [with_queue ss_queue]. split.
    + intros k Hk. destruct (nv_run_no_loss _ _ _ _ _ _ _ _ R H k Hk) as [X|[X|X]];
        [left; apply in_or_app; left; exact X|left; apply in_or_app; right; exact X|right; exact X].
    + intros k G. eapply gone_nv_run; eauto.
Qed.

Definition nl_inv (s : sim) : Prop :=
  hist_ok St (wof s) /\ NoDup (arrived s) /\ NoDup (ss_queue (sm_sched s)) /\
  (forall k, In k (ss_queue (sm_sched s)) -> In k (arrived s)) /\
  (forall k, In k (arrived s) -> In k (ss_queue (sm_sched s)) \/ gone (wof s) k).

Lemma nl_inv_init np cpu ram : nl_inv (init_sim C np cpu ram).
Proof.
  unfold nl_inv, arrived, wof. cbn [init_sim sm_arrival sm_sched sm_exec init_sstate ss_queue map].
  split; [apply hist_ok_init|]. split; [constructor|]. split; [constructor|]. split; intros k [].
Qed.

(* the queue a round starts from: what waited plus what arrives, no pipeline twice *)
Lemma nl_round_queue t s newp s' lg :
  nl_inv s -> sim_tick C alg t s newp = Ok (s', lg) ->
  NoDup (arrived s ++ newp) /\ NoDup (ss_queue (sm_sched s) ++ newp) /\
  (forall k, In k (ss_queue (sm_sched s) ++ newp) -> In k (arrived s ++ newp)).
Proof.
  intros (_ & Na & Nq & Qa & _) T.
  destruct (naive_tick_anatomy _ _ _ _ _ _ _ T) as (w' & asgs & _ & _ & Ra & Ar & _).
  assert (Na' : NoDup (arrived s ++ newp)).
  { rewrite <- Ar. unfold arrived. eapply record_arrivals_nodup; [exact Ra|exact Na]. }
  split; [exact Na'|].
  apply NoDup_app_inv in Na'. destruct Na' as (_ & Nn & Dj). split.
  - apply NoDup_app_intro; [exact Nq|exact Nn|]. intros x Hx. apply Dj. apply Qa. exact Hx.
  - intros k Hk. apply in_app_or in Hk. apply in_or_app. destruct Hk as [Hk|Hk]; [left; apply Qa|right]; exact Hk.
Qed.

Lemma nl_tick t s newp s' lg :
  nl_inv s -> sim_tick C alg t s newp = Ok (s', lg) -> nl_inv s'.
Proof.
  intros I T. destruct (nl_round_queue _ _ _ _ _ I T) as (Na' & NQ & QA).
  destruct I as (H & Na & Nq & Qa & Lo).
  destruct (naive_tick_anatomy _ _ _ _ _ _ _ T) as (w' & asgs & Sch & Ex & Ra & Ar & _).
  destruct (naive_queue_members _ _ _ _ _ _ _ _ _ _ Sch) as (_ & Back & Keep).
  destruct (naive_round_no_loss _ _ _ _ _ _ _ _ Sch H) as [Fw Gm].
  pose proof (pools_tick_xsteps_pp _ _ _ _ _ _ _ _ _ Ex) as X.
  unfold nl_inv. rewrite Ar. split; [eapply naive_tick_hist; eauto|]. split; [exact Na'|].
  split; [apply Keep; exact NQ|]. split.
  - intros k Hk. apply QA. apply Back. exact Hk.
  - intros k Hk.
    assert (Hq : In k (ss_queue (sm_sched s) ++ newp) \/ gone (wof s) k).
    { apply in_app_or in Hk. destruct Hk as [Hk|Hk].
      - destruct (Lo k Hk) as [Y|Y]; [left; apply in_or_app; left; exact Y|right; exact Y].
      - left. apply in_or_app. right. exact Hk. }
    destruct Hq as [Hq|G].
    + destruct (Fw k Hq) as [Y|Y]; [left; exact Y|right; eapply gone_xsteps; eauto].
    + right. eapply gone_xsteps; [exact X|]. apply Gm. exact G.
Qed.

Theorem nl_reach np cpu ram t s :
  sim_reach C alg 0%Z (init_sim C np cpu ram) t s -> nl_inv s.
Proof.
  intros R. apply (sim_reach_inv C alg nl_inv) with (2 := R); [|apply nl_inv_init].
  intros t1 s1 newp s' lg P T. eapply nl_tick; eauto.
Qed.

(* run level: the waiting queue holds arrived pipelines only, none twice, and every arrived pipeline that is
   missing from it is complete (all operators COMPLETED) or failed (some operator FAILED) *)
Theorem naive_run_no_loss np cpu ram t s :
  sim_reach C alg 0%Z (init_sim C np cpu ram) t s ->
  NoDup (ss_queue (sm_sched s)) /\ NoDup (arrived s) /\
  (forall k, In k (ss_queue (sm_sched s)) -> In k (arrived s)) /\
  (forall k, In k (arrived s) ->
     In k (ss_queue (sm_sched s)) \/
     (forall o, In o (pd_order (pipe_of St k)) -> st_of (wof s) o = Completed) \/
     (exists o, In o (pd_order (pipe_of St k)) /\ st_of (wof s) o = Failed)).
Proof.
  intros R. destruct (nl_reach _ _ _ _ _ R) as (_ & Na & Nq & Qa & Lo). auto.
Qed.

End NoLoss.

(* ------------------------------------------------------------------------------------------ *)
(* 4. FIFO across rounds                                                                        *)
(* ------------------------------------------------------------------------------------------ *)

(* [x] stands before [y] in [l] *)
Definition before {A} (l : list A) (x y : A) : Prop := exists l1 l2, l = l1 ++ x :: l2 /\ In y l2.

Lemma before_In {A} (l : list A) x y : before l x y -> In x l /\ In y l.
Proof.
  intros (l1 & l2 & -> & Hy). split; apply in_or_app; right; [left; reflexivity|right; exact Hy].
Qed.

Lemma before_cons {A} (h : A) l x y : before l x y -> before (h :: l) x y.
Proof. intros (l1 & l2 & -> & Hy). exists (h :: l1), l2. split; [reflexivity|exact Hy]. Qed.

Lemma before_filter {A} (f : A -> bool) l x y :
  before l x y -> f x = true -> f y = true -> before (filter f l) x y.
Proof.
  intros (l1 & l2 & -> & Hy) Fx Fy. exists (filter f l1), (filter f l2).
  rewrite filter_app. cbn [filter]. rewrite Fx. split; [reflexivity|]. apply filter_In. auto.
Qed.

Lemma before_filter_inv {A} (f : A -> bool) l x y : before (filter f l) x y -> before l x y.
Proof.
  induction l as [|h t IH]; intros (l1 & l2 & E & Hy); cbn [filter] in E.
  - destruct l1; discriminate.
  - destruct (f h) eqn:Fh.
    + destruct l1 as [|a l1'].
      * cbn [app] in E. inversion E; subst. exists [], t. split; [reflexivity|].
        apply filter_In in Hy. apply Hy.
      * cbn [app] in E. inversion E; subst. apply before_cons. apply IH. exists l1', l2. auto.
    + apply before_cons. apply IH. exists l1, l2. auto.
Qed.

Lemma before_app_cases {A} (l m : list A) x y :
  before (l ++ m) x y -> before l x y \/ (In x l /\ In y m) \/ before m x y.
Proof.
  induction l as [|h t IH]; intros B.
  - right. right. exact B.
  - destruct B as (l1 & l2 & E & Hy). destruct l1 as [|a l1'].
    + cbn [app] in E. inversion E; subst. apply in_app_or in Hy. destruct Hy as [Hy|Hy].
      * left. exists [], t. auto.
      * right. left. split; [left; reflexivity|exact Hy].
    + cbn [app] in E. inversion E as [[Eh Et]]. subst a.
      destruct (IH (ex_intro _ l1' (ex_intro _ l2 (conj Et Hy)))) as [X|[[X1 X2]|X]].
      * left. apply before_cons. exact X.
      * right. left. split; [right; exact X1|exact X2].
      * right. right. exact X.
Qed.

Lemma filter_filter_impl {A} (f g : A -> bool) l :
  (forall x, g x = true -> f x = true) -> filter g (filter f l) = filter g l.
Proof.
  intros I. induction l as [|h t IH]; cbn [filter]; [reflexivity|].
  destruct (f h) eqn:Fh; cbn [filter].
  - rewrite IH. reflexivity.
  - destruct (g h) eqn:Gh; [rewrite (I h Gh) in Fh; discriminate|exact IH].
Qed.

Lemma freshb_eq C w w' k : (fresh C w k <-> fresh C w' k) -> freshb C w k = freshb C w' k.
Proof.
  intros I. destruct (freshb C w k) eqn:E1, (freshb C w' k) eqn:E2; try reflexivity.
  - apply freshb_spec in E1. apply I in E1. apply freshb_spec in E1. congruence.
  - apply freshb_spec in E2. apply I in E2. apply freshb_spec in E2. congruence.
Qed.

(* the executor's part of a tick, with nothing suspending, neither makes nor unmakes a PENDING operator *)
Lemma pools_tick_pending C asgs ps w next w' next' ps' res o :
  pools_tick C w next ps [] asgs = Ok (w', next', ps', res) ->
  (forall p, In p ps -> p_suspending p = []) ->
  (st_of w' o = Pending <-> st_of w o = Pending).
Proof.
  intros H Hs. split; intros P.
  - eapply steps_t_back; [eapply pools_tick_nosusp_steps_t; eauto| |exact P].
    intros [X|[X|X]]; discriminate.
  - rewrite <- P. eapply xsteps_assignable_frame; [eapply pools_tick_xsteps; eauto|]. rewrite P. reflexivity.
Qed.

Section Fifo.
Variable C : cfg.
Variable starter : bool.
Local Notation St := (cf_static C).
Local Notation alg := (nalgo starter).
Local Notation single := (single_of C starter).
Hypothesis SK : static_ok St.
Hypothesis OK : ops_known St.

Lemma SK_disj k k' o :
  In o (pd_order (pipe_of St k)) -> In o (pd_order (pipe_of St k')) -> k = k'.
Proof.
  intros I1 I2. destruct SK as [_ SO].
  destruct (SO _ _ I1) as (E1 & _). destruct (SO _ _ I2) as (E2 & _). congruence.
Qed.

(* a pipeline that is not served in a round keeps its PENDING operators *)
Lemma nv_run_fresh_frame sg w ps q rest rq w' ev k :
  nv_run C sg w ps q rest rq w' ev -> ~ In k (map ev_pipe ev) -> fresh C w k -> fresh C w' k.
Proof.
  induction 1 as [w q|w p ps q rest rq w' ev _ _ IH|w p ps q rest rq w' ev _ _ _ IH
                 |w p ps pre k0 q1 w1 rest rq w' ev _ _ _ _ M _ IH]; intros N F; auto.
  cbn [map ev_pipe] in N. apply IH; [intros X; apply N; right; exact X|].
  eapply (fresh_other C sg SK_disj); [exact M| |exact F]. intros ->. apply N. left. reflexivity.
Qed.

(* one round, in terms of the pipelines served *)
Lemma naive_round_fifo s e results newp s' w' susps asgs :
  naive_step C starter s e results newp = Ok (s', w', susps, asgs) ->
  hist_ok St (e_world e) -> NoDup (ss_queue s ++ newp) ->
  (forall k, In k (ss_queue s ++ newp) -> has_start C single k) ->
  exists served,
    Forall2 (fun k a => a_prio a = prio_of_pipe C k /\
                        exists wk, asteps St (e_world e) wk /\ a_ops a = nv_ops C single wk k) served asgs /\
    (forall k1 k2, before (ss_queue s ++ newp) k1 k2 -> fresh C (e_world e) k1 -> In k2 served ->
                   before served k1 k2) /\
    (forall k, In k served -> In k (ss_queue s ++ newp) /\ ~ fresh C w' k) /\
    (forall k, ~ In k served -> fresh C (e_world e) k -> fresh C w' k) /\
    filter (freshb C w') (ss_queue s') = filter (freshb C w') (ss_queue s ++ newp).
Proof.
  intros Hst H0 ND HS.
  assert (Hinv : forall w p k w1, hist_ok St w -> In k (ss_queue s ++ newp) ->
            dropped C w k = false -> nv_ops C single w k <> [] ->
            mk_assignment C w (nv_asg C single w p k) = Ok w1 -> hist_ok St w1).
  { intros w p k w1 Hw _ _ _ M. eapply nv_asg_hist; eauto. }
  assert (Hserve : forall wk k, hist_ok St wk -> In k (ss_queue s ++ newp) -> fresh C wk k ->
            dropped C wk k = false /\ nv_ops C single wk k <> []).
  { intros wk k (_ & _ & _ & Cn) Ik F. apply fresh_serveable; auto. }
  assert (Hrange : forall w k o, hist_ok St w -> In k (ss_queue s ++ newp) ->
            In o (pd_order (pipe_of St k)) -> o < length (w_st w)).
  { intros w k o (L1 & _) _ Io. destruct SK as [_ SO]. destruct (SO _ _ Io) as (_ & R & _). lia. }
  pose proof (naive_fresh_order_kept C starter s e results newp s' w' susps asgs (hist_ok St)
                Hst H0 Hinv Hserve Hrange) as Keep.
  apply naive_step_cases in Hst.
  destruct Hst as [(-> & _ & -> & -> & _ & ->)|(rest & rq & ev & R & -> & _ & ->)].
  - exists []. split; [constructor|]. split; [intros k1 k2 _ _ []|]. split; [intros k []|].
    split; [auto|exact Keep].
  - exists (map ev_pipe ev).
    pose proof (nv_run_events _ _ _ _ _ _ _ _ _ R) as EV.
    destruct (nv_run_hist C single SK _ _ _ _ _ _ _ R H0) as (_ & Fev & _).
    rewrite Forall_forall in EV, Fev.
    split; [|split; [|split; [|split; [|exact Keep]]]].
    + apply Forall2_map_same. apply Forall_forall. intros x Hx.
      destruct (EV x Hx) as (_ & A1 & _ & _ & _ & E & _). rewrite E. cbn [a_prio a_ops nv_asg].
      split; [reflexivity|]. exists (ev_world x). auto.
    + intros k1 k2 (l1 & l2 & E & Hk2) F1 S2.
      destruct (nv_run_fifo C single (ss_queue s ++ newp) (hist_ok St) Hinv SK_disj Hserve
                  _ _ _ _ _ _ _ R H0 (incl_refl _) ND l1 k1 l2 k2 E Hk2 F1 S2) as (s1 & s2 & E' & I').
      exists s1, s2. auto.
    + intros k Hk. apply in_map_iff in Hk. destruct Hk as (x & <- & Hx).
      destruct (EV x Hx) as (Iq & _ & _ & _ & No & E & w1 & M & A2). split; [exact Iq|].
      rewrite E in M.
      pose proof (served_not_fresh C single (ss_queue s ++ newp) (hist_ok St) Hrange
                    (ev_world x) (ev_pool x) (ev_pipe x) w1 w' (Fev x Hx) Iq No M A2) as Fb.
      intros F. apply freshb_spec in F. congruence.
    + intros k Nk F. eapply nv_run_fresh_frame; eauto.
Qed.

(* the never-served pipelines: all that have not arrived, a final segment of the arrival order, and they
   wait in the queue in arrival order *)
Definition fifo_inv (s : sim) : Prop :=
  nl_inv C s /\
  (forall k, ~ In k (arrived s) -> fresh C (wof s) k) /\
  filter (freshb C (wof s)) (ss_queue (sm_sched s)) = filter (freshb C (wof s)) (arrived s) /\
  (forall k1 k2, before (arrived s) k1 k2 -> fresh C (wof s) k1 -> fresh C (wof s) k2).

Lemma fifo_inv_init np cpu ram : fifo_inv (init_sim C np cpu ram).
Proof.
  split; [apply nl_inv_init|]. unfold arrived, wof. cbn [init_sim sm_arrival sm_sched sm_exec init_sstate ss_queue map].
  split; [|split; [reflexivity|]].
  - intros k _ o _. cbn [init_estate e_world]. apply st_of_init.
  - intros k1 k2 (l1 & l2 & E & _). destruct l1; discriminate.
Qed.

Lemma fifo_tick t s newp s' lg :
  (forall p, In p (e_pools (sm_exec s)) -> p_suspending p = []) ->
  fifo_inv s -> sim_tick C alg t s newp = Ok (s', lg) ->
  (forall k, In k (arrived s') -> has_start C single k) ->
  fifo_inv s' /\
  exists served,
    Forall2 (fun k a => a_prio a = prio_of_pipe C k /\
                        exists wk, asteps St (wof s) wk /\ a_ops a = nv_ops C single wk k)
            served (tl_asgs lg) /\
    (forall k, In k served -> In k (arrived s') /\ ~ fresh C (wof s') k) /\
    (forall k1 k2, before (arrived s') k1 k2 -> fresh C (wof s) k1 -> In k2 served -> before served k1 k2).
Proof.
  intros Nos (NL & F0 & F1 & F3) T HS.
  pose proof (nl_tick C starter SK OK _ _ _ _ _ NL T) as NL'.
  destruct (nl_round_queue C starter _ _ _ _ _ NL T) as (Na' & NQ & QA).
  destruct NL as (H & Na & Nq & Qa & _).
  destruct (naive_tick_anatomy _ _ _ _ _ _ _ T) as (w' & asgs & Sch & Ex & _ & Ar & _ & _ & Ea & _).
  rewrite Ar in HS |- *. rewrite Ea.
  set (w := wof s) in *. set (Q := ss_queue (sm_sched s) ++ newp) in *. set (A' := arrived s ++ newp) in *.
  (* before the round, over Q and A' *)
  assert (A0 : forall k, ~ In k A' -> fresh C w k).
  { intros k Nk. apply F0. intros X. apply Nk. apply in_or_app. left. exact X. }
  assert (Dj : forall k, In k (arrived s) -> ~ In k newp).
  { apply NoDup_app_inv in Na'. apply Na'. }
  assert (A1 : filter (freshb C w) Q = filter (freshb C w) A').
  { unfold Q, A'. rewrite !filter_app, F1. reflexivity. }
  assert (A3 : forall k1 k2, before A' k1 k2 -> fresh C w k1 -> fresh C w k2).
  { intros k1 k2 B Fk1. apply before_app_cases in B. destruct B as [B|[[B1 B2]|B]].
    - eapply F3; eauto.
    - apply F0. intros X. exact (Dj k2 X B2).
    - apply before_In in B. destruct B as [_ B2]. apply F0. intros X. exact (Dj k2 X B2). }
  assert (QB : forall k1 k2, before A' k1 k2 -> fresh C w k1 -> before Q k1 k2).
  { intros k1 k2 B Fk1. pose proof (A3 k1 k2 B Fk1) as Fk2.
    apply (before_filter_inv (freshb C w)). rewrite A1.
    apply before_filter; [exact B| |]; apply freshb_spec; assumption. }
  (* the round *)
  destruct (naive_round_fifo _ _ _ _ _ _ _ _ Sch H NQ (fun k Hk => HS k (QA k Hk)))
    as (served & R1 & R2 & R3 & R4 & R5).
  fold Q in R2, R3, R5. change (e_world (sm_exec s)) with w in R1, R2, R4.
  destruct (naive_state_frame _ _ _ _ _ _ _ _ _ _ Sch) as [_ As]. change (e_world (sm_exec s)) with w in As.
  assert (Bk : forall k, fresh C w' k -> fresh C w k) by (intros k; apply fresh_back; exact As).
  assert (T1 : forall k1 k2, before A' k1 k2 -> fresh C w k1 -> In k2 served -> before served k1 k2).
  { intros k1 k2 B Fk1 S2. apply R2; auto. }
  assert (C0 : forall k, ~ In k A' -> fresh C w' k).
  { intros k Nk. apply R4; [|apply A0; exact Nk]. intros X. apply Nk. apply QA. apply R3. exact X. }
  assert (C1 : filter (freshb C w') (ss_queue (sm_sched s')) = filter (freshb C w') A').
  { rewrite R5.
    rewrite <- (filter_filter_impl (freshb C w) (freshb C w') Q),
            <- (filter_filter_impl (freshb C w) (freshb C w') A'), A1; [reflexivity| |];
      intros x Fx; apply freshb_spec; apply Bk; apply freshb_spec; exact Fx. }
  assert (C3 : forall k1 k2, before A' k1 k2 -> fresh C w' k1 -> fresh C w' k2).
  { intros k1 k2 B Fk1. pose proof (Bk _ Fk1) as Fk1w.
    destruct (in_dec Nat.eq_dec k2 served) as [S2|S2].
    - exfalso. pose proof (T1 k1 k2 B Fk1w S2) as Bs. apply before_In in Bs. destruct Bs as [S1 _].
      exact (proj2 (R3 k1 S1) Fk1).
    - apply R4; [exact S2|]. eapply A3; eauto. }
  (* the executor *)
  assert (Fe : forall k, fresh C (wof s') k <-> fresh C w' k).
  { intros k. unfold fresh. split; intros F o Ho; apply (pools_tick_pending _ _ _ _ _ _ _ _ _ o Ex Nos); auto. }
  assert (Fb : forall k, freshb C (wof s') k = freshb C w' k) by (intros k; apply freshb_eq; apply Fe).
  split.
  - split; [exact NL'|]. rewrite Ar. fold A'. split; [|split].
    + intros k Nk. apply Fe. apply C0. exact Nk.
    + rewrite !(filter_ext _ _ Fb). exact C1.
    + intros k1 k2 B Fk1. apply Fe. eapply C3; [exact B|]. apply Fe. exact Fk1.
  - exists served. split; [exact R1|]. split; [|exact T1].
    intros k Hk. destruct (R3 k Hk) as [Iq Nf]. split; [apply QA; exact Iq|]. intros X. apply Nf. apply Fe. exact X.
Qed.

Lemma fifo_reach np cpu ram t s :
  sim_reach C alg 0%Z (init_sim C np cpu ram) t s ->
  (forall k, In k (arrived s) -> has_start C single k) -> fifo_inv s.
Proof.
  remember (init_sim C np cpu ram) as s0 eqn:E0. remember 0%Z as t0 eqn:Et.
  induction 1 as [t s|t0 s0 t s newp s' lg R IH T]; intros HS.
  - subst s. apply fifo_inv_init.
  - specialize (IH E0 Et).
    destruct (naive_tick_anatomy _ _ _ _ _ _ _ T) as (w' & asgs & _ & _ & _ & Ar & _).
    assert (HS0 : forall k, In k (arrived s) -> has_start C single k).
    { intros k Hk. apply HS. rewrite Ar. apply in_or_app. left. exact Hk. }
    subst s0 t0. destruct (wp_reach C starter _ _ _ _ _ R) as (_ & _ & Wp & _).
    rewrite Forall_forall in Wp.
    eapply fifo_tick; [|exact (IH HS0)|exact T|exact HS]. intros p Hp. apply (Wp p Hp).
Qed.

(* run level, states: first containers are handed out in arrival order *)
Theorem naive_run_fifo np cpu ram t s :
  sim_reach C alg 0%Z (init_sim C np cpu ram) t s ->
  (forall k, In k (arrived s) -> has_start C single k) ->
  (forall l1 k1 l2 k2, arrived s = l1 ++ k1 :: l2 -> In k2 l2 ->
     fresh C (wof s) k1 -> fresh C (wof s) k2) /\
  filter (freshb C (wof s)) (ss_queue (sm_sched s)) = filter (freshb C (wof s)) (arrived s) /\
  (forall k, ~ In k (arrived s) -> fresh C (wof s) k).
Proof.
  intros R HS. destruct (fifo_reach _ _ _ _ _ R HS) as (_ & F0 & F1 & F3).
  split; [|split; assumption]. intros l1 k1 l2 k2 E Hk. apply F3. exists l1, l2. auto.
Qed.

(* run level, ticks: while an earlier pipeline is still waiting for its first container, a later one gets a
   container only in the same tick and after it *)
Theorem naive_run_fifo_tick np cpu ram t s newp s' lg :
  sim_reach C alg 0%Z (init_sim C np cpu ram) t s -> sim_tick C alg t s newp = Ok (s', lg) ->
  (forall k, In k (arrived s') -> has_start C single k) ->
  exists served,
    Forall2 (fun k a => a_prio a = prio_of_pipe C k /\
                        exists wk, asteps St (wof s) wk /\ a_ops a = nv_ops C single wk k)
            served (tl_asgs lg) /\
    (forall k, In k served -> In k (arrived s') /\ ~ fresh C (wof s') k) /\
    (forall l1 k1 l2 k2, arrived s' = l1 ++ k1 :: l2 -> In k2 l2 ->
       fresh C (wof s) k1 -> In k2 served ->
       exists s1 s2, served = s1 ++ k1 :: s2 /\ In k2 s2).
Proof.
  intros R T HS.
  destruct (naive_tick_anatomy _ _ _ _ _ _ _ T) as (w' & asgs & _ & _ & _ & Ar & _).
  assert (HS0 : forall k, In k (arrived s) -> has_start C single k).
  { intros k Hk. apply HS. rewrite Ar. apply in_or_app. left. exact Hk. }
  destruct (wp_reach C starter _ _ _ _ _ R) as (_ & _ & Wp & _). rewrite Forall_forall in Wp.
  destruct (fifo_tick _ _ _ _ _ (fun p Hp => proj1 (Wp p Hp)) (fifo_reach _ _ _ _ _ R HS0) T HS)
    as (_ & served & R1 & R3 & T1).
  exists served. split; [exact R1|]. split; [exact R3|].
  intros l1 k1 l2 k2 E Hk F S2. apply T1; auto. exists l1, l2. auto.
Qed.

End Fifo.

(* once served, never fresh again: no hypothesis on the static description *)
Theorem naive_run_fresh_back C starter np cpu ram t s t' s' k :
  sim_reach C (nalgo starter) 0%Z (init_sim C np cpu ram) t s ->
  sim_reach C (nalgo starter) t s t' s' ->
  fresh C (wof s') k -> fresh C (wof s) k.
Proof.
  intros R0 R. induction R as [t s|t0 s0 t s newp s' lg R IH T]; intros F; [exact F|].
  apply (IH R0).
  assert (Rs : sim_reach C (nalgo starter) 0%Z (init_sim C np cpu ram) t s).
  { clear IH T F. induction R as [t s|t0 s0 t s np' s'' lg' R IH T]; [exact R0|].
    econstructor; [apply IH; exact R0|exact T]. }
  destruct (wp_reach C starter _ _ _ _ _ Rs) as (_ & _ & Wp & _). rewrite Forall_forall in Wp.
  destruct (naive_tick_anatomy _ _ _ _ _ _ _ T) as (w' & asgs & Sch & Ex & _).
  destruct (naive_state_frame _ _ _ _ _ _ _ _ _ _ Sch) as [_ As].
  eapply fresh_back; [exact As|]. intros o Ho.
  apply (pools_tick_pending _ _ _ _ _ _ _ _ _ o Ex (fun p Hp => proj1 (Wp p Hp))). apply F. exact Ho.
Qed.

(* ------------------------------------------------------------------------------------------ *)
(* 5. the same for static descriptions built by [mk_static] from well-formed DAGs                *)
(* ------------------------------------------------------------------------------------------ *)

Lemma mk_static_sk C l :
  cf_static C = mk_static l -> dags_wf l -> static_ok (cf_static C) /\ ops_known (cf_static C).
Proof.
  intros E W. rewrite E. split; [apply static_ok_mk_static|apply mk_static_ops_known]; exact W.
Qed.

(* a pipeline with operators can be started, in both container modes *)
Lemma has_start_of_ops C single l k :
  cf_static C = mk_static l -> dags_wf l ->
  pd_order (pipe_of (cf_static C) k) <> [] -> has_start C single k.
Proof.
  intros E W N. rewrite E in N.
  destruct (Nat.lt_ge_cases k (length (s_pipes (mk_static l)))) as [L|L].
  - apply (has_start_mk_static C single l k E W L). intros Ed. apply N.
    destruct (NaiveFacts.mk_static_pipe l k W L) as [Eo _]. rewrite Eo, Ed. reflexivity.
  - exfalso. apply N. unfold pipe_of. rewrite nth_overflow by exact L. reflexivity.
Qed.

Theorem run_never_after_failure C starter l np cpu ram t s t' s' k o :
  cf_static C = mk_static l -> dags_wf l ->
  sim_reach C (nalgo starter) 0%Z (init_sim C np cpu ram) t s ->
  sim_reach C (nalgo starter) t s t' s' ->
  In o (pd_order (pipe_of (cf_static C) k)) -> st_of (wof s) o = Failed ->
  st_of (wof s') o = Failed /\
  forall newp s'' lg, sim_tick C (nalgo starter) t' s' newp = Ok (s'', lg) ->
    forall a o', In a (tl_asgs lg) -> In o' (a_ops a) -> op_pipe (cf_static C) o' <> k.
Proof.
  intros E W. destruct (mk_static_sk C l E W) as [SK OK]. apply naive_run_never_after_failure; assumption.
Qed.

Theorem run_assigns_pending C starter l np cpu ram t s newp s' lg :
  cf_static C = mk_static l -> dags_wf l ->
  sim_reach C (nalgo starter) 0%Z (init_sim C np cpu ram) t s ->
  sim_tick C (nalgo starter) t s newp = Ok (s', lg) ->
  forall a o, In a (tl_asgs lg) -> In o (a_ops a) ->
    st_of (wof s) o = Pending /\
    forall o', In o' (pd_order (pipe_of (cf_static C) (op_pipe (cf_static C) o))) -> st_of (wof s) o' <> Failed.
Proof.
  intros E W. destruct (mk_static_sk C l E W) as [SK OK]. apply naive_run_assigns_pending; assumption.
Qed.

(* a container that ended with an error: one of its operators is FAILED, stays FAILED, and the pipeline of
   that operator never gets a container again *)
Theorem run_failed_container_final C starter l np cpu ram t s t' s' r :
  cf_static C = mk_static l -> dags_wf l ->
  sim_reach C (nalgo starter) 0%Z (init_sim C np cpu ram) t s ->
  sim_reach C (nalgo starter) t s t' s' ->
  In r (sm_results s) -> r_err r = true ->
  exists o, In o (r_ops r) /\ st_of (wof s) o = Failed /\ st_of (wof s') o = Failed /\
    forall newp s'' lg, sim_tick C (nalgo starter) t' s' newp = Ok (s'', lg) ->
      forall a o', In a (tl_asgs lg) -> In o' (a_ops a) ->
        op_pipe (cf_static C) o' <> op_pipe (cf_static C) o.
Proof.
  intros E W R0 R Hr Er. destruct (mk_static_sk C l E W) as [SK OK].
  destruct (naive_run_failed_container C starter _ _ _ _ _ _ R0 Hr Er) as (o & Io & Fo).
  exists o. split; [exact Io|]. split; [exact Fo|].
  assert (Ko : In o (pd_order (pipe_of (cf_static C) (op_pipe (cf_static C) o)))).
  { apply OK. destruct (naive_reach_hist C starter SK OK _ _ _ _ _ R0) as (L & _). rewrite <- L.
    destruct (Nat.lt_ge_cases o (length (w_st (wof s)))) as [Lt|Ge]; [exact Lt|].
    unfold st_of in Fo. rewrite nth_overflow in Fo by exact Ge. discriminate. }
  exact (naive_run_never_after_failure C starter SK OK _ _ _ _ _ _ _ _ _ R0 R Ko Fo).
Qed.

Theorem run_no_loss C starter l np cpu ram t s :
  cf_static C = mk_static l -> dags_wf l ->
  sim_reach C (nalgo starter) 0%Z (init_sim C np cpu ram) t s ->
  NoDup (ss_queue (sm_sched s)) /\ NoDup (arrived s) /\
  (forall k, In k (ss_queue (sm_sched s)) -> In k (arrived s)) /\
  (forall k, In k (arrived s) ->
     In k (ss_queue (sm_sched s)) \/
     (forall o, In o (pd_order (pipe_of (cf_static C) k)) -> st_of (wof s) o = Completed) \/
     (exists o, In o (pd_order (pipe_of (cf_static C) k)) /\ st_of (wof s) o = Failed)).
Proof.
  intros E W. destruct (mk_static_sk C l E W) as [SK OK]. apply naive_run_no_loss; assumption.
Qed.

Theorem run_fifo C starter l np cpu ram t s :
  cf_static C = mk_static l -> dags_wf l ->
  sim_reach C (nalgo starter) 0%Z (init_sim C np cpu ram) t s ->
  (forall k, In k (arrived s) -> pd_order (pipe_of (cf_static C) k) <> []) ->
  (forall l1 k1 l2 k2, arrived s = l1 ++ k1 :: l2 -> In k2 l2 ->
     fresh C (wof s) k1 -> fresh C (wof s) k2) /\
  filter (freshb C (wof s)) (ss_queue (sm_sched s)) = filter (freshb C (wof s)) (arrived s) /\
  (forall k, ~ In k (arrived s) -> fresh C (wof s) k).
Proof.
  intros E W R HS. destruct (mk_static_sk C l E W) as [SK OK].
  apply (naive_run_fifo C starter SK OK _ _ _ _ _ R).
  intros k Hk. eapply has_start_of_ops; eauto.
Qed.

Theorem run_fifo_tick C starter l np cpu ram t s newp s' lg :
  cf_static C = mk_static l -> dags_wf l ->
  sim_reach C (nalgo starter) 0%Z (init_sim C np cpu ram) t s ->
  sim_tick C (nalgo starter) t s newp = Ok (s', lg) ->
  (forall k, In k (arrived s') -> pd_order (pipe_of (cf_static C) k) <> []) ->
  exists served,
    Forall2 (fun k a => a_prio a = prio_of_pipe C k /\
                        exists wk, asteps (cf_static C) (wof s) wk /\
                                   a_ops a = nv_ops C (single_of C starter) wk k)
            served (tl_asgs lg) /\
    (forall k, In k served -> In k (arrived s') /\ ~ fresh C (wof s') k) /\
    (forall l1 k1 l2 k2, arrived s' = l1 ++ k1 :: l2 -> In k2 l2 ->
       fresh C (wof s) k1 -> In k2 served ->
       exists s1 s2, served = s1 ++ k1 :: s2 /\ In k2 s2).
Proof.
  intros E W R T HS. destruct (mk_static_sk C l E W) as [SK OK].
  apply (naive_run_fifo_tick C starter SK OK _ _ _ _ _ _ _ _ R T).
  intros k Hk. eapply has_start_of_ops; eauto.
Qed.

(* the end state of a run that did not raise is reached at the tick that equals the number of batches *)
Lemma sim_run_reach_exact C a : forall arrivals t s sf logs oe,
  sim_run C a t s arrivals = (sf, logs, oe) ->
  sim_reach C a t s (t + Z.of_nat (length logs))%Z sf.
Proof.
  induction arrivals as [|newp r IH]; intros t s sf logs oe H; cbn [sim_run] in H.
  - inversion H; subst. cbn [length]. rewrite Z.add_0_r. constructor.
  - destruct (sim_tick C a t s newp) as [[s1 lg]|e] eqn:E.
    + destruct (sim_run C a (t + 1)%Z s1 r) as [[sf' logs'] e'] eqn:R. inversion H; subst.
      apply IH in R. eapply sim_reach_front; [exact E|].
      replace (t + Z.of_nat (length (lg :: logs')))%Z with (t + 1 + Z.of_nat (length logs'))%Z
        by (cbn [length]; lia).
      exact R.
    + inversion H; subst. cbn [length]. rewrite Z.add_0_r. constructor.
Qed.

(* ------------------------------------------------------------------------------------------ *)
(* Examples                                                                                    *)
(* ------------------------------------------------------------------------------------------ *)
Module NaiveRunExamples.

(* three pipelines: 0 = chain of two (query), 1 = one operator that is OOM-killed in its second tick
   (batch), 2 = two independent operators (interactive); every other operator runs for two ticks.
   One pool of 4 CPUs / 8 GB, one operator per container. Pipelines 0 and 1 arrive at tick 0, pipeline 2 at
   tick 1. *)
Definition Lx : list (prio * dag) := [(Query, [[]; [0]]); (Batch, [[]]); (Interactive, [[]; []])].
Definition Cx : cfg :=
  {| cf_static := mk_static Lx; cf_script := fun op _ => if Nat.eqb op 2 then [1%Q; 100%Q] else [1%Q; 1%Q];
     cf_tps := 10%Z; cf_overcommit := false; cf_multi := false; cf_rnd := fun q => q |}.

Lemma Lx_wf : dags_wf Lx.
Proof.
  unfold dags_wf, Lx.
  apply Forall_cons; [|apply Forall_cons; [|apply Forall_cons; [|apply Forall_nil]]];
    cbn [snd]; intros j Hj; cbn [length] in Hj;
    (destruct j as [|[|j]]; try lia); cbn;
    (split; [repeat constructor; cbn; intuition lia | intros p Hp; intuition lia]).
Qed.

Definition s_init : sim := init_sim Cx 1 4%Z 8%Q.
Definition arrs_a : list (list nat) := [[0; 1]; [2]; []; []; []].
Definition arrs_b : list (list nat) := [[]; []; []; []; []; []; []].
Definition run_a := sim_run Cx ANaive 0%Z s_init arrs_a.
Definition s_mid : sim := fst (fst run_a).
Definition run_b := sim_run Cx ANaive 5%Z s_mid arrs_b.
Definition s_end : sim := fst (fst run_b).

Definition view (s : sim) :=
  (w_st (wof s), ss_queue (sm_sched s), arrived s,
   map (fun p => (map c_ops (p_active p), p_avail_cpu p)) (e_pools (sm_exec s)),
   map (fun r => (r_ops r, r_err r)) (sm_results s)).

(* what happens: [0] runs, then [2] (pipeline 1) and is killed, then [1], [3], [4]; pipeline 1 is never
   tried again *)
Example ex_logs :
  snd run_a = None /\ snd run_b = None /\
  map (fun lg => map a_ops (tl_asgs lg)) (snd (fst run_a) ++ snd (fst run_b)) =
    [[[0]]; []; [[2]]; []; [[1]]; []; [[3]]; []; [[4]]; []; []; []].
Proof. vm_compute. repeat split; reflexivity. Qed.

(* after five ticks: pipeline 1 has failed and left the queue; pipeline 0 holds the whole pool for its
   second operator; pipeline 2, never served, waits at the head of the queue *)
Example ex_mid :
  view s_mid = ([Completed; Running; Failed; Pending; Pending], [2; 1; 0], [0; 1; 2],
                [([[1]], 0%Z)], []).
Proof. vm_compute. reflexivity. Qed.

Example ex_end :
  view s_end = ([Completed; Completed; Failed; Completed; Completed], [], [0; 1; 2], [([], 4%Z)], []).
Proof. vm_compute. reflexivity. Qed.

Lemma run_a_eq : sim_run Cx ANaive 0%Z s_init arrs_a = (s_mid, snd (fst run_a), snd run_a).
Proof. unfold s_mid, run_a. destruct (sim_run Cx ANaive 0%Z s_init arrs_a) as [[sf logs] oe]. reflexivity. Qed.

Lemma run_b_eq : sim_run Cx ANaive 5%Z s_mid arrs_b = (s_end, snd (fst run_b), snd run_b).
Proof. unfold s_end, run_b. destruct (sim_run Cx ANaive 5%Z s_mid arrs_b) as [[sf logs] oe]. reflexivity. Qed.

Lemma len_a : length (snd (fst run_a)) = 5.
Proof. vm_compute. reflexivity. Qed.
Lemma len_b : length (snd (fst run_b)) = 7.
Proof. vm_compute. reflexivity. Qed.

Lemma reach_mid : sim_reach Cx (nalgo false) 0%Z s_init 5%Z s_mid.
Proof. pose proof (sim_run_reach_exact _ _ _ _ _ _ _ _ run_a_eq) as R. rewrite len_a in R. exact R. Qed.

Lemma reach_end : sim_reach Cx (nalgo false) 5%Z s_mid 12%Z s_end.
Proof. pose proof (sim_run_reach_exact _ _ _ _ _ _ _ _ run_b_eq) as R. rewrite len_b in R. exact R. Qed.

Lemma failed_mid : In 2 (pd_order (pipe_of (cf_static Cx) 1)) /\ st_of (wof s_mid) 2 = Failed.
Proof. vm_compute. split; [left; reflexivity|reflexivity]. Qed.

Lemma has_ops_x : forall k, In k [0; 1; 2] -> pd_order (pipe_of (cf_static Cx) k) <> [].
Proof. intros k [<-|[<-|[<-|[]]]]; vm_compute; discriminate. Qed.

(* the hypotheses of the run-level theorems hold on this run *)
Example ex_hypotheses :
  cf_static Cx = mk_static Lx /\ dags_wf Lx /\
  sim_reach Cx ANaive 0%Z (init_sim Cx 1 4%Z 8%Q) 5%Z s_mid /\
  sim_reach Cx ANaive 5%Z s_mid 12%Z s_end /\
  In 2 (pd_order (pipe_of (cf_static Cx) 1)) /\ st_of (e_world (sm_exec s_mid)) 2 = Failed /\
  (forall k, In k (map fst (sm_arrival s_end)) -> pd_order (pipe_of (cf_static Cx) k) <> []).
Proof.
  split; [reflexivity|]. split; [exact Lx_wf|]. split; [exact reach_mid|]. split; [exact reach_end|].
  split; [apply failed_mid|]. split; [apply failed_mid|].
  intros k Hk. apply has_ops_x. replace (map fst (sm_arrival s_end)) with [0; 1; 2] in Hk; [exact Hk|].
  vm_compute. reflexivity.
Qed.

(* ... and the theorems, applied to it *)
Example ex_never_again :
  st_of (wof s_end) 2 = Failed /\
  forall newp s'' lg, sim_tick Cx ANaive 12%Z s_end newp = Ok (s'', lg) ->
    forall a o', In a (tl_asgs lg) -> In o' (a_ops a) -> op_pipe (cf_static Cx) o' <> 1.
Proof.
  destruct failed_mid as [I F].
  exact (run_never_after_failure Cx false Lx 1 4%Z 8%Q 5%Z s_mid 12%Z s_end 1 2 eq_refl Lx_wf
           reach_mid reach_end I F).
Qed.

Example ex_one_container :
  forall p, In p (e_pools (sm_exec s_mid)) ->
    exists c, p_active p = [c] /\ c_cpu c = 4%Z /\ (c_ram c == 8)%Q /\ p_avail_cpu p = 0%Z.
Proof.
  intros p Hp.
  destruct (naive_run_one_container_per_pool Cx false 1 4%Z 8%Q 5%Z s_mid p reach_mid Hp)
    as (_ & _ & [(E & _)|(c & E & A & B & D & _)]).
  - exfalso. revert Hp E. vm_compute. intros [<-|[]]. discriminate.
  - exists c. split; [exact E|]. split; [exact A|]. split; [exact B|exact D].
Qed.

(* FIFO needs pipelines with operators: a pipeline without operators is vacuously "never served" for ever,
   while a later pipeline is served *)
Definition Lz : list (prio * dag) := [(Query, []); (Batch, [[]])].
Definition Cz : cfg :=
  {| cf_static := mk_static Lz; cf_script := fun _ _ => [1%Q; 1%Q];
     cf_tps := 10%Z; cf_overcommit := false; cf_multi := true; cf_rnd := fun q => q |}.
Definition run_z := sim_run Cz ANaive 0%Z (init_sim Cz 1 4%Z 8%Q) [[0; 1]].
Definition s_z : sim := fst (fst run_z).

Lemma Lz_wf : dags_wf Lz.
Proof.
  unfold dags_wf, Lz. apply Forall_cons; [|apply Forall_cons; [|apply Forall_nil]];
    cbn [snd]; intros j Hj; cbn [length] in Hj; [lia|].
  destruct j as [|j]; [|lia]. cbn. split; [constructor|intros p []].
Qed.

Lemma reach_z : sim_reach Cz (nalgo false) 0%Z (init_sim Cz 1 4%Z 8%Q) 1%Z s_z.
Proof.
  assert (E : run_z = (s_z, snd (fst run_z), snd run_z)).
  { unfold s_z. destruct run_z as [[sf logs] oe]. reflexivity. }
  pose proof (sim_run_reach_exact _ _ _ _ _ _ _ _ E) as R.
  replace (length (snd (fst run_z))) with 1 in R by (vm_compute; reflexivity). exact R.
Qed.

Lemma z_state : arrived s_z = [] ++ 0 :: [1] /\ st_of (wof s_z) 0 = Running /\
                pd_order (pipe_of (cf_static Cz) 0) = [] /\ pd_order (pipe_of (cf_static Cz) 1) = [0].
Proof. vm_compute. repeat split; reflexivity. Qed.

End NaiveRunExamples.

Theorem run_fifo_needs_operators_refuted :
  exists C l np cpu ram t s,
    cf_static C = mk_static l /\ dags_wf l /\
    sim_reach C (nalgo false) 0%Z (init_sim C np cpu ram) t s /\
    exists l1 k1 l2 k2, arrived s = l1 ++ k1 :: l2 /\ In k2 l2 /\
                        fresh C (wof s) k1 /\ ~ fresh C (wof s) k2.
Proof.
  exists NaiveRunExamples.Cz, NaiveRunExamples.Lz, 1, 4%Z, 8%Q, 1%Z, NaiveRunExamples.s_z.
  split; [reflexivity|]. split; [exact NaiveRunExamples.Lz_wf|]. split; [exact NaiveRunExamples.reach_z|].
  destruct NaiveRunExamples.z_state as (A & R & O0 & O1).
  exists [], 0, [1], 1. split; [exact A|]. split; [left; reflexivity|]. split.
  - intros o Ho. change (S_of NaiveRunExamples.Cz) with (cf_static NaiveRunExamples.Cz) in Ho.
    rewrite O0 in Ho. destruct Ho.
  - intros F. assert (X : st_of (wof NaiveRunExamples.s_z) 0 = Pending).
    { apply F. change (S_of NaiveRunExamples.Cz) with (cf_static NaiveRunExamples.Cz). rewrite O1. left. reflexivity. }
    rewrite R in X. discriminate.
Qed.
