(* C04, C10, C11 (and C05) for WHOLE SIMULATION RUNS.

   The per-tick / per-reachable-state theorems of Proofs/MemoryFacts.v (C04), Proofs/OomFacts.v (C11),
   Proofs/SuspendFacts.v (C10) and Proofs/ContainerRunFacts.v (C05) are about one pool tick, or about
   executor states reached under ARBITRARY commands.  Proofs/SimReachFacts.v shows that every tick of the
   simulator loop is one [exec_step] with the commands of the shipped scheduler ([sim_tick_exec_step]).
   This file opens that executor step into the ticks of the individual pools ([sim_tick_pools]) and restates
   the properties for every tick and every state of [sim_run] / [sim_reach], for every algorithm
   (naive, starter, overbook, priority, priority-pool), every workload, every pool configuration.

   0. every log entry of a run is a [sim_tick] from a state the run passes through;
   1. one simulator tick = one [pool_tick] per pool, in order;
   2. C04: the invariants in every state; every reported OOM failure is justified;
   3. C11: the pool-level victims of every tick obey the killer's specification;
   4. C10: accepted suspensions, the countdown per simulator tick, the whole suspension over a run, the work
      returned PENDING;
   5. C05: a running container that is neither suspended nor killed advances by exactly one container tick
      per simulator tick. *)
From Coq Require Import ZArith QArith List Bool Arith Lia Lqa Permutation.
Import ListNotations.
From Eudoxia Require Import Num.Rnd64 Model.Types Model.Dag Model.Lifecycle Model.Container Model.Pool
  Model.Executor Model.Sched Model.Simulator
  Proofs.ListFacts Proofs.LifecycleFacts Proofs.OomFacts Proofs.ConserveFacts Proofs.ExecLifeFacts
  Proofs.MemoryFacts Proofs.LedgerFacts Proofs.SuspendFacts Proofs.SafetyFacts
  Proofs.PriorityPoolRunFacts Proofs.PriorityRunFacts Proofs.SimReachFacts.
Close Scope Q_scope.
Close Scope Z_scope.

Ltac sbok H x E :=
  match type of H with
  | bind ?r _ = Ok _ =>
      destruct r as [x|?] eqn:E; [unfold bind at 1 in H; cbv beta iota in H | discriminate H]
  end.

(* ------------------------------------------------------------------------------------------ *)
(* 0. the ticks of a run                                                                        *)
(* ------------------------------------------------------------------------------------------ *)

(* the i-th log entry of a run was produced by [sim_tick] from a state the run passes through *)
Theorem sim_run_log_tick C a : forall arrivals t0 s0 sf logs oe,
  sim_run C a t0 s0 arrivals = (sf, logs, oe) ->
  forall i lg, nth_error logs i = Some lg ->
  exists s s' newp,
    nth_error arrivals i = Some newp /\
    sim_reach C a t0 s0 (t0 + Z.of_nat i)%Z s /\
    sim_tick C a (t0 + Z.of_nat i)%Z s newp = Ok (s', lg) /\
    sim_reach C a t0 s0 (t0 + Z.of_nat i + 1)%Z s'.
Proof.
  induction arrivals as [|newp r IH]; intros t0 s0 sf logs oe H i lg Hi; cbn [sim_run] in H.
  - inversion H; subst. destruct i; discriminate.
  - destruct (sim_tick C a t0 s0 newp) as [[s1 lg1]|e] eqn:E.
    + destruct (sim_run C a (t0 + 1)%Z s1 r) as [[sf' logs'] e'] eqn:R'. inversion H; subst.
      destruct i as [|i].
      * cbn in Hi. inversion Hi; subst lg1. exists s0, s1, newp.
        replace (t0 + Z.of_nat 0)%Z with t0 by lia.
        split; [reflexivity|]. split; [constructor|]. split; [exact E|].
        econstructor; [constructor|exact E].
      * cbn [nth_error] in Hi. destruct (IH _ _ _ _ _ R' i lg Hi) as (s & s' & np & A & B & D & F).
        exists s, s', np.
        replace (t0 + Z.of_nat (S i))%Z with (t0 + 1 + Z.of_nat i)%Z by lia.
        split; [exact A|]. split; [eapply sim_reach_front; eauto|]. split; [exact D|].
        eapply sim_reach_front; eauto.
    + inversion H; subst. destruct i; discriminate.
Qed.

(* ------------------------------------------------------------------------------------------ *)
(* 1. one simulator tick, pool by pool                                                          *)
(* ------------------------------------------------------------------------------------------ *)

Local Notation xsteps := PriorityPoolRunFacts.xsteps.

(* [ptick C ss asgs w0 lo wf p (p', res)]: during an executor tick that starts in world [w0] with the
   container-id counter [lo] and ends in world [wf], pool [p] was ticked with its share of the commands,
   became [p'] and reported [res]; before and after it only executor requests (never ASSIGNED) changed
   the world *)
Definition ptick (C : cfg) (ss : list susp) (asgs : list asg) (w0 : world) (lo : nat) (wf : world)
           (p : pool) (x : pool * list result) : Prop :=
  exists w n w' n',
    lo <= n /\ xsteps (cf_static C) w0 w /\ xsteps (cf_static C) w' wf /\
    pool_tick C w n p (mine_s p ss) (mine_a p asgs) = Ok (w', n', fst x, snd x).

Lemma pool_tick_next C w next p ss asgs w' next' p' res :
  pool_tick C w next p ss asgs = Ok (w', next', p', res) -> next <= next'.
Proof.
  intros H. apply MemoryFacts.pool_tick_view in H. destruct H.
  apply MemoryFacts.phase2_spec in tv_p2. destruct tv_p2 as [-> _]. lia.
Qed.

Lemma Forall2_weaken {A B} (R R' : A -> B -> Prop) l l' :
  (forall a b, R a b -> R' a b) -> Forall2 R l l' -> Forall2 R' l l'.
Proof. intros H. induction 1; constructor; auto. Qed.

Lemma pools_tick_each C ss asgs : forall ps w next w' next' ps' res,
  pools_tick C w next ps ss asgs = Ok (w', next', ps', res) ->
  exists xs, Forall2 (ptick C ss asgs w next w') ps xs /\ ps' = map fst xs /\ res = flat_map snd xs.
Proof.
  induction ps as [|p t IH]; intros w next w' next' ps' res H; cbn [pools_tick] in H.
  - inversion H; subst. exists []. split; [constructor|]. split; reflexivity.
  - cbv zeta in H. sbok H r1 E1. destruct r1 as [[[w1 next1] p1] res1].
    sbok H r2 E2. destruct r2 as [[[w2 next2] t2] res2]. inversion H; subst.
    destruct (IH _ _ _ _ _ _ E2) as (xs & F & -> & ->).
    pose proof (pool_tick_xsteps _ _ _ _ _ _ _ _ _ _ E1) as X1.
    pose proof (pools_tick_xsteps _ _ _ _ _ _ _ _ _ _ E2) as X2.
    pose proof (pool_tick_next _ _ _ _ _ _ _ _ _ _ E1) as L1.
    exists ((p1, res1) :: xs). split; [|split; reflexivity].
    constructor.
    + exists w, next, w1, next1. split; [lia|]. split; [constructor|]. split; [exact X2|exact E1].
    + eapply Forall2_weaken; [|exact F]. intros q x (wq & nq & wq' & nq' & A & B & D & T).
      exists wq, nq, wq', nq'. split; [lia|]. split; [eapply xsteps_trans; eauto|]. split; assumption.
Qed.

Lemma Forall2_nth_l {A B} (R : A -> B -> Prop) l l' :
  Forall2 R l l' -> forall i a, nth_error l i = Some a -> exists b, nth_error l' i = Some b /\ R a b.
Proof.
  induction 1 as [|x y l l' Hxy F IH]; intros i a Hi; [destruct i; discriminate|].
  destruct i as [|i]; cbn in Hi.
  - inversion Hi; subst. exists y. split; [reflexivity|exact Hxy].
  - apply IH. exact Hi.
Qed.

Lemma Forall2_in_r' {A B} (R : A -> B -> Prop) l l' :
  Forall2 R l l' -> forall b, In b l' -> exists i a, nth_error l i = Some a /\ nth_error l' i = Some b /\ R a b.
Proof.
  induction 1 as [|x y l l' Hxy F IH]; intros b Hb; [destruct Hb|].
  destruct Hb as [<-|Hb].
  - exists 0, x. split; [reflexivity|]. split; [reflexivity|exact Hxy].
  - destruct (IH b Hb) as (i & a0 & A1 & A2 & A3). exists (S i), a0. auto.
Qed.

(* the simulator tick, opened: the scheduler's world, then the pools one after the other *)
Theorem sim_tick_pools C a t s newp s' lg :
  sim_tick C a t s newp = Ok (s', lg) ->
  exists w0 xs,
    mk_assignments C (e_world (sm_exec s)) (tl_asgs lg) = Ok w0 /\
    Forall2 (ptick C (tl_susp lg) (tl_asgs lg) w0 (e_next (sm_exec s)) (e_world (sm_exec s')))
            (e_pools (sm_exec s)) xs /\
    e_pools (sm_exec s') = map fst xs /\ tl_results lg = flat_map snd xs /\
    forallb (fun x => pool_in_range (length (e_pools (sm_exec s))) (su_pool x)) (tl_susp lg) = true.
Proof.
  intros H. destruct (sim_tick_exec_step _ _ _ _ _ _ _ H) as [X _].
  unfold exec_step in X. sbok X w0 M.
  apply exec_tick_ok_inv in X. cbn [e_world e_pools e_next] in X. destruct X as (B1 & _ & X).
  destruct (pools_tick_each _ _ _ _ _ _ _ _ _ _ X) as (xs & F & E1 & E2).
  exists w0, xs. auto.
Qed.

(* the pool at a position, and the pool a result comes from *)
Lemma sim_tick_pool_at C a t s newp s' lg i p :
  sim_tick C a t s newp = Ok (s', lg) -> nth_error (e_pools (sm_exec s)) i = Some p ->
  exists w0 p' res,
    mk_assignments C (e_world (sm_exec s)) (tl_asgs lg) = Ok w0 /\
    nth_error (e_pools (sm_exec s')) i = Some p' /\ incl res (tl_results lg) /\
    ptick C (tl_susp lg) (tl_asgs lg) w0 (e_next (sm_exec s)) (e_world (sm_exec s')) p (p', res).
Proof.
  intros H Hi. destruct (sim_tick_pools _ _ _ _ _ _ _ H) as (w0 & xs & M & F & E1 & E2 & _).
  destruct (Forall2_nth_l _ _ _ F i p Hi) as ([p' res] & Hx & P).
  exists w0, p', res. split; [exact M|]. split; [|split; [|exact P]].
  - rewrite E1. rewrite nth_error_map, Hx. reflexivity.
  - rewrite E2. intros r Hr. apply in_flat_map. exists (p', res). split; [eapply nth_error_In; eauto|exact Hr].
Qed.

Lemma sim_tick_result_pool C a t s newp s' lg r :
  sim_tick C a t s newp = Ok (s', lg) -> In r (tl_results lg) ->
  exists w0 i p p' res,
    mk_assignments C (e_world (sm_exec s)) (tl_asgs lg) = Ok w0 /\
    nth_error (e_pools (sm_exec s)) i = Some p /\ nth_error (e_pools (sm_exec s')) i = Some p' /\
    In r res /\
    ptick C (tl_susp lg) (tl_asgs lg) w0 (e_next (sm_exec s)) (e_world (sm_exec s')) p (p', res).
Proof.
  intros H Hr. destruct (sim_tick_pools _ _ _ _ _ _ _ H) as (w0 & xs & M & F & E1 & E2 & _).
  rewrite E2 in Hr. apply in_flat_map in Hr. destruct Hr as ([p' res] & Hx & Hr). cbn [snd] in Hr.
  destruct (Forall2_in_r' _ _ _ F _ Hx) as (i & p & A1 & A2 & A3).
  exists w0, i, p, p', res. split; [exact M|]. split; [exact A1|]. split; [|split; [exact Hr|exact A3]].
  rewrite E1, nth_error_map, A2. reflexivity.
Qed.

(* ------------------------------------------------------------------------------------------ *)
(* 2. C04 in every state and every tick of a run                                                *)
(* ------------------------------------------------------------------------------------------ *)

(* pool level: [MemoryFacts.kill_justified] with one more clause: without RAM overcommit the pool-level
   loop of the killer has no victim at all (same proof, one view of the tick) *)
Lemma kill_justified_oc C w next p ss asgs w' next' p' res :
  (forall x, (cf_rnd C x == x)%Q) ->
  pool_tick C w next p ss asgs = Ok (w', next', p', res) ->
  MemoryFacts.usage_ok p -> MemoryFacts.ids_ok next p -> all_running p ->
  (cf_overcommit C = false -> ram_ok p) -> (forall a, In a asgs -> (0 <= a_ram a)%Q) ->
  exists act2 w3 cons3 w4 cons4 act4 w1 cons1 act1 cons5 act5 vs,
    tick_active C w3 cons3 act2 = Ok (w4, cons4, act4) /\
    oom_killer C (p_max_ram p) w4 cons4 act4 = Ok (w', cons5, act5) /\
    res = map (result_of (p_id p)) (filter c_completed act5) /\
    kill_over_limit C w4 cons4 act4 = Ok (w1, cons1, act1) /\
    act1 = map (kill_when over_limit) act4 /\
    (cons4 == sumQ (map c_mem act4))%Q /\ (cons1 == sumQ (map c_mem act1))%Q /\
    (vs <> [] -> (p_max_ram p < cons1)%Q /\ cf_overcommit C = true) /\
    Forall (fun v => In v act4 /\ c_completed v = false /\
                     (c_mem v <= c_ram v)%Q /\ (0 < c_mem v)%Q) vs /\
    forall r, In r res -> r_err r = true ->
      exists c, In c act4 /\ c_completed c = false /\ r = result_of (p_id p) (dead c) /\
        ((c_ram c < c_mem c)%Q
         \/
         cf_overcommit C = true /\
         exists j, nth_error vs j = Some c /\
                   (p_max_ram p < cons1 - sumQ (map c_mem (firstn j vs)))%Q).
Proof.
  intros Ex H U I A R Hasg.
  pose proof H as H0.
  apply MemoryFacts.pool_tick_view in H. destruct H.
  destruct (act4_ids _ _ _ _ _ _ _ _ _ _ _ _ _ _ _ _ _ _ I tv_p1 tv_p2 tv_p4) as (_ & ND & _).
  pose proof (act4_no_failed _ _ _ _ _ _ _ _ _ _ _ _ _ _ _ _ _ _ A tv_p1 tv_p2 tv_p4) as NF.
  destruct (oom_killer_spec _ _ _ _ _ _ _ _ ND tv_p5)
    as (wk & consk & actk & k & vs & K1 & Ek & _ & Hids & E5 & _ & Hvs & _ & _ & Htr & _).
  pose proof (kill_over_limit_spec _ _ _ _ _ _ _ K1) as (_ & Hover & _).
  rewrite Forall_forall in Hover, Hvs.
  assert (NDk : NoDup (map c_id actk)) by (rewrite Ek, map_kill_when_ids; exact ND).
  assert (Hvs4 : forall v, In v vs ->
            In v act4 /\ c_completed v = false /\ (c_mem v <= c_ram v)%Q /\ (0 < c_mem v)%Q).
  { intros v Hv. destruct (Hvs v Hv) as [Hin Sc]. apply scorable_spec in Sc. destruct Sc as [Sc1 Sc2].
    rewrite Ek in Hin. destruct (in_map_kill_when_alive _ _ _ Hin Sc1) as [H4 Ho].
    apply Qltb_false in Ho. auto. }
  destruct (usage_chain C Ex _ _ _ _ _ _ _ _ _ _ _ _ _ _ _ _ _ _ _ _ U tv_p1 tv_p2 tv_p4 tv_p5)
    as (_ & H4 & _).
  pose proof (kill_over_limit_usage C Ex _ _ _ _ _ _ K1) as Hk.
  assert (Hcons1 : (consk == sumQ (map c_mem actk))%Q) by lra.
  assert (Hgt : vs <> [] -> (p_max_ram p < consk)%Q).
  { intros Hne. destruct vs as [|v0 vs0]; [congruence|].
    pose proof (kill_trace_exact C Ex _ _ _ Htr 0) as T. cbn in T.
    assert (L : 0 < S (length vs0)) by lia. specialize (T L). lra. }
  assert (Hoc : vs <> [] -> cf_overcommit C = true).
  { intros Hne. destruct (cf_overcommit C) eqn:Ho; [reflexivity|exfalso].
    specialize (R eq_refl). specialize (Hgt Hne).
    destruct (ram_chain _ _ _ _ _ _ _ _ _ _ H0 I (proj1 R)) as [_ Hentry].
    specialize (Hentry _ _ _ _ _ _ _ _ _ _ _ tv_p1 tv_p2 tv_p4).
    destruct (act4_ram_bound _ _ _ _ _ _ _ _ _ _ _ _ _ _ _ _ _ _ Ho R Hasg tv_p1 tv_p2 tv_p4)
      as (Ha2 & Hn4 & Hn1).
    assert (Hs1 : (0 <= sumQ (map c_ram sing1))%Q) by (apply sumQ_nonneg; exact Hn1).
    assert (Hle : (sumQ (map c_mem actk) <= sumQ (map c_ram act4))%Q).
    { rewrite Ek, map_map. apply sumQ_map_le. intros c Hc. unfold kill_when.
      destruct (over_limit c) eqn:O; [cbn; apply Hn4; apply in_map; exact Hc | apply Qltb_false; exact O]. }
    lra. }
  exists act2, w3, cons1, w4, cons4, act4, wk, consk, actk, cons5, act5, vs.
  split; [exact tv_p4|]. split; [exact tv_p5|]. split; [exact tv_res|].
  split; [exact K1|]. split; [exact Ek|]. split; [exact H4|]. split; [exact Hcons1|].
  split; [intros Hne; split; [apply Hgt|apply Hoc]; exact Hne|].
  split; [apply Forall_forall; exact Hvs4|].
  intros r Hr Herr. rewrite tv_res in Hr. apply in_map_iff in Hr. destruct Hr as (c5 & <- & Hc5).
  apply filter_In in Hc5. destruct Hc5 as [Hc5 Hcomp5]. cbn [r_err result_of] in Herr.
  rewrite E5 in Hc5. apply in_map_iff in Hc5. destruct Hc5 as (ck & E & Hck).
  pose proof Hck as Hck'. rewrite Ek in Hck'. apply in_map_iff in Hck'.
  destruct Hck' as (c4 & E4 & Hc4). subst ck.
  destruct (over_limit c4) eqn:O.
  - exists c4. split; [exact Hc4|]. split; [apply Hover; assumption|].
    split.
    + rewrite <- E. rewrite (proj1 (kill_when_hit over_limit c4 O)).
      unfold kill_if, kill_when. destruct (memb _ _); reflexivity.
    + left. apply over_limit_spec. exact O.
  - rewrite (kill_when_other over_limit c4 O) in E.
    destruct (memb (c_id c4) (firstn k (victims_order C actk))) eqn:M.
    + apply memb_In in M. rewrite (kill_if_hit _ _ M) in E.
      rewrite <- Hids in M. apply in_map_iff in M. destruct M as (v & Ev & Hv).
      assert (Hc4k : In c4 actk).
      { rewrite Ek. rewrite <- (kill_when_other over_limit c4 O). apply in_map. exact Hc4. }
      assert (Evc : v = c4).
      { apply (NoDup_ids_inj actk); auto. apply Hvs. exact Hv. }
      subst v. destruct (Hvs4 c4 Hv) as (_ & Hc0 & _).
      exists c4. split; [exact Hc4|]. split; [exact Hc0|]. split; [rewrite <- E; reflexivity|].
      right. split; [apply Hoc; intros X; rewrite X in Hv; destruct Hv|].
      destruct (In_nth_error _ _ Hv) as [j Hj]. exists j. split; [exact Hj|].
      apply (kill_trace_exact C Ex _ _ _ Htr). apply nth_error_Some. congruence.
    + exfalso. apply memb_false in M. rewrite (kill_if_miss _ _ M) in E. subst c5.
      rewrite (NF c4 Hc4 Hcomp5) in Herr. discriminate.
Qed.

Section C04Sim.
Variable C : cfg.
Variable a : algo.
Variables (np : nat) (cpu : Z) (ram : Q).
Hypothesis Ex : forall x, (cf_rnd C x == x)%Q.
Hypothesis SN : script_nonneg C.
Hypothesis Hram : (0 <= ram)%Q.

(* every state of every run: the hypotheses of the per-tick theorems, and C04 in the words of the property *)
Theorem sim_pool_inv t s :
  sim_reach C a 0%Z (init_sim C np cpu ram) t s ->
  Forall (MemoryFacts.pool_inv C (e_next (sm_exec s))) (e_pools (sm_exec s)).
Proof. intros R. eapply MemoryFacts.reach_inv; eauto. eapply sim_reach_memory; eauto. Qed.

Theorem C04_sim_invariants t s :
  sim_reach C a 0%Z (init_sim C np cpu ram) t s ->
  forall p, In p (e_pools (sm_exec s)) ->
    (forall c, In c (p_active p) -> c_completed c = false /\ (c_mem c <= c_ram c)%Q) /\
    (p_consumed p <= p_max_ram p)%Q /\
    (p_consumed p == sumQ (map c_mem (p_active p)))%Q /\
    (p_active p = [] -> (p_consumed p == 0)%Q).
Proof. intros R. eapply C04_reachable; eauto. eapply sim_reach_memory; eauto. Qed.

Theorem C04_sim_run_invariants arrivals sf logs oe :
  sim_run C a 0%Z (init_sim C np cpu ram) arrivals = (sf, logs, oe) ->
  Forall (MemoryFacts.pool_inv C (e_next (sm_exec sf))) (e_pools (sm_exec sf)) /\
  forall p, In p (e_pools (sm_exec sf)) ->
    (forall c, In c (p_active p) -> c_completed c = false /\ (c_mem c <= c_ram c)%Q) /\
    (p_consumed p <= p_max_ram p)%Q /\
    (p_consumed p == sumQ (map c_mem (p_active p)))%Q /\
    (p_active p = [] -> (p_consumed p == 0)%Q).
Proof.
  intros H. destruct (sim_run_reach _ _ _ _ _ _ _ _ H) as [t R].
  split; [eapply sim_pool_inv; eauto | eapply C04_sim_invariants; eauto].
Qed.

(* every OOM failure reported in any tick of any run is justified *)
Theorem C04_sim_kill_justified t s newp s' lg :
  sim_reach C a 0%Z (init_sim C np cpu ram) t s ->
  sim_tick C a t s newp = Ok (s', lg) ->
  forall r, In r (tl_results lg) -> r_err r = true ->
  exists i p p' w next ss asgs w' next' res,
    nth_error (e_pools (sm_exec s)) i = Some p /\ nth_error (e_pools (sm_exec s')) i = Some p' /\
    pool_tick C w next p ss asgs = Ok (w', next', p', res) /\ In r res /\
    exists act2 w3 cons3 w4 cons4 act4 w1 cons1 act1 cons5 act5 vs,
      tick_active C w3 cons3 act2 = Ok (w4, cons4, act4) /\
      oom_killer C (p_max_ram p) w4 cons4 act4 = Ok (w', cons5, act5) /\
      res = map (result_of (p_id p)) (filter c_completed act5) /\
      kill_over_limit C w4 cons4 act4 = Ok (w1, cons1, act1) /\
      act1 = map (kill_when over_limit) act4 /\
      (cons4 == sumQ (map c_mem act4))%Q /\ (cons1 == sumQ (map c_mem act1))%Q /\
      (vs <> [] -> (p_max_ram p < cons1)%Q /\ cf_overcommit C = true) /\
      Forall (fun v => In v act4 /\ c_completed v = false /\
                       (c_mem v <= c_ram v)%Q /\ (0 < c_mem v)%Q) vs /\
      exists c, In c act4 /\ c_completed c = false /\ r = result_of (p_id p) (dead c) /\
        ((c_ram c < c_mem c)%Q
         \/
         cf_overcommit C = true /\
         exists j, nth_error vs j = Some c /\
                   (p_max_ram p < cons1 - sumQ (map c_mem (firstn j vs)))%Q).
Proof.
  intros R T r Hr Herr.
  destruct (sim_tick_result_pool _ _ _ _ _ _ _ _ T Hr) as (w0 & i & p & p' & res & M & Hi & Hi' & Hin & P).
  destruct P as (w & n & w' & n' & Ln & _ & _ & PT). cbn [fst snd] in PT.
  pose proof (sim_pool_inv _ _ R) as J. rewrite Forall_forall in J.
  pose proof (MemoryFacts.pool_inv_mono C _ _ p Ln (J p (nth_error_In _ _ Hi))) as (U & I & A & _ & _ & _ & _ & RO).
  assert (Hasg : forall x, In x (mine_a p (tl_asgs lg)) -> (0 <= a_ram x)%Q).
  { intros x Hx. apply filter_In in Hx. apply Qlt_le_weak. eapply mk_assignments_ram; [exact M|tauto]. }
  destruct (kill_justified_oc _ _ _ _ _ _ _ _ _ _ Ex PT U I A RO Hasg)
    as (act2 & w3 & cons3 & w4 & cons4 & act4 & w1 & cons1 & act1 & cons5 & act5 & vs & B).
  destruct B as (B1 & B2 & B3 & B4 & B5 & B6 & B7 & B8 & B9 & B10).
  exists i, p, p', w, n, (mine_s p (tl_susp lg)), (mine_a p (tl_asgs lg)), w', n', res.
  split; [exact Hi|]. split; [exact Hi'|]. split; [exact PT|]. split; [exact Hin|].
  exists act2, w3, cons3, w4, cons4, act4, w1, cons1, act1, cons5, act5, vs.
  repeat (split; [assumption|]). apply B10; assumption.
Qed.

(* in short: the failed container was above its allocation, or RAM overcommit is on *)
Corollary C04_sim_kill_own_limit_or_overcommit t s newp s' lg :
  sim_reach C a 0%Z (init_sim C np cpu ram) t s ->
  sim_tick C a t s newp = Ok (s', lg) ->
  cf_overcommit C = false ->
  forall r, In r (tl_results lg) -> r_err r = true ->
  exists c, r = result_of (r_pool r) (dead c) /\ c_completed c = false /\ (c_ram c < c_mem c)%Q.
Proof.
  intros R T Ho r Hr Herr.
  destruct (C04_sim_kill_justified _ _ _ _ _ R T r Hr Herr)
    as (i & p & p' & w & next & ss & asgs & w' & next' & res & _ & _ & _ & _ & B).
  destruct B as (act2 & w3 & cons3 & w4 & cons4 & act4 & w1 & cons1 & act1 & cons5 & act5 & vs & B).
  destruct B as (_ & _ & _ & _ & _ & _ & _ & _ & _ & c & _ & Hc & Er & [Hl|[Hoc _]]); [|congruence].
  exists c. split; [|split; assumption]. rewrite Er. reflexivity.
Qed.

End C04Sim.

(* [any rnd] within the allocation in every state of every run *)
Theorem C04_sim_within_alloc C a np cpu ram t s :
  sim_reach C a 0%Z (init_sim C np cpu ram) t s ->
  forall p, In p (e_pools (sm_exec s)) ->
  forall c, In c (p_active p) -> (c_mem c <= c_ram c)%Q /\ c_completed c = false.
Proof. intros R. eapply reach_within_alloc. eapply sim_reach_memory; eauto. Qed.

(* ------------------------------------------------------------------------------------------ *)
(* 3. C11 in every tick of a run (any rounding, any algorithm)                                  *)
(* ------------------------------------------------------------------------------------------ *)

(* container ids of the running containers are distinct and below the counter: needs no arithmetic *)
Lemma reach_ids_ok C np cpu ram s :
  MemoryFacts.reach_exec C np cpu ram s -> Forall (MemoryFacts.ids_ok (e_next s)) (e_pools s).
Proof.
  induction 1 as [|s ss asgs s' res R IH H].
  - unfold init_estate. cbn [e_pools e_next]. apply Forall_forall. intros p Hp.
    apply in_map_iff in Hp. destruct Hp as (i & <- & _). split; [constructor | intros c []].
  - apply ConserveFacts.exec_step_inv in H. destruct H as (w & _ & H).
    eapply (ConserveFacts.pools_tick_inv C MemoryFacts.ids_ok ss asgs) in H; [apply H| | |exact IH].
    + intros n m p L I. eapply MemoryFacts.ids_ok_mono; eauto.
    + intros w0 next p w1 next1 p1 res1 I T.
      destruct (MemoryFacts.ids_ok_inv _ _ _ _ _ _ _ _ _ _ T I). auto.
Qed.

Theorem C11_sim_kills C a np cpu ram t s newp s' lg i p :
  sim_reach C a 0%Z (init_sim C np cpu ram) t s ->
  sim_tick C a t s newp = Ok (s', lg) ->
  nth_error (e_pools (sm_exec s)) i = Some p ->
  exists p' res w4 cons4 act4 w5 cons5 act5,
    nth_error (e_pools (sm_exec s')) i = Some p' /\ p_id p' = p_id p /\ p_max_ram p' = p_max_ram p /\
    incl res (tl_results lg) /\
    NoDup (map c_id act4) /\
    oom_killer C (p_max_ram p) w4 cons4 act4 = Ok (w5, cons5, act5) /\
    p_active p' = filter (fun c => negb (c_completed c)) act5 /\
    res = map (result_of (p_id p)) (filter c_completed act5) /\
    exists w1 cons1 act1 k vs,
      kill_over_limit C w4 cons4 act4 = Ok (w1, cons1, act1) /\
      act1 = map (kill_when over_limit) act4 /\
      k <= length (victims_order C act1) /\
      map c_id vs = firstn k (victims_order C act1) /\
      act5 = map (kill_if (firstn k (victims_order C act1))) act1 /\
      (forall id, In id (ids_killed act1 act5) <-> In id (firstn k (victims_order C act1))) /\
      Forall (fun v => In v act1 /\ scorable v = true) vs /\
      (forall v x, In v vs -> In x act1 -> scorable x = true ->
                   ~ In (c_id x) (ids_killed act1 act5) ->
                   (score C x <= score C v)%Q /\ ~ (score C v < score C x)%Q) /\
      cons5 = fold_left (cons_after C) vs cons1 /\
      Forall (fun q => Qle_bool q (p_max_ram p) = false) (kill_trace C cons1 vs) /\
      (k = length (victims_order C act1) \/ Qle_bool cons5 (p_max_ram p) = true).
Proof.
  intros R T Hi.
  destruct (sim_tick_pool_at _ _ _ _ _ _ _ _ _ T Hi) as (w0 & p' & res & M & Hi' & Hinc & P).
  destruct P as (w & n & w' & n' & Ln & _ & _ & PT). cbn [fst snd] in PT.
  pose proof (reach_ids_ok _ _ _ _ _ (sim_reach_memory C a np cpu ram t s R)) as J.
  rewrite Forall_forall in J.
  pose proof (MemoryFacts.ids_ok_mono _ _ p Ln (J p (nth_error_In _ _ Hi))) as I.
  apply MemoryFacts.pool_tick_view in PT. destruct PT.
  destruct (act4_ids _ _ _ _ _ _ _ _ _ _ _ _ _ _ _ _ _ _ I tv_p1 tv_p2 tv_p4) as (_ & ND & _).
  exists p', res, w4, cons4, act4, w', cons5, act5.
  split; [exact Hi'|]. split; [exact tv_id|]. split; [exact tv_max|]. split; [exact Hinc|].
  split; [exact ND|]. split; [exact tv_p5|]. split; [exact tv_active|]. split; [exact tv_res|].
  exact (oom_killer_spec _ _ _ _ _ _ _ _ ND tv_p5).
Qed.

(* ------------------------------------------------------------------------------------------ *)
(* 4. C10 over simulator ticks and runs                                                         *)
(* ------------------------------------------------------------------------------------------ *)

Lemma sim_reach_le C a t0 s0 t s : sim_reach C a t0 s0 t s -> (t0 <= t)%Z /\ (t = t0 -> s = s0).
Proof.
  induction 1 as [t s|t0 s0 t s newp s' lg R IH T]; [split; [lia|reflexivity]|].
  destruct IH as [L _]. split; [lia|]. intros E. lia.
Qed.

Lemma sim_reach_trans C a t0 s0 t1 s1 t2 s2 :
  sim_reach C a t0 s0 t1 s1 -> sim_reach C a t1 s1 t2 s2 -> sim_reach C a t0 s0 t2 s2.
Proof.
  intros R1 R2. induction R2 as [t s|t1 s1 t s newp s' lg R IH T]; [exact R1|].
  econstructor; [apply IH; exact R1|exact T].
Qed.

Lemma with_susp_same c : with_susp c (c_susp_left c) = c.
Proof. destruct c; reflexivity. Qed.

(* ---- pool level: the work comes back PENDING in the tick the countdown ends ---- *)

Lemma tick_suspending_release C : forall sing w w' sing' c,
  tick_suspending C w sing = Ok (w', sing') -> In c sing -> (c_susp_left c = 1)%Z ->
  (forall o, In o (c_ops c) -> o < length (w_st w)) ->
  forall o, In o (skipn (c_opidx c) (c_ops c)) -> st_of w' o = Pending.
Proof.
  induction sing as [|h t IH]; intros w w' sing' c H Hc Hl Rg o Ho; [destruct Hc|].
  cbn [tick_suspending] in H. sbok H r1 K. destruct r1 as [w1 h1]. sbok H r2 R. destruct r2 as [w2 t2].
  inversion H; subst.
  destruct Hc as [->|Hc].
  - pose proof (tick_suspending_xsteps _ _ _ _ _ R) as X.
    apply csuspend_tick_ok in K. destruct K as [_ [[_ T]|[N _]]]; [|lia].
    assert (P1 : st_of w1 o = Pending).
    { eapply transition_all_set; [exact T|exact Ho|]. apply Rg. eapply SuspendFacts.In_skipn; eauto. }
    rewrite (xsteps_assignable_frame _ _ _ o X); [exact P1|]. rewrite P1. reflexivity.
  - eapply IH; [exact R|exact Hc|exact Hl| |exact Ho].
    intros o' Ho'. rewrite (xsteps_length _ _ _ (csuspend_tick_xsteps _ _ _ _ _ K)). apply Rg. exact Ho'.
Qed.

(* [c] is in the suspending list when the countdown of this pool tick starts: it was there before, or it
   is moved there by a command of this tick *)
Definition enters_countdown (C : cfg) (p : pool) (ss : list susp) (c : container) : Prop :=
  In c (p_suspending p) \/
  exists su c0, In su ss /\ find_container (su_cid su) (p_active p) = Some c0 /\
                c = with_susp c0 (suspend_ticks C (c_ram c0)).

Lemma pool_tick_release C w next p ss asgs w' next' p' res c :
  pool_tick C w next p ss asgs = Ok (w', next', p', res) ->
  enters_countdown C p ss c -> (c_susp_left c = 1)%Z ->
  (forall o, In o (c_ops c) -> o < length (w_st w)) ->
  forall o, In o (skipn (c_opidx c) (c_ops c)) -> st_of w' o = Pending.
Proof.
  intros H Hc Hl Rg o Ho. apply LedgerFacts.pool_tick_inv in H.
  destruct H as (w1 & act1 & sing1 & cons1 & acpu2 & aram2 & act2 & w3 & sing3 & w4 & cons4 & act4
                 & cons5 & act5 & E1 & _ & E3 & E4 & E5 & _ & _).
  pose proof (LedgerFacts.phase1_facts _ _ _ _ _ _ _ _ E1) as (S1 & _ & I2 & _).
  assert (Hin : In c sing1).
  { destruct Hc as [Hc|(su & c0 & Hsu & F & ->)]; [apply I2; exact Hc|].
    apply LedgerFacts.phase1_inv in E1. destruct E1 as [(-> & _)|(_ & _ & A & _)]; [destruct Hsu|].
    destruct (apply_suspends_moves _ _ _ _ _ _ _ _ su A Hsu) as (c1 & F1 & Hin & _).
    rewrite F in F1. inversion F1; subst c1. exact Hin. }
  assert (P3 : st_of w3 o = Pending).
  { eapply tick_suspending_release; [exact E3|exact Hin|exact Hl| |exact Ho].
    intros o' Ho'. rewrite (steps_na_length _ _ _ S1). apply Rg. exact Ho'. }
  pose proof (tick_active_xsteps _ _ _ _ _ _ _ E4) as X4.
  pose proof (oom_killer_xsteps _ _ _ _ _ _ _ _ E5) as X5.
  rewrite (xsteps_assignable_frame _ _ _ o (xsteps_trans _ _ _ _ X4 X5)); [exact P3|].
  rewrite P3. reflexivity.
Qed.

(* ---- simulator ticks, any state ---- *)

(* a suspending container: one simulator tick takes one tick off its countdown, changes nothing else in it,
   and moves it to the suspended list when the countdown ends *)
Theorem C10_sim_countdown C a t s newp s' lg i p c :
  sim_tick C a t s newp = Ok (s', lg) ->
  nth_error (e_pools (sm_exec s)) i = Some p -> In c (p_suspending p) ->
  exists p', nth_error (e_pools (sm_exec s')) i = Some p' /\
    ((c_susp_left c = 1)%Z -> In (with_susp c 0) (p_suspended p')) /\
    ((c_susp_left c <> 1)%Z -> In (with_susp c (c_susp_left c - 1)) (p_suspending p')).
Proof.
  intros T Hi Hc.
  destruct (sim_tick_pool_at _ _ _ _ _ _ _ _ _ T Hi) as (w0 & p' & res & _ & Hi' & _ & P).
  destruct P as (w & n & w' & n' & _ & _ & _ & PT). cbn [fst snd] in PT.
  exists p'. split; [exact Hi'|]. eapply suspending_countdown; eauto.
Qed.

(* a suspended container stays in the suspended list *)
Lemma sim_tick_suspended_stays C a t s newp s' lg i p d :
  sim_tick C a t s newp = Ok (s', lg) ->
  nth_error (e_pools (sm_exec s)) i = Some p -> In d (p_suspended p) ->
  exists p', nth_error (e_pools (sm_exec s')) i = Some p' /\ In d (p_suspended p').
Proof.
  intros T Hi Hd.
  destruct (sim_tick_pool_at _ _ _ _ _ _ _ _ _ T Hi) as (w0 & p' & res & _ & Hi' & _ & P).
  destruct P as (w & n & w' & n' & _ & _ & _ & PT). cbn [fst snd] in PT.
  exists p'. split; [exact Hi'|].
  destruct (pool_tick_avail _ _ _ _ _ _ _ _ _ _ PT) as (done & fin & -> & _).
  apply in_or_app. left. exact Hd.
Qed.

Lemma sim_reach_suspended_stays C a t s t' s' i p d :
  sim_reach C a t s t' s' ->
  nth_error (e_pools (sm_exec s)) i = Some p -> In d (p_suspended p) ->
  exists p', nth_error (e_pools (sm_exec s')) i = Some p' /\ In d (p_suspended p').
Proof.
  induction 1 as [t s|t0 s0 t s newp s' lg R IH T]; intros Hi Hd; [exists p; auto|].
  destruct (IH Hi Hd) as (p1 & Hi1 & Hd1). eapply sim_tick_suspended_stays; eauto.
Qed.

(* the priority scheduler (the only shipped one that suspends) never has a suspension rejected: a run
   never stops with EBadSuspend ([PriorityRunFacts.priority_run_commands_admissible], C12) *)
Theorem C10_sim_priority_never_rejected C l np cpu ram arrivals sf logs er :
  cf_static C = mk_static l -> dags_wf l -> (0 <= cpu)%Z -> (0 <= ram)%Q ->
  sim_run C APriority 0%Z (init_sim C np cpu ram) arrivals = (sf, logs, Some er) ->
  er <> EBadSuspend.
Proof.
  intros E W Hc Hr H.
  destruct (priority_run_commands_admissible C l np cpu ram arrivals sf logs er E W Hc Hr H)
    as (_ & _ & _ & _ & X & _). exact X.
Qed.

(* ---- states of a run: ranges ---- *)

Section C10Sim.
Variable C : cfg.
Local Notation St := (cf_static C).
Hypothesis Hrange : pipes_in_range St.
Variable a : algo.
Variables (np : nat) (cpu : Z) (ram : Q).

Lemma sim_reach_range t s :
  sim_reach C a 0%Z (init_sim C np cpu ram) t s -> sim_range C a s /\ pools_std np cpu ram s.
Proof.
  intros R. split.
  - eapply (sim_reach_exec_r_from C Hrange a (init_estate C np cpu ram)); [exact R|apply sim_range_init|].
    cbn [init_sim sm_exec]. constructor.
  - apply (sim_reach_inv C a (pools_std np cpu ram)) with (2 := R); [|apply pools_std_init].
    intros t1 s1 newp s' lg P T. eapply sim_tick_pools_std; eauto.
Qed.

(* the pool tick inside a simulator tick starts in a world of the right length *)
Lemma ptick_wlen t s newp s' lg w0 p x :
  sim_range C a s -> sim_tick C a t s newp = Ok (s', lg) ->
  mk_assignments C (e_world (sm_exec s)) (tl_asgs lg) = Ok w0 ->
  ptick C (tl_susp lg) (tl_asgs lg) w0 (e_next (sm_exec s)) (e_world (sm_exec s')) p x ->
  exists w n w' n',
    e_next (sm_exec s) <= n /\
    length (w_st w) = length (s_ops St) /\ xsteps St w' (e_world (sm_exec s')) /\
    pool_tick C w n p (mine_s p (tl_susp lg)) (mine_a p (tl_asgs lg)) = Ok (w', n', fst x, snd x).
Proof.
  intros (L & _) T M (w & n & w' & n' & Ln & X0 & X1 & PT).
  exists w, n, w', n'. split; [exact Ln|]. split; [|split; assumption].
  rewrite (xsteps_length _ _ _ X0).
  rewrite (steps_length St _ _ (mk_assignments_steps C _ _ _ M)). exact L.
Qed.

(* the work of a suspending container comes back PENDING in the tick its countdown ends *)
Theorem C10_sim_release t s newp s' lg i p c :
  sim_reach C a 0%Z (init_sim C np cpu ram) t s ->
  sim_tick C a t s newp = Ok (s', lg) ->
  nth_error (e_pools (sm_exec s)) i = Some p -> In c (p_suspending p) -> (c_susp_left c = 1)%Z ->
  forall o, In o (skipn (c_opidx c) (c_ops c)) -> st_of (e_world (sm_exec s')) o = Pending.
Proof.
  intros R T Hi Hc Hl o Ho. destruct (sim_reach_range _ _ R) as [SR _].
  destruct (sim_tick_pool_at _ _ _ _ _ _ _ _ _ T Hi) as (w0 & p' & res & M & Hi' & _ & P).
  destruct (ptick_wlen _ _ _ _ _ _ _ _ SR T M P) as (w & n & w' & n' & Ln & Lw & X1 & PT).
  destruct SR as (_ & P3 & _). rewrite Forall_forall in P3.
  destruct (P3 p (nth_error_In _ _ Hi)) as (_ & B & _).
  unfold conts_in_range in B. rewrite Forall_forall in B. pose proof (B c Hc) as Bc.
  unfold ops_in_range in Bc. rewrite Forall_forall in Bc.
  assert (Pw : st_of w' o = Pending).
  { eapply pool_tick_release; [exact PT|left; exact Hc|exact Hl| |exact Ho].
    intros o' Ho'. rewrite Lw. apply Bc. exact Ho'. }
  rewrite (xsteps_assignable_frame _ _ _ o X1); [exact Pw|]. rewrite Pw. reflexivity.
Qed.

(* every suspension command of a tick that went through names a running container with can_suspend set, in
   the pool it names; the container is then one tick into its suspension of D = suspend_ticks ticks *)
Theorem C10_sim_accepted t s newp s' lg su :
  sim_reach C a 0%Z (init_sim C np cpu ram) t s ->
  sim_tick C a t s newp = Ok (s', lg) -> In su (tl_susp lg) ->
  exists i p p' c,
    su_pool su = Z.of_nat i /\ nth_error (e_pools (sm_exec s)) i = Some p /\ p_id p = i /\
    nth_error (e_pools (sm_exec s')) i = Some p' /\
    find_container (su_cid su) (p_active p) = Some c /\ c_can_suspend c = true /\
    let D := suspend_ticks C (c_ram c) in
    (D = 1%Z -> In (with_susp c 0) (p_suspended p') /\
                forall o, In o (skipn (c_opidx c) (c_ops c)) -> st_of (e_world (sm_exec s')) o = Pending) /\
    (D <> 1%Z -> In (with_susp c (D - 1)) (p_suspending p')) /\
    (forall x, In x (p_active p') -> c_id x = su_cid su -> e_next (sm_exec s) <= c_id x).
Proof.
  intros R T Hsu. destruct (sim_reach_range _ _ R) as [SR [Pid _]].
  destruct (sim_tick_pools _ _ _ _ _ _ _ T) as (w0 & xs & M & F & E1 & E2 & B).
  rewrite forallb_forall in B. specialize (B su Hsu). unfold pool_in_range in B.
  apply andb_true_iff in B. destruct B as [B1 B2]. apply Z.leb_le in B1. apply Z.ltb_lt in B2.
  set (i := Z.to_nat (su_pool su)).
  assert (Li : i < length (e_pools (sm_exec s))) by (unfold i; lia).
  destruct (nth_error (e_pools (sm_exec s)) i) as [p|] eqn:Hi; [|apply nth_error_None in Hi; lia].
  assert (Ep : p_id p = i).
  { pose proof (map_nth_error p_id _ _ Hi) as X. rewrite Pid in X.
    assert (Ln : i < np) by (rewrite <- (seq_length np 0), <- Pid, map_length; exact Li).
    rewrite (nth_error_nth' (seq 0 np) 0) in X by (rewrite seq_length; exact Ln).
    rewrite seq_nth in X by exact Ln. inversion X. reflexivity. }
  destruct (Forall2_nth_l _ _ _ F i p Hi) as ([p' res] & Hx & P).
  destruct (ptick_wlen _ _ _ _ _ _ _ _ SR T M P) as (w & n & w' & n' & Ln & Lw & X1 & PT). cbn [fst snd] in PT.
  assert (Hmine : In su (mine_s p (tl_susp lg))).
  { apply filter_In. split; [exact Hsu|]. apply Z.eqb_eq. rewrite Ep. unfold i. lia. }
  destruct (suspend_accepted_tick _ _ _ _ _ _ _ _ _ _ su PT Hmine) as (c & Fc & Cs & A1 & A2 & A3).
  exists i, p, p', c. split; [unfold i; lia|]. split; [exact Hi|]. split; [exact Ep|].
  split; [rewrite E1, nth_error_map, Hx; reflexivity|]. split; [exact Fc|]. split; [exact Cs|].
  cbv zeta. split; [|split; [exact A2|]].
  - intros ED. split; [apply A1; exact ED|]. intros o Ho.
    destruct SR as (_ & P3 & _). rewrite Forall_forall in P3.
    destruct (P3 p (nth_error_In _ _ Hi)) as (Ba & _ & _).
    unfold conts_in_range in Ba. rewrite Forall_forall in Ba.
    assert (Hc : In c (p_active p)).
    { unfold find_container in Fc. apply find_some in Fc. tauto. }
    pose proof (Ba c Hc) as Bc. unfold ops_in_range in Bc. rewrite Forall_forall in Bc.
    assert (Pw : st_of w' o = Pending).
    { eapply (pool_tick_release C w n p _ _ w' n' p' res (with_susp c (suspend_ticks C (c_ram c))));
        [exact PT| |exact ED| |exact Ho].
      - right. exists su, c. auto.
      - intros o' Ho'. rewrite Lw. apply Bc. exact Ho'. }
    rewrite (xsteps_assignable_frame _ _ _ o X1); [exact Pw|]. rewrite Pw. reflexivity.
  - intros x Hx' Hid. pose proof (A3 x Hx' Hid) as L. lia.
Qed.

(* a container in the suspending list of a state of a run, with k ticks left: whatever the scheduler orders
   in the following ticks, after j < k more ticks it is still there with k - j ticks left and otherwise
   unchanged ([with_susp] touches the counter only: no progress); after k ticks it is in the suspended list
   (and stays there), and in the state after exactly k ticks its unfinished operators are PENDING *)
Theorem C10_sim_countdown_run t s t' s' i p c :
  sim_reach C a 0%Z (init_sim C np cpu ram) t s ->
  sim_reach C a t s t' s' ->
  nth_error (e_pools (sm_exec s)) i = Some p -> In c (p_suspending p) -> (1 <= c_susp_left c)%Z ->
  exists p', nth_error (e_pools (sm_exec s')) i = Some p' /\
    ((t' - t < c_susp_left c)%Z -> In (with_susp c (c_susp_left c - (t' - t))) (p_suspending p')) /\
    ((c_susp_left c <= t' - t)%Z -> In (with_susp c 0) (p_suspended p')) /\
    ((t' - t = c_susp_left c)%Z ->
     forall o, In o (skipn (c_opidx c) (c_ops c)) -> st_of (e_world (sm_exec s')) o = Pending).
Proof.
  intros R0 R Hi Hc Hk. revert R0.
  induction R as [t s|t s t1 s1 newp s' lg R IH T]; intros R0.
  - exists p. split; [exact Hi|]. split; [|split; intros; lia].
    intros _. replace (c_susp_left c - (t - t))%Z with (c_susp_left c) by lia.
    rewrite with_susp_same. exact Hc.
  - destruct (IH Hi R0) as (p1 & Hi1 & A1 & A2 & _).
    pose proof (sim_reach_le _ _ _ _ _ _ R) as [Lt _].
    pose proof (sim_reach_trans _ _ _ _ _ _ _ _ R0 R) as R1.
    destruct (Z_lt_le_dec (t1 - t) (c_susp_left c)) as [Lk|Lk].
    + specialize (A1 Lk). set (c1 := with_susp c (c_susp_left c - (t1 - t))) in *.
      destruct (C10_sim_countdown C a t1 s1 newp s' lg i p1 c1 T Hi1 A1) as (p' & Hi' & B1 & B2).
      exists p'. split; [exact Hi'|].
      destruct (Z.eq_dec (c_susp_left c1) 1) as [E1|E1].
      * specialize (B1 E1). cbn [c1 with_susp c_susp_left] in E1.
        split; [intros; lia|]. split; [intros _; exact B1|].
        intros _ o Ho.
        exact (C10_sim_release t1 s1 newp s' lg i p1 c1 R1 T Hi1 A1 E1 o Ho).
      * specialize (B2 E1). cbn [c1 with_susp c_susp_left] in E1.
        split; [|split; intros; lia].
        intros _. unfold c1 in B2. cbn [with_susp c_susp_left c_id c_ops c_cpu c_ram c_prio c_opidx c_rest
          c_frozen c_mem c_can_suspend c_completed c_error c_ticks] in B2.
        replace (c_susp_left c - (t1 + 1 - t))%Z with (c_susp_left c - (t1 - t) - 1)%Z by lia. exact B2.
    + specialize (A2 Lk).
      destruct (sim_tick_suspended_stays _ _ _ _ _ _ _ _ _ _ T Hi1 A2) as (p' & Hi' & Hd).
      exists p'. split; [exact Hi'|]. split; [intros; lia|]. split; [intros _; exact Hd|intros; lia].
Qed.

(* the whole suspension of a run: the command is accepted in tick t; j ticks later (j counted from the
   accepting tick, which is the first of the D ticks) ... *)
Theorem C10_sim_suspension_lasts t s newp s1 lg su t' s' :
  sim_reach C a 0%Z (init_sim C np cpu ram) t s ->
  sim_tick C a t s newp = Ok (s1, lg) -> In su (tl_susp lg) ->
  sim_reach C a (t + 1)%Z s1 t' s' ->
  exists i p c p',
    su_pool su = Z.of_nat i /\ nth_error (e_pools (sm_exec s)) i = Some p /\ p_id p = i /\
    find_container (su_cid su) (p_active p) = Some c /\ c_can_suspend c = true /\
    nth_error (e_pools (sm_exec s')) i = Some p' /\
    let D := suspend_ticks C (c_ram c) in
    ((t' - t < D)%Z -> In (with_susp c (D - (t' - t))) (p_suspending p')) /\
    ((D <= t' - t)%Z -> In (with_susp c 0) (p_suspended p')) /\
    ((t' - t = D)%Z ->
     forall o, In o (skipn (c_opidx c) (c_ops c)) -> st_of (e_world (sm_exec s')) o = Pending).
Proof.
  intros R T Hsu R'.
  destruct (C10_sim_accepted _ _ _ _ _ _ R T Hsu) as (i & p & p1 & c & E1 & Hi & Ep & Hi1 & Fc & Cs & A).
  cbv zeta in A. destruct A as (A1 & A2 & _).
  pose proof (suspend_ticks_ge_1 C (c_ram c)) as HD.
  pose proof (sim_reach_le _ _ _ _ _ _ R') as [Lt Eq].
  assert (R1 : sim_reach C a 0%Z (init_sim C np cpu ram) (t + 1)%Z s1) by (econstructor; eauto).
  destruct (Z.eq_dec (suspend_ticks C (c_ram c)) 1) as [ED|ED].
  - destruct (A1 ED) as [Hd Hp].
    destruct (sim_reach_suspended_stays _ _ _ _ _ _ _ _ _ R' Hi1 Hd) as (p' & Hi' & Hd').
    exists i, p, c, p'. repeat (split; [assumption|]). cbv zeta.
    split; [intros; lia|]. split; [intros _; exact Hd'|].
    intros E. assert (Et : t' = (t + 1)%Z) by lia. rewrite (Eq Et). exact Hp.
  - specialize (A2 ED). set (c1 := with_susp c (suspend_ticks C (c_ram c) - 1)) in *.
    assert (Hk : (1 <= c_susp_left c1)%Z) by (cbn [c1 with_susp c_susp_left]; lia).
    destruct (C10_sim_countdown_run _ _ _ _ i p1 c1 R1 R' Hi1 A2 Hk) as (p' & Hi' & B1 & B2 & B3).
    cbn [c1 with_susp c_susp_left c_ops c_opidx] in B1, B2, B3.
    exists i, p, c, p'. repeat (split; [assumption|]). cbv zeta. split; [|split].
    + intros L. assert (L' : (t' - (t + 1) < suspend_ticks C (c_ram c) - 1)%Z) by lia.
      specialize (B1 L'). unfold c1 in B1.
      cbn [with_susp c_susp_left c_id c_ops c_cpu c_ram c_prio c_opidx c_rest
          c_frozen c_mem c_can_suspend c_completed c_error c_ticks] in B1.
      replace (suspend_ticks C (c_ram c) - (t' - t))%Z
        with (suspend_ticks C (c_ram c) - 1 - (t' - (t + 1)))%Z by lia. exact B1.
    + intros L. apply B2. lia.
    + intros L. apply B3. lia.
Qed.

End C10Sim.

(* ------------------------------------------------------------------------------------------ *)
(* 5. C05: one container tick per simulator tick                                                *)
(* ------------------------------------------------------------------------------------------ *)

Lemma Forall2_in_l' {A B} (R : A -> B -> Prop) l l' :
  Forall2 R l l' -> forall a, In a l -> exists b, In b l' /\ R a b.
Proof.
  induction 1 as [|x y l l' Hxy F IH]; intros a0 Ha; [destruct Ha|].
  destruct Ha as [<-|Ha].
  - exists y. split; [left; reflexivity|exact Hxy].
  - destruct (IH a0 Ha) as (b & Hb & Rb). exists b. split; [right; exact Hb|exact Rb].
Qed.

Lemma apply_suspends_keeps C : forall ss w act sing w' act' sing' c,
  apply_suspends C w act sing ss = Ok (w', act', sing') ->
  In c act -> ~ In (c_id c) (map su_cid ss) -> In c act'.
Proof.
  induction ss as [|s t IH]; intros w act sing w' act' sing' c H Hc Hn; cbn [apply_suspends] in H.
  - inversion H; subst. exact Hc.
  - destruct (find_container (su_cid s) act) as [c0|]; [|discriminate].
    sbok H r1 K. destruct r1 as [w1 c1].
    eapply IH; [exact H| |].
    + unfold remove_container. apply filter_In. split; [exact Hc|]. apply negb_true_iff. apply Nat.eqb_neq.
      intros E. apply Hn. left. symmetry. exact E.
    + intros X. apply Hn. right. exact X.
Qed.

(* pool level: a running container that no command of the tick suspends is ticked exactly once ([c1]);
   the killer leaves it alone or kills it ([c5]); if it is still unfinished it is in the running list after
   the tick, otherwise it is reported in the tick's results *)
Lemma pool_tick_container_step C w next p ss asgs w' next' p' res c :
  pool_tick C w next p ss asgs = Ok (w', next', p', res) ->
  MemoryFacts.ids_ok next p -> In c (p_active p) -> ~ In (c_id c) (map su_cid ss) ->
  exists wa consa wb consb c1 c5,
    ctick C wa consa c = Ok (wb, consb, c1) /\
    (c5 = c1 \/ c5 = dead c1 /\ c_completed c1 = false) /\
    (c_completed c5 = false -> In c5 (p_active p')) /\
    (c_completed c5 = true -> In (result_of (p_id p) c5) res).
Proof.
  intros H I Hc Hn. apply MemoryFacts.pool_tick_view in H. destruct H.
  destruct (act4_ids _ _ _ _ _ _ _ _ _ _ _ _ _ _ _ _ _ _ I tv_p1 tv_p2 tv_p4) as (_ & ND & _).
  assert (H1 : In c act1).
  { unfold MemoryFacts.phase1 in tv_p1. destruct ss as [|s0 t0]; [inversion tv_p1; subst; exact Hc|].
    sbok tv_p1 u V. sbok tv_p1 r1 A. destruct r1 as [[wa acta] singa]. inversion tv_p1; subst.
    eapply apply_suspends_keeps; eauto. }
  assert (H2 : In c act2).
  { apply MemoryFacts.phase2_spec in tv_p2. destruct tv_p2 as (_ & _ & _ & news & -> & _).
    apply in_or_app. left. exact H1. }
  pose proof (tick_active_spec _ _ _ _ _ _ _ tv_p4) as (_ & _ & F2).
  destruct (Forall2_in_l' _ _ _ F2 _ H2) as (c1 & H4 & wa & ca & wb & cb & _ & K & _).
  destruct (oom_killer_spec _ _ _ _ _ _ _ _ ND tv_p5)
    as (wk & consk & actk & k & vs & K1 & Ek & _ & Hids & E5 & _ & Hvs & _).
  pose proof (kill_over_limit_spec _ _ _ _ _ _ _ K1) as (_ & Hover & _).
  rewrite Forall_forall in Hover, Hvs.
  assert (NDk : NoDup (map c_id actk)) by (rewrite Ek, map_kill_when_ids; exact ND).
  set (ck := kill_when over_limit c1).
  assert (Hck : In ck actk) by (rewrite Ek; apply in_map; exact H4).
  set (c5 := kill_if (firstn k (victims_order C actk)) ck).
  assert (H5 : In c5 act5) by (rewrite E5; apply in_map; exact Hck).
  assert (Hcases : c5 = c1 \/ c5 = dead c1 /\ c_completed c1 = false).
  { unfold c5, ck, kill_if, kill_when. destruct (over_limit c1) eqn:O.
    - right. split; [destruct (memb _ _); reflexivity|]. apply Hover; assumption.
    - destruct (memb (c_id c1) (firstn k (victims_order C actk))) eqn:M; [|left; reflexivity].
      right. split; [reflexivity|]. apply memb_In in M. rewrite <- Hids in M.
      apply in_map_iff in M. destruct M as (v & Ev & Hv). destruct (Hvs v Hv) as [Hin Sc].
      assert (Evc : v = c1).
      { apply (NoDup_ids_inj actk); auto. unfold ck, kill_when in Hck. rewrite O in Hck. exact Hck. }
      subst v. apply scorable_spec in Sc. tauto. }
  exists wa, ca, wb, cb, c1, c5. split; [exact K|]. split; [exact Hcases|]. split.
  - intros Hf. rewrite tv_active. apply filter_In. split; [exact H5|]. rewrite Hf. reflexivity.
  - intros Ht. rewrite tv_res. apply in_map. apply filter_In. split; assumption.
Qed.

(* simulator level, every algorithm, every state of a run *)
Theorem C05_sim_container_tick C a np cpu ram t s newp s' lg i p c :
  sim_reach C a 0%Z (init_sim C np cpu ram) t s ->
  sim_tick C a t s newp = Ok (s', lg) ->
  nth_error (e_pools (sm_exec s)) i = Some p -> In c (p_active p) ->
  (forall su, In su (tl_susp lg) -> su_cid su <> c_id c) ->
  exists p' wa consa wb consb c1 c5,
    nth_error (e_pools (sm_exec s')) i = Some p' /\
    ctick C wa consa c = Ok (wb, consb, c1) /\
    (c5 = c1 \/ c5 = dead c1 /\ c_completed c1 = false) /\
    (c_completed c5 = false -> In c5 (p_active p')) /\
    (c_completed c5 = true -> In (result_of (p_id p) c5) (tl_results lg)).
Proof.
  intros R T Hi Hc Hq.
  destruct (sim_tick_pool_at _ _ _ _ _ _ _ _ _ T Hi) as (w0 & p' & res & M & Hi' & Hinc & P).
  destruct P as (w & n & w' & n' & Ln & _ & _ & PT). cbn [fst snd] in PT.
  pose proof (reach_ids_ok _ _ _ _ _ (sim_reach_memory C a np cpu ram t s R)) as J.
  rewrite Forall_forall in J.
  pose proof (MemoryFacts.ids_ok_mono _ _ p Ln (J p (nth_error_In _ _ Hi))) as I.
  assert (Hn : ~ In (c_id c) (map su_cid (mine_s p (tl_susp lg)))).
  { intros X. apply in_map_iff in X. destruct X as (su & E & Hsu). apply filter_In in Hsu.
    apply (Hq su); tauto. }
  destruct (pool_tick_container_step _ _ _ _ _ _ _ _ _ _ _ PT I Hc Hn)
    as (wa & ca & wb & cb & c1 & c5 & K & Hcs & A1 & A2).
  exists p', wa, ca, wb, cb, c1, c5. split; [exact Hi'|]. split; [exact K|]. split; [exact Hcs|].
  split; [exact A1|]. intros Ht. apply Hinc. apply A2. exact Ht.
Qed.

(* ------------------------------------------------------------------------------------------ *)
(* Examples (non-vacuity)                                                                       *)
(* ------------------------------------------------------------------------------------------ *)
Module SimCorExamples.

Definition ok_state (s0 : sim) (r : res (sim * tick_log)) : sim :=
  match r with Ok (s, _) => s | Err _ => s0 end.
Definition ok_log (r : res (sim * tick_log)) : tick_log :=
  match r with
  | Ok (_, lg) => lg
  | Err _ => {| tl_new := []; tl_susp := []; tl_asgs := []; tl_results := []; tl_finished := [] |}
  end.

(* ---- C04 / C11: overbook with RAM overcommit. Two one-operator pipelines, each operator uses 6 GB for
   three ticks; one pool of 10 CPUs / 10 GB. Overbook gives both containers the whole 10 GB in tick 0:
   both are within their allocation, together they use 12 GB > 10 GB, so the pool-level loop of the
   killer takes the first of the two equal scores (container 0); container 1 keeps running. ---- *)
Definition Lk : list (prio * dag) := [(Batch, [[]]); (Batch, [[]])].
Definition Ck : cfg :=
  {| cf_static := mk_static Lk; cf_script := fun _ _ => [6%Q; 6%Q; 6%Q];
     cf_tps := 10%Z; cf_overcommit := true; cf_multi := true; cf_rnd := fun q => q |}.

Lemma Ck_exact : forall x, (cf_rnd Ck x == x)%Q.
Proof. intros x. reflexivity. Qed.
Lemma Ck_nonneg : script_nonneg Ck.
Proof. intros op cpus m H. cbn in H. destruct H as [<-|[<-|[<-|[]]]]; lra. Qed.

Definition k0 : sim := init_sim Ck 1 10%Z 10%Q.
Definition k1 : sim := ok_state k0 (sim_tick Ck AOverbook 0%Z k0 [0; 1]).
Definition klg0 : tick_log := ok_log (sim_tick Ck AOverbook 0%Z k0 [0; 1]).
Definition k2 : sim := ok_state k1 (sim_tick Ck AOverbook 1%Z k1 []).

Lemma k_tick0 : sim_tick Ck AOverbook 0%Z k0 [0; 1] = Ok (k1, klg0).
Proof. vm_compute. reflexivity. Qed.

Lemma k_reach0 : sim_reach Ck AOverbook 0%Z (init_sim Ck 1 10%Z 10%Q) 0%Z k0.
Proof. constructor. Qed.
Lemma k_reach1 : sim_reach Ck AOverbook 0%Z (init_sim Ck 1 10%Z 10%Q) 1%Z k1.
Proof. exact (sr_step Ck AOverbook 0%Z k0 0%Z k0 [0; 1] k1 klg0 k_reach0 k_tick0). Qed.

(* what happened in tick 0: both assigned with 10 GB, container 0 failed, container 1 (6 GB of 10) runs on *)
Example k_facts :
  map (fun x => (a_ops x, Qred (a_ram x))) (tl_asgs klg0) = [([0], 10%Q); ([1], 10%Q)] /\
  map (fun r => (r_cid r, r_err r, Qred (r_ram r))) (tl_results klg0) = [(0, true, 10%Q)] /\
  map (fun p => map (fun c => (c_id c, Qred (c_mem c), Qred (c_ram c))) (p_active p)) (e_pools (sm_exec k1))
    = [[(1, 6%Q, 10%Q)]] /\
  map (fun p => Qred (p_consumed p)) (e_pools (sm_exec k1)) = [6%Q].
Proof. vm_compute. repeat split; reflexivity. Qed.

Example k_failure : exists r, In r (tl_results klg0) /\ r_err r = true.
Proof.
  destruct (tl_results klg0) as [|r t] eqn:E; [vm_compute in E; discriminate|].
  exists r. split; [left; reflexivity|].
  assert (X : map r_err (tl_results klg0) = [true]) by (vm_compute; reflexivity).
  rewrite E in X. cbn [map] in X. inversion X. reflexivity.
Qed.

Lemma k_pool0 : exists p, nth_error (e_pools (sm_exec k0)) 0 = Some p.
Proof. eexists. reflexivity. Qed.

(* tick 1 of the same run: container 1 is ticked once more (second of its three ticks); the retried operator 0
   comes back in container 2 with 10 GB, the pool is over its capacity again and container 1 is the victim *)
Definition klg1 : tick_log := ok_log (sim_tick Ck AOverbook 1%Z k1 []).
Lemma k_tick1 : sim_tick Ck AOverbook 1%Z k1 [] = Ok (k2, klg1).
Proof. vm_compute. reflexivity. Qed.
Lemma k_active1 : exists p c, nth_error (e_pools (sm_exec k1)) 0 = Some p /\ In c (p_active p) /\ c_id c = 1 /\
  (forall su, In su (tl_susp klg1) -> su_cid su <> c_id c).
Proof.
  destruct (nth_error (e_pools (sm_exec k1)) 0) as [p|] eqn:E; [|vm_compute in E; discriminate].
  assert (X : map c_id (p_active p) = [1]).
  { assert (Y : option_map (fun q => map c_id (p_active q)) (nth_error (e_pools (sm_exec k1)) 0) = Some [1])
      by (vm_compute; reflexivity).
    rewrite E in Y. cbn in Y. inversion Y. reflexivity. }
  destruct (p_active p) as [|c t] eqn:Ea; [discriminate|]. cbn [map] in X. inversion X.
  exists p, c. split; [reflexivity|]. split; [rewrite Ea; left; reflexivity|]. split; [congruence|].
  assert (Z0 : tl_susp klg1 = []) by (vm_compute; reflexivity). rewrite Z0. intros su Hsu. destruct Hsu.
Qed.
Example k_facts1 :
  map (fun p => map (fun c => (c_id c, c_ticks c, c_completed c)) (p_active p)) (e_pools (sm_exec k1))
    = [[(1, 1%Z, false)]] /\
  map (fun p => map (fun c => (c_id c, c_ticks c, c_completed c)) (p_active p)) (e_pools (sm_exec k2))
    = [[(2, 1%Z, false)]] /\
  map (fun r => (r_cid r, r_err r)) (tl_results klg1) = [(1, true)].
Proof. vm_compute. repeat split; reflexivity. Qed.

(* ---- C10: the priority scheduler preempts a batch container for a query job
   ([PriorityRunFacts.RunExamples]: one pool of 2 CPUs / 40 GB, 10 ticks per second; the container holds
   4 GB, so its suspension lasts max(1, floor(4/20 * 10)) = 2 ticks). ---- *)
Definition Cp : cfg := RunExamples.exC true.

Lemma Cp_range : pipes_in_range (cf_static Cp).
Proof. apply mk_static_pipes_in_range. exact RunExamples.exL_wf. Qed.

Definition p0 : sim := init_sim Cp 1 2%Z 40%Q.
Definition p1 : sim := ok_state p0 (sim_tick Cp APriority 0%Z p0 [0; 1]).
Definition p2 : sim := ok_state p1 (sim_tick Cp APriority 1%Z p1 []).
Definition p3 : sim := ok_state p2 (sim_tick Cp APriority 2%Z p2 [2]).
Definition plg2 : tick_log := ok_log (sim_tick Cp APriority 2%Z p2 [2]).
Definition p4 : sim := ok_state p3 (sim_tick Cp APriority 3%Z p3 []).
Definition plg3 : tick_log := ok_log (sim_tick Cp APriority 3%Z p3 []).

Lemma p_tick0 : exists lg, sim_tick Cp APriority 0%Z p0 [0; 1] = Ok (p1, lg).
Proof. eexists. vm_compute. reflexivity. Qed.
Lemma p_tick1 : exists lg, sim_tick Cp APriority 1%Z p1 [] = Ok (p2, lg).
Proof. eexists. vm_compute. reflexivity. Qed.
Lemma p_tick2 : sim_tick Cp APriority 2%Z p2 [2] = Ok (p3, plg2).
Proof. vm_compute. reflexivity. Qed.
Lemma p_tick3 : sim_tick Cp APriority 3%Z p3 [] = Ok (p4, plg3).
Proof. vm_compute. reflexivity. Qed.

Lemma p_reach2 : sim_reach Cp APriority 0%Z (init_sim Cp 1 2%Z 40%Q) 2%Z p2.
Proof.
  destruct p_tick0 as [lg0 T0]. destruct p_tick1 as [lg1 T1].
  exact (sr_step Cp APriority 0%Z p0 1%Z p1 [] p2 lg1
           (sr_step Cp APriority 0%Z p0 0%Z p0 [0; 1] p1 lg0 (sr_here Cp APriority 0%Z p0) T0) T1).
Qed.
Lemma p_reach34 : sim_reach Cp APriority 3%Z p3 4%Z p4.
Proof. exact (sr_step Cp APriority 3%Z p3 3%Z p3 [] p4 plg3 (sr_here Cp APriority 3%Z p3) p_tick3). Qed.

(* the command of tick 2, the countdown, the work back PENDING after two ticks *)
Example p_facts :
  map (fun x => (su_cid x, su_pool x)) (tl_susp plg2) = [(0, 0%Z)] /\
  map (fun p => map (fun c => (c_id c, c_ops c, c_opidx c, c_can_suspend c, Qred (c_ram c))) (p_active p))
      (e_pools (sm_exec p2)) = [[(0, [0; 1], 1, true, 4%Q); (1, [2; 3], 1, true, 36%Q)]] /\
  suspend_ticks Cp 4%Q = 2%Z /\
  map (fun p => map (fun c => (c_id c, c_susp_left c)) (p_suspending p)) (e_pools (sm_exec p3)) = [[(0, 1%Z)]] /\
  map (fun p => map (fun c => (c_id c, c_susp_left c)) (p_suspended p)) (e_pools (sm_exec p4)) = [[(0, 0%Z)]] /\
  w_st (e_world (sm_exec p3)) = [Completed; Suspending; Completed; Running; Pending] /\
  w_st (e_world (sm_exec p4)) = [Completed; Pending; Completed; Completed; Pending].
Proof. vm_compute. repeat split; reflexivity. Qed.

Lemma p_susp : exists su, In su (tl_susp plg2) /\ su_cid su = 0.
Proof.
  destruct (tl_susp plg2) as [|su t] eqn:E; [vm_compute in E; discriminate|].
  exists su. split; [left; reflexivity|].
  assert (X : map su_cid (tl_susp plg2) = [0]) by (vm_compute; reflexivity).
  rewrite E in X. cbn [map] in X. inversion X. reflexivity.
Qed.

End SimCorExamples.
