(* Facts about the scheduler-generic simulator loop (Model/SimGen.v):
   1. with [lift_sched C a] it is the loop of Model/Simulator.v;
   2. what one tick does to the state (inversion lemma);
   3. a simulation lemma: two schedulers that issue the same commands in related states give the same run
      up to their private state. *)
From Coq Require Import ZArith QArith List Bool Arith Lia.
Import ListNotations.
From Eudoxia Require Import Num.Rnd64 Model.Types Model.Dag Model.Lifecycle Model.Container Model.Pool
  Model.Executor Model.Sched Model.Simulator Model.SimGen.
Close Scope Q_scope.
Close Scope Z_scope.

(* ---------------------------------------------------------------------------------------------- *)
(* 1. the generic loop is the existing loop *)

Lemma sim_of_g_of_sim s : sim_of_g (g_of_sim s) = s.
Proof. destruct s; reflexivity. Qed.

Lemma g_of_sim_of_g s : g_of_sim (sim_of_g s) = s.
Proof. destruct s; reflexivity. Qed.

Lemma gsim_tick_lift C a tick s newp :
  gsim_tick C (lift_sched C a) tick (g_of_sim s) newp
  = match sim_tick C a tick s newp with
    | Ok (s', lg) => Ok (g_of_sim s', lg)
    | Err e => Err e
    end.
Proof.
  unfold gsim_tick, sim_tick, lift_sched. cbn [g_of_sim gm_arrival gm_outstanding gm_sched gm_exec gm_results
    gm_lat gm_created gm_nasg gm_nsusp gm_nfail].
  destruct (record_arrivals tick newp (sm_arrival s)) as [arr|e]; cbn [bind]; [|reflexivity].
  destruct (sched_step C a (sm_sched s) (sm_exec s) (sm_results s) newp) as [[[[ss' w'] susps] asgs]|e];
    cbn [bind]; [|reflexivity].
  destruct (exec_tick C _ susps asgs) as [[e2 results]|e]; cbn [bind]; reflexivity.
Qed.

Theorem gsim_run_is_sim_run C a : forall arrivals tick s,
  gsim_run C (lift_sched C a) tick (g_of_sim s) arrivals
  = let '(sf, logs, e) := sim_run C a tick s arrivals in (g_of_sim sf, logs, e).
Proof.
  induction arrivals as [|newp t IH]; intros tick s; [reflexivity|].
  cbn [gsim_run sim_run]. rewrite gsim_tick_lift.
  destruct (sim_tick C a tick s newp) as [[s' lg]|e]; [|reflexivity].
  rewrite IH. destruct (sim_run C a (tick + 1)%Z s' t) as [[sf logs] e]. reflexivity.
Qed.

(* the same, read in the other direction: [sim_run] is the generic loop at [sched_step] *)
Corollary sim_run_is_gsim_run C a arrivals tick s :
  sim_run C a tick s arrivals
  = let '(sf, logs, e) := gsim_run C (lift_sched C a) tick (g_of_sim s) arrivals in (sim_of_g sf, logs, e).
Proof.
  rewrite gsim_run_is_sim_run. destruct (sim_run C a tick s arrivals) as [[sf logs] e].
  rewrite sim_of_g_of_sim. reflexivity.
Qed.

(* ---------------------------------------------------------------------------------------------- *)
(* 2. one tick *)

Lemma record_arrivals_ok tick : forall newp arr arr',
  record_arrivals tick newp arr = Ok arr' -> arr' = arr ++ map (fun p => (p, tick)) newp.
Proof.
  induction newp as [|p t IH]; intros arr arr' H; cbn in H.
  - inversion H. cbn. now rewrite app_nil_r.
  - destruct (existsb _ arr); [discriminate|]. apply IH in H. rewrite H, <- app_assoc. reflexivity.
Qed.

Lemma record_arrivals_nil tick arr : record_arrivals tick [] arr = Ok arr.
Proof. reflexivity. Qed.

Section Tick.
Context {SS : Type}.
Variable C : cfg.
Variable step : gstep SS.

Lemma gsim_tick_inv tick s newp s' lg :
  gsim_tick C step tick s newp = Ok (s', lg) ->
  exists w su a,
    step (gm_sched s) (gm_exec s) (gm_results s) newp tick = Ok (gm_sched s', w, su, a) /\
    gm_arrival s' = gm_arrival s ++ map (fun p => (p, tick)) newp /\
    exec_tick C {| e_world := w; e_pools := e_pools (gm_exec s); e_next := e_next (gm_exec s) |} su a
      = Ok (gm_exec s', gm_results s') /\
    tl_new lg = newp /\ tl_susp lg = su /\ tl_asgs lg = a /\ tl_results lg = gm_results s'.
Proof.
  unfold gsim_tick. intros H.
  destruct (record_arrivals tick newp (gm_arrival s)) as [arr|e] eqn:Ha; cbn [bind] in H; [|discriminate].
  destruct (step (gm_sched s) (gm_exec s) (gm_results s) newp tick) as [[[[ss' w'] susps] asgs]|e] eqn:Hs;
    cbn [bind] in H; [|discriminate].
  destruct (exec_tick C _ susps asgs) as [[e2 results]|e] eqn:He; cbn [bind] in H; [|discriminate].
  inversion H; subst; clear H. cbn.
  exists w', susps, asgs. apply record_arrivals_ok in Ha. repeat split; auto.
Qed.

Lemma gsim_tick_err_step tick s newp e :
  record_arrivals tick newp (gm_arrival s) = Ok (gm_arrival s ++ map (fun p => (p, tick)) newp) ->
  step (gm_sched s) (gm_exec s) (gm_results s) newp tick = Err e ->
  gsim_tick C step tick s newp = Err e.
Proof. intros Ha Hs. unfold gsim_tick. rewrite Ha. cbn [bind]. rewrite Hs. reflexivity. Qed.

Lemma gsim_states_length : forall arrivals tick s,
  length (gsim_states C step tick s arrivals) <= length arrivals.
Proof.
  induction arrivals as [|newp t IH]; intros tick s; cbn; [lia|].
  destruct (gsim_tick C step tick s newp) as [[s' lg]|e]; cbn; [|lia].
  specialize (IH (tick + 1)%Z s'). lia.
Qed.

Lemma gsim_states_head arrivals tick s newp :
  nth_error arrivals 0 = Some newp -> nth_error (gsim_states C step tick s arrivals) 0 = Some s.
Proof. destruct arrivals; cbn; [discriminate|reflexivity]. Qed.

End Tick.

(* ---------------------------------------------------------------------------------------------- *)
(* 3. simulation: same commands in related states => same run up to the private state *)

Definition step_agree {S1 S2} (r1 : res (S1 * world * list susp * list asg))
           (r2 : res (S2 * world * list susp * list asg)) : Prop :=
  match r1, r2 with
  | Ok (_, w1, su1, a1), Ok (_, w2, su2, a2) => w1 = w2 /\ su1 = su2 /\ a1 = a2
  | Err e1, Err e2 => e1 = e2
  | _, _ => False
  end.

Lemma gforget_fields {S1 S2} (s1 : gsim S1) (s2 : gsim S2) :
  gforget s1 = gforget s2 ->
  gm_exec s1 = gm_exec s2 /\ gm_results s1 = gm_results s2 /\ gm_outstanding s1 = gm_outstanding s2 /\
  gm_arrival s1 = gm_arrival s2 /\ gm_lat s1 = gm_lat s2 /\ gm_created s1 = gm_created s2 /\
  gm_nasg s1 = gm_nasg s2 /\ gm_nsusp s1 = gm_nsusp s2 /\ gm_nfail s1 = gm_nfail s2.
Proof. destruct s1, s2; unfold gforget, gwith; cbn; intros H; inversion H; repeat split; reflexivity. Qed.

Section Simulation.
Context {S1 S2 : Type}.
Variable C : cfg.
Variable step1 : gstep S1.
Variable step2 : gstep S2.

Lemma gsim_tick_agree tick (s1 : gsim S1) (s2 : gsim S2) newp :
  gforget s1 = gforget s2 ->
  step_agree (step1 (gm_sched s1) (gm_exec s1) (gm_results s1) newp tick)
             (step2 (gm_sched s2) (gm_exec s2) (gm_results s2) newp tick) ->
  match gsim_tick C step1 tick s1 newp, gsim_tick C step2 tick s2 newp with
  | Ok (s1', l1), Ok (s2', l2) => l1 = l2 /\ gforget s1' = gforget s2'
  | Err e1, Err e2 => e1 = e2
  | _, _ => False
  end.
Proof.
  intros Hf Hs. apply gforget_fields in Hf.
  destruct Hf as (He & Hr & Ho & Ha & Hl & Hc & Hn & Hu & Hx).
  unfold gsim_tick. rewrite <- He, <- Hr, <- Ho, <- Ha, <- Hl, <- Hc, <- Hn, <- Hu, <- Hx.
  destruct (record_arrivals tick newp (gm_arrival s1)) as [arr|e]; cbn [bind]; [|reflexivity].
  rewrite <- He, <- Hr in Hs. unfold step_agree in Hs.
  destruct (step1 (gm_sched s1) (gm_exec s1) (gm_results s1) newp tick) as [[[[x1 w1] su1] a1]|e1];
    destruct (step2 (gm_sched s2) (gm_exec s1) (gm_results s1) newp tick) as [[[[x2 w2] su2] a2]|e2];
    cbn [bind]; try contradiction; [|exact Hs].
  destruct Hs as (-> & -> & ->).
  destruct (exec_tick C _ su2 a2) as [[e2 results]|e]; cbn [bind]; [|reflexivity].
  split; reflexivity.
Qed.

Variable R : Z -> gsim S1 -> gsim S2 -> Prop.
Variable P : Z -> gsim S1 -> list nat -> Prop.

Hypothesis R_forget : forall t s1 s2, R t s1 s2 -> gforget s1 = gforget s2.
Hypothesis R_agree : forall t s1 s2 newp, R t s1 s2 -> P t s1 newp ->
  step_agree (step1 (gm_sched s1) (gm_exec s1) (gm_results s1) newp t)
             (step2 (gm_sched s2) (gm_exec s2) (gm_results s2) newp t).
Hypothesis R_step : forall t s1 s2 newp s1' l1 s2' l2, R t s1 s2 -> P t s1 newp ->
  gsim_tick C step1 t s1 newp = Ok (s1', l1) -> gsim_tick C step2 t s2 newp = Ok (s2', l2) ->
  R (t + 1)%Z s1' s2'.

Lemma gsim_run_rel : forall arrivals t s1 s2,
  R t s1 s2 ->
  (forall k sk newp, nth_error (gsim_states C step1 t s1 arrivals) k = Some sk ->
                     nth_error arrivals k = Some newp -> P (t + Z.of_nat k)%Z sk newp) ->
  gforget_run (gsim_run C step1 t s1 arrivals) = gforget_run (gsim_run C step2 t s2 arrivals).
Proof.
  induction arrivals as [|newp rest IH]; intros t s1 s2 HR HP.
  - cbn. now rewrite (R_forget _ _ _ HR).
  - assert (HP0 : P t s1 newp).
    { replace t with (t + Z.of_nat 0)%Z by (cbn; lia). apply HP; reflexivity. }
    pose proof (gsim_tick_agree t s1 s2 newp (R_forget _ _ _ HR) (R_agree _ _ _ _ HR HP0)) as Hag.
    cbn [gsim_run].
    destruct (gsim_tick C step1 t s1 newp) as [[s1' l1]|e1] eqn:H1;
      destruct (gsim_tick C step2 t s2 newp) as [[s2' l2]|e2] eqn:H2; try contradiction.
    + destruct Hag as [-> _].
      assert (HR' : R (t + 1)%Z s1' s2') by (eapply R_step; eauto).
      specialize (IH (t + 1)%Z s1' s2' HR').
      assert (HP' : forall k sk np, nth_error (gsim_states C step1 (t + 1)%Z s1' rest) k = Some sk ->
                                    nth_error rest k = Some np -> P (t + 1 + Z.of_nat k)%Z sk np).
      { intros k sk np Hk Hn.
        replace (t + 1 + Z.of_nat k)%Z with (t + Z.of_nat (S k))%Z by lia.
        apply HP; [|exact Hn]. cbn [gsim_states]. rewrite H1. exact Hk. }
      specialize (IH HP').
      destruct (gsim_run C step1 (t + 1)%Z s1' rest) as [[f1 lg1] er1].
      destruct (gsim_run C step2 (t + 1)%Z s2' rest) as [[f2 lg2] er2].
      unfold gforget_run in IH |- *.
      pose proof (f_equal (fun x => fst (fst x)) IH) as Hf.
      pose proof (f_equal (fun x => snd (fst x)) IH) as Hl.
      pose proof (f_equal snd IH) as He. cbn [fst snd] in Hf, Hl, He.
      rewrite Hf, Hl, He. reflexivity.
    + subst e2. cbn. now rewrite (R_forget _ _ _ HR).
Qed.

End Simulation.

(* the same when the first scheduler may in addition stop with EOther where the second goes on *)
Lemma record_arrivals_err tick : forall newp arr e, record_arrivals tick newp arr = Err e -> e = EOther.
Proof.
  induction newp as [|p t IH]; intros arr e H; cbn in H; [discriminate|].
  destruct (existsb _ arr); [now inversion H|]. eapply IH; eauto.
Qed.

Lemma gsim_tick_step_err {SS} C (step : gstep SS) tick s newp :
  step (gm_sched s) (gm_exec s) (gm_results s) newp tick = Err EOther ->
  gsim_tick C step tick s newp = Err EOther.
Proof.
  intros H. unfold gsim_tick.
  destruct (record_arrivals tick newp (gm_arrival s)) as [arr|e] eqn:Ha; cbn [bind].
  - rewrite H. reflexivity.
  - apply record_arrivals_err in Ha. now subst.
Qed.

Section SimulationOr.
Context {S1 S2 : Type}.
Variable C : cfg.
Variable step1 : gstep S1.
Variable step2 : gstep S2.
Variable R : Z -> gsim S1 -> gsim S2 -> Prop.
Variable P : Z -> gsim S1 -> list nat -> Prop.

Hypothesis R_forget : forall t s1 s2, R t s1 s2 -> gforget s1 = gforget s2.
Hypothesis R_agree_or : forall t s1 s2 newp, R t s1 s2 -> P t s1 newp ->
  step1 (gm_sched s1) (gm_exec s1) (gm_results s1) newp t = Err EOther \/
  step_agree (step1 (gm_sched s1) (gm_exec s1) (gm_results s1) newp t)
             (step2 (gm_sched s2) (gm_exec s2) (gm_results s2) newp t).
Hypothesis R_step : forall t s1 s2 newp s1' l1 s2' l2, R t s1 s2 -> P t s1 newp ->
  gsim_tick C step1 t s1 newp = Ok (s1', l1) -> gsim_tick C step2 t s2 newp = Ok (s2', l2) ->
  R (t + 1)%Z s1' s2'.

Lemma gsim_run_rel_or : forall arrivals t s1 s2,
  R t s1 s2 ->
  (forall k sk newp, nth_error (gsim_states C step1 t s1 arrivals) k = Some sk ->
                     nth_error arrivals k = Some newp -> P (t + Z.of_nat k)%Z sk newp) ->
  snd (gsim_run C step1 t s1 arrivals) = Some EOther \/
  gforget_run (gsim_run C step1 t s1 arrivals) = gforget_run (gsim_run C step2 t s2 arrivals).
Proof.
  induction arrivals as [|newp rest IH]; intros t s1 s2 HR HP.
  - right. cbn. now rewrite (R_forget _ _ _ HR).
  - assert (HP0 : P t s1 newp).
    { replace t with (t + Z.of_nat 0)%Z by (cbn; lia). apply HP; reflexivity. }
    cbn [gsim_run].
    destruct (R_agree_or _ _ _ _ HR HP0) as [Herr|Hagree].
    { left. rewrite (gsim_tick_step_err C step1 t s1 newp Herr). reflexivity. }
    pose proof (gsim_tick_agree C step1 step2 t s1 s2 newp (R_forget _ _ _ HR) Hagree) as Hag.
    destruct (gsim_tick C step1 t s1 newp) as [[s1' l1]|e1] eqn:H1;
      destruct (gsim_tick C step2 t s2 newp) as [[s2' l2]|e2] eqn:H2; try contradiction.
    + destruct Hag as [-> _].
      assert (HR' : R (t + 1)%Z s1' s2') by (eapply R_step; eauto).
      assert (HP' : forall k sk np, nth_error (gsim_states C step1 (t + 1)%Z s1' rest) k = Some sk ->
                                    nth_error rest k = Some np -> P (t + 1 + Z.of_nat k)%Z sk np).
      { intros k sk np Hk Hn.
        replace (t + 1 + Z.of_nat k)%Z with (t + Z.of_nat (S k))%Z by lia.
        apply HP; [|exact Hn]. cbn [gsim_states]. rewrite H1. exact Hk. }
      specialize (IH (t + 1)%Z s1' s2' HR' HP').
      destruct (gsim_run C step1 (t + 1)%Z s1' rest) as [[f1 lg1] er1].
      destruct (gsim_run C step2 (t + 1)%Z s2' rest) as [[f2 lg2] er2].
      destruct IH as [IH|IH]; [left; exact IH|right].
      unfold gforget_run in IH |- *.
      pose proof (f_equal (fun x => fst (fst x)) IH) as Hf.
      pose proof (f_equal (fun x => snd (fst x)) IH) as Hl.
      pose proof (f_equal snd IH) as He. cbn [fst snd] in Hf, Hl, He.
      rewrite Hf, Hl, He. reflexivity.
    + right. subst e2. cbn. now rewrite (R_forget _ _ _ HR).
Qed.

End SimulationOr.

(* a property of every state from which a tick of the run is started *)
Section Invariant.
Context {SS : Type}.
Variable C : cfg.
Variable step : gstep SS.
Variable I : Z -> gsim SS -> Prop.
Hypothesis I_step : forall t s newp s' lg, I t s -> gsim_tick C step t s newp = Ok (s', lg) -> I (t + 1)%Z s'.

Lemma gsim_states_inv : forall arrivals t s k sk,
  I t s -> nth_error (gsim_states C step t s arrivals) k = Some sk -> I (t + Z.of_nat k)%Z sk.
Proof.
  induction arrivals as [|newp rest IH]; intros t s k sk HI Hk.
  - destruct k; discriminate.
  - cbn [gsim_states] in Hk. destruct k as [|k].
    + cbn in Hk. inversion Hk; subst. now replace (t + Z.of_nat 0)%Z with t by (cbn; lia).
    + cbn [nth_error] in Hk.
      destruct (gsim_tick C step t s newp) as [[s' lg]|e] eqn:Ht; [|destruct k; discriminate].
      replace (t + Z.of_nat (S k))%Z with (t + 1 + Z.of_nat k)%Z by lia.
      eapply IH; [|exact Hk]. eapply I_step; eauto.
Qed.

Lemma gsim_run_final_inv : forall arrivals t s sf logs e,
  I t s -> gsim_run C step t s arrivals = (sf, logs, e) -> exists t', I t' sf.
Proof.
  induction arrivals as [|newp rest IH]; intros t s sf logs e HI H; cbn [gsim_run] in H.
  - inversion H; subst. eauto.
  - destruct (gsim_tick C step t s newp) as [[s' lg]|er] eqn:Ht.
    + destruct (gsim_run C step (t + 1)%Z s' rest) as [[f l] e'] eqn:Hr. inversion H; subst.
      eapply IH; [|exact Hr]. eapply I_step; eauto.
    + inversion H; subst. eauto.
Qed.
End Invariant.

(* statistics depend on the run only through [gforget] *)
Lemma gfinal_stats_forget {S1 S2} C duration (s1 : gsim S1) (s2 : gsim S2) :
  gforget s1 = gforget s2 -> gfinal_stats C duration s1 = gfinal_stats C duration s2.
Proof.
  intros H. apply gforget_fields in H. destruct H as (He & Hr & Ho & Ha & Hl & Hc & Hn & Hu & Hx).
  unfold gfinal_stats, gwith, sim_of_g. cbn. rewrite He, Hr, Ho, Ha, Hl, Hc, Hn, Hu, Hx. reflexivity.
Qed.

Lemma gfinal_stats_sim C duration (s : sim) :
  gfinal_stats C duration (g_of_sim s) = final_stats C duration s.
Proof. destruct s; reflexivity. Qed.
